import HeraProofs.Lemmas.Basic
/-
  Well-formedness and abstraction lemmas shared by the C01/C02/C03 proofs.
-/
namespace Hera
open Gen

theorem WF.len {vm : VM} (h : WF vm) : vm.registers.length = 16 := h.1

theorem reg_range {vm : VM} (h : WF vm) {i : Nat} (hi : i < 16) : 0 ≤ reg vm i ∧ reg vm i < 65536 := by
  obtain ⟨hl, hr, _, _⟩ := h
  have hlt : i < vm.registers.length := by omega
  have hmem : vm.registers[i] ∈ vm.registers := List.getElem_mem hlt
  simpa [reg, List.getD, List.getElem?_eq_getElem hlt] using hr _ hmem

theorem reg_zero {vm : VM} (h : WF vm) : reg vm 0 = 0 := by
  obtain ⟨_, _, h0, _⟩ := h
  simp [reg, List.getD, h0]

theorem cell_range {vm : VM} (h : WF vm) (a : Nat) : 0 ≤ cell vm a ∧ cell vm a < 65536 := by
  obtain ⟨_, _, _, _, hm⟩ := h
  unfold cell
  by_cases hlt : a < vm.memory.length
  · have hmem : vm.memory[a] ∈ vm.memory := List.getElem_mem hlt
    simpa [List.getD, List.getElem?_eq_getElem hlt] using hm _ hmem
  · simp [List.getD, List.getElem?_eq_none (by omega : vm.memory.length ≤ a)]

theorem toNat_ofInt16 {x : Int} (h : 0 ≤ x ∧ x < 65536) : ((BitVec.ofInt 16 x).toNat : Int) = x := by
  simp [BitVec.toNat_ofInt]; omega

theorem ofInt16_toNat (w : BitVec 16) : BitVec.ofInt 16 (w.toNat : Int) = w := by
  apply BitVec.eq_of_toNat_eq
  simp

/-- The register as the architecture sees it. -/
theorem abs_get {vm : VM} (h : WF vm) (r : Nat) : (abs vm).get r = BitVec.ofInt 16 (reg vm r) := by
  unfold Spec.State.get abs
  by_cases hr : r = 0
  · subst hr; simp [reg_zero h]
  · simp [hr]

/-- Every in-range register value is the `toNat` of its abstraction. -/
theorem reg_eq_toNat {vm : VM} (h : WF vm) {r : Nat} (hr : r < 16) :
    reg vm r = (((abs vm).get r).toNat : Int) := by
  rw [abs_get h, toNat_ofInt16 (reg_range h hr)]

theorem getD_regSet (rs : List Int) (d : Nat) (v : Int) (r : Nat) (hd : d < rs.length) :
    (regSet rs d v).getD r 0 = if r = d ∧ d ≠ 0 then v else rs.getD r 0 := by
  unfold regSet
  by_cases hz : d = 0
  · simp [hz]
  · by_cases hrd : r = d
    · subst hrd; simp [hz, List.getD, hd]
    · simp [hz, hrd, List.getD, List.getElem?_set_ne (Ne.symm hrd)]

theorem get_setReg (σ : Spec.State) (d : Nat) (w : Spec.Word) (r : Nat) :
    (σ.setReg d w).get r = if r = d ∧ d ≠ 0 then w else σ.get r := by
  unfold Spec.State.setReg Spec.State.get
  by_cases hz : d = 0
  · simp [hz]
  · by_cases hr0 : r = 0
    · subst hr0; simp [hz, Ne.symm hz]
    · by_cases hrd : r = d <;> simp [hz, hr0, hrd]

theorem regSet_length (rs : List Int) (d : Nat) (v : Int) : (regSet rs d v).length = rs.length := by
  unfold regSet; split <;> simp

theorem regSet_mem {rs : List Int} {d : Nat} {v : Int} {x : Int} (hx : x ∈ regSet rs d v) : x ∈ rs ∨ x = v := by
  unfold regSet at hx
  split at hx
  · exact Or.inl hx
  · rcases List.mem_or_eq_of_mem_set hx with h | h
    · exact Or.inl h
    · exact Or.inr h

theorem regSet_zero {rs : List Int} {d : Nat} {v : Int} (h0 : rs[0]? = some 0) : (regSet rs d v)[0]? = some 0 := by
  unfold regSet
  split
  · exact h0
  · rename_i hz
    rw [List.getElem?_set_ne (by omega)]
    exact h0

/-- Writing an in-range value to a register keeps the machine well-formed. -/
theorem WF_of_regwrite {vm vm' : VM} (h : WF vm) {d : Nat} {v : Int} (hv : 0 ≤ v ∧ v < 65536)
    (hregs : vm'.registers = regSet vm.registers d v) (hmem : vm'.memory = vm.memory) : WF vm' := by
  obtain ⟨hl, hr, h0, hm⟩ := h
  refine ⟨?_, ?_, ?_, ?_⟩
  · rw [hregs, regSet_length]; exact hl
  · intro r hrm
    rw [hregs] at hrm
    rcases regSet_mem hrm with h | h
    · exact hr r h
    · subst h; exact hv
  · rw [hregs]; exact regSet_zero h0
  · rw [hmem]; exact hm

/-- A VM attribute outside the architecture's state. -/
def OutEvent.isWarning : OutEvent → Bool
  | .warning _ _ => true
  | _ => false

/-- Everything outside registers / flags / memory / pc / halted / call-stack bookkeeping is unchanged, except
    that warnings may have been appended to the output (and counted). -/
def Untouched (vm vm' : VM) : Prop :=
  vm'.dc = vm.dc ∧ vm'.input_buffer = vm.input_buffer ∧ vm'.input_pos = vm.input_pos ∧
  vm'.op_count = vm.op_count ∧ vm'.location = vm.location ∧
  vm'.warned_for_SWI = vm.warned_for_SWI ∧ vm'.warned_for_RTI = vm.warned_for_RTI ∧
  vm'.settings.data_start = vm.settings.data_start ∧ vm'.settings.warn_return_on = vm.settings.warn_return_on ∧
  vm'.settings.throttle = vm.settings.throttle ∧ vm'.settings.init = vm.settings.init ∧
  ∃ ws, vm'.out = vm.out ++ ws ∧ ∀ e ∈ ws, e.isWarning = true

theorem stackWarn_out (d : Nat) (v : Int) (vm : VM) :
    ∃ ws, (stackWarn d v vm).out = vm.out ++ ws ∧ ∀ e ∈ ws, e.isWarning = true := by
  unfold stackWarn
  split
  · exact ⟨[_], rfl, by simp [OutEvent.isWarning]⟩
  · exact ⟨[], by simp, by simp⟩

/-- Abstraction after a register write + flag update + `pc+1`. -/
theorem eqv_of_regwrite {vm vm' : VM} (hwf : WF vm) {d : Nat} (hd : d < 16) {res : Int}
    (hr : 0 ≤ res ∧ res < 65536)
    (hregs : vm'.registers = regSet vm.registers d res) (hmem : vm'.memory = vm.memory)
    (hpc : vm'.pc = vm.pc + 1) (hh : vm'.halted = vm.halted)
    {f' : Spec.Flags} (hf : absFlags vm' = f') {w : Spec.Word} (hw : BitVec.ofInt 16 res = w) :
    WF vm' ∧ Spec.State.Eqv (abs vm') (({ abs vm with fl := f' }.setReg d w).next) := by
  have hwf' := WF_of_regwrite hwf hr hregs hmem
  refine ⟨hwf', ?_, ?_, ?_, ?_, ?_⟩
  · intro r _
    have hdl : d < vm.registers.length := by rw [hwf.len]; exact hd
    have e1 : (Spec.State.next ((Spec.State.setReg { abs vm with fl := f' } d w))).get r
        = (Spec.State.setReg { abs vm with fl := f' } d w).get r := rfl
    rw [abs_get hwf', e1, get_setReg]
    have e2 : Spec.State.get { abs vm with fl := f' } r = (abs vm).get r := rfl
    rw [e2, abs_get hwf]
    unfold reg
    rw [hregs, getD_regSet _ _ _ _ hdl]
    split <;> simp [hw]
  · intro a
    have : (Spec.State.next (Spec.State.setReg { abs vm with fl := f' } d w)).mem a = (abs vm).mem a := by
      unfold Spec.State.next Spec.State.setReg; split <;> rfl
    rw [this]; simp [abs, cell, hmem]
  · have : (Spec.State.next (Spec.State.setReg { abs vm with fl := f' } d w)).fl = f' := by
      unfold Spec.State.next Spec.State.setReg; split <;> rfl
    rw [this]; exact hf
  · have : (Spec.State.next (Spec.State.setReg { abs vm with fl := f' } d w)).pc = vm.pc + 1 := by
      unfold Spec.State.next Spec.State.setReg; split <;> rfl
    rw [this]; exact hpc
  · have : (Spec.State.next (Spec.State.setReg { abs vm with fl := f' } d w)).halted = vm.halted := by
      unfold Spec.State.next Spec.State.setReg; split <;> rfl
    rw [this]; exact hh

end Hera
