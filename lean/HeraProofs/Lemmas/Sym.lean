import HeraProofs.Lemmas.WF
import HeraModel.Model.Lib
/-
  Projection lemmas for symbolic execution with `Spec.exec`: what each component of the state is after one instruction,
  in terms of the components before. Rewriting with them evaluates straight-line code outward-in without ever
  unfolding a state record.
-/
namespace Hera
namespace Sym
open Spec

variable (σ : State)

theorem sr_mem (d : Nat) (w : Word) : (σ.setReg d w).mem = σ.mem := by unfold State.setReg; split <;> rfl
theorem sr_fl (d : Nat) (w : Word) : (σ.setReg d w).fl = σ.fl := by unfold State.setReg; split <;> rfl
theorem sr_pc (d : Nat) (w : Word) : (σ.setReg d w).pc = σ.pc := by unfold State.setReg; split <;> rfl
theorem sr_halted (d : Nat) (w : Word) : (σ.setReg d w).halted = σ.halted := by unfold State.setReg; split <;> rfl
theorem wp_get (p : Int) (r : Nat) : ({ σ with pc := p } : State).get r = σ.get r := rfl
theorem nx_get (r : Nat) : σ.next.get r = σ.get r := rfl
theorem nx_mem : σ.next.mem = σ.mem := rfl
theorem nx_fl : σ.next.fl = σ.fl := rfl
theorem nx_pc : σ.next.pc = σ.pc + 1 := rfl
theorem nx_halted : σ.next.halted = σ.halted := rfl
theorem wf_get (f : Flags) (r : Nat) : ({ σ with fl := f } : State).get r = σ.get r := rfl

-- SETLO / SETHI
theorem setlo_get (d : Nat) (v : Int) (r : Nat) :
    (exec (.setlo d v) σ).get r = if r = d ∧ d ≠ 0 then (BitVec.ofInt 8 v).signExtend 16 else σ.get r := by
  simp [exec, nx_get, wf_get, get_setReg]
theorem setlo_mem (d : Nat) (v : Int) : (exec (.setlo d v) σ).mem = σ.mem := by simp [exec, nx_mem, nx_fl, nx_pc, nx_halted, sr_mem, sr_fl, sr_pc, sr_halted]
theorem setlo_fl (d : Nat) (v : Int) : (exec (.setlo d v) σ).fl = σ.fl := by simp [exec, nx_mem, nx_fl, nx_pc, nx_halted, sr_mem, sr_fl, sr_pc, sr_halted]
theorem setlo_pc (d : Nat) (v : Int) : (exec (.setlo d v) σ).pc = σ.pc + 1 := by simp [exec, nx_mem, nx_fl, nx_pc, nx_halted, sr_mem, sr_fl, sr_pc, sr_halted]
theorem setlo_halted (d : Nat) (v : Int) : (exec (.setlo d v) σ).halted = σ.halted := by simp [exec, nx_mem, nx_fl, nx_pc, nx_halted, sr_mem, sr_fl, sr_pc, sr_halted]

theorem sethi_get (d : Nat) (v : Int) (r : Nat) :
    (exec (.sethi d v) σ).get r = if r = d ∧ d ≠ 0 then (BitVec.ofInt 8 v ++ (σ.get d).truncate 8 : BitVec 16) else σ.get r := by
  simp [exec, nx_get, wf_get, get_setReg]
theorem sethi_mem (d : Nat) (v : Int) : (exec (.sethi d v) σ).mem = σ.mem := by simp [exec, nx_mem, nx_fl, nx_pc, nx_halted, sr_mem, sr_fl, sr_pc, sr_halted]
theorem sethi_fl (d : Nat) (v : Int) : (exec (.sethi d v) σ).fl = σ.fl := by simp [exec, nx_mem, nx_fl, nx_pc, nx_halted, sr_mem, sr_fl, sr_pc, sr_halted]
theorem sethi_pc (d : Nat) (v : Int) : (exec (.sethi d v) σ).pc = σ.pc + 1 := by simp [exec, nx_mem, nx_fl, nx_pc, nx_halted, sr_mem, sr_fl, sr_pc, sr_halted]
theorem sethi_halted (d : Nat) (v : Int) : (exec (.sethi d v) σ).halted = σ.halted := by simp [exec, nx_mem, nx_fl, nx_pc, nx_halted, sr_mem, sr_fl, sr_pc, sr_halted]

-- three-register ALU
theorem alu3_get (op : Alu3) (d a b : Nat) (r : Nat) :
    (exec (.alu3 op d a b) σ).get r = if r = d ∧ d ≠ 0 then (alu3 op (σ.get a) (σ.get b) σ.fl).1 else σ.get r := by
  simp [exec, nx_get, wf_get, get_setReg]
theorem alu3_mem (op : Alu3) (d a b : Nat) : (exec (.alu3 op d a b) σ).mem = σ.mem := by simp [exec, nx_mem, nx_fl, nx_pc, nx_halted, sr_mem, sr_fl, sr_pc, sr_halted]
theorem alu3_fl (op : Alu3) (d a b : Nat) : (exec (.alu3 op d a b) σ).fl = (alu3 op (σ.get a) (σ.get b) σ.fl).2 := by simp [exec, nx_mem, nx_fl, nx_pc, nx_halted, sr_mem, sr_fl, sr_pc, sr_halted]
theorem alu3_pc (op : Alu3) (d a b : Nat) : (exec (.alu3 op d a b) σ).pc = σ.pc + 1 := by simp [exec, nx_mem, nx_fl, nx_pc, nx_halted, sr_mem, sr_fl, sr_pc, sr_halted]
theorem alu3_halted (op : Alu3) (d a b : Nat) : (exec (.alu3 op d a b) σ).halted = σ.halted := by simp [exec, nx_mem, nx_fl, nx_pc, nx_halted, sr_mem, sr_fl, sr_pc, sr_halted]

-- INC
theorem inc_get (d : Nat) (k : Int) (r : Nat) :
    (exec (.inc d k) σ).get r = if r = d ∧ d ≠ 0 then (addc (σ.get d) (BitVec.ofInt 16 k) false).1 else σ.get r := by
  simp [exec, nx_get, wf_get, get_setReg]
theorem inc_mem (d : Nat) (k : Int) : (exec (.inc d k) σ).mem = σ.mem := by simp [exec, nx_mem, nx_fl, nx_pc, nx_halted, sr_mem, sr_fl, sr_pc, sr_halted]
theorem inc_fl (d : Nat) (k : Int) : (exec (.inc d k) σ).fl =
    { (σ.fl.setSZ (addc (σ.get d) (BitVec.ofInt 16 k) false).1) with
        c := (addc (σ.get d) (BitVec.ofInt 16 k) false).2.1, v := (addc (σ.get d) (BitVec.ofInt 16 k) false).2.2 } := by
  simp only [exec]
  rw [nx_fl, sr_fl]
theorem inc_pc (d : Nat) (k : Int) : (exec (.inc d k) σ).pc = σ.pc + 1 := by simp [exec, nx_mem, nx_fl, nx_pc, nx_halted, sr_mem, sr_fl, sr_pc, sr_halted]
theorem inc_halted (d : Nat) (k : Int) : (exec (.inc d k) σ).halted = σ.halted := by simp [exec, nx_mem, nx_fl, nx_pc, nx_halted, sr_mem, sr_fl, sr_pc, sr_halted]

-- DEC
theorem dec_get (d : Nat) (k : Int) (r : Nat) :
    (exec (.dec d k) σ).get r = if r = d ∧ d ≠ 0 then (subc (σ.get d) (BitVec.ofInt 16 k) true).1 else σ.get r := by
  simp [exec, nx_get, wf_get, get_setReg]
theorem dec_mem (d : Nat) (k : Int) : (exec (.dec d k) σ).mem = σ.mem := by
  simp [exec, nx_mem, nx_fl, nx_pc, nx_halted, sr_mem, sr_fl, sr_pc, sr_halted]
theorem dec_pc (d : Nat) (k : Int) : (exec (.dec d k) σ).pc = σ.pc + 1 := by
  simp [exec, nx_mem, nx_fl, nx_pc, nx_halted, sr_mem, sr_fl, sr_pc, sr_halted]
theorem dec_halted (d : Nat) (k : Int) : (exec (.dec d k) σ).halted = σ.halted := by
  simp [exec, nx_mem, nx_fl, nx_pc, nx_halted, sr_mem, sr_fl, sr_pc, sr_halted]

-- LOAD / STORE
theorem load_get (d : Nat) (o : Int) (b : Nat) (r : Nat) :
    (exec (.load d o b) σ).get r = if r = d ∧ d ≠ 0 then σ.mem (σ.get b + BitVec.ofInt 16 o) else σ.get r := by
  simp [exec, nx_get, wf_get, get_setReg]
theorem load_mem (d : Nat) (o : Int) (b : Nat) : (exec (.load d o b) σ).mem = σ.mem := by simp [exec, nx_mem, nx_fl, nx_pc, nx_halted, sr_mem, sr_fl, sr_pc, sr_halted]
theorem load_fl (d : Nat) (o : Int) (b : Nat) :
    (exec (.load d o b) σ).fl = σ.fl.setSZ (σ.mem (σ.get b + BitVec.ofInt 16 o)) := by simp [exec, nx_mem, nx_fl, nx_pc, nx_halted, sr_mem, sr_fl, sr_pc, sr_halted]
theorem load_pc (d : Nat) (o : Int) (b : Nat) : (exec (.load d o b) σ).pc = σ.pc + 1 := by simp [exec, nx_mem, nx_fl, nx_pc, nx_halted, sr_mem, sr_fl, sr_pc, sr_halted]
theorem load_halted (d : Nat) (o : Int) (b : Nat) : (exec (.load d o b) σ).halted = σ.halted := by simp [exec, nx_mem, nx_fl, nx_pc, nx_halted, sr_mem, sr_fl, sr_pc, sr_halted]

theorem store_get (d : Nat) (o : Int) (b : Nat) (r : Nat) : (exec (.store d o b) σ).get r = σ.get r := by
  simp [exec, State.get, State.next]
theorem store_mem (d : Nat) (o : Int) (b : Nat) (x : Word) :
    (exec (.store d o b) σ).mem x = if x = σ.get b + BitVec.ofInt 16 o then σ.get d else σ.mem x := by simp [exec, State.next]
theorem store_fl (d : Nat) (o : Int) (b : Nat) : (exec (.store d o b) σ).fl = σ.fl := by simp [exec, State.next]
theorem store_pc (d : Nat) (o : Int) (b : Nat) : (exec (.store d o b) σ).pc = σ.pc + 1 := by simp [exec, State.next]
theorem store_halted (d : Nat) (o : Int) (b : Nat) : (exec (.store d o b) σ).halted = σ.halted := by simp [exec, State.next]

-- FON / FOFF
theorem fon_get (v : Int) (r : Nat) : (exec (.fon v) σ).get r = σ.get r := by simp [exec, State.get, State.next]
theorem fon_mem (v : Int) : (exec (.fon v) σ).mem = σ.mem := by simp [exec, State.next]
theorem fon_pc (v : Int) : (exec (.fon v) σ).pc = σ.pc + 1 := by simp [exec, State.next]
theorem fon_halted (v : Int) : (exec (.fon v) σ).halted = σ.halted := by simp [exec, State.next]
theorem fon8_fl : (exec (.fon 8) σ).fl = { σ.fl with c := true } := by
  simp [exec, State.next, show flagsOfInt 8 = { s := false, z := false, v := false, c := true, cb := false } by decide]
theorem foff_get (v : Int) (r : Nat) : (exec (.foff v) σ).get r = σ.get r := by simp [exec, State.get, State.next]
theorem foff_mem (v : Int) : (exec (.foff v) σ).mem = σ.mem := by simp [exec, State.next]
theorem foff_pc (v : Int) : (exec (.foff v) σ).pc = σ.pc + 1 := by simp [exec, State.next]
theorem foff_halted (v : Int) : (exec (.foff v) σ).halted = σ.halted := by simp [exec, State.next]
theorem foff8_fl : (exec (.foff 8) σ).fl = { σ.fl with c := false } := by
  simp [exec, State.next, show flagsOfInt 8 = { s := false, z := false, v := false, c := true, cb := false } by decide]

-- branches
theorem brr_get (c : Cond) (o : Int) (r : Nat) : (exec (.brr c o) σ).get r = σ.get r := by
  simp only [exec]; split
  · rfl
  · split <;> rfl
theorem brr_mem (c : Cond) (o : Int) : (exec (.brr c o) σ).mem = σ.mem := by
  simp only [exec]; split
  · rfl
  · split <;> rfl
theorem brr_fl (c : Cond) (o : Int) : (exec (.brr c o) σ).fl = σ.fl := by
  simp only [exec]; split
  · rfl
  · split <;> rfl
theorem brr_pc (c : Cond) (o : Int) (h : ¬(c = .always ∧ o = 0)) :
    (exec (.brr c o) σ).pc = if c.holds σ.fl then σ.pc + sbyte o else σ.pc + 1 := by
  simp only [exec, if_neg h]; split <;> rfl
theorem brr_halted (c : Cond) (o : Int) (h : ¬(c = .always ∧ o = 0)) : (exec (.brr c o) σ).halted = σ.halted := by
  simp only [exec, if_neg h]; split <;> rfl

theorem br_get (c : Cond) (b : Nat) (r : Nat) : (exec (.br c b) σ).get r = σ.get r := by
  simp only [exec]; split <;> rfl
theorem br_mem (c : Cond) (b : Nat) : (exec (.br c b) σ).mem = σ.mem := by
  simp only [exec]; split <;> rfl
theorem br_fl (c : Cond) (b : Nat) : (exec (.br c b) σ).fl = σ.fl := by
  simp only [exec]; split <;> rfl
theorem br_pc (c : Cond) (b : Nat) : (exec (.br c b) σ).pc = if c.holds σ.fl then ((σ.get b).toNat : Int) else σ.pc + 1 := by
  simp only [exec]; split <;> rfl
theorem br_halted (c : Cond) (b : Nat) : (exec (.br c b) σ).halted = σ.halted := by
  simp only [exec]; split <;> rfl

-- RETURN(FP_alt, PC_ret) as the library writes it: a = 12, b = 13
theorem ret_get (r : Nat) :
    (exec (.ret 12 13) σ).get r =
      if r = 12 then σ.get 14 else if r = 14 then σ.get 12 else if r = 13 then BitVec.ofInt 16 (σ.pc + 1) else σ.get r := by
  simp only [exec, get_setReg, wp_get]
  by_cases h12 : r = 12
  · simp [h12]
  · by_cases h14 : r = 14
    · simp [h14]
    · by_cases h13 : r = 13
      · simp [h13]
      · simp [h12, h13, h14]
theorem ret_mem : (exec (.ret 12 13) σ).mem = σ.mem := by simp [exec, sr_mem]
theorem ret_fl : (exec (.ret 12 13) σ).fl = σ.fl := by simp [exec, sr_fl]
theorem ret_pc : (exec (.ret 12 13) σ).pc = ((σ.get 13).toNat : Int) := by simp [exec, sr_pc]
theorem ret_halted : (exec (.ret 12 13) σ).halted = σ.halted := by simp [exec, sr_halted]

/-- one step of a routine: the instruction at `pc` is executed -/
theorem run_succ (base : Int) (code : List Instr) (n : Nat) (i : Instr) (hh : σ.halted = false)
    (hf : Lib.fetch base code σ.pc = some i) : Lib.run base code (n + 1) σ = Lib.run base code n (exec i σ) := by
  simp [Lib.run, Lib.step, hh, hf]

end Sym
end Hera
