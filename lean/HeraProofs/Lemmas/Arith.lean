import HeraProofs.Lemmas.WF
import Mathlib.Tactic.Ring
import Mathlib.Tactic.NormNum
/-
  Arithmetic cores: the Python integer formulas of the translated `calculate`/`execute`
  bodies against the BitVec characterisations of `Spec.ISA`, for all operands and flags.
-/
namespace Hera
open Gen

theorem word_lt (x : BitVec 16) : (x.toNat : Int) < 65536 := by have := x.isLt; omega
theorem word_nonneg (x : BitVec 16) : (0 : Int) ≤ x.toNat := by omega

/-- sign/zero flags computed by `set_zero_and_sign` agree with the architecture's. -/
theorem sz_core {res : Int} (hr : 0 ≤ res ∧ res < 65536) {w : BitVec 16} (hw : BitVec.ofInt 16 res = w) :
    decide (res = 0) = (w == 0) ∧ decide (res / 32768 % 2 * 32768 ≠ 0) = w.msb := by
  subst hw
  constructor
  · rw [Bool.eq_iff_iff]
    simp only [decide_eq_true_eq, beq_iff_eq]
    constructor
    · intro h; subst h; rfl
    · intro h
      have := congrArg BitVec.toNat h
      simp [BitVec.toNat_ofInt] at this
      omega
  · rw [BitVec.msb_eq_decide, Bool.eq_iff_iff]
    simp [BitVec.toNat_ofInt]
    omega

theorem add_core (x y : BitVec 16) (c cb : Bool) :
    let carry : Int := if (!cb && c) = true then 1 else 0
    let res : Int := ((x.toNat : Int) + y.toNat + carry) % 65536
    let r := Spec.addc x y (c && !cb)
    (0 ≤ res ∧ res < 65536) ∧ BitVec.ofInt 16 res = r.1 ∧
    decide (res < (x.toNat : Int) + y.toNat + carry) = r.2.1 ∧
    decide (from_u16 res ≠ from_u16 x.toNat + from_u16 y.toNat + carry) = r.2.2 := by
  have hx := x.isLt
  have hy := y.isLt
  refine ⟨by omega, ?_, ?_, ?_⟩
  · apply BitVec.eq_of_toNat_eq
    cases c <;> cases cb <;>
      simp [Spec.addc, BitVec.adc_spec, BitVec.toNat_ofInt, BitVec.toNat_add] <;> omega
  · cases c <;> cases cb <;>
      simp [Spec.addc, BitVec.adc_spec, BitVec.carry] <;> omega
  · cases c <;> cases cb <;>
      simp only [Spec.addc, from_u16, BitVec.adc_spec, BitVec.msb_eq_decide, BitVec.toNat_add] <;>
      simp <;> (rw [Bool.eq_iff_iff]; simp) <;> omega



theorem to_u16_eq {n : Int} (h : 0 ≤ n ∧ n < 65536) : to_u16 n = .ok n := by
  unfold to_u16
  have h1 : ¬ (n ≥ 65536) := by omega
  have h2 : ¬ (n < -32768) := by omega
  have h3 : ¬ (n < 0) := by omega
  simp [h1, h2, h3]
  first | rfl | exact congrArg Except.ok (by omega)

theorem sub_core (x y : BitVec 16) (c cb : Bool) :
    let borrow : Int := if (!cb && !c) = true then 1 else 0
    let res : Int := ((x.toNat : Int) - y.toNat - borrow) % 65536
    let r := Spec.subc x y (c || cb)
    (0 ≤ res ∧ res < 65536) ∧ BitVec.ofInt 16 res = r.1 ∧
    decide ((x.toNat : Int) ≥ y.toNat + borrow) = r.2.1 ∧
    decide (from_u16 res ≠ from_u16 x.toNat - from_u16 y.toNat - borrow) = r.2.2 := by
  have hx := x.isLt
  have hy := y.isLt
  refine ⟨by omega, ?_, ?_, ?_⟩
  · apply BitVec.eq_of_toNat_eq
    cases c <;> cases cb <;>
      simp [Spec.subc, Spec.addc, BitVec.adc_spec, BitVec.toNat_ofInt, BitVec.toNat_add] <;> omega
  · cases c <;> cases cb <;>
      simp [Spec.subc, Spec.addc, BitVec.adc_spec, BitVec.carry] <;> omega
  · cases c <;> cases cb <;>
      simp only [Spec.subc, Spec.addc, from_u16, BitVec.adc_spec, BitVec.msb_eq_decide, BitVec.toNat_add, BitVec.toNat_not] <;>
      simp <;> (rw [Bool.eq_iff_iff]; simp) <;> omega


theorem pyand_word (x y : BitVec 16) :
    (0 ≤ Py.and (x.toNat : Int) y.toNat ∧ Py.and (x.toNat : Int) y.toNat < 65536) ∧
    BitVec.ofInt 16 (Py.and (x.toNat : Int) y.toNat) = x &&& y := by
  have e : Py.and (x.toNat : Int) y.toNat = ((x &&& y).toNat : Int) := by
    simp [Py.and, Py.natAnd]
  rw [e]
  exact ⟨⟨by omega, word_lt _⟩, ofInt16_toNat _⟩

theorem pyor_word (x y : BitVec 16) :
    (0 ≤ Py.or (x.toNat : Int) y.toNat ∧ Py.or (x.toNat : Int) y.toNat < 65536) ∧
    BitVec.ofInt 16 (Py.or (x.toNat : Int) y.toNat) = x ||| y := by
  have e : Py.or (x.toNat : Int) y.toNat = ((x ||| y).toNat : Int) := by
    simp [Py.or, Py.natOr]
  rw [e]
  exact ⟨⟨by omega, word_lt _⟩, ofInt16_toNat _⟩

theorem pyxor_word (x y : BitVec 16) :
    (0 ≤ Py.xor (x.toNat : Int) y.toNat ∧ Py.xor (x.toNat : Int) y.toNat < 65536) ∧
    BitVec.ofInt 16 (Py.xor (x.toNat : Int) y.toNat) = x ^^^ y := by
  have e : Py.xor (x.toNat : Int) y.toNat = ((x ^^^ y).toNat : Int) := by
    simp [Py.xor, Py.natXor]
  rw [e]
  exact ⟨⟨by omega, word_lt _⟩, ofInt16_toNat _⟩




theorem from_u16_toNat (x : BitVec 16) : from_u16 (x.toNat : Int) = x.toInt := by
  have hx := x.isLt
  unfold from_u16
  rw [BitVec.toInt_eq_toNat_cond]
  simp only [ge_iff_le, decide_eq_true_eq]
  split <;> split <;> omega

/-- unsigned and signed products are congruent modulo 2^16 -/
theorem mul_congr (x y : BitVec 16) :
    ∃ k : Int, (x.toNat : Int) * y.toNat = x.toInt * y.toInt + 65536 * k := by
  have hx := x.isLt
  have hy := y.isLt
  rw [BitVec.toInt_eq_toNat_cond x, BitVec.toInt_eq_toNat_cond y]
  split <;> split
  · exact ⟨0, by simp⟩
  · exact ⟨x.toNat, by push_cast; ring⟩
  · exact ⟨y.toNat, by push_cast; ring⟩
  · exact ⟨(x.toNat : Int) + y.toNat - 65536, by push_cast; ring⟩

theorem mul_low_core (x y : BitVec 16) :
    let res : Int := ((x.toNat : Int) * y.toNat) % 65536
    (0 ≤ res ∧ res < 65536) ∧ BitVec.ofInt 16 res = x * y ∧
    decide (res < (x.toNat : Int) * y.toNat) = decide (65536 ≤ x.toNat * y.toNat) ∧
    decide (from_u16 res ≠ from_u16 x.toNat * from_u16 y.toNat)
      = decide (x.toInt * y.toInt < -32768 ∨ 32768 ≤ x.toInt * y.toInt) := by
  have hp : (0 : Int) ≤ (x.toNat : Int) * y.toNat := Int.mul_nonneg (by omega) (by omega)
  refine ⟨by omega, ?_, ?_, ?_⟩
  · apply BitVec.eq_of_toNat_eq
    simp only [BitVec.toNat_ofInt, BitVec.toNat_mul]
    have : ((x.toNat : Int) * y.toNat) % 65536 = ((x.toNat * y.toNat % 65536 : Nat) : Int) := by
      push_cast; rfl
    rw [this]
    omega
  · rw [Bool.eq_iff_iff]
    simp only [decide_eq_true_eq]
    have : ((x.toNat * y.toNat : Nat) : Int) = (x.toNat : Int) * y.toNat := by push_cast; rfl
    omega
  · rw [from_u16_toNat, from_u16_toNat]
    obtain ⟨k, hk⟩ := mul_congr x y
    rw [hk]
    generalize x.toInt * y.toInt = q
    unfold from_u16
    rw [Bool.eq_iff_iff]
    simp only [decide_eq_true_eq, ne_eq, ge_iff_le]
    split <;> omega




theorem to_u32_eq {n : Int} (h : -2147483648 ≤ n ∧ n < 4294967296) :
    to_u32 n = .ok (if n < 0 then 4294967296 + n else n) := by
  unfold to_u32
  have h1 : ¬ (n ≥ 4294967296) := by omega
  have h2 : ¬ (n < -2147483648) := by omega
  by_cases h3 : n < 0 <;> simp [h1, h2, h3] <;> first | rfl | exact congrArg Except.ok (by omega)

theorem to_u32_from_u16 (x : BitVec 16) :
    to_u32 (from_u16 (x.toNat : Int)) = .ok (((x.signExtend 32).toNat : Nat) : Int) := by
  have hx := x.isLt
  have e : ((x.signExtend 32).toNat : Int) = if (x.toNat : Int) ≥ 32768 then (x.toNat : Int) + 4294901760 else x.toNat := by
    rw [BitVec.toNat_signExtend, BitVec.msb_eq_decide]
    simp only [BitVec.toNat_setWidth]
    by_cases h : 2 ^ (16 - 1) ≤ x.toNat
    · simp [h]; omega
    · simp [h]; omega
  rw [e, to_u32_eq (by unfold from_u16; split <;> omega)]
  congr 1
  unfold from_u16
  simp only [ge_iff_le, decide_eq_true_eq]
  split <;> split <;> omega

theorem mul_high_core (x y : BitVec 16) :
    let L : Int := ((x.signExtend 32).toNat : Nat)
    let R : Int := ((y.signExtend 32).toNat : Nat)
    let res : Int := ((L * R) % 4294967296 - (L * R) % 65536) / 65536
    (0 ≤ res ∧ res < 65536) ∧
    BitVec.ofInt 16 res = (((x.signExtend 32 * y.signExtend 32) >>> 16).truncate 16 : BitVec 16) := by
  intro L R res
  have hres : res = (((x.signExtend 32).toNat * (y.signExtend 32).toNat % 4294967296 / 65536 : Nat) : Int) := by
    show ((L * R) % 4294967296 - (L * R) % 65536) / 65536 = _
    have : L * R = (((x.signExtend 32).toNat * (y.signExtend 32).toNat : Nat) : Int) := by push_cast; rfl
    rw [this]
    generalize (x.signExtend 32).toNat * (y.signExtend 32).toNat = P
    omega
  have hlt : (x.signExtend 32).toNat * (y.signExtend 32).toNat % 4294967296 / 65536 < 65536 := by omega
  refine ⟨by omega, ?_⟩
  apply BitVec.eq_of_toNat_eq
  rw [hres]
  simp only [BitVec.toNat_ofInt, BitVec.truncate_eq_setWidth, BitVec.toNat_setWidth, BitVec.toNat_ushiftRight, BitVec.toNat_mul,
    Nat.shiftRight_eq_div_pow]
  omega




theorem msb_core (w : BitVec 16) : decide ((w.toNat : Int) / 32768 % 2 * 32768 ≠ 0) = w.msb := by
  have := w.isLt
  rw [BitVec.msb_eq_decide, Bool.eq_iff_iff]
  simp
  omega

theorem lsb_core (w : BitVec 16) : decide ((w.toNat : Int) % 2 = 1) = w.getLsbD 0 := by
  rw [Bool.eq_iff_iff]
  simp [BitVec.getLsbD, Nat.testBit]
  omega

theorem lsb_core' (w : BitVec 16) : decide ((w.toNat : Int) % 2 ≠ 0) = w.getLsbD 0 := by
  rw [← lsb_core, Bool.eq_iff_iff]; simp; omega

theorem shl1_or (x : BitVec 16) (ci : Bool) :
    (((x <<< 1) ||| (if ci then 1 else 0) : BitVec 16)).toNat = (x.toNat * 2 + ci.toNat) % 65536 := by
  have hx := x.isLt
  cases ci
  · simp [BitVec.toNat_shiftLeft, Nat.shiftLeft_eq]
  · simp only [BitVec.toNat_or, BitVec.toNat_shiftLeft, Nat.shiftLeft_eq, ite_true, Bool.toNat_true]
    have h2 : x.toNat * 2 ^ 1 % 2 ^ 16 = 2 * ((x.toNat % 32768)) := by omega
    rw [h2]
    have := Nat.shiftLeft_add_eq_or_of_lt (i := 1) (b := 1) (by decide) (x.toNat % 32768)
    simp only [Nat.shiftLeft_eq] at this
    show 2 * (x.toNat % 32768) ||| 1 = _
    rw [show 2 * (x.toNat % 32768) = x.toNat % 32768 * 2 ^ 1 by omega, ← this]
    omega

theorem lsl_core (x : BitVec 16) (c cb : Bool) :
    let carry : Int := if (c && !cb) = true then 1 else 0
    let res : Int := ((x.toNat : Int) * 2 + carry) % 65536
    (0 ≤ res ∧ res < 65536) ∧
    BitVec.ofInt 16 res = ((x <<< 1) ||| (if (c && !cb) then 1 else 0) : BitVec 16) := by
  refine ⟨by omega, ?_⟩
  apply BitVec.eq_of_toNat_eq
  rw [shl1_or]
  simp only [BitVec.toNat_ofInt]
  cases h : (c && !cb) <;> simp <;> omega

theorem lsr_core (x : BitVec 16) (c cb : Bool) :
    let carry : Int := if (c && !cb) = true then 32768 else 0
    let res : Int := (x.toNat : Int) / 2 + carry
    (0 ≤ res ∧ res < 65536) ∧
    BitVec.ofInt 16 res = ((x >>> 1) ||| (if (c && !cb) then 0x8000 else 0) : BitVec 16) := by
  have hx := x.isLt
  refine ⟨by split <;> omega, ?_⟩
  apply BitVec.eq_of_toNat_eq
  cases h : (c && !cb)
  · simp [BitVec.toNat_ofInt, Nat.shiftRight_eq_div_pow]; omega
  · simp only [BitVec.toNat_ofInt, BitVec.toNat_or, BitVec.toNat_ushiftRight, Nat.shiftRight_eq_div_pow, ite_true]
    have := Nat.two_pow_add_eq_or_of_lt (i := 15) (b := x.toNat / 2 ^ 1) (by omega) 1
    simp only [Nat.mul_one] at this
    rw [show BitVec.toNat (32768 : BitVec 16) = 2 ^ 15 by rfl, Nat.or_comm, ← this]
    omega

theorem lsl8_core (x : BitVec 16) :
    let res : Int := ((x.toNat : Int) * 256) % 65536
    (0 ≤ res ∧ res < 65536) ∧ BitVec.ofInt 16 res = x <<< 8 := by
  refine ⟨by omega, ?_⟩
  apply BitVec.eq_of_toNat_eq
  simp [BitVec.toNat_ofInt, BitVec.toNat_shiftLeft, Nat.shiftLeft_eq]; omega

theorem lsr8_core (x : BitVec 16) :
    let res : Int := (x.toNat : Int) / 256
    (0 ≤ res ∧ res < 65536) ∧ BitVec.ofInt 16 res = x >>> 8 := by
  have hx := x.isLt
  refine ⟨by omega, ?_⟩
  apply BitVec.eq_of_toNat_eq
  simp [BitVec.toNat_ofInt, Nat.shiftRight_eq_div_pow]; omega


theorem asl_v_core (x : BitVec 16) (ci : Bool) :
    decide (Py.xor (x.toNat : Int) (((x <<< 1) ||| (if ci then 1 else 0) : BitVec 16).toNat : Int) / 32768 % 2 * 32768 ≠ 0)
      = (Spec.addc x x ci).2.2 := by
  have e : Py.xor (x.toNat : Int) (((x <<< 1) ||| (if ci then 1 else 0) : BitVec 16).toNat : Int)
      = ((x ^^^ ((x <<< 1) ||| (if ci then 1 else 0))).toNat : Int) := by
    simp [Py.xor, Py.natXor]
  rw [e, msb_core, BitVec.msb_xor]
  have hr : ((x <<< 1) ||| (if ci then 1 else 0) : BitVec 16) = (BitVec.adc x x ci).2 := by
    apply BitVec.eq_of_toNat_eq
    rw [shl1_or]
    simp [BitVec.adc_spec, BitVec.toNat_add]
    have := x.isLt
    cases ci <;> simp <;> omega
  rw [hr]
  simp [Spec.addc]
  cases x.msb <;> cases (BitVec.adc x x ci).2.msb <;> rfl

theorem asr_core (x : BitVec 16) :
    let res : Int := if ((x.toNat : Int) / 32768 % 2 * 32768 ≠ 0) then Py.or ((x.toNat : Int) / 2) 32768 else (x.toNat : Int) / 2
    (0 ≤ res ∧ res < 65536) ∧ BitVec.ofInt 16 res = x.sshiftRight 1 := by
  have hx := x.isLt
  intro res
  by_cases h : x.msb = true
  · have hb : ((x.toNat : Int) / 32768 % 2 * 32768 ≠ 0) := by
      have := msb_core x; rw [h] at this; simpa using this
    have hge : 32768 ≤ x.toNat := by
      rw [BitVec.msb_eq_decide] at h; simpa using h
    have hor : Py.or ((x.toNat : Int) / 2) 32768 = ((x.toNat / 2 + 32768 : Nat) : Int) := by
      have h1 : (0:Int) ≤ (x.toNat : Int) / 2 := by omega
      simp only [Py.or, h1, ↓reduceIte, Py.natOr, show (0:Int) ≤ 32768 by decide]
      have : ((x.toNat : Int) / 2).toNat = x.toNat / 2 := by omega
      rw [this]
      have := Nat.two_pow_add_eq_or_of_lt (i := 15) (b := x.toNat / 2) (by omega) 1
      simp only [Nat.mul_one] at this
      rw [show (32768 : Int).toNat = 2 ^ 15 by rfl, Nat.or_comm, ← this]
      congr 1; omega
    have hres : res = ((x.toNat / 2 + 32768 : Nat) : Int) := by
      show (if _ then _ else _) = _
      rw [if_pos hb, hor]
    rw [hres]
    refine ⟨by omega, ?_⟩
    apply BitVec.eq_of_toNat_eq
    rw [BitVec.toNat_sshiftRight_of_msb_true h]
    simp only [BitVec.toNat_ofInt, Nat.shiftRight_eq_div_pow]
    omega
  · have h' : x.msb = false := by simpa using h
    have hb : ¬ ((x.toNat : Int) / 32768 % 2 * 32768 ≠ 0) := by
      have := msb_core x; rw [h'] at this; simpa using this
    have hres : res = (x.toNat : Int) / 2 := by
      show (if _ then _ else _) = _
      rw [if_neg hb]
    rw [hres]
    refine ⟨by omega, ?_⟩
    apply BitVec.eq_of_toNat_eq
    rw [BitVec.toNat_sshiftRight_of_msb_false h']
    simp only [BitVec.toNat_ofInt, Nat.shiftRight_eq_div_pow]
    omega




theorem ofInt16_small_toNat {k : Int} (h : 0 ≤ k ∧ k < 65536) : (BitVec.ofInt 16 k).toNat = k.toNat := by
  simp [BitVec.toNat_ofInt]; omega

theorem inc_core (x : BitVec 16) (k : Int) (hk : 1 ≤ k ∧ k ≤ 64) :
    let res : Int := (k + (x.toNat : Int)) % 65536
    let r := Spec.addc x (BitVec.ofInt 16 k) false
    (0 ≤ res ∧ res < 65536) ∧ BitVec.ofInt 16 res = r.1 ∧
    decide (k + (x.toNat : Int) ≥ 65536) = r.2.1 ∧
    decide (from_u16 res ≠ from_u16 x.toNat + k) = r.2.2 := by
  have hx := x.isLt
  have hy := ofInt16_small_toNat (k := k) (by omega)
  refine ⟨by omega, ?_, ?_, ?_⟩
  · apply BitVec.eq_of_toNat_eq
    simp only [Spec.addc, BitVec.adc_spec, BitVec.toNat_add, hy]
    simp [BitVec.toNat_ofInt]; omega
  · simp only [Spec.addc, BitVec.adc_spec, BitVec.carry, hy]
    rw [Bool.eq_iff_iff]; simp; omega
  · simp only [Spec.addc, from_u16, BitVec.adc_spec, BitVec.msb_eq_decide, BitVec.toNat_add, hy]
    simp; (rw [Bool.eq_iff_iff]; simp); omega

theorem dec_core (x : BitVec 16) (k : Int) (hk : 1 ≤ k ∧ k ≤ 64) :
    let res : Int := ((x.toNat : Int) - k) % 65536
    let r := Spec.subc x (BitVec.ofInt 16 k) true
    (0 ≤ res ∧ res < 65536) ∧ BitVec.ofInt 16 res = r.1 ∧
    decide ((x.toNat : Int) ≥ k) = r.2.1 ∧
    decide (from_u16 res ≠ from_u16 x.toNat - k) = r.2.2 := by
  have hx := x.isLt
  have hy := ofInt16_small_toNat (k := k) (by omega)
  refine ⟨by omega, ?_, ?_, ?_⟩
  · apply BitVec.eq_of_toNat_eq
    simp only [Spec.subc, Spec.addc, BitVec.adc_spec, BitVec.toNat_add, BitVec.toNat_not, hy]
    simp [BitVec.toNat_ofInt]; omega
  · simp only [Spec.subc, Spec.addc, BitVec.adc_spec, BitVec.carry, BitVec.toNat_not, hy]
    rw [Bool.eq_iff_iff]; simp; omega
  · simp only [Spec.subc, Spec.addc, from_u16, BitVec.adc_spec, BitVec.msb_eq_decide, BitVec.toNat_add, BitVec.toNat_not, hy]
    simp; (rw [Bool.eq_iff_iff]; simp); omega

theorem setlo_core (v : Int) (hv : -128 ≤ v ∧ v < 256) :
    let value : Int := if v > 127 then v - 256 else v
    let res : Int := if value < 0 then 65536 + value else value
    (0 ≤ res ∧ res < 65536) ∧ BitVec.ofInt 16 res = (BitVec.ofInt 8 v).signExtend 16 := by
  intro value res
  refine ⟨by simp only [res, value]; split <;> split <;> omega, ?_⟩
  apply BitVec.eq_of_toNat_eq
  rw [BitVec.toNat_signExtend, BitVec.msb_eq_decide]
  simp only [BitVec.toNat_ofInt, BitVec.toNat_setWidth, res, value]
  have hm : ((v % ((2 ^ 8 : Nat) : Int)).toNat : Int) = v % 256 := by
    have : ((2 ^ 8 : Nat) : Int) = 256 := by norm_num
    rw [this]; omega
  by_cases h1 : v > 127
  · have h2 : v - 256 < 0 := by omega
    have h3 : 2 ^ (8 - 1) ≤ (v % ((2 ^ 8 : Nat) : Int)).toNat := by
      have : (2 : Nat) ^ (8 - 1) = 128 := by norm_num
      omega
    simp only [h1, h2, h3, ↓reduceIte, decide_true]
    have : ((2 ^ 16 : Nat) : Int) = 65536 := by norm_num
    rw [this]
    omega
  · by_cases h2 : v < 0
    · have h3 : 2 ^ (8 - 1) ≤ (v % ((2 ^ 8 : Nat) : Int)).toNat := by
        have : (2 : Nat) ^ (8 - 1) = 128 := by norm_num
        omega
      simp only [h1, h2, h3, ↓reduceIte, decide_true]
      have : ((2 ^ 16 : Nat) : Int) = 65536 := by norm_num
      rw [this]
      omega
    · have h3 : ¬ 2 ^ (8 - 1) ≤ (v % ((2 ^ 8 : Nat) : Int)).toNat := by
        have : (2 : Nat) ^ (8 - 1) = 128 := by norm_num
        omega
      simp only [h1, h2, h3, ↓reduceIte, decide_false, Bool.false_eq_true]
      have : ((2 ^ 16 : Nat) : Int) = 65536 := by norm_num
      rw [this]
      omega

theorem sethi_core (x : BitVec 16) (v : Int) (hv : -128 ≤ v ∧ v < 256) :
    let res : Int := (v % 256) * 256 + (x.toNat : Int) % 256
    (0 ≤ res ∧ res < 65536) ∧ BitVec.ofInt 16 res = (BitVec.ofInt 8 v ++ x.truncate 8 : BitVec 16) := by
  intro res
  refine ⟨by omega, ?_⟩
  apply BitVec.eq_of_toNat_eq
  rw [BitVec.toNat_append]
  simp only [BitVec.toNat_ofInt, BitVec.truncate_eq_setWidth, BitVec.toNat_setWidth, res]
  have h := Nat.shiftLeft_add_eq_or_of_lt (i := 8) (b := x.toNat % 2 ^ 8) (by omega) (v % ((2 ^ 8 : Nat) : Int)).toNat
  rw [← h, Nat.shiftLeft_eq]
  have e1 : ((2 ^ 8 : Nat) : Int) = 256 := by norm_num
  have e2 : ((2 ^ 16 : Nat) : Int) = 65536 := by norm_num
  rw [e1, e2]
  omega

theorem bit_core (w : BitVec 16) (k : Nat) :
    decide ((w.toNat : Int) / (2 ^ k : Nat) % 2 * (2 ^ k : Nat) ≠ 0) = w.getLsbD k := by
  rw [BitVec.getLsbD, Nat.testBit_eq_decide_div_mod_eq, Bool.eq_iff_iff]
  simp only [ne_eq, decide_not, Bool.not_eq_eq_eq_not, Bool.not_true, decide_eq_false_iff_not,
    decide_eq_true_eq]
  have hp : 0 < 2 ^ k := Nat.two_pow_pos k
  have : ((w.toNat : Int) / ((2 ^ k : Nat) : Int)) = ((w.toNat / 2 ^ k : Nat) : Int) := by simp
  rw [this]
  generalize w.toNat / 2 ^ k = q
  have : ((q : Int) % 2 * ((2 ^ k : Nat) : Int) = 0) ↔ ((q : Int) % 2 = 0) := by
    constructor
    · intro h
      rcases Int.mul_eq_zero.mp h with h | h
      · exact h
      · omega
    · intro h; rw [h]; simp
  rw [this]
  omega


end Hera
