import HeraProofs.Lemmas.Frame
/-
  Memory lemmas: `load_memory` / `store_memory` on the lazily grown memory list.
-/
namespace Hera
open Gen

/-- `store_memory`'s effect on the (lazily grown) memory list -/
def memSet (m : List Int) (a : Nat) (v : Int) : List Int :=
  if a ≥ m.length then (m ++ List.replicate (a - m.length + 1) 0).set a v else m.set a v

theorem load_memory_eq (vm : VM) (addr : Int) (h0 : 0 ≤ addr) :
    VM.load_memory addr vm = .ok (cell vm addr.toNat, vm) := by
  unfold VM.load_memory cell
  by_cases h : addr ≥ Py.len vm.memory
  · have : vm.memory.length ≤ addr.toNat := by unfold Py.len at h; omega
    simp [h, List.getD, List.getElem?_eq_none this]
  · have hlt : addr.toNat < vm.memory.length := by unfold Py.len at h; omega
    simp [h, Py.listGet, h0, List.getD, List.getElem?_eq_getElem hlt]

theorem store_memory_eq (vm : VM) (addr v : Int) (h0 : 0 ≤ addr) :
    VM.store_memory addr v vm = .ok ((), { vm with memory := memSet vm.memory addr.toNat v }) := by
  unfold VM.store_memory memSet
  by_cases h : addr ≥ Py.len vm.memory
  · have hge : addr.toNat ≥ vm.memory.length := by unfold Py.len at h; omega
    have hrep : (addr - Py.len vm.memory + 1).toNat = addr.toNat - vm.memory.length + 1 := by
      unfold Py.len; omega
    simp only [M.bind_apply, M.get_apply, h, decide_true, ↓reduceIte, M.set_apply, Py.listRepeat, hrep,
      Py.listSet, h0, hge, ge_iff_le]
    have : addr.toNat < (vm.memory ++ List.replicate (addr.toNat - vm.memory.length + 1) 0).length := by
      simp; omega
    simp only [M.bind_apply, M.get_apply, this, ↓reduceIte, M.lift_ok, M.set_apply, M.pure_apply]
  · have hlt : addr.toNat < vm.memory.length := by unfold Py.len at h; omega
    have hnge : ¬ (addr.toNat ≥ vm.memory.length) := by omega
    simp only [M.bind_apply, M.get_apply, h, decide_false, Bool.false_eq_true, ↓reduceIte, Py.listSet, h0, hlt,
      hnge, M.lift_ok, M.set_apply, M.pure_apply, ge_iff_le]

theorem getD_memSet (m : List Int) (a : Nat) (v : Int) (x : Nat) :
    (memSet m a v).getD x 0 = if x = a then v else m.getD x 0 := by
  unfold memSet
  by_cases h : a ≥ m.length
  · simp only [h, ↓reduceIte]
    have hlen : a < (m ++ List.replicate (a - m.length + 1) 0).length := by simp; omega
    by_cases hx : x = a
    · subst hx
      simp only [↓reduceIte, List.getD]
      rw [List.getElem?_set_self hlen]; rfl
    · simp only [hx, ↓reduceIte, List.getD, List.getElem?_set_ne (Ne.symm hx)]
      by_cases hxl : x < m.length
      · simp [List.getElem?_append_left hxl]
      · rw [List.getElem?_eq_none (by omega : m.length ≤ x)]
        rw [List.getElem?_append_right (by omega)]
        by_cases hx2 : x - m.length < a - m.length + 1
        · simp [List.getElem?_replicate, hx2]
        · simp [List.getElem?_replicate, hx2]
  · have hlt : a < m.length := by omega
    simp only [h, ↓reduceIte]
    by_cases hx : x = a
    · subst hx; simp [List.getD, hlt]
    · simp [hx, List.getD, List.getElem?_set_ne (Ne.symm hx)]

theorem memSet_length (m : List Int) (a : Nat) (v : Int) : (memSet m a v).length = max m.length (a + 1) := by
  unfold memSet
  split <;> simp <;> omega

theorem memSet_mem {m : List Int} {a : Nat} {v c : Int} (h : c ∈ memSet m a v) : c ∈ m ∨ c = v ∨ c = 0 := by
  unfold memSet at h
  split at h
  · rcases List.mem_or_eq_of_mem_set h with h | h
    · rcases List.mem_append.mp h with h | h
      · exact Or.inl h
      · exact Or.inr (Or.inr (List.eq_of_mem_replicate h))
    · exact Or.inr (Or.inl h)
  · rcases List.mem_or_eq_of_mem_set h with h | h
    · exact Or.inl h
    · exact Or.inr (Or.inl h)

end Hera
