import HeraModel
import Mathlib.Tactic.Ring
import Mathlib.Tactic.Linarith
/-
  Generic lemmas about the bit-pattern matcher and substituter of `Model/Enc.lean`, for all
  patterns (no enumeration of words): decoding then encoding, and encoding then decoding.
-/
namespace Hera
namespace Enc

theorem upd_upd {α} (a : Nat → α) (k : Nat) (v w : α) : upd (upd a k v) k w = upd a k w := by
  funext i; unfold upd; split <;> rfl

theorem upd_self {α} (a : Nat → α) (k : Nat) : upd a k (a k) = a := by
  funext i; unfold upd; split
  · rename_i h; rw [h]
  · rfl

/-- one step of the matcher on pattern symbol `c` and bit `b` -/
def mstep (c : Char) (b : Bool) (a : Nat → Int) : Option (Nat → Int) :=
  if c = '0' then (if b then none else some a)
  else if c = '1' then (if b then some a else none)
  else some (upd a (idx c) (2 * a (idx c) + (if b then 1 else 0)))

theorem matchGo_cons (c : Char) (p : List Char) (b : Bool) (bs : List Bool) (a : Nat → Int) :
    matchGo (c :: p) (b :: bs) a = (mstep c b a).bind (matchGo p bs) := by
  unfold mstep
  rw [matchGo]
  by_cases h0 : c = '0'
  · simp only [h0, ↓reduceIte]; cases b <;> rfl
  · by_cases h1 : c = '1'
    · simp only [h1, ↓reduceIte]; cases b <;> simp
    · simp only [h0, h1, ↓reduceIte]; rfl

theorem matchGo_append (p1 : List Char) : ∀ (bs1 : List Bool) (p2 : List Char) (bs2 : List Bool) (a : Nat → Int),
    p1.length = bs1.length →
    matchGo (p1 ++ p2) (bs1 ++ bs2) a = (matchGo p1 bs1 a).bind (fun a' => matchGo p2 bs2 a') := by
  induction p1 with
  | nil =>
    intro bs1 p2 bs2 a h
    have : bs1 = [] := by cases bs1 with | nil => rfl | cons _ _ => simp at h
    subst this
    cases p2 <;> simp [matchGo]
  | cons c p ih =>
    intro bs1 p2 bs2 a h
    cases bs1 with
    | nil => simp at h
    | cons b bs =>
      simp only [List.cons_append, matchGo_cons]
      cases hm : mstep c b a with
      | none => rfl
      | some a1 =>
        simp only [Option.bind_some]
        exact ih bs p2 bs2 a1 (by simpa using h)

theorem matchGo_snoc (q : List Char) (cs : List Bool) (c : Char) (b : Bool) (a : Nat → Int)
    (h : q.length = cs.length) :
    matchGo (q ++ [c]) (cs ++ [b]) a = (matchGo q cs a).bind (mstep c b) := by
  rw [matchGo_append q cs [c] [b] a h]
  cases matchGo q cs a with
  | none => rfl
  | some a' =>
    simp only [Option.bind_some]
    rw [matchGo_cons]
    cases mstep c b a' <;> rfl

/-- **decode then encode**: whatever the matcher extracts, substituting it back gives the same bits. -/
theorem subst_of_match : ∀ (q : List Char) (cs : List Bool) (a a' : Nat → Int), q.length = cs.length →
    matchGo q.reverse cs.reverse a = some a' → substGo q a' = cs := by
  intro q
  induction q with
  | nil =>
    intro cs a a' h _
    cases cs with
    | nil => rfl
    | cons _ _ => simp at h
  | cons c q ih =>
    intro cs a a' h hm
    cases cs with
    | nil => simp at h
    | cons b cs =>
      have hl : q.reverse.length = cs.reverse.length := by simpa using h
      simp only [List.reverse_cons] at hm
      rw [matchGo_snoc _ _ _ _ _ hl] at hm
      cases h1 : matchGo q.reverse cs.reverse a with
      | none => rw [h1] at hm; cases hm
      | some a1 =>
        rw [h1] at hm
        simp only [Option.bind_some, mstep] at hm
        rw [substGo]
        by_cases h0 : c = '0'
        · simp only [h0, ↓reduceIte] at hm ⊢
          cases b with
          | true => cases hm
          | false =>
            simp only [Bool.false_eq_true, ↓reduceIte, Option.some.injEq] at hm
            subst hm
            rw [ih cs a a1 (by simpa using h) h1]
        · by_cases h1' : c = '1'
          · simp only [h1', ↓reduceIte] at hm ⊢
            have h10 : ¬ ('1' = '0') := by decide
            simp only [h10, ↓reduceIte] at hm ⊢
            cases b with
            | false => cases hm
            | true =>
              simp only [↓reduceIte, Option.some.injEq] at hm
              subst hm
              rw [ih cs a a1 (by simpa using h) h1]
          · simp only [h0, h1', ↓reduceIte, Option.some.injEq] at hm ⊢
            subst hm
            have e1 : (upd a1 (idx c) (2 * a1 (idx c) + if b = true then 1 else 0)) (idx c) = 2 * a1 (idx c) + if b = true then 1 else 0 := by
              simp [upd]
            rw [e1, upd_upd]
            have e2 : (2 * a1 (idx c) + if b = true then 1 else 0) / 2 = a1 (idx c) := by
              cases b <;> simp <;> omega
            have e3 : ((2 * a1 (idx c) + if b = true then 1 else 0) % 2 == 1) = b := by
              cases b <;> simp <;> omega
            rw [e2, e3, upd_self, ih cs a a1 (by simpa using h) h1]

/-- number of occurrences of argument `k` in a pattern = width of its field -/
def width (p : List Char) (k : Nat) : Nat := (p.filter (fun c => c ≠ '0' && c ≠ '1' && idx c == k)).length

theorem emod_two_mul (x m : Int) (hm : 0 < m) : x % (2 * m) = x % 2 + 2 * (x / 2 % m) := by
  have h1 : x = 2 * (x / 2) + x % 2 := by omega
  have h2 := Int.emod_add_mul_ediv (x / 2) m
  have hr0 : 0 ≤ x / 2 % m := Int.emod_nonneg _ (by omega)
  have hr1 : x / 2 % m < m := Int.emod_lt_of_pos _ hm
  have key : x = (x % 2 + 2 * (x / 2 % m)) + (2 * m) * (x / 2 / m) := by
    have : x / 2 = x / 2 % m + m * (x / 2 / m) := by linarith
    calc x = 2 * (x / 2) + x % 2 := h1
      _ = 2 * (x / 2 % m + m * (x / 2 / m)) + x % 2 := by rw [← this]
      _ = _ := by ring
  have := (Int.ediv_emod_unique (a := x) (b := 2 * m) (r := x % 2 + 2 * (x / 2 % m)) (q := x / 2 / m) (by omega)).mpr
    ⟨by linarith, by omega, by omega⟩
  exact this.2

theorem substGo_length : ∀ (q : List Char) (a : Nat → Int), (substGo q a).length = q.length := by
  intro q
  induction q with
  | nil => intro a; rfl
  | cons c q ih =>
    intro a
    rw [substGo]
    by_cases h0 : c = '0'
    · simp [h0, ih]
    · by_cases h1 : c = '1'
      · simp [h1, ih]
      · simp [h0, h1, ih]

theorem width_cons_fixed (c : Char) (q : List Char) (k : Nat) (h : c = '0' ∨ c = '1') : width (c :: q) k = width q k := by
  unfold width
  rcases h with rfl | rfl <;> simp

theorem width_cons_letter (c : Char) (q : List Char) (k : Nat) (h0 : c ≠ '0') (h1 : c ≠ '1') :
    width (c :: q) k = width q k + (if idx c = k then 1 else 0) := by
  unfold width
  by_cases hk : idx c = k <;> simp [h0, h1, hk]

/-- **encode then decode**: matching the substituted bits recovers every argument modulo its field width
    (on top of whatever the accumulator held, shifted). -/
theorem match_of_subst : ∀ (q : List Char) (a a0 : Nat → Int),
    matchGo q.reverse (substGo q a).reverse a0
      = some (fun k => a0 k * 2 ^ (width q k) + a k % 2 ^ (width q k)) := by
  intro q
  induction q with
  | nil =>
    intro a a0
    simp [matchGo, substGo, width]
  | cons c q ih =>
    intro a a0
    rw [substGo]
    by_cases h0 : c = '0'
    · simp only [h0, ↓reduceIte, List.reverse_cons]
      rw [matchGo_snoc _ _ _ _ _ (by simp [substGo_length]), ih]
      simp only [Option.bind_some, mstep, ↓reduceIte, Bool.false_eq_true]
      simp only [width_cons_fixed _ _ _ (Or.inl rfl)]
    · by_cases h1 : c = '1'
      · have h10 : ¬ ('1' = '0') := by decide
        simp only [h1, h10, ↓reduceIte, List.reverse_cons]
        rw [matchGo_snoc _ _ _ _ _ (by simp [substGo_length]), ih]
        simp only [Option.bind_some, mstep, h10, ↓reduceIte]
        simp only [width_cons_fixed _ _ _ (Or.inr rfl)]
      · simp only [h0, h1, ↓reduceIte, List.reverse_cons]
        rw [matchGo_snoc _ _ _ _ _ (by simp [substGo_length]), ih]
        simp only [Option.bind_some, mstep, h0, h1, ↓reduceIte]
        congr 1; funext k
        rw [width_cons_letter _ _ _ h0 h1]
        unfold upd
        by_cases hk : k = idx c
        · subst hk
          simp only [↓reduceIte]
          have hp : (0 : Int) < 2 ^ width q (idx c) := Int.pow_pos (by decide)
          have := emod_two_mul (a (idx c)) (2 ^ width q (idx c)) hp
          have hpow : (2 : Int) ^ (width q (idx c) + 1) = 2 * 2 ^ width q (idx c) := by rw [pow_succ]; ring
          rw [hpow, this]
          have hb : (if (a (idx c) % 2 == 1) = true then (1 : Int) else 0) = a (idx c) % 2 := by
            have : a (idx c) % 2 = 0 ∨ a (idx c) % 2 = 1 := by omega
            rcases this with h | h <;> simp [h]
          rw [hb]
          ring
        · have hk' : ¬ idx c = k := fun h => hk h.symm
          simp only [hk, hk', ↓reduceIte, Nat.add_zero]



/-- numeric value of the substituted bits (least significant first) -/
def substVal : List Char → (Nat → Int) → Nat
  | [], _ => 0
  | c :: q, a =>
    if c = '0' then 2 * substVal q a
    else if c = '1' then 1 + 2 * substVal q a
    else (a (idx c) % 2).toNat + 2 * substVal q (upd a (idx c) (a (idx c) / 2))

theorem valLsb_substGo : ∀ (q : List Char) (a : Nat → Int), valLsb (substGo q a) = substVal q a := by
  intro q
  induction q with
  | nil => intro a; rfl
  | cons c q ih =>
    intro a
    rw [substGo, substVal]
    by_cases h0 : c = '0'
    · simp [h0, valLsb, ih]
    · by_cases h1 : c = '1'
      · simp [h1, valLsb, ih]
      · simp only [h0, h1, ↓reduceIte, valLsb, ih]
        have : a (idx c) % 2 = 0 ∨ a (idx c) % 2 = 1 := by omega
        rcases this with h | h <;> simp [h]

theorem valLsb_append (xs ys : List Bool) : valLsb (xs ++ ys) = valLsb xs + 2 ^ xs.length * valLsb ys := by
  induction xs with
  | nil => simp [valLsb]
  | cons b xs ih => simp only [List.cons_append, valLsb, ih, List.length_cons, pow_succ]; ring

theorem valLsb_lt (xs : List Bool) : valLsb xs < 2 ^ xs.length := by
  induction xs with
  | nil => simp [valLsb]
  | cons b xs ih => simp only [valLsb, List.length_cons, pow_succ]; cases b <;> simp <;> omega

/-- the two bytes produced by `substitute_bitvector` are the high and low byte of the bits' value -/
theorem bytes_of_bits (bits : List Bool) (h : bits.length = 16) :
    valLsb (bits.drop 8) = valLsb bits / 256 ∧ valLsb (bits.take 8) = valLsb bits % 256 := by
  have hsplit : bits = bits.take 8 ++ bits.drop 8 := (List.take_append_drop 8 bits).symm
  have hl : (bits.take 8).length = 8 := by simp [h]
  have := valLsb_append (bits.take 8) (bits.drop 8)
  rw [← hsplit, hl] at this
  have hlt := valLsb_lt (bits.take 8)
  rw [hl] at hlt
  constructor <;> omega

theorem valLsb_range (v : Nat) : ∀ n, valLsb ((List.range n).map (fun i => v.testBit i)) = v % 2 ^ n := by
  intro n
  induction n with
  | zero => simp [valLsb, Nat.mod_one]
  | succ n ih =>
    rw [List.range_succ, List.map_append, valLsb_append, ih]
    simp only [List.length_map, List.length_range, List.map_cons, List.map_nil, valLsb]
    rw [Nat.mod_pow_succ, Nat.testBit_eq_decide_div_mod_eq]
    have : v / 2 ^ n % 2 = 0 ∨ v / 2 ^ n % 2 = 1 := by omega
    rcases this with h | h <;> simp [h]

theorem valLsb_bitsOf (v : Nat) (hv : v < 65536) : valLsb (bitsOf v).reverse = v := by
  unfold bitsOf
  rw [← List.map_reverse, List.reverse_reverse, valLsb_range]
  omega

theorem bitsOf_length (v : Nat) : (bitsOf v).length = 16 := by simp [bitsOf]




theorem valLsb_inj : ∀ (xs ys : List Bool), xs.length = ys.length → valLsb xs = valLsb ys → xs = ys := by
  intro xs
  induction xs with
  | nil => intro ys h _; cases ys with | nil => rfl | cons _ _ => simp at h
  | cons b xs ih =>
    intro ys h hv
    cases ys with
    | nil => simp at h
    | cons c ys =>
      simp only [valLsb] at hv
      have hb : b = c := by cases b <;> cases c <;> simp at hv ⊢ <;> omega
      subst hb
      have : valLsb xs = valLsb ys := by omega
      rw [ih ys (by simpa using h) this]

theorem bitsOf_valLsb (cs : List Bool) (h : cs.length = 16) : bitsOf (valLsb cs) = cs.reverse := by
  have hlt := valLsb_lt cs
  rw [h] at hlt
  have h1 := valLsb_bitsOf (valLsb cs) (by omega)
  have h2 := valLsb_inj (bitsOf (valLsb cs)).reverse cs (by simp [bitsOf_length, h]) h1
  have := congrArg List.reverse h2
  rw [List.reverse_reverse] at this
  exact this

/-- the set of argument indices a pattern mentions is below its arity -/
theorem idx_lt_arity : ∀ (p : List Char) (n : Nat) (c : Char), c ∈ p → isLetter c = true →
    idx c < p.foldl (fun n c => if isLetter c then max n (idx c + 1) else n) n := by
  intro p
  induction p with
  | nil => intro n c h; cases h
  | cons d p ih =>
    intro n c hc hl
    simp only [List.foldl_cons]
    have mono : ∀ (p : List Char) (n : Nat), n ≤ p.foldl (fun n c => if isLetter c then max n (idx c + 1) else n) n := by
      intro p
      induction p with
      | nil => intro n; exact Nat.le_refl _
      | cons d p ih =>
        intro n
        simp only [List.foldl_cons]
        refine Nat.le_trans ?_ (ih _)
        split <;> omega
    rcases List.mem_cons.mp hc with rfl | hc'
    · simp only [hl, ↓reduceIte]
      exact Nat.lt_of_lt_of_le (by omega) (mono p _)
    · exact ih _ c hc' hl

/-- the matcher only writes argument slots named by letters of the pattern -/
theorem matchGo_frame : ∀ (p : List Char) (bs : List Bool) (a a' : Nat → Int) (k : Nat),
    (∀ c ∈ p, c ≠ '0' → c ≠ '1' → idx c ≠ k) → matchGo p bs a = some a' → a' k = a k := by
  intro p
  induction p with
  | nil => intro bs a a' k _ h; simp [matchGo] at h; rw [← h]
  | cons c p ih =>
    intro bs a a' k hk h
    cases bs with
    | nil => simp [matchGo] at h; rw [← h]
    | cons b bs =>
      rw [matchGo_cons] at h
      have hk' : ∀ c ∈ p, c ≠ '0' → c ≠ '1' → idx c ≠ k := fun d hd => hk d (List.mem_cons_of_mem _ hd)
      unfold mstep at h
      by_cases h0 : c = '0'
      · simp only [h0, ↓reduceIte] at h
        cases b <;> simp at h
        exact ih bs a a' k hk' h
      · by_cases h1 : c = '1'
        · have h10 : ¬ ('1' = '0') := by decide
          simp only [h1, h10, ↓reduceIte] at h
          cases b <;> simp at h
          exact ih bs a a' k hk' h
        · simp only [h0, h1, ↓reduceIte, Option.bind_some] at h
          rw [ih bs _ a' k hk' h]
          have := hk c (List.mem_cons_self ..) h0 h1
          simp [upd, Ne.symm this]

/-- substitution only reads the argument slots named by letters of the pattern -/
theorem substGo_congr : ∀ (q : List Char) (a b : Nat → Int),
    (∀ c ∈ q, c ≠ '0' → c ≠ '1' → a (idx c) = b (idx c)) → substGo q a = substGo q b := by
  intro q
  induction q with
  | nil => intro a b _; rfl
  | cons c q ih =>
    intro a b h
    rw [substGo, substGo]
    by_cases h0 : c = '0'
    · simp only [h0, ↓reduceIte]
      rw [ih a b (fun d hd => h d (List.mem_cons_of_mem _ hd))]
    · by_cases h1 : c = '1'
      · simp only [h1, ↓reduceIte]
        rw [ih a b (fun d hd => h d (List.mem_cons_of_mem _ hd))]
      · simp only [h0, h1, ↓reduceIte]
        have hc := h c (List.mem_cons_self ..) h0 h1
        rw [hc]
        congr 1
        apply ih
        intro d hd hd0 hd1
        unfold upd
        by_cases hi : idx d = idx c
        · simp [hi]
        · simp only [hi, ↓reduceIte]
          exact h d (List.mem_cons_of_mem _ hd) hd0 hd1


end Enc
end Hera
