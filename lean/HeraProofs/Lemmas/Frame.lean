import HeraProofs.Lemmas.Arith
/-
  Frame lemmas: what the translated `execute` skeletons (BinaryOp, UnaryOp, …) compute on a
  well-formed machine, as explicit final states; and the generic "finish" lemma that turns
  an explicit final state into the refinement statement of C01.
-/
namespace Hera
open Gen

/-- does the instruction maintain the debugger's call stack? -/
def Spec.Instr.isCallRet : Spec.Instr → Bool
  | .call _ _ | .ret _ _ => true
  | _ => false

/-- One instruction of the translated implementation refines the architecture:
    it does not raise, keeps the machine well-formed (C02), has exactly the architected effect
    (up to the points the definition leaves open), and touches nothing else. -/
def StepOK (i : Spec.Instr) (vm : VM) : Prop :=
  ∃ vm', Gen.exec i.toOp.1 i.toOp.2 vm = .ok ((), vm') ∧ WF vm' ∧
    Spec.allowed i (abs vm) (abs vm') ∧ Untouched vm vm' ∧
    (i.isCallRet = false → vm'.expected_returns = vm.expected_returns ∧ vm'.settings = vm.settings)

/-- state after a register-writing ALU instruction of the BinaryOp/UnaryOp skeleton -/
def aluPost (vm1 : VM) (d : Nat) (res : Int) : VM :=
  let vm2 := { vm1 with flag_zero := decide (res = 0), flag_sign := decide (res / 32768 % 2 * 32768 ≠ 0) }
  let vm3 := stackWarn d res { vm2 with registers := regSet vm2.registers d res }
  { vm3 with pc := vm3.pc + 1 }

theorem BinaryOp_execute_eq (calcF : Int → Int → M Int) (vm vm1 : VM) (d a b : Nat) (res : Int)
    (hl : vm.registers.length = 16) (hd : d < 16) (ha : a < 16) (hb : b < 16)
    (hcalc : calcF (reg vm a) (reg vm b) vm = .ok (res, vm1)) (hl1 : vm1.registers.length = 16) :
    BinaryOp.execute calcF (d : Int) (a : Int) (b : Int) vm = .ok ((), aluPost vm1 d res) := by
  simp only [BinaryOp.execute, M.bind_apply, M.get_apply, load_register_eq vm _ hl ha,
    load_register_eq vm _ hl hb, hcalc, set_zero_and_sign_eq, M.set_apply, M.pure_apply]
  rw [store_register_eq _ d res ?_ hd]
  · rfl
  · exact hl1

theorem UnaryOp_execute_eq (calcF : Int → M Int) (vm vm1 : VM) (d b : Nat) (res : Int)
    (hl : vm.registers.length = 16) (hd : d < 16) (hb : b < 16)
    (hcalc : calcF (reg vm b) vm = .ok (res, vm1)) (hl1 : vm1.registers.length = 16) :
    UnaryOp.execute calcF (d : Int) (b : Int) vm = .ok ((), aluPost vm1 d res) := by
  simp only [UnaryOp.execute, M.bind_apply, M.get_apply, load_register_eq vm _ hl hb, hcalc,
    set_zero_and_sign_eq, M.set_apply, M.pure_apply]
  rw [store_register_eq _ d res ?_ hd]
  · rfl
  · exact hl1

theorem untouched_aluPost (vm : VM) (c' v' : Bool) (d : Nat) (res : Int) :
    Untouched vm (aluPost { vm with flag_carry := c', flag_overflow := v' } d res) := by
  unfold Untouched aluPost
  simp only [stackWarn_dc, stackWarn_ib, stackWarn_ip, stackWarn_oc, stackWarn_loc, stackWarn_swi,
    stackWarn_rti, stackWarn_settings, true_and]
  exact stackWarn_out _ _ _

/-- The refinement facts for an instruction that writes `res` to `Rd`, sets s/z from it and
    carry/overflow to `c'`/`v'` (which the core lemma equates with the architecture's `cS`/`vS`). -/
theorem alu_finish (vm : VM) (hwf : WF vm) (d : Nat) (hd : d < 16) (res : Int) (c' v' : Bool)
    (hr : 0 ≤ res ∧ res < 65536) (w : Spec.Word) (hw : BitVec.ofInt 16 res = w)
    (cS vS : Bool) (hc : c' = cS) (hv : v' = vS) :
    WF (aluPost { vm with flag_carry := c', flag_overflow := v' } d res) ∧
    Spec.State.Eqv (abs (aluPost { vm with flag_carry := c', flag_overflow := v' } d res))
      (({ abs vm with fl := { s := w.msb, z := w == 0, v := vS, c := cS, cb := vm.flag_carry_block } }.setReg d w).next) ∧
    Untouched vm (aluPost { vm with flag_carry := c', flag_overflow := v' } d res) ∧
    (aluPost { vm with flag_carry := c', flag_overflow := v' } d res).expected_returns = vm.expected_returns ∧
    (aluPost { vm with flag_carry := c', flag_overflow := v' } d res).settings = vm.settings := by
  obtain ⟨hz, hs⟩ := sz_core hr hw
  subst hc hv
  have hfl : absFlags (aluPost { vm with flag_carry := c', flag_overflow := v' } d res)
      = { s := w.msb, z := w == 0, v := v', c := c', cb := vm.flag_carry_block } := by
    unfold aluPost absFlags
    simp only [stackWarn_fs, stackWarn_fz, stackWarn_fv, stackWarn_fc, stackWarn_fcb]
    rw [hz, hs]
  have h := eqv_of_regwrite (vm := vm) (vm' := aluPost { vm with flag_carry := c', flag_overflow := v' } d res)
    hwf hd hr (by simp [aluPost]) (by simp [aluPost]) (by simp [aluPost]) (by simp [aluPost]) hfl hw
  exact ⟨h.1, h.2, untouched_aluPost vm c' v' d res, by simp [aluPost], by simp [aluPost]⟩

/-- `allowed` for instructions without open points is observational equality with `exec`. -/
theorem allowed_of_eqv {i : Spec.Instr} {σ σ' : Spec.State} (ha : i.aliased = false)
    (hm : i.mulHighIn σ = false) (h : Spec.State.Eqv σ' (Spec.exec i σ)) : Spec.allowed i σ σ' := by
  simp only [Spec.allowed, ha, hm, Bool.false_eq_true, ↓reduceIte]
  exact h

theorem eqv_open_cv {σ' T τ : Spec.State} (h : Spec.State.Eqv σ' T)
    (hr : ∀ r, T.get r = τ.get r) (hm : ∀ a, T.mem a = τ.mem a) (hp : T.pc = τ.pc) (hh : T.halted = τ.halted)
    (hs : T.fl.s = τ.fl.s) (hz : T.fl.z = τ.fl.z) (hcb : T.fl.cb = τ.fl.cb) :
    Spec.State.Eqv { σ' with fl := { σ'.fl with c := τ.fl.c, v := τ.fl.v } } τ := by
  obtain ⟨e1, e2, e3, e4, e5⟩ := h
  refine ⟨fun r hr' => ?_, fun a => ?_, ?_, ?_, ?_⟩
  · exact (e1 r hr').trans (hr r)
  · exact (e2 a).trans (hm a)
  · show Spec.Flags.mk σ'.fl.s σ'.fl.z τ.fl.v τ.fl.c σ'.fl.cb = τ.fl
    rw [e3, hs, hz, hcb]
  · exact e4.trans hp
  · exact e5.trans hh


end Hera

namespace Hera
open Gen

/-- Generic finish: an explicit final state `vm'` that differs from `vm` by a register write,
    new flags `f'` and `pc+1` refines an instruction whose `Spec.exec` has that shape. -/
theorem finish_regwrite {i : Spec.Instr} {vm vm' : VM} (hwf : WF vm)
    (hex : Gen.exec i.toOp.1 i.toOp.2 vm = .ok ((), vm'))
    {d : Nat} (hd : d < 16) {res : Int} (hr : 0 ≤ res ∧ res < 65536)
    (hregs : vm'.registers = regSet vm.registers d res) (hmem : vm'.memory = vm.memory)
    (hpc : vm'.pc = vm.pc + 1) (hh : vm'.halted = vm.halted)
    {f' : Spec.Flags} (hf : absFlags vm' = f') {w : Spec.Word} (hw : BitVec.ofInt 16 res = w)
    (hunt : Untouched vm vm') (her : vm'.expected_returns = vm.expected_returns)
    (hset : vm'.settings = vm.settings)
    (hal : i.aliased = false) (hmh : i.mulHighIn (abs vm) = false)
    (hspec : Spec.exec i (abs vm) = ({ abs vm with fl := f' }.setReg d w).next) : StepOK i vm := by
  have h := eqv_of_regwrite hwf hd hr hregs hmem hpc hh hf hw
  refine ⟨vm', hex, h.1, allowed_of_eqv hal hmh ?_, hunt, fun _ => ⟨her, hset⟩⟩
  rw [hspec]
  exact h.2

/-- Generic finish for instructions that only change flags and `pc`. -/
theorem finish_flags {i : Spec.Instr} {vm vm' : VM} (hwf : WF vm)
    (hex : Gen.exec i.toOp.1 i.toOp.2 vm = .ok ((), vm'))
    (hregs : vm'.registers = vm.registers) (hmem : vm'.memory = vm.memory)
    (hpc : vm'.pc = vm.pc + 1) (hh : vm'.halted = vm.halted)
    {f' : Spec.Flags} (hf : absFlags vm' = f')
    (hunt : Untouched vm vm') (her : vm'.expected_returns = vm.expected_returns)
    (hset : vm'.settings = vm.settings)
    (hal : i.aliased = false) (hmh : i.mulHighIn (abs vm) = false)
    (hspec : Spec.exec i (abs vm) = { abs vm with fl := f' }.next) : StepOK i vm := by
  have hwf' : WF vm' := by
    obtain ⟨a, b, c, d, e⟩ := hwf
    exact ⟨by rw [hregs]; exact a, by rw [hregs]; exact b, by rw [hregs]; exact c, by rw [hmem]; exact d,
      by rw [hmem]; exact e⟩
  refine ⟨vm', hex, hwf', allowed_of_eqv hal hmh ?_, hunt, fun _ => ⟨her, hset⟩⟩
  rw [hspec]
  refine ⟨fun r _ => ?_, fun a => ?_, ?_, ?_, ?_⟩
  · show (abs vm').get r = (abs vm).get r
    rw [abs_get hwf', abs_get hwf]; unfold reg; rw [hregs]
  · show (abs vm').mem a = (abs vm).mem a
    simp [abs, cell, hmem]
  · exact hf
  · exact hpc
  · exact hh

/-- close an `Untouched` goal about an explicit state built from struct updates and `stackWarn` -/
macro "untouched_tac" : tactic =>
  `(tactic| (unfold Untouched
             simp only [stackWarn_dc, stackWarn_ib, stackWarn_ip, stackWarn_oc, stackWarn_loc, stackWarn_swi,
               stackWarn_rti, stackWarn_settings, true_and]
             first | exact stackWarn_out _ _ _ | exact ⟨[], by simp, by simp⟩))

end Hera
