import HeraModel
/-
  Helper lemmas about the translated VirtualMachine helpers on well-formed machines.
-/
namespace Hera
open Gen

/-- `store_register`'s effect on the register list: writes to R0 are dropped. -/
def regSet (rs : List Int) (d : Nat) (v : Int) : List Int := if d = 0 then rs else rs.set d v

/-- The stack-overflow warning bookkeeping of `store_register` (documented side effect). -/
def stackWarn (d : Nat) (v : Int) (vm : VM) : VM :=
  if d = 15 ∧ v ≥ vm.settings.data_start ∧ vm.warned_for_overflow = false then
    { vm with
      out := vm.out ++ [.warning [115, 116, 97, 99, 107, 32, 104, 97, 115, 32, 111, 118, 101, 114, 102, 108, 111, 119, 101, 100, 32, 105, 110, 116, 111, 32, 100, 97, 116, 97, 32, 115, 101, 103, 109, 101, 110, 116] vm.location]
      warning_count := vm.warning_count + 1
      warned_for_overflow := true }
  else vm

section stackWarn
variable (d : Nat) (v : Int) (vm : VM)
@[simp] theorem stackWarn_registers : (stackWarn d v vm).registers = vm.registers := by unfold stackWarn; split <;> rfl
@[simp] theorem stackWarn_memory : (stackWarn d v vm).memory = vm.memory := by unfold stackWarn; split <;> rfl
@[simp] theorem stackWarn_pc : (stackWarn d v vm).pc = vm.pc := by unfold stackWarn; split <;> rfl
@[simp] theorem stackWarn_dc : (stackWarn d v vm).dc = vm.dc := by unfold stackWarn; split <;> rfl
@[simp] theorem stackWarn_halted : (stackWarn d v vm).halted = vm.halted := by unfold stackWarn; split <;> rfl
@[simp] theorem stackWarn_fs : (stackWarn d v vm).flag_sign = vm.flag_sign := by unfold stackWarn; split <;> rfl
@[simp] theorem stackWarn_fz : (stackWarn d v vm).flag_zero = vm.flag_zero := by unfold stackWarn; split <;> rfl
@[simp] theorem stackWarn_fv : (stackWarn d v vm).flag_overflow = vm.flag_overflow := by unfold stackWarn; split <;> rfl
@[simp] theorem stackWarn_fc : (stackWarn d v vm).flag_carry = vm.flag_carry := by unfold stackWarn; split <;> rfl
@[simp] theorem stackWarn_fcb : (stackWarn d v vm).flag_carry_block = vm.flag_carry_block := by unfold stackWarn; split <;> rfl
@[simp] theorem stackWarn_settings : (stackWarn d v vm).settings = vm.settings := by unfold stackWarn; split <;> rfl
@[simp] theorem stackWarn_er : (stackWarn d v vm).expected_returns = vm.expected_returns := by unfold stackWarn; split <;> rfl
@[simp] theorem stackWarn_ib : (stackWarn d v vm).input_buffer = vm.input_buffer := by unfold stackWarn; split <;> rfl
@[simp] theorem stackWarn_ip : (stackWarn d v vm).input_pos = vm.input_pos := by unfold stackWarn; split <;> rfl
@[simp] theorem stackWarn_oc : (stackWarn d v vm).op_count = vm.op_count := by unfold stackWarn; split <;> rfl
@[simp] theorem stackWarn_loc : (stackWarn d v vm).location = vm.location := by unfold stackWarn; split <;> rfl
@[simp] theorem stackWarn_swi : (stackWarn d v vm).warned_for_SWI = vm.warned_for_SWI := by unfold stackWarn; split <;> rfl
@[simp] theorem stackWarn_rti : (stackWarn d v vm).warned_for_RTI = vm.warned_for_RTI := by unfold stackWarn; split <;> rfl
end stackWarn

theorem load_register_eq (vm : VM) (i : Nat) (hl : vm.registers.length = 16) (hi : i < 16) :
    VM.load_register (i : Int) vm = .ok (reg vm i, vm) := by
  have hlt : i < vm.registers.length := by omega
  simp [VM.load_register, Py.listGet, reg, List.getD, List.getElem?_eq_getElem hlt]

theorem store_register_eq (vm : VM) (d : Nat) (v : Int) (hl : vm.registers.length = 16) (hd : d < 16) :
    VM.store_register (d : Int) v vm
      = .ok ((), stackWarn d v { vm with registers := regSet vm.registers d v }) := by
  have hlt : d < vm.registers.length := by omega
  by_cases hz : d = 0
  · subst hz
    simp [VM.store_register, regSet, stackWarn]
  · have hne : (d : Int) ≠ 0 := by omega
    simp only [VM.store_register, M.bind_apply, M.get_apply, hne, ne_eq, not_false_eq_true, decide_true,
      ↓reduceIte, Py.listSet]
    have h0 : (0 : Int) ≤ d := by omega
    simp only [h0, ↓reduceIte, Int.toNat_natCast, hlt, M.lift_ok, M.set_apply, regSet, hz]
    by_cases h15 : d = 15
    · subst h15
      by_cases hv : v ≥ vm.settings.data_start
      · cases hw : vm.warned_for_overflow <;>
          simp [stackWarn, hv, hw, VM.warn, VM.emit]
      · simp [stackWarn, hv]
    · have : (d : Int) ≠ 15 := by omega
      simp [stackWarn, h15, this]

theorem set_zero_and_sign_eq (vm : VM) (v : Int) :
    VM.set_zero_and_sign v vm
      = .ok ((), { vm with flag_zero := decide (v = 0), flag_sign := decide (v / 32768 % 2 * 32768 ≠ 0) }) := by
  simp [VM.set_zero_and_sign]

end Hera
