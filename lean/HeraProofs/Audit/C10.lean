import HeraProofs.Props.C10
open Hera
#print axioms C10_string_roundtrip
#print axioms C10_read_range
#print axioms readBody_writeBody
#print axioms read_writeChar
