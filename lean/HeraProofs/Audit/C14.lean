import HeraProofs.Props.C14
open Hera
#print axioms C14_eval
#print axioms C14_eval_range
