import HeraProofs.Props.C14
import HeraProofs.Props.C14b
open Hera
#print axioms C14_eval
#print axioms C14_eval_range
#print axioms Mini.mono_succ
#print axioms Mini.claimB
#print axioms Mini.C14_parse_raw
#print axioms Mini.C14_parse
