import HeraProofs.Props.C06
import HeraProofs.Props.C06b
import HeraProofs.Props.C06c
open Hera
#print axioms C01_step
#print axioms C05_decode_sound
#print axioms C06_exec_canon
#print axioms C06_wordStep_exec
#print axioms C06_image_step
#print axioms C06_image_run
#print axioms C06_assembled_is_image
#print axioms C06_assembled_run
