import HeraProofs.Props.C06
open Hera
#print axioms C01_step
#print axioms C05_decode_sound
#print axioms C06_exec_canon
#print axioms C06_wordStep_exec
