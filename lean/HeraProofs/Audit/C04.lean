import HeraProofs.Props.C04
open Hera
#print axioms convert_abstract
#print axioms convert_regbranch
#print axioms C04_convert_length
