import HeraProofs.Props.C04
import HeraProofs.Props.C04b
import HeraProofs.Props.C04c
open Hera
#print axioms convert_abstract
#print axioms convert_regbranch
#print axioms C04_convert_length
#print axioms C04_pc_sum
#print axioms C04_label_value
#print axioms C04_codeLen_expansion
#print axioms C04_label_is_stream_index
#print axioms C04_dlabel_value
#print axioms C04_reach_accept
#print axioms C04_reach_reject
#print axioms sbyte_of_reach
#print axioms C04_reach_lands
