import HeraProofs.Props.C04
import HeraProofs.Props.C04b
open Hera
#print axioms convert_abstract
#print axioms convert_regbranch
#print axioms C04_convert_length
#print axioms C04_pc_sum
#print axioms C04_label_value
#print axioms C04_codeLen_expansion
#print axioms C04_label_is_stream_index
#print axioms C04_dlabel_value
