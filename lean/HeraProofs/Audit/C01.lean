import HeraProofs.Props.C01
open Hera
#print axioms C01_step
#print axioms C01_covers
