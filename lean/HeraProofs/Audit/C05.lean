import HeraProofs.Props.C05
import HeraProofs.Props.C05b
import HeraProofs.Props.C05c
import HeraProofs.Props.C05d
open Hera
#print axioms Enc.subst_of_match
#print axioms Enc.match_of_subst
#print axioms table_len
#print axioms table_syms
#print axioms table_arity
#print axioms assemble_pattern
#print axioms C05_decode_sound
#print axioms C05_match_subst
#print axioms C05_range
#print axioms Spec.C05_decode_encode
#print axioms Spec.C05_encode_injective
#print axioms Spec.C05_encode_lt
#print axioms substVal_layout
#print axioms subst_of_val
#print axioms C05_assemble_is_table
#print axioms C05_assemble_injective
#print axioms C05_decode_assemble
#print axioms matchGo_bound
#print axioms valid_of_infield
#print axioms matched_infield
#print axioms C05_disassemble_is_table
