import HeraProofs.Props.C02
import HeraProofs.Props.C02b
open Hera
#print axioms C01_step
#print axioms C02_fetch
#print axioms C02_exit_ends
#print axioms C02_iter_WF
#print axioms C02_loop_WF
#print axioms C02_loopThrottled_WF
#print axioms C02_reset_WF
#print axioms C02_init
#print axioms C02_run_WF
#print axioms C02_savef
#print axioms C02_assign_mem_WF
#print axioms C02_assign_pc
#print axioms C02_assign_reg_WF
#print axioms C02_assign_reg_negative
