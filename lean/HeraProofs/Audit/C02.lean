import HeraProofs.Props.C02
open Hera
#print axioms C01_step
#print axioms C02_fetch
#print axioms C02_exit_ends
#print axioms C02_iter_WF
#print axioms C02_loop_WF
#print axioms C02_loopThrottled_WF
#print axioms C02_reset_WF
#print axioms C02_init
#print axioms C02_run_WF
#print axioms C02_savef
