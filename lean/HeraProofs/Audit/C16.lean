import HeraProofs.Props.C16
open Hera
#print axioms eval_flatten
#print axioms eval_flattenList
#print axioms C16_ifdef
