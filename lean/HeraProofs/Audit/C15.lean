import HeraProofs.Props.C15
open Hera
#print axioms C15_reset_covers
#print axioms C15_run_function
#print axioms C15_throttle_cut
#print axioms C15_throttle_uncut
#print axioms C15_op_count_private
