import HeraProofs.Props.C12
open Hera
#print axioms C12_next_source_op
#print axioms C12_step
#print axioms C12_next_n
#print axioms whileNext_first
#print axioms C12_continue
#print axioms C12_next_call
#print axioms C12_step_is_interpreter
