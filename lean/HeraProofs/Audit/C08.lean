import HeraProofs.Props.C08
open Hera
#print axioms C08_table_widths
#print axioms fits_SET
#print axioms fits_BRlabel
#print axioms fits_abstract
#print axioms C09_op_iff
#print axioms C02_run_WF
#print axioms C05_decode_sound
