import HeraProofs.Props.C07
import HeraProofs.Props.C10
import HeraProofs.Props.C16
import HeraProofs.Props.C09
import HeraProofs.Props.C07b
import HeraProofs.Props.C07c
import HeraProofs.Props.C07d
open Hera
#print axioms C07_lexer_terminates
#print axioms C07_token_progress
#print axioms tokenAt_eof
#print axioms skip_le
#print axioms readBody_rest_lt
#print axioms readCharBody_rest_lt
#print axioms lexGo_ends
#print axioms C10_read_range
#print axioms C16_ifdef
#print axioms C09_op_iff
#print axioms Parse.argStep_ok
#print axioms Parse.argLoop_ok
#print axioms Parse.progStep_ok
#print axioms Parse.progLoop_ok
#print axioms Parse.C07_parser_never_stuck
#print axioms Parse.C07_parser_total
#print axioms Parse.argStep_msgs
#print axioms Parse.argLoop_msgs
#print axioms Parse.matchArglist_none_lt
#print axioms Parse.C07_dropped_op_reports
