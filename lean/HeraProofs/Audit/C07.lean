import HeraProofs.Props.C10
import HeraProofs.Props.C16
import HeraProofs.Props.C09
open Hera
#print axioms C10_read_range
#print axioms C16_ifdef
#print axioms C09_op_iff
