import HeraProofs.Props.C17
import HeraProofs.Props.C07
import HeraProofs.Props.C07b
open Hera
#print axioms C17_token_in_quoted_line
#print axioms C17_caret
#print axioms C17_ifdef_keeps_lines
#print axioms evalGoP_lines
#print axioms posAfter_eq
#print axioms splitLines_get
#print axioms C17_position_only_next_char
#print axioms C17_token_is_text_at_offset
#print axioms tokenAt_off
#print axioms C17_offsets_in_order
