import HeraProofs.Props.C19
open Hera
#print axioms C19_div_mod
#print axioms fdiv_fmod_bounds
#print axioms to_u16_ok
