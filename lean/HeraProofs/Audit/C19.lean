import HeraProofs.Props.C19
import HeraProofs.Props.C19b
import HeraProofs.Props.C19c
import HeraProofs.Props.C19d
open Hera
#print axioms C19_div_mod
#print axioms fdiv_fmod_bounds
#print axioms to_u16_ok
#print axioms size_code_is_ops
#print axioms ord_code_is_ops
#print axioms not_code_is_ops
#print axioms malloc_code_is_ops
#print axioms C19_size
#print axioms C19_ord
#print axioms C19_not
#print axioms malloc_tail
#print axioms C19_malloc
#print axioms s_size_code_is_ops
#print axioms s_ord_code_is_ops
#print axioms s_not_code_is_ops
#print axioms C19_size_stack
#print axioms C19_ord_stack
#print axioms C19_not_stack
#print axioms s_memcpy_code_is_ops
#print axioms memcpy_exit
#print axioms memcpy_iter
#print axioms memcpy_loop
#print axioms copyFwd_outside
#print axioms C19_memcpy
