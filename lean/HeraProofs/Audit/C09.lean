import HeraProofs.Props.C09
open Hera
#print axioms table_P
#print axioms checkArg_iff
#print axioms C09_op_iff
