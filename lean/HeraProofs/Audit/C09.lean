import HeraProofs.Props.C09
import HeraProofs.Props.C09b
open Hera
#print axioms table_P
#print axioms checkArg_iff
#print axioms C09_op_iff
#print axioms C09_redeclaration_iff
#print axioms tc_errors_grow
#print axioms C09_redeclared_rejected
#print axioms C09_data_after_code_rejected
#print axioms C09_debug_ops_rejected
