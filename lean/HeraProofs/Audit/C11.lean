import HeraProofs.Props.C11
open Hera
#print axioms C11_debugger_equals_interpreter
#print axioms C11_command_along
#print axioms C11_convert_straight
#print axioms straight_of_instr
#print axioms execOps_along
#print axioms loop_add
#print axioms C02_iter_WF
#print axioms C01_step
