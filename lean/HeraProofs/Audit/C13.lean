import HeraProofs.Props.C13
open Hera
#print axioms C13_undo
#print axioms C13_undo_walk
#print axioms C13_undo_empty
#print axioms C13_restart
#print axioms C13_copy_separate
#print axioms C15_reset_covers
