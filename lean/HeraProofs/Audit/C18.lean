import HeraProofs.Props.C18
open Hera
#print axioms C18_throttle_spellings
#print axioms C18_init_spellings
#print axioms C18_unknown_flag
#print axioms C18_after_dashes
#print axioms C18_throttle_value
#print axioms C18_incompatible
