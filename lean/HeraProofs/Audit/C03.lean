import HeraProofs.Props.C03
import HeraProofs.Props.C03b
open Hera
#print axioms C03_SET
#print axioms C03_MOVE
#print axioms C03_CMP
#print axioms C03_NEG
#print axioms C03_FLAGS
#print axioms C03_CON
#print axioms C03_COFF
#print axioms C03_CBON
#print axioms C03_CCBOFF
#print axioms C03_HALT
#print axioms C03_NOP
#print axioms C03_BRlabel
#print axioms C03_convert_SET
#print axioms C03_convert_fixed
#print axioms C03_convert_regs
#print axioms C03_convert_SETRF
#print axioms C03_convert_BRlabel
#print axioms C03_convert_CALLlabel
#print axioms C03_NOT
#print axioms C03_SETRF
#print axioms C03_CALLlabel
