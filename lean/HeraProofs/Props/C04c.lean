import HeraProofs.Props.C04b
import HeraProofs.Lemmas.Sym
/-
  C04, continued — the reach rule of relative branches, over the model of `convert_ops` (`Chk.convStep`, corresponded with the
  real checker on every run): a relative branch that names a label is accepted if and only if the label lies -128..127
  instructions from the branch; when accepted its operand becomes exactly that distance, and the architecture's
  relative branch with that operand, taken at the branch's place, continues at the label (`Spec.exec`, which the
  regenerated `execute` refines by C01_step). All operations, all tables, all positions.
-/
namespace Hera
open Chk Spec

theorem err_errors' (m : Msgs) (s : String) (loc : Int) : (m.err s loc).errors ≠ [] := by simp [Msgs.err]

/-- **C04 (reach, accepted).** label within -128..127 of the branch: no message, the operand becomes the distance -/
theorem C04_reach_accept (tab : SymTab) (pc : Int) (op : SOp) (m : Msgs) (s : Str) (rest : List Tok) (v : SymVal)
    (hrel : op.cls.isRelativeBranch = true) (htok : op.toks = .sym s :: rest) (hget : tab.get? (.str s) = some v)
    (hv : ∀ c, v ≠ .const c) (hin : -128 ≤ v.val - pc ∧ v.val - pc < 128) :
    convStep tab pc op m = .ok ({ op with toks := Tok.int (v.val - pc) :: rest }, m) := by
  unfold convStep
  simp only [hrel, htok, hget, ↓reduceIte]
  cases v with
  | const c => exact absurd rfl (hv c)
  | label l => rw [if_neg (by omega)]; rfl
  | dlabel l => rw [if_neg (by omega)]; rfl

/-- **C04 (reach, rejected).** label farther away: the operation is left as it is and an error is recorded -/
theorem C04_reach_reject (tab : SymTab) (pc : Int) (op : SOp) (m : Msgs) (s : Str) (rest : List Tok) (v : SymVal)
    (hrel : op.cls.isRelativeBranch = true) (htok : op.toks = .sym s :: rest) (hget : tab.get? (.str s) = some v)
    (hv : ∀ c, v ≠ .const c) (hout : v.val - pc < -128 ∨ 128 ≤ v.val - pc) :
    ∃ m', convStep tab pc op m = .ok (op, m') ∧ m'.errors ≠ [] := by
  refine ⟨m.err "label is too far for a relative branch" (tokLoc op.loc 0), ?_, err_errors' _ _ _⟩
  unfold convStep
  simp only [hrel, htok, hget, ↓reduceIte]
  cases v with
  | const c => exact absurd rfl (hv c)
  | label l => rw [if_pos (by omega)]
  | dlabel l => rw [if_pos (by omega)]

theorem sbyte_of_reach (j : Int) (h : -128 ≤ j ∧ j < 128) : sbyte j = j := by
  unfold sbyte
  rw [BitVec.toInt_ofInt]
  simp only [Int.bmod]
  omega

/-- **C04 (reach, lands).** The relative branch with the distance as operand, taken at position `pc`, continues at the label. -/
theorem C04_reach_lands (c : Cond) (σ : State) (target : Int) (hin : -128 ≤ target - σ.pc ∧ target - σ.pc < 128)
    (hne : target ≠ σ.pc) (hc : c.holds σ.fl = true) : (exec (.brr c (target - σ.pc)) σ).pc = target := by
  rw [Sym.brr_pc σ c _ (by intro h; omega), if_pos hc, sbyte_of_reach _ hin]
  omega

/-- hypotheses satisfiable: a label 127 ahead is in reach, one 128 ahead is not -/
example : (-128 ≤ (130 : Int) - 3 ∧ (130 : Int) - 3 < 128) ∧ ((131 : Int) - 3 < -128 ∨ 128 ≤ (131 : Int) - 3) := by decide

end Hera
