import HeraModel.Model.Tiger
import Mathlib.Tactic.Linarith
/-
  C19 — the Tiger standard library: the arithmetic helpers.

  `C19_div_mod`: for all 16-bit operand words, `div` and `mod` never raise, return 16-bit words, give 0 for a zero
  divisor, and otherwise - read as signed integers - satisfy a = q * b + r with the remainder strictly smaller in
  magnitude than the divisor and carrying its sign (so exact quotients are exact: div(-6, 2) = -3), except for the one
  quotient that does not fit 16 bits (-32768 / -1).
-/
namespace Hera
open Tiger Gen

theorem from_u16_range (l : Int) (h : 0 ≤ l ∧ l < 65536) : -32768 ≤ from_u16 l ∧ from_u16 l ≤ 32767 := by
  unfold from_u16; split <;> simp_all <;> omega

theorem to_u16_ok (v : Int) (h : -32768 ≤ v ∧ v < 65536) :
    ∃ w, to_u16 v = .ok w ∧ 0 ≤ w ∧ w < 65536 ∧ (v ≤ 32767 → from_u16 w = v) := by
  unfold to_u16
  have h1 : (decide (v ≥ 65536) || decide (v < -32768)) = false := by simp; omega
  simp only [h1, Bool.false_eq_true, if_false]
  by_cases hn : v < 0
  · refine ⟨65536 + v, by simp [hn]; (first | rfl | exact congrArg Except.ok (by omega)), by omega, by omega, ?_⟩
    intro _; unfold from_u16; simp; omega
  · refine ⟨v, by simp [hn]; (first | rfl | exact congrArg Except.ok (by omega)), by omega, by omega, ?_⟩
    intro hv; unfold from_u16
    have : ¬ v ≥ 32768 := by omega
    simp [this]

/-- floor division and remainder of 16-bit signed operands -/
theorem fdiv_fmod_bounds (a b : Int) (ha : -32768 ≤ a ∧ a ≤ 32767) (hb : -32768 ≤ b ∧ b ≤ 32767) (hb0 : b ≠ 0) :
    Int.fdiv a b * b + Int.fmod a b = a ∧
    (0 < b → 0 ≤ Int.fmod a b ∧ Int.fmod a b < b) ∧ (b < 0 → b < Int.fmod a b ∧ Int.fmod a b ≤ 0) ∧
    -32768 ≤ Int.fdiv a b ∧ Int.fdiv a b ≤ 32768 ∧ (¬(a = -32768 ∧ b = -1) → Int.fdiv a b ≤ 32767) := by
  have h1 := Int.fdiv_mul_add_fmod a b
  have hpos : 0 < b → 0 ≤ Int.fmod a b ∧ Int.fmod a b < b := fun h =>
    ⟨Int.fmod_nonneg_of_pos a h, Int.fmod_lt_of_pos a h⟩
  have hneg : b < 0 → b < Int.fmod a b ∧ Int.fmod a b ≤ 0 := by
    intro h
    have h2 := Int.neg_fmod_neg (-a) (-b)
    simp only [Int.neg_neg] at h2
    have h3 := Int.fmod_nonneg_of_pos (-a) (show 0 < -b by omega)
    have h4 := Int.fmod_lt_of_pos (-a) (show 0 < -b by omega)
    constructor <;> omega
  refine ⟨h1, hpos, hneg, ?_⟩
  rcases Int.lt_or_gt_of_ne hb0 with hlt | hgt
  · obtain ⟨m1, m2⟩ := hneg hlt
    refine ⟨?_, ?_, ?_⟩
    · nlinarith
    · nlinarith
    · intro hx
      by_cases hb1 : b = -1
      · subst hb1
        have : a ≠ -32768 := fun e => hx ⟨e, rfl⟩
        omega
      · have hb2 : b ≤ -2 := by omega
        by_contra hc
        have hq : 32768 ≤ Int.fdiv a b := by omega
        nlinarith [mul_nonneg (show (0 : Int) ≤ Int.fdiv a b - 32768 by omega) (show (0 : Int) ≤ -2 - b by omega)]
  · obtain ⟨m1, m2⟩ := hpos hgt
    refine ⟨?_, ?_, ?_⟩
    · nlinarith
    · nlinarith
    · intro _; nlinarith

/-- **C19 (div and mod).** -/
theorem C19_div_mod (l r : Int) (hl : 0 ≤ l ∧ l < 65536) (hr : 0 ≤ r ∧ r < 65536) :
    ∃ q m, divU l r = .ok q ∧ modU l r = .ok m ∧ 0 ≤ q ∧ q < 65536 ∧ 0 ≤ m ∧ m < 65536 ∧
      (from_u16 r = 0 → q = 0 ∧ m = 0) ∧
      (from_u16 r ≠ 0 → ¬(from_u16 l = -32768 ∧ from_u16 r = -1) →
        from_u16 q * from_u16 r + from_u16 m = from_u16 l ∧
        (0 < from_u16 r → 0 ≤ from_u16 m ∧ from_u16 m < from_u16 r) ∧
        (from_u16 r < 0 → from_u16 r < from_u16 m ∧ from_u16 m ≤ 0)) := by
  have ha := from_u16_range l hl
  have hb := from_u16_range r hr
  unfold divU modU
  by_cases hb0 : from_u16 r = 0
  · refine ⟨0, 0, by simp [hb0], by simp [hb0], by omega, by omega, by omega, by omega, fun _ => ⟨rfl, rfl⟩,
      fun h => absurd hb0 h⟩
  · obtain ⟨e1, hp, hn, q1, q2, q3⟩ := fdiv_fmod_bounds (from_u16 l) (from_u16 r) ha hb hb0
    have hmr : -32768 ≤ Int.fmod (from_u16 l) (from_u16 r) ∧ Int.fmod (from_u16 l) (from_u16 r) ≤ 32767 := by
      rcases Int.lt_or_gt_of_ne hb0 with h | h
      · have := hn h; omega
      · have := hp h; omega
    obtain ⟨qw, hq, hq0, hq1, hqf⟩ := to_u16_ok (Int.fdiv (from_u16 l) (from_u16 r)) ⟨q1, by omega⟩
    obtain ⟨mw, hm, hm0, hm1, hmf⟩ := to_u16_ok (Int.fmod (from_u16 l) (from_u16 r)) ⟨hmr.1, by omega⟩
    refine ⟨qw, mw, by simp [hb0, hq], by simp [hb0, hm], hq0, hq1, hm0, hm1, fun h => absurd h hb0, ?_⟩
    intro _ hx
    rw [hqf (q3 hx), hmf hmr.2]
    exact ⟨e1, hp, hn⟩

/-- non-vacuity and the values that were wrong before the repair -/
example : divU 65530 2 = .ok 65533 := by decide      -- div(-6, 2) = -3
example : modU 65534 5 = .ok 3 := by decide          -- mod(-2, 5) = 3

end Hera
