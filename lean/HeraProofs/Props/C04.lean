/-
  C04 — labels, data labels and constants resolve to the right place in every mode.

  `Gen.convert` is regenerated from the `convert` methods of hera/op.py; `Chk.*` is the hand model of the
  checker (get_labels, operation_length, substitute_label, convert_ops, check), corresponded with the real
  `check()` (symbol table, data list, code list) in all four modes; `Sig.envAt` is the placement specification.
-/
import HeraModel
namespace Hera
open Chk

/-- number of real operations each class expands to, as a function of the (label-substituted) tokens -/
def expansionLength (c : Cls) (toks : List Tok) : Nat :=
  if c.isRegisterBranch then (match toks with | [t] => if t.isReg then 1 else 3 | _ => 1)
  else match c with
    | .SET | .CMP | .FLAGS | .NEG => 2
    | .SETRF => 4
    | .NOT => 3
    | .CALL => (match toks with | [_, t] => if t.isReg then 1 else 3 | _ => 1)
    | .CONSTANT | .LABEL | .DLABEL => 0
    | _ => 1

theorem convert_abstract (c : Cls) (toks : List Tok) (h : c.convertDef = "AbstractOperation") :
    Gen.convert c toks = .ok [⟨c, toks⟩] := by
  cases c <;> first | rfl | (exact absurd h (by decide))

theorem convert_regbranch (c : Cls) (t : Tok) (h : c.isRegisterBranch = true) :
    Gen.convert c [t] = Gen.RegisterBranch.convert c t := by
  cases c <;> first | rfl | (exact absurd h (by decide))

end Hera
namespace Hera
open Chk

theorem bind_ok_length {α β} {x : Except PyErr α} {f : α → Except PyErr β} {r : β} (h : x >>= f = .ok r) :
    ∃ a, x = .ok a ∧ f a = .ok r := by
  cases x with
  | error e => cases h
  | ok a => exact ⟨a, rfl, h⟩

theorem SET_convert_length (t0 t1 : Tok) (l : List Enc.DOp) (h : Gen.SET.convert t0 t1 = .ok l) : l.length = 2 := by
  unfold Gen.SET.convert at h
  obtain ⟨a, _, h⟩ := bind_ok_length h
  obtain ⟨b, _, h⟩ := bind_ok_length h
  injection h with h
  rw [← h]; rfl

theorem FLAGS_convert_length (t0 : Tok) (l : List Enc.DOp) (h : Gen.FLAGS.convert t0 = .ok l) : l.length = 2 := by
  unfold Gen.FLAGS.convert at h
  injection h with h
  rw [← h]; rfl

theorem CALL_convert_length (t0 t1 : Tok) (l : List Enc.DOp) (h : Gen.CALL.convert t0 t1 = .ok l) :
    l.length = if t1.isReg then 1 else 3 := by
  unfold Gen.CALL.convert at h
  by_cases hreg : t1.isReg = true
  · simp only [hreg, ↓reduceIte] at h ⊢
    injection h with h; rw [← h]; rfl
  · simp only [hreg, Bool.false_eq_true, ↓reduceIte] at h ⊢
    obtain ⟨a, ha, h⟩ := bind_ok_length h
    injection h with h
    rw [← h, List.length_append, SET_convert_length _ _ _ ha]; rfl

theorem SETRF_convert_length (t0 t1 : Tok) (l : List Enc.DOp) (h : Gen.SETRF.convert t0 t1 = .ok l) : l.length = 4 := by
  unfold Gen.SETRF.convert at h
  obtain ⟨a, ha, h⟩ := bind_ok_length h
  obtain ⟨b, hb, h⟩ := bind_ok_length h
  injection h with h
  rw [← h, List.length_append, SET_convert_length _ _ _ ha, FLAGS_convert_length _ _ hb]

theorem OPCODE_convert_length (t0 : Tok) (l : List Enc.DOp) (h : Gen.OPCODE.convert t0 = .ok l) : l.length = 1 := by
  unfold Gen.OPCODE.convert at h
  obtain ⟨a, _, h⟩ := bind_ok_length h
  obtain ⟨b, _, h⟩ := bind_ok_length h
  injection h with h
  rw [← h]; rfl

/-- **C04 (expansion lengths).** Every operation expands to exactly the number of machine instructions that label
    placement assumes for it (`expansionLength`), for every operand tuple of the right arity. -/
theorem C04_convert_length (c : Cls) (toks : List Tok) (l : List Enc.DOp) (hlen : toks.length = c.P.length)
    (h : Gen.convert c toks = .ok l) : l.length = expansionLength c toks := by
  by_cases ha : c.convertDef = "AbstractOperation"
  · rw [convert_abstract c toks ha] at h
    injection h with h
    subst h
    cases c <;> first | rfl | (exact absurd ha (by decide))
  · by_cases hr : c.isRegisterBranch = true
    · have hp : c.P.length = 1 := by cases c <;> first | rfl | (exact absurd hr (by decide))
      rw [hp] at hlen
      obtain ⟨t, rfl⟩ : ∃ t, toks = [t] := by
        rcases toks with _ | ⟨t, _ | _⟩ <;> simp at hlen
        exact ⟨t, rfl⟩
      rw [convert_regbranch c t hr] at h
      unfold Gen.RegisterBranch.convert at h
      unfold expansionLength
      simp only [hr, ↓reduceIte]
      by_cases hreg : t.isReg = true
      · simp only [hreg, ↓reduceIte] at h ⊢
        injection h with h; rw [← h]; rfl
      · simp only [hreg, Bool.false_eq_true, ↓reduceIte] at h ⊢
        obtain ⟨a, _, h⟩ := bind_ok_length h
        injection h with h; rw [← h]; rfl
    · cases c <;> first
        | (exact absurd rfl ha)
        | (exact absurd rfl hr)
        | (rcases toks with _ | ⟨t0, _ | ⟨t1, _ | ⟨t2, _ | ⟨t3, tl⟩⟩⟩⟩ <;> simp [Cls.P] at hlen <;>
            (unfold Gen.convert at h; dsimp only at h) <;>
            first
              | exact SET_convert_length _ _ _ h
              | exact FLAGS_convert_length _ _ h
              | exact CALL_convert_length _ _ _ h
              | exact SETRF_convert_length _ _ _ h
              | exact OPCODE_convert_length _ _ h
              | (injection h with h; rw [← h]; rfl)
              | skip)

end Hera
