import HeraProofs.Props.C11
/-
  C12 — stepping and breakpoints follow source operations exactly (model of Debugger.next / handle_next / handle_step /
  handle_continue, corresponded with the real Shell by the `dbgmodel` stream).
-/
namespace Hera
open Dbg Gen

/-- `n` successive `next(step=True)` -/
def stepN (dp : DProg) : Nat → State → Except PyErr State
  | 0, s => .ok s
  | n + 1, s => match nextStep dp s with | .ok s' => stepN dp n s' | .error e => .error e

/-- **C12 (`next` on anything but a CALL).** Exactly the remaining instructions of the current source operation are
    executed: `real_ops()` - from pc to the last instruction carrying the same source operation - nothing more. -/
theorem C12_next_source_op (dp : DProg) (fuel : Nat) (s : State) (hf : finished dp s = false) (hc : isCallAt dp s = false) :
    nextOver dp fuel s = (execOps (realOps dp s.vm.pc.toNat) s).map some := by
  unfold nextOver nextStep
  simp only [hf, hc, Bool.false_eq_true, if_false]
  cases execOps (realOps dp s.vm.pc.toNat) s <;> rfl

/-- **C12 (`step`).** On a CALL, `step` executes exactly the instructions of the CALL (for `CALL(Ra, label)`: SETLO,
    SETHI, CALL) and stops there - at the first instruction of the callee, since the CALL instruction is the last one;
    anywhere else it changes nothing. -/
theorem C12_step (dp : DProg) (s : State) :
    handleStep dp s = if finished dp s = false ∧ isCallAt dp s = true then execOps (realOps dp s.vm.pc.toNat) s else .ok s := by
  unfold handleStep nextStep
  by_cases hf : finished dp s = true
  · simp [hf]
  · have hf' : finished dp s = false := by simpa using hf
    by_cases hc : isCallAt dp s = true
    · simp [hf', hc]
    · have hc' : isCallAt dp s = false := by simpa using hc
      simp [hf', hc']

/-- **C12 (`next n` is n successive `next`).** -/
theorem C12_next_n (dp : DProg) (fuel n : Nat) (s : State) :
    handleNext dp fuel (n + 1) s =
      (match handleNext dp fuel 1 s with
       | .ok (some s1) => handleNext dp fuel n s1
       | r => r) := by
  by_cases hf : finished dp s = true
  · have h1 : handleNext dp fuel 1 s = .ok (some s) := by simp [handleNext, hf]
    rw [h1]
    cases n with
    | zero => simp [handleNext, hf]
    | succ n => simp [handleNext, hf]
  · simp only [handleNext, hf, Bool.false_eq_true, if_false]
    cases hn : nextOver dp fuel s with
    | error e => rfl
    | ok r =>
      cases r with
      | none => rfl
      | some s1 => rfl

/-- The `while` loops of `next` and `continue` stop at the **first** source-operation boundary at which their condition
    fails: the result is reached by `k` source operations, the condition held at every boundary before, and fails at
    the result. -/
theorem whileNext_first (dp : DProg) (cond : State → Bool) (fuel : Nat) (s s' : State)
    (h : whileNext dp cond fuel s = .ok (some s')) :
    ∃ k, stepN dp k s = .ok s' ∧ cond s' = false ∧
      ∀ j, j < k → ∃ t, stepN dp j s = .ok t ∧ cond t = true := by
  induction fuel generalizing s with
  | zero =>
    simp only [whileNext] at h
    by_cases hc : cond s = true
    · rw [if_pos hc] at h; cases h
    · rw [if_neg hc] at h; cases h
      exact ⟨0, rfl, by simpa using hc, fun j hj => absurd hj (Nat.not_lt_zero _)⟩
  | succ n ih =>
    simp only [whileNext] at h
    by_cases hc : cond s = true
    · rw [if_pos hc] at h
      cases hn : nextStep dp s with
      | error e => rw [hn] at h; cases h
      | ok s1 =>
        rw [hn] at h
        obtain ⟨k, hk, hcs, hall⟩ := ih s1 h
        refine ⟨k + 1, by simp [stepN, hn, hk], hcs, ?_⟩
        intro j hj
        cases j with
        | zero => exact ⟨s, rfl, hc⟩
        | succ j =>
          obtain ⟨t, ht, hct⟩ := hall j (by omega)
          exact ⟨t, by simp [stepN, hn, ht], hct⟩
    · rw [if_neg hc] at h; cases h
      exact ⟨0, rfl, by simpa using hc, fun j hj => absurd hj (Nat.not_lt_zero _)⟩

/-- **C12 (`continue`).** `continue` executes at least one source operation and then stops precisely at the first
    source-operation boundary where the program has ended or the next instruction carries a breakpoint. -/
theorem C12_continue (dp : DProg) (fuel : Nat) (s s' : State) (h : handleContinue dp fuel s = .ok (some s')) :
    ∃ s1 k, nextStep dp s = .ok s1 ∧ stepN dp k s1 = .ok s' ∧ (finished dp s' = true ∨ atBreak dp s' = true) ∧
      ∀ j, j < k → ∃ t, stepN dp j s1 = .ok t ∧ finished dp t = false ∧ atBreak dp t = false := by
  unfold handleContinue at h
  cases hn : nextStep dp s with
  | error e => rw [hn] at h; cases h
  | ok s1 =>
    rw [hn] at h
    obtain ⟨k, hk, hc, hall⟩ := whileNext_first dp _ fuel s1 s' h
    refine ⟨s1, k, rfl, hk, ?_, ?_⟩
    · simp only [Bool.and_eq_false_iff, Bool.not_eq_false'] at hc
      exact hc
    · intro j hj
      obtain ⟨t, ht, hct⟩ := hall j hj
      simp only [Bool.and_eq_true, Bool.not_eq_true'] at hct
      exact ⟨t, ht, hct.1, hct.2⟩

/-- **C12 (`next` on a CALL).** The CALL's source operation is executed, then whole source operations until the first
    boundary where the program has ended, a breakpoint is reached, or the call depth is back at (or below) the depth
    before the CALL: the whole call including nested calls, unless a breakpoint inside stops it. -/
theorem C12_next_call (dp : DProg) (fuel : Nat) (s s' : State) (hf : finished dp s = false) (hc : isCallAt dp s = true)
    (h : nextOver dp fuel s = .ok (some s')) :
    ∃ s1 k, nextStep dp s = .ok s1 ∧ stepN dp k s1 = .ok s' ∧
      (finished dp s' = true ∨ atBreak dp s' = true ∨ s'.calls ≤ s.calls) ∧
      ∀ j, j < k → ∃ t, stepN dp j s1 = .ok t ∧ finished dp t = false ∧ atBreak dp t = false ∧ t.calls > s.calls := by
  unfold nextOver at h
  simp only [hf, hc, Bool.false_eq_true, if_false, if_true] at h
  cases hn : nextStep dp s with
  | error e => rw [hn] at h; cases h
  | ok s1 =>
    rw [hn] at h
    obtain ⟨k, hk, hcs, hall⟩ := whileNext_first dp _ fuel s1 s' h
    refine ⟨s1, k, rfl, hk, ?_, ?_⟩
    · simp only [Bool.and_eq_false_iff, Bool.not_eq_false', decide_eq_false_iff_not, Int.not_lt] at hcs
      rcases hcs with (h1 | h1) | h1
      · exact Or.inl h1
      · exact Or.inr (Or.inl h1)
      · exact Or.inr (Or.inr h1)
    · intro j hj
      obtain ⟨t, ht, hct⟩ := hall j hj
      simp only [Bool.and_eq_true, Bool.not_eq_true', decide_eq_true_eq] at hct
      exact ⟨t, ht, hct.1.1, hct.1.2, hct.2⟩

/-- **C12 (source operations are the interpreter's instructions).** Each source-level step is the interpreter's loop run
    for some number of iterations: the stepping commands never execute anything the interpreter would not. -/
theorem C12_step_is_interpreter (dp : DProg) (hchk : Checked dp.p) (hstr : StraightGroups dp) (s s' : State) (hwf : WF s.vm)
    (h : nextStep dp s = .ok s') : Along dp.p s.vm s'.vm :=
  (nextStep_along dp hchk hstr s s' hwf h).1

end Hera
