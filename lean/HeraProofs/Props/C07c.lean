import HeraModel.Model.Parser
import Mathlib.Tactic.Linarith
/-
  C07, continued — the parser model (`Model/Parser.lean`, corresponded with `hera.parser.Parser` on every run) is total by
  construction: its two loops (`match_program`, `match_optional_arglist`) recurse only on a strictly shorter token list.
  What has to be proved is that the alternative branch, marked `stuck`, is never taken: every iteration of either loop
  consumes at least one token, whatever the tokens are. So for every token list the parser model ends after at most
  as many iterations as there are tokens, with a list of operations and messages - no input makes it loop.
-/
namespace Hera
namespace Parse
open Lex

theorem next_le (ts : List Token) : (next ts).length ≤ ts.length := by
  unfold next
  split
  · exact Nat.le_refl _
  · simp

theorem next_lt (ts : List Token) (h : atEnd ts = false) : (next ts).length < ts.length := by
  unfold next
  rw [h]
  cases ts with
  | nil => simp [atEnd, cur, eofTok] at h
  | cons t r => simp

theorem atEnd_of_kind {ts : List Token} {k : Kind} (h : (cur ts).kind = k) (hk : k ≠ .eof) : atEnd ts = false := by
  unfold atEnd
  rw [h]
  cases k <;> simp_all

/-- skipping from a token that is neither wanted nor EOF consumes it -/
theorem skipUntil_lt (types : List Kind) (ts : List Token) (h1 : types.contains (cur ts).kind = false)
    (h2 : atEnd ts = false) : (skipUntil types ts).length < ts.length := by
  cases ts with
  | nil => simp [atEnd, cur, eofTok] at h2
  | cons t r =>
    have hc : cur (t :: r) = t := rfl
    rw [hc] at h1
    have he : (t.kind == Kind.eof) = false := by simpa [atEnd, hc] using h2
    simp only [skipUntil, h1, he, Bool.or_self, Bool.false_eq_true, ↓reduceIte]
    have := skipUntil_le types r
    simp
    omega

/-! ### messages: the marker is only ever set by the loops -/

theorem err_stuck (m : Msgs) (s : String) (o : Nat) : (m.err s o).stuck = m.stuck := rfl
theorem warn_stuck (m : Msgs) (s : String) (o : Nat) : (m.warn s o).stuck = m.stuck := rfl

theorem expect_stuck (types : List Kind) (msg : String) (ts : List Token) (m : Msgs) :
    (expect types msg ts m).2.stuck = m.stuck := by
  unfold expect
  simp only
  split
  · rfl
  · split
    · rfl
    · split <;> rfl

theorem expect_ok (types : List Kind) (msg : String) (ts : List Token) (m : Msgs)
    (h : (expect types msg ts m).1 = true) : types.contains (cur ts).kind = true := by
  unfold expect at h
  simp only at h
  split at h
  · assumption
  · split at h
    · cases h
    · split at h <;> cases h

theorem expect_not_ok (types : List Kind) (msg : String) (ts : List Token) (m : Msgs)
    (h : (expect types msg ts m).1 = false) : types.contains (cur ts).kind = false := by
  unfold expect at h
  simp only at h
  split at h
  · cases h
  · rename_i hn
    simpa using hn

theorem matchInt_stuck (t : Token) (w : Bool) (m : Msgs) : (matchInt t w m).2.stuck = m.stuck := by
  unfold matchInt
  simp only
  split <;> split <;> rfl

theorem matchValue_stuck (ts : List Token) (w : Bool) (m : Msgs) : (matchValue ts w m).2.2.stuck = m.stuck := by
  unfold matchValue
  simp only
  split
  · exact matchInt_stuck _ _ _
  · rfl
  · split <;> rfl
  · split
    · simp only [matchInt_stuck, expect_stuck]
    · exact expect_stuck _ _ _ _
  · rfl
  · rfl

theorem matchValue_le (ts : List Token) (w : Bool) (m : Msgs) : (matchValue ts w m).2.1.length ≤ ts.length := by
  unfold matchValue
  simp only
  split
  · exact Nat.le_refl _
  · exact Nat.le_refl _
  · split <;> exact Nat.le_refl _
  · split <;> exact next_le ts
  · exact Nat.le_refl _
  · exact Nat.le_refl _


theorem matchValue_next_lt (ts : List Token) (w : Bool) (m : Msgs) (h : atEnd ts = false) :
    (next (matchValue ts w m).2.1).length < ts.length := by
  have h1 := next_lt ts h
  unfold matchValue
  simp only
  split
  · exact h1
  · exact h1
  · split <;> exact h1
  · split <;> exact Nat.lt_of_le_of_lt (next_le _) h1
  · exact h1
  · exact h1

theorem valueKinds_not_eof {ts : List Token} (h : valueKinds.contains (cur ts).kind = true) : atEnd ts = false := by
  unfold atEnd
  generalize (cur ts).kind = k at h ⊢
  cases k <;> simp_all [valueKinds]

theorem comma_not_end {ts : List Token} (h : ((cur ts).kind == Kind.comma) = true) : atEnd ts = false := by
  unfold atEnd
  generalize (cur ts).kind = k at h ⊢
  cases k <;> simp_all

/-- what one trip round the argument loop does to the token list and to the marker -/
def ArgStepOK (ts : List Token) (m : Msgs) : ArgStep → Prop
  | .done _ _ ts' m' => ts'.length ≤ ts.length ∧ m'.stuck = m.stuck
  | .again _ _ ts' m' => ts'.length < ts.length ∧ m'.stuck = m.stuck

theorem argStep_ok (w : Bool) (ts : List Token) (args : List Tok) (hit : Bool) (m : Msgs) :
    ArgStepOK ts m (argStep w ts args hit m) := by
  unfold argStep
  generalize he : expect valueKinds "expected value" ts m = e
  obtain ⟨ok, m1⟩ := e
  have hs1 : m1.stuck = m.stuck := by have := expect_stuck valueKinds "expected value" ts m; rw [he] at this; exact this
  -- the tail of the loop after a value could not be read, from any token list no longer than `ts`
  have tailNone : ∀ (ts0 : List Token) (m2 : Msgs), ts0.length ≤ ts.length → m2.stuck = m.stuck →
      ArgStepOK ts m (if ((cur (skipUntil [.comma, .rparen] ts0)).kind == .comma) = true
        then ArgStep.again args true (next (skipUntil [.comma, .rparen] ts0)) m2
        else ArgStep.done args true (skipUntil [.comma, .rparen] ts0) m2) := by
    intro ts0 m2 hle hst
    have hsk := skipUntil_le [.comma, .rparen] ts0
    split
    · rename_i hc
      exact ⟨Nat.lt_of_lt_of_le (next_lt _ (comma_not_end hc)) (Nat.le_trans hsk hle), hst⟩
    · exact ⟨Nat.le_trans hsk hle, hst⟩
  cases ok with
  | false =>
    simp only [Bool.false_eq_true, ↓reduceIte]
    exact tailNone ts m1 (Nat.le_refl _) hs1
  | true =>
    simp only [↓reduceIte]
    have hok : valueKinds.contains (cur ts).kind = true := by
      have := expect_ok valueKinds "expected value" ts m (by rw [he])
      exact this
    have hne := valueKinds_not_eof hok
    have hlt := matchValue_next_lt ts w m1 hne
    have hle := matchValue_le ts w m1
    have hst := matchValue_stuck ts w m1
    generalize matchValue ts w m1 = r at hlt hle hst
    obtain ⟨val, ts0, m2⟩ := r
    simp only at hlt hle hst
    cases val with
    | none => exact tailNone ts0 m2 hle (hst.trans hs1)
    | some v =>
      simp only
      split
      · exact ⟨Nat.le_of_lt hlt, hst.trans hs1⟩
      · split
        · have hsk := skipUntil_le [.comma, .rparen] (next ts0)
          split
          · exact ⟨Nat.le_trans hsk (Nat.le_of_lt hlt), by rw [err_stuck]; exact hst.trans hs1⟩
          · exact ⟨Nat.lt_of_le_of_lt hsk hlt, by rw [err_stuck]; exact hst.trans hs1⟩
        · exact ⟨Nat.lt_of_le_of_lt (next_le _) hlt, hst.trans hs1⟩

/-- the argument loop never gets stuck and never lengthens the token list -/
theorem argLoop_ok (w : Bool) (ts : List Token) (args : List Tok) (hit : Bool) (m : Msgs) :
    (argLoop w ts args hit m).2.2.1.length ≤ ts.length ∧ (argLoop w ts args hit m).2.2.2.stuck = m.stuck := by
  induction h : ts.length using Nat.strong_induction_on generalizing ts args hit m with
  | _ n ih =>
    subst h
    rw [argLoop]
    have hs := argStep_ok w ts args hit m
    generalize argStep w ts args hit m = st at hs
    cases st with
    | done a b ts' m' => simpa [ArgStepOK] using hs
    | again a b ts' m' =>
      obtain ⟨hlt, hst⟩ := hs
      simp only [hlt, ↓reduceDIte]
      have := ih ts'.length hlt ts' a b m' rfl
      exact ⟨Nat.le_trans this.1 (Nat.le_of_lt hlt), this.2.trans hst⟩


theorem matchArglist_ok (w : Bool) (ts : List Token) (m : Msgs) :
    (matchArglist w ts m).2.1.length ≤ ts.length ∧ (matchArglist w ts m).2.2.stuck = m.stuck := by
  unfold matchArglist
  split
  · exact ⟨Nat.le_refl _, rfl⟩
  · have := argLoop_ok w ts [] false m
    generalize argLoop w ts [] false m = r at this
    obtain ⟨a, b, c, d⟩ := r
    exact this

theorem matchOp_ok (w : Bool) (t : Token) (ts : List Token) (m : Msgs) :
    (matchOp w t ts m).2.1.length ≤ ts.length ∧ (matchOp w t ts m).2.2.stuck = m.stuck := by
  unfold matchOp
  have h := matchArglist_ok w (next ts) m
  have hle : (next (matchArglist w (next ts) m).2.1).length ≤ ts.length :=
    Nat.le_trans (next_le _) (Nat.le_trans h.1 (next_le _))
  simp only
  split
  · exact ⟨hle, h.2⟩
  · split
    · exact ⟨hle, h.2⟩
    · exact ⟨hle, by rw [err_stuck]; exact h.2⟩

theorem matchInclude_ok (ts : List Token) (m : Msgs) :
    (matchInclude ts m).2.1.length ≤ (next ts).length ∧ (matchInclude ts m).2.2.stuck = m.stuck := by
  unfold matchInclude
  have hs := expect_stuck [.string, .bracketed] "expected quote or angle-bracket delimited string" (next ts) m
  simp only
  split
  · exact ⟨next_le _, hs⟩
  · split
    · exact ⟨next_le _, by rw [err_stuck]; exact hs⟩
    · split
      · exact ⟨next_le _, by rw [warn_stuck]; exact hs⟩
      · split
        · exact ⟨next_le _, hs⟩
        · exact ⟨next_le _, by rw [err_stuck]; exact hs⟩

theorem cppBoilerplate_ok (ts : List Token) (m : Msgs) :
    (cppBoilerplate ts m).1.length ≤ ts.length ∧ (cppBoilerplate ts m).2.stuck = m.stuck := by
  unfold cppBoilerplate
  simp only
  refine ⟨?_, ?_⟩
  · refine Nat.le_trans (next_le _) ?_
    split <;> split <;>
      first
        | exact Nat.le_trans (next_le _) (Nat.le_trans (next_le _) (next_le _))
        | exact Nat.le_trans (next_le _) (next_le _)
        | exact next_le _
  · simp only [expect_stuck]

theorem kinds3_not_eof {ts : List Token} (h : [Kind.include, Kind.symbol, Kind.rbrace].contains (cur ts).kind = true) :
    atEnd ts = false := by
  unfold atEnd
  generalize (cur ts).kind = k at h ⊢
  cases k <;> simp_all

/-- one trip round the program loop consumes at least one token and does not set the marker -/
theorem progStep_ok (w : Bool) (ts : List Token) (brace : Bool) (m : Msgs) (hne : atEnd ts = false) :
    (progStep w ts brace m).2.1.length < ts.length ∧ (progStep w ts brace m).2.2.2.stuck = m.stuck := by
  unfold progStep
  have hlt := next_lt ts hne
  generalize he : expect [.include, .symbol, .rbrace] "expected HERA operation or #include" ts m = e
  obtain ⟨ok, m1⟩ := e
  have hs1 : m1.stuck = m.stuck := by
    have := expect_stuck [.include, .symbol, .rbrace] "expected HERA operation or #include" ts m; rw [he] at this; exact this
  cases ok with
  | false =>
    simp only [Bool.not_false, ↓reduceIte]
    have hn := expect_not_ok [.include, .symbol, .rbrace] "expected HERA operation or #include" ts m (by rw [he])
    have h2 : [Kind.include, Kind.symbol].contains (cur ts).kind = false := by
      generalize (cur ts).kind = k at hn ⊢
      cases k <;> simp_all
    exact ⟨skipUntil_lt _ ts h2 hne, hs1⟩
  | true =>
    simp only [Bool.not_true, Bool.false_eq_true, ↓reduceIte]
    split
    · have := matchInclude_ok ts m1
      generalize matchInclude ts m1 = r at this
      obtain ⟨a, b, c⟩ := r
      exact ⟨Nat.lt_of_le_of_lt this.1 hlt, this.2.trans hs1⟩
    · split
      · split
        · have := cppBoilerplate_ok (next ts) m1
          generalize cppBoilerplate (next ts) m1 = r at this
          obtain ⟨a, b⟩ := r
          exact ⟨Nat.lt_of_le_of_lt this.1 hlt, this.2.trans hs1⟩
        · split
          · have := matchOp_ok w (cur ts) (next ts) m1
            generalize matchOp w (cur ts) (next ts) m1 = r at this
            obtain ⟨a, ts2, m2⟩ := r
            simp only at this ⊢
            refine ⟨?_, this.2.trans hs1⟩
            split
            · exact Nat.lt_of_le_of_lt (Nat.le_trans (next_le _) this.1) hlt
            · exact Nat.lt_of_le_of_lt this.1 hlt
          · exact ⟨hlt, by rw [err_stuck]; exact hs1⟩
      · refine ⟨hlt, ?_⟩
        split
        · exact hs1
        · rw [err_stuck]; exact hs1

/-- the program loop never gets stuck -/
theorem progLoop_ok (w : Bool) (ts : List Token) (brace : Bool) (acc : List Item) (m : Msgs) :
    (progLoop w ts brace acc m).2.stuck = m.stuck := by
  induction h : ts.length using Nat.strong_induction_on generalizing ts brace acc m with
  | _ n ih =>
    subst h
    rw [progLoop]
    split
    · rfl
    · rename_i hne
      have hne' : atEnd ts = false := by simpa using hne
      have hs := progStep_ok w ts brace m hne'
      generalize progStep w ts brace m = r at hs
      obtain ⟨items, ts', brace', m'⟩ := r
      simp only at hs ⊢
      simp only [hs.1, ↓reduceDIte]
      exact (ih ts'.length hs.1 ts' brace' _ m' rfl).trans hs.2

/-- **C07 (the parser makes progress).** For every token list whatsoever - and so for every text - the parser model never
    reaches a state in which a loop goes round without consuming a token: `match_program` and the argument-list loop end
    after at most as many iterations as there are tokens. (The model is total by construction; this is the part of
    totality that is not.) -/
theorem C07_parser_never_stuck (w : Bool) (ts : List Token) : (parseTokens w ts).2.stuck = false :=
  progLoop_ok w ts false [] {}

theorem C07_parser_total (w : Bool) (text : Str) : (parseText w text).2.stuck = false :=
  C07_parser_never_stuck w (lexAll text)

end Parse
end Hera
