import HeraProofs.Props.C02
import HeraProofs.Props.C14
import HeraProofs.Props.C19
import HeraModel.Model.Debugger
/-
  C02, continued — the debugger's write paths (`handle_assign`; `on` / `off` / `goto` do not touch registers or
  memory). The right-hand sides are values of the expression language, so by `C14_eval_range` they lie in
  -32768..65535.
  * memory: `C02_assign_mem_WF` - address and value go through `to_u16`: the machine stays well-formed for every value;
  * pc: `C02_assign_pc` - a negative value is refused, so pc never becomes negative through an assignment;
  * registers: `C02_assign_reg_WF` - well-formed for every non-negative value; `C02_assign_reg_negative` shows that a
    negative value (which the expression language can produce) is stored as it is: the known finding KF-C02-1, pinned by
    the suite, stated exactly.
-/
namespace Hera
open Dbg Gen

theorem C02_assign_mem_WF (s : State) (hwf : WF s.vm) (addr rhs : Int)
    (ha : -32768 ≤ addr ∧ addr < 65536) (hv : -32768 ≤ rhs ∧ rhs < 65536) :
    ∃ s', assignMem s addr rhs = .ok s' ∧ WF s'.vm ∧ s'.vm.registers = s.vm.registers ∧ s'.vm.pc = s.vm.pc := by
  obtain ⟨a, hta, ha0, ha1, _⟩ := to_u16_ok addr ha
  obtain ⟨v, htv, hv0, hv1, _⟩ := to_u16_ok rhs hv
  unfold assignMem
  rw [hta, htv]
  simp only [store_memory_eq _ _ _ ha0]
  refine ⟨_, rfl, ?_, rfl, rfl⟩
  obtain ⟨a1, a2, a3, a4, a5⟩ := hwf
  refine ⟨a1, a2, a3, ?_, ?_⟩
  · show (memSet _ _ _).length ≤ 65536
    rw [memSet_length]; omega
  · intro c hc
    rcases memSet_mem hc with h | h | h
    · exact a5 c h
    · subst h; exact ⟨hv0, hv1⟩
    · subst h; omega

theorem C02_assign_pc (s s' : State) (rhs : Int) (h : assignPc s rhs = .ok s') :
    0 ≤ s'.vm.pc ∧ s'.vm.registers = s.vm.registers ∧ s'.vm.memory = s.vm.memory := by
  unfold assignPc at h
  by_cases hn : rhs < 0
  · rw [if_pos hn] at h; cases h
  · rw [if_neg hn] at h; cases h; exact ⟨by show 0 ≤ rhs; omega, rfl, rfl⟩

theorem C02_assign_reg_WF (s : State) (hwf : WF s.vm) (i : Nat) (hi : i < 16) (rhs : Int) (hv : 0 ≤ rhs ∧ rhs < 65536) :
    ∃ s', assignReg s i rhs = .ok s' ∧ WF s'.vm := by
  unfold assignReg
  rw [store_register_eq s.vm i rhs hwf.len hi]
  refine ⟨_, rfl, ?_⟩
  exact WF_of_regwrite (d := i) (v := rhs) hwf hv (by simp) (by simp)

/-- the known finding KF-C02-1, exactly: a negative value assigned to a register other than R0 is stored as it is, so
    the machine is no longer well-formed (the expression language yields negative values, e.g. `-5`) -/
theorem C02_assign_reg_negative (s : State) (hwf : WF s.vm) (i : Nat) (hi : i < 16) (hi0 : i ≠ 0) (rhs : Int) (hv : rhs < 0) :
    ∃ s', assignReg s i rhs = .ok s' ∧ reg s'.vm i = rhs ∧ ¬ WF s'.vm := by
  unfold assignReg
  rw [store_register_eq s.vm i rhs hwf.len hi]
  refine ⟨_, rfl, ?_, ?_⟩
  · show (stackWarn i rhs _).registers.getD i 0 = rhs
    rw [stackWarn_registers]
    rw [getD_regSet _ _ _ _ (by rw [hwf.len]; exact hi)]
    simp [hi0]
  · intro hw
    have := reg_range hw hi
    have hr : reg (stackWarn i rhs { s.vm with registers := regSet s.vm.registers i rhs }) i = rhs := by
      show (stackWarn i rhs _).registers.getD i 0 = rhs
      rw [stackWarn_registers, getD_regSet _ _ _ _ (by rw [hwf.len]; exact hi)]
      simp [hi0]
    rw [hr] at this
    omega

end Hera
