import HeraProofs.Props.C05c
/-
  C05, continued — the decoding side against the HERA table: whatever the (model of the) disassembler makes of a 16-bit
  word is a valid instruction of the architecture, and it is the instruction the HERA decoding table `Spec.decode`
  gives for that word. Proof: every matched operand lies within its bit field (`matchGo_bound`, generic in the
  pattern), field widths per class are decided on the regenerated table, a matched operation therefore is the
  operation of a valid instruction (`matched_is_valid`); it re-assembles to the word (C05_decode_sound), the table
  word of that instruction is what assembling gives (C05_assemble_is_table), so the word is the instruction's table
  word and the table decodes it back (C05_decode_encode).
-/
set_option linter.unusedSimpArgs false
set_option linter.unusedVariables false

namespace Hera
open Enc Spec

theorem width_cons (c : Char) (p : List Char) (k : Nat) :
    width (c :: p) k = (if c ≠ '0' ∧ c ≠ '1' ∧ idx c = k then 1 else 0) + width p k := by
  unfold width
  rw [List.filter_cons]
  by_cases h : c ≠ '0' ∧ c ≠ '1' ∧ idx c = k
  · obtain ⟨h0, h1, h2⟩ := h
    simp [h0, h1, h2]
    omega
  · have : (c ≠ '0' && c ≠ '1' && idx c == k) = false := by
      simp only [not_and, ne_eq] at h
      by_cases h0 : c = '0'
      · simp [h0]
      · by_cases h1 : c = '1'
        · simp [h1]
        · simp [h0, h1, h h0 h1]
    have h' : ¬((¬c = '0' ∧ ¬c = '1') ∧ idx c = k) := fun ⟨⟨a, b⟩, e⟩ => h ⟨a, b, e⟩
    simp [h, h']

/-- every value the matcher reads lies within its field: starting from `a`, argument `k` ends below
    `(a k + 1) * 2 ^ width` and stays non-negative -/
theorem matchGo_bound : ∀ (p : List Char) (bs : List Bool) (a a' : Nat → Int), matchGo p bs a = some a' →
    ∀ k, 0 ≤ a k → 0 ≤ a' k ∧ a' k < (a k + 1) * 2 ^ (width p k) := by
  intro p
  induction p with
  | nil =>
    intro bs a a' h k hk
    simp [matchGo] at h
    subst h
    simp [width]
    omega
  | cons c p ih =>
    intro bs a a' h k hk
    cases bs with
    | nil =>
      simp [matchGo] at h
      subst h
      refine ⟨hk, ?_⟩
      have : (1 : Int) ≤ 2 ^ width (c :: p) k := by
        have : (0 : Int) < 2 ^ width (c :: p) k := by positivity
        omega
      nlinarith
    | cons b bs =>
      rw [matchGo] at h
      rw [width_cons]
      by_cases h0 : c = '0'
      · simp only [h0, ↓reduceIte] at h
        cases b <;> simp at h
        have := ih bs a a' h k hk
        simpa [h0] using this
      · by_cases h1 : c = '1'
        · simp only [h1, show ¬ ('1' : Char) = '0' by decide, ↓reduceIte] at h
          cases b <;> simp at h
          have := ih bs a a' h k hk
          simpa [h1] using this
        · simp only [h0, h1, ↓reduceIte] at h
          by_cases hkc : idx c = k
          · subst hkc
            have hb : (0 : Int) ≤ (if b = true then 1 else 0) ∧ (if b = true then (1 : Int) else 0) ≤ 1 := by
              cases b <;> simp
            have := ih bs _ a' h (idx c) (by simp [upd]; omega)
            simp only [upd, ↓reduceIte] at this
            refine ⟨this.1, ?_⟩
            simp only [ne_eq, h0, not_false_eq_true, h1, and_self, ↓reduceIte]
            rw [show 1 + width p (idx c) = width p (idx c) + 1 by omega, pow_succ]
            have hp : (0 : Int) < 2 ^ width p (idx c) := by positivity
            nlinarith [this.2]
          · have := ih bs _ a' h k (by simp [upd, Ne.symm hkc]; exact hk)
            simp only [upd, Ne.symm hkc, ↓reduceIte] at this
            simpa [hkc] using this
end Hera

namespace Hera
open Enc Spec

/-- the int arguments after `cls.disassemble`: INC and DEC add one to their second argument -/
def fixArgs (c : Cls) (args : List Int) : List Int :=
  if c = .INC ∨ c = .DEC then (match args with | [x, y] => [x, y + 1] | l => l) else args

/-- the field widths of a class's pattern -/
def Cls.widths (c : Cls) : List Nat := (List.range (arity (strip c.BITV))).map (width (strip c.BITV))

def InField (c : Cls) (args : List Int) : Prop :=
  args.length = c.widths.length ∧ ∀ k, k < args.length → 0 ≤ args.getD k 0 ∧ args.getD k 0 < 2 ^ c.widths.getD k 0

theorem len0 {l : List Int} (h : l.length = 0) : l = [] := List.eq_nil_of_length_eq_zero h
theorem len1 {l : List Int} (h : l.length = 1) : ∃ x, l = [x] := by
  rcases l with _ | ⟨x, _ | ⟨y, t⟩⟩ <;> simp at h; exact ⟨x, rfl⟩
theorem len2 {l : List Int} (h : l.length = 2) : ∃ x y, l = [x, y] := by
  rcases l with _ | ⟨x, _ | ⟨y, _ | ⟨z, t⟩⟩⟩ <;> simp at h; exact ⟨x, y, rfl⟩
theorem len3 {l : List Int} (h : l.length = 3) : ∃ x y z, l = [x, y, z] := by
  rcases l with _ | ⟨x, _ | ⟨y, _ | ⟨z, _ | ⟨u, t⟩⟩⟩⟩ <;> simp at h; exact ⟨x, y, z, rfl⟩

macro "valid_case" e:term : tactic => `(tactic| (
  refine ⟨$e, ?_, ?_⟩
  · simp only [EInstr.Valid, Instr.Valid]
    first | done | omega
  · simp only [EInstr.toOp, Instr.toOp, condCls, fixArgs, List.map, reduceCtorEq, or_self, or_false, false_or, ↓reduceIte,
      Prod.mk.injEq, true_and, List.cons.injEq, Val.int.injEq, and_true]
    first | done | omega))

theorem valid_ADD (args : List Int) (h : InField .ADD args) :
    ∃ e : EInstr, e.Valid ∧ e.toOp = (Cls.ADD, (fixArgs .ADD args).map Val.int) := by
  have hw : Cls.widths .ADD = [4, 4, 4] := by decide
  rw [InField, hw] at h
  obtain ⟨x, y, z, rfl⟩ := len3 h.1
  have h0 := h.2 0 (by simp)
  have h1 := h.2 1 (by simp)
  have h2 := h.2 2 (by simp)
  simp only [hw, List.getD_cons_zero, List.getD_cons_succ, List.getD_eq_getElem?_getD, List.getElem?_cons_zero, List.getElem?_cons_succ, Option.getD_some] at h0 h1 h2
  valid_case (.instr (.alu3 .add x.toNat y.toNat z.toNat))

theorem valid_AND (args : List Int) (h : InField .AND args) :
    ∃ e : EInstr, e.Valid ∧ e.toOp = (Cls.AND, (fixArgs .AND args).map Val.int) := by
  have hw : Cls.widths .AND = [4, 4, 4] := by decide
  rw [InField, hw] at h
  obtain ⟨x, y, z, rfl⟩ := len3 h.1
  have h0 := h.2 0 (by simp)
  have h1 := h.2 1 (by simp)
  have h2 := h.2 2 (by simp)
  simp only [hw, List.getD_cons_zero, List.getD_cons_succ, List.getD_eq_getElem?_getD, List.getElem?_cons_zero, List.getElem?_cons_succ, Option.getD_some] at h0 h1 h2
  valid_case (.instr (.alu3 .and x.toNat y.toNat z.toNat))

theorem valid_OR (args : List Int) (h : InField .OR args) :
    ∃ e : EInstr, e.Valid ∧ e.toOp = (Cls.OR, (fixArgs .OR args).map Val.int) := by
  have hw : Cls.widths .OR = [4, 4, 4] := by decide
  rw [InField, hw] at h
  obtain ⟨x, y, z, rfl⟩ := len3 h.1
  have h0 := h.2 0 (by simp)
  have h1 := h.2 1 (by simp)
  have h2 := h.2 2 (by simp)
  simp only [hw, List.getD_cons_zero, List.getD_cons_succ, List.getD_eq_getElem?_getD, List.getElem?_cons_zero, List.getElem?_cons_succ, Option.getD_some] at h0 h1 h2
  valid_case (.instr (.alu3 .or x.toNat y.toNat z.toNat))

theorem valid_SUB (args : List Int) (h : InField .SUB args) :
    ∃ e : EInstr, e.Valid ∧ e.toOp = (Cls.SUB, (fixArgs .SUB args).map Val.int) := by
  have hw : Cls.widths .SUB = [4, 4, 4] := by decide
  rw [InField, hw] at h
  obtain ⟨x, y, z, rfl⟩ := len3 h.1
  have h0 := h.2 0 (by simp)
  have h1 := h.2 1 (by simp)
  have h2 := h.2 2 (by simp)
  simp only [hw, List.getD_cons_zero, List.getD_cons_succ, List.getD_eq_getElem?_getD, List.getElem?_cons_zero, List.getElem?_cons_succ, Option.getD_some] at h0 h1 h2
  valid_case (.instr (.alu3 .sub x.toNat y.toNat z.toNat))

theorem valid_MUL (args : List Int) (h : InField .MUL args) :
    ∃ e : EInstr, e.Valid ∧ e.toOp = (Cls.MUL, (fixArgs .MUL args).map Val.int) := by
  have hw : Cls.widths .MUL = [4, 4, 4] := by decide
  rw [InField, hw] at h
  obtain ⟨x, y, z, rfl⟩ := len3 h.1
  have h0 := h.2 0 (by simp)
  have h1 := h.2 1 (by simp)
  have h2 := h.2 2 (by simp)
  simp only [hw, List.getD_cons_zero, List.getD_cons_succ, List.getD_eq_getElem?_getD, List.getElem?_cons_zero, List.getElem?_cons_succ, Option.getD_some] at h0 h1 h2
  valid_case (.instr (.alu3 .mul x.toNat y.toNat z.toNat))

theorem valid_XOR (args : List Int) (h : InField .XOR args) :
    ∃ e : EInstr, e.Valid ∧ e.toOp = (Cls.XOR, (fixArgs .XOR args).map Val.int) := by
  have hw : Cls.widths .XOR = [4, 4, 4] := by decide
  rw [InField, hw] at h
  obtain ⟨x, y, z, rfl⟩ := len3 h.1
  have h0 := h.2 0 (by simp)
  have h1 := h.2 1 (by simp)
  have h2 := h.2 2 (by simp)
  simp only [hw, List.getD_cons_zero, List.getD_cons_succ, List.getD_eq_getElem?_getD, List.getElem?_cons_zero, List.getElem?_cons_succ, Option.getD_some] at h0 h1 h2
  valid_case (.instr (.alu3 .xor x.toNat y.toNat z.toNat))

theorem valid_LSL (args : List Int) (h : InField .LSL args) :
    ∃ e : EInstr, e.Valid ∧ e.toOp = (Cls.LSL, (fixArgs .LSL args).map Val.int) := by
  have hw : Cls.widths .LSL = [4, 4] := by decide
  rw [InField, hw] at h
  obtain ⟨x, y, rfl⟩ := len2 h.1
  have h0 := h.2 0 (by simp)
  have h1 := h.2 1 (by simp)
  simp only [hw, List.getD_cons_zero, List.getD_cons_succ, List.getD_eq_getElem?_getD, List.getElem?_cons_zero, List.getElem?_cons_succ, Option.getD_some] at h0 h1
  valid_case (.instr (.shift .lsl x.toNat y.toNat))

theorem valid_LSR (args : List Int) (h : InField .LSR args) :
    ∃ e : EInstr, e.Valid ∧ e.toOp = (Cls.LSR, (fixArgs .LSR args).map Val.int) := by
  have hw : Cls.widths .LSR = [4, 4] := by decide
  rw [InField, hw] at h
  obtain ⟨x, y, rfl⟩ := len2 h.1
  have h0 := h.2 0 (by simp)
  have h1 := h.2 1 (by simp)
  simp only [hw, List.getD_cons_zero, List.getD_cons_succ, List.getD_eq_getElem?_getD, List.getElem?_cons_zero, List.getElem?_cons_succ, Option.getD_some] at h0 h1
  valid_case (.instr (.shift .lsr x.toNat y.toNat))

theorem valid_LSL8 (args : List Int) (h : InField .LSL8 args) :
    ∃ e : EInstr, e.Valid ∧ e.toOp = (Cls.LSL8, (fixArgs .LSL8 args).map Val.int) := by
  have hw : Cls.widths .LSL8 = [4, 4] := by decide
  rw [InField, hw] at h
  obtain ⟨x, y, rfl⟩ := len2 h.1
  have h0 := h.2 0 (by simp)
  have h1 := h.2 1 (by simp)
  simp only [hw, List.getD_cons_zero, List.getD_cons_succ, List.getD_eq_getElem?_getD, List.getElem?_cons_zero, List.getElem?_cons_succ, Option.getD_some] at h0 h1
  valid_case (.instr (.shift .lsl8 x.toNat y.toNat))

theorem valid_LSR8 (args : List Int) (h : InField .LSR8 args) :
    ∃ e : EInstr, e.Valid ∧ e.toOp = (Cls.LSR8, (fixArgs .LSR8 args).map Val.int) := by
  have hw : Cls.widths .LSR8 = [4, 4] := by decide
  rw [InField, hw] at h
  obtain ⟨x, y, rfl⟩ := len2 h.1
  have h0 := h.2 0 (by simp)
  have h1 := h.2 1 (by simp)
  simp only [hw, List.getD_cons_zero, List.getD_cons_succ, List.getD_eq_getElem?_getD, List.getElem?_cons_zero, List.getElem?_cons_succ, Option.getD_some] at h0 h1
  valid_case (.instr (.shift .lsr8 x.toNat y.toNat))

theorem valid_ASL (args : List Int) (h : InField .ASL args) :
    ∃ e : EInstr, e.Valid ∧ e.toOp = (Cls.ASL, (fixArgs .ASL args).map Val.int) := by
  have hw : Cls.widths .ASL = [4, 4] := by decide
  rw [InField, hw] at h
  obtain ⟨x, y, rfl⟩ := len2 h.1
  have h0 := h.2 0 (by simp)
  have h1 := h.2 1 (by simp)
  simp only [hw, List.getD_cons_zero, List.getD_cons_succ, List.getD_eq_getElem?_getD, List.getElem?_cons_zero, List.getElem?_cons_succ, Option.getD_some] at h0 h1
  valid_case (.instr (.shift .asl x.toNat y.toNat))

theorem valid_ASR (args : List Int) (h : InField .ASR args) :
    ∃ e : EInstr, e.Valid ∧ e.toOp = (Cls.ASR, (fixArgs .ASR args).map Val.int) := by
  have hw : Cls.widths .ASR = [4, 4] := by decide
  rw [InField, hw] at h
  obtain ⟨x, y, rfl⟩ := len2 h.1
  have h0 := h.2 0 (by simp)
  have h1 := h.2 1 (by simp)
  simp only [hw, List.getD_cons_zero, List.getD_cons_succ, List.getD_eq_getElem?_getD, List.getElem?_cons_zero, List.getElem?_cons_succ, Option.getD_some] at h0 h1
  valid_case (.instr (.shift .asr x.toNat y.toNat))

theorem valid_SETLO (args : List Int) (h : InField .SETLO args) :
    ∃ e : EInstr, e.Valid ∧ e.toOp = (Cls.SETLO, (fixArgs .SETLO args).map Val.int) := by
  have hw : Cls.widths .SETLO = [4, 8] := by decide
  rw [InField, hw] at h
  obtain ⟨x, y, rfl⟩ := len2 h.1
  have h0 := h.2 0 (by simp)
  have h1 := h.2 1 (by simp)
  simp only [hw, List.getD_cons_zero, List.getD_cons_succ, List.getD_eq_getElem?_getD, List.getElem?_cons_zero, List.getElem?_cons_succ, Option.getD_some] at h0 h1
  valid_case (.instr (.setlo x.toNat y))

theorem valid_SETHI (args : List Int) (h : InField .SETHI args) :
    ∃ e : EInstr, e.Valid ∧ e.toOp = (Cls.SETHI, (fixArgs .SETHI args).map Val.int) := by
  have hw : Cls.widths .SETHI = [4, 8] := by decide
  rw [InField, hw] at h
  obtain ⟨x, y, rfl⟩ := len2 h.1
  have h0 := h.2 0 (by simp)
  have h1 := h.2 1 (by simp)
  simp only [hw, List.getD_cons_zero, List.getD_cons_succ, List.getD_eq_getElem?_getD, List.getElem?_cons_zero, List.getElem?_cons_succ, Option.getD_some] at h0 h1
  valid_case (.instr (.sethi x.toNat y))

theorem valid_INC (args : List Int) (h : InField .INC args) :
    ∃ e : EInstr, e.Valid ∧ e.toOp = (Cls.INC, (fixArgs .INC args).map Val.int) := by
  have hw : Cls.widths .INC = [4, 6] := by decide
  rw [InField, hw] at h
  obtain ⟨x, y, rfl⟩ := len2 h.1
  have h0 := h.2 0 (by simp)
  have h1 := h.2 1 (by simp)
  simp only [hw, List.getD_cons_zero, List.getD_cons_succ, List.getD_eq_getElem?_getD, List.getElem?_cons_zero, List.getElem?_cons_succ, Option.getD_some] at h0 h1
  valid_case (.instr (.inc x.toNat (y + 1)))

theorem valid_DEC (args : List Int) (h : InField .DEC args) :
    ∃ e : EInstr, e.Valid ∧ e.toOp = (Cls.DEC, (fixArgs .DEC args).map Val.int) := by
  have hw : Cls.widths .DEC = [4, 6] := by decide
  rw [InField, hw] at h
  obtain ⟨x, y, rfl⟩ := len2 h.1
  have h0 := h.2 0 (by simp)
  have h1 := h.2 1 (by simp)
  simp only [hw, List.getD_cons_zero, List.getD_cons_succ, List.getD_eq_getElem?_getD, List.getElem?_cons_zero, List.getElem?_cons_succ, Option.getD_some] at h0 h1
  valid_case (.instr (.dec x.toNat (y + 1)))

theorem valid_SAVEF (args : List Int) (h : InField .SAVEF args) :
    ∃ e : EInstr, e.Valid ∧ e.toOp = (Cls.SAVEF, (fixArgs .SAVEF args).map Val.int) := by
  have hw : Cls.widths .SAVEF = [4] := by decide
  rw [InField, hw] at h
  obtain ⟨x, rfl⟩ := len1 h.1
  have h0 := h.2 0 (by simp)
  simp only [hw, List.getD_cons_zero, List.getD_cons_succ, List.getD_eq_getElem?_getD, List.getElem?_cons_zero, List.getElem?_cons_succ, Option.getD_some] at h0
  valid_case (.instr (.savef x.toNat))

theorem valid_RSTRF (args : List Int) (h : InField .RSTRF args) :
    ∃ e : EInstr, e.Valid ∧ e.toOp = (Cls.RSTRF, (fixArgs .RSTRF args).map Val.int) := by
  have hw : Cls.widths .RSTRF = [4] := by decide
  rw [InField, hw] at h
  obtain ⟨x, rfl⟩ := len1 h.1
  have h0 := h.2 0 (by simp)
  simp only [hw, List.getD_cons_zero, List.getD_cons_succ, List.getD_eq_getElem?_getD, List.getElem?_cons_zero, List.getElem?_cons_succ, Option.getD_some] at h0
  valid_case (.instr (.rstrf x.toNat))

theorem valid_FON (args : List Int) (h : InField .FON args) :
    ∃ e : EInstr, e.Valid ∧ e.toOp = (Cls.FON, (fixArgs .FON args).map Val.int) := by
  have hw : Cls.widths .FON = [5] := by decide
  rw [InField, hw] at h
  obtain ⟨x, rfl⟩ := len1 h.1
  have h0 := h.2 0 (by simp)
  simp only [hw, List.getD_cons_zero, List.getD_cons_succ, List.getD_eq_getElem?_getD, List.getElem?_cons_zero, List.getElem?_cons_succ, Option.getD_some] at h0
  valid_case (.instr (.fon x))

theorem valid_FOFF (args : List Int) (h : InField .FOFF args) :
    ∃ e : EInstr, e.Valid ∧ e.toOp = (Cls.FOFF, (fixArgs .FOFF args).map Val.int) := by
  have hw : Cls.widths .FOFF = [5] := by decide
  rw [InField, hw] at h
  obtain ⟨x, rfl⟩ := len1 h.1
  have h0 := h.2 0 (by simp)
  simp only [hw, List.getD_cons_zero, List.getD_cons_succ, List.getD_eq_getElem?_getD, List.getElem?_cons_zero, List.getElem?_cons_succ, Option.getD_some] at h0
  valid_case (.instr (.foff x))

theorem valid_FSET5 (args : List Int) (h : InField .FSET5 args) :
    ∃ e : EInstr, e.Valid ∧ e.toOp = (Cls.FSET5, (fixArgs .FSET5 args).map Val.int) := by
  have hw : Cls.widths .FSET5 = [5] := by decide
  rw [InField, hw] at h
  obtain ⟨x, rfl⟩ := len1 h.1
  have h0 := h.2 0 (by simp)
  simp only [hw, List.getD_cons_zero, List.getD_cons_succ, List.getD_eq_getElem?_getD, List.getElem?_cons_zero, List.getElem?_cons_succ, Option.getD_some] at h0
  valid_case (.instr (.fset5 x))

theorem valid_FSET4 (args : List Int) (h : InField .FSET4 args) :
    ∃ e : EInstr, e.Valid ∧ e.toOp = (Cls.FSET4, (fixArgs .FSET4 args).map Val.int) := by
  have hw : Cls.widths .FSET4 = [4] := by decide
  rw [InField, hw] at h
  obtain ⟨x, rfl⟩ := len1 h.1
  have h0 := h.2 0 (by simp)
  simp only [hw, List.getD_cons_zero, List.getD_cons_succ, List.getD_eq_getElem?_getD, List.getElem?_cons_zero, List.getElem?_cons_succ, Option.getD_some] at h0
  valid_case (.instr (.fset4 x))

theorem valid_LOAD (args : List Int) (h : InField .LOAD args) :
    ∃ e : EInstr, e.Valid ∧ e.toOp = (Cls.LOAD, (fixArgs .LOAD args).map Val.int) := by
  have hw : Cls.widths .LOAD = [4, 5, 4] := by decide
  rw [InField, hw] at h
  obtain ⟨x, y, z, rfl⟩ := len3 h.1
  have h0 := h.2 0 (by simp)
  have h1 := h.2 1 (by simp)
  have h2 := h.2 2 (by simp)
  simp only [hw, List.getD_cons_zero, List.getD_cons_succ, List.getD_eq_getElem?_getD, List.getElem?_cons_zero, List.getElem?_cons_succ, Option.getD_some] at h0 h1 h2
  valid_case (.instr (.load x.toNat y z.toNat))

theorem valid_STORE (args : List Int) (h : InField .STORE args) :
    ∃ e : EInstr, e.Valid ∧ e.toOp = (Cls.STORE, (fixArgs .STORE args).map Val.int) := by
  have hw : Cls.widths .STORE = [4, 5, 4] := by decide
  rw [InField, hw] at h
  obtain ⟨x, y, z, rfl⟩ := len3 h.1
  have h0 := h.2 0 (by simp)
  have h1 := h.2 1 (by simp)
  have h2 := h.2 2 (by simp)
  simp only [hw, List.getD_cons_zero, List.getD_cons_succ, List.getD_eq_getElem?_getD, List.getElem?_cons_zero, List.getElem?_cons_succ, Option.getD_some] at h0 h1 h2
  valid_case (.instr (.store x.toNat y z.toNat))

theorem valid_BR (args : List Int) (h : InField .BR args) :
    ∃ e : EInstr, e.Valid ∧ e.toOp = (Cls.BR, (fixArgs .BR args).map Val.int) := by
  have hw : Cls.widths .BR = [4] := by decide
  rw [InField, hw] at h
  obtain ⟨x, rfl⟩ := len1 h.1
  have h0 := h.2 0 (by simp)
  simp only [hw, List.getD_cons_zero, List.getD_cons_succ, List.getD_eq_getElem?_getD, List.getElem?_cons_zero, List.getElem?_cons_succ, Option.getD_some] at h0
  valid_case (.instr (.br .always x.toNat))

theorem valid_BRR (args : List Int) (h : InField .BRR args) :
    ∃ e : EInstr, e.Valid ∧ e.toOp = (Cls.BRR, (fixArgs .BRR args).map Val.int) := by
  have hw : Cls.widths .BRR = [8] := by decide
  rw [InField, hw] at h
  obtain ⟨x, rfl⟩ := len1 h.1
  have h0 := h.2 0 (by simp)
  simp only [hw, List.getD_cons_zero, List.getD_cons_succ, List.getD_eq_getElem?_getD, List.getElem?_cons_zero, List.getElem?_cons_succ, Option.getD_some] at h0
  valid_case (.instr (.brr .always x))

theorem valid_BL (args : List Int) (h : InField .BL args) :
    ∃ e : EInstr, e.Valid ∧ e.toOp = (Cls.BL, (fixArgs .BL args).map Val.int) := by
  have hw : Cls.widths .BL = [4] := by decide
  rw [InField, hw] at h
  obtain ⟨x, rfl⟩ := len1 h.1
  have h0 := h.2 0 (by simp)
  simp only [hw, List.getD_cons_zero, List.getD_cons_succ, List.getD_eq_getElem?_getD, List.getElem?_cons_zero, List.getElem?_cons_succ, Option.getD_some] at h0
  valid_case (.instr (.br .l x.toNat))

theorem valid_BLR (args : List Int) (h : InField .BLR args) :
    ∃ e : EInstr, e.Valid ∧ e.toOp = (Cls.BLR, (fixArgs .BLR args).map Val.int) := by
  have hw : Cls.widths .BLR = [8] := by decide
  rw [InField, hw] at h
  obtain ⟨x, rfl⟩ := len1 h.1
  have h0 := h.2 0 (by simp)
  simp only [hw, List.getD_cons_zero, List.getD_cons_succ, List.getD_eq_getElem?_getD, List.getElem?_cons_zero, List.getElem?_cons_succ, Option.getD_some] at h0
  valid_case (.instr (.brr .l x))

theorem valid_BGE (args : List Int) (h : InField .BGE args) :
    ∃ e : EInstr, e.Valid ∧ e.toOp = (Cls.BGE, (fixArgs .BGE args).map Val.int) := by
  have hw : Cls.widths .BGE = [4] := by decide
  rw [InField, hw] at h
  obtain ⟨x, rfl⟩ := len1 h.1
  have h0 := h.2 0 (by simp)
  simp only [hw, List.getD_cons_zero, List.getD_cons_succ, List.getD_eq_getElem?_getD, List.getElem?_cons_zero, List.getElem?_cons_succ, Option.getD_some] at h0
  valid_case (.instr (.br .ge x.toNat))

theorem valid_BGER (args : List Int) (h : InField .BGER args) :
    ∃ e : EInstr, e.Valid ∧ e.toOp = (Cls.BGER, (fixArgs .BGER args).map Val.int) := by
  have hw : Cls.widths .BGER = [8] := by decide
  rw [InField, hw] at h
  obtain ⟨x, rfl⟩ := len1 h.1
  have h0 := h.2 0 (by simp)
  simp only [hw, List.getD_cons_zero, List.getD_cons_succ, List.getD_eq_getElem?_getD, List.getElem?_cons_zero, List.getElem?_cons_succ, Option.getD_some] at h0
  valid_case (.instr (.brr .ge x))

theorem valid_BLE (args : List Int) (h : InField .BLE args) :
    ∃ e : EInstr, e.Valid ∧ e.toOp = (Cls.BLE, (fixArgs .BLE args).map Val.int) := by
  have hw : Cls.widths .BLE = [4] := by decide
  rw [InField, hw] at h
  obtain ⟨x, rfl⟩ := len1 h.1
  have h0 := h.2 0 (by simp)
  simp only [hw, List.getD_cons_zero, List.getD_cons_succ, List.getD_eq_getElem?_getD, List.getElem?_cons_zero, List.getElem?_cons_succ, Option.getD_some] at h0
  valid_case (.instr (.br .le x.toNat))

theorem valid_BLER (args : List Int) (h : InField .BLER args) :
    ∃ e : EInstr, e.Valid ∧ e.toOp = (Cls.BLER, (fixArgs .BLER args).map Val.int) := by
  have hw : Cls.widths .BLER = [8] := by decide
  rw [InField, hw] at h
  obtain ⟨x, rfl⟩ := len1 h.1
  have h0 := h.2 0 (by simp)
  simp only [hw, List.getD_cons_zero, List.getD_cons_succ, List.getD_eq_getElem?_getD, List.getElem?_cons_zero, List.getElem?_cons_succ, Option.getD_some] at h0
  valid_case (.instr (.brr .le x))

theorem valid_BG (args : List Int) (h : InField .BG args) :
    ∃ e : EInstr, e.Valid ∧ e.toOp = (Cls.BG, (fixArgs .BG args).map Val.int) := by
  have hw : Cls.widths .BG = [4] := by decide
  rw [InField, hw] at h
  obtain ⟨x, rfl⟩ := len1 h.1
  have h0 := h.2 0 (by simp)
  simp only [hw, List.getD_cons_zero, List.getD_cons_succ, List.getD_eq_getElem?_getD, List.getElem?_cons_zero, List.getElem?_cons_succ, Option.getD_some] at h0
  valid_case (.instr (.br .g x.toNat))

theorem valid_BGR (args : List Int) (h : InField .BGR args) :
    ∃ e : EInstr, e.Valid ∧ e.toOp = (Cls.BGR, (fixArgs .BGR args).map Val.int) := by
  have hw : Cls.widths .BGR = [8] := by decide
  rw [InField, hw] at h
  obtain ⟨x, rfl⟩ := len1 h.1
  have h0 := h.2 0 (by simp)
  simp only [hw, List.getD_cons_zero, List.getD_cons_succ, List.getD_eq_getElem?_getD, List.getElem?_cons_zero, List.getElem?_cons_succ, Option.getD_some] at h0
  valid_case (.instr (.brr .g x))

theorem valid_BULE (args : List Int) (h : InField .BULE args) :
    ∃ e : EInstr, e.Valid ∧ e.toOp = (Cls.BULE, (fixArgs .BULE args).map Val.int) := by
  have hw : Cls.widths .BULE = [4] := by decide
  rw [InField, hw] at h
  obtain ⟨x, rfl⟩ := len1 h.1
  have h0 := h.2 0 (by simp)
  simp only [hw, List.getD_cons_zero, List.getD_cons_succ, List.getD_eq_getElem?_getD, List.getElem?_cons_zero, List.getElem?_cons_succ, Option.getD_some] at h0
  valid_case (.instr (.br .ule x.toNat))

theorem valid_BULER (args : List Int) (h : InField .BULER args) :
    ∃ e : EInstr, e.Valid ∧ e.toOp = (Cls.BULER, (fixArgs .BULER args).map Val.int) := by
  have hw : Cls.widths .BULER = [8] := by decide
  rw [InField, hw] at h
  obtain ⟨x, rfl⟩ := len1 h.1
  have h0 := h.2 0 (by simp)
  simp only [hw, List.getD_cons_zero, List.getD_cons_succ, List.getD_eq_getElem?_getD, List.getElem?_cons_zero, List.getElem?_cons_succ, Option.getD_some] at h0
  valid_case (.instr (.brr .ule x))

theorem valid_BUG (args : List Int) (h : InField .BUG args) :
    ∃ e : EInstr, e.Valid ∧ e.toOp = (Cls.BUG, (fixArgs .BUG args).map Val.int) := by
  have hw : Cls.widths .BUG = [4] := by decide
  rw [InField, hw] at h
  obtain ⟨x, rfl⟩ := len1 h.1
  have h0 := h.2 0 (by simp)
  simp only [hw, List.getD_cons_zero, List.getD_cons_succ, List.getD_eq_getElem?_getD, List.getElem?_cons_zero, List.getElem?_cons_succ, Option.getD_some] at h0
  valid_case (.instr (.br .ug x.toNat))

theorem valid_BUGR (args : List Int) (h : InField .BUGR args) :
    ∃ e : EInstr, e.Valid ∧ e.toOp = (Cls.BUGR, (fixArgs .BUGR args).map Val.int) := by
  have hw : Cls.widths .BUGR = [8] := by decide
  rw [InField, hw] at h
  obtain ⟨x, rfl⟩ := len1 h.1
  have h0 := h.2 0 (by simp)
  simp only [hw, List.getD_cons_zero, List.getD_cons_succ, List.getD_eq_getElem?_getD, List.getElem?_cons_zero, List.getElem?_cons_succ, Option.getD_some] at h0
  valid_case (.instr (.brr .ug x))

theorem valid_BZ (args : List Int) (h : InField .BZ args) :
    ∃ e : EInstr, e.Valid ∧ e.toOp = (Cls.BZ, (fixArgs .BZ args).map Val.int) := by
  have hw : Cls.widths .BZ = [4] := by decide
  rw [InField, hw] at h
  obtain ⟨x, rfl⟩ := len1 h.1
  have h0 := h.2 0 (by simp)
  simp only [hw, List.getD_cons_zero, List.getD_cons_succ, List.getD_eq_getElem?_getD, List.getElem?_cons_zero, List.getElem?_cons_succ, Option.getD_some] at h0
  valid_case (.instr (.br .z x.toNat))

theorem valid_BZR (args : List Int) (h : InField .BZR args) :
    ∃ e : EInstr, e.Valid ∧ e.toOp = (Cls.BZR, (fixArgs .BZR args).map Val.int) := by
  have hw : Cls.widths .BZR = [8] := by decide
  rw [InField, hw] at h
  obtain ⟨x, rfl⟩ := len1 h.1
  have h0 := h.2 0 (by simp)
  simp only [hw, List.getD_cons_zero, List.getD_cons_succ, List.getD_eq_getElem?_getD, List.getElem?_cons_zero, List.getElem?_cons_succ, Option.getD_some] at h0
  valid_case (.instr (.brr .z x))

theorem valid_BNZ (args : List Int) (h : InField .BNZ args) :
    ∃ e : EInstr, e.Valid ∧ e.toOp = (Cls.BNZ, (fixArgs .BNZ args).map Val.int) := by
  have hw : Cls.widths .BNZ = [4] := by decide
  rw [InField, hw] at h
  obtain ⟨x, rfl⟩ := len1 h.1
  have h0 := h.2 0 (by simp)
  simp only [hw, List.getD_cons_zero, List.getD_cons_succ, List.getD_eq_getElem?_getD, List.getElem?_cons_zero, List.getElem?_cons_succ, Option.getD_some] at h0
  valid_case (.instr (.br .nz x.toNat))

theorem valid_BNZR (args : List Int) (h : InField .BNZR args) :
    ∃ e : EInstr, e.Valid ∧ e.toOp = (Cls.BNZR, (fixArgs .BNZR args).map Val.int) := by
  have hw : Cls.widths .BNZR = [8] := by decide
  rw [InField, hw] at h
  obtain ⟨x, rfl⟩ := len1 h.1
  have h0 := h.2 0 (by simp)
  simp only [hw, List.getD_cons_zero, List.getD_cons_succ, List.getD_eq_getElem?_getD, List.getElem?_cons_zero, List.getElem?_cons_succ, Option.getD_some] at h0
  valid_case (.instr (.brr .nz x))

theorem valid_BC (args : List Int) (h : InField .BC args) :
    ∃ e : EInstr, e.Valid ∧ e.toOp = (Cls.BC, (fixArgs .BC args).map Val.int) := by
  have hw : Cls.widths .BC = [4] := by decide
  rw [InField, hw] at h
  obtain ⟨x, rfl⟩ := len1 h.1
  have h0 := h.2 0 (by simp)
  simp only [hw, List.getD_cons_zero, List.getD_cons_succ, List.getD_eq_getElem?_getD, List.getElem?_cons_zero, List.getElem?_cons_succ, Option.getD_some] at h0
  valid_case (.instr (.br .c x.toNat))

theorem valid_BCR (args : List Int) (h : InField .BCR args) :
    ∃ e : EInstr, e.Valid ∧ e.toOp = (Cls.BCR, (fixArgs .BCR args).map Val.int) := by
  have hw : Cls.widths .BCR = [8] := by decide
  rw [InField, hw] at h
  obtain ⟨x, rfl⟩ := len1 h.1
  have h0 := h.2 0 (by simp)
  simp only [hw, List.getD_cons_zero, List.getD_cons_succ, List.getD_eq_getElem?_getD, List.getElem?_cons_zero, List.getElem?_cons_succ, Option.getD_some] at h0
  valid_case (.instr (.brr .c x))

theorem valid_BNC (args : List Int) (h : InField .BNC args) :
    ∃ e : EInstr, e.Valid ∧ e.toOp = (Cls.BNC, (fixArgs .BNC args).map Val.int) := by
  have hw : Cls.widths .BNC = [4] := by decide
  rw [InField, hw] at h
  obtain ⟨x, rfl⟩ := len1 h.1
  have h0 := h.2 0 (by simp)
  simp only [hw, List.getD_cons_zero, List.getD_cons_succ, List.getD_eq_getElem?_getD, List.getElem?_cons_zero, List.getElem?_cons_succ, Option.getD_some] at h0
  valid_case (.instr (.br .nc x.toNat))

theorem valid_BNCR (args : List Int) (h : InField .BNCR args) :
    ∃ e : EInstr, e.Valid ∧ e.toOp = (Cls.BNCR, (fixArgs .BNCR args).map Val.int) := by
  have hw : Cls.widths .BNCR = [8] := by decide
  rw [InField, hw] at h
  obtain ⟨x, rfl⟩ := len1 h.1
  have h0 := h.2 0 (by simp)
  simp only [hw, List.getD_cons_zero, List.getD_cons_succ, List.getD_eq_getElem?_getD, List.getElem?_cons_zero, List.getElem?_cons_succ, Option.getD_some] at h0
  valid_case (.instr (.brr .nc x))

theorem valid_BS (args : List Int) (h : InField .BS args) :
    ∃ e : EInstr, e.Valid ∧ e.toOp = (Cls.BS, (fixArgs .BS args).map Val.int) := by
  have hw : Cls.widths .BS = [4] := by decide
  rw [InField, hw] at h
  obtain ⟨x, rfl⟩ := len1 h.1
  have h0 := h.2 0 (by simp)
  simp only [hw, List.getD_cons_zero, List.getD_cons_succ, List.getD_eq_getElem?_getD, List.getElem?_cons_zero, List.getElem?_cons_succ, Option.getD_some] at h0
  valid_case (.instr (.br .s x.toNat))

theorem valid_BSR (args : List Int) (h : InField .BSR args) :
    ∃ e : EInstr, e.Valid ∧ e.toOp = (Cls.BSR, (fixArgs .BSR args).map Val.int) := by
  have hw : Cls.widths .BSR = [8] := by decide
  rw [InField, hw] at h
  obtain ⟨x, rfl⟩ := len1 h.1
  have h0 := h.2 0 (by simp)
  simp only [hw, List.getD_cons_zero, List.getD_cons_succ, List.getD_eq_getElem?_getD, List.getElem?_cons_zero, List.getElem?_cons_succ, Option.getD_some] at h0
  valid_case (.instr (.brr .s x))

theorem valid_BNS (args : List Int) (h : InField .BNS args) :
    ∃ e : EInstr, e.Valid ∧ e.toOp = (Cls.BNS, (fixArgs .BNS args).map Val.int) := by
  have hw : Cls.widths .BNS = [4] := by decide
  rw [InField, hw] at h
  obtain ⟨x, rfl⟩ := len1 h.1
  have h0 := h.2 0 (by simp)
  simp only [hw, List.getD_cons_zero, List.getD_cons_succ, List.getD_eq_getElem?_getD, List.getElem?_cons_zero, List.getElem?_cons_succ, Option.getD_some] at h0
  valid_case (.instr (.br .ns x.toNat))

theorem valid_BNSR (args : List Int) (h : InField .BNSR args) :
    ∃ e : EInstr, e.Valid ∧ e.toOp = (Cls.BNSR, (fixArgs .BNSR args).map Val.int) := by
  have hw : Cls.widths .BNSR = [8] := by decide
  rw [InField, hw] at h
  obtain ⟨x, rfl⟩ := len1 h.1
  have h0 := h.2 0 (by simp)
  simp only [hw, List.getD_cons_zero, List.getD_cons_succ, List.getD_eq_getElem?_getD, List.getElem?_cons_zero, List.getElem?_cons_succ, Option.getD_some] at h0
  valid_case (.instr (.brr .ns x))

theorem valid_BV (args : List Int) (h : InField .BV args) :
    ∃ e : EInstr, e.Valid ∧ e.toOp = (Cls.BV, (fixArgs .BV args).map Val.int) := by
  have hw : Cls.widths .BV = [4] := by decide
  rw [InField, hw] at h
  obtain ⟨x, rfl⟩ := len1 h.1
  have h0 := h.2 0 (by simp)
  simp only [hw, List.getD_cons_zero, List.getD_cons_succ, List.getD_eq_getElem?_getD, List.getElem?_cons_zero, List.getElem?_cons_succ, Option.getD_some] at h0
  valid_case (.instr (.br .v x.toNat))

theorem valid_BVR (args : List Int) (h : InField .BVR args) :
    ∃ e : EInstr, e.Valid ∧ e.toOp = (Cls.BVR, (fixArgs .BVR args).map Val.int) := by
  have hw : Cls.widths .BVR = [8] := by decide
  rw [InField, hw] at h
  obtain ⟨x, rfl⟩ := len1 h.1
  have h0 := h.2 0 (by simp)
  simp only [hw, List.getD_cons_zero, List.getD_cons_succ, List.getD_eq_getElem?_getD, List.getElem?_cons_zero, List.getElem?_cons_succ, Option.getD_some] at h0
  valid_case (.instr (.brr .v x))

theorem valid_BNV (args : List Int) (h : InField .BNV args) :
    ∃ e : EInstr, e.Valid ∧ e.toOp = (Cls.BNV, (fixArgs .BNV args).map Val.int) := by
  have hw : Cls.widths .BNV = [4] := by decide
  rw [InField, hw] at h
  obtain ⟨x, rfl⟩ := len1 h.1
  have h0 := h.2 0 (by simp)
  simp only [hw, List.getD_cons_zero, List.getD_cons_succ, List.getD_eq_getElem?_getD, List.getElem?_cons_zero, List.getElem?_cons_succ, Option.getD_some] at h0
  valid_case (.instr (.br .nv x.toNat))

theorem valid_BNVR (args : List Int) (h : InField .BNVR args) :
    ∃ e : EInstr, e.Valid ∧ e.toOp = (Cls.BNVR, (fixArgs .BNVR args).map Val.int) := by
  have hw : Cls.widths .BNVR = [8] := by decide
  rw [InField, hw] at h
  obtain ⟨x, rfl⟩ := len1 h.1
  have h0 := h.2 0 (by simp)
  simp only [hw, List.getD_cons_zero, List.getD_cons_succ, List.getD_eq_getElem?_getD, List.getElem?_cons_zero, List.getElem?_cons_succ, Option.getD_some] at h0
  valid_case (.instr (.brr .nv x))

theorem valid_CALL (args : List Int) (h : InField .CALL args) :
    ∃ e : EInstr, e.Valid ∧ e.toOp = (Cls.CALL, (fixArgs .CALL args).map Val.int) := by
  have hw : Cls.widths .CALL = [4, 4] := by decide
  rw [InField, hw] at h
  obtain ⟨x, y, rfl⟩ := len2 h.1
  have h0 := h.2 0 (by simp)
  have h1 := h.2 1 (by simp)
  simp only [hw, List.getD_cons_zero, List.getD_cons_succ, List.getD_eq_getElem?_getD, List.getElem?_cons_zero, List.getElem?_cons_succ, Option.getD_some] at h0 h1
  valid_case (.instr (.call x.toNat y.toNat))

theorem valid_RETURN (args : List Int) (h : InField .RETURN args) :
    ∃ e : EInstr, e.Valid ∧ e.toOp = (Cls.RETURN, (fixArgs .RETURN args).map Val.int) := by
  have hw : Cls.widths .RETURN = [4, 4] := by decide
  rw [InField, hw] at h
  obtain ⟨x, y, rfl⟩ := len2 h.1
  have h0 := h.2 0 (by simp)
  have h1 := h.2 1 (by simp)
  simp only [hw, List.getD_cons_zero, List.getD_cons_succ, List.getD_eq_getElem?_getD, List.getElem?_cons_zero, List.getElem?_cons_succ, Option.getD_some] at h0 h1
  valid_case (.instr (.ret x.toNat y.toNat))

theorem valid_SWI (args : List Int) (h : InField .SWI args) :
    ∃ e : EInstr, e.Valid ∧ e.toOp = (Cls.SWI, (fixArgs .SWI args).map Val.int) := by
  have hw : Cls.widths .SWI = [4] := by decide
  rw [InField, hw] at h
  obtain ⟨x, rfl⟩ := len1 h.1
  have h0 := h.2 0 (by simp)
  simp only [hw, List.getD_cons_zero, List.getD_cons_succ, List.getD_eq_getElem?_getD, List.getElem?_cons_zero, List.getElem?_cons_succ, Option.getD_some] at h0
  valid_case (.swi x)

theorem valid_RTI (args : List Int) (h : InField .RTI args) :
    ∃ e : EInstr, e.Valid ∧ e.toOp = (Cls.RTI, (fixArgs .RTI args).map Val.int) := by
  have hw : Cls.widths .RTI = [] := by decide
  rw [InField, hw] at h
  have hl := len0 h.1; subst hl

  valid_case (.rti)


/-- an operation whose operands lie within the fields of its class's pattern is the operation of a valid instruction -/
theorem valid_of_infield (c : Cls) (hb : c.BITV ≠ []) (args : List Int) (h : InField c args) :
    ∃ e : EInstr, e.Valid ∧ e.toOp = (c, (fixArgs c args).map Val.int) :=
  match c with
  | .ADD => valid_ADD args h
  | .AND => valid_AND args h
  | .ASL => valid_ASL args h
  | .ASR => valid_ASR args h
  | .BC => valid_BC args h
  | .BCR => valid_BCR args h
  | .BG => valid_BG args h
  | .BGR => valid_BGR args h
  | .BGE => valid_BGE args h
  | .BGER => valid_BGER args h
  | .BL => valid_BL args h
  | .BLR => valid_BLR args h
  | .BLE => valid_BLE args h
  | .BLER => valid_BLER args h
  | .BNC => valid_BNC args h
  | .BNCR => valid_BNCR args h
  | .BNS => valid_BNS args h
  | .BNSR => valid_BNSR args h
  | .BNV => valid_BNV args h
  | .BNVR => valid_BNVR args h
  | .BNZ => valid_BNZ args h
  | .BNZR => valid_BNZR args h
  | .BR => valid_BR args h
  | .BRR => valid_BRR args h
  | .BS => valid_BS args h
  | .BSR => valid_BSR args h
  | .BUG => valid_BUG args h
  | .BUGR => valid_BUGR args h
  | .BULE => valid_BULE args h
  | .BULER => valid_BULER args h
  | .BV => valid_BV args h
  | .BVR => valid_BVR args h
  | .BZ => valid_BZ args h
  | .BZR => valid_BZR args h
  | .CALL => valid_CALL args h
  | .CBON => absurd rfl hb
  | .CCBOFF => absurd rfl hb
  | .CMP => absurd rfl hb
  | .COFF => absurd rfl hb
  | .CON => absurd rfl hb
  | .CONSTANT => absurd rfl hb
  | .DEC => valid_DEC args h
  | .DLABEL => absurd rfl hb
  | .DSKIP => absurd rfl hb
  | .FLAGS => absurd rfl hb
  | .FOFF => valid_FOFF args h
  | .FON => valid_FON args h
  | .FSET4 => valid_FSET4 args h
  | .FSET5 => valid_FSET5 args h
  | .HALT => absurd rfl hb
  | .INC => valid_INC args h
  | .INTEGER => absurd rfl hb
  | .LABEL => absurd rfl hb
  | .LOAD => valid_LOAD args h
  | .LP_STRING => absurd rfl hb
  | .LSL => valid_LSL args h
  | .LSL8 => valid_LSL8 args h
  | .LSR => valid_LSR args h
  | .LSR8 => valid_LSR8 args h
  | .MOVE => absurd rfl hb
  | .MUL => valid_MUL args h
  | .NEG => absurd rfl hb
  | .NOP => absurd rfl hb
  | .NOT => absurd rfl hb
  | .OPCODE => absurd rfl hb
  | .OR => valid_OR args h
  | .PRINT => absurd rfl hb
  | .PRINTLN => absurd rfl hb
  | .PRINT_REG => absurd rfl hb
  | .RETURN => valid_RETURN args h
  | .RSTRF => valid_RSTRF args h
  | .RTI => valid_RTI args h
  | .SAVEF => valid_SAVEF args h
  | .SET => absurd rfl hb
  | .SETHI => valid_SETHI args h
  | .SETLO => valid_SETLO args h
  | .SETRF => absurd rfl hb
  | .STORE => valid_STORE args h
  | .SUB => valid_SUB args h
  | .SWI => valid_SWI args h
  | .XOR => valid_XOR args h
  | .X__EVAL => absurd rfl hb

theorem widths_getD (c : Cls) (k : Nat) (hk : k < arity (strip c.BITV)) : c.widths.getD k 0 = width (strip c.BITV) k := by
  unfold Cls.widths
  simp [List.getD, List.getElem?_map, List.getElem?_range hk]

/-- what the matcher reads for a class lies within the class's fields -/
theorem matched_infield (c : Cls) (bs : List Bool) (a : Nat → Int)
    (hm : matchGo (strip c.BITV) bs (fun _ => 0) = some a) : InField c ((toksOf (strip c.BITV) a).map intOf) := by
  refine ⟨by simp [toksOf_length, Cls.widths], ?_⟩
  intro k hk
  rw [List.length_map, toksOf_length] at hk
  rw [toksOf_getD _ a k hk, widths_getD c k hk]
  have := matchGo_bound _ _ _ _ hm k (by simp)
  simpa using this

/-- **C05 (the disassembler follows the HERA table).** Whatever a 16-bit word disassembles to is the operation of a valid
    instruction `e` of the architecture, `w` is the table word of `e`, and the HERA decoding table gives `e` for `w`. -/
theorem C05_disassemble_is_table (w : Nat) (hw : w < 65536) (d : DOp) (h : Enc.disassemble (w : Int) false = .ok d) :
    ∃ e : EInstr, e.Valid ∧ e.toOp = (d.cls, d.toks.map Tok.val) ∧ encode e = w ∧ decode w = some e.canon := by
  have hsound := C05_decode_sound w hw d h
  unfold Enc.disassemble at h
  rw [if_neg (by omega)] at h
  obtain ⟨c, hb, m, hm, hcd⟩ := go_ok _ _ _ h
  simp only [Int.toNat_natCast] at hm
  obtain ⟨a, hma, rfl⟩ := matchBitvector_some hm
  have hin := matched_infield c _ a hma
  obtain ⟨e, hv, hop⟩ := valid_of_infield c hb _ hin
  have hd : (d.cls, d.toks.map Tok.val) = (c, (fixArgs c ((toksOf (strip c.BITV) a).map intOf)).map Val.int) := by
    unfold clsDisassemble at hcd
    by_cases hid : c = .INC ∨ c = .DEC
    · rw [if_pos hid] at hcd
      have h2 : arity (strip c.BITV) = 2 := by rcases hid with rfl | rfl <;> decide
      have hi1 : isRegArg (strip c.BITV) 1 = false := by rcases hid with rfl | rfl <;> decide
      have hi0 : isRegArg (strip c.BITV) 0 = true := by rcases hid with rfl | rfl <;> decide
      have htoks : toksOf (strip c.BITV) a = [Tok.reg (a 0), Tok.int (a 1)] := by
        unfold toksOf
        rw [h2]
        simp [List.range, List.range.loop, hi1, hi0]
      rw [htoks] at hcd ⊢
      simp only [Except.ok.injEq] at hcd
      subst hcd
      simp [fixArgs, hid, intOf, Tok.val]
    · rw [if_neg hid] at hcd
      simp only [Except.ok.injEq] at hcd
      subst hcd
      simp only [fixArgs, if_neg hid]
      rw [toksOf_val]
  refine ⟨e, hv, by rw [hop, hd], ?_⟩
  have hasm := C05_assemble_is_table e hv
  rw [hop, ← hd] at hasm
  simp only at hasm
  rw [hsound] at hasm
  simp only [Except.ok.injEq, Option.some.injEq] at hasm
  have hwe : w = encode e := bytesOf_inj w (encode e) hasm
  exact ⟨hwe.symm, by rw [hwe]; exact C05_decode_encode e hv⟩

end Hera
