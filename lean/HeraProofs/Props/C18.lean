import HeraModel.Model.CliArgs
/-
  C18 — the command line honours its contract: the argument-vector layer (model of `main.parse_args`, corresponded with
  the real function on generated argument vectors).
-/
namespace Hera
open CliArgs

theorem S_throttleEq : S "--throttle=" = [45, 45, 116, 104, 114, 111, 116, 116, 108, 101, 61] := by decide
theorem S_initEq : S "--init=" = [45, 45, 105, 110, 105, 116, 61] := by decide

/-- no known flag contains `=` -/
theorem flags_no_eq : ∀ f ∈ FLAGS, f.contains 61 = false := by decide

theorem not_flag_of_eq (a : Str) (h : a.contains 61 = true) : FLAGS.contains a = false := by
  cases hc : FLAGS.contains a with
  | false => rfl
  | true =>
    have hm : a ∈ FLAGS := by simpa using hc
    have := flags_no_eq a hm
    rw [this] at h; cases h

theorem shortToLong_long (a : Str) (h : 2 < a.length) : shortToLong a = a := by
  unfold shortToLong
  have h1 : a ≠ S "-h" := fun e => by rw [e] at h; revert h; decide
  have h2 : a ≠ S "-v" := fun e => by rw [e] at h; revert h; decide
  have h3 : a ≠ S "-q" := fun e => by rw [e] at h; revert h; decide
  simp [h1, h2, h3]

theorem ne_dashes_long (a : Str) (h : 2 < a.length) : a ≠ S "--" := fun e => by rw [e] at h; revert h; decide

theorem isPrefixOf_append (p n : Str) : startsWith (p ++ n) p = true := by
  unfold startsWith
  rw [List.isPrefixOf_iff_prefix]
  exact List.prefix_append p n

/-- **C18 (`--throttle n` and `--throttle=n` are the same).** At any point of the scan before `--`, the two spellings
    leave the scan in the same state (or end in the same usage error) for every value text `n`. -/
theorem C18_throttle_spellings (st : Scan) (hst : st.after = false) (n : Str) (rest : List Str) :
    scan (S "--throttle" :: n :: rest) st = scan ((S "--throttle=" ++ n) :: rest) st := by
  have hlen : 2 < (S "--throttle=" ++ n).length := by rw [S_throttleEq]; simp
  have hc : (S "--throttle=" ++ n).contains 61 = true := by rw [S_throttleEq]; simp
  have e1 : shortToLong (S "--throttle") = S "--throttle" := by decide
  have e2 : (S "--throttle" = S "--") = False := by simp; decide
  have e3 : FLAGS.contains (S "--throttle") = true := by decide
  unfold scan
  simp only [e1, e2, e3, hst, if_false, if_true, Bool.not_false, Bool.true_and, shortToLong_long _ hlen,
    ne_dashes_long _ hlen, not_flag_of_eq _ hc, isPrefixOf_append, Bool.false_eq_true]
  have hd : (S "--throttle=" ++ n).drop 11 = n := by rw [S_throttleEq]; rfl
  rw [hd]

/-- **C18 (`--init s` and `--init=s` are the same).** -/
theorem C18_init_spellings (st : Scan) (hst : st.after = false) (v : Str) (rest : List Str) :
    scan (S "--init" :: v :: rest) st = scan ((S "--init=" ++ v) :: rest) st := by
  have hlen : 2 < (S "--init=" ++ v).length := by rw [S_initEq]; simp
  have hc : (S "--init=" ++ v).contains 61 = true := by rw [S_initEq]; simp
  have e1 : shortToLong (S "--init") = S "--init" := by decide
  have e2 : (S "--init" = S "--") = False := by simp; decide
  have e3 : FLAGS.contains (S "--init") = true := by decide
  have e4 : (S "--init" = S "--throttle") = False := by simp; decide
  have hnt : startsWith (S "--init=" ++ v) (S "--throttle=") = false := by
    rw [S_initEq, S_throttleEq]; simp [startsWith, List.isPrefixOf]
  unfold scan
  simp only [e1, e2, e3, e4, hst, if_false, if_true, Bool.not_false, Bool.true_and, shortToLong_long _ hlen,
    ne_dashes_long _ hlen, not_flag_of_eq _ hc, isPrefixOf_append, hnt, Bool.false_eq_true]
  have hd : (S "--init=" ++ v).drop 7 = v := by rw [S_initEq]; rfl
  rw [hd]

/-- **C18 (unknown flags are usage errors).** Before `--`, an argument that starts with `-`, is longer than one
    character, is not a known flag (also after expansion of the short forms h, v, q) and is not of the form `--throttle=...` / `--init=...`
    ends the scan with the usage error "Unrecognized flag", whatever came before and whatever follows. -/
theorem C18_unknown_flag (st : Scan) (hst : st.after = false) (arg : Str) (rest : List Str)
    (hdd : shortToLong arg ≠ S "--") (hk : FLAGS.contains (shortToLong arg) = false)
    (ht : startsWith (shortToLong arg) (S "--throttle=") = false) (hi : startsWith (shortToLong arg) (S "--init=") = false)
    (hd : startsWith (shortToLong arg) (S "-") = true) (hl : 1 < (shortToLong arg).length) :
    scan (arg :: rest) st = .error (S "Unrecognized flag: " ++ arg) := by
  have hk' : shortToLong arg ∉ FLAGS := by simpa using hk
  unfold scan
  simp [hdd, hk', ht, hi, hd, hl, hst]

/-- **C18 (after `--` everything is a path).** -/
theorem C18_after_dashes (args : List Str) (st : Scan) (hst : st.after = true) :
    scan args st = .ok { st with pos := st.pos ++ (args.map shortToLong).filter (· ≠ S "--") } := by
  induction args generalizing st with
  | nil => simp [scan]
  | cons a rest ih =>
    unfold scan
    by_cases hd : shortToLong a = S "--"
    · simp only [hd, if_true]
      rw [ih _ rfl]
      simp [hd, hst]
    · simp only [hd, if_false, hst, Bool.not_true, Bool.false_and, Bool.false_eq_true]
      rw [ih _ rfl]
      simp [hd, hst, List.append_assoc]

/-- **C18 (the value of --throttle).** Accepted exactly when it is a non-empty string of decimal digits, and then
    non-negative. -/
theorem C18_throttle_value (v : Str) (n : Int) (h : parseThrottle v = .ok n) : isDigits v = true ∧ 0 ≤ n := by
  unfold parseThrottle at h
  split at h
  · rename_i hd
    split at h
    · split at h
      · cases h
      · rename_i hm
        cases h
        exact ⟨hd, by omega⟩
    · cases h
  · cases h

/-- **C18 (options of another mode are usage errors).** With exactly one path and no --help / --version / --credits,
    a flag of the compatibility table that is present - whatever value it carries - in a mode outside its list makes
    the outcome a usage error. -/
theorem C18_incompatible (st : Scan) (path : Str) (hpos : st.pos = [path])
    (hh : st.flags.has (S "--help") = false) (hv : st.flags.has (S "--version") = false)
    (hc : st.flags.has (S "--credits") = false)
    (p : Str × List Str) (hp : p ∈ PICKY) (hf : st.flags.has p.1 = true) (hm : p.2.contains (modeOf st.flags) = false) :
    ∃ msg, finish st = .usage msg := by
  unfold finish
  simp only [hh, hv, hc, hpos, Bool.false_eq_true, if_false]
  cases hfind : PICKY.find? (fun q => st.flags.has q.1 && !q.2.contains (modeOf st.flags)) with
  | some q => exact ⟨_, rfl⟩
  | none =>
    have := List.find?_eq_none.mp hfind p hp
    simp only [hf, Bool.true_and, Bool.not_eq_true', Bool.not_eq_false] at this
    rw [hm] at this
    cases this

/-- non-vacuity: an unknown flag, and a path after the double dash -/
example : parseArgs [S "--initx", S "x.hera"] = .usage (S "Unrecognized flag: --initx") := by decide
example : (match parseArgs [S "--", S "-x.hera"] with | .ok st => st.path == S "-x.hera" | _ => false) = true := by decide

end Hera
