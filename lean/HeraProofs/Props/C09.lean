import HeraModel
/-
  C09 — the checker accepts exactly the programs that obey the documented operand rules.

  `Cls.P` is regenerated from hera/op.py; `Chk.*` is the hand model of op.typecheck / check_arglist / checker.py
  (corresponded on the full operand grid and on generated programs in all four modes); `Sig.*` is the
  documented signature table and rule set, written by hand.
-/
namespace Hera
open Chk Sig

/-- translation of a documented kind into the implementation's parameter type -/
def Sig.Kind.toPTy : Sig.Kind → PTy
  | .reg => .register
  | .regOrLabel => .registerOrLabel
  | .name => .labelType
  | .string => .string
  | .int lo hi => .range lo hi
  | .intOrLabel lo hi => if lo = -32768 ∧ hi = 65536 then .i16OrLabel else .i8OrLabel

/-- The regenerated `P` table is the documented signature table. -/
theorem table_P : ∀ c ∈ Cls.all, c.P = (Sig.params c).map Sig.Kind.toPTy := by decide

end Hera
namespace Hera
open Chk Sig

theorem checkArg_iff (k : Sig.Kind) (hk : ∀ lo hi, k = .intOrLabel lo hi → (lo = -32768 ∧ hi = 65536) ∨ (lo = -128 ∧ hi = 256))
    (t : Tok) (env : SymTab) : checkArg k.toPTy t env = none ↔ argOK k t env = true := by
  cases k with
  | reg => cases t <;> simp [Sig.Kind.toPTy, checkArg, checkRegister, argOK] <;> split <;> simp
  | regOrLabel =>
    cases t <;> simp [Sig.Kind.toPTy, checkArg, checkRegisterOrLabel, argOK]
    rename_i s
    cases h : env.get? (.str s) with
    | none => simp
    | some v => cases v <;> simp
  | name => cases t <;> simp [Sig.Kind.toPTy, checkArg, checkLabel, argOK, isSym]
  | string => cases t <;> simp [Sig.Kind.toPTy, checkArg, checkString, argOK, isStr]
  | int lo hi =>
    cases t with
    | int v => simp [Sig.Kind.toPTy, checkArg, checkInRange, argOK, inRange]
    | reg v => simp [Sig.Kind.toPTy, checkArg, checkInRange, argOK]
    | str s => simp [Sig.Kind.toPTy, checkArg, checkInRange, argOK]
    | sym s =>
      simp only [Sig.Kind.toPTy, checkArg, checkInRange, argOK, inRange]
      cases h : env.get? (.str s) with
      | none => simp
      | some v => cases v <;> simp <;> omega
  | intOrLabel lo hi =>
    rcases hk lo hi rfl with ⟨rfl, rfl⟩ | ⟨rfl, rfl⟩
    · cases t with
      | int v => simp [Sig.Kind.toPTy, checkArg, checkInRange, argOK, inRange]
      | reg v => simp [Sig.Kind.toPTy, checkArg, checkInRange, argOK]
      | str s => simp [Sig.Kind.toPTy, checkArg, checkInRange, argOK]
      | sym s =>
        simp only [Sig.Kind.toPTy, checkArg, checkInRange, argOK, inRange, and_self, ↓reduceIte]
        cases h : env.get? (.str s) with
        | none => simp
        | some v => cases v <;> simp <;> omega
    · cases t with
      | int v => simp [Sig.Kind.toPTy, checkArg, checkInRange, argOK, inRange]
      | reg v => simp [Sig.Kind.toPTy, checkArg, checkInRange, argOK]
      | str s => simp [Sig.Kind.toPTy, checkArg, checkInRange, argOK]
      | sym s =>
        have hne : ¬ ((-128 : Int) = -32768 ∧ (256 : Int) = 65536) := by decide
        simp only [Sig.Kind.toPTy, hne, checkArg, checkInRange, argOK, inRange, ↓reduceIte]
        cases h : env.get? (.str s) with
        | none => simp
        | some v => cases v <;> simp <;> omega

end Hera
namespace Hera
open Chk Sig

@[simp] theorem Msgs.warn_errors (m : Msgs) (s : String) (l : Int) : (m.warn s l).errors = m.errors := rfl
@[simp] theorem Msgs.err_errors (m : Msgs) (s : String) (l : Int) : (m.err s l).errors = m.errors ++ [(s, l)] := rfl
@[simp] theorem Msgs.extend_errors (m n : Msgs) : (m.extend n).errors = m.errors ++ n.errors := rfl

theorem checkArglist_go_errors (tab : SymTab) (loc : Int) :
    ∀ (ps : List PTy) (ts : List Tok) (i : Nat) (m : Msgs), ps.length = ts.length →
      ((checkArglist.go tab loc ps ts i m).errors = [] ↔
        m.errors = [] ∧ ∀ p t, (p, t) ∈ ps.zip ts → checkArg p t tab = none) := by
  intro ps
  induction ps with
  | nil =>
    intro ts i m h
    cases ts with
    | nil => simp [checkArglist.go]
    | cons _ _ => simp at h
  | cons p ps ih =>
    intro ts i m h
    cases ts with
    | nil => simp at h
    | cons t ts =>
      rw [checkArglist.go, ih ts (i + 1) _ (by simpa using h)]
      cases hc : checkArg p t tab with
      | none =>
        simp only [List.zip_cons_cons, List.mem_cons, Prod.mk.injEq]
        constructor
        · rintro ⟨h1, h2⟩
          refine ⟨h1, ?_⟩
          intro p' t' hm
          rcases hm with ⟨rfl, rfl⟩ | hm
          · exact hc
          · exact h2 p' t' hm
        · rintro ⟨h1, h2⟩
          exact ⟨h1, fun p' t' hm => h2 p' t' (Or.inr hm)⟩
      | some e =>
        simp only [Msgs.err_errors, List.append_eq_nil_iff, List.cons_ne_self, and_false, false_and, List.zip_cons_cons,
          List.mem_cons, Prod.mk.injEq, false_iff, not_and]
        intro _ h2
        have := h2 p t (Or.inl ⟨rfl, rfl⟩)
        rw [hc] at this
        cases this

theorem argsOK_iff (env : SymTab) : ∀ (ks : List Sig.Kind) (ts : List Tok),
    argsOK ks ts env = true ↔ ks.length = ts.length ∧ ∀ k t, (k, t) ∈ ks.zip ts → argOK k t env = true := by
  intro ks
  induction ks with
  | nil => intro ts; cases ts <;> simp [argsOK]
  | cons k ks ih =>
    intro ts
    cases ts with
    | nil => simp [argsOK]
    | cons t ts =>
      simp only [argsOK, Bool.and_eq_true, ih, List.length_cons, Nat.add_right_cancel_iff, List.zip_cons_cons, List.mem_cons,
        Prod.mk.injEq]
      constructor
      · rintro ⟨h1, h2, h3⟩
        refine ⟨h2, ?_⟩
        intro k' t' hm
        rcases hm with ⟨rfl, rfl⟩ | hm
        · exact h1
        · exact h3 k' t' hm
      · rintro ⟨h1, h2⟩
        exact ⟨h2 k t (Or.inl ⟨rfl, rfl⟩), h1, fun k' t' hm => h2 k' t' (Or.inr hm)⟩

end Hera
namespace Hera
open Chk Sig

theorem mem_all' (c : Cls) : c ∈ Cls.all := by cases c <;> decide

theorem table_kinds (c : Cls) : ∀ k ∈ Sig.params c, ∀ lo hi, k = .intOrLabel lo hi →
    (lo = -32768 ∧ hi = 65536) ∨ (lo = -128 ∧ hi = 256) := by
  cases c <;> simp [Sig.params]

/-- **C09 (operation level).** The checker reports no error for an operation exactly when the operation obeys its
    documented signature: right operand count, registers where registers are required, integers (or constants)
    within the documented range, strings where strings are required, code labels only where a label is allowed,
    and an OPCODE word that is an instruction (unless only assembling). -/
theorem C09_op_iff (op : SOp) (env : SymTab) (asm : Bool) :
    (typecheckOp op env asm).errors = [] ↔ Sig.opConforms op env asm = true := by
  have hP := table_P op.cls (mem_all' op.cls)
  have hk := table_kinds op.cls
  unfold typecheckOp Sig.opConforms
  simp only [List.append_eq_nil_iff, Bool.and_eq_true]
  rw [argsOK_iff]
  by_cases hlen : (Sig.params op.cls).length = op.toks.length
  · have hlenP : op.cls.P.length = op.toks.length := by rw [hP, List.length_map]; exact hlen
    have ha : arityErrors op = [] := by
      unfold arityErrors; simp only; rw [if_neg (by omega), if_neg (by omega)]
    have hcl : (checkArglist op.cls.P op.toks env op.loc).errors = [] ↔
        ∀ k t, (k, t) ∈ (Sig.params op.cls).zip op.toks → argOK k t env = true := by
      unfold checkArglist
      rw [checkArglist_go_errors env op.loc op.cls.P op.toks 0 {} hlenP]
      simp only [true_and]
      rw [hP, List.zip_map_left]
      constructor
      · intro h k t hm
        have hkm : k ∈ Sig.params op.cls := (List.of_mem_zip hm).1
        rw [← checkArg_iff k (hk k hkm) t env]
        exact h k.toPTy t (List.mem_map.mpr ⟨(k, t), hm, rfl⟩)
      · intro h p t hm
        obtain ⟨⟨k, t'⟩, hm', heq⟩ := List.mem_map.mp hm
        simp only [Prod.map_apply, id_eq, Prod.mk.injEq] at heq
        obtain ⟨rfl, rfl⟩ := heq
        have hkm : k ∈ Sig.params op.cls := (List.of_mem_zip hm').1
        rw [checkArg_iff k (hk k hkm) t' env]
        exact h k t' hm'
    have ho : opcodeErrors op env asm = [] ↔
        (if op.cls = .OPCODE then
          match opcodeWord op.toks env with
          | some v => asm || (match Enc.disassemble v false with | .ok _ => true | .error _ => false)
          | none => true
         else true) = true := by
      unfold opcodeErrors
      by_cases hc : op.cls = .OPCODE
      · simp only [hc, ↓reduceIte]
        cases hv : opcodeWord op.toks env with
        | none => simp
        | some v =>
          cases asm with
          | true => cases hd : Enc.disassemble v true <;> simp [hd]
          | false => cases hd : Enc.disassemble v false <;> simp [hd]
      · simp [hc]
    rw [ha, hcl, ho]
    constructor
    · rintro ⟨⟨_, h1⟩, h2⟩; exact ⟨⟨hlen, h1⟩, h2⟩
    · rintro ⟨⟨_, h1⟩, h2⟩; exact ⟨⟨rfl, h1⟩, h2⟩
  · have hlenP : op.cls.P.length ≠ op.toks.length := by rw [hP, List.length_map]; exact hlen
    have ha : arityErrors op ≠ [] := by
      unfold arityErrors; simp only
      by_cases h : op.cls.P.length < op.toks.length
      · rw [if_pos h]; simp
      · rw [if_neg h, if_pos (by omega)]; simp
    simp [ha, hlen]

end Hera
