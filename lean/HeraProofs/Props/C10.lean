import HeraModel.Model.StrLit
/-
  C10 — what `hera preprocess` prints means the same as its input: the string-literal layer.

  `C10_string_roundtrip`: for every string whose characters are below 512 (all that the lexer can produce: ASCII text,
  two-digit hex escapes, three-digit octal escapes), the lexer reads the literal written by `string_to_literal` back as
  exactly that string, without a warning, whatever text follows the closing quote. (`C10_read_range` shows that strings
  read from ASCII text stay below 512, so the hypothesis is closed under the round trip.)
-/
namespace Hera
open StrLit

theorem hexDigit_isHex (n : Nat) (h : n < 16) : isHex (hexDigit n) = true ∧ hexVal (hexDigit n) = n := by
  unfold hexDigit isHex isDigit hexVal
  by_cases h10 : n < 10
  · simp only [h10, if_true]
    constructor
    · simp; omega
    · split <;> omega
  · simp only [h10, if_false]
    constructor
    · simp; omega
    · split
      · omega
      · split <;> omega

/-- reading what `writeChar` wrote for one character consumes exactly that and yields the character -/
theorem read_writeChar (c : Nat) (hc : c < 512) (fuel : Nat) (tail acc : Str) (w : Nat) :
    readBody (fuel + 1) (writeChar c ++ tail) acc w = readBody fuel tail (acc ++ [c]) w := by
  unfold writeChar
  by_cases h10 : c = 10
  · subst h10; simp [readBody, isDigit]
  by_cases h9 : c = 9
  · subst h9; simp [readBody, isDigit]
  by_cases h92 : c = 92
  · subst h92; simp [readBody, isDigit]
  by_cases h34 : c = 34
  · subst h34; simp [readBody, isDigit]
  simp only [h10, h9, h92, h34, if_false]
  by_cases hp : 32 ≤ c ∧ c < 127
  · simp only [hp, and_self, if_true, List.cons_append, List.nil_append]
    simp [readBody, h34, h92]
  · simp only [hp, if_false]
    by_cases h256 : c < 256
    · simp only [h256, if_true, List.cons_append, List.nil_append]
      obtain ⟨hx1, hv1⟩ := hexDigit_isHex (c / 16) (by omega)
      obtain ⟨hx2, hv2⟩ := hexDigit_isHex (c % 16) (by omega)
      simp only [readBody, show (92 : Nat) ≠ 34 by decide, if_false, if_true, hx1, hx2, Bool.and_self]
      rw [hv1, hv2]
      have : c / 16 * 16 + c % 16 = c := by omega
      rw [this]
    · simp only [h256, if_false]
      unfold octDigits
      simp only [hc, if_true, List.cons_append, List.nil_append]
      have d1 : isDigit (48 + c / 64) = true ∧ isOct (48 + c / 64) = true := by unfold isDigit isOct; simp; omega
      have d2 : isDigit (48 + c / 8 % 8) = true ∧ isOct (48 + c / 8 % 8) = true := by unfold isDigit isOct; simp; omega
      have d3 : isDigit (48 + c % 8) = true ∧ isOct (48 + c % 8) = true := by unfold isDigit isOct; simp; omega
      have hne : (48 + c / 64 = 120) = False := by simp; omega
      simp only [readBody, show (92 : Nat) ≠ 34 by decide, if_false, if_true, hne, d1.1, d1.2, d2.1, d2.2, d3.1, d3.2,
        Bool.and_self]
      have : (48 + c / 64 - 48) * 64 + (48 + c / 8 % 8 - 48) * 8 + (48 + c % 8 - 48) = c := by omega
      rw [this]

theorem writeBody_length_pos (c : Nat) : 0 < (writeChar c).length := by
  unfold writeChar octDigits
  repeat' split
  all_goals simp

/-- **C10 (strings).** Reading back what the listing writer wrote: for every string of characters below 512, every
    following text and enough fuel (the reader supplies `length + 1`), the lexer's reader returns exactly the string,
    stops right after the closing quote, and raises no warning. -/
theorem readBody_writeBody (s : Str) (hs : ∀ c ∈ s, c < 512) (rest acc : Str) (w fuel : Nat)
    (hf : s.length + 1 ≤ fuel) :
    readBody fuel (writeBody s ++ 34 :: rest) acc w = some ⟨acc ++ s, rest, w⟩ := by
  induction s generalizing acc fuel with
  | nil =>
    obtain ⟨f, rfl⟩ : ∃ f, fuel = f + 1 := ⟨fuel - 1, by simp at hf; omega⟩
    simp [writeBody, readBody]
  | cons c cs ih =>
    obtain ⟨f, rfl⟩ : ∃ f, fuel = f + 1 := ⟨fuel - 1, by simp at hf; omega⟩
    have : writeBody (c :: cs) ++ 34 :: rest = writeChar c ++ (writeBody cs ++ 34 :: rest) := by
      simp [writeBody, List.flatMap_cons]
    rw [this, read_writeChar c (hs c (List.mem_cons_self)) f _ acc w]
    rw [ih (fun c' hc' => hs c' (List.mem_cons_of_mem _ hc')) (acc ++ [c]) f (by simp at hf ⊢; omega)]
    simp

theorem writeBody_length (s : Str) : s.length ≤ (writeBody s).length := by
  induction s with
  | nil => simp [writeBody]
  | cons c cs ih =>
    have := writeBody_length_pos c
    simp only [writeBody, List.flatMap_cons, List.length_append, List.length_cons] at ih ⊢
    omega

theorem C10_string_roundtrip (s : Str) (hs : ∀ c ∈ s, c < 512) (rest : Str) :
    StrLit.read (StrLit.write s ++ rest) = some ⟨s, rest, 0⟩ := by
  unfold StrLit.read StrLit.write
  simp only [List.cons_append, List.nil_append, List.append_assoc]
  have := readBody_writeBody s hs rest [] 0 ((writeBody s ++ 34 :: rest).length + 1)
    (by have := writeBody_length s; simp only [List.length_append, List.length_cons]; omega)
  simpa using this

theorem acc_ok {acc : Str} {v : Nat} (ha : ∀ c ∈ acc, c < 512) (hv : v < 512) : ∀ c ∈ acc ++ [v], c < 512 := by
  intro c hc
  rcases List.mem_append.mp hc with h | h
  · exact ha c h
  · simp at h; omega

theorem acc_ok2 {acc : Str} {v1 v2 : Nat} (ha : ∀ c ∈ acc, c < 512) (h1 : v1 < 512) (h2 : v2 < 512) :
    ∀ c ∈ acc ++ [v1, v2], c < 512 := by
  intro c hc
  rcases List.mem_append.mp hc with h | h
  · exact ha c h
  · simp at h; omega

theorem hexVal_lt (c : Nat) (h : isHex c = true) : hexVal c < 16 := by
  unfold isHex isDigit at h
  unfold hexVal
  simp at h
  split
  · omega
  · split <;> omega

theorem isOct_lt (c : Nat) (h : isOct c = true) : c - 48 < 8 := by
  unfold isOct at h; simp at h; omega

/-- **C10 (strings stay in range).** Whatever ASCII text the lexer reads a string literal from, every character of the
    value is below 512 - so every string that reaches a listing satisfies the hypothesis of the round trip. -/
theorem C10_read_range (fuel : Nat) : ∀ (text acc : Str) (w : Nat) (r : Read), (∀ c ∈ text, c < 128) → (∀ c ∈ acc, c < 512) →
    readBody fuel text acc w = some r → ∀ c ∈ r.value, c < 512 := by
  induction fuel with
  | zero => intro text acc w r _ _ h; simp [readBody] at h
  | succ n ih =>
    intro text acc w r ht ha h
    cases text with
    | nil => simp [readBody] at h
    | cons c rest =>
      have hc : c < 128 := ht c (List.mem_cons_self)
      have hr : ∀ x ∈ rest, x < 128 := fun x hx => ht x (List.mem_cons_of_mem _ hx)
      simp only [readBody] at h
      split at h
      · cases h; exact ha
      · split at h
        · -- backslash
          cases rest with
          | nil => simp at h
          | cons p rest1 =>
            have hp : p < 128 := hr p (List.mem_cons_self)
            have hr1 : ∀ x ∈ rest1, x < 128 := fun x hx => hr x (List.mem_cons_of_mem _ hx)
            simp only at h
            split at h
            · -- \x
              split at h
              · rename_i h1 h2 rest3
                have hr3 : ∀ x ∈ rest3, x < 128 := fun x hx => hr1 x (List.mem_cons_of_mem _ (List.mem_cons_of_mem _ hx))
                split at h
                · rename_i hh
                  simp only [Bool.and_eq_true] at hh
                  have := hexVal_lt h1 hh.1
                  have := hexVal_lt h2 hh.2
                  exact ih _ _ _ _ hr3 (acc_ok ha (by omega)) h
                · exact ih _ _ _ _ hr1 (acc_ok ha (by omega)) h
              · exact ih _ _ _ _ hr1 (acc_ok ha (by omega)) h
            · split at h
              · -- octal
                split at h
                · rename_i d2 rest2
                  have hr2 : ∀ x ∈ rest2, x < 128 := fun x hx => hr1 x (List.mem_cons_of_mem _ hx)
                  split at h
                  · split at h
                    · rename_i d3 rest3
                      have hr3 : ∀ x ∈ rest3, x < 128 := fun x hx => hr2 x (List.mem_cons_of_mem _ hx)
                      split at h
                      · split at h
                        · rename_i ho
                          simp only [Bool.and_eq_true] at ho
                          have := isOct_lt p ho.1.1
                          have := isOct_lt d2 ho.1.2
                          have := isOct_lt d3 ho.2
                          exact ih _ _ _ _ hr3 (acc_ok ha (by omega)) h
                        · exact ih _ _ _ _ hr1 (acc_ok ha (by omega)) h
                      · split at h
                        · rename_i ho
                          simp only [Bool.and_eq_true] at ho
                          have := isOct_lt p ho.1
                          have := isOct_lt d2 ho.2
                          exact ih _ _ _ _ hr2 (acc_ok ha (by omega)) h
                        · exact ih _ _ _ _ hr1 (acc_ok ha (by omega)) h
                    · split at h
                      · rename_i ho
                        simp only [Bool.and_eq_true] at ho
                        have := isOct_lt p ho.1
                        have := isOct_lt d2 ho.2
                        exact ih _ _ _ _ hr2 (acc_ok ha (by omega)) h
                      · exact ih _ _ _ _ hr1 (acc_ok ha (by omega)) h
                  · split at h
                    · rename_i ho
                      have := isOct_lt p ho
                      exact ih _ _ _ _ hr1 (acc_ok ha (by omega)) h
                    · exact ih _ _ _ _ hr1 (acc_ok ha (by omega)) h
                · split at h
                  · rename_i ho
                    have := isOct_lt p ho
                    exact ih _ _ _ _ hr1 (acc_ok ha (by omega)) h
                  · exact ih _ _ _ _ hr1 (acc_ok ha (by omega)) h
              · split at h
                · exact ih _ _ _ _ hr1 (acc_ok ha (by omega)) h
                · split at h
                  · exact ih _ _ _ _ hr1 (acc_ok ha (by omega)) h
                  · split at h
                    · exact ih _ _ _ _ hr1 (acc_ok ha (by omega)) h
                    · split at h
                      · exact ih _ _ _ _ hr1 (acc_ok ha (by omega)) h
                      · exact ih _ _ _ _ hr1 (acc_ok2 ha (by omega) (by omega)) h
        · exact ih _ _ _ _ hr (acc_ok ha (by omega)) h

/-- non-vacuity: a string with a control character, a quote, a backslash, a high character and digits after an escape -/
example : StrLit.read (StrLit.write [1, 34, 92, 300, 55, 10] ++ [41]) = some ⟨[1, 34, 92, 300, 55, 10], [41], 0⟩ :=
  C10_string_roundtrip _ (by decide) _

end Hera
