import HeraModel.Spec.Encoding
/-
  C05, continued — the HERA encoding table as written in `Spec/Encoding.lean` is consistent with itself: decoding the
  word of every valid instruction gives that instruction back (8-bit operands in canonical unsigned form), hence two
  different (canonical) instructions never share a word, and every table word is below 2^16. Families with wide
  operand ranges are proved symbolically (field arithmetic by `omega`); the families of the densely packed opcode
  groups 2 and 3 are finite tables decided by the kernel over their whole range and lifted.
-/
namespace Hera
namespace Spec

/-- decoding the word of `e` gives `e` back (canonical operand form) -/
def RT (e : EInstr) : Prop := decode (encode e) = some e.canon
instance (e : EInstr) : Decidable (RT e) := by unfold RT; exact inferInstance

theorem byteOf_lt (v : Int) : byteOf v < 256 := by
  unfold byteOf
  omega

theorem rt_setlo (d : Nat) (v : Int) (hd : d < 16) : RT (.instr (.setlo d v)) := by
  unfold RT
  have hb := byteOf_lt v
  simp only [encode, EInstr.canon, canonInstr]
  generalize byteOf v = x at hb ⊢
  unfold decode
  have h0 : ¬ (0xE000 + d * 256 + x ≥ 65536) := by omega
  have h1 : (0xE000 + d * 256 + x) / 4096 = 14 := by omega
  have h2 : (0xE000 + d * 256 + x) / 256 % 16 = d := by omega
  have h3 : (0xE000 + d * 256 + x) % 256 = x := by omega
  simp only [h0, h1, h2, h3, ↓reduceIte]

theorem rt_sethi (d : Nat) (v : Int) (hd : d < 16) : RT (.instr (.sethi d v)) := by
  unfold RT
  have hb := byteOf_lt v
  simp only [encode, EInstr.canon, canonInstr]
  generalize byteOf v = x at hb ⊢
  unfold decode
  have h0 : ¬ (0xF000 + d * 256 + x ≥ 65536) := by omega
  have h1 : (0xF000 + d * 256 + x) / 4096 = 15 := by omega
  have h2 : (0xF000 + d * 256 + x) / 256 % 16 = d := by omega
  have h3 : (0xF000 + d * 256 + x) % 256 = x := by omega
  simp [h0, h1, h2, h3]

theorem rt_alu3 (op : Alu3) (d a b : Nat) (hd : d < 16) (ha : a < 16) (hb : b < 16) : RT (.instr (.alu3 op d a b)) := by
  unfold RT
  simp only [encode, EInstr.canon, canonInstr]
  have hc : 8 ≤ op.code ∧ op.code ≤ 13 := by cases op <;> simp [Alu3.code]
  unfold decode
  have h0 : ¬ (op.code * 4096 + d * 256 + a * 16 + b ≥ 65536) := by omega
  have h1 : (op.code * 4096 + d * 256 + a * 16 + b) / 4096 = op.code := by omega
  have h2 : (op.code * 4096 + d * 256 + a * 16 + b) / 256 % 16 = d := by omega
  have h3 : (op.code * 4096 + d * 256 + a * 16 + b) / 16 % 16 = a := by omega
  have h4 : (op.code * 4096 + d * 256 + a * 16 + b) % 16 = b := by omega
  simp only [h0, h1, h2, h3, h4, ↓reduceIte]
  cases op <;> simp [Alu3.code]

theorem rt_load (d : Nat) (o : Int) (b : Nat) (hd : d < 16) (ho : 0 ≤ o ∧ o < 32) (hb : b < 16) :
    RT (.instr (.load d o b)) := by
  obtain ⟨n, rfl⟩ : ∃ n : Nat, o = n := ⟨o.toNat, by omega⟩
  have hn : n < 32 := by omega
  unfold RT
  simp only [encode, EInstr.canon, canonInstr, Int.toNat_natCast]
  unfold decode
  have h0 : ¬ (0x4000 + n / 16 * 4096 + d * 256 + n % 16 * 16 + b ≥ 65536) := by omega
  have h1 : (0x4000 + n / 16 * 4096 + d * 256 + n % 16 * 16 + b) / 4096 = 4 + n / 16 := by omega
  have h2 : (0x4000 + n / 16 * 4096 + d * 256 + n % 16 * 16 + b) / 256 % 16 = d := by omega
  have h3 : (0x4000 + n / 16 * 4096 + d * 256 + n % 16 * 16 + b) / 16 % 16 = n % 16 := by omega
  have h4 : (0x4000 + n / 16 * 4096 + d * 256 + n % 16 * 16 + b) % 16 = b := by omega
  simp only [h0, h1, h2, h3, h4, ↓reduceIte]
  have hq : n / 16 = 0 ∨ n / 16 = 1 := by omega
  rcases hq with hq | hq <;> simp [hq] <;> omega

theorem rt_store (d : Nat) (o : Int) (b : Nat) (hd : d < 16) (ho : 0 ≤ o ∧ o < 32) (hb : b < 16) :
    RT (.instr (.store d o b)) := by
  obtain ⟨n, rfl⟩ : ∃ n : Nat, o = n := ⟨o.toNat, by omega⟩
  have hn : n < 32 := by omega
  unfold RT
  simp only [encode, EInstr.canon, canonInstr, Int.toNat_natCast]
  unfold decode
  have h0 : ¬ (0x6000 + n / 16 * 4096 + d * 256 + n % 16 * 16 + b ≥ 65536) := by omega
  have h1 : (0x6000 + n / 16 * 4096 + d * 256 + n % 16 * 16 + b) / 4096 = 6 + n / 16 := by omega
  have h2 : (0x6000 + n / 16 * 4096 + d * 256 + n % 16 * 16 + b) / 256 % 16 = d := by omega
  have h3 : (0x6000 + n / 16 * 4096 + d * 256 + n % 16 * 16 + b) / 16 % 16 = n % 16 := by omega
  have h4 : (0x6000 + n / 16 * 4096 + d * 256 + n % 16 * 16 + b) % 16 = b := by omega
  simp only [h0, h1, h2, h3, h4, ↓reduceIte]
  have hq : n / 16 = 0 ∨ n / 16 = 1 := by omega
  rcases hq with hq | hq <;> simp [hq] <;> omega

theorem condOfCode_code (c : Cond) : condOfCode c.code = some c := by cases c <;> rfl
theorem cond_code_lt (c : Cond) : c.code < 16 := by cases c <;> simp [Cond.code]

theorem rt_brr (c : Cond) (o : Int) : RT (.instr (.brr c o)) := by
  unfold RT
  have hb := byteOf_lt o
  have hc := cond_code_lt c
  simp only [encode, EInstr.canon, canonInstr]
  generalize byteOf o = x at hb ⊢
  unfold decode
  have h0 : ¬ (c.code * 256 + x ≥ 65536) := by omega
  have h1 : (c.code * 256 + x) / 4096 = 0 := by omega
  have h2 : (c.code * 256 + x) / 256 % 16 = c.code := by omega
  have h3 : (c.code * 256 + x) % 256 = x := by omega
  simp [h0, h1, h2, h3, condOfCode_code]

theorem rt_br (c : Cond) (b : Nat) (hb : b < 16) : RT (.instr (.br c b)) := by
  unfold RT
  have hc := cond_code_lt c
  simp only [encode, EInstr.canon, canonInstr]
  unfold decode
  have h0 : ¬ (0x1000 + c.code * 256 + b ≥ 65536) := by omega
  have h1 : (0x1000 + c.code * 256 + b) / 4096 = 1 := by omega
  have h2 : (0x1000 + c.code * 256 + b) / 256 % 16 = c.code := by omega
  have h3 : (0x1000 + c.code * 256 + b) / 16 % 16 = 0 := by omega
  have h4 : (0x1000 + c.code * 256 + b) % 16 = b := by omega
  simp [h0, h1, h2, h3, h4, condOfCode_code]

/-! ### opcode groups 2 and 3: finite tables -/

def shs : List Sh := [.lsl, .lsr, .lsl8, .lsr8, .asl, .asr]
theorem shs_all (c : Sh) : c ∈ shs := by cases c <;> simp [shs]

theorem tab_inc : ∀ d : Nat, d < 16 → ∀ k : Nat, k < 64 → RT (.instr (.inc d ((k : Int) + 1))) := by decide +kernel
theorem tab_dec : ∀ d : Nat, d < 16 → ∀ k : Nat, k < 64 → RT (.instr (.dec d ((k : Int) + 1))) := by decide +kernel
theorem tab_shift : ∀ op ∈ shs, ∀ d : Nat, d < 16 → ∀ b : Nat, b < 16 → RT (.instr (.shift op d b)) := by decide +kernel
theorem tab_savef : ∀ d : Nat, d < 16 → RT (.instr (.savef d)) := by decide +kernel
theorem tab_rstrf : ∀ d : Nat, d < 16 → RT (.instr (.rstrf d)) := by decide +kernel
theorem tab_fon : ∀ v : Nat, v < 32 → RT (.instr (.fon (v : Int))) := by decide +kernel
theorem tab_foff : ∀ v : Nat, v < 32 → RT (.instr (.foff (v : Int))) := by decide +kernel
theorem tab_fset5 : ∀ v : Nat, v < 32 → RT (.instr (.fset5 (v : Int))) := by decide +kernel
theorem tab_fset4 : ∀ v : Nat, v < 16 → RT (.instr (.fset4 (v : Int))) := by decide +kernel
theorem tab_call : ∀ a : Nat, a < 16 → ∀ b : Nat, b < 16 → RT (.instr (.call a b)) := by decide +kernel
theorem tab_ret : ∀ a : Nat, a < 16 → ∀ b : Nat, b < 16 → RT (.instr (.ret a b)) := by decide +kernel
theorem tab_swi : ∀ n : Nat, n < 16 → RT (.swi (n : Int)) := by decide +kernel
theorem tab_rti : RT .rti := by decide +kernel

/-- **C05 (the table is invertible).** For every valid instruction, decoding its table word gives the instruction back
    (8-bit operands as the unsigned byte). -/
theorem C05_decode_encode (e : EInstr) (hv : e.Valid) : decode (encode e) = some e.canon := by
  show RT e
  cases e with
  | rti => exact tab_rti
  | swi n =>
    obtain ⟨k, rfl⟩ : ∃ k : Nat, n = k := ⟨n.toNat, by have := hv.1; omega⟩
    exact tab_swi k (by have := hv.2; omega)
  | instr i =>
    cases i with
    | setlo d v => exact rt_setlo d v hv.1
    | sethi d v => exact rt_sethi d v hv.1
    | alu3 op d a b => exact rt_alu3 op d a b hv.1 hv.2.1 hv.2.2
    | inc d k =>
      obtain ⟨j, rfl⟩ : ∃ j : Nat, k = (j : Int) + 1 := ⟨(k - 1).toNat, by have := hv.2.1; omega⟩
      exact tab_inc d hv.1 j (by have := hv.2.2; omega)
    | dec d k =>
      obtain ⟨j, rfl⟩ : ∃ j : Nat, k = (j : Int) + 1 := ⟨(k - 1).toNat, by have := hv.2.1; omega⟩
      exact tab_dec d hv.1 j (by have := hv.2.2; omega)
    | shift op d b => exact tab_shift op (shs_all op) d hv.1 b hv.2
    | savef d => exact tab_savef d hv
    | rstrf d => exact tab_rstrf d hv
    | fon v =>
      obtain ⟨k, rfl⟩ : ∃ k : Nat, v = k := ⟨v.toNat, by have := hv.1; omega⟩
      exact tab_fon k (by have := hv.2; omega)
    | foff v =>
      obtain ⟨k, rfl⟩ : ∃ k : Nat, v = k := ⟨v.toNat, by have := hv.1; omega⟩
      exact tab_foff k (by have := hv.2; omega)
    | fset5 v =>
      obtain ⟨k, rfl⟩ : ∃ k : Nat, v = k := ⟨v.toNat, by have := hv.1; omega⟩
      exact tab_fset5 k (by have := hv.2; omega)
    | fset4 v =>
      obtain ⟨k, rfl⟩ : ∃ k : Nat, v = k := ⟨v.toNat, by have := hv.1; omega⟩
      exact tab_fset4 k (by have := hv.2; omega)
    | load d o b => exact rt_load d o b hv.1 ⟨hv.2.1, hv.2.2.1⟩ hv.2.2.2
    | store d o b => exact rt_store d o b hv.1 ⟨hv.2.1, hv.2.2.1⟩ hv.2.2.2
    | br c b => exact rt_br c b hv
    | brr c o => exact rt_brr c o
    | call a b => exact tab_call a hv.1 b hv.2
    | ret a b => exact tab_ret a hv.1 b hv.2

/-- **C05 (no two instructions share a word).** Valid instructions with the same table word are the same instruction
    (up to the two spellings of an 8-bit operand: -1 and 255 denote the same byte). -/
theorem C05_encode_injective (e1 e2 : EInstr) (h1 : e1.Valid) (h2 : e2.Valid) (h : encode e1 = encode e2) :
    e1.canon = e2.canon := by
  have a := C05_decode_encode e1 h1
  have b := C05_decode_encode e2 h2
  rw [h, b] at a
  exact (Option.some.inj a).symm

/-- every table word is a 16-bit value -/
theorem C05_encode_lt (e : EInstr) (hv : e.Valid) : encode e < 65536 := by
  have a := C05_decode_encode e hv
  unfold decode at a
  by_cases h : encode e ≥ 65536
  · simp [h] at a
  · omega

example : (EInstr.instr (.setlo 3 (-1))).Valid ∧ (EInstr.instr (.load 2 31 15)).Valid := by decide

end Spec
end Hera
