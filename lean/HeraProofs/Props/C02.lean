import HeraProofs.Props.C01
import HeraModel.Model.Cli
/-
  C02 — the machine always stays a well-formed 16-bit HERA machine; no instruction is fetched
  from outside the program.

  `Gen.VM.reset`, `Gen.runGuard`, `Gen.runGuardThrottled`, `Gen.exec` are regenerated from the
  source on every run; `Run.*` is the hand model of `VirtualMachine.run` (corresponded by the
  `prog` stream).
-/
namespace Hera
open Gen

/-! ### what a checked program contains -/

/-- An operation the preprocessor may leave in `program.code`: a valid machine instruction or a
    debugging operation with well-typed operands. (`__eval` is outside the theorem: see DESIGN.md.) -/
def OpOK (op : Op) : Prop :=
  (∃ i : Spec.Instr, i.Valid ∧ i.toOp = (op.cls, op.args)) ∨
  (∃ s, (op.cls = .PRINT ∨ op.cls = .PRINTLN) ∧ op.args = [.str s]) ∨
  (∃ r : Nat, r < 16 ∧ op.cls = .PRINT_REG ∧ op.args = [.int r])

/-- A data statement with operands in range, given the data counter. -/
def DataOpOK (op : Op) : Prop :=
  (∃ v : Int, op.cls = .INTEGER ∧ op.args = [.int v] ∧ -32768 ≤ v ∧ v < 65536) ∨
  (∃ n : Int, op.cls = .DSKIP ∧ op.args = [.int n] ∧ 0 ≤ n) ∨
  (∃ s : Str, op.cls = .LP_STRING ∧ op.args = [.str s] ∧ s.length < 65536 ∧ ∀ c ∈ s, c < 65536)

structure Checked (p : Program) : Prop where
  code : ∀ op ∈ p.code, OpOK op
  len : p.code.length ≤ 65535

/-! ### fetch -/

/-- **C02 (fetch).** When the loop guard lets an iteration run, the program counter is inside the
    program and the instruction fetched is the one at that index: nothing wraps around. -/
theorem C02_fetch (p : Program) (vm : VM) (h : Gen.runGuard vm p.code.length = true) :
    0 ≤ vm.pc ∧ vm.pc < p.code.length ∧ vm.halted = false ∧
    ∃ op, Run.fetch p vm = .ok op ∧ p.code[vm.pc.toNat]? = some op := by
  simp only [runGuard, Bool.and_eq_true, Bool.not_eq_eq_eq_not, Bool.not_true, decide_eq_true_eq] at h
  obtain ⟨hh, h0, h1⟩ := h
  have hlt : vm.pc.toNat < p.code.length := by omega
  refine ⟨h0, h1, hh, p.code[vm.pc.toNat], ?_, ?_⟩
  · simp [Run.fetch, Py.listGet, h0, List.getElem?_eq_getElem hlt]
  · exact List.getElem?_eq_getElem hlt

theorem C02_fetch_throttled (p : Program) (vm : VM) (thr : Int)
    (h : Gen.runGuardThrottled vm p.code.length thr = true) : Gen.runGuard vm p.code.length = true := by
  simp only [runGuardThrottled, Bool.and_eq_true] at h
  simp only [runGuard, Bool.and_eq_true]
  exact h.1

/-- **C02 (the run ends).** When control has left the program at either end, or the machine has halted,
    the loop stops at once in the same state: no wrap-around, no silent loop, no internal error. -/
theorem C02_exit_ends (p : Program) (vm : VM) (fuel : Nat)
    (h : vm.halted = true ∨ vm.pc < 0 ∨ (p.code.length : Int) ≤ vm.pc) : Run.loop p fuel vm = .ok vm := by
  cases fuel with
  | zero => rfl
  | succ n =>
    have hg : Gen.runGuard vm p.code.length = false := by
      simp only [runGuard, Bool.and_eq_false_iff, Bool.not_eq_eq_eq_not, Bool.not_false, decide_eq_false_iff_not]
      rcases h with h | h | h
      · exact Or.inl h
      · exact Or.inr (Or.inl (by omega))
      · exact Or.inr (Or.inr (by omega))
    simp [Run.loop, hg]

/-! ### one iteration -/

theorem debug_step_WF (op : Op) (vm : VM) (hwf : WF vm)
    (h : (∃ s, (op.cls = .PRINT ∨ op.cls = .PRINTLN) ∧ op.args = [.str s]) ∨
         (∃ r : Nat, r < 16 ∧ op.cls = .PRINT_REG ∧ op.args = [.int r])) :
    ∃ vm', Gen.exec op.cls op.args vm = .ok ((), vm') ∧ WF vm' := by
  rcases h with ⟨s, hc, ha⟩ | ⟨r, hr, hc, ha⟩
  · rcases hc with hc | hc
    · rw [hc, ha]
      refine Exists.intro ?v1 (And.intro ?q1 ?r1)
      case q1 =>
        show PRINT.execute s vm = _
        simp only [PRINT.execute, M.bind_apply, M.get_apply, M.set_apply, M.pure_apply]
        rfl
      case r1 => exact hwf
    · rw [hc, ha]
      refine Exists.intro ?v2 (And.intro ?q2 ?r2)
      case q2 =>
        show PRINTLN.execute s vm = _
        simp only [PRINTLN.execute, M.bind_apply, M.get_apply, M.set_apply, M.pure_apply]
        rfl
      case r2 => exact hwf
  · rw [hc, ha]
    refine Exists.intro ?v3 (And.intro ?q3 ?r3)
    case q3 =>
      show PRINT_REG.execute (r : Int) vm = _
      simp only [PRINT_REG.execute, M.bind_apply, M.get_apply, load_register_eq vm _ hwf.len hr, M.set_apply,
        M.pure_apply]
      rfl
    case r3 => exact hwf

/-- **C02 (step).** One loop iteration of a checked program from a well-formed machine does not raise
    and leaves a well-formed machine. -/
theorem C02_iter_WF (p : Program) (hp : Checked p) (vm : VM) (hwf : WF vm)
    (hg : Gen.runGuard vm p.code.length = true) : ∃ vm', Run.iter p vm = .ok vm' ∧ WF vm' := by
  obtain ⟨h0, h1, _, op, hf, hop⟩ := C02_fetch p vm hg
  have hmem : op ∈ p.code := List.mem_of_getElem? hop
  have hwfl : WF { vm with location := op.loc } := hwf
  have hlen := hp.len
  rcases hp.code op hmem with ⟨i, hv, hi⟩ | hdbg
  · have hstep := C01_step i hv { vm with location := op.loc } hwfl (fun _ => ⟨h0, by show vm.pc < 65535; omega⟩)
    obtain ⟨vm', hex, hwf', _⟩ := hstep
    rw [hi] at hex
    exact ⟨vm', by simp [Run.iter, hf, hex], hwf'⟩
  · obtain ⟨vm', hex, hwf'⟩ := debug_step_WF op { vm with location := op.loc } hwfl hdbg
    exact ⟨vm', by simp [Run.iter, hf, hex], hwf'⟩

/-- **C02 (every point of every execution, interpreter).** From a well-formed machine the loop of a checked
    program never raises, and the machine is well-formed after any number of iterations. -/
theorem C02_loop_WF (p : Program) (hp : Checked p) (fuel : Nat) (vm : VM) (hwf : WF vm) :
    ∃ vm', Run.loop p fuel vm = .ok vm' ∧ WF vm' := by
  induction fuel generalizing vm with
  | zero => exact ⟨vm, rfl, hwf⟩
  | succ n ih =>
    by_cases hg : Gen.runGuard vm p.code.length = true
    · obtain ⟨vm1, h1, hwf1⟩ := C02_iter_WF p hp vm hwf hg
      obtain ⟨vm2, h2, hwf2⟩ := ih vm1 hwf1
      exact ⟨vm2, by simp [Run.loop, hg, h1, h2], hwf2⟩
    · exact ⟨vm, by simp [Run.loop, hg], hwf⟩

theorem C02_loopThrottled_WF (p : Program) (hp : Checked p) (thr : Int) (fuel : Nat) (vm : VM) (hwf : WF vm) :
    ∃ vm', Run.loopThrottled p thr fuel vm = .ok vm' ∧ WF vm' := by
  induction fuel generalizing vm with
  | zero => exact ⟨vm, rfl, hwf⟩
  | succ n ih =>
    by_cases hg : Gen.runGuardThrottled vm p.code.length thr = true
    · obtain ⟨vm1, h1, hwf1⟩ := C02_iter_WF p hp vm hwf (C02_fetch_throttled p vm thr hg)
      have hwf1' : WF { vm1 with op_count := vm1.op_count + 1 } := hwf1
      obtain ⟨vm2, h2, hwf2⟩ := ih _ hwf1'
      exact ⟨vm2, by simp [Run.loopThrottled, hg, h1, h2], hwf2⟩
    · exact ⟨vm, by simp [Run.loopThrottled, hg], hwf⟩

/-- **C02 (SAVEF yields 0..31).** -/
theorem C02_savef (f : Spec.Flags) : f.toWord.toNat < 32 := by
  cases f with
  | mk s z v c cb => cases s <;> cases z <;> cases v <;> cases c <;> cases cb <;> decide



/-! ### reset, data statements, whole runs -/

theorem forM_inv {α} (I : List α → VM → Prop) (f : α → M Unit)
    (hstep : ∀ x xs vm, I (x :: xs) vm → ∃ vm', f x vm = .ok ((), vm') ∧ I xs vm') :
    ∀ l vm, I l vm → ∃ vm', M.forM l f vm = .ok ((), vm') ∧ I [] vm' := by
  intro l
  induction l with
  | nil => intro vm h; exact ⟨vm, rfl, h⟩
  | cons x xs ih =>
    intro vm h
    obtain ⟨vm1, h1, hI1⟩ := hstep x xs vm h
    obtain ⟨vm2, h2, hI2⟩ := ih vm1 hI1
    exact ⟨vm2, by simp [M.forM, h1, h2], hI2⟩

/-- `--init` pairs that keep the machine well-formed: a register other than R0 and a 16-bit value. -/
def InitOK (init : List (Int × Int)) : Prop := ∀ p ∈ init, 1 ≤ p.1 ∧ p.1 < 16 ∧ 0 ≤ p.2 ∧ p.2 < 65536

theorem WF_listSet {vm : VM} (h : WF vm) {i v : Int} (hi : 1 ≤ i ∧ i < 16) (hv : 0 ≤ v ∧ v < 65536) :
    ∃ rs, Py.listSet vm.registers i v = .ok rs ∧ WF { vm with registers := rs } := by
  have hl := h.len
  have hlt : i.toNat < vm.registers.length := by omega
  refine ⟨vm.registers.set i.toNat v, by simp [Py.listSet, show 0 ≤ i by omega, hlt], ?_⟩
  have : vm.registers.set i.toNat v = regSet vm.registers i.toNat v := by
    unfold regSet; rw [if_neg (by omega)]
  rw [this]
  exact WF_of_regwrite h hv rfl rfl

/-- the machine after the field assignments of `reset()`, before the `--init` loop -/
def resetState (vm : VM) : VM :=
  { settings := vm.settings, registers := Py.listRepeat (0 : Int) 16, dc := vm.settings.data_start,
    memory := Py.listRepeat (0 : Int) 16, out := vm.out }

/-- **C02 (start-up).** `reset()` with well-formed `--init` pairs gives a well-formed machine at pc 0
    whose data counter is the data-segment start. -/
theorem C02_reset_WF (vm : VM) (hi : InitOK vm.settings.init) :
    ∃ vm0, Gen.VM.reset vm = .ok ((), vm0) ∧ WF vm0 ∧ vm0.pc = 0 ∧ vm0.halted = false ∧
      vm0.dc = vm.settings.data_start ∧ vm0.settings = vm.settings := by
  unfold VM.reset
  simp only [M.bind_apply, M.get_apply, M.set_apply]
  have hwf0 : WF (resetState vm) := by
    unfold WF resetState
    simp only []
    decide
  have hI := forM_inv (fun (l : List (Int × Int)) (s : VM) => InitOK l ∧ WF s ∧ s.pc = 0 ∧ s.halted = false ∧
      s.dc = vm.settings.data_start ∧ s.settings = vm.settings)
    (fun v_dest_val => do
      let vm ← M.get
      let t_1 ← M.lift (Py.listSet vm.registers v_dest_val.1 v_dest_val.2)
      M.set ({ vm with registers := t_1 })
      let vm ← M.get
      pure ())
    (by
      intro x xs s ⟨hok, hwf, h1, h2, h3, h4⟩
      have hx := hok x (List.mem_cons_self ..)
      obtain ⟨rs, hrs, hwf'⟩ := WF_listSet hwf ⟨hx.1, hx.2.1⟩ hx.2.2
      refine ⟨{ s with registers := rs }, ?_, ?_, hwf', h1, h2, h3, h4⟩
      · simp only [M.bind_apply, M.get_apply, hrs, M.lift_ok, M.set_apply, M.pure_apply]
      · intro p hp; exact hok p (List.mem_cons_of_mem _ hp))
    vm.settings.init (resetState vm) ⟨hi, hwf0, rfl, rfl, rfl, rfl⟩
  obtain ⟨vm', hrun, _, hwf', e1, e2, e3, e4⟩ := hI
  refine ⟨vm', ?_, hwf', e1, e2, e3, e4⟩
  unfold resetState at hrun
  simp only [hrun]
  rfl




theorem WF_memSet {vm : VM} (h : WF vm) {a : Nat} (ha : a < 65536) {v : Int} (hv : 0 ≤ v ∧ v < 65536) :
    WF { vm with memory := memSet vm.memory a v } := by
  obtain ⟨a1, a2, a3, a4, a5⟩ := h
  refine ⟨a1, a2, a3, ?_, ?_⟩
  · show (memSet _ _ _).length ≤ 65536
    rw [memSet_length]; omega
  · intro c hc
    rcases memSet_mem hc with h | h | h
    · exact a5 c h
    · subst h; exact hv
    · subst h; omega

theorem to_u16_range {v : Int} (h : -32768 ≤ v ∧ v < 65536) : ∃ u, to_u16 v = .ok u ∧ 0 ≤ u ∧ u < 65536 := by
  unfold to_u16
  have h1 : ¬ (v ≥ 65536) := by omega
  have h2 : ¬ (v < -32768) := by omega
  by_cases h3 : v < 0
  · exact ⟨65536 + v, by simp [h1, h2, h3]; (first | rfl | exact congrArg Except.ok (by omega)), by omega, by omega⟩
  · exact ⟨v, by simp [h1, h2, h3]; (first | rfl | exact congrArg Except.ok (by omega)), by omega, by omega⟩

/-- cells occupied by a data statement -/
def dataCells (op : Op) : Int :=
  match op.cls, op.args with
  | .INTEGER, _ => 1
  | .DSKIP, [.int n] => n
  | .LP_STRING, [.str s] => s.length + 1
  | _, _ => 0

/-- the part of the state that data statements must not disturb -/
def DataFrame (vm vm' : VM) : Prop :=
  vm'.pc = vm.pc ∧ vm'.halted = vm.halted ∧ vm'.settings = vm.settings

theorem data_step_WF (op : Op) (h : DataOpOK op) (vm : VM) (hwf : WF vm)
    (hdc : 0 ≤ vm.dc ∧ vm.dc + dataCells op ≤ 65536) :
    ∃ vm', Gen.exec op.cls op.args vm = .ok ((), vm') ∧ WF vm' ∧ vm'.dc = vm.dc + dataCells op ∧ DataFrame vm vm' := by
  rcases h with ⟨v, hc, ha, hv⟩ | ⟨n, hc, ha, hn⟩ | ⟨s, hc, ha, hlen, hch⟩
  · obtain ⟨u, hu, hur⟩ := to_u16_range hv
    have hcells : dataCells op = 1 := by simp [dataCells, hc]
    rw [hcells] at hdc ⊢
    rw [hc, ha]
    refine Exists.intro ?v1 (And.intro ?q1 ?r1)
    case q1 =>
      show INTEGER.execute v vm = _
      simp only [INTEGER.execute, M.bind_apply, M.get_apply, hu, M.lift_ok, store_memory_eq _ _ _ hdc.1, M.set_apply,
        M.pure_apply]
      rfl
    case r1 =>
      exact ⟨WF_memSet hwf (by omega) hur, rfl, rfl, rfl, rfl⟩
  · have hcells : dataCells op = n := by simp [dataCells, hc, ha]
    rw [hcells] at hdc ⊢
    rw [hc, ha]
    refine Exists.intro ?v2 (And.intro ?q2 ?r2)
    case q2 =>
      show DSKIP.execute n vm = _
      simp only [DSKIP.execute, M.bind_apply, M.get_apply, M.set_apply, M.pure_apply]
      rfl
    case r2 => exact ⟨hwf, rfl, rfl, rfl, rfl⟩
  · have hcells : dataCells op = s.length + 1 := by simp [dataCells, hc, ha]
    rw [hcells] at hdc ⊢
    rw [hc, ha]
    show ∃ vm', LP_STRING.execute s vm = .ok ((), vm') ∧ _
    simp only [LP_STRING.execute, M.bind_apply, M.get_apply, store_memory_eq _ _ _ hdc.1, M.set_apply]
    have hI := forM_inv (fun (l : List Nat) (st : VM) => WF st ∧ 0 ≤ st.dc ∧ st.dc + l.length = vm.dc + (s.length + 1) ∧
        (∀ c ∈ l, c < 65536) ∧ DataFrame vm st)
      (fun v_c => do
        let vm ← M.get
        let t_2 ← VM.store_memory vm.dc ((v_c : Nat) : Int)
        let vm ← M.get
        M.set ({ vm with dc := (vm.dc + (1 : Int)) })
        let vm ← M.get
        pure ())
      (by
        intro x xs st ⟨hw, h0, hsum, hcs, hfr⟩
        have hx := hcs x (List.mem_cons_self ..)
        simp only [List.length_cons] at hsum
        refine ⟨{ st with memory := memSet st.memory st.dc.toNat (x : Int), dc := st.dc + 1 }, ?_, ?_, ?_, ?_, ?_, ?_⟩
        · simp only [M.bind_apply, M.get_apply, store_memory_eq _ _ _ h0, M.set_apply, M.pure_apply]
        · exact WF_memSet hw (by omega) ⟨by omega, by omega⟩
        · show 0 ≤ st.dc + 1; omega
        · show st.dc + 1 + (xs.length : Int) = _; push_cast at hsum; omega
        · intro c hc'; exact hcs c (List.mem_cons_of_mem _ hc')
        · exact hfr)
      s { vm with memory := memSet vm.memory vm.dc.toNat (Py.len s), dc := vm.dc + 1 }
      ⟨WF_memSet hwf (by omega) ⟨by unfold Py.len; omega, by unfold Py.len; omega⟩, by show 0 ≤ vm.dc + 1; omega,
        by show vm.dc + 1 + (s.length : Int) = _; omega, hch, rfl, rfl, rfl⟩
    obtain ⟨vm', hrun, hw', h0', hsum', _, hfr'⟩ := hI
    refine ⟨vm', ?_, hw', ?_, hfr'⟩
    · simp only [hrun, M.pure_apply]
    · simp only [List.length_nil, Nat.cast_zero, Int.add_zero] at hsum'; exact hsum'




def totalCells : List Op → Int
  | [] => 0
  | op :: rest => dataCells op + totalCells rest

theorem dataCells_nonneg {op : Op} (h : DataOpOK op) : 0 ≤ dataCells op := by
  rcases h with ⟨v, hc, ha, _⟩ | ⟨n, hc, ha, hn⟩ | ⟨s, hc, ha, _, _⟩
  · simp [dataCells, hc]
  · simp [dataCells, hc, ha, hn]
  · simp [dataCells, hc, ha]; omega

theorem totalCells_nonneg {l : List Op} (h : ∀ op ∈ l, DataOpOK op) : 0 ≤ totalCells l := by
  induction l with
  | nil => simp [totalCells]
  | cons x xs ih =>
    have := dataCells_nonneg (h x (List.mem_cons_self ..))
    have := ih (fun op hop => h op (List.mem_cons_of_mem _ hop))
    simp only [totalCells]; omega

theorem execData_WF (data : List Op) (hd : ∀ op ∈ data, DataOpOK op) (vm : VM) (hwf : WF vm)
    (hdc : 0 ≤ vm.dc ∧ vm.dc + totalCells data ≤ 65536) :
    ∃ vm', Run.execData data vm = .ok vm' ∧ WF vm' ∧ DataFrame vm vm' := by
  induction data generalizing vm with
  | nil => exact ⟨vm, rfl, hwf, rfl, rfl, rfl⟩
  | cons x xs ih =>
    have hx := hd x (List.mem_cons_self ..)
    have hxs : ∀ op ∈ xs, DataOpOK op := fun op hop => hd op (List.mem_cons_of_mem _ hop)
    have hn := totalCells_nonneg hxs
    have hc := dataCells_nonneg hx
    simp only [totalCells] at hdc
    obtain ⟨vm1, h1, hwf1, hdc1, hf1⟩ := data_step_WF x hx vm hwf ⟨hdc.1, by omega⟩
    obtain ⟨vm2, h2, hwf2, hf2⟩ := ih hxs vm1 hwf1 ⟨by omega, by omega⟩
    refine ⟨vm2, by simp [Run.execData, h1, h2], hwf2, ?_⟩
    obtain ⟨a1, a2, a3⟩ := hf1
    obtain ⟨b1, b2, b3⟩ := hf2
    exact ⟨b1.trans a1, b2.trans a2, b3.trans a3⟩

/-- A program that the checker accepted, as far as C02 needs: code as in `Checked`, data statements in range
    and fitting below 2^16 from the data-segment start. -/
structure CheckedFor (p : Program) (st : Settings) : Prop extends Checked p where
  data : ∀ op ∈ p.data, DataOpOK op
  fits : 0 ≤ st.data_start ∧ st.data_start + totalCells p.data ≤ 65536
  init : InitOK st.init

/-- **C02 (every point of every execution, whatever the start-up options).** `vm.run(program)` on any
    machine object: reset, data statements and any number of loop iterations never raise, and the machine is
    well-formed at the point reached. -/
theorem C02_run_WF (p : Program) (vm : VM) (hp : CheckedFor p vm.settings) (fuel : Nat) :
    ∃ vm', Run.run p fuel vm = .ok vm' ∧ WF vm' := by
  obtain ⟨vm0, h0, hwf0, _, _, hdc0, hs0⟩ := C02_reset_WF vm hp.init
  obtain ⟨vm1, h1, hwf1, _, _, hs1⟩ := execData_WF p.data hp.data vm0 hwf0 (by rw [hdc0]; exact hp.fits)
  have hstart : Run.start p vm = .ok vm1 := by simp [Run.start, h0, h1]
  unfold Run.run
  rw [hstart]
  simp only []
  cases vm1.settings.throttle with
  | none => exact C02_loop_WF p hp.toChecked fuel vm1 hwf1
  | some thr => exact C02_loopThrottled_WF p hp.toChecked thr fuel vm1 hwf1

/-- Non-vacuity: a small program with data, a loop, a call and a debugging operation is `CheckedFor`. -/
example : CheckedFor
    { data := [⟨.INTEGER, [.int (-5)], 1⟩, ⟨.LP_STRING, [.str [104, 105]], 2⟩, ⟨.DSKIP, [.int 10], 3⟩],
      code := [⟨.SETLO, [.int 1, .int 3], 4⟩, ⟨.DEC, [.int 1, .int 1], 5⟩, ⟨.BNZR, [.int (-1)], 6⟩,
               ⟨.PRINT_REG, [.int 1], 7⟩, ⟨.CALL, [.int 12, .int 13], 8⟩, ⟨.BRR, [.int 0], 9⟩] }
    { init := [(1, 5), (15, 65535)] } := by
  refine ⟨⟨?_, by decide⟩, ?_, by decide, ?_⟩
  · intro op hop
    simp only [List.mem_cons, List.mem_nil_iff, or_false] at hop
    rcases hop with rfl | rfl | rfl | rfl | rfl | rfl
    · exact Or.inl ⟨.setlo 1 3, by decide, rfl⟩
    · exact Or.inl ⟨.dec 1 1, by decide, rfl⟩
    · exact Or.inl ⟨.brr .nz (-1), by decide, rfl⟩
    · exact Or.inr (Or.inr ⟨1, by decide, rfl, rfl⟩)
    · exact Or.inl ⟨.call 12 13, by decide, rfl⟩
    · exact Or.inl ⟨.brr .always 0, by decide, rfl⟩
  · intro op hop
    simp only [List.mem_cons, List.mem_nil_iff, or_false] at hop
    rcases hop with rfl | rfl | rfl
    · exact Or.inl ⟨-5, rfl, rfl, by decide, by decide⟩
    · exact Or.inr (Or.inr ⟨[104, 105], rfl, rfl, by decide, by decide⟩)
    · exact Or.inr (Or.inl ⟨10, rfl, rfl, by decide⟩)
  · intro p hp
    simp only [List.mem_cons, List.mem_nil_iff, or_false] at hp
    rcases hp with rfl | rfl <;> decide




theorem to_u16_ok_range {v u : Int} (h : to_u16 v = .ok u) : 0 ≤ u ∧ u < 65536 := by
  by_cases hr : -32768 ≤ v ∧ v < 65536
  · obtain ⟨u', hu', h0, h1⟩ := to_u16_range hr
    rw [hu'] at h
    injection h with h
    subst h
    exact ⟨h0, h1⟩
  · exfalso
    unfold to_u16 at h
    have : (decide (v ≥ 65536) || decide (v < -32768)) = true := by
      simp only [Bool.or_eq_true, decide_eq_true_eq]; omega
    rw [if_pos this] at h
    cases h

theorem mapM_some_mem {α β} (f : α → Option β) : ∀ (l : List α) (l' : List β), l.mapM f = some l' →
    ∀ p ∈ l', ∃ a ∈ l, f a = some p := by
  intro l
  induction l with
  | nil =>
    intro l' h p hp
    simp only [List.mapM_nil, Option.pure_def, Option.some.injEq] at h
    subst h; cases hp
  | cons x xs ih =>
    intro l' h p hp
    simp only [List.mapM_cons, Option.pure_def, Option.bind_eq_bind] at h
    cases hx : f x with
    | none => simp [hx] at h
    | some b =>
      cases hxs : xs.mapM f with
      | none => simp [hx, hxs] at h
      | some bs =>
        simp only [hx, hxs, Option.bind_some, Option.some.injEq] at h
        subst h
        rcases List.mem_cons.mp hp with rfl | hp'
        · exact ⟨x, List.mem_cons_self .., hx⟩
        · obtain ⟨a, ha, hfa⟩ := ih bs hxs p hp'
          exact ⟨a, List.mem_cons_of_mem _ ha, hfa⟩

theorem registerToIndex_range {s : Str} {d : Int} (h : Cli.registerToIndex s = some d) : 0 ≤ d ∧ d < 16 := by
  unfold Cli.registerToIndex at h
  simp only at h
  split at h
  · rename_i p hp
    have hm := List.mem_of_find?_eq_some hp
    simp only [Option.some.injEq] at h
    subst h
    simp only [Cli.namedRegisters, List.mem_cons, List.mem_nil_iff, or_false] at hm
    rcases hm with rfl | rfl | rfl | rfl | rfl <;> decide
  · split at h
    · split at h
      · split at h
        · simp only [Option.some.injEq] at h; subst h; assumption
        · exact absurd h (by simp)
      · exact absurd h (by simp)
    · exact absurd h (by simp)

theorem parseInitOne_ok {a : Str} {p : Int × Int} (h : Cli.parseInitOne a = some p) :
    1 ≤ p.1 ∧ p.1 < 16 ∧ 0 ≤ p.2 ∧ p.2 < 65536 := by
  unfold Cli.parseInitOne at h
  split at h
  · exact absurd h (by simp)
  · split at h
    · exact absurd h (by simp)
    · rename_i dest hd
      have hr := registerToIndex_range hd
      split at h
      · exact absurd h (by simp)
      · rename_i hne
        split at h
        · exact absurd h (by simp)
        · rename_i v _
          split at h
          · rename_i u hu
            simp only [Option.some.injEq] at h
            subst h
            have hur : 0 ≤ u ∧ u < 65536 := to_u16_ok_range hu
            exact ⟨by omega, hr.2, hur.1, hur.2⟩
          · exact absurd h (by simp)

/-- **C02 (--init).** Every `--init` string that the command line accepts yields only pairs
    (register 1..15, value 0..65535), i.e. satisfies the premise of `C02_reset_WF`. -/
theorem C02_init (s : Str) (init : List (Int × Int)) (h : Cli.parseInit s = some init) : InitOK init := by
  unfold Cli.parseInit at h
  intro p hp
  obtain ⟨a, _, ha⟩ := mapM_some_mem _ _ _ h p hp
  exact parseInitOne_ok ha


end Hera
