import HeraProofs.Props.C05
import HeraProofs.Props.C05b
import HeraModel.Spec.Encoding
import HeraModel.Model.Abs
namespace Hera
open Enc Spec

/-- value substituted for a literal pattern -/
theorem subst_value (p : List Char) (args : List Int) (hlen : (strip p).length = 16) (h : arity (strip p) ≤ args.length) :
    Enc.substituteBitvector p args =
      .ok [((substVal (strip p).reverse (fun k => args.getD k 0) / 256 : Nat) : Int),
           ((substVal (strip p).reverse (fun k => args.getD k 0) % 256 : Nat) : Int)] := by
  unfold Enc.substituteBitvector
  simp only
  rw [if_neg (by omega)]
  have hl : (substGo (strip p).reverse (fun k => args.getD k 0)).length = 16 := by
    rw [substGo_length]; simpa using hlen
  obtain ⟨b1, b2⟩ := bytes_of_bits _ hl
  rw [b1, b2, valLsb_substGo]

/-- where each of the 16 bits of a pattern comes from -/
inductive Slot where
  | zero | one
  | bit (k j : Nat)      -- bit `j` of argument `k`
deriving DecidableEq, Repr

def layoutGo : List Char → (Nat → Nat) → List Slot
  | [], _ => []
  | c :: q, cnt =>
    if c = '0' then .zero :: layoutGo q cnt
    else if c = '1' then .one :: layoutGo q cnt
    else .bit (idx c) (cnt (idx c)) :: layoutGo q (upd cnt (idx c) (cnt (idx c) + 1))

def slotsVal : List Slot → (Nat → Int) → Int
  | [], _ => 0
  | .zero :: s, a => 2 * slotsVal s a
  | .one :: s, a => 1 + 2 * slotsVal s a
  | .bit k j :: s, a => a k / 2 ^ j % 2 + 2 * slotsVal s a

theorem substVal_layout : ∀ (q : List Char) (a a0 : Nat → Int) (cnt : Nat → Nat),
    (∀ k, a k = a0 k / 2 ^ cnt k) → ((substVal q a : Nat) : Int) = slotsVal (layoutGo q cnt) a0 := by
  intro q
  induction q with
  | nil => intros; rfl
  | cons c q ih =>
    intro a a0 cnt h
    rw [substVal, layoutGo]
    by_cases h0 : c = '0'
    · simp only [h0, ↓reduceIte, slotsVal]; rw [← ih a a0 cnt h]; push_cast; rfl
    · by_cases h1 : c = '1'
      · subst h1
        simp only [show ¬ ('1' : Char) = '0' by decide, ↓reduceIte, slotsVal]
        rw [← ih a a0 cnt h]; push_cast; rfl
      · simp only [h0, h1, ↓reduceIte, slotsVal]
        rw [← h (idx c)]
        rw [← ih (upd a (idx c) (a (idx c) / 2)) a0 (upd cnt (idx c) (cnt (idx c) + 1))]
        · push_cast
          rw [Int.toNat_of_nonneg (Int.emod_nonneg _ (by decide))]
        · intro k
          unfold upd
          by_cases hk : k = idx c
          · subst hk
            simp only [↓reduceIte]
            rw [h (idx c), Int.ediv_ediv_of_nonneg (by positivity), pow_succ]
          · simp only [hk, ↓reduceIte]
            exact h k

theorem substVal_eq (q : List Char) (a : Nat → Int) : ((substVal q a : Nat) : Int) = slotsVal (layoutGo q (fun _ => 0)) a :=
  substVal_layout q a a _ (by intro k; simp)

end Hera

namespace Hera
open Enc Spec
open Lean Elab Tactic Meta

/-- normal form of closed first-order data, computed by the kernel's `whnf` (constructor arguments recursively) -/
partial def kernelNF (e : Expr) : MetaM Expr := do
  let env ← getEnv
  match Kernel.whnf env {} e with
  | .error _ => throwError "kernel whnf failed"
  | .ok e' =>
    if e'.isRawNatLit || e'.isSort || e'.isForall then return e'
    let f := e'.getAppFn
    let args := e'.getAppArgs
    let args' ← args.mapM (fun a => do
      let t ← inferType a
      if t.isSort then pure a else kernelNF a)
    return mkAppN f args'

/-- replace every closed `layoutGo _ _` in the goal by its value (the kernel re-checks the change by definitional
    equality when the proof term is checked) -/
elab "reduce_layout" : tactic => do
  let g ← getMainGoal
  let t ← instantiateMVars (← g.getType)
  let t' ← Meta.transform t (pre := fun e => do
    if e.isAppOf ``Hera.layoutGo then
      let r ← kernelNF e
      return .done r
    else return .continue)
  let g' ← mkFreshExprSyntheticOpaqueMVar t' (← g.getTag)
  g.assign (← mkExpectedTypeHint g' t)
  replaceMainGoal [g'.mvarId!]

end Hera

namespace Hera
open Enc Spec

theorem getD0 (a : Int) (l : List Int) : (a :: l).getD 0 0 = a := rfl
theorem getD1 (a b : Int) (l : List Int) : (a :: b :: l).getD 1 0 = b := rfl
theorem getD2 (a b c : Int) (l : List Int) : (a :: b :: c :: l).getD 2 0 = c := rfl

/-- if the substituted bits of a class's pattern have the value `w`, `substitute_bitvector` returns `w`'s two bytes -/
theorem subst_of_val (c : Cls) (hb : c.BITV ≠ []) (args : List Int) (hlen : args.length = c.P.length) (w : Nat)
    (h : ((substVal (strip c.BITV).reverse (fun k => args.getD k 0) : Nat) : Int) = (w : Int)) :
    Enc.substituteBitvector c.BITV args = .ok [((w / 256 : Nat) : Int), ((w % 256 : Nat) : Int)] := by
  rw [subst_value c.BITV args (table_len c (mem_all c) hb) (by rw [table_arity c (mem_all c) hb, hlen])]
  have : substVal (strip c.BITV).reverse (fun k => args.getD k 0) = w := by exact_mod_cast h
  rw [this]

/-- same, through the regenerated `assemble` of a class that uses the generic `AbstractOperation.assemble` -/
theorem assemble_of_val (c : Cls) (hb : c.BITV ≠ []) (hn : c ≠ .INC ∧ c ≠ .DEC) (args : List Int)
    (hlen : args.length = c.P.length) (w : Nat)
    (h : ((substVal (strip c.BITV).reverse (fun k => args.getD k 0) : Nat) : Int) = (w : Int)) :
    Gen.assemble c (args.map Val.int) = .ok (some [((w / 256 : Nat) : Int), ((w % 256 : Nat) : Int)]) := by
  rw [assemble_pattern c hb hn args hlen, subst_of_val c hb args hlen w h]
  rfl

macro "enc_tac" : tactic => `(tactic| (
  rw [substVal_eq]; reduce_layout; simp only [slotsVal, getD0, getD1, getD2]; push_cast; omega))

/-- the word as two bytes -/
def bytesOf (w : Nat) : List Int := [((w / 256 : Nat) : Int), ((w % 256 : Nat) : Int)]

theorem enc_alu3 (op : Alu3) (d a b : Nat) (hd : d < 16) (ha : a < 16) (hb : b < 16) :
    Gen.assemble (Instr.alu3 op d a b).toOp.1 (Instr.alu3 op d a b).toOp.2
      = .ok (some (bytesOf (encode (.instr (.alu3 op d a b))))) := by
  cases op <;> simp only [Instr.toOp, encode, Alu3.code, bytesOf] <;>
    refine assemble_of_val _ (by decide) (by decide) [(d : Int), (a : Int), (b : Int)] rfl _ ?_ <;> enc_tac


theorem enc_setlo (d : Nat) (v : Int) (hd : d < 16) (hv : -128 ≤ v ∧ v < 256) :
    Gen.assemble (Instr.setlo d v).toOp.1 (Instr.setlo d v).toOp.2 = .ok (some (bytesOf (encode (.instr (.setlo d v))))) := by
  simp only [Instr.toOp, encode, byteOf, bytesOf]
  refine assemble_of_val _ (by decide) (by decide) [(d : Int), v] rfl _ ?_
  enc_tac

theorem enc_sethi (d : Nat) (v : Int) (hd : d < 16) (hv : -128 ≤ v ∧ v < 256) :
    Gen.assemble (Instr.sethi d v).toOp.1 (Instr.sethi d v).toOp.2 = .ok (some (bytesOf (encode (.instr (.sethi d v))))) := by
  simp only [Instr.toOp, encode, byteOf, bytesOf]
  refine assemble_of_val _ (by decide) (by decide) [(d : Int), v] rfl _ ?_
  enc_tac

theorem enc_shift (op : Sh) (d b : Nat) (hd : d < 16) (hb : b < 16) :
    Gen.assemble (Instr.shift op d b).toOp.1 (Instr.shift op d b).toOp.2
      = .ok (some (bytesOf (encode (.instr (.shift op d b))))) := by
  cases op <;> simp only [Instr.toOp, encode, Sh.code, bytesOf] <;>
    refine assemble_of_val _ (by decide) (by decide) [(d : Int), (b : Int)] rfl _ ?_ <;> enc_tac

theorem enc_inc (d : Nat) (k : Int) (hd : d < 16) (hk : 1 ≤ k ∧ k ≤ 64) :
    Gen.assemble (Instr.inc d k).toOp.1 (Instr.inc d k).toOp.2 = .ok (some (bytesOf (encode (.instr (.inc d k))))) := by
  simp only [Instr.toOp, encode, bytesOf]
  unfold Gen.assemble
  dsimp only
  unfold Gen.INC.assemble
  rw [subst_of_val .INC (by decide) [(d : Int), k - 1] rfl (0x3080 + d * 256 + (k - 1).toNat) (by enc_tac)]
  rfl

theorem enc_dec (d : Nat) (k : Int) (hd : d < 16) (hk : 1 ≤ k ∧ k ≤ 64) :
    Gen.assemble (Instr.dec d k).toOp.1 (Instr.dec d k).toOp.2 = .ok (some (bytesOf (encode (.instr (.dec d k))))) := by
  simp only [Instr.toOp, encode, bytesOf]
  unfold Gen.assemble
  dsimp only
  unfold Gen.DEC.assemble
  rw [subst_of_val .DEC (by decide) [(d : Int), k - 1] rfl (0x30C0 + d * 256 + (k - 1).toNat) (by enc_tac)]
  rfl

theorem enc_savef (d : Nat) (hd : d < 16) :
    Gen.assemble (Instr.savef d).toOp.1 (Instr.savef d).toOp.2 = .ok (some (bytesOf (encode (.instr (.savef d))))) := by
  simp only [Instr.toOp, encode, bytesOf]
  refine assemble_of_val _ (by decide) (by decide) [(d : Int)] rfl _ ?_
  enc_tac

theorem enc_rstrf (d : Nat) (hd : d < 16) :
    Gen.assemble (Instr.rstrf d).toOp.1 (Instr.rstrf d).toOp.2 = .ok (some (bytesOf (encode (.instr (.rstrf d))))) := by
  simp only [Instr.toOp, encode, bytesOf]
  refine assemble_of_val _ (by decide) (by decide) [(d : Int)] rfl _ ?_
  enc_tac

theorem enc_fon (v : Int) (hv : 0 ≤ v ∧ v < 32) :
    Gen.assemble (Instr.fon v).toOp.1 (Instr.fon v).toOp.2 = .ok (some (bytesOf (encode (.instr (.fon v))))) := by
  simp only [Instr.toOp, encode, bytesOf]
  refine assemble_of_val _ (by decide) (by decide) [v] rfl _ ?_
  enc_tac

theorem enc_foff (v : Int) (hv : 0 ≤ v ∧ v < 32) :
    Gen.assemble (Instr.foff v).toOp.1 (Instr.foff v).toOp.2 = .ok (some (bytesOf (encode (.instr (.foff v))))) := by
  simp only [Instr.toOp, encode, bytesOf]
  refine assemble_of_val _ (by decide) (by decide) [v] rfl _ ?_
  enc_tac

theorem enc_fset5 (v : Int) (hv : 0 ≤ v ∧ v < 32) :
    Gen.assemble (Instr.fset5 v).toOp.1 (Instr.fset5 v).toOp.2 = .ok (some (bytesOf (encode (.instr (.fset5 v))))) := by
  simp only [Instr.toOp, encode, bytesOf]
  refine assemble_of_val _ (by decide) (by decide) [v] rfl _ ?_
  enc_tac

theorem enc_fset4 (v : Int) (hv : 0 ≤ v ∧ v < 16) :
    Gen.assemble (Instr.fset4 v).toOp.1 (Instr.fset4 v).toOp.2 = .ok (some (bytesOf (encode (.instr (.fset4 v))))) := by
  simp only [Instr.toOp, encode, bytesOf]
  refine assemble_of_val _ (by decide) (by decide) [v] rfl _ ?_
  enc_tac

theorem enc_load (d : Nat) (o : Int) (b : Nat) (hd : d < 16) (ho : 0 ≤ o ∧ o < 32) (hb : b < 16) :
    Gen.assemble (Instr.load d o b).toOp.1 (Instr.load d o b).toOp.2 = .ok (some (bytesOf (encode (.instr (.load d o b))))) := by
  simp only [Instr.toOp, encode, bytesOf]
  refine assemble_of_val _ (by decide) (by decide) [(d : Int), o, (b : Int)] rfl _ ?_
  enc_tac

theorem enc_store (d : Nat) (o : Int) (b : Nat) (hd : d < 16) (ho : 0 ≤ o ∧ o < 32) (hb : b < 16) :
    Gen.assemble (Instr.store d o b).toOp.1 (Instr.store d o b).toOp.2 = .ok (some (bytesOf (encode (.instr (.store d o b))))) := by
  simp only [Instr.toOp, encode, bytesOf]
  refine assemble_of_val _ (by decide) (by decide) [(d : Int), o, (b : Int)] rfl _ ?_
  enc_tac

theorem enc_br (c : Cond) (b : Nat) (hb : b < 16) :
    Gen.assemble (Instr.br c b).toOp.1 (Instr.br c b).toOp.2 = .ok (some (bytesOf (encode (.instr (.br c b))))) := by
  cases c <;> simp only [Instr.toOp, condCls, encode, Cond.code, bytesOf] <;>
    refine assemble_of_val _ (by decide) (by decide) [(b : Int)] rfl _ ?_ <;> enc_tac

theorem enc_brr (c : Cond) (o : Int) (ho : -128 ≤ o ∧ o < 256) :
    Gen.assemble (Instr.brr c o).toOp.1 (Instr.brr c o).toOp.2 = .ok (some (bytesOf (encode (.instr (.brr c o))))) := by
  cases c <;> simp only [Instr.toOp, condCls, encode, Cond.code, byteOf, bytesOf] <;>
    refine assemble_of_val _ (by decide) (by decide) [o] rfl _ ?_ <;> enc_tac

theorem enc_call (a b : Nat) (ha : a < 16) (hb : b < 16) :
    Gen.assemble (Instr.call a b).toOp.1 (Instr.call a b).toOp.2 = .ok (some (bytesOf (encode (.instr (.call a b))))) := by
  simp only [Instr.toOp, encode, bytesOf]
  refine assemble_of_val _ (by decide) (by decide) [(a : Int), (b : Int)] rfl _ ?_
  enc_tac

theorem enc_ret (a b : Nat) (ha : a < 16) (hb : b < 16) :
    Gen.assemble (Instr.ret a b).toOp.1 (Instr.ret a b).toOp.2 = .ok (some (bytesOf (encode (.instr (.ret a b))))) := by
  simp only [Instr.toOp, encode, bytesOf]
  refine assemble_of_val _ (by decide) (by decide) [(a : Int), (b : Int)] rfl _ ?_
  enc_tac

theorem enc_swi (n : Int) (hn : 0 ≤ n ∧ n < 16) :
    Gen.assemble (EInstr.swi n).toOp.1 (EInstr.swi n).toOp.2 = .ok (some (bytesOf (encode (.swi n)))) := by
  simp only [EInstr.toOp, encode, bytesOf]
  refine assemble_of_val _ (by decide) (by decide) [n] rfl _ ?_
  enc_tac

theorem enc_rti : Gen.assemble EInstr.rti.toOp.1 EInstr.rti.toOp.2 = .ok (some (bytesOf (encode .rti))) := by
  simp only [EInstr.toOp, encode, bytesOf]
  refine assemble_of_val _ (by decide) (by decide) [] rfl _ ?_
  rw [substVal_eq]; reduce_layout; simp only [slotsVal]; norm_num

/-- **C05 (the assembler follows the HERA table).** For every valid instruction of the architecture (and SWI / RTI),
    the regenerated `assemble` of hera-py's operation for it returns exactly the two bytes of the word that the HERA
    encoding table (`Spec.encode`, written as arithmetic on the operands) gives - all operands, no enumeration. -/
theorem C05_assemble_is_table (e : EInstr) (hv : e.Valid) :
    Gen.assemble e.toOp.1 e.toOp.2 = .ok (some (bytesOf (encode e))) := by
  cases e with
  | swi n => exact enc_swi n hv
  | rti => exact enc_rti
  | instr i =>
    simp only [EInstr.Valid] at hv
    cases i <;> simp only [Instr.Valid] at hv <;> simp only [EInstr.toOp]
    · exact enc_setlo _ _ hv.1 hv.2
    · exact enc_sethi _ _ hv.1 hv.2
    · exact enc_alu3 _ _ _ _ hv.1 hv.2.1 hv.2.2
    · exact enc_inc _ _ hv.1 hv.2
    · exact enc_dec _ _ hv.1 hv.2
    · exact enc_shift _ _ _ hv.1 hv.2
    · exact enc_savef _ hv
    · exact enc_rstrf _ hv
    · exact enc_fon _ hv
    · exact enc_foff _ hv
    · exact enc_fset5 _ hv
    · exact enc_fset4 _ hv
    · exact enc_load _ _ _ hv.1 ⟨hv.2.1, hv.2.2.1⟩ hv.2.2.2
    · exact enc_store _ _ _ hv.1 ⟨hv.2.1, hv.2.2.1⟩ hv.2.2.2
    · exact enc_br _ _ hv
    · exact enc_brr _ _ hv
    · exact enc_call _ _ hv.1 hv.2
    · exact enc_ret _ _ hv.1 hv.2

/-- hypotheses satisfiable: `ADD(R3, R4, R5)` is valid and the table word is 0xA345 -/
example : (EInstr.instr (.alu3 .add 3 4 5)).Valid ∧ encode (.instr (.alu3 .add 3 4 5)) = 0xA345 := by decide


theorem bytesOf_inj (w1 w2 : Nat) (h : bytesOf w1 = bytesOf w2) : w1 = w2 := by
  unfold bytesOf at h
  simp only [List.cons.injEq, and_true] at h
  obtain ⟨a, b⟩ := h
  have a' : w1 / 256 = w2 / 256 := by exact_mod_cast a
  have b' : w1 % 256 = w2 % 256 := by exact_mod_cast b
  omega

/-- **C05 (two instructions never share a word - for the code).** If the regenerated `assemble` gives the same bytes for two
    valid instructions, they are the same instruction (up to the two spellings of a byte operand). -/
theorem C05_assemble_injective (e1 e2 : EInstr) (h1 : e1.Valid) (h2 : e2.Valid)
    (h : Gen.assemble e1.toOp.1 e1.toOp.2 = Gen.assemble e2.toOp.1 e2.toOp.2) : e1.canon = e2.canon := by
  rw [C05_assemble_is_table e1 h1, C05_assemble_is_table e2 h2] at h
  simp only [Except.ok.injEq, Option.some.injEq] at h
  exact C05_encode_injective e1 e2 h1 h2 (bytesOf_inj _ _ h)

/-- **C05 (assemble then table-decode).** Decoding, by the HERA table, the word that the regenerated `assemble` emits for a
    valid instruction gives that instruction back. -/
theorem C05_decode_assemble (e : EInstr) (hv : e.Valid) :
    ∃ w : Nat, w < 65536 ∧ Gen.assemble e.toOp.1 e.toOp.2 = .ok (some (bytesOf w)) ∧ decode w = some e.canon :=
  ⟨encode e, C05_encode_lt e hv, C05_assemble_is_table e hv, C05_decode_encode e hv⟩

end Hera
