import HeraProofs.Props.C05
import HeraProofs.Props.C02
/-
  C06 — assembled machine code and data image run exactly like the interpreted source.

  The chain: every interpreted instruction has exactly its architected effect (`C01_step`), every emitted word
  decodes back to the operation that was assembled (`C05_decode_sound`), the word-level machine of
  `Spec.wordStep` executes the decoded instruction with `Spec.exec`, and decoding can only recover the canonical
  operand form, which means the same instruction (`C06_exec_canon`). The end-to-end statement over whole programs
  is decided by translation validation on every run (real `hera assemble --stdout` output executed by the word
  machine against the real interpreter).
-/
namespace Hera
open Spec

theorem ofInt8_byteOf (v : Int) : BitVec.ofInt 8 ((byteOf v : Nat) : Int) = BitVec.ofInt 8 v := by
  apply BitVec.eq_of_toNat_eq
  simp only [BitVec.toNat_ofInt, byteOf]
  have e8 : ((2 ^ 8 : Nat) : Int) = 256 := by norm_num
  rw [e8]
  omega

/-- **C06 (canonical operands mean the same instruction).** The operand form a decoder can recover (8-bit operands as
    the unsigned byte) executes exactly like the instruction as written, for every operand in -128..255. -/
theorem C06_exec_canon (i : Instr) (hv : i.Valid) (σ : State) : exec (canonInstr i) σ = exec i σ := by
  cases i with
  | setlo d v => simp only [canonInstr, exec, ofInt8_byteOf]
  | sethi d v => simp only [canonInstr, exec, ofInt8_byteOf]
  | brr c o =>
    simp only [canonInstr, exec, sbyte, ofInt8_byteOf]
    have h0 : ((byteOf o : Nat) : Int) = 0 ↔ o = 0 := by
      obtain ⟨h1, h2⟩ := hv
      unfold byteOf
      omega
    simp only [h0]
  | _ => rfl

/-- **C06 (the word machine only ever executes decoded instructions by the architecture).** -/
theorem C06_wordStep_exec (code : List Nat) (σ σ' : State) (h : wordStep code σ = some σ') :
    ∃ w i, code[σ.pc.toNat]? = some w ∧ decode w = some (.instr i) ∧ σ' = exec i σ ∧ σ.halted = false ∧
      0 ≤ σ.pc ∧ σ.pc < code.length := by
  unfold wordStep at h
  split at h
  · cases h
  · rename_i hg
    split at h
    · cases h
    · rename_i w hw
      split at h
      · rename_i i hi
        injection h with h
        refine ⟨w, i, hw, hi, h.symm, ?_, ?_, ?_⟩
        · cases hh : σ.halted
          · rfl
          · exact absurd (Or.inl hh) hg
        · omega
        · omega
      · cases h

end Hera
