import HeraModel.Spec.Cpp
/-
  C16 — includes splice text faithfully, cycles are caught, conditionals follow C rules.

  `Ifdef.evalGo` is the hand model of the keep-stack machine of `parser.evaluate_ifdefs`; together with the
  hand recogniser `Ifdef.scan` of the four regular expressions it is corresponded with the real function on
  generated and mutated texts. `Cpp.keep` is the specification: what a C preprocessor with only HERA_PY
  defined keeps of a well-nested structure. Includes are decided by the oracle over generated include graphs.
-/
namespace Hera
open Ifdef Cpp

theorem evalGo_text (s : Str) (p : Piece) (rest : List Piece) (keeping enclosing : List Bool) (acc : Str) :
    evalGo (.text s :: p :: rest) keeping enclosing acc
      = evalGo (p :: rest) keeping enclosing (if keeping.head?.getD true then acc ++ s else acc) := by
  rw [evalGo]
  all_goals simp

theorem evalGo_ifdef (w : Str) (rest : List Piece) (keeping enclosing : List Bool) (acc : Str) :
    evalGo (.ifdef w :: rest) keeping enclosing acc
      = evalGo rest ((keeping.head?.getD true && w == Str.ofString "HERA_PY") :: keeping) (keeping.head?.getD true :: enclosing) acc := by
  rw [evalGo]
  all_goals simp

theorem evalGo_ifndef (w : Str) (rest : List Piece) (keeping enclosing : List Bool) (acc : Str) :
    evalGo (.ifndef w :: rest) keeping enclosing acc
      = evalGo rest ((keeping.head?.getD true && w != Str.ofString "HERA_PY") :: keeping) (keeping.head?.getD true :: enclosing) acc := by
  rw [evalGo]
  all_goals simp

theorem evalGo_else (rest : List Piece) (k k' : Bool) (ks : List Bool) (e : Bool) (es : List Bool) (acc : Str) :
    evalGo (.else_ :: rest) (k :: k' :: ks) (e :: es) acc = evalGo rest ((e && !k) :: k' :: ks) (e :: es) acc := by
  rw [evalGo]
  all_goals simp

theorem evalGo_endif (rest : List Piece) (k k' : Bool) (ks : List Bool) (e : Bool) (es : List Bool) (acc : Str) :
    evalGo (.endif :: rest) (k :: k' :: ks) (e :: es) acc = evalGo rest (k' :: ks) es acc := by
  rw [evalGo]
  all_goals simp

end Hera
namespace Hera
open Ifdef Cpp

mutual
/-- processing the pieces of a well-nested structure leaves the stacks as they were and appends exactly what a
    C preprocessor keeps of it when the surrounding text is being kept (nothing otherwise) -/
theorem eval_flatten (t : CTree) : ∀ (rest : List Piece) (k : Bool) (ks es : List Bool) (acc : Str), rest ≠ [] →
    evalGo (flatten t ++ rest) (k :: ks) es acc = evalGo rest (k :: ks) es (acc ++ if k then keep t else []) := by
  cases t with
  | text s =>
    intro rest k ks es acc hr
    obtain ⟨p, rest', rfl⟩ : ∃ p rest', rest = p :: rest' := by
      cases rest with
      | nil => exact absurd rfl hr
      | cons p r => exact ⟨p, r, rfl⟩
    simp only [flatten, List.cons_append, List.nil_append, evalGo_text, List.head?_cons, Option.getD_some, keep]
    cases k <;> simp
  | cond neg sym thn els =>
    intro rest k ks es acc hr
    have hthn := eval_flattenList thn
    cases els with
    | none =>
      simp only [flatten, List.append_assoc, List.cons_append, List.nil_append, List.append_nil]
      cases neg with
      | false =>
        simp only [Bool.false_eq_true, ↓reduceIte, evalGo_ifdef, List.head?_cons, Option.getD_some]
        rw [hthn (.endif :: rest) _ (k :: ks) (k :: es) acc (by simp), evalGo_endif]
        simp only [keep, defined, bne]
        congr 1
        by_cases hs : (sym == Str.ofString "HERA_PY") = true <;> cases k <;> simp [hs]
      | true =>
        simp only [↓reduceIte, evalGo_ifndef, List.head?_cons, Option.getD_some]
        rw [hthn (.endif :: rest) _ (k :: ks) (k :: es) acc (by simp), evalGo_endif]
        simp only [keep, defined, bne]
        congr 1
        by_cases hs : (sym == Str.ofString "HERA_PY") = true <;> cases k <;> simp [hs]
    | some e =>
      have hels := eval_flattenList e
      simp only [flatten, List.append_assoc, List.cons_append, List.nil_append]
      cases neg with
      | false =>
        simp only [Bool.false_eq_true, ↓reduceIte, evalGo_ifdef, List.head?_cons, Option.getD_some]
        rw [hthn (.else_ :: (flattenList e ++ .endif :: rest)) _ (k :: ks) (k :: es) acc (by simp), evalGo_else,
          hels (.endif :: rest) _ (k :: ks) (k :: es) _ (by simp), evalGo_endif]
        simp only [keep, defined, bne]
        congr 1
        by_cases hs : (sym == Str.ofString "HERA_PY") = true <;> cases k <;> simp [hs]
      | true =>
        simp only [↓reduceIte, evalGo_ifndef, List.head?_cons, Option.getD_some]
        rw [hthn (.else_ :: (flattenList e ++ .endif :: rest)) _ (k :: ks) (k :: es) acc (by simp), evalGo_else,
          hels (.endif :: rest) _ (k :: ks) (k :: es) _ (by simp), evalGo_endif]
        simp only [keep, defined, bne]
        congr 1
        by_cases hs : (sym == Str.ofString "HERA_PY") = true <;> cases k <;> simp [hs]

theorem eval_flattenList (ts : List CTree) : ∀ (rest : List Piece) (k : Bool) (ks es : List Bool) (acc : Str), rest ≠ [] →
    evalGo (flattenList ts ++ rest) (k :: ks) es acc = evalGo rest (k :: ks) es (acc ++ if k then keepList ts else []) := by
  cases ts with
  | nil => intro rest k ks es acc _; cases k <;> simp [flattenList, keepList]
  | cons t ts =>
    intro rest k ks es acc hr
    have h1 := eval_flatten t
    have h2 := eval_flattenList ts
    simp only [flattenList, keepList, List.append_assoc]
    rw [h1 (flattenList ts ++ rest) k ks es acc (by simp [hr]), h2 rest k ks es _ hr]
    cases k <;> simp
end

/-- **C16 (conditionals follow C rules).** For every well-nested conditional structure (any depth, any symbols,
    `#else` present or not, arbitrary text in every branch), the keep-stack machine of `evaluate_ifdefs`, run over the
    chunks and directives of the structure followed by a final chunk, keeps exactly the text a C preprocessor with
    only HERA_PY defined keeps. -/
theorem C16_ifdef (ts : List CTree) (tail : Str) :
    evalGo (flattenList ts ++ [.text tail]) [true] [] [] = keepList ts ++ tail := by
  rw [eval_flattenList ts [.text tail] true [] [] [] (by simp)]
  simp [evalGo]

end Hera
