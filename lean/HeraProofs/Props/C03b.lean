import HeraProofs.Props.C03
/-
  C03, continued — the pseudo-operations whose expansion uses a scratch register or composes other expansions:
  NOT, SETRF and CALL to a label. (Kept apart from C03.lean so that the first batch stays as it was.)
-/
namespace Hera
open Spec

/-- `exec` of a three-register ALU instruction depends only on the observable state -/
theorem alu3_congr (op : Alu3) (d a b : Nat) (σ τ : State) (h : State.Eqv σ τ) (ha : a < 16) (hb : b < 16) :
    State.Eqv (exec (.alu3 op d a b) σ) (exec (.alu3 op d a b) τ) := by
  obtain ⟨h1, h2, h3, h4, h5⟩ := h
  simp only [exec, h1 a ha, h1 b hb, h3]
  refine ⟨fun r hr => ?_, fun x => ?_, ?_, ?_, ?_⟩
  · simp only [next_get, get_setReg, withfl_get]
    split
    · rfl
    · exact h1 r hr
  · simp [h2 x]
  · simp
  · simp [h4]
  · simp [h5]

theorem allOnes_xor (x : Word) : (BitVec.ofInt 16 65535 : Word) ^^^ x = ~~~x := by
  have : (BitVec.ofInt 16 65535 : Word) = BitVec.allOnes 16 := by decide
  rw [this, BitVec.xor_comm, BitVec.xor_allOnes]

theorem allOnes_xor' (x : Word) : (65535#16 : Word) ^^^ x = ~~~x := by
  have : (65535#16 : Word) = BitVec.allOnes 16 := by decide
  rw [this, BitVec.xor_comm, BitVec.xor_allOnes]

/-- **C03 (NOT).** `NOT(Rd, Ra)` with Ra other than the scratch register Rt leaves the bitwise complement of Ra in Rd,
    sets sign and zero from it, clobbers Rt (with 0xFFFF, unless Rt is the destination) and nothing else. -/
theorem C03_NOT (d a : Nat) (ha : a < 16) (ha11 : a ≠ 11) (σ : State) :
    State.Eqv (execList [.setlo 11 255, .sethi 11 255, .alu3 .xor d 11 a] σ) (pseudo (.not d a) σ) := by
  have h1 := load16 11 65535 (by omega) σ
  have e255 : (65535 : Int) % 256 = 255 ∧ (65535 : Int) / 256 = 255 := by omega
  rw [e255.1, e255.2] at h1
  have h2 : execList [.setlo 11 255, .sethi 11 255, .alu3 .xor d 11 a] σ
      = exec (.alu3 .xor d 11 a) (execList [.setlo 11 255, .sethi 11 255] σ) := rfl
  rw [h2]
  have h3 := alu3_congr .xor d 11 a _ _ h1 (by decide) ha
  obtain ⟨g1, g2, g3, g4, g5⟩ := h3
  have hget11 : ((σ.setReg 11 (BitVec.ofInt 16 65535)).addPc 2).get 11 = BitVec.ofInt 16 65535 := by
    simp [get_setReg]
  have hgeta : ((σ.setReg 11 (BitVec.ofInt 16 65535)).addPc 2).get a = σ.get a := by
    simp [get_setReg, ha11]
  have hlit : (0xFFFF : Word) = BitVec.ofInt 16 65535 := by decide
  refine ⟨fun r hr => (g1 r hr).trans ?_, fun x => (g2 x).trans ?_, g3.trans ?_, g4.trans ?_, g5.trans ?_⟩
  · simp only [exec, Spec.alu3, hget11, hgeta, allOnes_xor, pseudo, next_get, get_setReg, withfl_get, addPc_get, hlit]
  · simp [exec, pseudo]
  · simp [exec, Spec.alu3, pseudo, get_setReg, ha11, allOnes_xor']
  · simp [exec, pseudo]; omega
  · simp [exec, pseudo]

theorem Eqv.trans' {a b c : State} (h1 : State.Eqv a b) (h2 : State.Eqv b c) : State.Eqv a c :=
  ⟨fun r hr => (h1.1 r hr).trans (h2.1 r hr), fun x => (h1.2.1 x).trans (h2.2.1 x), h1.2.2.1.trans h2.2.2.1,
    h1.2.2.2.1.trans h2.2.2.2.1, h1.2.2.2.2.trans h2.2.2.2.2⟩

theorem foff_congr (v : Int) (σ τ : State) (h : State.Eqv σ τ) : State.Eqv (exec (.foff v) σ) (exec (.foff v) τ) := by
  obtain ⟨h1, h2, h3, h4, h5⟩ := h
  simp only [exec, h3]
  exact ⟨fun r hr => h1 r hr, fun x => h2 x, rfl, by simp [h4], by simp [h5]⟩

/-- **C03 (SETRF).** `SETRF(Rd, v)` = `SET(Rd, v)` then `FLAGS(Rd)`: v in Rd, sign and zero of what Rd then reads as,
    carry and overflow off, carry-block unchanged, nothing else. -/
theorem C03_SETRF (d : Nat) (hd : d < 16) (v : Int) (hv : -32768 ≤ v ∧ v < 65536) (σ : State) :
    let u := if v < 0 then 65536 + v else v
    State.Eqv (execList [.setlo d (u % 256), .sethi d (u / 256), .foff 8, .alu3 .add 0 d 0] σ) (pseudo (.setrf d v) σ) := by
  intro u
  have hset := C03_SET d v hv σ
  simp only at hset
  have hsplit : execList [.setlo d (u % 256), .sethi d (u / 256), .foff 8, .alu3 .add 0 d 0] σ
      = execList [.foff 8, .alu3 .add 0 d 0] (execList [.setlo d (u % 256), .sethi d (u / 256)] σ) := rfl
  rw [hsplit]
  -- the FLAGS part respects observational equality
  have hcong : State.Eqv (execList [.foff 8, .alu3 .add 0 d 0] (execList [.setlo d (u % 256), .sethi d (u / 256)] σ))
      (execList [.foff 8, .alu3 .add 0 d 0] (pseudo (.set d v) σ)) := by
    simp only [execList]
    exact alu3_congr .add 0 d 0 _ _ (foff_congr 8 _ _ hset) hd (by decide)
  refine Eqv.trans' hcong (Eqv.trans' (C03_FLAGS d (pseudo (.set d v) σ)) ?_)
  simp only [pseudo]
  refine ⟨fun r _ => rfl, fun x => rfl, ?_, by simp; omega, rfl⟩
  simp

theorem call_congr (a b : Nat) (σ τ : State) (h : State.Eqv σ τ) (ha : a < 16) (hb : b < 16) :
    State.Eqv (exec (.call a b) σ) (exec (.call a b) τ) := by
  obtain ⟨h1, h2, h3, h4, h5⟩ := h
  simp only [exec, h1 a ha, h1 b hb, h1 14 (by decide), h4]
  refine ⟨fun r hr => ?_, fun x => ?_, ?_, ?_, ?_⟩
  · simp only [get_setReg, withpc_get]
    split
    · rfl
    · split
      · rfl
      · split
        · rfl
        · exact h1 r hr
  · simp [h2 x]
  · simp [h3]
  · simp
  · simp [h5]

/-- **C03 (CALL to a label).** `CALL(Ra, label)` with Ra other than PC_ret: control continues at the label, PC_ret holds
    the address of the operation after the call (three instructions on), FP and Ra are exchanged, nothing else
    changes - flags included. -/
theorem C03_CALLlabel (a : Nat) (ha : a < 16) (ha13 : a ≠ 13) (l : Int) (hl : 0 ≤ l ∧ l < 65536) (σ : State) :
    State.Eqv (execList [.setlo 13 (l % 256), .sethi 13 (l / 256), .call a 13] σ) (pseudo (.callLabel a l) σ) := by
  have h1 := load16 13 l hl σ
  have h2 : execList [.setlo 13 (l % 256), .sethi 13 (l / 256), .call a 13] σ
      = exec (.call a 13) (execList [.setlo 13 (l % 256), .sethi 13 (l / 256)] σ) := rfl
  rw [h2]
  refine Eqv.trans' (call_congr a 13 _ _ h1 ha (by decide)) ?_
  have hget13 : ((σ.setReg 13 (BitVec.ofInt 16 l)).addPc 2).get 13 = BitVec.ofInt 16 l := by simp [get_setReg]
  have hgeta : ((σ.setReg 13 (BitVec.ofInt 16 l)).addPc 2).get a = (σ.setReg 13 (BitVec.ofInt 16 l)).get a := rfl
  have hget14 : ((σ.setReg 13 (BitVec.ofInt 16 l)).addPc 2).get 14 = σ.get 14 := by simp [get_setReg]
  simp only [exec, pseudo, hget13, hget14, hgeta, toNat_ofInt16 hl]
  refine ⟨fun r hr => ?_, fun x => by simp, by simp, by simp, by simp⟩
  have e3 : σ.pc + 2 + 1 = σ.pc + 3 := by omega
  simp only [get_setReg, withpc_get, addPc_get, addPc_pc, setReg_pc, e3]
  by_cases h13 : r = 13
  · subst h13; simp
  · simp [h13]

end Hera
