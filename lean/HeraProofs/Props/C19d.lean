import HeraProofs.Props.C19c
/-
  C19, continued — the first routine WITH A LOOP: the word-copy loop of the stack-convention library
  (`tstdlib_label_local_memcpy_reg`, used by concat and substring), regenerated from hera/stdlib.py. For every count
  n = R3 (0..65535), every source and destination address (overlapping or not, wrapping around the address space or
  not) and every prior state: after exactly 12 n + 6 instructions from the loop head the routine has returned to
  PC_ret with memory = the forward word-by-word copy, R1 and R2 advanced by n, R3 = 0, FP and FP_alt exchanged back,
  SP and R5..R10 untouched. Proof: a loop invariant by induction on n over symbolic execution with `Spec.exec`.
-/
namespace Hera
open Spec Gen.Stdlib

theorem s_memcpy_code_is_ops : s_memcpy_code.map opView = s_memcpy_ops := by decide

/-- forward word-by-word copy of `n` cells from `s` to `d` (what `*(d++) = *(s++)` repeated n times does) -/
def copyFwd (m : Word → Word) (s d : Word) : Nat → (Word → Word)
  | 0 => m
  | n + 1 => copyFwd (fun x => if x = d then m s else m x) (s + 1) (d + 1) n

theorem or_zero_fl (x : Word) (f : Flags) : (alu3 .or (0#16) x f).2 = f.setSZ x := by simp [alu3]
theorem word_278 : (BitVec.ofInt 8 1 ++ BitVec.truncate 8 (BitVec.signExtend 16 (BitVec.ofInt 8 22)) : BitVec 16) = 278#16 := by decide
theorem word_266 : (BitVec.ofInt 8 1 ++ BitVec.truncate 8 (BitVec.signExtend 16 (BitVec.ofInt 8 10)) : BitVec 16) = 266#16 := by decide

/-- the exit path: R3 = 0 at the loop head -> OR, SETLO, SETHI, BZ (taken), ADD, RETURN -/
theorem memcpy_exit (σ : State) (hh : σ.halted = false) (hpc : σ.pc = 266) (h3 : σ.get 3 = 0#16) :
    let τ := Lib.run s_memcpy_base s_memcpy_code 6 σ
    τ.mem = σ.mem ∧ τ.pc = ((σ.get 13).toNat : Int) ∧ τ.halted = false ∧
      (∀ r, r ≠ 11 → r ≠ 12 → r ≠ 13 → r ≠ 14 → τ.get r = σ.get r) ∧ τ.get 12 = σ.get 14 ∧ τ.get 14 = σ.get 12 := by
  intro τ
  have hτ : τ = exec (.ret 12 13) (exec (.alu3 .add 11 4 0) (exec (.br .z 11) (exec (.sethi 11 1) (exec (.setlo 11 22)
      (exec (.alu3 .or 0 0 3) σ))))) := by
    show Lib.run s_memcpy_base s_memcpy_code 6 σ = _
    rw [Sym.run_succ σ _ _ 5 (.alu3 .or 0 0 3) hh (by rw [hpc]; rfl)]
    rw [Sym.run_succ _ _ _ 4 (.setlo 11 22) (by symsimp [hh]) (by symsimp [hpc]; rfl)]
    rw [Sym.run_succ _ _ _ 3 (.sethi 11 1) (by symsimp [hh]) (by symsimp [hpc]; rfl)]
    rw [Sym.run_succ _ _ _ 2 (.br .z 11) (by symsimp [hh]) (by symsimp [hpc]; rfl)]
    rw [Sym.run_succ _ _ _ 1 (.alu3 .add 11 4 0) (by symsimp [hh])
      (by symsimp [hpc, Cond.holds, get_zero, or_zero_fl, Flags.setSZ, h3, word_278]; rfl)]
    rw [Sym.run_succ _ _ _ 0 (.ret 12 13) (by symsimp [hh])
      (by symsimp [hpc, Cond.holds, get_zero, or_zero_fl, Flags.setSZ, h3, word_278]; rfl)]
    rfl
  rw [hτ]
  refine ⟨?_, ?_, ?_, ?_, ?_, ?_⟩
  · symsimp []
  · symsimp []
  · symsimp [hh]
  · intro r h11 h12 h13 h14
    symsimp [h11, h12, h13, h14]
  · symsimp []
  · symsimp []

/-- one trip round the loop: R3 ≠ 0 at the loop head -> OR, SETLO, SETHI, BZ (not taken), LOAD, INC, STORE, INC, DEC,
    SETLO, SETHI, BR (back to the head): one word copied, the pointers advanced, the count decremented -/
theorem memcpy_iter (σ : State) (hh : σ.halted = false) (hpc : σ.pc = 266) (h3 : σ.get 3 ≠ 0#16) :
    let τ := Lib.run s_memcpy_base s_memcpy_code 12 σ
    τ.pc = 266 ∧ τ.halted = false ∧
      τ.mem = (fun x => if x = σ.get 2 then σ.mem (σ.get 1) else σ.mem x) ∧
      τ.get 1 = σ.get 1 + 1 ∧ τ.get 2 = σ.get 2 + 1 ∧ τ.get 3 = σ.get 3 - 1 ∧
      (∀ r, r ≠ 1 → r ≠ 2 → r ≠ 3 → r ≠ 11 → τ.get r = σ.get r) := by
  intro τ
  have hz : (σ.get 3 == 0#16) = false := by simpa using h3
  have hτ : τ = exec (.br .always 11) (exec (.sethi 11 1) (exec (.setlo 11 10) (exec (.dec 3 1) (exec (.inc 2 1)
      (exec (.store 11 0 2) (exec (.inc 1 1) (exec (.load 11 0 1) (exec (.br .z 11) (exec (.sethi 11 1) (exec (.setlo 11 22)
      (exec (.alu3 .or 0 0 3) σ))))))))))) := by
    show Lib.run s_memcpy_base s_memcpy_code 12 σ = _
    rw [Sym.run_succ σ _ _ 11 (.alu3 .or 0 0 3) hh (by rw [hpc]; rfl)]
    rw [Sym.run_succ _ _ _ 10 (.setlo 11 22) (by symsimp2 [hh]) (by symsimp2 [hpc]; rfl)]
    rw [Sym.run_succ _ _ _ 9 (.sethi 11 1) (by symsimp2 [hh]) (by symsimp2 [hpc]; rfl)]
    rw [Sym.run_succ _ _ _ 8 (.br .z 11) (by symsimp2 [hh]) (by symsimp2 [hpc]; rfl)]
    rw [Sym.run_succ _ _ _ 7 (.load 11 0 1) (by symsimp2 [hh])
      (by symsimp2 [hpc, Cond.holds, get_zero, or_zero_fl, Flags.setSZ, hz]; rfl)]
    rw [Sym.run_succ _ _ _ 6 (.inc 1 1) (by symsimp2 [hh])
      (by symsimp2 [hpc, Cond.holds, get_zero, or_zero_fl, Flags.setSZ, hz]; rfl)]
    rw [Sym.run_succ _ _ _ 5 (.store 11 0 2) (by symsimp2 [hh])
      (by symsimp2 [hpc, Cond.holds, get_zero, or_zero_fl, Flags.setSZ, hz]; rfl)]
    rw [Sym.run_succ _ _ _ 4 (.inc 2 1) (by symsimp2 [hh])
      (by symsimp2 [hpc, Cond.holds, get_zero, or_zero_fl, Flags.setSZ, hz]; rfl)]
    rw [Sym.run_succ _ _ _ 3 (.dec 3 1) (by symsimp2 [hh])
      (by symsimp2 [hpc, Cond.holds, get_zero, or_zero_fl, Flags.setSZ, hz]; rfl)]
    rw [Sym.run_succ _ _ _ 2 (.setlo 11 10) (by symsimp2 [hh])
      (by symsimp2 [hpc, Cond.holds, get_zero, or_zero_fl, Flags.setSZ, hz]; rfl)]
    rw [Sym.run_succ _ _ _ 1 (.sethi 11 1) (by symsimp2 [hh])
      (by symsimp2 [hpc, Cond.holds, get_zero, or_zero_fl, Flags.setSZ, hz]; rfl)]
    rw [Sym.run_succ _ _ _ 0 (.br .always 11) (by symsimp2 [hh])
      (by symsimp2 [hpc, Cond.holds, get_zero, or_zero_fl, Flags.setSZ, hz]; rfl)]
    rfl
  rw [hτ]
  refine ⟨?_, ?_, ?_, ?_, ?_, ?_, ?_⟩
  · symsimp2 [Cond.holds, word_266]
  · symsimp2 [hh]
  · funext x
    symsimp2 [ofInt16_0]
  · symsimp2 [addc_val, ofInt16_1]
  · symsimp2 [addc_val, ofInt16_1]
  · symsimp2 [subc_val, ofInt16_1]
  · intro r h1 h2 h3' h11
    symsimp2 [h1, h2, h3', h11]

/-- what the loop promises from its head, for a count of `n` -/
structure Copied (σ τ : State) (n : Nat) : Prop where
  mem : τ.mem = copyFwd σ.mem (σ.get 1) (σ.get 2) n
  src : τ.get 1 = σ.get 1 + BitVec.ofNat 16 n
  dst : τ.get 2 = σ.get 2 + BitVec.ofNat 16 n
  cnt : τ.get 3 = 0#16
  pc : τ.pc = ((σ.get 13).toNat : Int)
  fp : τ.get 14 = σ.get 12
  fpalt : τ.get 12 = σ.get 14
  kept : ∀ r, r ≠ 1 → r ≠ 2 → r ≠ 3 → r ≠ 11 → r ≠ 12 → r ≠ 13 → r ≠ 14 → τ.get r = σ.get r
  running : τ.halted = false

/-- **loop invariant**: from the loop head with R3 = n, after 12 n + 6 instructions the routine has returned with the
    forward copy done (induction on n, the state generalised) -/
theorem memcpy_loop : ∀ (n : Nat) (σ : State), σ.halted = false → σ.pc = 266 → (σ.get 3).toNat = n →
    Copied σ (Lib.run s_memcpy_base s_memcpy_code (12 * n + 6) σ) n := by
  intro n
  induction n with
  | zero =>
    intro σ hh hpc h3
    have h30 : σ.get 3 = 0#16 := BitVec.eq_of_toNat_eq (by simpa using h3)
    obtain ⟨hm, hp, hr, hk, h12, h14⟩ := memcpy_exit σ hh hpc h30
    exact ⟨by rw [hm]; rfl, by rw [hk 1 (by decide) (by decide) (by decide) (by decide)]; simp,
      by rw [hk 2 (by decide) (by decide) (by decide) (by decide)]; simp,
      by rw [hk 3 (by decide) (by decide) (by decide) (by decide), h30], hp, h14, h12,
      fun r _ _ _ h11 h12' h13 h14' => hk r h11 h12' h13 h14', hr⟩
  | succ n ih =>
    intro σ hh hpc h3
    have h3ne : σ.get 3 ≠ 0#16 := by
      intro h; rw [h] at h3; simp at h3
    rw [show 12 * (n + 1) + 6 = 12 + (12 * n + 6) by omega, run_add]
    obtain ⟨ipc, ih', imem, i1, i2, i3, ik⟩ := memcpy_iter σ hh hpc h3ne
    generalize Lib.run s_memcpy_base s_memcpy_code 12 σ = σ' at *
    have h3' : (σ'.get 3).toNat = n := by
      rw [i3, BitVec.toNat_sub]
      have := (σ.get 3).isLt
      simp
      omega
    have c := ih σ' ih' ipc h3'
    have k12 := ik 12 (by decide) (by decide) (by decide) (by decide)
    have k13 := ik 13 (by decide) (by decide) (by decide) (by decide)
    have k14 := ik 14 (by decide) (by decide) (by decide) (by decide)
    refine ⟨?_, ?_, ?_, c.cnt, ?_, ?_, ?_, ?_, c.running⟩
    · rw [c.mem, imem, i1, i2]; rfl
    · rw [c.src, i1]
      apply BitVec.eq_of_toNat_eq
      simp [BitVec.toNat_add]
      omega
    · rw [c.dst, i2]
      apply BitVec.eq_of_toNat_eq
      simp [BitVec.toNat_add]
      omega
    · rw [c.pc, k13]
    · rw [c.fp, k12]
    · rw [c.fpalt, k14]
    · intro r h1 h2 h3r h11 h12 h13 h14
      rw [c.kept r h1 h2 h3r h11 h12 h13 h14, ik r h1 h2 h3r h11]

/-- what the forward copy leaves in memory when the destination block does not run into the part of the source that is
    still to be read: cell by cell the source (the ordinary, non-overlapping case of concat and substring) -/
theorem copyFwd_outside (m : Word → Word) (s d : Word) (n : Nat) (x : Word)
    (hx : ∀ i < n, x ≠ d + BitVec.ofNat 16 i) : copyFwd m s d n x = m x := by
  induction n generalizing m s d with
  | zero => rfl
  | succ n ih =>
    rw [copyFwd, ih]
    · have := hx 0 (by omega)
      simp at this
      simp [this]
    · intro i hi
      have := hx (i + 1) (by omega)
      intro h
      apply this
      rw [h]
      apply BitVec.eq_of_toNat_eq
      simp [BitVec.toNat_add]
      omega

/-- **C19 (the copy loop of concat / substring).** Entered at its label with count n = R3 (every value 0..65535), source
    R1, destination R2, in any state: the routine returns to PC_ret after exactly 12 n + 7 instructions; memory is the
    forward word-by-word copy of n cells (cells outside the destination block are untouched: `copyFwd_outside`);
    R1 and R2 have advanced by n, R3 is 0, FP and FP_alt are exchanged back, SP and R5..R10 are as before. -/
theorem C19_memcpy (σ : State) (hh : σ.halted = false) (hpc : σ.pc = s_memcpy_base) :
    let n := (σ.get 3).toNat
    let τ := Lib.run s_memcpy_base s_memcpy_code (12 * n + 7) σ
    τ.mem = copyFwd σ.mem (σ.get 1) (σ.get 2) n ∧ τ.get 1 = σ.get 1 + σ.get 3 ∧ τ.get 2 = σ.get 2 + σ.get 3 ∧
      τ.get 3 = 0#16 ∧ τ.pc = ((σ.get 13).toNat : Int) ∧ τ.get 14 = σ.get 12 ∧ τ.get 12 = σ.get 14 ∧
      (∀ r ∈ [5, 6, 7, 8, 9, 10, 15], τ.get r = σ.get r) ∧ τ.halted = false := by
  intro n τ
  have hτ : τ = Lib.run s_memcpy_base s_memcpy_code (12 * n + 6) (exec (.alu3 .add 4 11 0) σ) := by
    show Lib.run s_memcpy_base s_memcpy_code (12 * n + 7) σ = _
    rw [show 12 * n + 7 = (12 * n + 6) + 1 by omega, Sym.run_succ σ _ _ _ (.alu3 .add 4 11 0) hh (by rw [hpc]; rfl)]
  have g : ∀ r, r ≠ 4 → (exec (.alu3 .add 4 11 0) σ).get r = σ.get r := by
    intro r hr; symsimp [hr]
  have c := memcpy_loop n (exec (.alu3 .add 4 11 0) σ) (by symsimp [hh]) (by symsimp [hpc]; rfl)
    (by rw [g 3 (by decide)])
  rw [← hτ] at c
  have hn : BitVec.ofNat 16 n = σ.get 3 := by
    apply BitVec.eq_of_toNat_eq
    simp [n]
  refine ⟨?_, ?_, ?_, c.cnt, ?_, ?_, ?_, ?_, c.running⟩
  · rw [c.mem, Sym.alu3_mem, g 1 (by decide), g 2 (by decide)]
  · rw [c.src, g 1 (by decide), hn]
  · rw [c.dst, g 2 (by decide), hn]
  · rw [c.pc, g 13 (by decide)]
  · rw [c.fp, g 12 (by decide)]
  · rw [c.fpalt, g 14 (by decide)]
  · intro r hr
    simp only [List.mem_cons, List.not_mem_nil, or_false] at hr
    rcases hr with rfl | rfl | rfl | rfl | rfl | rfl | rfl <;>
      rw [c.kept _ (by decide) (by decide) (by decide) (by decide) (by decide) (by decide) (by decide), g _ (by decide)]

/-- hypotheses satisfiable: a running machine at the routine's label -/
example : ∃ σ : State, σ.halted = false ∧ σ.pc = s_memcpy_base :=
  ⟨{ regs := fun _ => 3#16, fl := ⟨false, false, false, false, false⟩, mem := fun _ => 0#16, pc := s_memcpy_base, halted := false }, rfl, rfl⟩

end Hera
