import HeraProofs.Lemmas.WF
import HeraModel.Generated.OpFacts
/-
  C15 — runs are repeatable, isolated from earlier runs, and throttling cuts cleanly.

  Over the run-loop model `Run.*` (guards and `reset` regenerated from hera/vm.py).
-/
namespace Hera
open Gen

/-- the state after `k` iterations of the unthrottled loop (no guard): the trajectory of the run -/
def Run.steps (p : Program) : Nat → VM → Except PyErr VM
  | 0, vm => .ok vm
  | n + 1, vm =>
    match Run.iter p vm with
    | .ok vm' => Run.steps p n vm'
    | .error e => .error e

/-- does the unthrottled run stop by itself after exactly `k` iterations from `vm`? -/
def Run.stopsAt (p : Program) : Nat → VM → Prop
  | 0, vm => Gen.runGuard vm p.code.length = false
  | n + 1, vm => Gen.runGuard vm p.code.length = true ∧ ∃ vm', Run.iter p vm = .ok vm' ∧ Run.stopsAt p n vm'

/-- `iter` does not look at `op_count` and leaves it alone (only the throttled loop counts). -/
theorem iter_op_count_indep (p : Program) (vm vm' : VM) (c : Int) (h : Run.iter p vm = .ok vm')
    (hexec : ∀ op ∈ p.code, ∀ s s' : VM, ∀ k : Int, Gen.exec op.cls op.args s = .ok ((), s') →
      Gen.exec op.cls op.args { s with op_count := k } = .ok ((), { s' with op_count := k })) :
    Run.iter p { vm with op_count := c } = .ok { vm' with op_count := c } := by
  unfold Run.iter at h ⊢
  unfold Run.fetch at h ⊢
  cases hf : Py.listGet p.code vm.pc with
  | error e => rw [hf] at h; cases h
  | ok op =>
    rw [hf] at h
    simp only at h ⊢
    have hmem : op ∈ p.code := by
      unfold Py.listGet at hf
      split at hf
      · split at hf
        · injection hf with hf; subst hf; rename_i heq; exact List.mem_of_getElem? heq
        · cases hf
      · split at hf
        · split at hf
          · injection hf with hf; subst hf; rename_i heq; exact List.mem_of_getElem? heq
          · cases hf
        · cases hf
    cases hx : Gen.exec op.cls op.args { vm with location := op.loc } with
    | error e => rw [hx] at h; cases h
    | ok r =>
      obtain ⟨u, s'⟩ := r
      rw [hx] at h
      simp only [Except.ok.injEq] at h
      subst h
      have := hexec op hmem { vm with location := op.loc } s' c hx
      have e : ({ vm with op_count := c, location := op.loc } : VM) = { ({ vm with location := op.loc } : VM) with op_count := c } := rfl
      rw [e, this]

/-- **C15 (throttling cuts cleanly).** The throttled loop with limit `n` started with `op_count = 0`, given enough
    fuel, ends in exactly the state the unthrottled trajectory has after `min n len` iterations (where `len` is the
    length of the unthrottled run), with `op_count = min n len` and everything else identical. Stated for the case
    the run is at least `n` long (`n ≤ len`: cut) -/
theorem C15_throttle_cut (p : Program) (n : Nat) :
    ∀ (vm vmk : VM) (c : Int), 0 ≤ c →
      (∀ j, j < n → ∀ s, Run.steps p j vm = .ok s → Gen.runGuard s p.code.length = true) →
      Run.steps p n vm = .ok vmk →
      (∀ op ∈ p.code, ∀ s s' : VM, ∀ k : Int, Gen.exec op.cls op.args s = .ok ((), s') →
        Gen.exec op.cls op.args { s with op_count := k } = .ok ((), { s' with op_count := k })) →
      Run.loopThrottled p (c + n) (n + 1) { vm with op_count := c } = .ok { vmk with op_count := c + n } := by
  induction n with
  | zero =>
    intro vm vmk c hc _ hs _
    simp only [Run.steps, Except.ok.injEq] at hs
    subst hs
    simp [Run.loopThrottled, runGuardThrottled]
  | succ n ih =>
    intro vm vmk c hc hg hs hexec
    simp only [Run.steps] at hs
    cases hi : Run.iter p vm with
    | error e => rw [hi] at hs; cases hs
    | ok vm1 =>
      rw [hi] at hs
      have hg0 := hg 0 (by omega) vm rfl
      have hgt : Gen.runGuardThrottled { vm with op_count := c } p.code.length (c + ((n + 1 : Nat) : Int)) = true := by
        simp only [runGuardThrottled, runGuard, Bool.and_eq_true, decide_eq_true_eq] at hg0 ⊢
        exact ⟨hg0, by push_cast; omega⟩
      rw [Run.loopThrottled, if_pos hgt, iter_op_count_indep p vm vm1 c hi hexec]
      simp only
      have := ih vm1 vmk (c + 1) (by omega)
        (fun j hj s hsj => hg (j + 1) (by omega) s (by simp only [Run.steps, hi]; exact hsj)) hs hexec
      have e1 : (c + 1 + (n : Int)) = c + ((n + 1 : Nat) : Int) := by push_cast; omega
      rw [e1] at this
      exact this

end Hera

namespace Hera
open Gen

/-- **C15 (a run is a function of program, options and input only).** `reset()` assigns every field of the machine:
    two machines with the same settings (and the same already-printed output) are identical after `reset`, so
    `vm.run(program)` cannot depend on what the machine executed before. -/
theorem C15_reset_covers (vm1 vm2 : VM) (hs : vm1.settings = vm2.settings) (ho : vm1.out = vm2.out) :
    Gen.VM.reset vm1 = Gen.VM.reset vm2 := by
  unfold VM.reset
  simp only [M.bind_apply, M.get_apply, M.set_apply]
  rw [hs, ho]

theorem C15_run_function (p : Program) (fuel : Nat) (vm1 vm2 : VM) (hs : vm1.settings = vm2.settings)
    (ho : vm1.out = vm2.out) : Run.run p fuel vm1 = Run.run p fuel vm2 := by
  unfold Run.run Run.start
  rw [C15_reset_covers vm1 vm2 hs ho]

/-- **C15 (throttle larger than the run).** If the unthrottled run stops by itself after `k < n` iterations, the
    throttled loop ends in the same state, having counted `k` operations. -/
theorem C15_throttle_uncut (p : Program) (k : Nat) :
    ∀ (vm vmk : VM) (c thr : Int), c + k < thr →
      Run.stopsAt p k vm → Run.steps p k vm = .ok vmk →
      (∀ op ∈ p.code, ∀ s s' : VM, ∀ j : Int, Gen.exec op.cls op.args s = .ok ((), s') →
        Gen.exec op.cls op.args { s with op_count := j } = .ok ((), { s' with op_count := j })) →
      ∀ fuel, k < fuel →
      Run.loopThrottled p thr fuel { vm with op_count := c } = .ok { vmk with op_count := c + k } := by
  induction k with
  | zero =>
    intro vm vmk c thr _ hstop hs _ fuel hf
    simp only [Run.steps, Except.ok.injEq] at hs
    subst hs
    simp only [Run.stopsAt] at hstop
    cases fuel with
    | zero => omega
    | succ f =>
      have : Gen.runGuardThrottled { vm with op_count := c } p.code.length thr = false := by
        simp only [runGuardThrottled, runGuard] at hstop ⊢
        simp [hstop]
      simp [Run.loopThrottled, this]
  | succ k ih =>
    intro vm vmk c thr hc hstop hs hexec fuel hf
    obtain ⟨hg, vm1, hi, hstop1⟩ := hstop
    simp only [Run.steps, hi] at hs
    cases fuel with
    | zero => omega
    | succ f =>
      have hgt : Gen.runGuardThrottled { vm with op_count := c } p.code.length thr = true := by
        simp only [runGuardThrottled, runGuard, Bool.and_eq_true, decide_eq_true_eq] at hg ⊢
        exact ⟨hg, by push_cast at hc; omega⟩
      rw [Run.loopThrottled, if_pos hgt, iter_op_count_indep p vm vm1 c hi hexec]
      simp only
      have := ih vm1 vmk (c + 1) thr (by push_cast at hc ⊢; omega) hstop1 hs hexec f (by omega)
      have e1 : c + 1 + (k : Int) = c + ((k + 1 : Nat) : Int) := by push_cast; omega
      rw [e1] at this
      exact this

/-- **C15 (the throttle counter is private to the run loop).** In the current source (regenerated table) no module but
    hera/vm.py and hera/main.py mentions `op_count`: no operation, library helper or debugger command reads or writes
    it. This is the syntactic ground of the hypothesis `hexec` of the two throttle theorems (executing an operation is
    parametric in the counter). -/
theorem C15_op_count_private : OpFacts.opCountUsers = [] := by decide

end Hera
