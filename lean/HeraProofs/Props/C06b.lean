import HeraProofs.Props.C06
import HeraProofs.Props.C05b
/-
  C06, continued — at the level of the architecture the statement over whole programs is a theorem: the word machine
  (`Spec.wordStep`: fetch a 16-bit word, decode it by the HERA table, execute) running the table words of ANY list of
  valid instructions behaves, step for step and for every number of steps, exactly like executing the instructions
  themselves. (What remains per run is that the real assembler emits the table words and the real interpreter refines
  `Spec.exec`: complete enumeration for the former, `C01_step` for the latter, translation validation end to end.)
-/
namespace Hera
open Spec

/-- executing a list of instructions directly (the interpreter's view) -/
def instrStep (prog : List Instr) (σ : State) : Option State :=
  if σ.halted ∨ σ.pc < 0 ∨ σ.pc ≥ prog.length then none
  else match prog[σ.pc.toNat]? with
    | none => none
    | some i => some (exec i σ)

def instrRun (prog : List Instr) : Nat → State → State
  | 0, σ => σ
  | n + 1, σ => match instrStep prog σ with
    | some σ' => instrRun prog n σ'
    | none => σ

/-- the assembled image of a program: the table word of each instruction -/
def image (prog : List Instr) : List Nat := prog.map (fun i => encode (.instr i))

/-- **C06 (one step).** On the image of a program of valid instructions the word machine does exactly what executing the
    instruction at `pc` does. -/
theorem C06_image_step (prog : List Instr) (hv : ∀ i ∈ prog, i.Valid) (σ : State) :
    wordStep (image prog) σ = instrStep prog σ := by
  unfold wordStep instrStep image
  rw [List.length_map]
  split
  · rfl
  · rw [List.getElem?_map]
    cases hi : prog[σ.pc.toNat]? with
    | none => rfl
    | some i =>
      have hmem : i ∈ prog := List.mem_of_getElem? hi
      have hd := C05_decode_encode (.instr i) (hv i hmem)
      simp only [Option.map_some, hd, EInstr.canon, C06_exec_canon i (hv i hmem)]

/-- **C06 (whole runs).** For every program of valid instructions, every start state and every number of steps, the
    assembled image run by the word machine ends in the state the instruction list ends in. -/
theorem C06_image_run (prog : List Instr) (hv : ∀ i ∈ prog, i.Valid) (n : Nat) (σ : State) :
    wordRun (image prog) n σ = instrRun prog n σ := by
  induction n generalizing σ with
  | zero => rfl
  | succ n ih =>
    simp only [wordRun, instrRun, C06_image_step prog hv σ]
    cases instrStep prog σ with
    | none => rfl
    | some σ' => exact ih σ'

end Hera
