/-
  C05 — instruction encoding and decoding are exact inverses and follow the HERA table.

  `Cls.BITV`, `Cls.P`, `nameToClass` and `Gen.assemble` are regenerated from hera/op.py on every run;
  `Enc.*` is the hand model of match_bitvector / substitute_bitvector / disassemble, compared with the real
  functions on all 65 536 words and all valid instruction instances on every run; `Spec.encode` is the
  HERA encoding table written as arithmetic. The round-trip theorems are generic in the pattern (no
  enumeration of words); the table side conditions are decided on the literal regenerated table.
-/
import HeraProofs.Lemmas.Bits
namespace Hera
open Enc

/-! ### facts about the regenerated pattern table (decided on the literal table) -/

theorem table_len : ∀ c ∈ Cls.all, c.BITV ≠ [] → (strip c.BITV).length = 16 := by decide

theorem table_syms : ∀ c ∈ Cls.all, ∀ ch ∈ strip c.BITV, ch = '0' ∨ ch = '1' ∨ isLetter ch = true := by decide

theorem table_arity : ∀ c ∈ Cls.all, c.BITV ≠ [] → arity (strip c.BITV) = c.P.length := by decide

theorem mem_all (c : Cls) : c ∈ Cls.all := by cases c <;> decide

/-- the token list that `match_bitvector` builds from an assignment -/
def toksOf (p : List Char) (a : Nat → Int) : List Tok :=
  (List.range (arity p)).map (fun k => if isRegArg p k then Tok.reg (a k) else Tok.int (a k))

def intOf : Tok → Int
  | .int v | .reg v => v
  | _ => 0

theorem toksOf_getD (p : List Char) (a : Nat → Int) (k : Nat) (hk : k < arity p) :
    ((toksOf p a).map intOf).getD k 0 = a k := by
  unfold toksOf
  simp only [List.map_map, List.getD, List.getElem?_map]
  rw [List.getElem?_range hk]
  simp only [Option.map_some, Function.comp, Option.getD_some]
  split <;> rfl

end Hera
namespace Hera
open Enc

/-- `substitute_bitvector` on arguments read back from a successful match gives the word's two bytes. -/
theorem subst_of_matched (p : List Char) (hlen : p.length = 16)
    (hsym : ∀ ch ∈ p, ch = '0' ∨ ch = '1' ∨ isLetter ch = true)
    (w : Nat) (hw : w < 65536) (a : Nat → Int) (hm : matchGo p (bitsOf w) (fun _ => 0) = some a)
    (args : List Int) (hargs : ∀ k, k < arity p → args.getD k 0 = a k) (hal : arity p ≤ args.length) :
    (let bits := substGo p.reverse (fun k => args.getD k 0)
     ([((valLsb (bits.drop 8) : Nat) : Int), ((valLsb (bits.take 8) : Nat) : Int)] : List Int))
      = [((w / 256 : Nat) : Int), ((w % 256 : Nat) : Int)] := by
  have h1 : substGo p.reverse (fun k => args.getD k 0) = substGo p.reverse a := by
    apply substGo_congr
    intro c hc h0 h1
    have hcp : c ∈ p := List.mem_reverse.mp hc
    have hl : isLetter c = true := by
      rcases hsym c hcp with h | h | h
      · exact absurd h h0
      · exact absurd h h1
      · exact h
    exact hargs _ (idx_lt_arity p 0 c hcp hl)
  have h2 : substGo p.reverse a = (bitsOf w).reverse := by
    apply subst_of_match p.reverse (bitsOf w).reverse (fun _ => 0) a (by simp [hlen, bitsOf_length])
    simpa using hm
  simp only [h1, h2]
  obtain ⟨b1, b2⟩ := bytes_of_bits (bitsOf w).reverse (by simp [bitsOf_length])
  rw [b1, b2, valLsb_bitsOf w hw]

end Hera
namespace Hera
open Enc

theorem except_bind_pure {α} (x : Except PyErr α) : (do let t ← x; pure t) = x := by
  cases x <;> rfl

theorem abstract_assemble_eq (p : List Char) (args : List Int) :
    Gen.AbstractOperation.assemble p args = Enc.substituteBitvector p args := by
  unfold Gen.AbstractOperation.assemble
  exact except_bind_pure _

/-- `op.assemble()` of a class with a bit pattern (other than INC/DEC) is `substitute_bitvector(BITV, args)`. -/
theorem assemble_pattern (c : Cls) (hb : c.BITV ≠ []) (hn : c ≠ .INC ∧ c ≠ .DEC) (args : List Int)
    (h : args.length = c.P.length) :
    Gen.assemble c (args.map Val.int) = (Enc.substituteBitvector c.BITV args).map some := by
  cases c <;> first
    | exact absurd rfl hb
    | exact absurd rfl hn.1
    | exact absurd rfl hn.2
    | (rcases args with _ | ⟨a0, _ | ⟨a1, _ | ⟨a2, _ | ⟨a3, t⟩⟩⟩⟩ <;> simp [Cls.P] at h <;>
        simp only [List.map] <;> unfold Gen.assemble <;> dsimp only <;> rw [abstract_assemble_eq])

end Hera
namespace Hera
open Enc

theorem go_ok (v : Int) (l : List (String × Cls)) (d : DOp) (h : Enc.disassemble.go v false l = .ok d) :
    ∃ c, c.BITV ≠ [] ∧ ∃ m, matchBitvector c.BITV v.toNat = some m ∧ clsDisassemble c m = .ok d := by
  induction l with
  | nil => simp [Enc.disassemble.go] at h
  | cons x xs ih =>
    obtain ⟨n, c⟩ := x
    rw [Enc.disassemble.go] at h
    by_cases hb : c.BITV = []
    · simp only [hb, ↓reduceIte] at h
      exact ih h
    · simp only [hb, ↓reduceIte] at h
      cases hm : matchBitvector c.BITV v.toNat with
      | none => rw [hm] at h; exact ih h
      | some m => rw [hm] at h; exact ⟨c, hb, m, hm, h⟩

end Hera
namespace Hera
open Enc

theorem toksOf_val (p : List Char) (a : Nat → Int) :
    (toksOf p a).map Tok.val = ((toksOf p a).map intOf).map Val.int := by
  unfold toksOf
  simp only [List.map_map]
  apply List.map_congr_left
  intro k _
  simp only [Function.comp]
  split <;> rfl

theorem toksOf_length (p : List Char) (a : Nat → Int) : (toksOf p a).length = arity p := by simp [toksOf]

theorem matchBitvector_some {pat : List Char} {w : Nat} {m : List Tok} (h : matchBitvector pat w = some m) :
    ∃ a, matchGo (strip pat) (bitsOf w) (fun _ => 0) = some a ∧ m = toksOf (strip pat) a := by
  unfold matchBitvector at h
  simp only at h
  cases hm : matchGo (strip pat) (bitsOf w) (fun _ => 0) with
  | none => rw [hm] at h; cases h
  | some a =>
    rw [hm] at h
    simp only [Option.some.injEq] at h
    exact ⟨a, rfl, h.symm⟩

/-- `substitute_bitvector` of the class's own pattern on the matched arguments gives back the word -/
theorem subst_matched_class (c : Cls) (hb : c.BITV ≠ []) (w : Nat) (hw : w < 65536) (a : Nat → Int)
    (hm : matchGo (strip c.BITV) (bitsOf w) (fun _ => 0) = some a) (args : List Int)
    (hlen : args.length = arity (strip c.BITV)) (hargs : ∀ k, k < arity (strip c.BITV) → args.getD k 0 = a k) :
    Enc.substituteBitvector c.BITV args = .ok [((w / 256 : Nat) : Int), ((w % 256 : Nat) : Int)] := by
  unfold Enc.substituteBitvector
  simp only
  rw [if_neg (by omega)]
  congr 1
  exact subst_of_matched (strip c.BITV) (table_len c (mem_all c) hb) (table_syms c (mem_all c)) w hw a hm args hargs
    (by omega)

/-- **C05 (decode is sound).** Whatever a 16-bit word disassembles to re-assembles to exactly that word. -/
theorem C05_decode_sound (w : Nat) (hw : w < 65536) (d : DOp) (h : Enc.disassemble (w : Int) false = .ok d) :
    Gen.assemble d.cls (d.toks.map Tok.val) = .ok (some [((w / 256 : Nat) : Int), ((w % 256 : Nat) : Int)]) := by
  unfold Enc.disassemble at h
  rw [if_neg (by omega)] at h
  obtain ⟨c, hb, m, hm, hcd⟩ := go_ok _ _ _ h
  simp only [Int.toNat_natCast] at hm
  obtain ⟨a, hma, rfl⟩ := matchBitvector_some hm
  have har := table_arity c (mem_all c) hb
  unfold clsDisassemble at hcd
  by_cases hid : c = .INC ∨ c = .DEC
  · rw [if_pos hid] at hcd
    -- INC / DEC: two arguments, the second an integer; disassemble adds one, assemble subtracts it again
    have h2 : arity (strip c.BITV) = 2 := by rcases hid with rfl | rfl <;> decide
    have hi1 : isRegArg (strip c.BITV) 1 = false := by rcases hid with rfl | rfl <;> decide
    have htoks : toksOf (strip c.BITV) a = [if isRegArg (strip c.BITV) 0 then Tok.reg (a 0) else Tok.int (a 0), Tok.int (a 1)] := by
      unfold toksOf
      rw [h2]
      simp [List.range, List.range.loop, hi1]
    rw [htoks] at hcd
    simp only [Except.ok.injEq] at hcd
    subst hcd
    have hs := subst_matched_class c hb w hw a hma [a 0, a 1] (by rw [h2]; rfl)
      (by intro k hk; rw [h2] at hk; rcases k with _ | _ | k <;> first | rfl | omega)
    rcases hid with rfl | rfl
    · have hi0 : isRegArg (strip Cls.INC.BITV) 0 = true := by decide
      simp only [hi0, ↓reduceIte, List.map, Tok.val]
      unfold Gen.assemble
      dsimp only
      unfold Gen.INC.assemble
      rw [show a 1 + 1 - 1 = a 1 by omega, hs]
      rfl
    · have hi0 : isRegArg (strip Cls.DEC.BITV) 0 = true := by decide
      simp only [hi0, ↓reduceIte, List.map, Tok.val]
      unfold Gen.assemble
      dsimp only
      unfold Gen.DEC.assemble
      rw [show a 1 + 1 - 1 = a 1 by omega, hs]
      rfl
  · rw [if_neg hid] at hcd
    simp only [Except.ok.injEq] at hcd
    subst hcd
    have hn : c ≠ .INC ∧ c ≠ .DEC := ⟨fun h => hid (Or.inl h), fun h => hid (Or.inr h)⟩
    simp only
    rw [toksOf_val, assemble_pattern c hb hn _ (by rw [List.length_map, toksOf_length, har])]
    rw [subst_matched_class c hb w hw a hma _ (by rw [List.length_map, toksOf_length])
      (fun k hk => toksOf_getD _ a k hk)]
    rfl

end Hera

namespace Hera
open Enc

/-- **C05 (range).** A value outside 0..0xFFFF is rejected rather than decoded, whatever `allow_unknown` is. -/
theorem C05_range (v : Int) (allow : Bool) (h : v < 0 ∨ 65536 ≤ v) : Enc.disassemble v allow = .error .HERAError := by
  unfold Enc.disassemble
  rw [if_pos (by omega)]

/-- **C05 (encode then decode, generic in the pattern).** For every 16-symbol pattern of the table and every
    argument assignment, matching the substituted bits recovers each argument modulo its field width. -/
theorem C05_match_subst (c : Cls) (a : Nat → Int) :
    matchGo (strip c.BITV) (substGo (strip c.BITV).reverse a).reverse (fun _ => 0)
      = some (fun k => a k % 2 ^ (width (strip c.BITV).reverse k)) := by
  have := match_of_subst (strip c.BITV).reverse a (fun _ => 0)
  simp only [List.reverse_reverse, Int.zero_mul, Int.zero_add] at this
  exact this

end Hera
