import HeraProofs.Lemmas.Frame
import HeraProofs.Lemmas.Mem
/-
  C01 — every machine instruction has exactly its architected effect.

  `Gen.*` is regenerated from hera/op.py, hera/vm.py and hera/utils.py on every run; `Spec.*`
  is the hand-written BitVec machine. Statement per instruction family, then `C01_step` over
  all instructions. The well-formedness part of each statement is property C02's step case.
-/
namespace Hera
open Gen

/-! ### three-register ALU instructions -/

theorem ADD_calculate_eq (l r : Int) (vm : VM) :
    ADD.calculate l r vm = .ok (
      (l + r + if (!vm.flag_carry_block && vm.flag_carry) = true then 1 else 0) % 65536,
      { vm with
        flag_carry := decide ((l + r + if (!vm.flag_carry_block && vm.flag_carry) = true then 1 else 0) % 65536 < l + r + if (!vm.flag_carry_block && vm.flag_carry) = true then 1 else 0),
        flag_overflow := decide (from_u16 ((l + r + if (!vm.flag_carry_block && vm.flag_carry) = true then 1 else 0) % 65536) ≠ from_u16 l + from_u16 r + if (!vm.flag_carry_block && vm.flag_carry) = true then 1 else 0) }) := by
  simp [ADD.calculate]
  all_goals omega

theorem step_add (d a b : Nat) (hd : d < 16) (ha : a < 16) (hb : b < 16) (vm : VM) (hwf : WF vm) :
    StepOK (.alu3 .add d a b) vm := by
  have hl := hwf.len
  obtain ⟨hres, hw, hc, hv⟩ := add_core ((abs vm).get a) ((abs vm).get b) vm.flag_carry vm.flag_carry_block
  simp only [← reg_eq_toNat hwf ha, ← reg_eq_toNat hwf hb] at hres hw hc hv
  have hex := BinaryOp_execute_eq ADD.calculate vm _ d a b _ hl hd ha hb (ADD_calculate_eq _ _ vm) hl
  obtain ⟨h1, h2, h3, h4, h5⟩ := alu_finish vm hwf d hd _ _ _ hres _ hw _ _ hc hv
  exact ⟨_, hex, h1, allowed_of_eqv rfl rfl h2, h3, fun _ => ⟨h4, h5⟩⟩

theorem SUB_calculate_eq (l r : Int) (vm : VM) :
    SUB.calculate l r vm = .ok (
      (l - r - if (!vm.flag_carry_block && !vm.flag_carry) = true then 1 else 0) % 65536,
      { vm with
        flag_carry := decide (l ≥ r + if (!vm.flag_carry_block && !vm.flag_carry) = true then 1 else 0),
        flag_overflow := decide (from_u16 ((l - r - if (!vm.flag_carry_block && !vm.flag_carry) = true then 1 else 0) % 65536) ≠ from_u16 l - from_u16 r - if (!vm.flag_carry_block && !vm.flag_carry) = true then 1 else 0) }) := by
  simp only [SUB.calculate, M.bind_apply, M.get_apply]
  rw [to_u16_eq (by omega)]
  simp

theorem step_sub (d a b : Nat) (hd : d < 16) (ha : a < 16) (hb : b < 16) (vm : VM) (hwf : WF vm) :
    StepOK (.alu3 .sub d a b) vm := by
  have hl := hwf.len
  obtain ⟨hres, hw, hc, hv⟩ := sub_core ((abs vm).get a) ((abs vm).get b) vm.flag_carry vm.flag_carry_block
  simp only [← reg_eq_toNat hwf ha, ← reg_eq_toNat hwf hb] at hres hw hc hv
  have hex := BinaryOp_execute_eq SUB.calculate vm _ d a b _ hl hd ha hb (SUB_calculate_eq _ _ vm) hl
  obtain ⟨h1, h2, h3, h4, h5⟩ := alu_finish vm hwf d hd _ _ _ hres _ hw _ _ hc hv
  exact ⟨_, hex, h1, allowed_of_eqv rfl rfl h2, h3, fun _ => ⟨h4, h5⟩⟩

theorem step_and (d a b : Nat) (hd : d < 16) (ha : a < 16) (hb : b < 16) (vm : VM) (hwf : WF vm) :
    StepOK (.alu3 .and d a b) vm := by
  have hl := hwf.len
  obtain ⟨hres, hw⟩ := pyand_word ((abs vm).get a) ((abs vm).get b)
  simp only [← reg_eq_toNat hwf ha, ← reg_eq_toNat hwf hb] at hres hw
  have hcalc : AND.calculate (reg vm a) (reg vm b) vm = .ok (Py.and (reg vm a) (reg vm b), vm) := by
    simp [AND.calculate]
    all_goals omega
  have hex := BinaryOp_execute_eq AND.calculate vm _ d a b _ hl hd ha hb hcalc hl
  obtain ⟨h1, h2, h3, h4, h5⟩ := alu_finish vm hwf d hd _ vm.flag_carry vm.flag_overflow hres _ hw _ _ rfl rfl
  exact ⟨_, hex, h1, allowed_of_eqv rfl rfl h2, h3, fun _ => ⟨h4, h5⟩⟩

theorem step_or (d a b : Nat) (hd : d < 16) (ha : a < 16) (hb : b < 16) (vm : VM) (hwf : WF vm) :
    StepOK (.alu3 .or d a b) vm := by
  have hl := hwf.len
  obtain ⟨hres, hw⟩ := pyor_word ((abs vm).get a) ((abs vm).get b)
  simp only [← reg_eq_toNat hwf ha, ← reg_eq_toNat hwf hb] at hres hw
  have hcalc : OR.calculate (reg vm a) (reg vm b) vm = .ok (Py.or (reg vm a) (reg vm b), vm) := by
    simp [OR.calculate]
    all_goals omega
  have hex := BinaryOp_execute_eq OR.calculate vm _ d a b _ hl hd ha hb hcalc hl
  obtain ⟨h1, h2, h3, h4, h5⟩ := alu_finish vm hwf d hd _ vm.flag_carry vm.flag_overflow hres _ hw _ _ rfl rfl
  exact ⟨_, hex, h1, allowed_of_eqv rfl rfl h2, h3, fun _ => ⟨h4, h5⟩⟩

theorem step_xor (d a b : Nat) (hd : d < 16) (ha : a < 16) (hb : b < 16) (vm : VM) (hwf : WF vm) :
    StepOK (.alu3 .xor d a b) vm := by
  have hl := hwf.len
  obtain ⟨hres, hw⟩ := pyxor_word ((abs vm).get a) ((abs vm).get b)
  simp only [← reg_eq_toNat hwf ha, ← reg_eq_toNat hwf hb] at hres hw
  have hcalc : XOR.calculate (reg vm a) (reg vm b) vm = .ok (Py.xor (reg vm a) (reg vm b), vm) := by
    simp [XOR.calculate]
    all_goals omega
  have hex := BinaryOp_execute_eq XOR.calculate vm _ d a b _ hl hd ha hb hcalc hl
  obtain ⟨h1, h2, h3, h4, h5⟩ := alu_finish vm hwf d hd _ vm.flag_carry vm.flag_overflow hres _ hw _ _ rfl rfl
  exact ⟨_, hex, h1, allowed_of_eqv rfl rfl h2, h3, fun _ => ⟨h4, h5⟩⟩



theorem MUL_calculate_low_eq (l r : Int) (vm : VM) (h : (vm.flag_sign && !vm.flag_carry_block) = false) :
    MUL.calculate l r vm = .ok ((l * r) % 65536,
      { vm with flag_carry := decide ((l * r) % 65536 < l * r),
                flag_overflow := decide (from_u16 ((l * r) % 65536) ≠ from_u16 l * from_u16 r) }) := by
  simp only [MUL.calculate, M.bind_apply, M.get_apply, h, Bool.false_eq_true, ↓reduceIte]
  simp

theorem step_mul_low (d a b : Nat) (hd : d < 16) (ha : a < 16) (hb : b < 16) (vm : VM) (hwf : WF vm)
    (hm : (vm.flag_sign && !vm.flag_carry_block) = false) :
    StepOK (.alu3 .mul d a b) vm := by
  have hl := hwf.len
  obtain ⟨hres, hw, hc, hv⟩ := mul_low_core ((abs vm).get a) ((abs vm).get b)
  simp only [← reg_eq_toNat hwf ha, ← reg_eq_toNat hwf hb] at hres hw hc hv
  have hex := BinaryOp_execute_eq MUL.calculate vm _ d a b _ hl hd ha hb (MUL_calculate_low_eq _ _ vm hm) hl
  obtain ⟨h1, h2, h3, h4, h5⟩ := alu_finish vm hwf d hd _ _ _ hres _ hw _ _ hc hv
  have hmh : Spec.mulHigh (abs vm).fl = false := hm
  refine ⟨_, hex, h1, allowed_of_eqv rfl hmh ?_, h3, fun _ => ⟨h4, h5⟩⟩
  simp only [Spec.exec, Spec.alu3, hmh, Bool.false_eq_true, ↓reduceIte]
  exact h2

theorem MUL_calculate_high_eq (x y : BitVec 16) (vm : VM) (h : (vm.flag_sign && !vm.flag_carry_block) = true) :
    ∃ c' v' : Bool, MUL.calculate (x.toNat : Int) (y.toNat : Int) vm = .ok (
      (((((x.signExtend 32).toNat : Nat) : Int) * (((y.signExtend 32).toNat : Nat) : Int)) % 4294967296
        - ((((x.signExtend 32).toNat : Nat) : Int) * (((y.signExtend 32).toNat : Nat) : Int)) % 65536) / 65536,
      { vm with flag_carry := c', flag_overflow := v' }) := by
  refine Exists.intro ?c (Exists.intro ?v ?h)
  case h =>
    simp only [MUL.calculate, M.bind_apply, M.get_apply, h, ↓reduceIte, to_u32_from_u16, M.lift_ok, M.set_apply,
      M.pure_apply]
    rfl

theorem step_mul_high (d a b : Nat) (hd : d < 16) (ha : a < 16) (hb : b < 16) (vm : VM) (hwf : WF vm)
    (hm : (vm.flag_sign && !vm.flag_carry_block) = true) :
    StepOK (.alu3 .mul d a b) vm := by
  have hl := hwf.len
  obtain ⟨hres, hw⟩ := mul_high_core ((abs vm).get a) ((abs vm).get b)
  obtain ⟨c', v', hcalc⟩ := MUL_calculate_high_eq ((abs vm).get a) ((abs vm).get b) vm hm
  rw [← reg_eq_toNat hwf ha, ← reg_eq_toNat hwf hb] at hcalc
  have hex := BinaryOp_execute_eq MUL.calculate vm _ d a b _ hl hd ha hb hcalc hl
  obtain ⟨h1, h2, h3, h4, h5⟩ := alu_finish vm hwf d hd _ c' v' hres _ hw _ _ rfl rfl
  have hmh : Spec.mulHigh (abs vm).fl = true := hm
  refine ⟨_, hex, h1, ?_, h3, fun _ => ⟨h4, h5⟩⟩
  simp only [Spec.allowed, Spec.Instr.aliased, Bool.false_eq_true, ↓reduceIte, Spec.Instr.mulHighIn, hmh]
  apply eqv_open_cv h2
  all_goals simp only [Spec.exec, Spec.alu3, hmh, ↓reduceIte]
  all_goals unfold Spec.State.next Spec.State.setReg
  all_goals (try intro _)
  all_goals split <;> rfl

theorem step_mul (d a b : Nat) (hd : d < 16) (ha : a < 16) (hb : b < 16) (vm : VM) (hwf : WF vm) :
    StepOK (.alu3 .mul d a b) vm := by
  cases hm : (vm.flag_sign && !vm.flag_carry_block)
  · exact step_mul_low d a b hd ha hb vm hwf hm
  · exact step_mul_high d a b hd ha hb vm hwf hm



/-! ### shifts -/

theorem LSL_calculate_eq (x : Int) (vm : VM) :
    LSL.calculate x vm = .ok ((x * 2 + if (vm.flag_carry && !vm.flag_carry_block) = true then 1 else 0) % 65536,
      { vm with flag_carry := decide (x / 32768 % 2 * 32768 ≠ 0), flag_overflow := vm.flag_overflow }) := by
  simp only [LSL.calculate, M.bind_apply, M.get_apply, M.set_apply, M.pure_apply]

theorem step_lsl (d b : Nat) (hd : d < 16) (hb : b < 16) (vm : VM) (hwf : WF vm) :
    StepOK (.shift .lsl d b) vm := by
  have hl := hwf.len
  obtain ⟨hres, hw⟩ := lsl_core ((abs vm).get b) vm.flag_carry vm.flag_carry_block
  have hc := msb_core ((abs vm).get b)
  simp only [← reg_eq_toNat hwf hb] at hres hw hc
  have hex := UnaryOp_execute_eq LSL.calculate vm _ d b _ hl hd hb (LSL_calculate_eq _ vm) hl
  obtain ⟨h1, h2, h3, h4, h5⟩ := alu_finish vm hwf d hd _ _ _ hres _ hw _ _ hc rfl
  exact ⟨_, hex, h1, allowed_of_eqv rfl rfl h2, h3, fun _ => ⟨h4, h5⟩⟩

theorem LSR_calculate_eq (x : Int) (vm : VM) :
    LSR.calculate x vm = .ok (x / 2 + if (vm.flag_carry && !vm.flag_carry_block) = true then 32768 else 0,
      { vm with flag_carry := decide (x % 2 = 1), flag_overflow := vm.flag_overflow }) := by
  simp only [LSR.calculate, M.bind_apply, M.get_apply, M.set_apply, M.pure_apply]

theorem step_lsr (d b : Nat) (hd : d < 16) (hb : b < 16) (vm : VM) (hwf : WF vm) :
    StepOK (.shift .lsr d b) vm := by
  have hl := hwf.len
  obtain ⟨hres, hw⟩ := lsr_core ((abs vm).get b) vm.flag_carry vm.flag_carry_block
  have hc := lsb_core ((abs vm).get b)
  simp only [← reg_eq_toNat hwf hb] at hres hw hc
  have hex := UnaryOp_execute_eq LSR.calculate vm _ d b _ hl hd hb (LSR_calculate_eq _ vm) hl
  obtain ⟨h1, h2, h3, h4, h5⟩ := alu_finish vm hwf d hd _ _ _ hres _ hw _ _ hc rfl
  exact ⟨_, hex, h1, allowed_of_eqv rfl rfl h2, h3, fun _ => ⟨h4, h5⟩⟩

theorem step_lsl8 (d b : Nat) (hd : d < 16) (hb : b < 16) (vm : VM) (hwf : WF vm) :
    StepOK (.shift .lsl8 d b) vm := by
  have hl := hwf.len
  obtain ⟨hres, hw⟩ := lsl8_core ((abs vm).get b)
  simp only [← reg_eq_toNat hwf hb] at hres hw
  have hcalc : LSL8.calculate (reg vm b) vm = .ok (reg vm b * 256 % 65536, vm) := by
    simp [LSL8.calculate]
    all_goals omega
  have hex := UnaryOp_execute_eq LSL8.calculate vm _ d b _ hl hd hb hcalc hl
  obtain ⟨h1, h2, h3, h4, h5⟩ := alu_finish vm hwf d hd _ vm.flag_carry vm.flag_overflow hres _ hw _ _ rfl rfl
  exact ⟨_, hex, h1, allowed_of_eqv rfl rfl h2, h3, fun _ => ⟨h4, h5⟩⟩

theorem step_lsr8 (d b : Nat) (hd : d < 16) (hb : b < 16) (vm : VM) (hwf : WF vm) :
    StepOK (.shift .lsr8 d b) vm := by
  have hl := hwf.len
  obtain ⟨hres, hw⟩ := lsr8_core ((abs vm).get b)
  simp only [← reg_eq_toNat hwf hb] at hres hw
  have hcalc : LSR8.calculate (reg vm b) vm = .ok (reg vm b / 256, vm) := by
    simp [LSR8.calculate]
    all_goals omega
  have hex := UnaryOp_execute_eq LSR8.calculate vm _ d b _ hl hd hb hcalc hl
  obtain ⟨h1, h2, h3, h4, h5⟩ := alu_finish vm hwf d hd _ vm.flag_carry vm.flag_overflow hres _ hw _ _ rfl rfl
  exact ⟨_, hex, h1, allowed_of_eqv rfl rfl h2, h3, fun _ => ⟨h4, h5⟩⟩

theorem ASL_calculate_eq (x : Int) (vm : VM) :
    ASL.calculate x vm = .ok ((x * 2 + if (vm.flag_carry && !vm.flag_carry_block) = true then 1 else 0) % 65536,
      { vm with flag_carry := decide (x / 32768 % 2 * 32768 ≠ 0),
                flag_overflow := decide (Py.xor x ((x * 2 + if (vm.flag_carry && !vm.flag_carry_block) = true then 1 else 0) % 65536) / 32768 % 2 * 32768 ≠ 0) }) := by
  simp only [ASL.calculate, M.bind_apply, M.get_apply, M.set_apply, M.pure_apply]

theorem step_asl (d b : Nat) (hd : d < 16) (hb : b < 16) (vm : VM) (hwf : WF vm) :
    StepOK (.shift .asl d b) vm := by
  have hl := hwf.len
  obtain ⟨hres, hw⟩ := lsl_core ((abs vm).get b) vm.flag_carry vm.flag_carry_block
  have hc := msb_core ((abs vm).get b)
  have hv := asl_v_core ((abs vm).get b) (vm.flag_carry && !vm.flag_carry_block)
  rw [← hw, toNat_ofInt16 hres] at hv
  simp only [← reg_eq_toNat hwf hb] at hres hw hc hv
  have hex := UnaryOp_execute_eq ASL.calculate vm _ d b _ hl hd hb (ASL_calculate_eq _ vm) hl
  obtain ⟨h1, h2, h3, h4, h5⟩ := alu_finish vm hwf d hd _ _ _ hres _ hw _ _ hc hv
  exact ⟨_, hex, h1, allowed_of_eqv rfl rfl h2, h3, fun _ => ⟨h4, h5⟩⟩

theorem ASR_calculate_eq (x : Int) (vm : VM) :
    ASR.calculate x vm = .ok (
      (if (x / 32768 % 2 * 32768 ≠ 0) then Py.or (x / 2) 32768 else x / 2),
      { vm with flag_carry := decide (x % 2 ≠ 0), flag_overflow := vm.flag_overflow }) := by
  by_cases h : x / 32768 % 2 * 32768 ≠ 0
  · simp only [ASR.calculate, M.bind_apply, M.get_apply, h, decide_true, ↓reduceIte, M.set_apply, M.pure_apply, ne_eq, not_false_eq_true]
  · simp only [ASR.calculate, M.bind_apply, M.get_apply, h, decide_false, Bool.false_eq_true, ↓reduceIte, M.set_apply, M.pure_apply]

theorem step_asr (d b : Nat) (hd : d < 16) (hb : b < 16) (vm : VM) (hwf : WF vm) :
    StepOK (.shift .asr d b) vm := by
  have hl := hwf.len
  obtain ⟨hres, hw⟩ := asr_core ((abs vm).get b)
  have hc := lsb_core' ((abs vm).get b)
  simp only [← reg_eq_toNat hwf hb] at hres hw hc
  have hex := UnaryOp_execute_eq ASR.calculate vm _ d b _ hl hd hb (ASR_calculate_eq _ vm) hl
  obtain ⟨h1, h2, h3, h4, h5⟩ := alu_finish vm hwf d hd _ _ _ hres _ hw _ _ hc rfl
  exact ⟨_, hex, h1, allowed_of_eqv rfl rfl h2, h3, fun _ => ⟨h4, h5⟩⟩




/-! ### INC / DEC -/

/-- final state of INC/DEC: register written first, then the four flags, then `pc+1` -/
def idPost (vm : VM) (d : Nat) (res : Int) (c' v' : Bool) : VM :=
  let vm1 := stackWarn d res { vm with registers := regSet vm.registers d res }
  { vm1 with flag_zero := decide (res = 0), flag_sign := decide (res / 32768 % 2 * 32768 ≠ 0),
             flag_overflow := v', flag_carry := c', pc := vm1.pc + 1 }

theorem finish_idPost {i : Spec.Instr} {vm : VM} (hwf : WF vm) {d : Nat} (hd : d < 16) {res : Int}
    {c' v' : Bool} (hex : Gen.exec i.toOp.1 i.toOp.2 vm = .ok ((), idPost vm d res c' v'))
    (hr : 0 ≤ res ∧ res < 65536) {w : Spec.Word} (hw : BitVec.ofInt 16 res = w)
    {cS vS : Bool} (hc : c' = cS) (hv : v' = vS)
    (hal : i.aliased = false) (hmh : i.mulHighIn (abs vm) = false)
    (hspec : Spec.exec i (abs vm) = ({ abs vm with fl := { s := w.msb, z := w == 0, v := vS, c := cS, cb := vm.flag_carry_block } }.setReg d w).next) :
    StepOK i vm := by
  obtain ⟨hz, hs⟩ := sz_core hr hw
  subst hc hv
  refine finish_regwrite hwf hex hd hr (by simp [idPost]) (by simp [idPost]) (by simp [idPost]) (by simp [idPost])
    ?_ hw ?_ (by simp [idPost]) (by simp [idPost]) hal hmh hspec
  · unfold idPost absFlags
    simp only [stackWarn_fcb]
    rw [hz, hs]
  · unfold idPost; untouched_tac

theorem INC_execute_eq (d : Nat) (k : Int) (vm : VM) (hl : vm.registers.length = 16) (hd : d < 16) :
    INC.execute (d : Int) k vm = .ok ((), idPost vm d ((k + reg vm d) % 65536)
      (decide (k + reg vm d ≥ 65536)) (decide (from_u16 ((k + reg vm d) % 65536) ≠ from_u16 (reg vm d) + k))) := by
  simp only [INC.execute, M.bind_apply, M.get_apply, load_register_eq vm _ hl hd, M.set_apply, M.pure_apply,
    set_zero_and_sign_eq]
  rw [store_register_eq _ d _ hl hd]
  rfl

theorem step_inc (d : Nat) (k : Int) (hd : d < 16) (hk : 1 ≤ k ∧ k ≤ 64) (vm : VM) (hwf : WF vm) :
    StepOK (.inc d k) vm := by
  obtain ⟨hres, hw, hc, hv⟩ := inc_core ((abs vm).get d) k hk
  simp only [← reg_eq_toNat hwf hd] at hres hw hc hv
  exact finish_idPost hwf hd (INC_execute_eq d k vm hwf.len hd) hres hw hc hv rfl rfl rfl

theorem DEC_execute_eq (d : Nat) (k : Int) (vm : VM) (hl : vm.registers.length = 16) (hd : d < 16) :
    DEC.execute (d : Int) k vm = .ok ((), idPost vm d ((reg vm d - k) % 65536)
      (decide (reg vm d ≥ k)) (decide (from_u16 ((reg vm d - k) % 65536) ≠ from_u16 (reg vm d) - k))) := by
  simp only [DEC.execute, M.bind_apply, M.get_apply, load_register_eq vm _ hl hd]
  rw [to_u16_eq (by omega)]
  simp only [M.lift_ok, M.set_apply, M.pure_apply, set_zero_and_sign_eq, M.bind_apply, M.get_apply]
  rw [store_register_eq _ d _ hl hd]
  rfl

theorem step_dec (d : Nat) (k : Int) (hd : d < 16) (hk : 1 ≤ k ∧ k ≤ 64) (vm : VM) (hwf : WF vm) :
    StepOK (.dec d k) vm := by
  obtain ⟨hres, hw, hc, hv⟩ := dec_core ((abs vm).get d) k hk
  simp only [← reg_eq_toNat hwf hd] at hres hw hc hv
  exact finish_idPost hwf hd (DEC_execute_eq d k vm hwf.len hd) hres hw hc hv rfl rfl rfl




/-! ### SETLO / SETHI / SAVEF : register write only -/

def setPost (vm : VM) (d : Nat) (res : Int) : VM :=
  let vm1 := stackWarn d res { vm with registers := regSet vm.registers d res }
  { vm1 with pc := vm1.pc + 1 }

theorem finish_setPost {i : Spec.Instr} {vm : VM} (hwf : WF vm) {d : Nat} (hd : d < 16) {res : Int}
    (hex : Gen.exec i.toOp.1 i.toOp.2 vm = .ok ((), setPost vm d res))
    (hr : 0 ≤ res ∧ res < 65536) {w : Spec.Word} (hw : BitVec.ofInt 16 res = w)
    (hal : i.aliased = false) (hmh : i.mulHighIn (abs vm) = false)
    (hspec : Spec.exec i (abs vm) = ((abs vm).setReg d w).next) : StepOK i vm := by
  refine finish_regwrite hwf hex hd hr (by simp [setPost]) (by simp [setPost]) (by simp [setPost]) (by simp [setPost])
    (f' := absFlags vm) ?_ hw ?_ (by simp [setPost]) (by simp [setPost]) hal hmh hspec
  · unfold setPost absFlags
    simp only [stackWarn_fs, stackWarn_fz, stackWarn_fv, stackWarn_fc, stackWarn_fcb]
  · unfold setPost; untouched_tac

theorem step_setlo (d : Nat) (v : Int) (hd : d < 16) (hv : -128 ≤ v ∧ v < 256) (vm : VM) (hwf : WF vm) :
    StepOK (.setlo d v) vm := by
  obtain ⟨hres, hw⟩ := setlo_core v hv
  have hl := hwf.len
  have hex : SETLO.execute (d : Int) v vm = .ok ((), setPost vm d
      (if (if v > 127 then v - 256 else v) < 0 then 65536 + (if v > 127 then v - 256 else v) else (if v > 127 then v - 256 else v))) := by
    unfold SETLO.execute
    by_cases h1 : v > 127
    · have e : to_u16 (v - 256) = .ok (65536 + (v - 256)) := by
        unfold to_u16
        have a1 : ¬ (v - 256 ≥ 65536) := by omega
        have a2 : ¬ (v - 256 < -32768) := by omega
        have a3 : v - 256 < 0 := by omega
        simp [a1, a2, a3]; first | rfl | exact congrArg Except.ok (by omega)
      have a3 : v - 256 < 0 := by omega
      simp only [M.bind_apply, M.get_apply, h1, decide_true, ↓reduceIte, e, M.lift_ok, a3]
      rw [store_register_eq _ d _ hl hd]
      rfl
    · have e : to_u16 v = .ok (if v < 0 then 65536 + v else v) := by
        unfold to_u16
        have a1 : ¬ (v ≥ 65536) := by omega
        have a2 : ¬ (v < -32768) := by omega
        by_cases a3 : v < 0 <;> simp [a1, a2, a3] <;> first | rfl | exact congrArg Except.ok (by omega)
      simp only [M.bind_apply, M.get_apply, h1, decide_false, Bool.false_eq_true, ↓reduceIte, e, M.lift_ok]
      rw [store_register_eq _ d _ hl hd]
      rfl
  exact finish_setPost hwf hd hex hres hw rfl rfl rfl

theorem step_sethi (d : Nat) (v : Int) (hd : d < 16) (hv : -128 ≤ v ∧ v < 256) (vm : VM) (hwf : WF vm) :
    StepOK (.sethi d v) vm := by
  obtain ⟨hres, hw⟩ := sethi_core ((abs vm).get d) v hv
  simp only [← reg_eq_toNat hwf hd] at hres hw
  have hl := hwf.len
  have hex : SETHI.execute (d : Int) v vm = .ok ((), setPost vm d (v % 256 * 256 + reg vm d % 256)) := by
    simp only [SETHI.execute, M.bind_apply, M.get_apply, load_register_eq vm _ hl hd]
    rw [store_register_eq _ d _ hl hd]
    rfl
  exact finish_setPost hwf hd hex hres hw rfl rfl rfl

theorem savef_core (s z v c cb : Bool) :
    let res : Int := Bool.toInt s + 2 * Bool.toInt z + 4 * Bool.toInt v + 8 * Bool.toInt c + 16 * Bool.toInt cb
    (0 ≤ res ∧ res < 65536) ∧ BitVec.ofInt 16 res = (Spec.Flags.mk s z v c cb).toWord := by
  cases s <;> cases z <;> cases v <;> cases c <;> cases cb <;> decide

theorem step_savef (d : Nat) (hd : d < 16) (vm : VM) (hwf : WF vm) : StepOK (.savef d) vm := by
  obtain ⟨hres, hw⟩ := savef_core vm.flag_sign vm.flag_zero vm.flag_overflow vm.flag_carry vm.flag_carry_block
  have hl := hwf.len
  have hex : SAVEF.execute (d : Int) vm = .ok ((), setPost vm d
      (Bool.toInt vm.flag_sign + 2 * Bool.toInt vm.flag_zero + 4 * Bool.toInt vm.flag_overflow + 8 * Bool.toInt vm.flag_carry + 16 * Bool.toInt vm.flag_carry_block)) := by
    simp only [SAVEF.execute, M.bind_apply, M.get_apply]
    rw [store_register_eq _ d _ hl hd]
    rfl
  exact finish_setPost hwf hd hex hres hw rfl rfl rfl




/-! ### flag instructions -/

theorem bitI (v : Int) (k : Int) (hk : 0 < k) : decide (v / k % 2 * k ≠ 0) = (v / k % 2 == 1) := by
  rw [Bool.eq_iff_iff]
  simp only [ne_eq, decide_eq_true_eq, beq_iff_eq]
  constructor
  · intro h
    have : v / k % 2 ≠ 0 := fun h0 => h (by rw [h0]; simp)
    omega
  · intro h h0
    rw [h] at h0
    omega

theorem bit0I (v : Int) : decide (v % 2 ≠ 0) = (v % 2 == 1) := by
  rw [Bool.eq_iff_iff]; simp; omega

theorem flagsOfInt_eq (v : Int) :
    Spec.flagsOfInt v = { s := decide (v % 2 ≠ 0), z := decide (v / 2 % 2 * 2 ≠ 0), v := decide (v / 4 % 2 * 4 ≠ 0),
                          c := decide (v / 8 % 2 * 8 ≠ 0), cb := decide (v / 16 % 2 * 16 ≠ 0) } := by
  unfold Spec.flagsOfInt
  rw [bit0I, bitI v 2 (by decide), bitI v 4 (by decide), bitI v 8 (by decide), bitI v 16 (by decide)]

theorem flagsOfWord_eq (w : BitVec 16) :
    Spec.flagsOfWord w = { s := decide ((w.toNat : Int) % 2 ≠ 0), z := decide ((w.toNat : Int) / 2 % 2 * 2 ≠ 0),
                           v := decide ((w.toNat : Int) / 4 % 2 * 4 ≠ 0), c := decide ((w.toNat : Int) / 8 % 2 * 8 ≠ 0),
                           cb := decide ((w.toNat : Int) / 16 % 2 * 16 ≠ 0) } := by
  unfold Spec.flagsOfWord
  have h0 := lsb_core' w
  have h1 := bit_core w 1
  have h2 := bit_core w 2
  have h3 := bit_core w 3
  have h4 := bit_core w 4
  norm_num at h1 h2 h3 h4
  simp only [ne_eq] at h0
  congr 1 <;> simp_all

theorem step_fset5 (v : Int) (vm : VM) (hwf : WF vm) : StepOK (.fset5 v) vm := by
  have hex : FSET5.execute v vm = .ok ((), { vm with
      flag_sign := decide (v % 2 ≠ 0), flag_zero := decide (v / 2 % 2 * 2 ≠ 0), flag_overflow := decide (v / 4 % 2 * 4 ≠ 0),
      flag_carry := decide (v / 8 % 2 * 8 ≠ 0), flag_carry_block := decide (v / 16 % 2 * 16 ≠ 0), pc := vm.pc + 1 }) := by
    simp only [FSET5.execute, M.bind_apply, M.get_apply, M.set_apply, M.pure_apply]
  refine finish_flags hwf hex rfl rfl rfl rfl rfl ?_ rfl rfl rfl rfl ?_
  · untouched_tac
  · simp only [Spec.exec, flagsOfInt_eq]; rfl

theorem step_fset4 (v : Int) (vm : VM) (hwf : WF vm) : StepOK (.fset4 v) vm := by
  have hex : FSET4.execute v vm = .ok ((), { vm with
      flag_sign := decide (v % 2 ≠ 0), flag_zero := decide (v / 2 % 2 * 2 ≠ 0), flag_overflow := decide (v / 4 % 2 * 4 ≠ 0),
      flag_carry := decide (v / 8 % 2 * 8 ≠ 0), pc := vm.pc + 1 }) := by
    simp only [FSET4.execute, M.bind_apply, M.get_apply, M.set_apply, M.pure_apply]
  refine finish_flags hwf hex rfl rfl rfl rfl rfl ?_ rfl rfl rfl rfl ?_
  · untouched_tac
  · simp only [Spec.exec, flagsOfInt_eq]; rfl

theorem step_fon (v : Int) (vm : VM) (hwf : WF vm) : StepOK (.fon v) vm := by
  have hex : FON.execute v vm = .ok ((), { vm with
      flag_sign := vm.flag_sign || decide (v % 2 ≠ 0), flag_zero := vm.flag_zero || decide (v / 2 % 2 * 2 ≠ 0),
      flag_overflow := vm.flag_overflow || decide (v / 4 % 2 * 4 ≠ 0),
      flag_carry := vm.flag_carry || decide (v / 8 % 2 * 8 ≠ 0),
      flag_carry_block := vm.flag_carry_block || decide (v / 16 % 2 * 16 ≠ 0), pc := vm.pc + 1 }) := by
    simp only [FON.execute, M.bind_apply, M.get_apply, M.set_apply, M.pure_apply]
  refine finish_flags hwf hex rfl rfl rfl rfl rfl ?_ rfl rfl rfl rfl ?_
  · untouched_tac
  · simp only [Spec.exec, flagsOfInt_eq]; rfl

theorem step_foff (v : Int) (vm : VM) (hwf : WF vm) : StepOK (.foff v) vm := by
  have hex : FOFF.execute v vm = .ok ((), { vm with
      flag_sign := vm.flag_sign && !decide (v % 2 ≠ 0), flag_zero := vm.flag_zero && !decide (v / 2 % 2 * 2 ≠ 0),
      flag_overflow := vm.flag_overflow && !decide (v / 4 % 2 * 4 ≠ 0),
      flag_carry := vm.flag_carry && !decide (v / 8 % 2 * 8 ≠ 0),
      flag_carry_block := vm.flag_carry_block && !decide (v / 16 % 2 * 16 ≠ 0), pc := vm.pc + 1 }) := by
    simp only [FOFF.execute, M.bind_apply, M.get_apply, M.set_apply, M.pure_apply]
  refine finish_flags hwf hex rfl rfl rfl rfl rfl ?_ rfl rfl rfl rfl ?_
  · untouched_tac
  · simp only [Spec.exec, flagsOfInt_eq]; rfl

theorem step_rstrf (d : Nat) (hd : d < 16) (vm : VM) (hwf : WF vm) : StepOK (.rstrf d) vm := by
  have hl := hwf.len
  have hex : RSTRF.execute (d : Int) vm = .ok ((), { vm with
      flag_sign := decide (reg vm d % 2 ≠ 0), flag_zero := decide (reg vm d / 2 % 2 * 2 ≠ 0),
      flag_overflow := decide (reg vm d / 4 % 2 * 4 ≠ 0), flag_carry := decide (reg vm d / 8 % 2 * 8 ≠ 0),
      flag_carry_block := decide (reg vm d / 16 % 2 * 16 ≠ 0), pc := vm.pc + 1 }) := by
    simp only [RSTRF.execute, M.bind_apply, M.get_apply, load_register_eq vm _ hl hd, M.set_apply, M.pure_apply]
  refine finish_flags hwf hex rfl rfl rfl rfl rfl ?_ rfl rfl rfl rfl ?_
  · untouched_tac
  · simp only [Spec.exec, flagsOfWord_eq, ← reg_eq_toNat hwf hd]; rfl




/-! ### LOAD / STORE -/

theorem addr_core (x : BitVec 16) (o : Int) (ho : 0 ≤ o ∧ o < 32) :
    (x + BitVec.ofInt 16 o).toNat = (((x.toNat : Int) + o) % 65536).toNat ∧
    0 ≤ ((x.toNat : Int) + o) % 65536 ∧ (((x.toNat : Int) + o) % 65536).toNat < 65536 := by
  have hx := x.isLt
  have hy := ofInt16_small_toNat (k := o) (by omega)
  refine ⟨?_, by omega, by omega⟩
  rw [BitVec.toNat_add, hy]
  omega

theorem step_load (d : Nat) (o : Int) (b : Nat) (hd : d < 16) (ho : 0 ≤ o ∧ o < 32) (hb : b < 16)
    (vm : VM) (hwf : WF vm) : StepOK (.load d o b) vm := by
  have hl := hwf.len
  obtain ⟨ha, ha0, _⟩ := addr_core ((abs vm).get b) o ho
  simp only [← reg_eq_toNat hwf hb] at ha ha0
  have hex : LOAD.execute (d : Int) o (b : Int) vm
      = .ok ((), aluPost vm d (cell vm ((reg vm b + o) % 65536).toNat)) := by
    simp only [LOAD.execute, M.bind_apply, M.get_apply, load_register_eq vm _ hl hb,
      load_memory_eq vm _ ha0, set_zero_and_sign_eq, M.set_apply, M.pure_apply]
    rw [store_register_eq _ d _ ?_ hd]
    · rfl
    · exact hl
  have hw : BitVec.ofInt 16 (cell vm ((reg vm b + o) % 65536).toNat)
      = (abs vm).mem ((abs vm).get b + BitVec.ofInt 16 o) := by
    show _ = BitVec.ofInt 16 (cell vm ((abs vm).get b + BitVec.ofInt 16 o).toNat)
    rw [ha]
  obtain ⟨h1, h2, h3, h4, h5⟩ := alu_finish vm hwf d hd _ vm.flag_carry vm.flag_overflow (cell_range hwf _) _ hw _ _ rfl rfl
  exact ⟨_, hex, h1, allowed_of_eqv rfl rfl h2, h3, fun _ => ⟨h4, h5⟩⟩

theorem step_store (d : Nat) (o : Int) (b : Nat) (hd : d < 16) (ho : 0 ≤ o ∧ o < 32) (hb : b < 16)
    (vm : VM) (hwf : WF vm) : StepOK (.store d o b) vm := by
  have hl := hwf.len
  obtain ⟨ha, ha0, halt⟩ := addr_core ((abs vm).get b) o ho
  simp only [← reg_eq_toNat hwf hb] at ha ha0 halt
  have hex : STORE.execute (d : Int) o (b : Int) vm
      = .ok ((), { vm with memory := memSet vm.memory ((reg vm b + o) % 65536).toNat (reg vm d), pc := vm.pc + 1 }) := by
    simp only [STORE.execute, M.bind_apply, M.get_apply, load_register_eq vm _ hl hb, load_register_eq vm _ hl hd,
      store_memory_eq _ _ _ ha0, M.set_apply, M.pure_apply]
  have hwf' : WF { vm with memory := memSet vm.memory ((reg vm b + o) % 65536).toNat (reg vm d), pc := vm.pc + 1 } := by
    obtain ⟨a1, a2, a3, a4, a5⟩ := hwf
    refine ⟨a1, a2, a3, ?_, ?_⟩
    · show (memSet _ _ _).length ≤ 65536
      rw [memSet_length]; omega
    · intro c hc
      rcases memSet_mem hc with h | h | h
      · exact a5 c h
      · subst h; exact reg_range ⟨a1, a2, a3, a4, a5⟩ hd
      · subst h; omega
  refine ⟨_, hex, hwf', allowed_of_eqv rfl rfl ?_, ?_, fun _ => ⟨rfl, rfl⟩⟩
  · refine ⟨fun r _ => ?_, fun a => ?_, rfl, rfl, rfl⟩
    · rw [abs_get hwf']
      show _ = (abs vm).get r
      rw [abs_get hwf]; rfl
    · show BitVec.ofInt 16 (cell _ a.toNat) = if a = (abs vm).get b + BitVec.ofInt 16 o then (abs vm).get d else (abs vm).mem a
      unfold cell
      simp only [getD_memSet]
      by_cases hx : a = (abs vm).get b + BitVec.ofInt 16 o
      · have : a.toNat = ((reg vm b + o) % 65536).toNat := by rw [hx, ha]
        simp only [this, ↓reduceIte]
        rw [if_pos hx, abs_get hwf]
      · have : a.toNat ≠ ((reg vm b + o) % 65536).toNat := by
          intro h; apply hx; apply BitVec.eq_of_toNat_eq; rw [h, ha]
        simp only [this, ↓reduceIte]
        rw [if_neg hx]; rfl
  · untouched_tac




/-! ### branches -/

/-- Generic finish for instructions that only change `pc` (and possibly `halted`). -/
theorem finish_pc {i : Spec.Instr} {vm : VM} (hwf : WF vm) (p : Int) (hlt : Bool)
    (hex : Gen.exec i.toOp.1 i.toOp.2 vm = .ok ((), { vm with pc := p, halted := hlt }))
    (hal : i.aliased = false) (hmh : i.mulHighIn (abs vm) = false)
    (hspec : Spec.exec i (abs vm) = { abs vm with pc := p, halted := hlt }) : StepOK i vm := by
  have hwf' : WF { vm with pc := p, halted := hlt } := hwf
  refine ⟨_, hex, hwf', allowed_of_eqv hal hmh ?_, ?_, fun _ => ⟨rfl, rfl⟩⟩
  · rw [hspec]
    exact ⟨fun r _ => rfl, fun a => rfl, rfl, rfl, rfl⟩
  · untouched_tac

theorem should_eq (c : Spec.Cond) (vm : VM) :
    (match c with
      | .always => BR.should | .l => BL.should | .ge => BGE.should | .le => BLE.should | .g => BG.should
      | .ule => BULE.should | .ug => BUG.should | .z => BZ.should | .nz => BNZ.should | .c => BC.should
      | .nc => BNC.should | .s => BS.should | .ns => BNS.should | .v => BV.should | .nv => BNV.should) vm
      = .ok (c.holds (absFlags vm), vm) := by
  cases c <;> simp only [BR.should, BL.should, BGE.should, BLE.should, BG.should, BULE.should, BUG.should,
    BZ.should, BNZ.should, BC.should, BNC.should, BS.should, BNS.should, BV.should, BNV.should,
    M.bind_apply, M.get_apply, M.pure_apply, Spec.Cond.holds, absFlags] <;>
    cases vm.flag_sign <;> cases vm.flag_overflow <;> cases vm.flag_zero <;> cases vm.flag_carry <;> rfl

theorem shouldR_eq (c : Spec.Cond) (vm : VM) (hc : c ≠ .always) :
    (match c with
      | .always => BLR.should | .l => BLR.should | .ge => BGER.should | .le => BLER.should | .g => BGR.should
      | .ule => BULER.should | .ug => BUGR.should | .z => BZR.should | .nz => BNZR.should | .c => BCR.should
      | .nc => BNCR.should | .s => BSR.should | .ns => BNSR.should | .v => BVR.should | .nv => BNVR.should) vm
      = .ok (c.holds (absFlags vm), vm) := by
  cases c <;> first | exact absurd rfl hc | (simp only [BLR.should, BGER.should, BLER.should, BGR.should, BULER.should, BUGR.should,
    BZR.should, BNZR.should, BCR.should, BNCR.should, BSR.should, BNSR.should, BVR.should, BNVR.should,
    M.bind_apply, M.get_apply, M.pure_apply, Spec.Cond.holds, absFlags] <;>
    cases vm.flag_sign <;> cases vm.flag_overflow <;> cases vm.flag_zero <;> cases vm.flag_carry <;> rfl)

theorem RegisterBranch_execute_eq (sh : M Bool) (vm : VM) (b : Nat) (t : Bool) (hl : vm.registers.length = 16)
    (hb : b < 16) (hsh : sh vm = .ok (t, vm)) :
    RegisterBranch.execute sh (b : Int) vm
      = .ok ((), { vm with pc := if t then reg vm b else vm.pc + 1, halted := vm.halted }) := by
  cases t <;>
    simp only [RegisterBranch.execute, M.bind_apply, M.get_apply, hsh, load_register_eq vm _ hl hb, M.set_apply,
      M.pure_apply, ↓reduceIte, Bool.false_eq_true]

theorem step_br (c : Spec.Cond) (b : Nat) (hb : b < 16) (vm : VM) (hwf : WF vm) : StepOK (.br c b) vm := by
  have hl := hwf.len
  have hsh := should_eq c vm
  apply finish_pc hwf (if c.holds (absFlags vm) then reg vm b else vm.pc + 1) vm.halted
  · have := fun sh h => RegisterBranch_execute_eq sh vm b (c.holds (absFlags vm)) hl hb h
    cases c <;> exact this _ hsh
  · rfl
  · rfl
  · simp only [Spec.exec]
    show (if c.holds (absFlags vm) = true then _ else _) = _
    rw [reg_eq_toNat hwf hb]
    cases c.holds (absFlags vm) <;> rfl

theorem signed_byte_eq (o : Int) (ho : -128 ≤ o ∧ o < 256) : signed_byte o = Spec.sbyte o := by
  unfold signed_byte Spec.sbyte
  rw [BitVec.toInt_ofInt]
  simp only [gt_iff_lt, decide_eq_true_eq]
  unfold Int.bmod
  have : ((2 ^ 8 : Nat) : Int) = 256 := by norm_num
  rw [this]
  dsimp only
  split <;> split <;> omega

theorem RelativeBranch_execute_eq (sh : M Bool) (vm : VM) (o : Int) (t : Bool) (hsh : sh vm = .ok (t, vm)) :
    RelativeBranch.execute sh o vm
      = .ok ((), { vm with pc := if t then vm.pc + signed_byte o else vm.pc + 1, halted := vm.halted }) := by
  cases t <;>
    simp only [RelativeBranch.execute, M.bind_apply, M.get_apply, hsh, M.set_apply,
      M.pure_apply, ↓reduceIte, Bool.false_eq_true]

theorem step_brr (c : Spec.Cond) (o : Int) (ho : -128 ≤ o ∧ o < 256) (vm : VM) (hwf : WF vm) :
    StepOK (.brr c o) vm := by
  by_cases hc : c = .always
  · subst hc
    by_cases h0 : o = 0
    · subst h0
      apply finish_pc hwf vm.pc true
      · show BRR.execute 0 vm = _
        simp only [BRR.execute, M.bind_apply, M.get_apply, M.set_apply, M.pure_apply]
        rfl
      · rfl
      · rfl
      · simp only [Spec.exec, and_self, ↓reduceIte]; rfl
    · apply finish_pc hwf (vm.pc + signed_byte o) vm.halted
      · show BRR.execute o vm = _
        simp only [BRR.execute, M.bind_apply, M.get_apply, M.set_apply, M.pure_apply,
          h0, ne_eq, not_false_eq_true, decide_true, ↓reduceIte]
      · rfl
      · rfl
      · simp only [Spec.exec, h0, and_false, ↓reduceIte, Spec.Cond.holds, signed_byte_eq o ho]; rfl
  · have hsh := shouldR_eq c vm hc
    apply finish_pc hwf (if c.holds (absFlags vm) then vm.pc + signed_byte o else vm.pc + 1) vm.halted
    · have := fun sh h => RelativeBranch_execute_eq sh vm o (c.holds (absFlags vm)) h
      cases c <;> first | exact absurd rfl hc | exact this _ hsh
    · rfl
    · rfl
    · simp only [Spec.exec, hc, false_and, ↓reduceIte, signed_byte_eq o ho]
      show (if c.holds (absFlags vm) = true then _ else _) = _
      cases c.holds (absFlags vm) <;> rfl



/-! ### CALL / RETURN -/

/-- one register write including the stack-warning bookkeeping -/
def wreg (vm : VM) (d : Nat) (v : Int) : VM := stackWarn d v { vm with registers := regSet vm.registers d v }

theorem store_register_wreg (vm : VM) (d : Nat) (v : Int) (hl : vm.registers.length = 16) (hd : d < 16) :
    VM.store_register (d : Int) v vm = .ok ((), wreg vm d v) := store_register_eq vm d v hl hd

section wreg
variable (vm : VM) (d : Nat) (v : Int)
@[simp] theorem wreg_registers : (wreg vm d v).registers = regSet vm.registers d v := by simp [wreg]
@[simp] theorem wreg_memory : (wreg vm d v).memory = vm.memory := by simp [wreg]
@[simp] theorem wreg_pc : (wreg vm d v).pc = vm.pc := by simp [wreg]
@[simp] theorem wreg_halted : (wreg vm d v).halted = vm.halted := by simp [wreg]
@[simp] theorem wreg_flags : absFlags (wreg vm d v) = absFlags vm := by simp [wreg, absFlags]
@[simp] theorem wreg_er : (wreg vm d v).expected_returns = vm.expected_returns := by simp [wreg]
@[simp] theorem wreg_settings : (wreg vm d v).settings = vm.settings := by simp [wreg]
theorem wreg_untouched : Untouched vm (wreg vm d v) := by unfold wreg; untouched_tac
end wreg

theorem wreg_WF {vm : VM} (h : WF vm) (d : Nat) {v : Int} (hv : 0 ≤ v ∧ v < 65536) : WF (wreg vm d v) :=
  WF_of_regwrite h hv (wreg_registers vm d v) (wreg_memory vm d v)

theorem reg_wreg {vm : VM} (hl : vm.registers.length = 16) {d : Nat} (hd : d < 16) (v : Int) (r : Nat) :
    reg (wreg vm d v) r = if r = d ∧ d ≠ 0 then v else reg vm r := by
  unfold reg
  rw [wreg_registers, getD_regSet _ _ _ _ (by omega)]

theorem Untouched.trans {a b c : VM} (h1 : Untouched a b) (h2 : Untouched b c) : Untouched a c := by
  obtain ⟨a1, a2, a3, a4, a5, a6, a7, a8, a9, a10, a11, ws1, e1, w1⟩ := h1
  obtain ⟨b1, b2, b3, b4, b5, b6, b7, b8, b9, b10, b11, ws2, e2, w2⟩ := h2
  refine ⟨b1.trans a1, b2.trans a2, b3.trans a3, b4.trans a4, b5.trans a5, b6.trans a6, b7.trans a7, b8.trans a8,
    b9.trans a9, b10.trans a10, b11.trans a11, ws1 ++ ws2, ?_, ?_⟩
  · rw [e2, e1, List.append_assoc]
  · intro e he
    rcases List.mem_append.mp he with h | h
    · exact w1 e h
    · exact w2 e h

/-- final state of `CALL_AND_RETURN.execute` -/
def carPost (vm : VM) (a b : Nat) : VM :=
  let vm1 := wreg { vm with pc := reg vm b } b (vm.pc + 1)
  let vm2 := wreg vm1 14 (reg vm1 a)
  wreg vm2 a (reg vm1 14)

theorem CAR_execute_eq (vm : VM) (a b : Nat) (hl : vm.registers.length = 16) (ha : a < 16) (hb : b < 16) :
    CALL_AND_RETURN.execute (a : Int) (b : Int) vm = .ok ((), carPost vm a b) := by
  have h14 : (14 : Int) = ((14 : Nat) : Int) := rfl
  simp only [CALL_AND_RETURN.execute, M.bind_apply, M.get_apply, load_register_eq vm _ hl hb, M.set_apply]
  rw [store_register_wreg { vm with pc := reg vm b } b _ hl hb]
  simp only [M.pure_apply]
  have hl1 : (wreg { vm with pc := reg vm b } b (vm.pc + 1)).registers.length = 16 := by
    rw [wreg_registers, regSet_length]; exact hl
  rw [h14, load_register_eq _ 14 hl1 (by decide)]
  simp only []
  rw [load_register_eq _ a hl1 ha]
  simp only []
  rw [store_register_wreg _ 14 _ hl1 (by decide)]
  simp only []
  have hl2 : (wreg (wreg { vm with pc := reg vm b } b (vm.pc + 1)) 14 (reg (wreg { vm with pc := reg vm b } b (vm.pc + 1)) a)).registers.length = 16 := by
    rw [wreg_registers, regSet_length]; exact hl1
  rw [store_register_wreg _ a _ hl2 ha]
  rfl

theorem car_ok (vm : VM) (hwf : WF vm) (a b : Nat) (ha : a < 16) (hb : b < 16) (hpc : 0 ≤ vm.pc ∧ vm.pc < 65535) :
    WF (carPost vm a b) ∧ Untouched vm (carPost vm a b) ∧
    (carPost vm a b).expected_returns = vm.expected_returns ∧ (carPost vm a b).settings = vm.settings ∧
    (b ≠ a → b ≠ 14 → Spec.State.Eqv (abs (carPost vm a b)) (Spec.exec (.call a b) (abs vm))) := by
  have hl := hwf.len
  have hwf0 : WF { vm with pc := reg vm b } := hwf
  have hwf1 : WF (wreg { vm with pc := reg vm b } b (vm.pc + 1)) := wreg_WF hwf0 b (by omega)
  have hwf2 := wreg_WF hwf1 14 (reg_range hwf1 ha)
  have hwf3 := wreg_WF hwf2 a (reg_range hwf1 (by decide : 14 < 16))
  refine ⟨hwf3, ?_, by simp [carPost], by simp [carPost], ?_⟩
  · have u0 : Untouched vm { vm with pc := reg vm b } := by untouched_tac
    exact u0.trans ((wreg_untouched _ _ _).trans ((wreg_untouched _ _ _).trans (wreg_untouched _ _ _)))
  · intro hba hb14
    have hl1 := hwf1.len
    have hl2 := hwf2.len
    have r1 : ∀ r, reg (wreg { vm with pc := reg vm b } b (vm.pc + 1)) r = if r = b ∧ b ≠ 0 then vm.pc + 1 else reg vm r := by
      intro r; rw [reg_wreg (vm := { vm with pc := reg vm b }) hl hb]; rfl
    have r1a : reg (wreg { vm with pc := reg vm b } b (vm.pc + 1)) a = reg vm a := by
      rw [r1]; simp [Ne.symm hba]
    have r114 : reg (wreg { vm with pc := reg vm b } b (vm.pc + 1)) 14 = reg vm 14 := by
      rw [r1]; simp [Ne.symm hb14]
    refine ⟨fun r _ => ?_, fun x => ?_, ?_, ?_, ?_⟩
    · have hwf3' : WF (carPost vm a b) := hwf3
      rw [abs_get hwf3']
      show BitVec.ofInt 16 (reg (wreg (wreg _ 14 _) a _) r) = _
      rw [reg_wreg hl2 ha, reg_wreg hl1 (by decide)]
      simp only [r1]
      simp only [Spec.exec, get_setReg]
      rw [abs_get hwf, abs_get hwf]
      have n1 : ¬ (14 = b ∧ b ≠ 0) := fun h => hb14 h.1.symm
      have n2 : ¬ (a = b ∧ b ≠ 0) := fun h => hba h.1.symm
      by_cases h1 : r = a ∧ a ≠ 0
      · simp [h1, n1]
      · by_cases h2 : r = 14
        · subst h2; simp [h1, n2]
        · by_cases h3 : r = b ∧ b ≠ 0
          · obtain ⟨rfl, hb0⟩ := h3
            simp [hba, hb14, hb0]
            rfl
          · simp only [h1, h2, h3, ↓reduceIte, false_and]
            exact (abs_get hwf r).symm
    · show (abs (carPost vm a b)).mem x = (Spec.exec (.call a b) (abs vm)).mem x
      have e1 : (abs (carPost vm a b)).mem x = (abs vm).mem x := by
        simp [abs, cell, carPost]
      rw [e1]
      simp only [Spec.exec]
      unfold Spec.State.setReg
      split <;> split <;> split <;> rfl
    · show absFlags (carPost vm a b) = (Spec.exec (.call a b) (abs vm)).fl
      have e1 : absFlags (carPost vm a b) = absFlags vm := by
        unfold carPost
        simp only [wreg_flags]
        rfl
      rw [e1]
      simp only [Spec.exec]
      unfold Spec.State.setReg
      split <;> split <;> split <;> rfl
    · show (carPost vm a b).pc = (Spec.exec (.call a b) (abs vm)).pc
      have e1 : (carPost vm a b).pc = reg vm b := by simp [carPost]
      rw [e1, reg_eq_toNat hwf hb]
      simp only [Spec.exec]
      unfold Spec.State.setReg
      split <;> split <;> split <;> rfl
    · show (carPost vm a b).halted = (Spec.exec (.call a b) (abs vm)).halted
      have e1 : (carPost vm a b).halted = vm.halted := by simp [carPost]
      rw [e1]
      simp only [Spec.exec]
      unfold Spec.State.setReg
      split <;> split <;> split <;> rfl


theorem allowed_callret {i : Spec.Instr} {σ σ' : Spec.State} (a b : Nat)
    (hi : i = .call a b ∨ i = .ret a b)
    (h : b ≠ a → b ≠ 14 → Spec.State.Eqv σ' (Spec.exec (.call a b) σ)) : Spec.allowed i σ σ' := by
  unfold Spec.allowed
  by_cases hal : i.aliased = true
  · simp [hal]
  · have hmh : i.mulHighIn σ = false := by rcases hi with rfl | rfl <;> rfl
    simp only [hal, hmh, Bool.false_eq_true, ↓reduceIte]
    have hne : b ≠ a ∧ b ≠ 14 := by
      rcases hi with rfl | rfl <;> simpa [Spec.Instr.aliased] using hal
    have hx : Spec.exec i σ = Spec.exec (.call a b) σ := by rcases hi with rfl | rfl <;> rfl
    rw [hx]
    exact h hne.1 hne.2

theorem bind_unit_eta (x : M Unit) (s : VM) :
    (match x s with
      | Except.ok (_, vm') => (Except.ok ((), vm') : Except PyErr (Unit × VM))
      | Except.error e => Except.error e) = x s := by
  cases h : x s with
  | error e => rfl
  | ok p => cases p; rfl

theorem step_call (a b : Nat) (ha : a < 16) (hb : b < 16) (vm : VM) (hwf : WF vm)
    (hpc : 0 ≤ vm.pc ∧ vm.pc < 65535) : StepOK (.call a b) vm := by
  have hl := hwf.len
  have hwf0 : WF { vm with expected_returns := vm.expected_returns ++ [(reg vm b, vm.pc + 1)] } := hwf
  have hex : CALL.execute (a : Int) (b : Int) vm
      = .ok ((), carPost { vm with expected_returns := vm.expected_returns ++ [(reg vm b, vm.pc + 1)] } a b) := by
    simp only [CALL.execute, M.bind_apply, M.get_apply, load_register_eq vm _ hl hb, M.set_apply]
    rw [CAR_execute_eq { vm with expected_returns := vm.expected_returns ++ [(reg vm b, vm.pc + 1)] } a b hl ha hb]
    rfl
  obtain ⟨h1, h2, _, _, h5⟩ := car_ok _ hwf0 a b ha hb hpc
  have u0 : Untouched vm { vm with expected_returns := vm.expected_returns ++ [(reg vm b, vm.pc + 1)] } := by
    untouched_tac
  exact ⟨_, hex, h1, allowed_callret a b (Or.inl rfl) h5, u0.trans h2, fun h => by simp [Spec.Instr.isCallRet] at h⟩

macro "untouched_warn_tac" : tactic =>
  `(tactic| (unfold Untouched VM.emit
             exact ⟨rfl, rfl, rfl, rfl, rfl, rfl, rfl, rfl, rfl, rfl, rfl, [_], rfl, by simp [OutEvent.isWarning]⟩))

theorem untouched_warn (vm : VM) (msg : Str) (er : List (Int × Int)) :
    Untouched vm { (VM.emit { vm with expected_returns := er } (.warning msg vm.location)) with
      settings := { vm.settings with warning_count := vm.settings.warning_count + 1 } } := by
  unfold Untouched VM.emit
  refine ⟨rfl, rfl, rfl, rfl, rfl, rfl, rfl, rfl, rfl, rfl, rfl, [_], rfl, ?_⟩
  simp [OutEvent.isWarning]

theorem RETURN_execute_eq (a b : Nat) (vm : VM) (hl : vm.registers.length = 16) (ha : a < 16) (hb : b < 16) :
    ∃ vm0, RETURN.execute (a : Int) (b : Int) vm = .ok ((), carPost vm0 a b) ∧
      vm0.registers = vm.registers ∧ vm0.memory = vm.memory ∧ absFlags vm0 = absFlags vm ∧ vm0.pc = vm.pc ∧
      vm0.halted = vm.halted ∧ Untouched vm vm0 := by
  unfold RETURN.execute
  simp only [M.bind_apply, M.get_apply, load_register_eq vm _ hl hb]
  by_cases hw : vm.settings.warn_return_on = true
  · simp only [hw, ↓reduceIte]
    by_cases he : vm.expected_returns.isEmpty = true
    · simp only [he, Bool.not_true, Bool.false_eq_true, ↓reduceIte, M.bind_apply, M.set_apply, M.get_apply, M.pure_apply]
      rw [CAR_execute_eq _ a b ?_ ha hb]
      · refine Exists.intro ?v1 (And.intro ?q1 ?r1)
        case q1 => rfl
        case r1 => exact ⟨rfl, rfl, rfl, rfl, rfl, by untouched_warn_tac⟩
      · exact hl
    · have he' : vm.expected_returns.isEmpty = false := by simpa using he
      obtain ⟨x, hx⟩ : ∃ x, vm.expected_returns.getLast? = some x := by
        cases hxl : vm.expected_returns.getLast? with
        | none => rw [List.getLast?_eq_none_iff] at hxl; simp [hxl] at he'
        | some x => exact ⟨x, rfl⟩
      simp only [he', Bool.not_false, ↓reduceIte, Py.listPop, hx, M.bind_apply, M.lift_ok, M.set_apply, M.get_apply]
      by_cases hne : x.2 ≠ reg vm b
      · simp only [hne, ne_eq, not_false_eq_true, decide_true, ↓reduceIte, M.bind_apply, M.set_apply, M.get_apply, M.pure_apply]
        rw [CAR_execute_eq _ a b ?_ ha hb]
        · refine Exists.intro ?v2 (And.intro ?q2 ?r2)
          case q2 => rfl
          case r2 => exact ⟨rfl, rfl, rfl, rfl, rfl, by untouched_warn_tac⟩
        · exact hl
      · simp only [hne, decide_false, Bool.false_eq_true, ↓reduceIte, M.bind_apply, M.get_apply, M.pure_apply]
        rw [CAR_execute_eq _ a b ?_ ha hb]
        · refine Exists.intro ?v3 (And.intro ?q3 ?r3)
          case q3 => rfl
          case r3 => exact ⟨rfl, rfl, rfl, rfl, rfl, by untouched_tac⟩
        · exact hl
  · simp only [hw, Bool.false_eq_true, ↓reduceIte, M.bind_apply, M.get_apply, M.pure_apply]
    rw [CAR_execute_eq _ a b ?_ ha hb]
    · refine Exists.intro ?v4 (And.intro ?q4 ?r4)
      case q4 => rfl
      case r4 => exact ⟨rfl, rfl, rfl, rfl, rfl, by untouched_tac⟩
    · exact hl

theorem step_ret (a b : Nat) (ha : a < 16) (hb : b < 16) (vm : VM) (hwf : WF vm)
    (hpc : 0 ≤ vm.pc ∧ vm.pc < 65535) : StepOK (.ret a b) vm := by
  have hl := hwf.len
  obtain ⟨vm0, hex, e1, e2, e3, e4, e5, u0⟩ := RETURN_execute_eq a b vm hl ha hb
  have hwf0 : WF vm0 := by
    obtain ⟨w1, w2, w3, w4, w5⟩ := hwf
    exact ⟨by rw [e1]; exact w1, by rw [e1]; exact w2, by rw [e1]; exact w3, by rw [e2]; exact w4, by rw [e2]; exact w5⟩
  have habs : abs vm0 = abs vm := by
    unfold abs reg cell
    rw [e1, e2, e3, e4, e5]
  obtain ⟨h1, h2, _, _, h5⟩ := car_ok vm0 hwf0 a b ha hb (by rw [e4]; exact hpc)
  rw [habs] at h5
  exact ⟨_, hex, h1, allowed_callret a b (Or.inr rfl) h5, u0.trans h2, fun h => by simp [Spec.Instr.isCallRet] at h⟩


/-! ### the property -/

/-- **C01.** Every valid architecture instruction, executed by the translated implementation from any
    well-formed machine state, does not raise, leaves a well-formed state, has exactly the effect that
    `Spec.exec` prescribes (up to the points the definition leaves open: carry/overflow of MUL in
    high-word mode, CALL/RETURN with aliased operand registers) and changes nothing else.
    For CALL/RETURN the return address `pc+1` must be a 16-bit value. -/
theorem C01_step (i : Spec.Instr) (hv : i.Valid) (vm : VM) (hwf : WF vm)
    (hpc : i.isCallRet = true → 0 ≤ vm.pc ∧ vm.pc < 65535) : StepOK i vm := by
  cases i with
  | setlo d v => exact step_setlo d v hv.1 hv.2 vm hwf
  | sethi d v => exact step_sethi d v hv.1 hv.2 vm hwf
  | alu3 op d a b =>
    obtain ⟨hd, ha, hb⟩ := hv
    cases op with
    | and => exact step_and d a b hd ha hb vm hwf
    | or => exact step_or d a b hd ha hb vm hwf
    | add => exact step_add d a b hd ha hb vm hwf
    | sub => exact step_sub d a b hd ha hb vm hwf
    | mul => exact step_mul d a b hd ha hb vm hwf
    | xor => exact step_xor d a b hd ha hb vm hwf
  | inc d k => exact step_inc d k hv.1 hv.2 vm hwf
  | dec d k => exact step_dec d k hv.1 hv.2 vm hwf
  | shift op d b =>
    obtain ⟨hd, hb⟩ := hv
    cases op with
    | lsl => exact step_lsl d b hd hb vm hwf
    | lsr => exact step_lsr d b hd hb vm hwf
    | lsl8 => exact step_lsl8 d b hd hb vm hwf
    | lsr8 => exact step_lsr8 d b hd hb vm hwf
    | asl => exact step_asl d b hd hb vm hwf
    | asr => exact step_asr d b hd hb vm hwf
  | savef d => exact step_savef d hv vm hwf
  | rstrf d => exact step_rstrf d hv vm hwf
  | fon v => exact step_fon v vm hwf
  | foff v => exact step_foff v vm hwf
  | fset5 v => exact step_fset5 v vm hwf
  | fset4 v => exact step_fset4 v vm hwf
  | load d o b => exact step_load d o b hv.1 ⟨hv.2.1, hv.2.2.1⟩ hv.2.2.2 vm hwf
  | store d o b => exact step_store d o b hv.1 ⟨hv.2.1, hv.2.2.1⟩ hv.2.2.2 vm hwf
  | br c b => exact step_br c b hv vm hwf
  | brr c o => exact step_brr c o hv vm hwf
  | call a b => exact step_call a b hv.1 hv.2 vm hwf (hpc rfl)
  | ret a b => exact step_ret a b hv.1 hv.2 vm hwf (hpc rfl)

/-- A representative architecture instruction for each hera-py class. -/
def reprInstr : Cls → Option Spec.Instr
  | .SETLO => some (.setlo 0 0) | .SETHI => some (.sethi 0 0)
  | .AND => some (.alu3 .and 0 0 0) | .OR => some (.alu3 .or 0 0 0) | .ADD => some (.alu3 .add 0 0 0)
  | .SUB => some (.alu3 .sub 0 0 0) | .MUL => some (.alu3 .mul 0 0 0) | .XOR => some (.alu3 .xor 0 0 0)
  | .INC => some (.inc 0 1) | .DEC => some (.dec 0 1)
  | .LSL => some (.shift .lsl 0 0) | .LSR => some (.shift .lsr 0 0) | .LSL8 => some (.shift .lsl8 0 0)
  | .LSR8 => some (.shift .lsr8 0 0) | .ASL => some (.shift .asl 0 0) | .ASR => some (.shift .asr 0 0)
  | .SAVEF => some (.savef 0) | .RSTRF => some (.rstrf 0)
  | .FON => some (.fon 0) | .FOFF => some (.foff 0) | .FSET5 => some (.fset5 0) | .FSET4 => some (.fset4 0)
  | .LOAD => some (.load 0 0 0) | .STORE => some (.store 0 0 0)
  | .BR => some (.br .always 0) | .BL => some (.br .l 0) | .BGE => some (.br .ge 0) | .BLE => some (.br .le 0)
  | .BG => some (.br .g 0) | .BULE => some (.br .ule 0) | .BUG => some (.br .ug 0) | .BZ => some (.br .z 0)
  | .BNZ => some (.br .nz 0) | .BC => some (.br .c 0) | .BNC => some (.br .nc 0) | .BS => some (.br .s 0)
  | .BNS => some (.br .ns 0) | .BV => some (.br .v 0) | .BNV => some (.br .nv 0)
  | .BRR => some (.brr .always 0) | .BLR => some (.brr .l 0) | .BGER => some (.brr .ge 0) | .BLER => some (.brr .le 0)
  | .BGR => some (.brr .g 0) | .BULER => some (.brr .ule 0) | .BUGR => some (.brr .ug 0) | .BZR => some (.brr .z 0)
  | .BNZR => some (.brr .nz 0) | .BCR => some (.brr .c 0) | .BNCR => some (.brr .nc 0) | .BSR => some (.brr .s 0)
  | .BNSR => some (.brr .ns 0) | .BVR => some (.brr .v 0) | .BNVR => some (.brr .nv 0)
  | .CALL => some (.call 0 0) | .RETURN => some (.ret 0 0)
  | _ => none

/-- **C01 coverage.** Every class of the (regenerated) class table that has a machine encoding, other than
    the interrupt instructions hera-py does not execute, is the image of an architecture instruction, so
    `C01_step` speaks about every real opcode. -/
theorem C01_covers :
    ∀ c ∈ Cls.all, c.BITV ≠ [] → c ≠ .SWI → c ≠ .RTI → ∃ i, reprInstr c = some i ∧ i.toOp.1 = c := by
  decide

/-- Non-vacuity: the freshly reset machine is well-formed, and so is a machine in the middle of a run. -/
example : WF {} := by unfold WF; decide
example : WF { registers := [0, 65535, 32768, 7, 0, 0, 0, 0, 0, 0, 0, 0, 0, 0, 49153, 49000],
               memory := [1, 2, 65535], flag_carry := true, pc := 17 } := by unfold WF; decide

end Hera
