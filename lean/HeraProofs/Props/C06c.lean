import HeraProofs.Props.C06b
import HeraProofs.Props.C05c
/-
  C06, continued — closing the gap between "the table words" and "what the assembler emits": for every list of valid
  instructions the regenerated `assemble` methods (hera/op.py) emit, operation by operation, exactly the bytes of the
  table image (C05_assemble_is_table), and the word machine running the words so emitted behaves, for every number of
  steps, like the instruction list (C06_image_run). What remains outside the theorems is that the interpreter refines
  `Spec.exec` (C01_step) and the file format around the words (translation validation per run).
-/
namespace Hera
open Spec

/-- the two bytes the regenerated `assemble` emits for each instruction of a program -/
def assembled (prog : List Instr) : List (Except PyErr (Option (List Int))) :=
  prog.map (fun i => Gen.assemble i.toOp.1 i.toOp.2)

/-- **C06 (the assembler emits the image).** -/
theorem C06_assembled_is_image (prog : List Instr) (hv : ∀ i ∈ prog, i.Valid) :
    assembled prog = (image prog).map (fun w => .ok (some (bytesOf w))) := by
  unfold assembled image
  rw [List.map_map]
  apply List.map_congr_left
  intro i hi
  exact C05_assemble_is_table (.instr i) (hv i hi)

/-- the word two emitted bytes stand for -/
def wordOfBytes : Except PyErr (Option (List Int)) → Option Nat
  | .ok (some [hi, lo]) => some (hi.toNat * 256 + lo.toNat)
  | _ => none

theorem wordOfBytes_bytesOf (w : Nat) : wordOfBytes (.ok (some (bytesOf w))) = some w := by
  simp only [wordOfBytes, bytesOf, Int.toNat_natCast]
  congr 1
  omega

/-- **C06 (assembled code runs like the source instructions).** The words read back from what the regenerated `assemble`
    emits for a program of valid instructions, run by the word machine, end - for every start state and every number
    of steps - in the state the instruction list ends in. -/
theorem C06_assembled_run (prog : List Instr) (hv : ∀ i ∈ prog, i.Valid) (n : Nat) (σ : State) :
    (assembled prog).map wordOfBytes = (image prog).map some ∧
      wordRun (image prog) n σ = instrRun prog n σ := by
  refine ⟨?_, C06_image_run prog hv n σ⟩
  rw [C06_assembled_is_image prog hv, List.map_map]
  apply List.map_congr_left
  intro w _
  exact wordOfBytes_bytesOf w

example : (∀ i ∈ [Instr.setlo 1 5, Instr.alu3 .add 2 1 1], i.Valid) := by decide

end Hera
