import HeraProofs.Props.C07c
/-
  C07, continued — nothing is dropped silently: messages are only ever added, and whenever the parser model gives up on
  an argument list (the operation is then left out of the program) at least one error has been recorded on the way.
-/
namespace Hera
namespace Parse
open Lex

/-- messages only grow: `a` is a prefix of `b` in both lists -/
def Grows (a b : Msgs) : Prop := a.errors.length ≤ b.errors.length

theorem grows_refl (m : Msgs) : Grows m m := Nat.le_refl _
theorem grows_trans {a b c : Msgs} (h1 : Grows a b) (h2 : Grows b c) : Grows a c := Nat.le_trans h1 h2
theorem grows_err (m : Msgs) (s : String) (o : Nat) : Grows m (m.err s o) := by simp [Grows, Msgs.err]
theorem grows_warn (m : Msgs) (s : String) (o : Nat) : Grows m (m.warn s o) := by simp [Grows, Msgs.warn]
theorem err_lt (m : Msgs) (s : String) (o : Nat) : m.errors.length < (m.err s o).errors.length := by simp [Msgs.err]

theorem expect_grows (types : List Kind) (msg : String) (ts : List Token) (m : Msgs) : Grows m (expect types msg ts m).2 := by
  unfold expect
  simp only
  split
  · exact grows_refl _
  · split
    · exact grows_err _ _ _
    · split <;> exact grows_err _ _ _

/-- a failed `expect` has recorded an error -/
theorem expect_fail_lt (types : List Kind) (msg : String) (ts : List Token) (m : Msgs)
    (h : (expect types msg ts m).1 = false) : m.errors.length < (expect types msg ts m).2.errors.length := by
  have hn := expect_not_ok types msg ts m h
  unfold expect
  simp only [hn, Bool.false_eq_true, ↓reduceIte]
  split
  · exact err_lt _ _ _
  · split <;> exact err_lt _ _ _

theorem matchInt_grows (t : Token) (w : Bool) (m : Msgs) : Grows m (matchInt t w m).2 := by
  unfold matchInt
  simp only
  have hw : Grows m (if (zeroPrefixed t.value && w) = true then m.warn "consider using \"0o\" prefix for octal numbers" t.off else m) := by
    split
    · exact grows_warn _ _ _
    · exact grows_refl _
  split
  · exact hw
  · exact grows_trans hw (grows_err _ _ _)

theorem matchValue_grows (ts : List Token) (w : Bool) (m : Msgs) : Grows m (matchValue ts w m).2.2 := by
  unfold matchValue
  simp only
  split
  · exact matchInt_grows _ _ _
  · exact grows_refl _
  · split
    · exact grows_refl _
    · exact grows_err _ _ _
  · split
    · exact grows_trans (expect_grows _ _ _ _) (matchInt_grows _ _ _)
    · exact expect_grows _ _ _ _
  · exact grows_refl _
  · exact grows_refl _

/-- no value although a value token was there: an error has been recorded (the minus sign without an integer) -/
theorem matchValue_none_lt (ts : List Token) (w : Bool) (m : Msgs) (h : (matchValue ts w m).1 = none) :
    m.errors.length < (matchValue ts w m).2.2.errors.length := by
  unfold matchValue at h ⊢
  simp only at h ⊢
  generalize (cur ts).kind = k at h ⊢
  cases k <;> simp only at h ⊢ <;> try (simp at h; done)
  · -- register
    split at h <;> simp at h
  · -- minus
    by_cases hok : (expect [Kind.int] "expected integer" (next ts) m).1 = true
    · simp [hok] at h
    · simp only [hok, Bool.false_eq_true, ↓reduceIte]
      exact expect_fail_lt _ _ _ _ (by simpa using hok)


/-- what one trip round the argument loop does to the messages: they grow, and the error flag is only raised together
    with an error message -/
def ArgStepMsgs (hit : Bool) (m : Msgs) : ArgStep → Prop
  | .done _ hit' _ m' => Grows m m' ∧ (hit' = true → hit = true ∨ m.errors.length < m'.errors.length)
  | .again _ hit' _ m' => Grows m m' ∧ (hit' = true → hit = true ∨ m.errors.length < m'.errors.length)

theorem argStep_msgs (w : Bool) (ts : List Token) (args : List Tok) (hit : Bool) (m : Msgs) :
    ArgStepMsgs hit m (argStep w ts args hit m) := by
  unfold argStep
  generalize he : expect valueKinds "expected value" ts m = e
  obtain ⟨ok, m1⟩ := e
  have hg1 : Grows m m1 := by have := expect_grows valueKinds "expected value" ts m; rw [he] at this; exact this
  have tailNone : ∀ (ts0 : List Token) (m2 : Msgs), m.errors.length < m2.errors.length →
      ArgStepMsgs hit m (if ((cur (skipUntil [.comma, .rparen] ts0)).kind == .comma) = true
        then ArgStep.again args true (next (skipUntil [.comma, .rparen] ts0)) m2
        else ArgStep.done args true (skipUntil [.comma, .rparen] ts0) m2) := by
    intro ts0 m2 hlt
    split <;> exact ⟨Nat.le_of_lt hlt, fun _ => Or.inr hlt⟩
  cases ok with
  | false =>
    simp only [Bool.false_eq_true, ↓reduceIte]
    have := expect_fail_lt valueKinds "expected value" ts m (by rw [he])
    rw [he] at this
    exact tailNone ts m1 this
  | true =>
    simp only [↓reduceIte]
    have hg2 := matchValue_grows ts w m1
    have hn := matchValue_none_lt ts w m1
    generalize matchValue ts w m1 = r at hg2 hn
    obtain ⟨val, ts0, m2⟩ := r
    simp only at hg2 hn
    have hg : Grows m m2 := grows_trans hg1 hg2
    cases val with
    | none => exact tailNone ts0 m2 (Nat.lt_of_le_of_lt hg1 (hn rfl))
    | some v =>
      simp only
      split
      · exact ⟨hg, fun h => Or.inl h⟩
      · split
        · have hlt : m.errors.length < (m2.err "expected comma or right parenthesis" (cur (next ts0)).off).errors.length :=
            Nat.lt_of_le_of_lt hg (err_lt _ _ _)
          split <;> exact ⟨Nat.le_of_lt hlt, fun _ => Or.inr hlt⟩
        · exact ⟨hg, fun h => Or.inl h⟩

theorem argLoop_msgs (w : Bool) (ts : List Token) (args : List Tok) (hit : Bool) (m : Msgs) :
    Grows m (argLoop w ts args hit m).2.2.2 ∧
      ((argLoop w ts args hit m).2.1 = true → hit = true ∨ m.errors.length < (argLoop w ts args hit m).2.2.2.errors.length) := by
  induction h : ts.length using Nat.strong_induction_on generalizing ts args hit m with
  | _ n ih =>
    subst h
    rw [argLoop]
    have hs := argStep_msgs w ts args hit m
    have hk := argStep_ok w ts args hit m
    generalize argStep w ts args hit m = st at hs hk
    cases st with
    | done a b ts' m' => simpa [ArgStepMsgs] using hs
    | again a b ts' m' =>
      obtain ⟨hg, hh⟩ := hs
      obtain ⟨hlt, _⟩ := hk
      simp only [hlt, ↓reduceDIte]
      obtain ⟨ig, ihh⟩ := ih ts'.length hlt ts' a b m' rfl
      refine ⟨grows_trans hg ig, fun hr => ?_⟩
      rcases ihh hr with hb | hl
      · rcases hh hb with h1 | h2
        · exact Or.inl h1
        · exact Or.inr (Nat.lt_of_lt_of_le h2 ig)
      · exact Or.inr (Nat.lt_of_le_of_lt hg hl)

/-- an argument list that could not be parsed has left an error message -/
theorem matchArglist_none_lt (w : Bool) (ts : List Token) (m : Msgs) (h : (matchArglist w ts m).1 = none) :
    m.errors.length < (matchArglist w ts m).2.2.errors.length := by
  unfold matchArglist at h ⊢
  split at h
  · simp at h
  · rename_i hc
    simp only [hc, Bool.false_eq_true, ↓reduceIte] at h ⊢
    have := argLoop_msgs w ts [] false m
    generalize argLoop w ts [] false m = r at this h ⊢
    obtain ⟨a, b, c, d⟩ := r
    simp only at this h ⊢
    cases b with
    | false => simp at h
    | true =>
      rcases this.2 rfl with h1 | h2
      · cases h1
      · exact h2

theorem matchArglist_grows (w : Bool) (ts : List Token) (m : Msgs) : Grows m (matchArglist w ts m).2.2 := by
  unfold matchArglist
  split
  · exact grows_refl _
  · have := argLoop_msgs w ts [] false m
    generalize argLoop w ts [] false m = r at this ⊢
    obtain ⟨a, b, c, d⟩ := r
    exact this.1

/-- **C07 (nothing is dropped silently).** Whenever the parser model leaves an operation out of the program - its argument
    list could not be parsed, or its name is not an operation - at least one error message has been added. -/
theorem C07_dropped_op_reports (w : Bool) (t : Token) (ts : List Token) (m : Msgs) (h : (matchOp w t ts m).1 = none) :
    m.errors.length < (matchOp w t ts m).2.2.errors.length := by
  unfold matchOp at h ⊢
  have hn := matchArglist_none_lt w (next ts) m
  have hg := matchArglist_grows w (next ts) m
  simp only at h ⊢
  split
  · rename_i heq
    exact hn heq
  · rename_i a heq
    rw [heq] at h
    simp only at h
    split
    · rename_i hk
      simp [hk] at h
    · exact Nat.lt_of_le_of_lt hg (err_lt _ _ _)

end Parse
end Hera
