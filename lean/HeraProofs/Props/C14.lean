import HeraModel.Model.MiniParser
/-
  C14 — the debugger's expression language means ordinary bounded integer arithmetic.

  `C14_eval`: `Shell.evaluate_node` (model `Mini.evaluateNode`) computes exactly `Expr.eval` on every expression and every
  debugger state: the same value, or the same kind of error, for every tree shape and every operand value.
  `C14_eval_range`: a value that is returned lies in -32768..65535 whenever the registers, cells, symbols and pc that the
  expression can observe do.
  `C14_eval_total` is implicit: `evaluateNode` is a total Lean function with results in `Except EvalErr Int`, there is no
  third outcome (the RuntimeError branches of the Python are unreachable for parser-produced trees — see `toNode_ops`).
-/
namespace Hera
open Expr Mini

theorem inRange_iff (v : Int) : inRange v = true ↔ (-32768 ≤ v ∧ v < 65536) := by
  simp [inRange]

private theorem range_guard (v : Int) :
    (if v < -32768 ∨ v ≥ 65536 then (throw EvalErr.overflow : Except EvalErr Int) else pure v)
      = (if inRange v then pure v else throw EvalErr.overflow) := by
  by_cases h : inRange v = true
  · have := (inRange_iff v).1 h
    rw [if_neg (by omega), if_pos h]
  · have h' : ¬ (-32768 ≤ v ∧ v < 65536) := fun c => h ((inRange_iff v).2 c)
    rw [if_pos (by omega), if_neg h]

theorem C14_eval (env : Env) (e : E) : evaluateNode env (toNode e) = Expr.eval env e := by
  induction e with
  | lit v =>
    simp only [toNode, evaluateNode, Expr.eval]
    by_cases h : inRange v = true
    · have := (inRange_iff v).1 h
      rw [if_neg (by omega), if_pos h]
    · have h' : ¬ (-32768 ≤ v ∧ v < 65536) := fun c => h ((inRange_iff v).2 c)
      rw [if_pos (by omega), if_neg h]
  | reg i => simp [toNode, evaluateNode, Expr.eval]
  | sym s =>
    simp only [toNode, evaluateNode, Expr.eval]
    by_cases hp : (Cli.lower s == Str.ofString "pc") = true
    · rw [if_pos hp, if_pos hp]
    · rw [if_neg hp, if_neg hp]; cases env.sym s <;> rfl
  | neg e ih =>
    simp only [toNode, evaluateNode, Expr.eval, ih]
    cases Expr.eval env e with
    | error x => rfl
    | ok a =>
      show (if -a < -32768 ∨ -a ≥ 65536 then (throw EvalErr.overflow : Except EvalErr Int) else pure (-a)) = _
      rw [range_guard]; rfl
  | deref e ih =>
    simp only [toNode, evaluateNode, Expr.eval, ih]
    cases Expr.eval env e with
    | error x => rfl
    | ok a =>
      show (if a ≥ 65536 ∨ a < -32768 then (throw EvalErr.overflow : Except EvalErr Int)
            else pure (env.mem (if a < 0 then 65536 + a else a).toNat))
          = (if inRange a then pure (env.mem (a % 65536).toNat) else throw EvalErr.overflow)
      by_cases h : inRange a = true
      · have hr := (inRange_iff a).1 h
        rw [if_neg (by omega), if_pos h]
        congr 2
        by_cases hn : a < 0
        · rw [if_pos hn]; omega
        · rw [if_neg hn]; omega
      · have h' : ¬ (-32768 ≤ a ∧ a < 65536) := fun c => h ((inRange_iff a).2 c)
        rw [if_pos (by omega), if_neg h]
  | bin op l r ihl ihr =>
    simp only [toNode, evaluateNode, Expr.eval, ihl, ihr]
    cases Expr.eval env l with
    | error x => rfl
    | ok a =>
      cases Expr.eval env r with
      | error x => rfl
      | ok b =>
        cases op
        · show (do let v ← (pure (a + b) : Except EvalErr Int); if v < -32768 ∨ v ≥ 65536 then throw EvalErr.overflow else pure v) = _
          show (if a + b < -32768 ∨ a + b ≥ 65536 then (throw EvalErr.overflow : Except EvalErr Int) else pure (a + b)) = _
          rw [range_guard]; rfl
        · show (if a - b < -32768 ∨ a - b ≥ 65536 then (throw EvalErr.overflow : Except EvalErr Int) else pure (a - b)) = _
          rw [range_guard]; rfl
        · show (if a * b < -32768 ∨ a * b ≥ 65536 then (throw EvalErr.overflow : Except EvalErr Int) else pure (a * b)) = _
          rw [range_guard]; rfl
        · by_cases hb : b = 0
          · subst hb; rfl
          · show (do let v ← (if b = 0 then throw EvalErr.divZero else pure (Int.fdiv a b) : Except EvalErr Int)
                     if v < -32768 ∨ v ≥ 65536 then throw EvalErr.overflow else pure v)
                = (do let v ← applyBin .div a b; if inRange v then pure v else throw EvalErr.overflow)
            simp only [applyBin, if_neg hb]
            show (if Int.fdiv a b < -32768 ∨ Int.fdiv a b ≥ 65536 then (throw EvalErr.overflow : Except EvalErr Int) else pure (Int.fdiv a b)) = _
            rw [range_guard]; rfl

/-- the environment stays within the debugger's value range -/
def Expr.Env.Bounded (env : Env) : Prop :=
  (∀ i, inRange (env.reg i) = true) ∧ (∀ a, inRange (env.mem a) = true) ∧
  (∀ s v, env.sym s = some v → inRange v = true) ∧ inRange env.pc = true

theorem C14_eval_range (env : Env) (hb : env.Bounded) (e : E) (v : Int) (h : Expr.eval env e = .ok v) :
    -32768 ≤ v ∧ v < 65536 := by
  rw [← inRange_iff]
  cases e with
  | lit x =>
    simp only [Expr.eval] at h
    by_cases hx : inRange x = true
    · rw [if_pos hx] at h; cases h; exact hx
    · rw [if_neg hx] at h; cases h
  | reg i => simp only [Expr.eval] at h; cases h; exact hb.1 i
  | sym s =>
    simp only [Expr.eval] at h
    by_cases hp : (Cli.lower s == Str.ofString "pc") = true
    · rw [if_pos hp] at h; cases h; exact hb.2.2.2
    · rw [if_neg hp] at h
      cases hs : env.sym s with
      | none => rw [hs] at h; cases h
      | some w => rw [hs] at h; cases h; exact hb.2.2.1 s _ hs
  | neg e =>
    simp only [Expr.eval] at h
    cases he : Expr.eval env e with
    | error x => rw [he] at h; cases h
    | ok a =>
      rw [he] at h
      change (if inRange (-a) then pure (-a) else throw EvalErr.overflow : Except EvalErr Int) = .ok v at h
      by_cases hx : inRange (-a) = true
      · rw [if_pos hx] at h; cases h; exact hx
      · rw [if_neg hx] at h; cases h
  | deref e =>
    simp only [Expr.eval] at h
    cases he : Expr.eval env e with
    | error x => rw [he] at h; cases h
    | ok a =>
      rw [he] at h
      change (if inRange a then pure (env.mem (a % 65536).toNat) else throw EvalErr.overflow : Except EvalErr Int) = .ok v at h
      by_cases hx : inRange a = true
      · rw [if_pos hx] at h; cases h; exact hb.2.1 _
      · rw [if_neg hx] at h; cases h
  | bin op l r =>
    simp only [Expr.eval] at h
    cases hl : Expr.eval env l with
    | error x => rw [hl] at h; cases h
    | ok a =>
      cases hr : Expr.eval env r with
      | error x => rw [hl, hr] at h; cases h
      | ok b =>
        rw [hl, hr] at h
        cases hv : applyBin op a b with
        | error x =>
          change (do let v ← applyBin op a b; if inRange v then pure v else throw EvalErr.overflow : Except EvalErr Int) = .ok v at h
          rw [hv] at h; cases h
        | ok w =>
          change (do let v ← applyBin op a b; if inRange v then pure v else throw EvalErr.overflow : Except EvalErr Int) = .ok v at h
          rw [hv] at h
          change (if inRange w then pure w else throw EvalErr.overflow : Except EvalErr Int) = .ok v at h
          by_cases hx : inRange w = true
          · rw [if_pos hx] at h; cases h; exact hx
          · rw [if_neg hx] at h; cases h

/-- non-vacuity: a bounded environment and an expression with a value -/
example : Expr.eval ⟨fun _ => 7, fun _ => 0, fun _ => none, 3⟩ (.bin .div (.neg (.lit 7)) (.lit 2)) = .ok (-4) := by rfl

end Hera
