import HeraProofs.Props.C03
import HeraProofs.Lemmas.Sym
import HeraModel.Generated.Stdlib
/-
  C19, continued — loop-free routines of the register-convention Tiger library, as the real loader lays them out
  (`Generated/Stdlib.lean`, regenerated from hera/stdlib.py on every run), executed by the architecture (`Spec.exec`,
  which the regenerated `execute` methods refine: C01_step): for ALL argument values and ALL prior register and memory
  contents each routine computes what it is specified to compute, returns to the address in PC_ret, exchanges FP and
  FP_alt back, and leaves the stack pointer, memory and the caller's other registers alone.
-/
namespace Hera
open Spec Gen.Stdlib

/-- the extracted instruction lists are the operations of `program.code`, class by class and operand by operand -/
def opView (i : Instr) : String × List Int :=
  (i.toOp.1.pyName, i.toOp.2.map (fun v => match v with | .int n => n | .str _ => 0))

theorem size_code_is_ops : r_size_code.map opView = r_size_ops := by decide
theorem ord_code_is_ops : r_ord_code.map opView = r_ord_ops := by decide
theorem not_code_is_ops : r_not_code.map opView = r_not_ops := by decide
theorem malloc_code_is_ops : r_malloc_code.map opView = r_malloc_ops := by decide

/-- the calling contract of the register convention at a return: control is at the caller's return address, FP and
    FP_alt are exchanged (the caller exchanged them the other way in its CALL), SP and the listed registers are as
    before, memory is as described by `mem'` -/
structure Returned (σ τ : State) (kept : List Nat) : Prop where
  pc : τ.pc = (σ.get 13).toNat
  fp : τ.get 14 = σ.get 12
  fpalt : τ.get 12 = σ.get 14
  sp : τ.get 15 = σ.get 15
  regs : ∀ r ∈ kept, τ.get r = σ.get r
  running : τ.halted = false

/-- **C19 (size, register convention).** `size(s)`: R1 becomes the cell at the address in R1 (the length word of the
    string), for every machine state; memory is untouched. -/
theorem C19_size (σ : State) (hh : σ.halted = false) (hpc : σ.pc = r_size_base) :
    let τ := Lib.run r_size_base r_size_code 2 σ
    τ.get 1 = σ.mem (σ.get 1) ∧ τ.mem = σ.mem ∧ Returned σ τ [2, 3, 4, 5, 6, 7, 8, 9, 10, 11] := by
  intro τ
  have hτ : τ = exec (.ret 12 13) (exec (.load 1 0 1) σ) := by
    show Lib.run r_size_base r_size_code 2 σ = _
    rw [Sym.run_succ σ _ _ 1 (.load 1 0 1) hh (by rw [hpc]; rfl)]
    rw [Sym.run_succ _ _ _ 0 (.ret 12 13) (by rw [Sym.load_halted, hh]) (by rw [Sym.load_pc, hpc]; rfl)]
    rfl
  rw [hτ]
  refine ⟨?_, ?_, ⟨?_, ?_, ?_, ?_, ?_, ?_⟩⟩
  · simp [Sym.ret_get, Sym.load_get]
  · rw [Sym.ret_mem, Sym.load_mem]
  · simp [Sym.ret_pc, Sym.load_get]
  · simp [Sym.ret_get, Sym.load_get]
  · simp [Sym.ret_get, Sym.load_get]
  · simp [Sym.ret_get, Sym.load_get]
  · intro r hr
    simp only [List.mem_cons, List.not_mem_nil, or_false] at hr
    rcases hr with rfl | rfl | rfl | rfl | rfl | rfl | rfl | rfl | rfl | rfl <;> simp [Sym.ret_get, Sym.load_get]
  · rw [Sym.ret_halted, Sym.load_halted, hh]

/-- **C19 (ord, register convention).** `ord(s)`: R1 becomes the cell after the length word of the string at R1 (its
    first character), for every machine state. -/
theorem C19_ord (σ : State) (hh : σ.halted = false) (hpc : σ.pc = r_ord_base) :
    let τ := Lib.run r_ord_base r_ord_code 2 σ
    τ.get 1 = σ.mem (σ.get 1 + 1) ∧ τ.mem = σ.mem ∧ Returned σ τ [2, 3, 4, 5, 6, 7, 8, 9, 10, 11] := by
  intro τ
  have hτ : τ = exec (.ret 12 13) (exec (.load 1 1 1) σ) := by
    show Lib.run r_ord_base r_ord_code 2 σ = _
    rw [Sym.run_succ σ _ _ 1 (.load 1 1 1) hh (by rw [hpc]; rfl)]
    rw [Sym.run_succ _ _ _ 0 (.ret 12 13) (by rw [Sym.load_halted, hh]) (by rw [Sym.load_pc, hpc]; rfl)]
    rfl
  rw [hτ]
  have h1 : (BitVec.ofInt 16 1 : Word) = 1 := by decide
  refine ⟨?_, ?_, ⟨?_, ?_, ?_, ?_, ?_, ?_⟩⟩
  · simp [Sym.ret_get, Sym.load_get, h1]
  · rw [Sym.ret_mem, Sym.load_mem]
  · simp [Sym.ret_pc, Sym.load_get]
  · simp [Sym.ret_get, Sym.load_get]
  · simp [Sym.ret_get, Sym.load_get]
  · simp [Sym.ret_get, Sym.load_get]
  · intro r hr
    simp only [List.mem_cons, List.not_mem_nil, or_false] at hr
    rcases hr with rfl | rfl | rfl | rfl | rfl | rfl | rfl | rfl | rfl | rfl <;> simp [Sym.ret_get, Sym.load_get]
  · rw [Sym.ret_halted, Sym.load_halted, hh]


/-! ### symbolic execution helpers -/

open Sym in
/-- all projection lemmas, for `simp` -/
macro "symsimp" "[" ts:Lean.Parser.Tactic.simpLemma,* "]" : tactic =>
  `(tactic| simp [Sym.setlo_get, Sym.setlo_mem, Sym.setlo_fl, Sym.setlo_pc, Sym.setlo_halted, Sym.sethi_get, Sym.sethi_mem,
      Sym.sethi_fl, Sym.sethi_pc, Sym.sethi_halted, Sym.alu3_get, Sym.alu3_mem, Sym.alu3_fl, Sym.alu3_pc, Sym.alu3_halted,
      Sym.inc_get, Sym.inc_mem, Sym.inc_fl, Sym.inc_pc, Sym.inc_halted, Sym.load_get, Sym.load_mem, Sym.load_fl, Sym.load_pc,
      Sym.load_halted, Sym.store_get, Sym.store_mem, Sym.store_fl, Sym.store_pc, Sym.store_halted, Sym.fon_get, Sym.fon_mem,
      Sym.fon_pc, Sym.fon_halted, Sym.fon8_fl, Sym.foff_get, Sym.foff_mem, Sym.foff_pc, Sym.foff_halted, Sym.foff8_fl,
      Sym.brr_get, Sym.brr_mem, Sym.brr_fl, Sym.brr_pc, Sym.brr_halted, Sym.br_get, Sym.br_mem, Sym.br_fl, Sym.br_pc,
      Sym.br_halted, Sym.ret_get, Sym.ret_mem, Sym.ret_fl, Sym.ret_pc, Sym.ret_halted, $ts,*])

theorem subc_zero_true (x : Word) : (subc x 0 true).1 = x := by
  unfold subc addc
  apply BitVec.eq_of_toNat_eq
  simp [BitVec.adc_spec]
  have := x.isLt
  omega

theorem sub_fl_z (a b : Word) (f : Flags) : (Spec.alu3 .sub a b f).2.z = ((subc a b (f.c || f.cb)).1 == 0) := by
  simp [Spec.alu3, Flags.setSZ]

theorem word8_0 : ((BitVec.ofInt 8 0).signExtend 16 : Word) = 0 := by decide
theorem word8_1 : ((BitVec.ofInt 8 1).signExtend 16 : Word) = 1 := by decide
theorem subc_000 : (subc (0#16) (0#16) true).1 = 0#16 := subc_zero_true 0
theorem set_word_81 : (BitVec.ofInt 8 0 ++ ((BitVec.ofInt 8 81).signExtend 16 : Word).truncate 8 : BitVec 16) = 81 := by decide
theorem set_word_1 : (BitVec.ofInt 8 0 ++ ((BitVec.ofInt 8 1).signExtend 16 : Word).truncate 8 : BitVec 16) = 1 := by decide
theorem set_word_0 : (BitVec.ofInt 8 0 ++ ((BitVec.ofInt 8 0).signExtend 16 : Word).truncate 8 : BitVec 16) = 0 := by decide

/-- **C19 (not, register convention).** `not(b)`: R1 becomes 1 when it was 0 and 0 otherwise, for every machine state;
    memory is untouched; Rt may be clobbered (the routine branches through it). -/
theorem C19_not (σ : State) (hh : σ.halted = false) (hpc : σ.pc = r_not_base) :
    ∃ n, n ≤ 9 ∧
      let τ := Lib.run r_not_base r_not_code n σ
      τ.get 1 = (if σ.get 1 = 0 then 1 else 0) ∧ τ.mem = σ.mem ∧ Returned σ τ [2, 3, 4, 5, 6, 7, 8, 9, 10] := by
  have hb : r_not_base = 71 := rfl
  rw [hb] at hpc
  by_cases hz : σ.get 1 = 0
  · -- the argument is false: CMP, BZR taken, SET(R1, 1), RETURN
    refine ⟨6, by omega, ?_⟩
    intro τ
    have hτ : τ = exec (.ret 12 13) (exec (.sethi 1 0) (exec (.setlo 1 1) (exec (.brr .z 6)
        (exec (.alu3 .sub 0 1 0) (exec (.fon 8) σ))))) := by
      show Lib.run r_not_base r_not_code 6 σ = _
      rw [Sym.run_succ σ _ _ 5 (.fon 8) hh (by rw [hpc]; rfl)]
      rw [Sym.run_succ _ _ _ 4 (.alu3 .sub 0 1 0) (by symsimp [hh]) (by symsimp [hpc]; rfl)]
      rw [Sym.run_succ _ _ _ 3 (.brr .z 6) (by symsimp [hh]) (by symsimp [hpc]; rfl)]
      rw [Sym.run_succ _ _ _ 2 (.setlo 1 1) (by symsimp [hh])
        (by symsimp [hpc, Cond.holds, sub_fl_z, subc_000, hz, get_zero, show sbyte 6 = 6 by decide]; rfl)]
      rw [Sym.run_succ _ _ _ 1 (.sethi 1 0) (by symsimp [hh])
        (by symsimp [hpc, Cond.holds, sub_fl_z, subc_000, hz, get_zero, show sbyte 6 = 6 by decide]; rfl)]
      rw [Sym.run_succ _ _ _ 0 (.ret 12 13) (by symsimp [hh])
        (by symsimp [hpc, Cond.holds, sub_fl_z, subc_000, hz, get_zero, show sbyte 6 = 6 by decide]; rfl)]
      rfl
    rw [hτ]
    refine ⟨?_, ?_, ⟨?_, ?_, ?_, ?_, ?_, ?_⟩⟩
    · symsimp [hz]
    · symsimp []
    · symsimp []
    · symsimp []
    · symsimp []
    · symsimp []
    · intro r hr
      simp only [List.mem_cons, List.not_mem_nil, or_false] at hr
      rcases hr with rfl | rfl | rfl | rfl | rfl | rfl | rfl | rfl | rfl <;> symsimp []
    · symsimp [hh]
  · -- the argument is true: CMP, BZR not taken, SET(R1, 0), BR to the exit through Rt, RETURN
    refine ⟨9, by omega, ?_⟩
    intro τ
    have hz' : (σ.get 1 == 0) = false := by simpa using hz
    have hs : (subc (σ.get 1) (0#16) true).1 = σ.get 1 := subc_zero_true _
    have h6 : sbyte 6 = 6 := by decide
    have hz2 : ¬ σ.get 1 = 0#16 := hz
    have hτ : τ = exec (.ret 12 13) (exec (.br .always 11) (exec (.sethi 11 0) (exec (.setlo 11 81) (exec (.sethi 1 0)
        (exec (.setlo 1 0) (exec (.brr .z 6) (exec (.alu3 .sub 0 1 0) (exec (.fon 8) σ)))))))) := by
      show Lib.run r_not_base r_not_code 9 σ = _
      rw [Sym.run_succ σ _ _ 8 (.fon 8) hh (by rw [hpc]; rfl)]
      rw [Sym.run_succ _ _ _ 7 (.alu3 .sub 0 1 0) (by symsimp [hh]) (by symsimp [hpc]; rfl)]
      rw [Sym.run_succ _ _ _ 6 (.brr .z 6) (by symsimp [hh]) (by symsimp [hpc]; rfl)]
      rw [Sym.run_succ _ _ _ 5 (.setlo 1 0) (by symsimp [hh])
        (by symsimp [hpc, Cond.holds, sub_fl_z, hs, hz2, get_zero, h6]; rfl)]
      rw [Sym.run_succ _ _ _ 4 (.sethi 1 0) (by symsimp [hh])
        (by symsimp [hpc, Cond.holds, sub_fl_z, hs, hz2, get_zero, h6]; rfl)]
      rw [Sym.run_succ _ _ _ 3 (.setlo 11 81) (by symsimp [hh])
        (by symsimp [hpc, Cond.holds, sub_fl_z, hs, hz2, get_zero, h6]; rfl)]
      rw [Sym.run_succ _ _ _ 2 (.sethi 11 0) (by symsimp [hh])
        (by symsimp [hpc, Cond.holds, sub_fl_z, hs, hz2, get_zero, h6]; rfl)]
      rw [Sym.run_succ _ _ _ 1 (.br .always 11) (by symsimp [hh])
        (by symsimp [hpc, Cond.holds, sub_fl_z, hs, hz2, get_zero, h6]; rfl)]
      rw [Sym.run_succ _ _ _ 0 (.ret 12 13) (by symsimp [hh])
        (by symsimp [hpc, Cond.holds, sub_fl_z, hs, hz2, get_zero, h6, set_word_81]; rfl)]
      rfl
    rw [hτ]
    refine ⟨?_, ?_, ⟨?_, ?_, ?_, ?_, ?_, ?_⟩⟩
    · symsimp [hz2, set_word_0]
    · symsimp []
    · symsimp []
    · symsimp []
    · symsimp []
    · symsimp []
    · intro r hr
      simp only [List.mem_cons, List.not_mem_nil, or_false] at hr
      rcases hr with rfl | rfl | rfl | rfl | rfl | rfl | rfl | rfl | rfl <;> symsimp []
    · symsimp [hh]


/-! ### malloc -/

theorem addc_val (a b : Word) : (addc a b false).1 = a + b := by
  unfold addc
  simp [BitVec.adc_spec]

theorem addc_carry (a b : Word) : (addc a b false).2.1 = decide (65536 ≤ a.toNat + b.toNat) := by
  unfold addc
  simp [BitVec.adc_spec, BitVec.carry]
  have := a.isLt
  have := b.isLt
  omega

theorem subc_carry (a b : Word) : (subc a b true).2.1 = decide (b.toNat ≤ a.toNat) := by
  unfold subc addc
  simp [BitVec.adc_spec, BitVec.carry, BitVec.toNat_not]
  have := a.isLt
  have := b.isLt
  constructor <;> intro h <;> omega

theorem run_add (base : Int) (code : List Instr) (a b : Nat) (σ : State) :
    Lib.run base code (a + b) σ = Lib.run base code b (Lib.run base code a σ) := by
  induction a generalizing σ with
  | zero => simp [Lib.run]
  | succ a ih =>
    rw [show a + 1 + b = (a + b) + 1 by omega]
    simp only [Lib.run]
    cases hs : Lib.step base code σ with
    | some σ' => exact ih σ'
    | none =>
      simp only
      -- a machine that cannot step stays where it is
      clear ih
      induction b with
      | zero => rfl
      | succ b ihb => simp only [Lib.run, hs]

/-- the address of the heap pointer cell and the end of the heap, as the library's data part defines them -/
def heapCell : Word := BitVec.ofInt 16 first_space_for_fsheap
def heapEnd : Word := BitVec.ofInt 16 last_space_for_fsheap

theorem add_fl (a b : Word) (f : Flags) : (Spec.alu3 .add a b f).2 =
    { (f.setSZ (addc a b f.cin).1) with c := (addc a b f.cin).2.1, v := (addc a b f.cin).2.2 } := by
  simp [Spec.alu3]
theorem add_val (a b : Word) (f : Flags) : (Spec.alu3 .add a b f).1 = (addc a b f.cin).1 := by simp [Spec.alu3]
theorem sub_fl (a b : Word) (f : Flags) : (Spec.alu3 .sub a b f).2 =
    { (f.setSZ (subc a b (f.c || f.cb)).1) with c := (subc a b (f.c || f.cb)).2.1, v := (subc a b (f.c || f.cb)).2.2 } := by
  simp [Spec.alu3]
theorem or_val (a b : Word) (f : Flags) : (Spec.alu3 .or a b f).1 = a ||| b := by simp [Spec.alu3]
theorem or_fl (a b : Word) (f : Flags) : (Spec.alu3 .or a b f).2 = f.setSZ (a ||| b) := by simp [Spec.alu3]

theorem word_4000 : (BitVec.ofInt 8 64 ++ ((BitVec.ofInt 8 0).signExtend 16 : Word).truncate 8 : BitVec 16) = heapCell := by decide
theorem word_BFFF : (BitVec.ofInt 8 191 ++ ((BitVec.ofInt 8 255).signExtend 16 : Word).truncate 8 : BitVec 16) = heapEnd := by decide
theorem heapEnd_toNat : heapEnd.toNat = 49151 := by decide
theorem ofInt16_0 : (BitVec.ofInt 16 0 : Word) = 0#16 := by decide

/-- the allocating part of malloc, from the point where R10 holds the first free address: for every state in which the
    block fits below the end of the heap, the block's address is returned in R1, the heap pointer advances by exactly
    the requested number of cells, and nothing else in memory changes -/
theorem malloc_tail (s : State) (hh : s.halted = false) (hpc : s.pc = 46) (h11 : s.get 11 = heapCell)
    (hc : s.fl.c = false) (hfit : (s.get 10).toNat + (s.get 1).toNat < 49151) :
    let τ := Lib.run r_malloc_base r_malloc_code 11 s
    τ.get 1 = s.get 10 ∧ τ.mem heapCell = s.get 10 + s.get 1 ∧ (∀ x, x ≠ heapCell → τ.mem x = s.mem x) ∧
    Returned s τ [2, 3, 4, 5, 6, 7, 8] := by
  intro τ
  have hcin : ∀ f : Flags, f.c = false → f.cin = false := by intro f h; simp [Flags.cin, h]
  have hnc : decide (65536 ≤ (s.get 10).toNat + (s.get 1).toNat) = false := by simp; omega
  have hlt : decide (heapEnd.toNat ≤ (s.get 10 + s.get 1).toNat) = false := by
    rw [heapEnd_toNat, BitVec.toNat_add]
    simp
    have : ((s.get 10).toNat + (s.get 1).toNat) % 65536 = (s.get 10).toNat + (s.get 1).toNat := by omega
    omega
  have h12 : sbyte 12 = 12 := by decide
  have h7 : sbyte 7 = 7 := by decide
  have hlt2 : ¬ (49151 ≤ ((s.get 10).toNat + (s.get 1).toNat) % 65536) := by omega
  have hτ : τ = exec (.ret 12 13) (exec (.alu3 .or 1 9 0) (exec (.store 10 0 11) (exec (.brr .c 7) (exec (.alu3 .sub 0 10 1)
      (exec (.fon 8) (exec (.sethi 1 191) (exec (.setlo 1 255) (exec (.brr .c 12) (exec (.alu3 .add 10 10 1)
      (exec (.alu3 .or 9 10 0) s)))))))))) := by
    show Lib.run r_malloc_base r_malloc_code 11 s = _
    rw [Sym.run_succ s _ _ 10 (.alu3 .or 9 10 0) hh (by rw [hpc]; rfl)]
    rw [Sym.run_succ _ _ _ 9 (.alu3 .add 10 10 1) (by symsimp [hh]) (by symsimp [hpc]; rfl)]
    rw [Sym.run_succ _ _ _ 8 (.brr .c 12) (by symsimp [hh]) (by symsimp [hpc]; rfl)]
    rw [Sym.run_succ _ _ _ 7 (.setlo 1 255) (by symsimp [hh])
      (by symsimp [hpc, Cond.holds, add_fl, or_fl, or_val, Flags.setSZ, Flags.cin, hc, get_zero, addc_carry, hnc, h12]; rfl)]
    rw [Sym.run_succ _ _ _ 6 (.sethi 1 191) (by symsimp [hh])
      (by symsimp [hpc, Cond.holds, add_fl, or_fl, or_val, Flags.setSZ, Flags.cin, hc, get_zero, addc_carry, hnc, h12]; rfl)]
    rw [Sym.run_succ _ _ _ 5 (.fon 8) (by symsimp [hh])
      (by symsimp [hpc, Cond.holds, add_fl, or_fl, or_val, Flags.setSZ, Flags.cin, hc, get_zero, addc_carry, hnc, h12]; rfl)]
    rw [Sym.run_succ _ _ _ 4 (.alu3 .sub 0 10 1) (by symsimp [hh])
      (by symsimp [hpc, Cond.holds, add_fl, or_fl, or_val, Flags.setSZ, Flags.cin, hc, get_zero, addc_carry, hnc, h12]; rfl)]
    rw [Sym.run_succ _ _ _ 3 (.brr .c 7) (by symsimp [hh])
      (by symsimp [hpc, Cond.holds, add_fl, or_fl, or_val, Flags.setSZ, Flags.cin, hc, get_zero, addc_carry, hnc, h12]; rfl)]
    rw [Sym.run_succ _ _ _ 2 (.store 10 0 11) (by symsimp [hh])
      (by symsimp [hpc, Cond.holds, add_fl, add_val, sub_fl, or_fl, or_val, Flags.setSZ, Flags.cin, hc, get_zero, addc_carry, addc_val,
        subc_carry, hnc, h12, h7, word_BFFF, hlt, hlt2]; rfl)]
    rw [Sym.run_succ _ _ _ 1 (.alu3 .or 1 9 0) (by symsimp [hh])
      (by symsimp [hpc, Cond.holds, add_fl, add_val, sub_fl, or_fl, or_val, Flags.setSZ, Flags.cin, hc, get_zero, addc_carry, addc_val,
        subc_carry, hnc, h12, h7, word_BFFF, hlt, hlt2]; rfl)]
    rw [Sym.run_succ _ _ _ 0 (.ret 12 13) (by symsimp [hh])
      (by symsimp [hpc, Cond.holds, add_fl, add_val, sub_fl, or_fl, or_val, Flags.setSZ, Flags.cin, hc, get_zero, addc_carry, addc_val,
        subc_carry, hnc, h12, h7, word_BFFF, hlt, hlt2]; rfl)]
    rfl
  rw [hτ]
  refine ⟨?_, ?_, ?_, ⟨?_, ?_, ?_, ?_, ?_, ?_⟩⟩
  · symsimp [or_val, get_zero]
  · symsimp [or_val, add_val, get_zero, h11, ofInt16_0, addc_val, hcin, or_fl, Flags.setSZ, hc, Flags.cin]
  · intro x hx
    symsimp [h11, ofInt16_0, hx]
  · symsimp []
  · symsimp []
  · symsimp []
  · symsimp []
  · intro r hr
    simp only [List.mem_cons, List.not_mem_nil, or_false] at hr
    rcases hr with rfl | rfl | rfl | rfl | rfl | rfl | rfl <;> symsimp []
  · symsimp [hh]


theorem heapCell_toNat : heapCell.toNat = 16384 := by decide
theorem heapCell_eq : heapCell = 16384#16 := by decide
theorem addc_zero' (x : Word) : addc x 0#16 false = (x, false, false) := addc_zero x
theorem add_fl_z0 (a : Word) (f : Flags) (hc : f.c = false) : (Spec.alu3 .add a 0#16 f).2.z = (a == 0#16) := by
  simp [Spec.alu3, Flags.cin, hc, addc_zero', Flags.setSZ]
theorem add_fl_c0 (a : Word) (f : Flags) (hc : f.c = false) : (Spec.alu3 .add a 0#16 f).2.c = false := by
  simp [Spec.alu3, Flags.cin, hc, addc_zero']

/-- what the head of malloc establishes when the heap has been initialised (its pointer cell is not 0) -/
theorem malloc_head_init (σ : State) (hh : σ.halted = false) (hpc : σ.pc = 37) (hm : ¬ σ.mem heapCell = 0#16) :
    let s := Lib.run r_malloc_base r_malloc_code 6 σ
    s.halted = false ∧ s.pc = 46 ∧ s.get 11 = heapCell ∧ s.fl.c = false ∧ s.get 10 = σ.mem heapCell ∧ s.mem = σ.mem ∧
    (∀ r, r ≠ 10 → r ≠ 11 → s.get r = σ.get r) := by
  intro s
  have h4 : sbyte 4 = 4 := by decide
  rw [heapCell_eq] at hm ⊢
  have hm' : (σ.mem 16384#16 == 0#16) = false := by simpa using hm
  have hs : s = exec (.brr .nz 4) (exec (.alu3 .add 0 10 0) (exec (.foff 8) (exec (.load 10 0 11) (exec (.sethi 11 64)
      (exec (.setlo 11 0) σ))))) := by
    show Lib.run r_malloc_base r_malloc_code 6 σ = _
    rw [Sym.run_succ σ _ _ 5 (.setlo 11 0) hh (by rw [hpc]; rfl)]
    rw [Sym.run_succ _ _ _ 4 (.sethi 11 64) (by symsimp [hh]) (by symsimp [hpc]; rfl)]
    rw [Sym.run_succ _ _ _ 3 (.load 10 0 11) (by symsimp [hh]) (by symsimp [hpc]; rfl)]
    rw [Sym.run_succ _ _ _ 2 (.foff 8) (by symsimp [hh]) (by symsimp [hpc]; rfl)]
    rw [Sym.run_succ _ _ _ 1 (.alu3 .add 0 10 0) (by symsimp [hh]) (by symsimp [hpc]; rfl)]
    rw [Sym.run_succ _ _ _ 0 (.brr .nz 4) (by symsimp [hh]) (by symsimp [hpc]; rfl)]
    rfl
  rw [hs]
  refine ⟨?_, ?_, ?_, ?_, ?_, ?_, ?_⟩
  · symsimp [hh]
  · symsimp [hpc, Cond.holds, get_zero, add_fl_z0, ofInt16_0, hm, hm', h4]
  · symsimp []
  · symsimp [get_zero, add_fl_c0]
  · symsimp [ofInt16_0]
  · symsimp []
  · intro r h10 h11
    symsimp [h10, h11]

/-- what the head of malloc establishes on the first call (pointer cell 0): the heap starts in the cell after it -/
theorem malloc_head_first (σ : State) (hh : σ.halted = false) (hpc : σ.pc = 37) (hm : σ.mem heapCell = 0#16) :
    let s := Lib.run r_malloc_base r_malloc_code 9 σ
    s.halted = false ∧ s.pc = 46 ∧ s.get 11 = heapCell ∧ s.fl.c = false ∧ s.get 10 = heapCell + 1 ∧
    (∀ x, x ≠ heapCell → s.mem x = σ.mem x) ∧ (∀ r, r ≠ 10 → r ≠ 11 → s.get r = σ.get r) := by
  intro s
  rw [heapCell_eq] at hm ⊢
  have hm' : (σ.mem 16384#16 == 0#16) = true := by simpa using hm
  have hs : s = exec (.store 10 0 11) (exec (.inc 10 1) (exec (.alu3 .or 10 11 0) (exec (.brr .nz 4) (exec (.alu3 .add 0 10 0)
      (exec (.foff 8) (exec (.load 10 0 11) (exec (.sethi 11 64) (exec (.setlo 11 0) σ)))))))) := by
    show Lib.run r_malloc_base r_malloc_code 9 σ = _
    rw [Sym.run_succ σ _ _ 8 (.setlo 11 0) hh (by rw [hpc]; rfl)]
    rw [Sym.run_succ _ _ _ 7 (.sethi 11 64) (by symsimp [hh]) (by symsimp [hpc]; rfl)]
    rw [Sym.run_succ _ _ _ 6 (.load 10 0 11) (by symsimp [hh]) (by symsimp [hpc]; rfl)]
    rw [Sym.run_succ _ _ _ 5 (.foff 8) (by symsimp [hh]) (by symsimp [hpc]; rfl)]
    rw [Sym.run_succ _ _ _ 4 (.alu3 .add 0 10 0) (by symsimp [hh]) (by symsimp [hpc]; rfl)]
    rw [Sym.run_succ _ _ _ 3 (.brr .nz 4) (by symsimp [hh]) (by symsimp [hpc]; rfl)]
    rw [Sym.run_succ _ _ _ 2 (.alu3 .or 10 11 0) (by symsimp [hh])
      (by symsimp [hpc, Cond.holds, get_zero, add_fl_z0, ofInt16_0, hm, hm']; rfl)]
    rw [Sym.run_succ _ _ _ 1 (.inc 10 1) (by symsimp [hh])
      (by symsimp [hpc, Cond.holds, get_zero, add_fl_z0, ofInt16_0, hm, hm']; rfl)]
    rw [Sym.run_succ _ _ _ 0 (.store 10 0 11) (by symsimp [hh])
      (by symsimp [hpc, Cond.holds, get_zero, add_fl_z0, ofInt16_0, hm, hm']; rfl)]
    rfl
  rw [hs]
  have h1 : (BitVec.ofInt 16 1 : Word) = 1#16 := by decide
  refine ⟨?_, ?_, ?_, ?_, ?_, ?_, ?_⟩
  · symsimp [hh]
  · symsimp [hpc, Cond.holds, get_zero, add_fl_z0, ofInt16_0, hm, hm']
  · symsimp []
  · symsimp [addc_carry, or_val, get_zero, h1]
  · symsimp [addc_val, or_val, get_zero, h1]
  · intro x hx
    symsimp [ofInt16_0, hx]
  · intro r h10 h11
    symsimp [h10, h11]

/-- **C19 (malloc, register convention).** For every machine state in which the requested block fits below the end of
    the heap (`first free + n < last_space_for_fsheap`, no wrap-around): `malloc(n)` returns in R1 the first free
    address `p` (the cell after the pointer cell on the very first call), advances the heap pointer by exactly `n`, changes
    no other memory cell, returns to the caller and keeps SP and R2..R8. Hence consecutive calls return the adjacent,
    disjoint blocks `[p, p+n)`, `[p+n, p+n+m)`, ... -/
theorem C19_malloc (σ : State) (hh : σ.halted = false) (hpc : σ.pc = r_malloc_base)
    (hfit : (if σ.mem heapCell = 0#16 then heapCell + 1 else σ.mem heapCell).toNat + (σ.get 1).toNat < 49151) :
    ∃ k, k ≤ 20 ∧
      let p := if σ.mem heapCell = 0#16 then heapCell + 1 else σ.mem heapCell
      let τ := Lib.run r_malloc_base r_malloc_code k σ
      τ.get 1 = p ∧ τ.mem heapCell = p + σ.get 1 ∧ (∀ x, x ≠ heapCell → τ.mem x = σ.mem x) ∧
      Returned σ τ [2, 3, 4, 5, 6, 7, 8] := by
  have hpc' : σ.pc = 37 := hpc
  by_cases hm : σ.mem heapCell = 0#16
  · rw [if_pos hm] at hfit
    refine ⟨9 + 11, by omega, ?_⟩
    simp only [if_pos hm]
    rw [run_add]
    obtain ⟨a1, a2, a3, a4, a5, a6, a7⟩ := malloc_head_first σ hh hpc' hm
    have hfit' : ((Lib.run r_malloc_base r_malloc_code 9 σ).get 10).toNat + ((Lib.run r_malloc_base r_malloc_code 9 σ).get 1).toNat < 49151 := by
      rw [a5, a7 1 (by decide) (by decide)]; exact hfit
    obtain ⟨b1, b2, b3, b4⟩ := malloc_tail _ a1 a2 a3 a4 hfit'
    refine ⟨by rw [b1, a5], by rw [b2, a5, a7 1 (by decide) (by decide)], fun x hx => by rw [b3 x hx, a6 x hx], ?_⟩
    exact ⟨by rw [b4.pc, a7 13 (by decide) (by decide)], by rw [b4.fp, a7 12 (by decide) (by decide)],
      by rw [b4.fpalt, a7 14 (by decide) (by decide)], by rw [b4.sp, a7 15 (by decide) (by decide)],
      fun r hr => by
        rw [b4.regs r hr]
        simp only [List.mem_cons, List.not_mem_nil, or_false] at hr
        rcases hr with rfl | rfl | rfl | rfl | rfl | rfl | rfl <;> exact a7 _ (by decide) (by decide),
      b4.running⟩
  · rw [if_neg hm] at hfit
    refine ⟨6 + 11, by omega, ?_⟩
    simp only [if_neg hm]
    rw [run_add]
    obtain ⟨a1, a2, a3, a4, a5, a6, a7⟩ := malloc_head_init σ hh hpc' hm
    have hfit' : ((Lib.run r_malloc_base r_malloc_code 6 σ).get 10).toNat + ((Lib.run r_malloc_base r_malloc_code 6 σ).get 1).toNat < 49151 := by
      rw [a5, a7 1 (by decide) (by decide)]; exact hfit
    obtain ⟨b1, b2, b3, b4⟩ := malloc_tail _ a1 a2 a3 a4 hfit'
    refine ⟨by rw [b1, a5], by rw [b2, a5, a7 1 (by decide) (by decide)], fun x hx => by rw [b3 x hx, a6], ?_⟩
    exact ⟨by rw [b4.pc, a7 13 (by decide) (by decide)], by rw [b4.fp, a7 12 (by decide) (by decide)],
      by rw [b4.fpalt, a7 14 (by decide) (by decide)], by rw [b4.sp, a7 15 (by decide) (by decide)],
      fun r hr => by
        rw [b4.regs r hr]
        simp only [List.mem_cons, List.not_mem_nil, or_false] at hr
        rcases hr with rfl | rfl | rfl | rfl | rfl | rfl | rfl <;> exact a7 _ (by decide) (by decide),
      b4.running⟩

end Hera
