import HeraProofs.Lemmas.Arith
import HeraProofs.Props.C04
/-
  C03 — each pseudo-operation means what the manual says, clobbering only what it may.

  Two layers: (1) what the regenerated `convert` methods produce (`C03_convert_*`, by evaluation of the
  translated code), (2) the expansion, run on the architecture (`Spec.exec`, which `C01_step` ties to the
  implementation instruction by instruction), has the documented effect `Spec.pseudo` (`C03_*`).
-/
namespace Hera
open Spec

/-! ### state algebra -/

@[simp] theorem next_get (σ : State) (r : Nat) : σ.next.get r = σ.get r := rfl
@[simp] theorem next_mem (σ : State) : σ.next.mem = σ.mem := rfl
@[simp] theorem next_fl (σ : State) : σ.next.fl = σ.fl := rfl
@[simp] theorem next_pc (σ : State) : σ.next.pc = σ.pc + 1 := rfl
@[simp] theorem next_halted (σ : State) : σ.next.halted = σ.halted := rfl
@[simp] theorem addPc_get (σ : State) (n : Int) (r : Nat) : (σ.addPc n).get r = σ.get r := rfl
@[simp] theorem addPc_mem (σ : State) (n : Int) : (σ.addPc n).mem = σ.mem := rfl
@[simp] theorem addPc_fl (σ : State) (n : Int) : (σ.addPc n).fl = σ.fl := rfl
@[simp] theorem addPc_pc (σ : State) (n : Int) : (σ.addPc n).pc = σ.pc + n := rfl
@[simp] theorem addPc_halted (σ : State) (n : Int) : (σ.addPc n).halted = σ.halted := rfl
@[simp] theorem setReg_mem (σ : State) (d : Nat) (w : Word) : (σ.setReg d w).mem = σ.mem := by
  unfold State.setReg; split <;> rfl
@[simp] theorem setReg_fl (σ : State) (d : Nat) (w : Word) : (σ.setReg d w).fl = σ.fl := by
  unfold State.setReg; split <;> rfl
@[simp] theorem setReg_pc (σ : State) (d : Nat) (w : Word) : (σ.setReg d w).pc = σ.pc := by
  unfold State.setReg; split <;> rfl
@[simp] theorem setReg_halted (σ : State) (d : Nat) (w : Word) : (σ.setReg d w).halted = σ.halted := by
  unfold State.setReg; split <;> rfl
@[simp] theorem withfl_get (σ : State) (f : Flags) (r : Nat) : ({ σ with fl := f } : State).get r = σ.get r := rfl
@[simp] theorem withpc_get (σ : State) (p : Int) (r : Nat) : ({ σ with pc := p } : State).get r = σ.get r := rfl

theorem byte_lo (lo : Int) : (((BitVec.ofInt 8 lo).signExtend 16).truncate 8 : BitVec 8) = BitVec.ofInt 8 lo := by
  apply BitVec.eq_of_toNat_eq
  simp only [BitVec.truncate_eq_setWidth, BitVec.toNat_setWidth, BitVec.toNat_signExtend]
  have h := (BitVec.ofInt 8 lo).isLt
  split <;> omega

theorem word_of_bytes (u : Int) (hu : 0 ≤ u ∧ u < 65536) :
    (BitVec.ofInt 8 (u / 256) ++ BitVec.ofInt 8 (u % 256) : BitVec 16) = BitVec.ofInt 16 u := by
  apply BitVec.eq_of_toNat_eq
  rw [BitVec.toNat_append]
  simp only [BitVec.toNat_ofInt]
  have e8 : ((2 ^ 8 : Nat) : Int) = 256 := by norm_num
  have e16 : ((2 ^ 16 : Nat) : Int) = 65536 := by norm_num
  rw [e8, e16]
  have h := Nat.shiftLeft_add_eq_or_of_lt (i := 8) (b := (u % 256 % 256).toNat) (by omega) (u / 256 % 256).toNat
  rw [← h, Nat.shiftLeft_eq]
  omega

theorem ofInt16_congr (a b : Int) (h : a % 65536 = b % 65536) : BitVec.ofInt 16 a = BitVec.ofInt 16 b := by
  apply BitVec.eq_of_toNat_eq
  simp only [BitVec.toNat_ofInt]
  have e16 : ((2 ^ 16 : Nat) : Int) = 65536 := by norm_num
  rw [e16, h]

/-- **C03 (SET).** `SETLO(d, u mod 256); SETHI(d, u div 256)` with `u` the 16-bit representation of `v` leaves `v` in
    `Rd`, touches no flag, and advances the program counter by two. -/
theorem C03_SET (d : Nat) (v : Int) (hv : -32768 ≤ v ∧ v < 65536) (σ : State) :
    let u := if v < 0 then 65536 + v else v
    State.Eqv (execList [.setlo d (u % 256), .sethi d (u / 256)] σ) (pseudo (.set d v) σ) := by
  intro u
  have hu : 0 ≤ u ∧ u < 65536 := by simp only [u]; split <;> omega
  have huv : BitVec.ofInt 16 u = BitVec.ofInt 16 v := by
    apply ofInt16_congr; simp only [u]; split <;> omega
  simp only [execList, exec, pseudo]
  refine ⟨fun r hr => ?_, fun a => by simp, by simp, by simp; omega, by simp⟩
  simp only [next_get, get_setReg, addPc_get]
  by_cases hrd : r = d ∧ d ≠ 0
  · simp only [hrd, and_self, ↓reduceIte, ne_eq, not_false_eq_true]
    have hd : d = d ∧ d ≠ 0 := ⟨rfl, hrd.2⟩
    simp only [hd, and_self, ↓reduceIte, ne_eq, not_false_eq_true, byte_lo]
    rw [word_of_bytes u hu, huv]
  · simp only [hrd, ↓reduceIte]

end Hera
namespace Hera
open Spec

theorem flagsOfInt_8 : flagsOfInt 8 = { s := false, z := false, v := false, c := true, cb := false } := by decide
theorem flagsOfInt_16 : flagsOfInt 16 = { s := false, z := false, v := false, c := false, cb := true } := by decide
theorem flagsOfInt_24 : flagsOfInt 24 = { s := false, z := false, v := false, c := true, cb := true } := by decide

theorem get_zero (σ : State) : σ.get 0 = 0 := by simp [State.get]

theorem C03_CON (σ : State) : State.Eqv (execList [.fon 8] σ) (pseudo .con σ) := by
  simp only [execList, exec, pseudo, flagsOfInt_8]
  exact ⟨fun r _ => rfl, fun a => rfl, by simp, rfl, rfl⟩

theorem C03_COFF (σ : State) : State.Eqv (execList [.foff 8] σ) (pseudo .coff σ) := by
  simp only [execList, exec, pseudo, flagsOfInt_8]
  exact ⟨fun r _ => rfl, fun a => rfl, by simp, rfl, rfl⟩

theorem C03_CBON (σ : State) : State.Eqv (execList [.fon 16] σ) (pseudo .cbon σ) := by
  simp only [execList, exec, pseudo, flagsOfInt_16]
  exact ⟨fun r _ => rfl, fun a => rfl, by simp, rfl, rfl⟩

theorem C03_CCBOFF (σ : State) : State.Eqv (execList [.foff 24] σ) (pseudo .ccboff σ) := by
  simp only [execList, exec, pseudo, flagsOfInt_24]
  exact ⟨fun r _ => rfl, fun a => rfl, by simp, rfl, rfl⟩

theorem C03_HALT (σ : State) : State.Eqv (execList [.brr .always 0] σ) (pseudo .halt σ) := by
  simp only [execList, exec, pseudo, and_self, ↓reduceIte]
  exact ⟨fun r _ => rfl, fun a => rfl, rfl, rfl, rfl⟩

theorem sbyte_one : sbyte 1 = 1 := by decide

theorem C03_NOP (σ : State) : State.Eqv (execList [.brr .always 1] σ) (pseudo .nop σ) := by
  have h : ¬ ((Cond.always = Cond.always) ∧ (1 : Int) = 0) := by decide
  simp only [execList, exec, pseudo, h, ↓reduceIte, Cond.holds, sbyte_one]
  exact ⟨fun r _ => rfl, fun a => rfl, rfl, rfl, rfl⟩

theorem C03_MOVE (a b : Nat) (σ : State) : State.Eqv (execList [.alu3 .or a b 0] σ) (pseudo (.move a b) σ) := by
  have h0 : σ.get b ||| 0 = σ.get b := BitVec.or_zero
  simp only [execList, exec, pseudo, Spec.alu3, get_zero, h0]
  exact ⟨fun r _ => rfl, fun x => rfl, rfl, rfl, rfl⟩

theorem C03_CMP (a b : Nat) (σ : State) : State.Eqv (execList [.fon 8, .alu3 .sub 0 a b] σ) (pseudo (.cmp a b) σ) := by
  simp only [execList, exec, pseudo, Spec.alu3, flagsOfInt_8, Bool.or_true, Bool.or_false, next_get, withfl_get, next_fl,
    Bool.true_or]
  refine ⟨fun r _ => ?_, fun x => by simp, ?_, by simp; omega, by simp⟩
  · simp only [State.setReg, ↓reduceIte]; rfl
  · simp [Flags.setSZ]

theorem C03_NEG (d a : Nat) (σ : State) : State.Eqv (execList [.fon 8, .alu3 .sub d 0 a] σ) (pseudo (.neg d a) σ) := by
  simp only [execList, exec, pseudo, Spec.alu3, flagsOfInt_8, Bool.or_true, Bool.or_false, next_get, withfl_get, next_fl,
    Bool.true_or, get_zero]
  refine ⟨fun r _ => ?_, fun x => by simp, ?_, by simp; omega, by simp⟩
  · simp only [next_get, get_setReg, addPc_get]; split <;> rfl
  · simp [Flags.setSZ]

theorem addc_zero (x : Word) : addc x 0 false = (x, false, false) := by
  unfold addc
  have h1 : (BitVec.adc x 0 false).2 = x := by
    apply BitVec.eq_of_toNat_eq
    simp [BitVec.adc_spec]
  have h2 : (BitVec.adc x 0 false).1 = false := by
    simp [BitVec.adc_spec, BitVec.carry]
    have := x.isLt
    omega
  simp only [h1, h2]
  cases x.msb <;> simp

theorem C03_FLAGS (a : Nat) (σ : State) : State.Eqv (execList [.foff 8, .alu3 .add 0 a 0] σ) (pseudo (.flags a) σ) := by
  simp only [execList, exec, pseudo, Spec.alu3, flagsOfInt_8, next_get, withfl_get, next_fl, get_zero, Flags.cin,
    Bool.not_true, Bool.and_false, Bool.false_and, addc_zero]
  refine ⟨fun r _ => ?_, fun x => by simp, ?_, by simp; omega, by simp⟩
  · simp only [State.setReg, ↓reduceIte]; rfl
  · simp [Flags.setSZ]

end Hera
namespace Hera
open Spec

/-- the two-instruction load of a 16-bit value `u` (0..65535) into register `d` -/
theorem load16 (d : Nat) (u : Int) (hu : 0 ≤ u ∧ u < 65536) (σ : State) :
    State.Eqv (execList [.setlo d (u % 256), .sethi d (u / 256)] σ) ((σ.setReg d (BitVec.ofInt 16 u)).addPc 2) := by
  have h := C03_SET d u ⟨by omega, hu.2⟩ σ
  simp only [show ¬ (u < 0) by omega, ↓reduceIte] at h
  exact h

theorem execList_append (xs ys : List Instr) (σ : State) : execList (xs ++ ys) σ = execList ys (execList xs σ) := by
  induction xs generalizing σ with
  | nil => rfl
  | cons x xs ih => simp only [List.cons_append, execList, ih]

/-- `exec` of a register branch depends only on the observable state -/
theorem br_congr (c : Cond) (b : Nat) (σ τ : State) (h : State.Eqv σ τ) (hb : b < 16) :
    State.Eqv (exec (.br c b) σ) (exec (.br c b) τ) := by
  obtain ⟨h1, h2, h3, h4, h5⟩ := h
  by_cases hc : c.holds σ.fl = true
  · have hc' : c.holds τ.fl = true := by rw [← h3]; exact hc
    simp only [exec, hc, hc', ↓reduceIte, h1 b hb]
    exact ⟨h1, h2, h3, rfl, h5⟩
  · have hc' : ¬ c.holds τ.fl = true := by rw [← h3]; exact hc
    simp only [exec, hc, hc', ↓reduceIte]
    exact ⟨h1, h2, h3, by simp [h4], h5⟩

/-- **C03 (branch to a label).** `B<c>(label)` continues at the label if the condition holds and at the next
    operation otherwise; only Rt changes. -/
theorem C03_BRlabel (c : Cond) (l : Int) (hl : 0 ≤ l ∧ l < 65536) (σ : State) :
    State.Eqv (execList [.setlo 11 (l % 256), .sethi 11 (l / 256), .br c 11] σ) (pseudo (.brLabel c l) σ) := by
  have h1 := load16 11 l hl σ
  have h2 : execList [.setlo 11 (l % 256), .sethi 11 (l / 256), .br c 11] σ
      = exec (.br c 11) (execList [.setlo 11 (l % 256), .sethi 11 (l / 256)] σ) := rfl
  rw [h2]
  have h3 := br_congr c 11 _ _ h1 (by decide)
  have hget : ((σ.setReg 11 (BitVec.ofInt 16 l)).addPc 2).get 11 = BitVec.ofInt 16 l := by
    simp [get_setReg]
  have hfl : ((σ.setReg 11 (BitVec.ofInt 16 l)).addPc 2).fl = σ.fl := by simp
  by_cases hc : c.holds σ.fl = true
  · have e : exec (.br c 11) ((σ.setReg 11 (BitVec.ofInt 16 l)).addPc 2)
        = { ((σ.setReg 11 (BitVec.ofInt 16 l)).addPc 2) with pc := l } := by
      simp only [exec, hfl, hc, ↓reduceIte, hget, toNat_ofInt16 hl]
    rw [e] at h3
    have e2 : pseudo (.brLabel c l) σ = { σ.setReg 11 (BitVec.ofInt 16 l) with pc := l } := by
      simp only [pseudo, hc, ↓reduceIte]
    rw [e2]
    exact ⟨fun r hr => (h3.1 r hr), fun a => (h3.2.1 a), h3.2.2.1, h3.2.2.2.1, h3.2.2.2.2⟩
  · have e : exec (.br c 11) ((σ.setReg 11 (BitVec.ofInt 16 l)).addPc 2)
        = ((σ.setReg 11 (BitVec.ofInt 16 l)).addPc 2).next := by
      simp only [exec, hfl, hc, ↓reduceIte, Bool.false_eq_true]
    rw [e] at h3
    have e2 : pseudo (.brLabel c l) σ = (σ.setReg 11 (BitVec.ofInt 16 l)).addPc 3 := by
      simp only [pseudo, hc, ↓reduceIte, Bool.false_eq_true]
    rw [e2]
    refine ⟨fun r hr => (h3.1 r hr), fun a => (h3.2.1 a), h3.2.2.1, h3.2.2.2.1.trans ?_, h3.2.2.2.2⟩
    simp; omega

end Hera
namespace Hera
open Spec

/-! ### what the regenerated `convert` methods produce -/

theorem to_u16_val (v : Int) (hv : -32768 ≤ v ∧ v < 65536) : Gen.to_u16 v = .ok (if v < 0 then 65536 + v else v) := by
  unfold Gen.to_u16
  have h1 : ¬ (v ≥ 65536) := by omega
  have h2 : ¬ (v < -32768) := by omega
  by_cases h3 : v < 0 <;> simp [h1, h2, h3] <;> first | rfl | exact congrArg Except.ok (by omega)

theorem C03_convert_SET (d : Tok) (v : Int) (hv : -32768 ≤ v ∧ v < 65536) :
    Gen.convert .SET [d, .int v] =
      .ok [⟨.SETLO, [d, .int ((if v < 0 then 65536 + v else v) % 256)]⟩,
           ⟨.SETHI, [d, .int ((if v < 0 then 65536 + v else v) / 256)]⟩] := by
  show Gen.SET.convert d (.int v) = _
  unfold Gen.SET.convert
  simp only [Tok.ival]
  show (Gen.to_u16 v >>= fun t_2 => _) = _
  rw [to_u16_val v hv]
  rfl

theorem C03_convert_fixed :
    Gen.convert .CON [] = .ok [⟨.FON, [.int 8]⟩] ∧ Gen.convert .COFF [] = .ok [⟨.FOFF, [.int 8]⟩] ∧
    Gen.convert .CBON [] = .ok [⟨.FON, [.int 16]⟩] ∧ Gen.convert .CCBOFF [] = .ok [⟨.FOFF, [.int 24]⟩] ∧
    Gen.convert .HALT [] = .ok [⟨.BRR, [.int 0]⟩] ∧ Gen.convert .NOP [] = .ok [⟨.BRR, [.int 1]⟩] :=
  ⟨rfl, rfl, rfl, rfl, rfl, rfl⟩

theorem C03_convert_regs (a b : Tok) :
    Gen.convert .MOVE [a, b] = .ok [⟨.OR, [a, b, .reg 0]⟩] ∧
    Gen.convert .CMP [a, b] = .ok [⟨.FON, [.int 8]⟩, ⟨.SUB, [.reg 0, a, b]⟩] ∧
    Gen.convert .NEG [a, b] = .ok [⟨.FON, [.int 8]⟩, ⟨.SUB, [a, .reg 0, b]⟩] ∧
    Gen.convert .NOT [a, b] = .ok [⟨.SETLO, [.reg 11, .int 255]⟩, ⟨.SETHI, [.reg 11, .int 255]⟩, ⟨.XOR, [a, .reg 11, b]⟩] ∧
    Gen.convert .FLAGS [a] = .ok [⟨.FOFF, [.int 8]⟩, ⟨.ADD, [.reg 0, a, .reg 0]⟩] :=
  ⟨rfl, rfl, rfl, rfl, rfl⟩

theorem C03_convert_SETRF (d : Tok) (v : Int) (hv : -32768 ≤ v ∧ v < 65536) :
    Gen.convert .SETRF [d, .int v] =
      .ok [⟨.SETLO, [d, .int ((if v < 0 then 65536 + v else v) % 256)]⟩,
           ⟨.SETHI, [d, .int ((if v < 0 then 65536 + v else v) / 256)]⟩,
           ⟨.FOFF, [.int 8]⟩, ⟨.ADD, [.reg 0, d, .reg 0]⟩] := by
  show Gen.SETRF.convert d (.int v) = _
  unfold Gen.SETRF.convert
  have := C03_convert_SET d v hv
  change Gen.SET.convert d (.int v) = _ at this
  rw [this]
  rfl

theorem C03_convert_BRlabel (c : Cls) (hc : c.isRegisterBranch = true) (l : Int) :
    Gen.convert c [.int l] = .ok [⟨.SETLO, [.reg 11, .int (l % 256)]⟩, ⟨.SETHI, [.reg 11, .int (l / 256)]⟩, ⟨c, [.reg 11]⟩] := by
  rw [convert_regbranch c _ hc]
  rfl

theorem C03_convert_CALLlabel (a : Tok) (l : Int) (hl : 0 ≤ l ∧ l < 65536) :
    Gen.convert .CALL [a, .int l] =
      .ok [⟨.SETLO, [.reg 13, .int (l % 256)]⟩, ⟨.SETHI, [.reg 13, .int (l / 256)]⟩, ⟨.CALL, [a, .reg 13]⟩] := by
  show Gen.CALL.convert a (.int l) = _
  unfold Gen.CALL.convert
  have := C03_convert_SET (.reg 13) l ⟨by omega, hl.2⟩
  change Gen.SET.convert (.reg 13) (.int l) = _ at this
  simp only [Tok.isReg, Bool.false_eq_true, ↓reduceIte, this, show ¬ (l < 0) by omega]
  rfl

end Hera
