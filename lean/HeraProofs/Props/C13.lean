import HeraModel.Model.Debugger
import HeraProofs.Props.C15
import HeraModel.Generated.Alias
/-
  C13 — undo and restart restore state faithfully.

  Two layers:
  * the value model of the session (`Dbg.Session`): every state-changing command pushes the debugger it started from,
    `undo` pops it - `C13_undo`, `C13_undo_walk`; `restart` = a fresh session's debugger with the breakpoints kept -
    `C13_restart`;
  * the obligation that makes the value model adequate for the Python objects: the snapshot must share no mutable
    structure with the live debugger. `Generated/Alias.lean` is regenerated from the source on every run: the
    attributes of `VirtualMachine` / `Debugger` that are mutated in place anywhere in hera/, and the attributes that
    `VirtualMachine.copy` / `Debugger.save` re-copy - `C13_copy_separate`.
-/
namespace Hera
open Dbg Gen

/-- **C13 (undo).** After any state-changing command, `undo` restores the complete debugger - machine (registers, flags,
    memory, pc, halt status, call stack, warning bookkeeping), breakpoints, step-over call depth - and the undo history
    to what they were before the command. -/
theorem C13_undo (dp : DProg) (fuel : Nat) (c : Cmd) (σ σ' : Session) (h : σ.run dp fuel c = .ok (some σ')) :
    σ'.undo = σ := by
  unfold Session.run at h
  cases ha : apply dp fuel c σ.cur with
  | error e => rw [ha] at h; cases h
  | ok r =>
    cases r with
    | none => rw [ha] at h; cases h
    | some s' => rw [ha] at h; cases h; rfl

def Session.runAll (dp : DProg) (fuel : Nat) : List Cmd → Session → Except PyErr (Option Session)
  | [], σ => .ok (some σ)
  | c :: cs, σ =>
    match σ.run dp fuel c with
    | .ok (some σ') => Session.runAll dp fuel cs σ'
    | r => r

def Session.undoN : Nat → Session → Session
  | 0, σ => σ
  | n + 1, σ => Session.undoN n σ.undo

/-- **C13 (repeated undo walks back command by command).** After any history of commands, as many `undo`s as commands
    return through the intermediate sessions to the session the history started from. -/
theorem C13_undo_walk (dp : DProg) (fuel : Nat) (cmds : List Cmd) (σ σ' : Session)
    (h : Session.runAll dp fuel cmds σ = .ok (some σ')) : Session.undoN cmds.length σ' = σ := by
  induction cmds generalizing σ with
  | nil => simp only [Session.runAll] at h; cases h; rfl
  | cons c cs ih =>
    simp only [Session.runAll] at h
    cases hr : σ.run dp fuel c with
    | error e => rw [hr] at h; cases h
    | ok r =>
      cases r with
      | none => rw [hr] at h; cases h
      | some σ1 =>
        rw [hr] at h
        have h1 := ih σ1 h
        -- undo the tail first, then the head
        have : ∀ (n : Nat) (τ : Session), Session.undoN (n + 1) τ = (Session.undoN n τ).undo := by
          intro n
          induction n with
          | zero => intro τ; rfl
          | succ n ihn => intro τ; show Session.undoN (n + 1) τ.undo = _; rw [ihn]; rfl
        rw [List.length_cons, this, h1]
        exact C13_undo dp fuel c σ σ1 hr

/-- `undo` at the start of a session changes nothing ("Nothing to undo."). -/
theorem C13_undo_empty (s : State) : ({ cur := s, old := [] } : Session).undo = { cur := s, old := [] } := rfl

/-- **C13 (restart).** `restart` puts the debugger in the state in which a fresh session on the same program and
    settings starts - machine reset, `--init` applied, data segment laid out, no open calls - and keeps the
    breakpoints. (The machine's already written output `out` is the terminal's, not the session's.) -/
theorem C13_restart (dp : DProg) (s : State) (vm : VM) (hs : vm.settings = s.vm.settings) (ho : vm.out = s.vm.out) :
    restart dp s = (match Dbg.initial dp vm with
      | .ok s0 => .ok { s0 with breaks := s.breaks }
      | .error e => .error e) := by
  unfold restart Dbg.initial Run.start
  rw [C15_reset_covers vm s.vm hs ho]
  cases Gen.VM.reset s.vm with
  | error e => rfl
  | ok r =>
    obtain ⟨u, vm0⟩ := r
    simp only
    cases Run.execData dp.p.data vm0 <;> rfl

/-- **C13 (snapshots are separate objects).** Every attribute of `VirtualMachine` that some code in hera/ mutates in place
    (item assignment, append, pop, extend, ...) is re-copied by `VirtualMachine.copy`, and every attribute of
    `Debugger` that is mutated in place or holds the machine is re-copied by `Debugger.save` - so a snapshot taken by
    `save()` cannot change afterwards. (Both lists are regenerated from the source.) -/
theorem C13_copy_separate :
    (∀ f ∈ Alias.vmMutatedInPlace, f ∈ Alias.vmCopied) ∧ (∀ f ∈ Alias.debuggerMutatedInPlace, f ∈ Alias.debuggerCopied) := by
  decide

end Hera
