import HeraProofs.Props.C04
/-
  C04, continued — placement of code labels over whole programs (the hand model `Chk.getLabels` of
  `checker.get_labels`, corresponded with the real checker on generated programs in all four modes).

  * `C04_pc_sum`: after any prefix of any program the label pass's instruction counter is the sum of the lengths
    (`codeLen`) of the operations of the prefix: declarations and data statements count 0, debugging operations 0
    when assembling / preprocessing, every other operation its `operation_length`.
  * `C04_label_value`: a label declared once denotes exactly that sum over the operations before it - whatever
    pseudo-operations, debugging operations, data statements or other labels lie in between, in every mode.
  * `C04_codeLen_expansion`: for an operation whose operands have the kinds the type checker lets through, `codeLen`
    is the length of what `convert` (regenerated) emits for it: the sum above is the index, in the final instruction
    stream, of the first instruction that follows the label.
-/
namespace Hera
open Chk

/-- instructions the label pass counts for one operation -/
def codeLen (st : CSettings) (op : SOp) : Int :=
  if op.cls = .LABEL ∨ op.cls = .DLABEL ∨ op.cls = .CONSTANT ∨ op.cls = .INTEGER ∨ op.cls = .LP_STRING ∨ op.cls = .DSKIP then 0
  else if isDebugSkipped st op.cls then 0
  else operationLength op

def sumLen (st : CSettings) (ops : List SOp) : Int := (ops.map (codeLen st)).foldl (· + ·) 0

theorem foldl_add_shift (l : List Int) (a : Int) : l.foldl (· + ·) a = a + l.foldl (· + ·) 0 := by
  induction l generalizing a with
  | nil => simp
  | cons x xs ih => simp only [List.foldl_cons]; rw [ih (a + x), ih (0 + x)]; omega

theorem sumLen_cons (st : CSettings) (op : SOp) (ops : List SOp) : sumLen st (op :: ops) = codeLen st op + sumLen st ops := by
  unfold sumLen
  simp only [List.map_cons, List.foldl_cons]
  rw [foldl_add_shift]; omega

theorem labelStep_fields (st : CSettings) (s : LabelState) (op : SOp) :
    (labelStep st s op).pc = (labelCore st s op).1.pc ∧ (labelStep st s op).tab = (labelCore st s op).1.tab ∧
    (labelStep st s op).dc = (labelCore st s op).1.dc ∧ (labelStep st s op).consts = (labelCore st s op).1.consts := by
  unfold labelStep
  simp only
  split
  · exact ⟨rfl, rfl, rfl, rfl⟩
  · split <;> exact ⟨rfl, rfl, rfl, rfl⟩

theorem labelCore_pc (st : CSettings) (s : LabelState) (op : SOp) :
    (labelCore st s op).1.pc = s.pc + codeLen st op := by
  unfold labelCore codeLen
  simp only
  by_cases h1 : op.cls = .LABEL
  · rw [if_pos h1, if_pos (Or.inl h1)]
    split
    · split <;> simp
    · simp
  rw [if_neg h1]
  by_cases h2 : op.cls = .DLABEL
  · rw [if_pos h2, if_pos (Or.inr (Or.inl h2))]; split <;> simp
  rw [if_neg h2]
  by_cases h3 : op.cls = .CONSTANT
  · rw [if_pos h3, if_pos (Or.inr (Or.inr (Or.inl h3)))]
    split
    · simp
    · split <;> simp
    · simp
  rw [if_neg h3]
  by_cases h4 : op.cls = .INTEGER
  · rw [if_pos h4, if_pos (Or.inr (Or.inr (Or.inr (Or.inl h4))))]; simp
  rw [if_neg h4]
  by_cases h5 : op.cls = .LP_STRING
  · rw [if_pos h5, if_pos (Or.inr (Or.inr (Or.inr (Or.inr (Or.inl h5)))))]; split <;> simp
  rw [if_neg h5]
  by_cases h6 : op.cls = .DSKIP
  · rw [if_pos h6, if_pos (Or.inr (Or.inr (Or.inr (Or.inr (Or.inr h6)))))]
    split
    · simp
    · split <;> simp
    · simp
  have hne : ¬(op.cls = .LABEL ∨ op.cls = .DLABEL ∨ op.cls = .CONSTANT ∨ op.cls = .INTEGER ∨ op.cls = .LP_STRING ∨ op.cls = .DSKIP) := by
    simp [h1, h2, h3, h4, h5, h6]
  rw [if_neg h6, if_neg hne]
  by_cases h7 : isDebugSkipped st op.cls = true
  · simp [h7]
  · simp [h7]

theorem labelStep_pc (st : CSettings) (s : LabelState) (op : SOp) :
    (labelStep st s op).pc = s.pc + codeLen st op := by
  rw [(labelStep_fields st s op).1, labelCore_pc]

theorem C04_pc_sum (st : CSettings) (ops : List SOp) (s : LabelState) :
    (ops.foldl (labelStep st) s).pc = s.pc + sumLen st ops := by
  induction ops generalizing s with
  | nil => simp [sumLen]
  | cons op rest ih =>
    simp only [List.foldl_cons]
    rw [ih, labelStep_pc, sumLen_cons]; omega

/-! ### the symbol table as a Python dict -/

theorem find_map_same (t : SymTab) (k : Val) (v : SymVal) (h : t.any (fun p => p.1 == k) = true) :
    ((t.map (fun p => if p.1 == k then (k, v) else p)).find? (fun p => p.1 == k)).map (·.2) = some v := by
  induction t with
  | nil => simp at h
  | cons p rest ih =>
    simp only [List.map_cons, List.find?_cons]
    by_cases hp : (p.1 == k) = true
    · simp [hp]
    · simp only [hp, Bool.false_eq_true, ↓reduceIte]
      simp only [List.any_cons, hp, Bool.false_or] at h
      exact ih h

theorem find_map_other (t : SymTab) (k k' : Val) (v : SymVal) (hne : k' ≠ k) :
    (t.map (fun p => if p.1 == k then (k, v) else p)).find? (fun p => p.1 == k') = t.find? (fun p => p.1 == k') := by
  induction t with
  | nil => rfl
  | cons p rest ih =>
    simp only [List.map_cons, List.find?_cons]
    by_cases hp : (p.1 == k) = true
    · have hpk : p.1 = k := by simpa using hp
      have h1 : (k == k') = false := by simp; exact fun h => hne h.symm
      have h2 : (p.1 == k') = false := by rw [hpk]; exact h1
      simp only [hp, ↓reduceIte, h1, h2]
      exact ih
    · simp only [hp, Bool.false_eq_true, ↓reduceIte]
      split
      · rfl
      · exact ih

theorem get_set_same (t : SymTab) (k : Val) (v : SymVal) : (t.set k v).get? k = some v := by
  unfold SymTab.set SymTab.get?
  by_cases h : t.any (fun p => p.1 == k) = true
  · rw [if_pos h]; exact find_map_same t k v h
  · rw [if_neg h]
    have hnone : t.find? (fun p => p.1 == k) = none := by
      rw [List.find?_eq_none]
      intro x hx hxk
      exact h (List.any_eq_true.mpr ⟨x, hx, hxk⟩)
    simp [List.find?_append, hnone]

theorem get_set_other (t : SymTab) (k k' : Val) (v : SymVal) (hne : k' ≠ k) : (t.set k v).get? k' = t.get? k' := by
  unfold SymTab.set SymTab.get?
  by_cases h : t.any (fun p => p.1 == k) = true
  · rw [if_pos h, find_map_other t k k' v hne]
  · rw [if_neg h]
    have h1 : (k == k') = false := by simp; exact fun h => hne h.symm
    simp only [List.find?_append, List.find?_cons, h1, List.find?_nil]
    cases t.find? (fun p => p.1 == k') <;> rfl

/-- what one iteration does to the entry of `name`: a LABEL / DLABEL of that name sets it, nothing else touches it -/
def declares (op : SOp) (name : Val) : Prop := (op.cls = .LABEL ∨ op.cls = .DLABEL) ∧ op.args = [name]

theorem labelCore_tab_other (st : CSettings) (s : LabelState) (op : SOp) (name : Val) (h : ¬ declares op name) :
    (labelCore st s op).1.tab.get? name = s.tab.get? name := by
  unfold labelCore
  simp only
  by_cases h1 : op.cls = .LABEL
  · rw [if_pos h1]
    split
    · rename_i k hk
      have : name ≠ k := fun e => h ⟨Or.inl h1, by rw [hk, e]⟩
      split <;> exact get_set_other _ _ _ _ this
    · rfl
  rw [if_neg h1]
  by_cases h2 : op.cls = .DLABEL
  · rw [if_pos h2]
    split
    · rename_i k hk
      have : name ≠ k := fun e => h ⟨Or.inr h2, by rw [hk, e]⟩
      exact get_set_other _ _ _ _ this
    · rfl
  rw [if_neg h2]
  repeat' split
  all_goals rfl

theorem fold_tab_other (st : CSettings) (ops : List SOp) (s : LabelState) (name : Val) (h : ∀ op ∈ ops, ¬ declares op name) :
    (ops.foldl (labelStep st) s).tab.get? name = s.tab.get? name := by
  induction ops generalizing s with
  | nil => rfl
  | cons op rest ih =>
    simp only [List.foldl_cons]
    rw [ih _ (fun o ho => h o (List.mem_cons_of_mem _ ho)), (labelStep_fields st s op).2.1]
    exact labelCore_tab_other st s op name (h op List.mem_cons_self)

/-- **C04 (code labels).** In every mode, for every program `pre ++ LABEL(name) :: post` in which `name` is not declared
    again later (and which lies within the 16-bit address space), the symbol table that `get_labels` builds gives `name`
    the number of instructions that the operations of `pre` occupy: the sum of their `operation_length`s, with declarations and data statements counting 0 and
    debugging operations counting 0 exactly when assembling or preprocessing. -/
theorem C04_label_value (st : CSettings) (pre post : List SOp) (lab : SOp) (name : Str)
    (hl : lab.cls = .LABEL) (ht : lab.toks = [.sym name])
    (hpost : ∀ op ∈ post, ¬ declares op (.str name))
    (hfit : outOfRange (sumLen st pre) = false) :
    (getLabels (pre ++ lab :: post) st).1.get? (.str name) = some (.label (sumLen st pre)) := by
  unfold getLabels
  simp only [List.foldl_append, List.foldl_cons]
  rw [fold_tab_other st post _ _ hpost, (labelStep_fields st _ lab).2.1]
  have hargs : lab.args = [.str name] := by simp [SOp.args, ht, Tok.val]
  have hpc : (List.foldl (labelStep st) { dc := st.data_start } pre).pc = sumLen st pre := by
    rw [C04_pc_sum]; simp
  unfold labelCore
  simp only [hl, ↓reduceIte, hargs, hpc, hfit, Bool.false_eq_true]
  rw [get_set_same]

/-- a label at an address that does not fit in 16 bits gets the dummy value 0 (next to an error message) -/
theorem C04_label_value_out_of_range (st : CSettings) (pre post : List SOp) (lab : SOp) (name : Str)
    (hl : lab.cls = .LABEL) (ht : lab.toks = [.sym name])
    (hpost : ∀ op ∈ post, ¬ declares op (.str name))
    (hfit : outOfRange (sumLen st pre) = true) :
    (getLabels (pre ++ lab :: post) st).1.get? (.str name) = some (.label 0) := by
  unfold getLabels
  simp only [List.foldl_append, List.foldl_cons]
  rw [fold_tab_other st post _ _ hpost, (labelStep_fields st _ lab).2.1]
  have hargs : lab.args = [.str name] := by simp [SOp.args, ht, Tok.val]
  have hpc : (List.foldl (labelStep st) { dc := st.data_start } pre).pc = sumLen st pre := by
    rw [C04_pc_sum]; simp
  unfold labelCore
  simp only [hl, ↓reduceIte, hargs, hpc, hfit]
  rw [get_set_same]


/-! ### `codeLen` is what `convert` emits into the instruction stream -/

/-- does a converted operation go into the instruction stream (`check()`: not a data statement, and not a debugging
    operation when assembling / preprocessing) -/
def isCode (st : CSettings) (d : Enc.DOp) : Bool := !d.cls.isDataOp && !isDebugSkipped st d.cls

def emitted (st : CSettings) (l : List Enc.DOp) : Int := ((l.filter (isCode st)).length : Int)

theorem dis_go_cls (v : Int) (allow : Bool) (l : List (String × Cls)) (d : Enc.DOp)
    (h : Enc.disassemble.go v allow l = .ok d) : d.cls = .OPCODE ∨ d.cls.BITV ≠ [] := by
  induction l with
  | nil =>
    rw [Enc.disassemble.go] at h
    split at h
    · injection h with h; subst h; exact Or.inl rfl
    · cases h
  | cons x xs ih =>
    obtain ⟨n, c⟩ := x
    rw [Enc.disassemble.go] at h
    by_cases hb : c.BITV = []
    · simp only [hb, ↓reduceIte] at h
      exact ih h
    · simp only [hb, ↓reduceIte] at h
      cases hm : Enc.matchBitvector c.BITV v.toNat with
      | none => rw [hm] at h; exact ih h
      | some m =>
        rw [hm] at h
        simp only at h
        unfold Enc.clsDisassemble at h
        split at h
        · split at h
          · injection h with h; subst h; exact Or.inr hb
          · injection h with h; subst h; exact Or.inr hb
          · cases h
        · injection h with h; subst h; exact Or.inr hb

theorem real_not_data (c : Cls) (h : c = .OPCODE ∨ c.BITV ≠ []) : c.isDataOp = false ∧ c.isDebuggingOp = false := by
  cases c <;> first | exact ⟨rfl, rfl⟩ | (rcases h with h | h <;> first | cases h | exact absurd rfl h)


theorem SET_code (t0 t1 : Tok) (l : List Enc.DOp) (h : Gen.SET.convert t0 t1 = .ok l) :
    ∀ d ∈ l, d.cls.isDataOp = false ∧ d.cls.isDebuggingOp = false := by
  unfold Gen.SET.convert at h
  obtain ⟨a, _, h⟩ := bind_ok_length h
  obtain ⟨b, _, h⟩ := bind_ok_length h
  injection h with h
  subst h
  intro d hd
  simp only [List.mem_cons, List.not_mem_nil, or_false] at hd
  rcases hd with rfl | rfl <;> exact ⟨rfl, rfl⟩

theorem FLAGS_code (t0 : Tok) (l : List Enc.DOp) (h : Gen.FLAGS.convert t0 = .ok l) :
    ∀ d ∈ l, d.cls.isDataOp = false ∧ d.cls.isDebuggingOp = false := by
  unfold Gen.FLAGS.convert at h
  injection h with h
  subst h
  intro d hd
  simp only [List.mem_cons, List.not_mem_nil, or_false] at hd
  rcases hd with rfl | rfl <;> exact ⟨rfl, rfl⟩

theorem CALL_code (t0 t1 : Tok) (l : List Enc.DOp) (h : Gen.CALL.convert t0 t1 = .ok l) :
    ∀ d ∈ l, d.cls.isDataOp = false ∧ d.cls.isDebuggingOp = false := by
  unfold Gen.CALL.convert at h
  by_cases hreg : t1.isReg = true
  · simp only [hreg, ↓reduceIte] at h
    injection h with h; subst h
    intro d hd; simp only [List.mem_singleton] at hd; subst hd; exact ⟨rfl, rfl⟩
  · simp only [hreg, Bool.false_eq_true, ↓reduceIte] at h
    obtain ⟨a, ha, h⟩ := bind_ok_length h
    injection h with h; subst h
    intro d hd
    simp only [List.mem_append, List.mem_singleton] at hd
    rcases hd with hd | rfl
    · exact SET_code _ _ _ ha d hd
    · exact ⟨rfl, rfl⟩

theorem SETRF_code (t0 t1 : Tok) (l : List Enc.DOp) (h : Gen.SETRF.convert t0 t1 = .ok l) :
    ∀ d ∈ l, d.cls.isDataOp = false ∧ d.cls.isDebuggingOp = false := by
  unfold Gen.SETRF.convert at h
  obtain ⟨a, ha, h⟩ := bind_ok_length h
  obtain ⟨b, hb, h⟩ := bind_ok_length h
  injection h with h; subst h
  intro d hd
  simp only [List.mem_append] at hd
  rcases hd with hd | hd
  · exact SET_code _ _ _ ha d hd
  · exact FLAGS_code _ _ hb d hd

theorem OPCODE_code (t0 : Tok) (l : List Enc.DOp) (h : Gen.OPCODE.convert t0 = .ok l) :
    ∀ d ∈ l, d.cls.isDataOp = false ∧ d.cls.isDebuggingOp = false := by
  unfold Gen.OPCODE.convert at h
  obtain ⟨a, _, h⟩ := bind_ok_length h
  obtain ⟨b, hb, h⟩ := bind_ok_length h
  injection h with h; subst h
  intro d hd
  simp only [List.mem_singleton] at hd
  subst hd
  unfold Enc.disassemble at hb
  split at hb
  · cases hb
  · exact real_not_data _ (dis_go_cls _ _ _ _ hb)

/-- the operations an expansion consists of are machine instructions (never data statements or debugging operations) -/
theorem convert_code (c : Cls) (toks : List Tok) (l : List Enc.DOp) (hlen : toks.length = c.P.length)
    (hc : c.isDataOp = false ∧ c.isDebuggingOp = false) (h : Gen.convert c toks = .ok l) :
    ∀ d ∈ l, d.cls.isDataOp = false ∧ d.cls.isDebuggingOp = false := by
  by_cases ha : c.convertDef = "AbstractOperation"
  · rw [convert_abstract c toks ha] at h
    injection h with h
    subst h
    intro d hd
    simp only [List.mem_singleton] at hd
    subst hd
    exact hc
  · by_cases hr : c.isRegisterBranch = true
    · have hp : c.P.length = 1 := by cases c <;> first | rfl | (exact absurd hr (by decide))
      rw [hp] at hlen
      obtain ⟨t, rfl⟩ : ∃ t, toks = [t] := by
        rcases toks with _ | ⟨t, _ | _⟩ <;> simp at hlen
        exact ⟨t, rfl⟩
      rw [convert_regbranch c t hr] at h
      unfold Gen.RegisterBranch.convert at h
      by_cases hreg : t.isReg = true
      · simp only [hreg, ↓reduceIte] at h
        injection h with h; subst h
        intro d hd; simp only [List.mem_singleton] at hd; subst hd; exact hc
      · simp only [hreg, Bool.false_eq_true, ↓reduceIte] at h
        obtain ⟨a, _, h⟩ := bind_ok_length h
        injection h with h; subst h
        intro d hd
        simp only [List.mem_cons, List.not_mem_nil, or_false] at hd
        rcases hd with rfl | rfl | rfl
        · exact ⟨rfl, rfl⟩
        · exact ⟨rfl, rfl⟩
        · exact hc
    · cases c <;> first
        | (exact absurd rfl ha)
        | (exact absurd rfl hr)
        | (exact absurd hc.1 (by decide))
        | (rcases toks with _ | ⟨t0, _ | ⟨t1, _ | ⟨t2, _ | ⟨t3, tl⟩⟩⟩⟩ <;> simp [Cls.P] at hlen <;>
            (unfold Gen.convert at h; dsimp only at h) <;>
            first
              | exact SET_code _ _ _ h
              | exact CALL_code _ _ _ h
              | exact SETRF_code _ _ _ h
              | exact OPCODE_code _ _ h
              | (injection h with h; subst h; intro d hd; simp only [List.mem_cons, List.not_mem_nil, or_false] at hd;
                 rcases hd with rfl | rfl | rfl <;> exact ⟨rfl, rfl⟩)
              | (injection h with h; subst h; intro d hd; simp only [List.mem_cons, List.not_mem_nil, or_false] at hd;
                 rcases hd with rfl | rfl <;> exact ⟨rfl, rfl⟩)
              | (injection h with h; subst h; intro d hd; simp only [List.mem_cons, List.not_mem_nil, or_false] at hd;
                 subst hd; exact ⟨rfl, rfl⟩)
              | (injection h with h; subst h; intro d hd; cases hd))


/-- the tokens of an operation after label substitution: symbols have become integers, everything else is as written -/
def Substd : List Tok → List Tok → Prop
  | [], [] => True
  | t :: ts, t' :: ts' => (t' = t ∨ (isSym t = true ∧ ∃ v, t' = Tok.int v)) ∧ Substd ts ts'
  | _, _ => False

theorem Substd_length : ∀ (a b : List Tok), Substd a b → a.length = b.length
  | [], [], _ => rfl
  | [], _ :: _, h => by cases h
  | _ :: _, [], h => by cases h
  | _ :: ts, _ :: ts', h => by simp only [List.length_cons]; rw [Substd_length ts ts' h.2]

theorem filter_all {α} (p : α → Bool) (l : List α) (h : ∀ x ∈ l, p x = true) : l.filter p = l := by
  induction l with
  | nil => rfl
  | cons x xs ih =>
    rw [List.filter_cons, if_pos (h x List.mem_cons_self), ih (fun y hy => h y (List.mem_cons_of_mem _ hy))]

/-- **C04 (the counted length is the emitted length).** For an operation with the right number of operands whose
    register-branch operand is a register or a symbol (what the type checker lets through), the number of operations
    that its expansion (regenerated `convert`, after label substitution) contributes to the final instruction stream is
    exactly what the label pass counted for it - in every mode. -/
theorem C04_codeLen_expansion (st : CSettings) (op : SOp) (toks' : List Tok) (l : List Enc.DOp)
    (hs : Substd op.toks toks') (hlen : op.toks.length = op.cls.P.length)
    (hty : op.cls.isRegisterBranch = true → ∀ t, op.toks = [t] → t.isReg = true ∨ isSym t = true)
    (h : Gen.convert op.cls toks' = .ok l) : emitted st l = codeLen st op := by
  have hlen' : toks'.length = op.cls.P.length := by rw [← hlen]; exact (Substd_length _ _ hs).symm
  have hL := C04_convert_length op.cls toks' l hlen' h
  by_cases hd : op.cls.isDataOp = true ∨ op.cls = .LABEL
  · -- declarations and data statements: nothing goes into the instruction stream
    have h0 : codeLen st op = 0 := by
      unfold codeLen
      rw [if_pos]
      rcases hd with hd | hd
      · revert hd; cases op.cls <;> simp [Cls.isDataOp]
      · exact Or.inl hd
    rw [h0]
    unfold emitted
    by_cases hz : op.cls = .LABEL ∨ op.cls = .DLABEL ∨ op.cls = .CONSTANT
    · have : l.length = 0 := by
        rw [hL]; rcases hz with hz | hz | hz <;> rw [hz] <;> rfl
      have : l = [] := List.eq_nil_of_length_eq_zero this
      rw [this]; rfl
    · have habs : op.cls.convertDef = "AbstractOperation" := by
        rcases hd with hd | hd
        · revert hd hz; cases op.cls <;> simp [Cls.isDataOp, Cls.convertDef]
        · exact absurd (Or.inl hd) hz
      rw [convert_abstract _ _ habs] at h
      injection h with h
      subst h
      have hdd : op.cls.isDataOp = true := by
        rcases hd with hd | hd
        · exact hd
        · exact absurd (Or.inl hd) hz
      simp [isCode, hdd]
  · have hnd : op.cls.isDataOp = false := by
      cases hh : op.cls.isDataOp
      · rfl
      · exact absurd (Or.inl hh) hd
    have hnl : op.cls ≠ .LABEL := fun hh => hd (Or.inr hh)
    have hdecl : ¬(op.cls = .LABEL ∨ op.cls = .DLABEL ∨ op.cls = .CONSTANT ∨ op.cls = .INTEGER ∨ op.cls = .LP_STRING ∨ op.cls = .DSKIP) := by
      intro hh
      rcases hh with hh | hh | hh | hh | hh | hh
      · exact hnl hh
      all_goals (rw [hh] at hnd; cases hnd)
    unfold codeLen
    rw [if_neg hdecl]
    by_cases hdbg : op.cls.isDebuggingOp = true
    · -- a debugging operation: itself, or nothing when assembling / preprocessing
      have habs : op.cls.convertDef = "AbstractOperation" := by
        revert hdbg; cases op.cls <;> simp [Cls.isDebuggingOp, Cls.convertDef]
      rw [convert_abstract _ _ habs] at h
      injection h with h
      subst h
      have hol : operationLength op = 1 := by
        unfold operationLength
        revert hdbg; cases op.cls <;> simp [Cls.isDebuggingOp, Cls.isRegisterBranch]
      unfold emitted
      by_cases hsk : isDebugSkipped st op.cls = true
      · rw [if_pos hsk]; simp [isCode, hsk]
      · rw [if_neg hsk, hol]; simp [isCode, hsk, hnd]
    · have hndbg : op.cls.isDebuggingOp = false := by
        cases hh : op.cls.isDebuggingOp
        · rfl
        · exact absurd hh hdbg
      have hsk : isDebugSkipped st op.cls = false := by simp [isDebugSkipped, hndbg]
      rw [if_neg (by simp [hsk])]
      have hcode := convert_code op.cls toks' l hlen' ⟨hnd, hndbg⟩ h
      unfold emitted
      rw [filter_all _ _ (fun d hd => by
        obtain ⟨h1, h2⟩ := hcode d hd
        simp [isCode, isDebugSkipped, h1, h2])]
      rw [hL]
      -- the expansion length of the substituted tokens is the operation length of the written ones
      unfold expansionLength operationLength
      by_cases hr : op.cls.isRegisterBranch = true
      · have hp : op.cls.P.length = 1 := by revert hr; cases op.cls <;> simp [Cls.isRegisterBranch, Cls.P]
        rw [hp] at hlen
        obtain ⟨t, ht⟩ : ∃ t, op.toks = [t] := by
          rcases hto : op.toks with _ | ⟨t, _ | _⟩ <;> rw [hto] at hlen <;> simp at hlen
          exact ⟨t, rfl⟩
        rw [ht] at hs
        obtain ⟨t', rfl, hrel⟩ : ∃ t', toks' = [t'] ∧ (t' = t ∨ (isSym t = true ∧ ∃ v, t' = Tok.int v)) := by
          rcases toks' with _ | ⟨t', _ | ⟨x, xs⟩⟩
          · cases hs
          · exact ⟨t', rfl, hs.1⟩
          · exact absurd hs.2 (by simp [Substd])
        simp only [hr, ↓reduceIte, ht]
        rcases hty hr t ht with hreg | hsym
        · have : isSym t = false := by cases t <;> simp_all [isSym, Tok.isReg]
          rcases hrel with rfl | ⟨hs2, _⟩
          · simp [hreg, this]
          · rw [this] at hs2; cases hs2
        · have hnr : t.isReg = false := by cases t <;> simp_all [isSym, Tok.isReg]
          rcases hrel with rfl | ⟨_, v, rfl⟩
          · simp [hnr, hsym]
          · simp [Tok.isReg, hsym]
      · have hrf : op.cls.isRegisterBranch = false := by
          cases hh : op.cls.isRegisterBranch
          · rfl
          · exact absurd hh hr
        simp only [hrf, Bool.false_eq_true, ↓reduceIte]
        by_cases hcall : op.cls = .CALL
        · have hp : op.cls.P.length = 2 := by rw [hcall]; rfl
          rw [hp] at hlen
          obtain ⟨a, t, ht⟩ : ∃ a t, op.toks = [a, t] := by
            rcases hto : op.toks with _ | ⟨a, _ | ⟨t, _ | _⟩⟩ <;> rw [hto] at hlen <;> simp at hlen
            exact ⟨a, t, rfl⟩
          rw [ht] at hs
          obtain ⟨a', t', rfl, hrel⟩ : ∃ a' t', toks' = [a', t'] ∧ (t' = t ∨ (isSym t = true ∧ ∃ v, t' = Tok.int v)) := by
            rcases toks' with _ | ⟨a', _ | ⟨t', _ | ⟨x, xs⟩⟩⟩
            · cases hs
            · exact absurd hs.2 (by simp [Substd])
            · exact ⟨a', t', rfl, hs.2.1⟩
            · exact absurd hs.2.2 (by simp [Substd])
          simp only [hcall, ht]
          rcases hrel with rfl | ⟨hsym, v, rfl⟩
          · split <;> rfl
          · have hnr : t.isReg = false := by cases t <;> simp_all [isSym, Tok.isReg]
            have hi : (Tok.int v).isReg = false := rfl
            rw [hi, hnr]; rfl
        · revert hcall hrf hnd hndbg hnl
          cases op.cls <;> simp [Cls.isRegisterBranch, Cls.isDataOp, Cls.isDebuggingOp]


/-! ### whole programs: the value of a label is an index into the final instruction stream -/

theorem Substd_refl : ∀ (a : List Tok), Substd a a
  | [] => trivial
  | _ :: ts => ⟨Or.inl rfl, Substd_refl ts⟩

theorem mapM_subst (tab : SymTab) : ∀ (toks out : List Tok),
    toks.mapM (fun t => match t with
      | .sym s => (match tab.get? (.str s) with | some v => (.ok (Tok.int v.val) : Except PyErr Tok) | none => .error .KeyError)
      | t => .ok t) = .ok out → Substd toks out
  | [], out, h => by
    simp only [List.mapM_nil] at h
    injection h with h; subst h; trivial
  | t :: ts, out, h => by
    simp only [List.mapM_cons] at h
    obtain ⟨t', ht', h⟩ := bind_ok_length h
    obtain ⟨ts', hts', h⟩ := bind_ok_length h
    injection h with h; subst h
    refine ⟨?_, mapM_subst tab ts ts' hts'⟩
    cases t with
    | sym s =>
      simp only at ht'
      split at ht'
      · injection ht' with ht'; exact Or.inr ⟨rfl, _, ht'.symm⟩
      · cases ht'
    | int v => simp only at ht'; injection ht' with ht'; exact Or.inl ht'.symm
    | reg v => simp only at ht'; injection ht' with ht'; exact Or.inl ht'.symm
    | str v => simp only at ht'; injection ht' with ht'; exact Or.inl ht'.symm

theorem ite_ok {α} {c : Prop} [Decidable c] {e : PyErr} {x : Except PyErr α} {r : α}
    (h : (if c then (.error e : Except PyErr α) else x) = .ok r) : x = .ok r := by
  split at h
  · cases h
  · exact h

/-- what the first half of an iteration of `convert_ops` hands to `convert`: the same operation with symbols replaced -/
theorem convStep_shape (tab : SymTab) (pc : Int) (op op' : SOp) (m m' : Msgs)
    (h : convStep tab pc op m = .ok (op', m')) : op'.cls = op.cls ∧ Substd op.toks op'.toks := by
  unfold convStep at h
  simp only at h
  split at h
  · -- a relative branch to a label
    rename_i target hrel
    split at h
    · injection h with h; injection h with h1 h2; subst h1; exact ⟨rfl, Substd_refl _⟩
    · injection h with h; injection h with h1 h2; subst h1
      refine ⟨rfl, ?_⟩
      -- the first token is a symbol
      split at hrel
      · split at hrel
        · rename_i s rest htoks
          simp only [htoks, List.drop_succ_cons, List.drop_zero]
          exact ⟨Or.inr ⟨rfl, _, rfl⟩, Substd_refl _⟩
        · cases hrel
      · cases hrel
  · have h := ite_ok h
    · obtain ⟨o, ho, h⟩ := bind_ok_length h
      injection h with h; injection h with h1 h2; subst h1
      unfold substituteLabel at ho
      obtain ⟨toks, htoks, ho⟩ := bind_ok_length ho
      injection ho with ho; subst ho
      exact ⟨rfl, mapM_subst tab _ _ htoks⟩

/-- operations of the final instruction stream (`check()`'s filter on the converted list) -/
def codeCount (st : CSettings) (l : List ROp) : Int :=
  ((l.filter (fun r => !r.cls.isDataOp && !isDebugSkipped st r.cls)).length : Int)

theorem codeCount_append (st : CSettings) (a b : List ROp) : codeCount st (a ++ b) = codeCount st a + codeCount st b := by
  simp [codeCount, List.filter_append]

theorem codeCount_toROps (st : CSettings) (l : List Enc.DOp) (loc : Int) (k : Nat) :
    codeCount st (toROps l loc k) = emitted st l := by
  unfold codeCount emitted toROps
  rw [List.filter_map, List.length_map]
  rfl

/-- an operation as the type checker lets it through, as far as its length is concerned -/
def Shaped (op : SOp) : Prop :=
  op.toks.length = op.cls.P.length ∧
  (op.cls.isRegisterBranch = true → ∀ t, op.toks = [t] → t.isReg = true ∨ isSym t = true)

/-- the loop of `convert_ops` only appends, and what it appends for a list of operations holds as many
    instruction-stream operations as the label pass counted for them -/
theorem convGo_count (st : CSettings) (tab : SymTab) : ∀ (ops : List SOp) (k : Nat) (pc : Int) (acc r : List ROp) (m m' : Msgs),
    (∀ op ∈ ops, Shaped op) → convGo tab ops k pc acc m = .ok (r, m') →
    ∃ sfx, r = acc ++ sfx ∧ codeCount st sfx = sumLen st ops
  | [], k, pc, acc, r, m, m', _, h => by
    rw [convGo] at h
    injection h with h; injection h with h1 h2; subst h1
    exact ⟨[], by simp, by simp [codeCount, sumLen]⟩
  | op :: rest, k, pc, acc, r, m, m', hsh, h => by
    rw [convGo] at h
    cases hs : convStep tab pc op m with
    | error e => rw [hs] at h; cases h
    | ok p =>
      obtain ⟨op', m1⟩ := p
      rw [hs] at h
      simp only at h
      cases hc : Gen.convert op'.cls op'.toks with
      | error e => rw [hc] at h; cases h
      | ok newOps =>
        rw [hc] at h
        simp only at h
        obtain ⟨sfx, hr, hcnt⟩ := convGo_count st tab rest _ _ _ r m1 m' (fun o ho => hsh o (List.mem_cons_of_mem _ ho)) h
        refine ⟨toROps newOps op.loc k ++ sfx, by rw [hr, List.append_assoc], ?_⟩
        obtain ⟨hcls, hsub⟩ := convStep_shape tab pc op op' m m1 hs
        obtain ⟨hlen, hty⟩ := hsh op List.mem_cons_self
        rw [hcls] at hc
        rw [codeCount_append, codeCount_toROps, hcnt, sumLen_cons,
          C04_codeLen_expansion st op op'.toks newOps hsub hlen hty hc]

theorem convGo_split (tab : SymTab) : ∀ (a b : List SOp) (k : Nat) (pc : Int) (acc r : List ROp) (m m' : Msgs),
    convGo tab (a ++ b) k pc acc m = .ok (r, m') →
    ∃ acc1 m1 pc1, convGo tab a k pc acc m = .ok (acc1, m1) ∧ convGo tab b (k + a.length) pc1 acc1 m1 = .ok (r, m')
  | [], b, k, pc, acc, r, m, m', h => ⟨acc, m, pc, by rw [convGo], by simpa using h⟩
  | op :: rest, b, k, pc, acc, r, m, m', h => by
    rw [List.cons_append, convGo] at h
    rw [convGo]
    cases hs : convStep tab pc op m with
    | error e => rw [hs] at h; cases h
    | ok p =>
      obtain ⟨op', m1⟩ := p
      rw [hs] at h
      simp only at h ⊢
      cases hc : Gen.convert op'.cls op'.toks with
      | error e => rw [hc] at h; cases h
      | ok newOps =>
        rw [hc] at h
        simp only at h ⊢
        obtain ⟨acc1, m2, pc1, h1, h2⟩ := convGo_split tab rest b _ _ _ r m1 m' h
        refine ⟨acc1, m2, pc1, h1, ?_⟩
        have : k + (op :: rest).length = k + 1 + rest.length := by simp only [List.length_cons]; omega
        rw [this]; exact h2

/-- **C04 (a code label is an index into the final instruction stream).** Let the checker's model convert a program
    `pre ++ LABEL(name) :: post` whose operations have the shape the type checker lets through, with the symbol table of
    `get_labels`. Then the converted list splits as `r1 ++ r2` where `r1` comes from `pre` and `r2` from `post`, and the
    number of instruction-stream operations in `r1` is exactly the value `get_labels` gave to `name` (`C04_label_value`):
    the label denotes the first executable instruction that follows it, whatever pseudo-operations, debugging
    operations, data statements or other labels lie before it, in every mode. -/
theorem C04_label_is_stream_index (st : CSettings) (tab : SymTab) (pre post : List SOp) (lab : SOp) (name : Str)
    (hl : lab.cls = .LABEL) (ht : lab.toks = [.sym name])
    (hpost : ∀ op ∈ post, ¬ declares op (.str name))
    (hshape : ∀ op ∈ pre ++ lab :: post, Shaped op)
    (hfit : outOfRange (sumLen st pre) = false)
    (rops : List ROp) (m : Msgs) (h : convertOps (pre ++ lab :: post) tab = .ok (rops, m)) :
    ∃ r1 r2, rops = r1 ++ r2 ∧
      (getLabels (pre ++ lab :: post) st).1.get? (.str name) = some (.label (codeCount st r1)) ∧
      codeCount st r2 = sumLen st post := by
  unfold convertOps at h
  obtain ⟨acc1, m1, pc1, h1, h2⟩ := convGo_split tab pre (lab :: post) 0 0 [] rops {} m h
  obtain ⟨s1, hs1, hc1⟩ := convGo_count st tab pre 0 0 [] acc1 {} m1
    (fun o ho => hshape o (List.mem_append_left _ ho)) h1
  obtain ⟨s2, hs2, hc2⟩ := convGo_count st tab (lab :: post) _ pc1 acc1 rops m1 m
    (fun o ho => hshape o (List.mem_append_right _ ho)) h2
  simp only [List.nil_append] at hs1
  subst hs1
  refine ⟨acc1, s2, hs2, ?_, ?_⟩
  · rw [C04_label_value st pre post lab name hl ht hpost hfit, hc1]
  · rw [hc2, sumLen_cons]
    have : codeLen st lab = 0 := by unfold codeLen; rw [if_pos (Or.inl hl)]
    omega


/-! ### data labels -/

/-- the constants in scope after an operation (`get_labels`' local table: a literal, or the value of an earlier constant) -/
def constStep (cs : List (Val × Int)) (op : SOp) : List (Val × Int) :=
  if op.cls = .CONSTANT then
    match op.args with
    | [k, .int v] => (k, v) :: cs
    | [k, x] => (match cs.find? (fun p => p.1 == x) with | some p => (k, p.2) :: cs | none => cs)
    | _ => cs
  else cs

/-- the data cells a statement occupies: INTEGER one, LP_STRING length + characters, DSKIP n (a literal or a constant
    in scope); everything else none -/
def cellsOf (cs : List (Val × Int)) (op : SOp) : Int :=
  if op.cls = .INTEGER then 1
  else if op.cls = .LP_STRING then (match op.args with | [.str x] => x.length + 1 | _ => 0)
  else if op.cls = .DSKIP then
    (match op.args with
     | [.int n] => n
     | [k] => (match cs.find? (fun p => p.1 == k) with | some p => p.2 | none => 0)
     | _ => 0)
  else 0

def dataSum : List SOp → List (Val × Int) → Int
  | [], _ => 0
  | op :: rest, cs => cellsOf cs op + dataSum rest (constStep cs op)

theorem labelCore_data (st : CSettings) (s : LabelState) (op : SOp) :
    (labelCore st s op).1.dc = s.dc + cellsOf s.consts op ∧ (labelCore st s op).1.consts = constStep s.consts op := by
  unfold labelCore cellsOf constStep
  simp only
  by_cases h1 : op.cls = .LABEL
  · rw [if_pos h1]; simp only [h1]
    split
    · split <;> simp
    · simp
  rw [if_neg h1]
  by_cases h2 : op.cls = .DLABEL
  · rw [if_pos h2]; simp only [h2]; split <;> simp
  rw [if_neg h2]
  by_cases h3 : op.cls = .CONSTANT
  · rw [if_pos h3]; simp only [h3]
    rcases op.args with _ | ⟨k, _ | ⟨x, _ | ⟨y, tl⟩⟩⟩
    · simp
    · simp
    · cases x with
      | int v => simp
      | str v => simp only; cases List.find? (fun p => p.fst == Val.str v) s.consts <;> simp
    · simp
  rw [if_neg h3, if_neg h3]
  by_cases h4 : op.cls = .INTEGER
  · rw [if_pos h4, if_pos h4]; simp
  rw [if_neg h4, if_neg h4]
  by_cases h5 : op.cls = .LP_STRING
  · rw [if_pos h5, if_pos h5]
    rcases op.args with _ | ⟨k, _ | ⟨x, tl⟩⟩
    · simp
    · cases k <;> simp <;> omega
    · simp
  rw [if_neg h5, if_neg h5]
  by_cases h6 : op.cls = .DSKIP
  · rw [if_pos h6, if_pos h6]
    rcases op.args with _ | ⟨k, _ | ⟨x, tl⟩⟩
    · simp
    · cases k with
      | int v => simp
      | str v => simp only; cases List.find? (fun p => p.fst == Val.str v) s.consts <;> simp
    · simp
  rw [if_neg h6, if_neg h6]
  split <;> simp

theorem fold_data (st : CSettings) (ops : List SOp) (s : LabelState) :
    (ops.foldl (labelStep st) s).dc = s.dc + dataSum ops s.consts := by
  induction ops generalizing s with
  | nil => simp [dataSum]
  | cons op rest ih =>
    simp only [List.foldl_cons, dataSum]
    rw [ih, (labelStep_fields st s op).2.2.1, (labelStep_fields st s op).2.2.2, (labelCore_data st s op).1,
      (labelCore_data st s op).2]
    omega

/-- **C04 (data labels).** In every mode, a data label declared once denotes the data-segment start plus the cells of the
    data statements before it, laid out consecutively (INTEGER one cell, LP_STRING length + characters, DSKIP n cells) -
    independently of the code, labels and debugging operations in between. (`get_labels` enters 0 when that address is
    outside the 16-bit range, next to the "past the end of available memory" error.) -/
theorem C04_dlabel_value (st : CSettings) (pre post : List SOp) (lab : SOp) (name : Str)
    (hl : lab.cls = .DLABEL) (ht : lab.toks = [.sym name])
    (hpost : ∀ op ∈ post, ¬ declares op (.str name)) :
    let dc := st.data_start + dataSum pre []
    (getLabels (pre ++ lab :: post) st).1.get? (.str name) = some (.dlabel (if outOfRange dc then 0 else dc)) := by
  intro dc
  unfold getLabels
  simp only [List.foldl_append, List.foldl_cons]
  rw [fold_tab_other st post _ _ hpost, (labelStep_fields st _ lab).2.1]
  have hargs : lab.args = [.str name] := by simp [SOp.args, ht, Tok.val]
  unfold labelCore
  have hnl : lab.cls ≠ .LABEL := by rw [hl]; decide
  simp only
  rw [if_neg hnl, if_pos hl]
  simp only [hargs]
  rw [get_set_same, fold_data]
  show some (if outOfRange dc = true then SymVal.dlabel 0 else SymVal.dlabel dc) = _
  split <;> rfl

/-- the hypotheses are satisfiable: operations as the type checker lets them through -/
example : Shaped ⟨.SET, [.reg 1, .sym [76]], 0⟩ := ⟨rfl, fun h => absurd h (by decide)⟩
example : Shaped ⟨.BR, [.sym [76]], 0⟩ := ⟨rfl, fun _ t ht => by injection ht with h1; subst h1; exact Or.inr rfl⟩
example : Shaped ⟨.LABEL, [.sym [76]], 0⟩ := ⟨rfl, fun h => absurd h (by decide)⟩
example : Shaped ⟨.PRINT_REG, [.reg 1], 0⟩ := ⟨rfl, fun h => absurd h (by decide)⟩
example : ¬ declares ⟨.HALT, [], 0⟩ (.str [76]) := fun h => by rcases h.1 with h | h <;> cases h

end Hera
