import HeraModel.Model.MiniParser
/-
  C14, continued — the expression parser reads every expression the way it is written: the usual precedence
  (`*` `/` over `+` `-`), left associativity, prefix `-` and `@` binding tighter than any infix operator, parentheses.

  `PT` is an expression tree over atom tokens; `raw` writes it with exactly the parentheses that precedence and
  associativity require; `C14_parse_raw` says that the Pratt parser model (`Mini.matchExpr`, corresponded with
  `miniparser.MiniParser.match_expr` on the real lexer's tokens) returns the tree that was written - for every tree,
  whatever follows it (as long as that is not an infix operator).
-/
namespace Hera
namespace Mini

abbrev Res := Except PErr (Node × List Tk)

theorem bind_ok {α β} {x : Except PErr α} {f : α → Except PErr β} {r : β} (h : x >>= f = .ok r) :
    ∃ a, x = .ok a ∧ f a = .ok r := by
  cases x with
  | error e => cases h
  | ok a => exact ⟨a, rfl, h⟩

/-! ### more fuel never changes a successful result -/

def Le (f g : Nat → List Tk → Res) : Prop := ∀ p toks r, f p toks = .ok r → g p toks = .ok r

theorem primary_mono {f g : Nat → List Tk → Res} (hle : Le f g) (toks : List Tk) (r : Node × List Tk)
    (h : primary f toks = .ok r) : primary g toks = .ok r := by
  unfold primary at h ⊢
  split at h
  · obtain ⟨a, ha, h⟩ := bind_ok h
    simp only [hle _ _ _ ha]; exact h
  · exact h
  · obtain ⟨a, ha, h⟩ := bind_ok h
    simp only [hle _ _ _ ha]; exact h
  · exact h
  · exact h
  · obtain ⟨a, ha, h⟩ := bind_ok h
    simp only [hle _ _ _ ha]; exact h
  · exact h
  · exact h

theorem mono_succ : ∀ f : Nat, Le (matchExpr f) (matchExpr (f + 1)) ∧
    (∀ p left toks r, infixLoop f p left toks = .ok r → infixLoop (f + 1) p left toks = .ok r) := by
  intro f
  induction f with
  | zero =>
    refine ⟨fun p toks r h => ?_, fun p left toks r h => ?_⟩
    · simp [matchExpr] at h
    · simp [infixLoop] at h
  | succ n ih =>
    obtain ⟨ih1, ih2⟩ := ih
    refine ⟨fun p toks r h => ?_, fun p left toks r h => ?_⟩
    · rw [matchExpr] at h ⊢
      obtain ⟨a, ha, h⟩ := bind_ok h
      have := primary_mono ih1 toks a ha
      simp only [this]
      exact ih2 _ _ _ _ h
    · cases toks with
      | nil =>
        unfold infixLoop at h ⊢
        exact h
      | cons t rest =>
        unfold infixLoop at h ⊢
        simp only at h ⊢
        cases hq : prec t with
        | none => simp only [hq] at h ⊢; exact h
        | some q =>
          simp only [hq] at h ⊢
          by_cases hlt : p < q
          · rw [if_pos hlt] at h ⊢
            obtain ⟨a, ha, h⟩ := bind_ok h
            simp only [ih1 _ _ _ ha]
            exact ih2 _ _ _ _ h
          · rw [if_neg hlt] at h ⊢
            exact h

theorem matchExpr_mono {f f' : Nat} (hle : f ≤ f') (p : Nat) (toks : List Tk) (r : Node × List Tk)
    (h : matchExpr f p toks = .ok r) : matchExpr f' p toks = .ok r := by
  induction hle with
  | refl => exact h
  | step _ ih => exact (mono_succ _).1 _ _ _ ih

theorem infixLoop_mono {f f' : Nat} (hle : f ≤ f') (p : Nat) (left : Node) (toks : List Tk) (r : Node × List Tk)
    (h : infixLoop f p left toks = .ok r) : infixLoop f' p left toks = .ok r := by
  induction hle with
  | refl => exact h
  | step _ ih => exact (mono_succ _).2 _ _ _ _ ih


/-! ### expression trees and the way they are written -/

/-- an atom token together with the node it is read as -/
def AtomOK (tk : Tk) (n : Node) : Prop :=
  (∃ t, tk = .sym t ∧ n = .sym t) ∨ (∃ t v, tk = .int t ∧ Py.parseInt t 0 = some v ∧ n = .int v) ∨
  (∃ t i, tk = .reg t ∧ Cli.registerToIndex t = some i ∧ n = .reg i)

inductive PT where
  | atom (tk : Tk) (n : Node)
  | neg (a : PT)
  | mem (a : PT)
  | bin (op : Tk) (l r : PT)

/-- binding level: 1 for `+ -`, 2 for `* /`, 3 for atoms and prefix expressions -/
def PT.lvl : PT → Nat
  | .bin op _ _ => (prec op).getD 0
  | _ => 3

def PT.node : PT → Node
  | .atom _ n => n
  | .neg a => .prefix [45] a.node
  | .mem a => .mem a.node
  | .bin op l r => .infix (opText op) l.node r.node

def PT.WF : PT → Prop
  | .atom tk n => AtomOK tk n
  | .neg a => a.WF
  | .mem a => a.WF
  | .bin op l r => (prec op = some 1 ∨ prec op = some 2) ∧ l.WF ∧ r.WF

/-- parentheses around the text of `a` exactly when its level does not exceed `p` -/
def paren (p : Nat) (a : PT) (toks : List Tk) : List Tk :=
  if p < a.lvl then toks else .lparen :: toks ++ [.rparen]

/-- the tokens of an expression, with the parentheses that precedence and left associativity require and no others -/
def raw : PT → List Tk
  | .atom tk _ => [tk]
  | .neg a => .minus :: paren 2 a (raw a)
  | .mem a => .at :: paren 2 a (raw a)
  | .bin op l r => paren ((prec op).getD 0 - 1) l (raw l) ++ [op] ++ paren ((prec op).getD 0) r (raw r)

def cost : PT → Nat
  | .atom _ _ => 1
  | .neg a => cost a + 3
  | .mem a => cost a + 3
  | .bin _ l r => cost l + cost r + 4

/-- what follows does not continue an expression at precedence `q`: it does not start with an operator binding
    tighter than `q` -/
def Stops (q : Nat) (rest : List Tk) : Prop := ∀ tk tl, rest = tk :: tl → ∀ q', prec tk = some q' → q' ≤ q

/-- a tree can be the left accumulator of the loop at precedence `p` only if its own top operator binds tighter -/
def Fits (p : Nat) : PT → Prop
  | .bin op _ _ => p < (prec op).getD 0
  | _ => True

theorem infixLoop_stop (f p : Nat) (left : Node) (rest : List Tk) (h : Stops p rest) :
    infixLoop (f + 1) p left rest = .ok (left, rest) := by
  unfold infixLoop
  cases rest with
  | nil => rfl
  | cons t tl =>
    simp only
    cases hq : prec t with
    | none => rfl
    | some q =>
      simp only
      have := h t tl rfl q hq
      rw [if_neg (by omega)]

theorem prec_le_two (tk : Tk) (q : Nat) (h : prec tk = some q) : q ≤ 2 := by
  cases tk <;> simp [prec] at h <;> omega

theorem stops_three (rest : List Tk) : Stops 3 rest := by
  intro tk tl _ q hq
  have := prec_le_two tk q hq
  omega

theorem stops_mono {q q' : Nat} (h : q ≤ q') {rest : List Tk} (hs : Stops q rest) : Stops q' rest := by
  intro tk tl e x hx
  have := hs tk tl e x hx
  omega

theorem primary_atom (sub : Nat → List Tk → Res) (tk : Tk) (n : Node) (h : AtomOK tk n) (rest : List Tk) :
    primary sub (tk :: rest) = .ok (n, rest) := by
  rcases h with ⟨t, rfl, rfl⟩ | ⟨t, v, rfl, hv, rfl⟩ | ⟨t, i, rfl, hi, rfl⟩
  · rfl
  · simp [primary, hv]
  · simp [primary, hi]


/-! ### the parser returns the tree that was written -/

/-- the statement proved by induction on the tree: parsing the text of `t` at a precedence that `t` fits, followed by
    `rest`, is the same as having `t` as the left accumulator of the loop on `rest` -/
def ClaimB (t : PT) : Prop :=
  ∀ (p : Nat) (rest : List Tk) (f : Nat) (res : Node × List Tk), Fits p t → Stops t.lvl rest →
    infixLoop f p t.node rest = .ok res → matchExpr (f + cost t) p (raw t ++ rest) = .ok res

theorem fits_zero (t : PT) (h : t.WF) : Fits 0 t := by
  cases t with
  | bin op l r =>
    simp only [Fits]
    rcases h.1 with h1 | h1 <;> simp [h1]
  | _ => trivial

theorem paren_append (p : Nat) (a : PT) (toks rest : List Tk) (h : ¬ p < a.lvl) :
    paren p a toks ++ rest = .lparen :: (toks ++ .rparen :: rest) := by
  simp [paren, h]

theorem fits_three (a : PT) (hwf : a.WF) (h : 2 < a.lvl) : Fits 3 a ∧ 3 ≤ a.lvl := by
  cases a with
  | bin op l r =>
    exfalso
    simp only [PT.lvl] at h
    rcases hwf.1 with h1 | h1 <;> simp [h1] at h
  | atom _ _ => exact ⟨trivial, by simp [PT.lvl]⟩
  | neg _ => exact ⟨trivial, by simp [PT.lvl]⟩
  | mem _ => exact ⟨trivial, by simp [PT.lvl]⟩

/-- an operand position: the text of `a` (parenthesised if its level requires it) parsed at precedence `q`, when what
    follows does not continue an expression at `q` -/
theorem operand (a : PT) (hB : ClaimB a) (hwf : a.WF) (q q' : Nat) (rest : List Tk) (hs : Stops q rest)
    (hfit : q' < a.lvl → Fits q a ∧ q ≤ a.lvl) (F : Nat) (hF : cost a + 2 ≤ F) :
    matchExpr F q (paren q' a (raw a) ++ rest) = .ok (a.node, rest) := by
  by_cases hp : q' < a.lvl
  · obtain ⟨h1, h2⟩ := hfit hp
    have : paren q' a (raw a) = raw a := by simp [paren, hp]
    rw [this]
    have := hB q rest 1 (a.node, rest) h1 (stops_mono h2 hs) (infixLoop_stop 0 q _ _ hs)
    exact matchExpr_mono (by omega) _ _ _ this
  · rw [paren_append _ _ _ _ hp]
    obtain ⟨F', rfl⟩ : ∃ F', F = F' + 1 := ⟨F - 1, by omega⟩
    rw [matchExpr]
    have hin : matchExpr F' 0 (raw a ++ .rparen :: rest) = .ok (a.node, .rparen :: rest) := by
      have hst : Stops a.lvl (.rparen :: rest) := by
        intro tk tl e x hx
        injection e with e1 e2
        subst e1
        simp [prec] at hx
      have hst0 : Stops 0 (.rparen :: rest) := by
        intro tk tl e x hx
        injection e with e1 e2
        subst e1
        simp [prec] at hx
      have := hB 0 (.rparen :: rest) 1 (a.node, .rparen :: rest) (fits_zero a hwf) hst (infixLoop_stop 0 0 _ _ hst0)
      exact matchExpr_mono (by omega) _ _ _ this
    have hprim : primary (matchExpr F') (.lparen :: (raw a ++ .rparen :: rest)) = .ok (a.node, rest) := by
      simp only [primary, hin]
      rfl
    simp only [hprim]
    obtain ⟨F'', rfl⟩ : ∃ F'', F' = F'' + 1 := ⟨F' - 1, by omega⟩
    exact infixLoop_stop F'' q _ _ hs

theorem claimB : ∀ t : PT, t.WF → ClaimB t := by
  intro t
  induction t with
  | atom tk n =>
    intro hwf p rest f res _ _ h
    show matchExpr (f + 1) p ([tk] ++ rest) = .ok res
    rw [matchExpr]
    simp only [List.singleton_append, primary_atom _ tk n hwf rest]
    exact h
  | neg a iha =>
    intro hwf p rest f res _ _ h
    have hB := iha hwf
    show matchExpr (f + (cost a + 3)) p ((.minus :: paren 2 a (raw a)) ++ rest) = .ok res
    rw [show f + (cost a + 3) = (f + cost a + 2) + 1 by omega, matchExpr]
    have hop := operand a hB hwf 3 2 rest (stops_three rest)
      (fun hl => fits_three a hwf hl) (f + cost a + 2) (by omega)
    have hprim : primary (matchExpr (f + cost a + 2)) (.minus :: (paren 2 a (raw a) ++ rest)) = .ok (.prefix [45] a.node, rest) := by
      simp only [primary, hop]
      rfl
    simp only [List.cons_append, hprim]
    exact infixLoop_mono (by omega) _ _ _ _ h
  | mem a iha =>
    intro hwf p rest f res _ _ h
    have hB := iha hwf
    show matchExpr (f + (cost a + 3)) p ((.at :: paren 2 a (raw a)) ++ rest) = .ok res
    rw [show f + (cost a + 3) = (f + cost a + 2) + 1 by omega, matchExpr]
    have hop := operand a hB hwf 3 2 rest (stops_three rest)
      (fun hl => fits_three a hwf hl) (f + cost a + 2) (by omega)
    have hprim : primary (matchExpr (f + cost a + 2)) (.at :: (paren 2 a (raw a) ++ rest)) = .ok (.mem a.node, rest) := by
      simp only [primary, hop]
      rfl
    simp only [List.cons_append, hprim]
    exact infixLoop_mono (by omega) _ _ _ _ h
  | bin op l r ihl ihr =>
    intro hwf p rest f res hfit hstop h
    obtain ⟨hq, hwl, hwr⟩ := hwf
    have hBl := ihl hwl
    have hBr := ihr hwr
    obtain ⟨q, hq1, hq2⟩ : ∃ q, prec op = some q ∧ (q = 1 ∨ q = 2) := by
      rcases hq with h1 | h1
      · exact ⟨1, h1, Or.inl rfl⟩
      · exact ⟨2, h1, Or.inr rfl⟩
    have hgd : (prec op).getD 0 = q := by simp [hq1]
    have hpq : p < q := by simpa [Fits, hgd] using hfit
    have hsq : Stops q rest := by simpa [PT.lvl, hgd] using hstop
    -- the continuation after the left operand
    have hloop : infixLoop (f + cost r + 3) p l.node (op :: (paren q r (raw r) ++ rest)) = .ok res := by
      rw [show f + cost r + 3 = (f + cost r + 2) + 1 by omega, infixLoop]
      simp only [hq1, if_pos hpq]
      have hop := operand r hBr hwr q q rest hsq
        (fun hl => ⟨by cases r <;> simp_all [Fits, PT.lvl], by omega⟩) (f + cost r + 2) (by omega)
      simp only [hop]
      exact infixLoop_mono (by omega) _ _ _ _ h
    show matchExpr (f + (cost l + cost r + 4)) p
      ((paren ((prec op).getD 0 - 1) l (raw l) ++ [op] ++ paren ((prec op).getD 0) r (raw r)) ++ rest) = .ok res
    rw [hgd]
    have happ : (paren (q - 1) l (raw l) ++ [op] ++ paren q r (raw r)) ++ rest
        = paren (q - 1) l (raw l) ++ (op :: (paren q r (raw r) ++ rest)) := by simp
    rw [happ]
    by_cases hp : q - 1 < l.lvl
    · have : paren (q - 1) l (raw l) = raw l := by simp [paren, hp]
      rw [this]
      have hfl : Fits p l := by
        cases l with
        | bin opl ll lr =>
          simp only [Fits]
          simp only [PT.lvl] at hp
          omega
        | _ => trivial
      have hsl : Stops l.lvl (op :: (paren q r (raw r) ++ rest)) := by
        intro tk tl e x hx
        injection e with e1 e2
        subst e1
        rw [hq1] at hx
        injection hx with hx
        omega
      have := hBl p _ (f + cost r + 3) res hfl hsl hloop
      exact matchExpr_mono (by omega) _ _ _ this
    · rw [paren_append _ _ _ _ hp]
      rw [show f + (cost l + cost r + 4) = (f + cost l + cost r + 3) + 1 by omega, matchExpr]
      have hin : matchExpr (f + cost l + cost r + 3) 0 (raw l ++ .rparen :: op :: (paren q r (raw r) ++ rest))
          = .ok (l.node, .rparen :: op :: (paren q r (raw r) ++ rest)) := by
        have hst : ∀ x, Stops x (.rparen :: op :: (paren q r (raw r) ++ rest)) := by
          intro x tk tl e y hy
          injection e with e1 e2
          subst e1
          simp [prec] at hy
        have := hBl 0 _ 1 (l.node, .rparen :: op :: (paren q r (raw r) ++ rest)) (fits_zero l hwl) (hst _)
          (infixLoop_stop 0 0 _ _ (hst 0))
        exact matchExpr_mono (by omega) _ _ _ this
      have hprim : primary (matchExpr (f + cost l + cost r + 3))
          (.lparen :: (raw l ++ .rparen :: op :: (paren q r (raw r) ++ rest))) = .ok (l.node, op :: (paren q r (raw r) ++ rest)) := by
        simp only [primary, hin]
        rfl
      simp only [hprim]
      exact infixLoop_mono (by omega) _ _ _ _ hloop


/-- **C14 (the parser reads what is written).** For every expression tree, its text - written with the parentheses that
    precedence and left associativity require and no others - is parsed back to exactly that tree, whatever follows it
    (anything but an infix operator), with any fuel above a bound linear in the text. So `a - b - c` is `(a - b) - c`,
    `a + b * c` is `a + (b * c)`, `-a * b` is `(-a) * b`, `@a + 1` is `(@a) + 1`, and parentheses override. -/
theorem C14_parse_raw (t : PT) (hwf : t.WF) (rest : List Tk) (hs : Stops 0 rest) (F : Nat) (hF : cost t + 1 ≤ F) :
    matchExpr F 0 (raw t ++ rest) = .ok (t.node, rest) := by
  have := claimB t hwf 0 rest 1 (t.node, rest) (fits_zero t hwf) (stops_mono (Nat.zero_le _) hs) (infixLoop_stop 0 0 _ _ hs)
  exact matchExpr_mono (by omega) _ _ _ this

theorem paren_length (p : Nat) (a : PT) (toks : List Tk) : toks.length ≤ (paren p a toks).length := by
  unfold paren
  split <;> simp <;> omega

theorem cost_le (t : PT) : cost t ≤ 4 * (raw t).length := by
  induction t with
  | atom _ _ => simp [cost, raw]
  | neg a ih =>
    have := paren_length 2 a (raw a)
    simp only [cost, raw, List.length_cons]; omega
  | mem a ih =>
    have := paren_length 2 a (raw a)
    simp only [cost, raw, List.length_cons]; omega
  | bin op l r ihl ihr =>
    have h1 := paren_length ((prec op).getD 0 - 1) l (raw l)
    have h2 := paren_length ((prec op).getD 0) r (raw r)
    simp only [cost, raw, List.length_append, List.length_cons, List.length_nil]; omega

theorem raw_head (t : PT) (hwf : t.WF) : ∃ tk tl, raw t = tk :: tl ∧ ∀ f, tk ≠ .fmt f := by
  induction t with
  | atom tk n =>
    refine ⟨tk, [], rfl, fun f e => ?_⟩
    rcases hwf with ⟨t, rfl, _⟩ | ⟨t, v, rfl, _, _⟩ | ⟨t, i, rfl, _, _⟩ <;> cases e
  | neg a _ => exact ⟨.minus, _, rfl, fun f e => by cases e⟩
  | mem a _ => exact ⟨.at, _, rfl, fun f e => by cases e⟩
  | bin op l r ihl _ =>
    obtain ⟨tk, tl, e, hne⟩ := ihl hwf.2.1
    simp only [raw, paren]
    split
    · exact ⟨tk, _, by rw [e]; rfl, hne⟩
    · exact ⟨.lparen, _, rfl, fun f e => by cases e⟩

/-- **C14 (`parse`).** The whole entry point: the text of a well-formed tree of depth at most `MAX_DEPTH`, followed by
    the end of the line, parses to that one tree and no format specifier. -/
theorem C14_parse (t : PT) (hwf : t.WF) (hd : t.node.depth ≤ maxDepth) :
    parse (raw t ++ [.eof]) = .ok ([], [t.node]) := by
  obtain ⟨tk, tl, e, hne⟩ := raw_head t hwf
  have hs : Stops 0 [Tk.eof] := by
    intro x tl e q hq
    injection e with e1 _
    subst e1
    simp [prec] at hq
  have hm := C14_parse_raw t hwf [Tk.eof] hs (4 * (raw t ++ [Tk.eof]).length + 8) (by
    have := cost_le t
    simp only [List.length_append, List.length_cons, List.length_nil]; omega)
  have hnd : ¬ (t.node.depth > maxDepth) := by omega
  have htoks : raw t ++ [Tk.eof] = tk :: (tl ++ [Tk.eof]) := by rw [e]; rfl
  rw [htoks] at hm ⊢
  unfold parse
  cases tk with
  | fmt f => exact absurd rfl (hne f)
  | _ =>
    simp only
    rw [parse.go, hm]
    simp [hnd, bind, Except.bind, pure, Except.pure]


/-! ### the statement is not vacuous: what `raw` writes for some trees (a, b, c are the symbols 97, 98, 99) -/

def atomA : PT := .atom (.sym [97]) (.sym [97])
def atomB : PT := .atom (.sym [98]) (.sym [98])
def atomC : PT := .atom (.sym [99]) (.sym [99])

example : atomA.WF := Or.inl ⟨[97], rfl, rfl⟩
-- (a - b) - c is written a - b - c; a - (b - c) keeps its parentheses
example : raw (.bin .minus (.bin .minus atomA atomB) atomC) = [.sym [97], .minus, .sym [98], .minus, .sym [99]] := rfl
example : raw (.bin .minus atomA (.bin .minus atomB atomC))
    = [.sym [97], .minus, .lparen, .sym [98], .minus, .sym [99], .rparen] := rfl
-- a + b * c needs none; (a + b) * c does; -(a * b) does; -a * b does not; @a + c does not
example : raw (.bin .plus atomA (.bin .star atomB atomC)) = [.sym [97], .plus, .sym [98], .star, .sym [99]] := rfl
example : raw (.bin .star (.bin .plus atomA atomB) atomC)
    = [.lparen, .sym [97], .plus, .sym [98], .rparen, .star, .sym [99]] := rfl
example : raw (.neg (.bin .star atomA atomB)) = [.minus, .lparen, .sym [97], .star, .sym [98], .rparen] := rfl
example : raw (.bin .star (.neg atomA) atomB) = [.minus, .sym [97], .star, .sym [98]] := rfl
example : raw (.bin .plus (.mem atomA) atomC) = [.at, .sym [97], .plus, .sym [99]] := rfl

end Mini
end Hera
