import HeraProofs.Props.C09
/-
  C09, continued — the program-level rules, in the direction "a non-conforming program is rejected with at least one
  error": over the checker model (`Chk.typecheck`, corresponded with the real checker), for every program and every
  mode,
  * `C09_redeclared_rejected`: a symbol declared twice (by CONSTANT / LABEL / DLABEL in any combination) -> an error;
    and exactly: the redeclaration pass reports nothing iff the declared names are pairwise distinct
    (`C09_redeclaration_iff`);
  * `C09_data_after_code_rejected`: a data statement anywhere after a non-data operation -> an error;
  * `C09_debug_ops_rejected`: a debugging operation under --no-debug-ops -> an error.
  Messages are only ever added (`tc_errors_grow`), so a later part of the program cannot take an error back.
-/
namespace Hera
open Chk

/-- the names a program declares, in order -/
def declaredKeys (prog : List SOp) : List Val := prog.filterMap declKey

theorem err_errors (m : Msgs) (s : String) (loc : Int) : (m.err s loc).errors ≠ [] := by
  simp [Msgs.err]

theorem go_errors_of_nonempty : ∀ (rest : List SOp) (seen : List Val) (m : Msgs), m.errors ≠ [] →
    (checkSymbolRedeclaration.go rest seen m).errors ≠ []
  | [], _, m, h => by simpa [checkSymbolRedeclaration.go] using h
  | op :: rest, seen, m, h => by
    rw [checkSymbolRedeclaration.go]
    split
    · split
      · exact go_errors_of_nonempty rest seen _ (err_errors _ _ _)
      · exact go_errors_of_nonempty rest _ m h
    · exact go_errors_of_nonempty rest seen m h

theorem declaredKeys_cons (op : SOp) (rest : List SOp) :
    declaredKeys (op :: rest) = (match declKey op with
      | some k => k :: declaredKeys rest | none => declaredKeys rest) := by
  unfold declaredKeys
  rw [List.filterMap_cons]
  cases declKey op <;> rfl

/-- the redeclaration pass, exactly: with names `seen` so far and no error so far, it ends without an error iff the
    names still to come are new and pairwise distinct -/
theorem go_iff : ∀ (rest : List SOp) (seen : List Val) (m : Msgs), m.errors = [] →
    ((checkSymbolRedeclaration.go rest seen m).errors = [] ↔
      (∀ k ∈ declaredKeys rest, k ∉ seen) ∧ (declaredKeys rest).Nodup)
  | [], seen, m, h => by simp [checkSymbolRedeclaration.go, declaredKeys, h]
  | op :: rest, seen, m, h => by
    rw [checkSymbolRedeclaration.go, declaredKeys_cons]
    cases hd : declKey op with
    | none =>
      simp only
      exact go_iff rest seen m h
    | some k =>
      simp only
      by_cases hs : seen.contains k = true
      · simp only [hs, if_true]
        constructor
        · intro he
          exact absurd he (go_errors_of_nonempty rest seen _ (err_errors _ _ _))
        · intro ⟨h1, _⟩
          exact absurd (by simpa using hs) (h1 k (List.mem_cons_self))
      · simp only [hs, Bool.false_eq_true, if_false]
        rw [go_iff rest (k :: seen) m h]
        have hs' : k ∉ seen := by simpa using hs
        constructor
        · intro ⟨h1, h2⟩
          refine ⟨fun x hx => ?_, ?_⟩
          · rcases List.mem_cons.mp hx with rfl | hx
            · exact hs'
            · exact fun hm => h1 x hx (List.mem_cons_of_mem _ hm)
          · exact List.nodup_cons.mpr ⟨fun hm => h1 k hm List.mem_cons_self, h2⟩
        · intro ⟨h1, h2⟩
          obtain ⟨h3, h4⟩ := List.nodup_cons.mp h2
          refine ⟨fun x hx hm => ?_, h4⟩
          rcases List.mem_cons.mp hm with rfl | hm
          · exact h3 hx
          · exact h1 x (List.mem_cons_of_mem _ hx) hm

/-- **C09 (redeclaration, exactly).** The redeclaration pass reports nothing iff no name is declared twice. -/
theorem C09_redeclaration_iff (prog : List SOp) :
    (checkSymbolRedeclaration prog).errors = [] ↔ (declaredKeys prog).Nodup := by
  unfold checkSymbolRedeclaration
  rw [go_iff prog [] {} rfl]
  simp


/-! ### messages are only ever added -/

theorem extend_errors (m n : Msgs) (h : m.errors ≠ []) : (m.extend n).errors ≠ [] := by
  simp [Msgs.extend, h]

theorem tcStep_parts (st : CSettings) (tab : SymTab) (m : Msgs) (seen : Bool) (op : SOp) :
    ∃ tab' m', tcStep st (tab, m, seen) op = (tab', m', seen || !op.cls.isDataOp) ∧
      (m.errors ≠ [] → m'.errors ≠ []) ∧
      (seen = true → op.cls.isDataOp = true → m'.errors ≠ []) ∧
      (st.no_debug_ops = true → op.cls.isDebuggingOp = true → m'.errors ≠ []) := by
  unfold tcStep
  simp only
  -- name the intermediate message sets
  generalize hm1 : m.extend (typecheckOp op tab (st.mode == Mode.assemble)) = m1
  have g1 : m.errors ≠ [] → m1.errors ≠ [] := fun h => hm1 ▸ extend_errors _ _ h
  by_cases hd : op.cls.isDataOp = true
  · by_cases hs : seen = true
    · simp only [hd, hs, if_true, Bool.true_or]
      refine ⟨_, _, rfl, ?_, ?_, ?_⟩
      all_goals
        intros
        repeat' split
        all_goals first | exact err_errors _ _ _ | skip
      all_goals exact err_errors _ _ _
    · have hs' : seen = false := by cases seen <;> simp_all
      simp only [hd, hs', if_true, Bool.false_eq_true, if_false, Bool.not_true, Bool.or_false]
      refine ⟨_, _, rfl, ?_, ?_, ?_⟩
      · intro h
        repeat' split
        all_goals first | exact err_errors _ _ _ | exact g1 h
      · intro h; cases h
      · intro h1 h2
        simp only [h1, h2, Bool.and_self, if_true]
        exact err_errors _ _ _
  · have hd' : op.cls.isDataOp = false := by cases h : op.cls.isDataOp <;> simp_all
    simp only [hd', Bool.false_eq_true, if_false, Bool.not_false, Bool.or_true]
    refine ⟨_, _, rfl, ?_, ?_, ?_⟩
    · intro h
      repeat' split
      all_goals first | exact err_errors _ _ _ | exact g1 h
    · intro _ h; cases h
    · intro h1 h2
      simp only [h1, h2, Bool.and_self, if_true]
      exact err_errors _ _ _

theorem tc_errors_grow (st : CSettings) : ∀ (ops : List SOp) (tab : SymTab) (m : Msgs) (seen : Bool),
    m.errors ≠ [] → (ops.foldl (tcStep st) (tab, m, seen)).2.1.errors ≠ []
  | [], _, _, _, h => h
  | op :: rest, tab, m, seen, h => by
    obtain ⟨tab', m', he, g, _, _⟩ := tcStep_parts st tab m seen op
    simp only [List.foldl_cons, he]
    exact tc_errors_grow st rest tab' m' _ (g h)

/-- the state of the main loop after a prefix: code has been seen if the prefix contains a non-data operation -/
theorem fold_seen (st : CSettings) : ∀ (ops : List SOp) (tab : SymTab) (m : Msgs) (seen : Bool),
    (ops.foldl (tcStep st) (tab, m, seen)).2.2 = (seen || ops.any (fun o => !o.cls.isDataOp))
  | [], _, _, seen => by simp
  | op :: rest, tab, m, seen => by
    obtain ⟨tab', m', he, _, _, _⟩ := tcStep_parts st tab m seen op
    simp only [List.foldl_cons, he, List.any_cons]
    rw [fold_seen st rest tab' m' _, Bool.or_assoc]

theorem typecheck_errors_of_fold (prog : List SOp) (st : CSettings)
    (h : ∀ tab m, (prog.foldl (tcStep st) (tab, m, false)).2.1.errors ≠ []) : (typecheck prog st).2.errors ≠ [] := by
  unfold typecheck
  simp only
  exact h _ _

/-- **C09 (redeclared symbol).** A program that declares a name twice is rejected, in every mode. -/
theorem C09_redeclared_rejected (prog : List SOp) (st : CSettings) (h : ¬ (declaredKeys prog).Nodup) :
    (typecheck prog st).2.errors ≠ [] := by
  have h1 : (checkSymbolRedeclaration prog).errors ≠ [] := fun he => h ((C09_redeclaration_iff prog).mp he)
  unfold typecheck
  simp only
  exact tc_errors_grow st prog _ _ false (extend_errors _ _ h1)

/-- **C09 (data after code).** A program with a data statement anywhere after a non-data operation is rejected. -/
theorem C09_data_after_code_rejected (a b e : List SOp) (c d : SOp) (st : CSettings)
    (hc : c.cls.isDataOp = false) (hd : d.cls.isDataOp = true) :
    (typecheck (a ++ c :: b ++ d :: e) st).2.errors ≠ [] := by
  apply typecheck_errors_of_fold
  intro tab m
  have hsplit : a ++ c :: b ++ d :: e = (a ++ c :: b) ++ d :: e := by simp
  rw [hsplit, List.foldl_append, List.foldl_cons]
  -- after the prefix code has been seen
  have hseen := fold_seen st (a ++ c :: b) tab m false
  have hany : (a ++ c :: b).any (fun o => !o.cls.isDataOp) = true := by
    simp [List.any_append, hc]
  rw [hany, Bool.false_or] at hseen
  obtain ⟨tab1, m1, s1, hs⟩ : ∃ t m2 s, (a ++ c :: b).foldl (tcStep st) (tab, m, false) = (t, m2, s) := ⟨_, _, _, rfl⟩
  rw [hs] at hseen ⊢
  simp only at hseen
  subst hseen
  obtain ⟨tab', m', he, _, g, _⟩ := tcStep_parts st tab1 m1 true d
  rw [he]
  exact tc_errors_grow st e tab' m' _ (g rfl hd)

/-- **C09 (--no-debug-ops).** With --no-debug-ops a program that contains a debugging operation is rejected. -/
theorem C09_debug_ops_rejected (a e : List SOp) (d : SOp) (st : CSettings)
    (hn : st.no_debug_ops = true) (hd : d.cls.isDebuggingOp = true) :
    (typecheck (a ++ d :: e) st).2.errors ≠ [] := by
  apply typecheck_errors_of_fold
  intro tab m
  rw [List.foldl_append, List.foldl_cons]
  obtain ⟨tab1, m1, s1, hs⟩ : ∃ t m2 s, a.foldl (tcStep st) (tab, m, false) = (t, m2, s) := ⟨_, _, _, rfl⟩
  rw [hs]
  obtain ⟨tab', m', he, _, _, g⟩ := tcStep_parts st tab1 m1 s1 d
  rw [he]
  exact tc_errors_grow st e tab' m' _ (g hn hd)

end Hera
