import HeraProofs.Props.C07
/-
  C07 / C17, continued — the token stream as a whole: the offsets that the lexer model attaches to its tokens never go
  backwards and never point past the end of the text (the EOF token sits exactly at the end). Together with
  `C17_token_is_text_at_offset` (a token's value is the text at its offset) and `C17_token_in_quoted_line` (offset to
  line / column) every token location names a place that exists in the text, in reading order.
-/
namespace Hera
open Lex

theorem charTok_off (cs : Str) (off : Nat) : (charTok cs off).1.off = off := by
  unfold charTok
  cases readCharBody (cs.length + 1) cs [] with
  | none => rfl
  | some p =>
    obtain ⟨v, rest⟩ := p
    simp only
    split <;> rfl

/-- the offset of a token is that of its first character, or of the character after it for `<...>` and `:fmt` -/
theorem tokenAt_off (s : Str) (off : Nat) : off ≤ (tokenAt s off).1.off ∧ (tokenAt s off).1.off ≤ off + 1 ∧
    (s = [] → (tokenAt s off).1.off = off) := by
  cases s with
  | nil => simp [tokenAt]
  | cons c cs =>
    refine ⟨?_, ?_, fun h => by cases h⟩
    all_goals
      simp only [tokenAt]
      repeat' split
      all_goals first
        | (simp [symTok]; done)
        | (simp [intTok]; done)
        | (unfold strTok; split <;> simp; done)
        | (rw [charTok_off]; done)
        | (rw [charTok_off]; omega)
        | (unfold bracketTok; dsimp only []; split <;> simp; done)
        | (unfold fmtTok; split <;> simp; done)
        | simp

theorem lexGo_offsets (total : Nat) : ∀ (fuel : Nat) (s : Str), s.length ≤ total →
    (∀ t ∈ lexGo total fuel s, total - s.length ≤ t.off ∧ t.off ≤ total) ∧
    List.Pairwise (· ≤ ·) ((lexGo total fuel s).map (·.off)) := by
  intro fuel
  induction fuel with
  | zero => intro s _; simp [lexGo]
  | succ n ih =>
    intro s hs
    have hsk := skip_le s
    obtain ⟨o1, o2, o3⟩ := tokenAt_off (skip s) (total - (skip s).length)
    simp only [lexGo]
    by_cases he : (tokenAt (skip s) (total - (skip s).length)).1.kind = .eof
    · have hnil := tokenAt_eof _ _ he
      have ho := o3 hnil
      simp only [he, if_true]
      refine ⟨fun t ht => ?_, by simp⟩
      simp only [List.mem_singleton] at ht
      subst ht
      rw [ho]; omega
    · simp only [he, if_false]
      have hne : skip s ≠ [] := by
        intro e
        apply he
        rw [e]; rfl
      have hp := C07_token_progress (skip s) (total - (skip s).length) hne
      have hpos : 0 < (skip s).length := List.length_pos_iff.mpr hne
      obtain ⟨h1, h2⟩ := ih (tokenAt (skip s) (total - (skip s).length)).2 (by omega)
      refine ⟨fun t ht => ?_, ?_⟩
      · simp only [List.mem_cons] at ht
        rcases ht with rfl | ht
        · omega
        · have := h1 t ht; omega
      · simp only [List.map_cons, List.pairwise_cons]
        refine ⟨fun o ho => ?_, h2⟩
        simp only [List.mem_map] at ho
        obtain ⟨t, ht, rfl⟩ := ho
        have := h1 t ht
        omega

/-- **C17 (token offsets, whole text).** In the token stream of any text the offsets never decrease and every offset
    is at most the length of the text. -/
theorem C17_offsets_in_order (text : Str) :
    List.Pairwise (· ≤ ·) ((lexAll text).map (·.off)) ∧ ∀ t ∈ lexAll text, t.off ≤ text.length := by
  obtain ⟨h1, h2⟩ := lexGo_offsets text.length (text.length + 1) text (by omega)
  exact ⟨h2, fun t ht => (h1 t ht).2⟩

end Hera
