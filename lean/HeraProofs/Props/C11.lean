import HeraProofs.Props.C02
import HeraProofs.Props.C04
import HeraModel.Model.Debugger
/-
  C11 — running to completion in the debugger equals running in the interpreter.

  Every stepping command of the debugger (`next`, `next n`, `step`, `continue`, and the breakpoint commands that do not
  touch the machine) moves the machine along the interpreter's own execution: the state after the command is the state
  of `VirtualMachine.run`'s loop after some number of iterations from the state before it. Hence, whatever mixture of
  commands drives the program to its end, the final machine - registers, flags, memory, pc, halt status, call stack,
  everything written to stdout / stderr (`VM.out`), warning bookkeeping - is the one the interpreter ends in.
-/
namespace Hera
open Dbg Gen

/-! ### the interpreter's loop -/

theorem loop_stop (p : Program) (n : Nat) (vm : VM) (hg : Gen.runGuard vm p.code.length = false) :
    Run.loop p n vm = .ok vm := by
  cases n with
  | zero => rfl
  | succ n => simp [Run.loop, hg]

theorem loop_succ (p : Program) (n : Nat) (vm vm1 : VM) (hg : Gen.runGuard vm p.code.length = true)
    (hi : Run.iter p vm = .ok vm1) : Run.loop p (n + 1) vm = Run.loop p n vm1 := by
  simp [Run.loop, hg, hi]

theorem loop_add (p : Program) (a b : Nat) (vm : VM) :
    Run.loop p (a + b) vm = (match Run.loop p a vm with | .ok v => Run.loop p b v | .error e => .error e) := by
  induction a generalizing vm with
  | zero => simp [Run.loop]
  | succ a ih =>
    rw [show a + 1 + b = (a + b) + 1 by omega]
    by_cases hg : Gen.runGuard vm p.code.length = true
    · cases hi : Run.iter p vm with
      | error e => simp [Run.loop, hg, hi]
      | ok vm1 => rw [loop_succ p _ vm vm1 hg hi, loop_succ p _ vm vm1 hg hi]; exact ih vm1
    · have hg' : Gen.runGuard vm p.code.length = false := by simpa using hg
      rw [loop_stop p _ vm hg', loop_stop p _ vm hg']
      exact (loop_stop p b vm hg').symm

/-- `k` iterations further along the interpreter's execution -/
def Along (p : Program) (vm vm' : VM) : Prop := ∃ k, Run.loop p k vm = .ok vm'

theorem Along.refl (p : Program) (vm : VM) : Along p vm vm := ⟨0, rfl⟩

theorem Along.trans {p : Program} {a b c : VM} (h1 : Along p a b) (h2 : Along p b c) : Along p a c := by
  obtain ⟨k1, h1⟩ := h1
  obtain ⟨k2, h2⟩ := h2
  exact ⟨k1 + k2, by rw [loop_add, h1]; exact h2⟩

theorem finished_iff_guard (dp : DProg) (s : State) :
    finished dp s = !Gen.runGuard s.vm dp.p.code.length := by
  simp [finished, runGuard]

/-! ### straight-line source operations -/

/-- executing the operation moves to the next instruction and does not halt -/
def Straight (op : Op) : Prop :=
  ∀ vm vm', WF vm → Gen.exec op.cls op.args vm = .ok ((), vm') → vm'.pc = vm.pc + 1 ∧ vm'.halted = vm.halted

/-- within every source operation, all real operations but the last are straight (only the last may branch) -/
def StraightGroups (dp : DProg) : Prop :=
  ∀ i op g, (dp.p.code.zip dp.group)[i]? = some (op, g) → (∃ op', (dp.p.code.zip dp.group)[i + 1]? = some (op', g)) →
    Straight op

theorem execOps_cons (op : Op) (rest : List Op) (s s' : State) (h : execOps (op :: rest) s = .ok s') :
    ∃ vm', Gen.exec op.cls op.args { s.vm with location := op.loc } = .ok ((), vm') ∧
      execOps rest { s with vm := vm', calls := if op.cls = .CALL then s.calls + 1 else if op.cls = .RETURN then s.calls - 1 else s.calls } = .ok s' := by
  rw [execOps] at h
  cases hx : Gen.exec op.cls op.args { s.vm with location := op.loc } with
  | error e => rw [hx] at h; cases h
  | ok r =>
    obtain ⟨u, vmx⟩ := r
    rw [hx] at h
    exact ⟨vmx, rfl, h⟩

/-- The loop of `Debugger.next` over `real_ops()` (list order) is the interpreter's loop (following pc). -/
theorem execOps_along (dp : DProg) (hchk : Checked dp.p) (hstr : StraightGroups dp) (g : Nat) :
    ∀ (xs : List (Op × Nat)) (op : Op) (pc : Nat) (s s' : State),
      (dp.p.code.zip dp.group).drop pc = (op, g) :: xs → s.vm.pc = pc → s.vm.halted = false → WF s.vm →
      execOps (op :: runOf g xs) s = .ok s' → Along dp.p s.vm s'.vm ∧ WF s'.vm := by
  intro xs
  induction xs with
  | nil =>
    intro op pc s s' hdrop hpc hh hwf hex
    have hz : (dp.p.code.zip dp.group)[pc]? = some (op, g) := by
      rw [← List.head?_drop, hdrop]; rfl
    have hcode : dp.p.code[pc]? = some op := by
      have := List.getElem?_zip_eq_some.mp hz; exact this.1
    have hlt : pc < dp.p.code.length := (List.getElem?_eq_some_iff.mp hcode).1
    have hg : Gen.runGuard s.vm dp.p.code.length = true := by simp [runGuard, hh, hpc]; omega
    have hf : Run.fetch dp.p s.vm = .ok op := by
      obtain ⟨_, _, _, op', hf, hop⟩ := C02_fetch dp.p s.vm hg
      rw [hpc] at hop; simp only [Int.toNat_natCast] at hop
      rw [hcode] at hop; cases hop; exact hf
    obtain ⟨vm1, hi, hwf1⟩ := C02_iter_WF dp.p hchk s.vm hwf hg
    have hi' := hi
    simp only [Run.iter, hf] at hi'
    obtain ⟨vmx, hx, hrest⟩ := execOps_cons op _ s s' hex
    rw [hx] at hi'
    cases hi'
    simp only [runOf, execOps] at hrest
    cases hrest
    exact ⟨⟨1, by rw [loop_succ dp.p 0 s.vm vm1 hg hi]; rfl⟩, hwf1⟩
  | cons x xs ih =>
    intro op pc s s' hdrop hpc hh hwf hex
    obtain ⟨op2, g2⟩ := x
    have hz : (dp.p.code.zip dp.group)[pc]? = some (op, g) := by
      rw [← List.head?_drop, hdrop]; rfl
    have hcode : dp.p.code[pc]? = some op := (List.getElem?_zip_eq_some.mp hz).1
    have hlt : pc < dp.p.code.length := (List.getElem?_eq_some_iff.mp hcode).1
    have hg : Gen.runGuard s.vm dp.p.code.length = true := by simp [runGuard, hh, hpc]; omega
    have hf : Run.fetch dp.p s.vm = .ok op := by
      obtain ⟨_, _, _, op', hf, hop⟩ := C02_fetch dp.p s.vm hg
      rw [hpc] at hop; simp only [Int.toNat_natCast] at hop
      rw [hcode] at hop; cases hop; exact hf
    obtain ⟨vm1, hi, hwf1⟩ := C02_iter_WF dp.p hchk s.vm hwf hg
    have hi' := hi
    simp only [Run.iter, hf] at hi'
    have hdrop1 : (dp.p.code.zip dp.group).drop (pc + 1) = (op2, g2) :: xs := by
      have := congrArg List.tail hdrop
      simpa [List.tail_drop] using this
    obtain ⟨vmx, hx, hrest⟩ := execOps_cons op _ s s' hex
    rw [hx] at hi'
    cases hi'
    by_cases hg2 : g2 = g
    · subst hg2
      have hz1 : (dp.p.code.zip dp.group)[pc + 1]? = some (op2, g2) := by
        rw [← List.head?_drop, hdrop1]; rfl
      have hs : Straight op := hstr pc op g2 hz ⟨op2, hz1⟩
      have hwfl : WF { s.vm with location := op.loc } := hwf
      obtain ⟨hpc1, hh1⟩ := hs _ _ hwfl hx
      rw [runOf, if_pos rfl] at hrest
      have := ih op2 (pc + 1) _ s' hdrop1 (by show vm1.pc = _; rw [hpc1]; show s.vm.pc + 1 = _; rw [hpc]; rfl)
        (by show vm1.halted = false; rw [hh1]; exact hh) hwf1 hrest
      obtain ⟨hal, hwf'⟩ := this
      exact ⟨Along.trans ⟨1, by rw [loop_succ dp.p 0 s.vm vm1 hg hi]; rfl⟩ hal, hwf'⟩
    · rw [runOf, if_neg hg2] at hrest
      simp only [execOps] at hrest
      cases hrest
      exact ⟨⟨1, by rw [loop_succ dp.p 0 s.vm vm1 hg hi]; rfl⟩, hwf1⟩


/-- the instructions that pseudo-operations put before their last instruction -/
def Spec.Instr.isStraight : Spec.Instr → Bool
  | .setlo _ _ | .sethi _ _ | .fon _ | .foff _ => true
  | _ => false

theorem setReg_pc (σ : Spec.State) (d : Nat) (w : Spec.Word) : (σ.setReg d w).pc = σ.pc ∧ (σ.setReg d w).halted = σ.halted := by
  unfold Spec.State.setReg; split <;> exact ⟨rfl, rfl⟩

theorem spec_straight (i : Spec.Instr) (hs : i.isStraight = true) (σ : Spec.State) :
    (Spec.exec i σ).pc = σ.pc + 1 ∧ (Spec.exec i σ).halted = σ.halted := by
  cases i <;> simp only [Spec.Instr.isStraight] at hs <;> try cases hs
  · simp only [Spec.exec, Spec.State.next]; exact ⟨by rw [(setReg_pc _ _ _).1], (setReg_pc _ _ _).2⟩
  · simp only [Spec.exec, Spec.State.next]; exact ⟨by rw [(setReg_pc _ _ _).1], (setReg_pc _ _ _).2⟩
  · exact ⟨rfl, rfl⟩
  · exact ⟨rfl, rfl⟩

/-- SETLO, SETHI, FON, FOFF with valid operands are straight in the regenerated model of `op.execute` (from C01). -/
theorem straight_of_instr (i : Spec.Instr) (hv : i.Valid) (hs : i.isStraight = true) (loc : Int) :
    Straight ⟨i.toOp.1, i.toOp.2, loc⟩ := by
  intro vm vm' hwf hex
  have hcr : i.isCallRet = false := by cases i <;> simp_all [Spec.Instr.isStraight, Spec.Instr.isCallRet]
  obtain ⟨vm'', hex', _, hall, _, _⟩ := C01_step i hv vm hwf (fun h => by rw [hcr] at h; cases h)
  have : vm'' = vm' := by
    have := hex'.symm.trans hex; injection this with h; injection h
  subst this
  have hal : i.aliased = false := by cases i <;> simp_all [Spec.Instr.isStraight, Spec.Instr.aliased]
  have hmh : i.mulHighIn (abs vm) = false := by cases i <;> simp_all [Spec.Instr.isStraight, Spec.Instr.mulHighIn]
  unfold Spec.allowed at hall
  rw [hal, hmh] at hall
  simp only [Bool.false_eq_true, if_false] at hall
  obtain ⟨_, _, _, hpc, hh⟩ := hall
  obtain ⟨hp, hq⟩ := spec_straight i hs (abs vm)
  exact ⟨by have : (abs vm'').pc = (abs vm).pc + 1 := hpc.trans hp
            exact this, by have : (abs vm'').halted = (abs vm).halted := hh.trans hq
                           exact this⟩

/-! ### what the preprocessor puts before the last instruction of an expansion -/

def straightCls : Cls → Bool
  | .SETLO | .SETHI | .FON | .FOFF => true
  | _ => false

theorem dropLast_straight (l : List Enc.DOp) (cs : List Cls) (h : l.map (·.cls) = cs)
    (hc : ∀ c ∈ cs.dropLast, straightCls c = true) : ∀ d ∈ l.dropLast, straightCls d.cls = true := by
  intro d hd
  apply hc
  rw [← h, ← List.map_dropLast]
  exact List.mem_map_of_mem hd

theorem SET_convert_cls (t0 t1 : Tok) (l : List Enc.DOp) (h : Gen.SET.convert t0 t1 = .ok l) :
    l.map (·.cls) = [.SETLO, .SETHI] := by
  unfold Gen.SET.convert at h
  obtain ⟨a, _, h⟩ := bind_ok_length h
  obtain ⟨b, _, h⟩ := bind_ok_length h
  injection h with h
  rw [← h]; rfl

theorem FLAGS_convert_cls (t0 : Tok) (l : List Enc.DOp) (h : Gen.FLAGS.convert t0 = .ok l) :
    l.map (·.cls) = [.FOFF, .ADD] := by
  unfold Gen.FLAGS.convert at h
  injection h with h
  rw [← h]; rfl

theorem CALL_convert_cls (t0 t1 : Tok) (l : List Enc.DOp) (h : Gen.CALL.convert t0 t1 = .ok l) :
    l.map (·.cls) = if t1.isReg then [.CALL] else [.SETLO, .SETHI, .CALL] := by
  unfold Gen.CALL.convert at h
  by_cases hreg : t1.isReg = true
  · simp only [hreg, ↓reduceIte] at h ⊢
    injection h with h; rw [← h]; rfl
  · simp only [hreg, Bool.false_eq_true, ↓reduceIte] at h ⊢
    obtain ⟨a, ha, h⟩ := bind_ok_length h
    injection h with h
    rw [← h, List.map_append, SET_convert_cls _ _ _ ha]; rfl

theorem SETRF_convert_cls (t0 t1 : Tok) (l : List Enc.DOp) (h : Gen.SETRF.convert t0 t1 = .ok l) :
    l.map (·.cls) = [.SETLO, .SETHI, .FOFF, .ADD] := by
  unfold Gen.SETRF.convert at h
  obtain ⟨a, ha, h⟩ := bind_ok_length h
  obtain ⟨b, hb, h⟩ := bind_ok_length h
  injection h with h
  rw [← h, List.map_append, SET_convert_cls _ _ _ ha, FLAGS_convert_cls _ _ hb]; rfl

theorem dropLast_of_length_one {α} (l : List α) (h : l.length = 1) : l.dropLast = [] := by
  rcases l with _ | ⟨a, _ | _⟩ <;> simp at h ⊢

/-- **C11 (shape of expansions).** In the regenerated `convert` of every operation class, for every operand tuple of the
    right arity, all instructions of the expansion but the last are SETLO, SETHI, FON or FOFF: only the last
    instruction of a source operation can branch, call, return or halt. -/
theorem C11_convert_straight (c : Cls) (toks : List Tok) (l : List Enc.DOp) (hlen : toks.length = c.P.length)
    (h : Gen.convert c toks = .ok l) : ∀ d ∈ l.dropLast, straightCls d.cls = true := by
  by_cases ha : c.convertDef = "AbstractOperation"
  · rw [convert_abstract c toks ha] at h
    injection h with h
    subst h
    intro d hd; simp at hd
  · by_cases hr : c.isRegisterBranch = true
    · have hp : c.P.length = 1 := by cases c <;> first | rfl | (exact absurd hr (by decide))
      rw [hp] at hlen
      obtain ⟨t, rfl⟩ : ∃ t, toks = [t] := by
        rcases toks with _ | ⟨t, _ | _⟩ <;> simp at hlen
        exact ⟨t, rfl⟩
      rw [convert_regbranch c t hr] at h
      unfold Gen.RegisterBranch.convert at h
      by_cases hreg : t.isReg = true
      · simp only [hreg, ↓reduceIte] at h
        injection h with h; rw [← h]; intro d hd; simp at hd
      · simp only [hreg, Bool.false_eq_true, ↓reduceIte] at h
        obtain ⟨a, _, h⟩ := bind_ok_length h
        injection h with h
        refine dropLast_straight l [.SETLO, .SETHI, c] (by rw [← h]; rfl) ?_
        intro c' hc'
        simp only [List.dropLast, List.mem_cons, List.not_mem_nil, or_false] at hc'
        rcases hc' with rfl | rfl <;> rfl
    · cases c <;> first
        | (exact absurd rfl ha)
        | (exact absurd rfl hr)
        | (rcases toks with _ | ⟨t0, _ | ⟨t1, _ | ⟨t2, _ | ⟨t3, tl⟩⟩⟩⟩ <;> simp [Cls.P] at hlen <;>
            (unfold Gen.convert at h; dsimp only at h) <;>
            first
              | exact dropLast_straight l _ (SET_convert_cls _ _ _ h) (by decide)
              | exact dropLast_straight l _ (FLAGS_convert_cls _ _ h) (by decide)
              | exact dropLast_straight l _ (SETRF_convert_cls _ _ _ h) (by decide)
              | (refine dropLast_straight l _ (CALL_convert_cls _ _ _ h) ?_; split <;> decide)
              | (rw [dropLast_of_length_one l (OPCODE_convert_length _ _ h)]; intro d hd; cases hd)
              | (change Except.ok _ = Except.ok l at h; injection h with h
                 refine dropLast_straight l _ rfl ?_; rw [← h]; simp only [List.map]; decide)
              | skip)

/-- what the commands preserve: the machine is on the interpreter's execution from `vm0`, and well-formed -/
def OnRun (p : Program) (vm0 : VM) (s : State) : Prop := Along p vm0 s.vm ∧ WF s.vm

section
variable (dp : DProg) (hchk : Checked dp.p) (hstr : StraightGroups dp)
include hchk hstr

theorem nextStep_along (s s' : State) (hwf : WF s.vm) (h : nextStep dp s = .ok s') :
    Along dp.p s.vm s'.vm ∧ WF s'.vm := by
  unfold nextStep at h
  by_cases hf : finished dp s = true
  · rw [if_pos hf] at h; cases h; exact ⟨Along.refl _ _, hwf⟩
  · rw [if_neg hf] at h
    have hf' : finished dp s = false := by simpa using hf
    simp only [finished, Bool.or_eq_false_iff, Bool.not_eq_false', Bool.and_eq_true, decide_eq_true_eq] at hf'
    obtain ⟨hh, h0, h1⟩ := hf'
    have hpc : s.vm.pc = ((s.vm.pc.toNat : Nat) : Int) := by omega
    unfold realOps at h
    cases hd : (dp.p.code.zip dp.group).drop s.vm.pc.toNat with
    | nil => rw [hd] at h; simp only [execOps] at h; cases h; exact ⟨Along.refl _ _, hwf⟩
    | cons x xs =>
      obtain ⟨op, g⟩ := x
      rw [hd] at h
      exact execOps_along dp hchk hstr g xs op s.vm.pc.toNat s s' hd hpc hh hwf h

theorem whileNext_along (cond : State → Bool) (fuel : Nat) (s s' : State) (hwf : WF s.vm)
    (h : whileNext dp cond fuel s = .ok (some s')) : Along dp.p s.vm s'.vm ∧ WF s'.vm := by
  induction fuel generalizing s with
  | zero =>
    simp only [whileNext] at h
    by_cases hc : cond s = true
    · rw [if_pos hc] at h; cases h
    · rw [if_neg hc] at h; cases h; exact ⟨Along.refl _ _, hwf⟩
  | succ n ih =>
    simp only [whileNext] at h
    by_cases hc : cond s = true
    · rw [if_pos hc] at h
      cases hn : nextStep dp s with
      | error e => rw [hn] at h; cases h
      | ok s1 =>
        rw [hn] at h
        obtain ⟨a1, w1⟩ := nextStep_along dp hchk hstr s s1 hwf hn
        obtain ⟨a2, w2⟩ := ih s1 w1 h
        exact ⟨a1.trans a2, w2⟩
    · rw [if_neg hc] at h; cases h; exact ⟨Along.refl _ _, hwf⟩

theorem nextOver_along (fuel : Nat) (s s' : State) (hwf : WF s.vm) (h : nextOver dp fuel s = .ok (some s')) :
    Along dp.p s.vm s'.vm ∧ WF s'.vm := by
  unfold nextOver at h
  by_cases hf : finished dp s = true
  · rw [if_pos hf] at h; cases h; exact ⟨Along.refl _ _, hwf⟩
  · rw [if_neg hf] at h
    by_cases hc : isCallAt dp s = true
    · rw [if_pos hc] at h
      cases hn : nextStep dp s with
      | error e => rw [hn] at h; cases h
      | ok s1 =>
        rw [hn] at h
        obtain ⟨a1, w1⟩ := nextStep_along dp hchk hstr s s1 hwf hn
        obtain ⟨a2, w2⟩ := whileNext_along dp hchk hstr _ fuel s1 s' w1 h
        exact ⟨a1.trans a2, w2⟩
    · rw [if_neg hc] at h
      cases hn : nextStep dp s with
      | error e => rw [hn] at h; cases h
      | ok s1 =>
        rw [hn] at h; cases h
        exact nextStep_along dp hchk hstr s _ hwf hn

theorem handleNext_along (fuel n : Nat) (s s' : State) (hwf : WF s.vm) (h : handleNext dp fuel n s = .ok (some s')) :
    Along dp.p s.vm s'.vm ∧ WF s'.vm := by
  induction n generalizing s with
  | zero => simp only [handleNext] at h; cases h; exact ⟨Along.refl _ _, hwf⟩
  | succ n ih =>
    simp only [handleNext] at h
    by_cases hf : finished dp s = true
    · rw [if_pos hf] at h; cases h; exact ⟨Along.refl _ _, hwf⟩
    · rw [if_neg hf] at h
      cases hn : nextOver dp fuel s with
      | error e => rw [hn] at h; cases h
      | ok r =>
        cases r with
        | none => rw [hn] at h; cases h
        | some s1 =>
          rw [hn] at h
          obtain ⟨a1, w1⟩ := nextOver_along dp hchk hstr fuel s s1 hwf hn
          obtain ⟨a2, w2⟩ := ih s1 w1 h
          exact ⟨a1.trans a2, w2⟩

/-- the stepping commands: `next [n]`, `step`, `continue`, and the breakpoint commands -/
def Cmd.isRun : Cmd → Bool
  | .next _ | .step | .cont | .brk _ | .clear _ | .clearAll => true
  | _ => false

/-- **C11 (one command).** Every stepping command leaves the machine further along the interpreter's own execution. -/
theorem C11_command_along (fuel : Nat) (c : Cmd) (hc : Cmd.isRun c = true) (s s' : State) (hwf : WF s.vm)
    (h : apply dp fuel c s = .ok (some s')) : Along dp.p s.vm s'.vm ∧ WF s'.vm := by
  cases c with
  | next n => exact handleNext_along dp hchk hstr fuel n.toNat s s' hwf h
  | step =>
    simp only [apply, handleStep] at h
    by_cases hq : (finished dp s || !isCallAt dp s) = true
    · rw [if_pos hq] at h; cases h; exact ⟨Along.refl _ _, hwf⟩
    · rw [if_neg hq] at h
      cases hn : nextStep dp s with
      | error e => rw [hn] at h; cases h
      | ok s1 => rw [hn] at h; cases h; exact nextStep_along dp hchk hstr s _ hwf hn
  | cont =>
    simp only [apply, handleContinue] at h
    cases hn : nextStep dp s with
    | error e => rw [hn] at h; cases h
    | ok s1 =>
      rw [hn] at h
      obtain ⟨a1, w1⟩ := nextStep_along dp hchk hstr s s1 hwf hn
      obtain ⟨a2, w2⟩ := whileNext_along dp hchk hstr _ fuel s1 s' w1 h
      exact ⟨a1.trans a2, w2⟩
  | brk b =>
    simp only [apply, setBreak] at h
    cases h
    by_cases hb : s.breaks.contains b = true
    · rw [if_pos hb]; exact ⟨Along.refl _ _, hwf⟩
    · rw [if_neg hb]; exact ⟨Along.refl _ _, hwf⟩
  | clear b => simp only [apply] at h; cases h; exact ⟨Along.refl _ _, hwf⟩
  | clearAll => simp only [apply] at h; cases h; exact ⟨Along.refl _ _, hwf⟩
  | restart => cases hc
  | goto pc => cases hc
  | flag w v => cases hc
  | assignReg i v => cases hc
  | assignMem a v => cases hc
  | assignPc v => cases hc

theorem runCmds_along (fuel : Nat) (cmds : List Cmd) (hc : ∀ c ∈ cmds, Cmd.isRun c = true) (s s' : State) (hwf : WF s.vm)
    (h : runCmds dp fuel cmds s = .ok (some s')) : Along dp.p s.vm s'.vm ∧ WF s'.vm := by
  induction cmds generalizing s with
  | nil => simp only [runCmds] at h; cases h; exact ⟨Along.refl _ _, hwf⟩
  | cons c cs ih =>
    simp only [runCmds] at h
    cases ha : apply dp fuel c s with
    | error e => rw [ha] at h; cases h
    | ok r =>
      cases r with
      | none => rw [ha] at h; cases h
      | some s1 =>
        rw [ha] at h
        obtain ⟨a1, w1⟩ := C11_command_along dp hchk hstr fuel c (hc c (List.mem_cons_self)) s s1 hwf ha
        obtain ⟨a2, w2⟩ := ih (fun c' hc' => hc c' (List.mem_cons_of_mem _ hc')) s1 w1 h
        exact ⟨a1.trans a2, w2⟩

end

/-- **C11.** A debugger session that starts like the interpreter (reset, data statements) and is driven to the end of
    the program by *any* mixture of `next`, `next n`, `step`, `continue` (and breakpoint commands) ends in exactly the
    machine that `VirtualMachine.run` ends in: for every sufficiently large number of loop iterations, the
    interpreter's loop from the same start returns the debugger's final machine - registers, flags, memory, pc, halt
    status, call stack, output and warnings (`VM.out`). -/
theorem C11_debugger_equals_interpreter (dp : DProg) (vm : VM) (hp : CheckedFor dp.p vm.settings) (hstr : StraightGroups dp)
    (s0 : State) (h0 : Dbg.initial dp vm = .ok s0) (fuel : Nat) (cmds : List Cmd) (hc : ∀ c ∈ cmds, Cmd.isRun c = true)
    (s : State) (hrun : runCmds dp fuel cmds s0 = .ok (some s)) (hfin : finished dp s = true) :
    ∃ n, ∀ m, n ≤ m → Run.loop dp.p m s0.vm = .ok s.vm := by
  -- the start state is well-formed (C02)
  obtain ⟨vm0, hr, hwf0, _, _, hdc0, hs0⟩ := C02_reset_WF vm hp.init
  obtain ⟨vm1, hd, hwf1, _, _, hs1⟩ := execData_WF dp.p.data hp.data vm0 hwf0 (by rw [hdc0]; exact hp.fits)
  have hstart : Run.start dp.p vm = .ok vm1 := by simp [Run.start, hr, hd]
  have hs0vm : s0.vm = vm1 := by
    simp only [Dbg.initial, hstart] at h0; cases h0; rfl
  obtain ⟨⟨n, hn⟩, _⟩ := runCmds_along dp hp.toChecked hstr fuel cmds hc s0 s (by rw [hs0vm]; exact hwf1) hrun
  refine ⟨n, fun m hm => ?_⟩
  obtain ⟨d, rfl⟩ : ∃ d, m = n + d := ⟨m - n, by omega⟩
  rw [loop_add, hn]
  apply loop_stop
  rw [finished_iff_guard] at hfin
  simpa using hfin


/-! ### non-vacuity: a program with a two-instruction source operation meets the hypotheses and a session finishes -/

def exDP : DProg :=
  { p := { data := [],
           code := [⟨.SETLO, [.int 1, .int 5], 2⟩, ⟨.SETHI, [.int 1, .int 0], 2⟩, ⟨.INC, [.int 1, .int 1], 3⟩, ⟨.BRR, [.int 0], 4⟩] },
    group := [0, 0, 1, 2], isCall := [false, false, false, false], line := [2, 2, 3, 4] }

example : StraightGroups exDP := by
  intro i op g hz hz'
  obtain ⟨op', hz'⟩ := hz'
  match i with
  | 0 =>
    have : op = ⟨.SETLO, [.int 1, .int 5], 2⟩ := by
      simp [exDP] at hz; exact hz.1.symm
    subst this
    exact straight_of_instr (.setlo 1 5) (by decide) rfl 2
  | 1 =>
    simp [exDP] at hz hz'
    omega
  | 2 =>
    simp [exDP] at hz hz'
    omega
  | 3 => simp [exDP] at hz'
  | n + 4 => simp [exDP] at hz

/-- ... and is a checked program (the other hypothesis of the theorem) -/
example : Checked exDP.p := by
  refine ⟨?_, by decide⟩
  intro op hop
  simp only [exDP, List.mem_cons, List.not_mem_nil, or_false] at hop
  rcases hop with rfl | rfl | rfl | rfl
  · exact Or.inl ⟨.setlo 1 5, by decide, rfl⟩
  · exact Or.inl ⟨.sethi 1 0, by decide, rfl⟩
  · exact Or.inl ⟨.inc 1 1, by decide, rfl⟩
  · exact Or.inl ⟨.brr .always 0, by decide, rfl⟩

end Hera
