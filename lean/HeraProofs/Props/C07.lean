import HeraModel.Model.Lexer
/-
  C07 — the front end is total: the lexer.

  The lexer model (`Model/Lexer.lean`, corresponded with the real `Lexer` token by token incl. line and column) is a
  total function whose every loop Lean has accepted as terminating. On top of that:
  `C07_token_progress`: every token but EOF consumes at least one character, whatever the text;
  `C07_lexer_terminates`: lexing any text yields a token stream that ends with EOF and has at most one token per
  character plus one - the lexer cannot loop, stall or run past the end on any input.
-/
namespace Hera
open Lex

theorem skip_le (s : Str) : (skip s).length ≤ s.length := by
  fun_induction skip s with
  | case1 => simp
  | case2 c cs _ ih => simp; omega
  | case3 r _ ih => have := dropLine_le r; simp at ih ⊢; omega
  | case4 r _ ih => have := dropBlock_le r; simp at ih ⊢; omega
  | case5 => simp
  | case6 => simp

/-- the string reader stops strictly inside what it was given: at least the closing quote is consumed -/
theorem readBody_rest_lt (fuel : Nat) : ∀ (text acc : Str) (w : Nat) (r : StrLit.Read),
    StrLit.readBody fuel text acc w = some r → r.rest.length < text.length := by
  induction fuel with
  | zero => intro text acc w r h; simp [StrLit.readBody] at h
  | succ n ih =>
    intro text acc w r h
    cases text with
    | nil => simp [StrLit.readBody] at h
    | cons c rest =>
      simp only [StrLit.readBody] at h
      repeat' split at h
      all_goals first
        | (cases h; done)
        | (cases h; simp only [List.length_cons]; omega)
        | (have := ih _ _ _ _ h; simp only [List.length_cons] at this ⊢; omega)

theorem readCharBody_rest_lt (fuel : Nat) : ∀ (text acc v rest : Str),
    readCharBody fuel text acc = some (v, rest) → rest.length < text.length := by
  induction fuel with
  | zero => intro text acc v rest h; simp [readCharBody] at h
  | succ n ih =>
    intro text acc v rest h
    cases text with
    | nil => simp [readCharBody] at h
    | cons c tl =>
      simp only [readCharBody] at h
      repeat' split at h
      all_goals first
        | (cases h; done)
        | (cases h; simp only [List.length_cons]; omega)
        | (have := ih _ _ _ _ h; simp only [List.length_cons] at this ⊢; omega)

theorem drop_lt {α} (l : List α) (n : Nat) (hn : 0 < n) (hl : l ≠ []) : (l.drop n).length < l.length := by
  have : 0 < l.length := by cases l <;> simp_all
  simp only [List.length_drop]; omega

theorem readIntLen_pos (s : Str) (h : s ≠ []) : 0 < readIntLen s := by
  unfold readIntLen
  split
  · split <;> omega
  · omega
  · exact absurd rfl h

theorem symTok_lt (s : Str) (off : Nat) (h : s ≠ []) : (symTok s off).2.length < s.length :=
  drop_lt _ _ (by omega) h

theorem intTok_lt (s : Str) (off : Nat) (h : s ≠ []) : (intTok s off).2.length < s.length :=
  drop_lt _ _ (readIntLen_pos s h) h

theorem strTok_le (cs : Str) (off : Nat) : (strTok cs off).2.length ≤ cs.length := by
  unfold strTok
  split
  · rename_i r hr
    have := readBody_rest_lt _ _ _ _ _ hr
    show r.rest.length ≤ _; omega
  · simp

theorem charTok_le (cs : Str) (off : Nat) : (charTok cs off).2.length ≤ cs.length := by
  unfold charTok
  split
  · rename_i v rest hr
    have := readCharBody_rest_lt _ _ _ _ _ hr
    split <;> (show rest.length ≤ _; omega)
  · simp

theorem bracketTok_le (cs : Str) (off : Nat) : (bracketTok cs off).2.length ≤ cs.length := by
  unfold bracketTok
  dsimp only []
  split
  · rename_i x rest' hrest
    have h1 : (cs.drop (cs.takeWhile (· != 62)).length).length ≤ cs.length := by
      simp only [List.length_drop]; omega
    rw [hrest] at h1
    simp only [List.length_cons] at h1
    show rest'.length ≤ _; omega
  · simp

theorem fmtTok_le (cs : Str) (off : Nat) : (fmtTok cs off).2.length ≤ cs.length := by
  unfold fmtTok
  split
  · simp
  · rename_i x cs'
    show ((x :: cs').drop (1 + takeWhileN isSymChar cs')).length ≤ _
    simp only [List.length_drop]; omega

/-- **C07 (every token makes progress).** Whatever the text, a token other than EOF consumes at least one character. -/
theorem C07_token_progress (s : Str) (off : Nat) (h : s ≠ []) : (tokenAt s off).2.length < s.length := by
  cases s with
  | nil => exact absurd rfl h
  | cons c cs =>
    simp only [tokenAt]
    split
    · exact symTok_lt _ _ (by simp)
    · split
      · exact intTok_lt _ _ (by simp)
      · split
        · have := strTok_le cs off; simp only [List.length_cons]; omega
        · split
          · have := charTok_le cs off; simp only [List.length_cons]; omega
          · split
            · exact drop_lt _ _ (by omega) (by simp)
            · split
              · have := bracketTok_le cs off; simp only [List.length_cons]; omega
              · split
                · have := fmtTok_le cs off; simp only [List.length_cons]; omega
                · simp

theorem punctKind_ne_eof (c : Nat) : punctKind c ≠ .eof := by
  unfold punctKind
  repeat' split
  all_goals simp

/-- the only token of kind EOF is the one at the end of the text -/
theorem tokenAt_eof (s : Str) (off : Nat) (h : (tokenAt s off).1.kind = .eof) : s = [] := by
  cases s with
  | nil => rfl
  | cons c cs =>
    exfalso
    simp only [tokenAt] at h
    split at h
    · unfold symTok at h; dsimp only [] at h; split at h <;> simp at h
    · split at h
      · simp [intTok] at h
      · split at h
        · unfold strTok at h; split at h <;> simp at h
        · split at h
          · unfold charTok at h
            split at h
            · split at h <;> simp at h
            · simp at h
          · split at h
            · simp at h
            · split at h
              · unfold bracketTok at h; dsimp only [] at h; split at h <;> simp at h
              · split at h
                · unfold fmtTok at h; split at h <;> simp at h
                · exact punctKind_ne_eof c h

theorem lexGo_ends (total : Nat) : ∀ (fuel : Nat) (s : Str), s.length < fuel →
    ((lexGo total fuel s).getLast?.map (·.kind) = some .eof) ∧ (lexGo total fuel s).length ≤ s.length + 1 := by
  intro fuel
  induction fuel with
  | zero => intro s h; omega
  | succ n ih =>
    intro s hs
    simp only [lexGo]
    by_cases he : (tokenAt (skip s) (total - (skip s).length)).1.kind = .eof
    · simp [he]
    · simp only [he, if_false]
      have hne : skip s ≠ [] := by
        intro e
        apply he
        rw [e]; rfl
      have hp := C07_token_progress (skip s) (total - (skip s).length) hne
      have hsk := skip_le s
      obtain ⟨h1, h2⟩ := ih (tokenAt (skip s) (total - (skip s).length)).2 (by omega)
      constructor
      · cases hl : lexGo total n (tokenAt (skip s) (total - (skip s).length)).2 with
        | nil => rw [hl] at h1; simp at h1
        | cons a as => rw [hl] at h1; rw [List.getLast?_cons_cons]; exact h1
      · simp only [List.length_cons]; omega

/-- **C07 (lexing terminates, on every text).** The token stream of any text ends with EOF (the model's fuel is never
    exhausted) and has at most one token per character plus the EOF. -/
theorem C07_lexer_terminates (text : Str) :
    (lexAll text).getLast?.map (·.kind) = some .eof ∧ (lexAll text).length ≤ text.length + 1 :=
  lexGo_ends text.length (text.length + 1) text (by omega)

/-- kinds of token whose value is the very text they were read from (strings and characters are decoded; `<...>` and
    `:fmt` carry the text after their first character) -/
def Kind.verbatim : Kind → Bool
  | .string | .char | .bracketed | .fmt | .error | .eof => false
  | _ => true

theorem take_take_length {α} (l : List α) (n : Nat) : l.take (l.take n).length = l.take n := by
  rw [List.length_take]
  by_cases h : n ≤ l.length
  · rw [Nat.min_eq_left h]
  · rw [Nat.min_eq_right (by omega), List.take_length, List.take_of_length_le (by omega)]

/-- **C17 (a token sits where it says).** For names, registers, numbers, `#include`, punctuation and unknown characters:
    the token read at offset `off` from the text `s` that starts there has `off` as its location, and its value is the
    text at that offset - so, with `C17_token_in_quoted_line`, the quoted line shows the token at the caret. -/
theorem C17_token_is_text_at_offset (s : Str) (off : Nat) (hk : Kind.verbatim (tokenAt s off).1.kind = true) :
    (tokenAt s off).1.off = off ∧ s.take (tokenAt s off).1.value.length = (tokenAt s off).1.value := by
  cases s with
  | nil => simp [tokenAt, Kind.verbatim] at hk
  | cons c cs =>
    simp only [tokenAt] at hk ⊢
    by_cases h1 : (isAlpha c || c == 95) = true
    · rw [if_pos h1]; simp only [symTok]; exact ⟨trivial, take_take_length _ _⟩
    · rw [if_neg h1] at hk ⊢
      by_cases h2 : isDigit c = true
      · rw [if_pos h2]; simp only [intTok]; exact ⟨trivial, take_take_length _ _⟩
      · rw [if_neg h2] at hk ⊢
        by_cases h3 : c = 34
        · rw [if_pos h3] at hk
          unfold strTok at hk; split at hk <;> simp [Kind.verbatim] at hk
        · rw [if_neg h3] at hk ⊢
          by_cases h4 : c = 39
          · rw [if_pos h4] at hk
            unfold charTok at hk
            split at hk
            · split at hk <;> simp [Kind.verbatim] at hk
            · simp [Kind.verbatim] at hk
          · rw [if_neg h4] at hk ⊢
            by_cases h5 : startsWith (c :: cs) (Str.ofString "#include") = true
            · rw [if_pos h5]; exact ⟨rfl, take_take_length _ _⟩
            · rw [if_neg h5] at hk ⊢
              by_cases h6 : c = 60
              · rw [if_pos h6] at hk
                unfold bracketTok at hk; dsimp only [] at hk; split at hk <;> simp [Kind.verbatim] at hk
              · rw [if_neg h6] at hk ⊢
                by_cases h7 : c = 58
                · rw [if_pos h7] at hk
                  unfold fmtTok at hk; split at hk <;> simp [Kind.verbatim] at hk
                · rw [if_neg h7]; simp

end Hera
