import HeraProofs.Props.C19b
/-
  C19, continued — loop-free routines of the STACK-convention Tiger library (`s_*` of `Generated/Stdlib.lean`):
  the argument is in the frame at FP+3 and the result replaces it there; FP+4 is the routine's scratch slot for R1.
-/
namespace Hera
open Spec Gen.Stdlib

theorem s_size_code_is_ops : s_size_code.map opView = s_size_ops := by decide
theorem s_ord_code_is_ops : s_ord_code.map opView = s_ord_ops := by decide
theorem s_not_code_is_ops : s_not_code.map opView = s_not_ops := by decide

/-- `symsimp` with the DEC lemmas -/
macro "symsimp2" "[" ts:Lean.Parser.Tactic.simpLemma,* "]" : tactic =>
  `(tactic| symsimp [Sym.dec_get, Sym.dec_mem, Sym.dec_pc, Sym.dec_halted, $ts,*])

theorem subc_val (a b : Word) : (subc a b true).1 = a - b := by
  unfold subc addc
  apply BitVec.eq_of_toNat_eq
  simp [BitVec.adc_spec, BitVec.toNat_not, BitVec.toNat_sub]
  have := a.isLt
  have := b.isLt
  omega

theorem ofInt16_1 : (BitVec.ofInt 16 1 : Word) = 1#16 := by decide
theorem ofInt16_3 : (BitVec.ofInt 16 3 : Word) = 3#16 := by decide
theorem ofInt16_4 : (BitVec.ofInt 16 4 : Word) = 4#16 := by decide
theorem add3_ne_add4 (x : Word) : x + 3#16 ≠ x + 4#16 := by
  intro h
  have := congrArg BitVec.toNat h
  simp [BitVec.toNat_add] at this
  have := x.isLt
  omega
theorem inc_dec (x : Word) : x + 1#16 - 1#16 = x := by
  apply BitVec.eq_of_toNat_eq
  simp [BitVec.toNat_add, BitVec.toNat_sub]
  have := x.isLt
  omega

/-- **C19 (size, stack convention).** With the string's address in the argument slot FP+3 (and the string not lying in
    the routine's scratch slot FP+4): the result slot FP+3 receives the string's length word, R1, SP and every other
    register come back as they were, and only FP+3 and FP+4 change in memory. -/
theorem C19_size_stack (σ : State) (hh : σ.halted = false) (hpc : σ.pc = s_size_base)
    (hs : σ.mem (σ.get 14 + 3#16) ≠ σ.get 14 + 4#16) :
    let τ := Lib.run s_size_base s_size_code 8 σ
    τ.mem (σ.get 14 + 3#16) = σ.mem (σ.mem (σ.get 14 + 3#16)) ∧ τ.get 1 = σ.get 1 ∧
    (∀ x, x ≠ σ.get 14 + 3#16 → x ≠ σ.get 14 + 4#16 → τ.mem x = σ.mem x) ∧
    Returned σ τ [2, 3, 4, 5, 6, 7, 8, 9, 10, 11] := by
  intro τ
  have hb : s_size_base = 31 := rfl
  rw [hb] at hpc
  have hτ : τ = exec (.ret 12 13) (exec (.dec 15 1) (exec (.load 1 4 14) (exec (.store 1 3 14) (exec (.load 1 0 1)
      (exec (.load 1 3 14) (exec (.store 1 4 14) (exec (.inc 15 1) σ))))))) := by
    show Lib.run s_size_base s_size_code 8 σ = _
    rw [Sym.run_succ σ _ _ 7 (.inc 15 1) hh (by rw [hpc]; rfl)]
    rw [Sym.run_succ _ _ _ 6 (.store 1 4 14) (by symsimp2 [hh]) (by symsimp2 [hpc]; rfl)]
    rw [Sym.run_succ _ _ _ 5 (.load 1 3 14) (by symsimp2 [hh]) (by symsimp2 [hpc]; rfl)]
    rw [Sym.run_succ _ _ _ 4 (.load 1 0 1) (by symsimp2 [hh]) (by symsimp2 [hpc]; rfl)]
    rw [Sym.run_succ _ _ _ 3 (.store 1 3 14) (by symsimp2 [hh]) (by symsimp2 [hpc]; rfl)]
    rw [Sym.run_succ _ _ _ 2 (.load 1 4 14) (by symsimp2 [hh]) (by symsimp2 [hpc]; rfl)]
    rw [Sym.run_succ _ _ _ 1 (.dec 15 1) (by symsimp2 [hh]) (by symsimp2 [hpc]; rfl)]
    rw [Sym.run_succ _ _ _ 0 (.ret 12 13) (by symsimp2 [hh]) (by symsimp2 [hpc]; rfl)]
    rfl
  rw [hτ]
  have h34 := add3_ne_add4 (σ.get 14)
  have h43 : σ.get 14 + 4#16 ≠ σ.get 14 + 3#16 := fun h => h34 h.symm
  refine ⟨?_, ?_, ?_, ⟨?_, ?_, ?_, ?_, ?_, ?_⟩⟩
  · symsimp2 [ofInt16_0, ofInt16_3, ofInt16_4, h34, h43, hs]
  · symsimp2 [ofInt16_0, ofInt16_3, ofInt16_4, h34, h43, hs]
  · intro x h3 h4
    symsimp2 [ofInt16_0, ofInt16_3, ofInt16_4, h3, h4]
  · symsimp2 []
  · symsimp2 []
  · symsimp2 []
  · symsimp2 [addc_val, subc_val, ofInt16_1, inc_dec]
  · intro r hr
    simp only [List.mem_cons, List.not_mem_nil, or_false] at hr
    rcases hr with rfl | rfl | rfl | rfl | rfl | rfl | rfl | rfl | rfl | rfl <;> symsimp2 []
  · symsimp2 [hh]


theorem ofInt16_1' (x : Word) : x + BitVec.ofInt 16 1 = x + 1#16 := by rw [ofInt16_1]

/-- **C19 (ord, stack convention).** As `size`, for the cell after the length word (the first character). -/
theorem C19_ord_stack (σ : State) (hh : σ.halted = false) (hpc : σ.pc = s_ord_base)
    (hs : σ.mem (σ.get 14 + 3#16) + 1#16 ≠ σ.get 14 + 4#16) :
    let τ := Lib.run s_ord_base s_ord_code 8 σ
    τ.mem (σ.get 14 + 3#16) = σ.mem (σ.mem (σ.get 14 + 3#16) + 1#16) ∧ τ.get 1 = σ.get 1 ∧
    (∀ x, x ≠ σ.get 14 + 3#16 → x ≠ σ.get 14 + 4#16 → τ.mem x = σ.mem x) ∧
    Returned σ τ [2, 3, 4, 5, 6, 7, 8, 9, 10, 11] := by
  intro τ
  have hb : s_ord_base = 280 := rfl
  rw [hb] at hpc
  have hτ : τ = exec (.ret 12 13) (exec (.dec 15 1) (exec (.load 1 4 14) (exec (.store 1 3 14) (exec (.load 1 1 1)
      (exec (.load 1 3 14) (exec (.store 1 4 14) (exec (.inc 15 1) σ))))))) := by
    show Lib.run s_ord_base s_ord_code 8 σ = _
    rw [Sym.run_succ σ _ _ 7 (.inc 15 1) hh (by rw [hpc]; rfl)]
    rw [Sym.run_succ _ _ _ 6 (.store 1 4 14) (by symsimp2 [hh]) (by symsimp2 [hpc]; rfl)]
    rw [Sym.run_succ _ _ _ 5 (.load 1 3 14) (by symsimp2 [hh]) (by symsimp2 [hpc]; rfl)]
    rw [Sym.run_succ _ _ _ 4 (.load 1 1 1) (by symsimp2 [hh]) (by symsimp2 [hpc]; rfl)]
    rw [Sym.run_succ _ _ _ 3 (.store 1 3 14) (by symsimp2 [hh]) (by symsimp2 [hpc]; rfl)]
    rw [Sym.run_succ _ _ _ 2 (.load 1 4 14) (by symsimp2 [hh]) (by symsimp2 [hpc]; rfl)]
    rw [Sym.run_succ _ _ _ 1 (.dec 15 1) (by symsimp2 [hh]) (by symsimp2 [hpc]; rfl)]
    rw [Sym.run_succ _ _ _ 0 (.ret 12 13) (by symsimp2 [hh]) (by symsimp2 [hpc]; rfl)]
    rfl
  rw [hτ]
  have h34 := add3_ne_add4 (σ.get 14)
  have h43 : σ.get 14 + 4#16 ≠ σ.get 14 + 3#16 := fun h => h34 h.symm
  refine ⟨?_, ?_, ?_, ⟨?_, ?_, ?_, ?_, ?_, ?_⟩⟩
  · symsimp2 [ofInt16_1, ofInt16_3, ofInt16_4, h34, h43, hs]
  · symsimp2 [ofInt16_1, ofInt16_3, ofInt16_4, h34, h43, hs]
  · intro x h3 h4
    symsimp2 [ofInt16_1, ofInt16_3, ofInt16_4, h3, h4]
  · symsimp2 []
  · symsimp2 []
  · symsimp2 []
  · symsimp2 [addc_val, subc_val, ofInt16_1, inc_dec]
  · intro r hr
    simp only [List.mem_cons, List.not_mem_nil, or_false] at hr
    rcases hr with rfl | rfl | rfl | rfl | rfl | rfl | rfl | rfl | rfl | rfl <;> symsimp2 []
  · symsimp2 [hh]


theorem add_lit_ne (x : Word) (a b : Nat) (ha : a < 65536) (hb : b < 65536) (hab : a ≠ b) :
    x + BitVec.ofNat 16 a ≠ x + BitVec.ofNat 16 b := by
  intro h
  have := congrArg BitVec.toNat h
  simp [BitVec.toNat_add] at this
  have := x.isLt
  omega
theorem self_ne_add_lit (x : Word) (a : Nat) (ha : a < 65536) (h0 : a ≠ 0) : x ≠ x + BitVec.ofNat 16 a := by
  intro h
  have := congrArg BitVec.toNat h
  simp [BitVec.toNat_add] at this
  have := x.isLt
  omega

theorem word_331 : (BitVec.ofInt 8 1 ++ ((BitVec.ofInt 8 75).signExtend 16 : Word).truncate 8 : BitVec 16) = 331#16 := by decide
theorem word_334 : (BitVec.ofInt 8 1 ++ ((BitVec.ofInt 8 78).signExtend 16 : Word).truncate 8 : BitVec 16) = 334#16 := by decide

/-- **C19 (not, stack convention).** With the argument in the frame slot FP+3: that slot receives 1 when the argument
    was 0 and 0 otherwise; R1, SP, FP / FP_alt and R2..R10 come back as they were, control returns to the caller's
    PC_ret, and only the frame cells FP, FP+1, FP+3, FP+4 change in memory (Rt is clobbered). -/
theorem C19_not_stack (σ : State) (hh : σ.halted = false) (hpc : σ.pc = s_not_base) :
    ∃ n, n ≤ 21 ∧
      let τ := Lib.run s_not_base s_not_code n σ
      τ.mem (σ.get 14 + 3#16) = (if σ.mem (σ.get 14 + 3#16) = 0#16 then 1#16 else 0#16) ∧ τ.get 1 = σ.get 1 ∧
      (∀ x, x ≠ σ.get 14 → x ≠ σ.get 14 + 1#16 → x ≠ σ.get 14 + 3#16 → x ≠ σ.get 14 + 4#16 → τ.mem x = σ.mem x) ∧
      Returned σ τ [2, 3, 4, 5, 6, 7, 8, 9, 10] := by
  have hb : s_not_base = 315 := rfl
  rw [hb] at hpc
  -- the frame cells are pairwise distinct
  have d01 := self_ne_add_lit (σ.get 14) 1 (by omega) (by omega)
  have d03 := self_ne_add_lit (σ.get 14) 3 (by omega) (by omega)
  have d04 := self_ne_add_lit (σ.get 14) 4 (by omega) (by omega)
  have d13 := add_lit_ne (σ.get 14) 1 3 (by omega) (by omega) (by omega)
  have d14 := add_lit_ne (σ.get 14) 1 4 (by omega) (by omega) (by omega)
  have d34 := add_lit_ne (σ.get 14) 3 4 (by omega) (by omega) (by omega)
  have d10 := Ne.symm d01
  have d30 := Ne.symm d03
  have d40 := Ne.symm d04
  have d31 := Ne.symm d13
  have d41 := Ne.symm d14
  have d43 := Ne.symm d34
  have hsub : ∀ x : Word, (subc x (0#16) true).1 = x := fun x => subc_zero_true x
  by_cases hz : σ.mem (σ.get 14 + 3#16) = 0#16
  · refine ⟨18, by omega, ?_⟩
    intro τ
    have hτ : τ = exec (.ret 12 13) (exec (.dec 15 1) (exec (.load 12 1 14) (exec (.load 13 0 14) (exec (.load 1 4 14)
        (exec (.store 1 3 14) (exec (.sethi 1 0) (exec (.setlo 1 1)
        (exec (.br .z 11) (exec (.sethi 11 1) (exec (.setlo 11 75) (exec (.alu3 .sub 0 1 0) (exec (.fon 8) (exec (.load 1 3 14)
        (exec (.store 1 4 14) (exec (.inc 15 1) (exec (.store 12 1 14) (exec (.store 13 0 14) σ))))))))))))))))) := by
      show Lib.run s_not_base s_not_code 18 σ = _
      rw [Sym.run_succ σ _ _ 17 (.store 13 0 14) hh (by rw [hpc]; rfl)]
      rw [Sym.run_succ _ _ _ 16 (.store 12 1 14) (by symsimp2 [hh]) (by symsimp2 [hpc]; rfl)]
      rw [Sym.run_succ _ _ _ 15 (.inc 15 1) (by symsimp2 [hh]) (by symsimp2 [hpc]; rfl)]
      rw [Sym.run_succ _ _ _ 14 (.store 1 4 14) (by symsimp2 [hh]) (by symsimp2 [hpc]; rfl)]
      rw [Sym.run_succ _ _ _ 13 (.load 1 3 14) (by symsimp2 [hh]) (by symsimp2 [hpc]; rfl)]
      rw [Sym.run_succ _ _ _ 12 (.fon 8) (by symsimp2 [hh]) (by symsimp2 [hpc]; rfl)]
      rw [Sym.run_succ _ _ _ 11 (.alu3 .sub 0 1 0) (by symsimp2 [hh]) (by symsimp2 [hpc]; rfl)]
      rw [Sym.run_succ _ _ _ 10 (.setlo 11 75) (by symsimp2 [hh]) (by symsimp2 [hpc]; rfl)]
      rw [Sym.run_succ _ _ _ 9 (.sethi 11 1) (by symsimp2 [hh]) (by symsimp2 [hpc]; rfl)]
      rw [Sym.run_succ _ _ _ 8 (.br .z 11) (by symsimp2 [hh]) (by symsimp2 [hpc]; rfl)]
      rw [Sym.run_succ _ _ _ 7 (.setlo 1 1) (by symsimp2 [hh])
        (by symsimp2 [hpc, Cond.holds, sub_fl_z, hsub, get_zero, word_331, word_334, ofInt16_0, ofInt16_1, ofInt16_3, ofInt16_4, d01, d03, d04,
          d13, d14, d34, d10, d30, d40, d31, d41, d43, hz]; rfl)]
      rw [Sym.run_succ _ _ _ 6 (.sethi 1 0) (by symsimp2 [hh])
        (by symsimp2 [hpc, Cond.holds, sub_fl_z, hsub, get_zero, word_331, word_334, ofInt16_0, ofInt16_1, ofInt16_3, ofInt16_4, d01, d03, d04,
          d13, d14, d34, d10, d30, d40, d31, d41, d43, hz]; rfl)]
      rw [Sym.run_succ _ _ _ 5 (.store 1 3 14) (by symsimp2 [hh])
        (by symsimp2 [hpc, Cond.holds, sub_fl_z, hsub, get_zero, word_331, word_334, ofInt16_0, ofInt16_1, ofInt16_3, ofInt16_4, d01, d03, d04,
          d13, d14, d34, d10, d30, d40, d31, d41, d43, hz]; rfl)]
      rw [Sym.run_succ _ _ _ 4 (.load 1 4 14) (by symsimp2 [hh])
        (by symsimp2 [hpc, Cond.holds, sub_fl_z, hsub, get_zero, word_331, word_334, ofInt16_0, ofInt16_1, ofInt16_3, ofInt16_4, d01, d03, d04,
          d13, d14, d34, d10, d30, d40, d31, d41, d43, hz]; rfl)]
      rw [Sym.run_succ _ _ _ 3 (.load 13 0 14) (by symsimp2 [hh])
        (by symsimp2 [hpc, Cond.holds, sub_fl_z, hsub, get_zero, word_331, word_334, ofInt16_0, ofInt16_1, ofInt16_3, ofInt16_4, d01, d03, d04,
          d13, d14, d34, d10, d30, d40, d31, d41, d43, hz]; rfl)]
      rw [Sym.run_succ _ _ _ 2 (.load 12 1 14) (by symsimp2 [hh])
        (by symsimp2 [hpc, Cond.holds, sub_fl_z, hsub, get_zero, word_331, word_334, ofInt16_0, ofInt16_1, ofInt16_3, ofInt16_4, d01, d03, d04,
          d13, d14, d34, d10, d30, d40, d31, d41, d43, hz]; rfl)]
      rw [Sym.run_succ _ _ _ 1 (.dec 15 1) (by symsimp2 [hh])
        (by symsimp2 [hpc, Cond.holds, sub_fl_z, hsub, get_zero, word_331, word_334, ofInt16_0, ofInt16_1, ofInt16_3, ofInt16_4, d01, d03, d04,
          d13, d14, d34, d10, d30, d40, d31, d41, d43, hz]; rfl)]
      rw [Sym.run_succ _ _ _ 0 (.ret 12 13) (by symsimp2 [hh])
        (by symsimp2 [hpc, Cond.holds, sub_fl_z, hsub, get_zero, word_331, word_334, ofInt16_0, ofInt16_1, ofInt16_3, ofInt16_4, d01, d03, d04,
          d13, d14, d34, d10, d30, d40, d31, d41, d43, hz]; rfl)]
      rfl
    rw [hτ]
    refine ⟨?_, ?_, ?_, ⟨?_, ?_, ?_, ?_, ?_, ?_⟩⟩
    · symsimp2 [hpc, Cond.holds, sub_fl_z, hsub, get_zero, word_331, word_334, ofInt16_0, ofInt16_1, ofInt16_3, ofInt16_4, d01, d03, d04, d13, d14, d34, d10, d30, d40, d31, d41, d43, hz, set_word_1]
    · symsimp2 [hpc, Cond.holds, sub_fl_z, hsub, get_zero, word_331, word_334, ofInt16_0, ofInt16_1, ofInt16_3, ofInt16_4, d01, d03, d04, d13, d14, d34, d10, d30, d40, d31, d41, d43, hz]
    · intro x h0 h1 h3 h4
      symsimp2 [ofInt16_0, ofInt16_1, ofInt16_3, ofInt16_4, h0, h1, h3, h4]
    · symsimp2 [hpc, Cond.holds, sub_fl_z, hsub, get_zero, word_331, word_334, ofInt16_0, ofInt16_1, ofInt16_3, ofInt16_4, d01, d03, d04, d13, d14, d34, d10, d30, d40, d31, d41, d43, hz]
    · symsimp2 [hpc, Cond.holds, sub_fl_z, hsub, get_zero, word_331, word_334, ofInt16_0, ofInt16_1, ofInt16_3, ofInt16_4, d01, d03, d04, d13, d14, d34, d10, d30, d40, d31, d41, d43, hz]
    · symsimp2 [hpc, Cond.holds, sub_fl_z, hsub, get_zero, word_331, word_334, ofInt16_0, ofInt16_1, ofInt16_3, ofInt16_4, d01, d03, d04, d13, d14, d34, d10, d30, d40, d31, d41, d43, hz]
    · symsimp2 [addc_val, subc_val, ofInt16_1, inc_dec]
    · intro r hr
      simp only [List.mem_cons, List.not_mem_nil, or_false] at hr
      rcases hr with rfl | rfl | rfl | rfl | rfl | rfl | rfl | rfl | rfl <;> symsimp2 []
    · symsimp2 [hh]
  · -- the argument is true
    refine ⟨21, by omega, ?_⟩
    intro τ
    have hτ : τ = exec (.ret 12 13) (exec (.dec 15 1) (exec (.load 12 1 14) (exec (.load 13 0 14) (exec (.load 1 4 14)
        (exec (.br .always 11) (exec (.sethi 11 1) (exec (.setlo 11 78) (exec (.store 1 3 14) (exec (.sethi 1 0) (exec (.setlo 1 0)
        (exec (.br .z 11) (exec (.sethi 11 1) (exec (.setlo 11 75) (exec (.alu3 .sub 0 1 0) (exec (.fon 8) (exec (.load 1 3 14)
        (exec (.store 1 4 14) (exec (.inc 15 1) (exec (.store 12 1 14) (exec (.store 13 0 14) σ)))))))))))))))))))) := by
      show Lib.run s_not_base s_not_code 21 σ = _
      rw [Sym.run_succ σ _ _ 20 (.store 13 0 14) hh (by rw [hpc]; rfl)]
      rw [Sym.run_succ _ _ _ 19 (.store 12 1 14) (by symsimp2 [hh]) (by symsimp2 [hpc]; rfl)]
      rw [Sym.run_succ _ _ _ 18 (.inc 15 1) (by symsimp2 [hh]) (by symsimp2 [hpc]; rfl)]
      rw [Sym.run_succ _ _ _ 17 (.store 1 4 14) (by symsimp2 [hh]) (by symsimp2 [hpc]; rfl)]
      rw [Sym.run_succ _ _ _ 16 (.load 1 3 14) (by symsimp2 [hh]) (by symsimp2 [hpc]; rfl)]
      rw [Sym.run_succ _ _ _ 15 (.fon 8) (by symsimp2 [hh]) (by symsimp2 [hpc]; rfl)]
      rw [Sym.run_succ _ _ _ 14 (.alu3 .sub 0 1 0) (by symsimp2 [hh]) (by symsimp2 [hpc]; rfl)]
      rw [Sym.run_succ _ _ _ 13 (.setlo 11 75) (by symsimp2 [hh]) (by symsimp2 [hpc]; rfl)]
      rw [Sym.run_succ _ _ _ 12 (.sethi 11 1) (by symsimp2 [hh]) (by symsimp2 [hpc]; rfl)]
      rw [Sym.run_succ _ _ _ 11 (.br .z 11) (by symsimp2 [hh]) (by symsimp2 [hpc]; rfl)]
      rw [Sym.run_succ _ _ _ 10 (.setlo 1 0) (by symsimp2 [hh])
        (by symsimp2 [hpc, Cond.holds, sub_fl_z, hsub, get_zero, word_331, word_334, ofInt16_0, ofInt16_1, ofInt16_3, ofInt16_4, d01, d03, d04,
          d13, d14, d34, d10, d30, d40, d31, d41, d43, hz]; rfl)]
      rw [Sym.run_succ _ _ _ 9 (.sethi 1 0) (by symsimp2 [hh])
        (by symsimp2 [hpc, Cond.holds, sub_fl_z, hsub, get_zero, word_331, word_334, ofInt16_0, ofInt16_1, ofInt16_3, ofInt16_4, d01, d03, d04,
          d13, d14, d34, d10, d30, d40, d31, d41, d43, hz]; rfl)]
      rw [Sym.run_succ _ _ _ 8 (.store 1 3 14) (by symsimp2 [hh])
        (by symsimp2 [hpc, Cond.holds, sub_fl_z, hsub, get_zero, word_331, word_334, ofInt16_0, ofInt16_1, ofInt16_3, ofInt16_4, d01, d03, d04,
          d13, d14, d34, d10, d30, d40, d31, d41, d43, hz]; rfl)]
      rw [Sym.run_succ _ _ _ 7 (.setlo 11 78) (by symsimp2 [hh])
        (by symsimp2 [hpc, Cond.holds, sub_fl_z, hsub, get_zero, word_331, word_334, ofInt16_0, ofInt16_1, ofInt16_3, ofInt16_4, d01, d03, d04,
          d13, d14, d34, d10, d30, d40, d31, d41, d43, hz]; rfl)]
      rw [Sym.run_succ _ _ _ 6 (.sethi 11 1) (by symsimp2 [hh])
        (by symsimp2 [hpc, Cond.holds, sub_fl_z, hsub, get_zero, word_331, word_334, ofInt16_0, ofInt16_1, ofInt16_3, ofInt16_4, d01, d03, d04,
          d13, d14, d34, d10, d30, d40, d31, d41, d43, hz]; rfl)]
      rw [Sym.run_succ _ _ _ 5 (.br .always 11) (by symsimp2 [hh])
        (by symsimp2 [hpc, Cond.holds, sub_fl_z, hsub, get_zero, word_331, word_334, ofInt16_0, ofInt16_1, ofInt16_3, ofInt16_4, d01, d03, d04,
          d13, d14, d34, d10, d30, d40, d31, d41, d43, hz]; rfl)]
      rw [Sym.run_succ _ _ _ 4 (.load 1 4 14) (by symsimp2 [hh])
        (by symsimp2 [hpc, Cond.holds, sub_fl_z, hsub, get_zero, word_331, word_334, ofInt16_0, ofInt16_1, ofInt16_3, ofInt16_4, d01, d03, d04,
          d13, d14, d34, d10, d30, d40, d31, d41, d43, hz]; rfl)]
      rw [Sym.run_succ _ _ _ 3 (.load 13 0 14) (by symsimp2 [hh])
        (by symsimp2 [hpc, Cond.holds, sub_fl_z, hsub, get_zero, word_331, word_334, ofInt16_0, ofInt16_1, ofInt16_3, ofInt16_4, d01, d03, d04,
          d13, d14, d34, d10, d30, d40, d31, d41, d43, hz]; rfl)]
      rw [Sym.run_succ _ _ _ 2 (.load 12 1 14) (by symsimp2 [hh])
        (by symsimp2 [hpc, Cond.holds, sub_fl_z, hsub, get_zero, word_331, word_334, ofInt16_0, ofInt16_1, ofInt16_3, ofInt16_4, d01, d03, d04,
          d13, d14, d34, d10, d30, d40, d31, d41, d43, hz]; rfl)]
      rw [Sym.run_succ _ _ _ 1 (.dec 15 1) (by symsimp2 [hh])
        (by symsimp2 [hpc, Cond.holds, sub_fl_z, hsub, get_zero, word_331, word_334, ofInt16_0, ofInt16_1, ofInt16_3, ofInt16_4, d01, d03, d04,
          d13, d14, d34, d10, d30, d40, d31, d41, d43, hz]; rfl)]
      rw [Sym.run_succ _ _ _ 0 (.ret 12 13) (by symsimp2 [hh])
        (by symsimp2 [hpc, Cond.holds, sub_fl_z, hsub, get_zero, word_331, word_334, ofInt16_0, ofInt16_1, ofInt16_3, ofInt16_4, d01, d03, d04,
          d13, d14, d34, d10, d30, d40, d31, d41, d43, hz]; rfl)]
      rfl
    rw [hτ]
    refine ⟨?_, ?_, ?_, ⟨?_, ?_, ?_, ?_, ?_, ?_⟩⟩
    · symsimp2 [hpc, Cond.holds, sub_fl_z, hsub, get_zero, word_331, word_334, ofInt16_0, ofInt16_1, ofInt16_3, ofInt16_4, d01, d03, d04, d13, d14, d34, d10, d30, d40, d31, d41, d43, hz, set_word_0]
    · symsimp2 [hpc, Cond.holds, sub_fl_z, hsub, get_zero, word_331, word_334, ofInt16_0, ofInt16_1, ofInt16_3, ofInt16_4, d01, d03, d04, d13, d14, d34, d10, d30, d40, d31, d41, d43, hz]
    · intro x h0 h1 h3 h4
      symsimp2 [ofInt16_0, ofInt16_1, ofInt16_3, ofInt16_4, h0, h1, h3, h4]
    · symsimp2 [hpc, Cond.holds, sub_fl_z, hsub, get_zero, word_331, word_334, ofInt16_0, ofInt16_1, ofInt16_3, ofInt16_4, d01, d03, d04, d13, d14, d34, d10, d30, d40, d31, d41, d43, hz]
    · symsimp2 [hpc, Cond.holds, sub_fl_z, hsub, get_zero, word_331, word_334, ofInt16_0, ofInt16_1, ofInt16_3, ofInt16_4, d01, d03, d04, d13, d14, d34, d10, d30, d40, d31, d41, d43, hz]
    · symsimp2 [hpc, Cond.holds, sub_fl_z, hsub, get_zero, word_331, word_334, ofInt16_0, ofInt16_1, ofInt16_3, ofInt16_4, d01, d03, d04, d13, d14, d34, d10, d30, d40, d31, d41, d43, hz]
    · symsimp2 [addc_val, subc_val, ofInt16_1, inc_dec]
    · intro r hr
      simp only [List.mem_cons, List.not_mem_nil, or_false] at hr
      rcases hr with rfl | rfl | rfl | rfl | rfl | rfl | rfl | rfl | rfl <;> symsimp2 []
    · symsimp2 [hh]

end Hera
