import HeraModel.Model.Loc
import HeraModel.Generated.LexerFacts
/-
  C17 — every diagnostic points at the real place in the user's file: the location arithmetic.

  * `C17_token_in_quoted_line`: for every text and every token that does not contain a line break, the (line, column)
    the lexer has when it reaches the token - counting by `next_char` - names an existing line of `text.split("\n")`,
    and that line, from that column on, starts with the token: the quoted line is the right one and the caret column is
    the first character of the token.
  * `C17_ifdef_keeps_lines`: the conditional-compilation pass, as the parser calls it (`preserve_lines=True`), keeps every
    line break of the text it was given - discarded blocks, directives and the blank lines their patterns swallow
    included - so everything that is kept stays on its line.
  * `C17_caret`: the caret line has the tabs of the quoted line up to the column and blanks elsewhere.
-/
namespace Hera
open Loc Ifdef

/-! ### line / column arithmetic -/

theorem lastLine_of_no_nl (s : Str) (h : s.count 10 = 0) : lastLine s = s := by
  cases s with
  | nil => rfl
  | cons c cs => simp [lastLine, h]

theorem lastLine_cons_nl (cs : Str) : lastLine (10 :: cs) = lastLine cs := by
  simp [lastLine]

theorem lastLine_cons (c : Nat) (cs : Str) (hc : c ≠ 10) :
    lastLine (c :: cs) = if cs.count 10 = 0 then c :: cs else lastLine cs := by
  simp [lastLine, List.count_cons, hc]

theorem adv_foldl (pre : Str) (p : Nat × Nat) :
    pre.foldl adv p = (p.1 + count10 pre, if count10 pre = 0 then p.2 + pre.length else (lastLine pre).length + 1) := by
  induction pre generalizing p with
  | nil => simp [count10]
  | cons c cs ih =>
    rw [List.foldl_cons, ih]
    by_cases hc : c = 10
    · subst hc
      have h1 : count10 (10 :: cs) = count10 cs + 1 := by simp [count10]
      simp only [adv, if_true, h1, lastLine_cons_nl]
      by_cases h0 : count10 cs = 0
      · rw [lastLine_of_no_nl cs (by simpa [count10] using h0)]
        simp [h0]; omega
      · simp [h0]; omega
    · have h1 : count10 (c :: cs) = count10 cs := by simp [count10, List.count_cons, hc]
      simp only [adv, hc, if_false, h1]
      by_cases h0 : count10 cs = 0
      · simp [h0]; omega
      · have : cs.count 10 ≠ 0 := by simpa [count10] using h0
        simp [h0, lastLine_cons c cs hc, this]

/-- the lexer's position after `pre`: line = 1 + number of line breaks, column = 1 + length of the unfinished line -/
theorem posAfter_eq (pre : Str) : posAfter pre = (count10 pre + 1, (lastLine pre).length + 1) := by
  unfold posAfter
  rw [adv_foldl]
  by_cases h0 : count10 pre = 0
  · rw [lastLine_of_no_nl pre (by simpa [count10] using h0)]
    simp [h0]; omega
  · simp [h0]; omega

theorem splitLines_ne_nil (s : Str) : splitLines s ≠ [] := by
  cases s with
  | nil => simp [splitLines]
  | cons c cs =>
    rw [splitLines]
    split
    · split <;> simp
    · simp

theorem splitLines_cons (c : Nat) (cs : Str) (l : Str) (ls : List Str) (h : splitLines cs = l :: ls) :
    splitLines (c :: cs) = if c = 10 then [] :: l :: ls else (c :: l) :: ls := by
  rw [splitLines, h]

theorem splitLines_head (s : Str) : (splitLines s)[0]? = some (firstLine s) := by
  induction s with
  | nil => rfl
  | cons c cs ih =>
    cases h : splitLines cs with
    | nil => exact absurd h (splitLines_ne_nil cs)
    | cons l ls =>
      rw [h] at ih
      simp only [List.getElem?_cons_zero, Option.some.injEq] at ih
      rw [splitLines_cons c cs l ls h]
      by_cases hc : c = 10
      · simp [hc, firstLine]
      · simp [hc, firstLine, ih]

/-- line `count10 pre` (0-based) of `pre ++ rest` is the unfinished line of `pre` followed by the first line of `rest` -/
theorem splitLines_get (pre rest : Str) :
    (splitLines (pre ++ rest))[count10 pre]? = some (lastLine pre ++ firstLine rest) := by
  induction pre with
  | nil => simpa [count10, lastLine] using splitLines_head rest
  | cons c cs ih =>
    cases h : splitLines (cs ++ rest) with
    | nil => exact absurd h (splitLines_ne_nil _)
    | cons l ls =>
      rw [h] at ih
      rw [List.cons_append, splitLines_cons c (cs ++ rest) l ls h]
      by_cases hc : c = 10
      · subst hc
        have h1 : count10 (10 :: cs) = count10 cs + 1 := by simp [count10]
        simp only [if_true, h1, List.getElem?_cons_succ, lastLine_cons_nl]
        exact ih
      · have h1 : count10 (c :: cs) = count10 cs := by simp [count10, List.count_cons, hc]
        simp only [hc, if_false, h1]
        by_cases h0 : count10 cs = 0
        · have hc0 : cs.count 10 = 0 := by simpa [count10] using h0
          rw [h0] at ih ⊢
          simp only [List.getElem?_cons_zero, Option.some.injEq] at ih ⊢
          rw [lastLine_cons c cs hc, if_pos hc0, ih, lastLine_of_no_nl cs hc0]
          rfl
        · have hc0 : cs.count 10 ≠ 0 := by simpa [count10] using h0
          obtain ⟨n, hn⟩ : ∃ n, count10 cs = n + 1 := ⟨count10 cs - 1, by omega⟩
          rw [hn] at ih ⊢
          simp only [List.getElem?_cons_succ] at ih ⊢
          rw [lastLine_cons c cs hc, if_neg hc0]
          exact ih

theorem firstLine_append_of_no_nl (tok post : Str) (h : tok.count 10 = 0) :
    firstLine (tok ++ post) = tok ++ firstLine post := by
  induction tok with
  | nil => rfl
  | cons c cs ih =>
    have hc : c ≠ 10 := by intro e; subst e; simp at h
    have hcs : cs.count 10 = 0 := by simpa [List.count_cons, hc] using h
    simp [firstLine, hc, ih hcs]

/-- **C17 (the location of a token is a real place, and the right one).** For every text `pre ++ tok ++ post` in
    which `tok` has no line break: with (line, col) the lexer's position after consuming `pre`, line `line` of
    `text.split("\n")` exists, has at least `col - 1` characters before the token, and continues with `tok`. -/
theorem C17_token_in_quoted_line (pre tok post : Str) (htok : tok.count 10 = 0) :
    ∃ line, (splitLines (pre ++ tok ++ post))[(posAfter pre).1 - 1]? = some line ∧
      line.take ((posAfter pre).2 - 1) = lastLine pre ∧
      (line.drop ((posAfter pre).2 - 1)).take tok.length = tok := by
  rw [posAfter_eq]
  refine ⟨lastLine pre ++ (tok ++ firstLine post), ?_, ?_, ?_⟩
  · have := splitLines_get pre (tok ++ post)
    rw [firstLine_append_of_no_nl tok post htok] at this
    simpa [List.append_assoc] using this
  · simp
  · simp

/-- **C17 (caret).** The caret prefix has one character per character of the quoted line before the column: a tab under
    a tab, a blank under anything else - so the caret is printed under column `col` however tabs are rendered. -/
theorem C17_caret (line : Str) (col : Nat) :
    (alignCaret line col).length = min (col - 1) line.length ∧
    ∀ i, i < (alignCaret line col).length → ((alignCaret line col)[i]? = some 9 ↔ line[i]? = some 9) := by
  unfold alignCaret
  refine ⟨by simp, ?_⟩
  intro i hi
  simp only [List.length_map, List.length_take] at hi
  have h1 : i < col - 1 := by omega
  have h2 : i < line.length := by omega
  simp only [List.getElem?_map, List.getElem?_take, h1, if_true, List.getElem?_eq_getElem h2, Option.map_some,
    Option.some.injEq]
  by_cases h9 : line[i] = 9
  · simp [h9]
  · simp [h9]

/-- **C17 (only `next_char` moves the lexer).** In the current source of hera/lexer.py (regenerated table), the position,
    the line and the column of the lexer are assigned nowhere but in `__init__` (to 0, 1, 1) and in `next_char` - so after
    consuming any prefix `pre` the lexer's (line, column) is `posAfter pre`, which is what the theorems above describe. -/
theorem C17_position_only_next_char :
    (∀ m ∈ LexerFacts.positionWriters, m ∈ ["__init__", "next_char"]) ∧
    (∀ m ∈ LexerFacts.lineWriters, m ∈ ["__init__", "next_char"]) ∧
    (∀ m ∈ LexerFacts.columnWriters, m ∈ ["__init__", "next_char"]) := by decide

/-! ### conditional compilation keeps line breaks -/

theorem count10_stripped (s : Str) : count10 (stripped s) = count10 s := by
  simp [count10, stripped]

theorem count10_append (a b : Str) : count10 (a ++ b) = count10 a + count10 b := by
  simp [count10, List.count_append]

/-- the keep-stack machine in line-preserving mode: the output has the line breaks of what was there before plus those of
    every segment it consumes, whatever is kept or discarded -/
theorem evalGoP_lines (segs : List Seg) : ∀ (keeping enclosing : List Bool) (acc : Str),
    count10 (evalGoP segs keeping enclosing acc) = count10 acc + count10 (segs.flatMap Seg.src) := by
  induction segs with
  | nil => intro k e acc; simp [evalGoP, count10]
  | cons g rest ih =>
    intro k e acc
    have hflat : count10 ((g :: rest).flatMap Seg.src) = count10 g.src + count10 (rest.flatMap Seg.src) := by
      simp [List.flatMap_cons, count10_append]
    cases rest with
    | nil =>
      cases g with
      | text s => simp [evalGoP, count10_append, Seg.src, count10]
      | dir p src =>
        have hs : List.count 10 (stripped src) = List.count 10 src := count10_stripped src
        cases p <;> simp only [evalGoP] <;> (try split) <;>
          simp [evalGoP, count10_append, Seg.src, count10, hs]
    | cons g2 rest2 =>
      rw [hflat]
      cases g with
      | text s =>
        simp only [evalGoP, Seg.src]
        rw [ih]
        split <;> simp [count10_append, count10_stripped] <;> omega
      | dir p src =>
        cases p <;> simp only [evalGoP, Seg.src] <;> (try split) <;> rw [ih] <;>
          simp [count10_append, count10_stripped] <;> omega

/-- **C17 (conditional compilation keeps every line break).** Whenever the scanner's segments partition the text (checked
    on every input of the correspondence stream), `evaluate_ifdefs(text, preserve_lines=True)` has exactly as many line
    breaks as the text; by `evalGoP_lines` the same holds for every prefix of segments, so kept text stays on its line. -/
theorem C17_ifdef_keeps_lines (s : Str) (hpart : (scanM s).flatMap Seg.src = s) :
    count10 (evaluateP s) = count10 s := by
  unfold evaluateP
  rw [evalGoP_lines, hpart]
  simp [count10]

end Hera
