import HeraProofs.Props.C02
import HeraProofs.Props.C03
import HeraProofs.Props.C05
import HeraProofs.Props.C09
/-
  C08 — accepted programs never go wrong later.

  Decision-logic layer over the regenerated tables and convert methods: every documented operand range fits the bit
  field reserved for it (`C08_table_widths`, decided on the literal BITV / signature tables); the expansions of
  conforming operations consist of operations that themselves conform to their signatures with literal operands
  (`fits_*`), hence (C05) are encoded without truncation. The "never raises" part is C02_run_WF for running and the
  oracle below for listing / obfuscating / assembling.
-/
namespace Hera
open Chk Sig Enc

/-- operand `k` of a pattern-encoded class fits the bit field it is encoded in -/
def fieldFits (c : Cls) (k : Nat) (kind : Sig.Kind) : Bool :=
  let w := width (strip c.BITV).reverse k
  match kind with
  | .reg => w == 4
  | .regOrLabel => w == 4
  | .int lo hi =>
    if c = .INC ∨ c = .DEC then decide (0 ≤ lo - 1) && decide (hi - 1 ≤ 2 ^ w)       -- the field holds value - 1
    else if lo < 0 then w == 8 && decide (-128 ≤ lo) && decide (hi ≤ 256)            -- signed/unsigned byte
    else decide (hi ≤ 2 ^ w)
  | .intOrLabel lo hi => w == 8 && decide (-128 ≤ lo) && decide (hi ≤ 256)
  | _ => false

/-- **C08 (fields fit).** For every class that has a machine encoding, every documented operand range fits the bit
    field that the (regenerated) pattern reserves for it: registers in 4 bits, INC/DEC amounts minus one in 6 bits,
    flag masks and offsets in 4/5 bits, byte operands in 8 bits. Decided on the literal tables. -/
theorem C08_table_widths : ∀ c ∈ Cls.all, c.BITV ≠ [] →
    ∀ p ∈ (Sig.params c).zipIdx, fieldFits c p.2 p.1 = true := by decide

/-- an operation whose operands are literal and within its documented signature (no symbols left) -/
def Fits (d : DOp) : Prop := Sig.argsOK (Sig.params d.cls) d.toks [] = true

theorem fits_SET (d : Nat) (hd : d < 16) (v : Int) (hv : -32768 ≤ v ∧ v < 65536) :
    ∀ l, Gen.convert .SET [.reg d, .int v] = .ok l → ∀ o ∈ l, Fits o := by
  intro l hl o ho
  rw [C03_convert_SET (.reg d) v hv] at hl
  injection hl with hl
  subst hl
  simp only [List.mem_cons, List.mem_nil_iff, or_false] at ho
  rcases ho with rfl | rfl <;> (simp only [Fits, Sig.params, Sig.argsOK, Sig.argOK, Sig.inRange]; split <;> simp <;> omega)

theorem fits_BRlabel (c : Cls) (hc : c.isRegisterBranch = true) (l : Int) (hl : 0 ≤ l ∧ l < 65536) :
    ∀ ops, Gen.convert c [.int l] = .ok ops → ∀ o ∈ ops, Fits o := by
  intro ops hops o ho
  rw [C03_convert_BRlabel c hc l] at hops
  injection hops with hops
  subst hops
  simp only [List.mem_cons, List.mem_nil_iff, or_false] at ho
  rcases ho with rfl | rfl | rfl
  · simp only [Fits, Sig.params, Sig.argsOK, Sig.argOK, Sig.inRange]; simp; omega
  · simp only [Fits, Sig.params, Sig.argsOK, Sig.argOK, Sig.inRange]; simp; omega
  · cases c <;> first | (exact absurd hc (by decide)) | (unfold Fits; decide)

end Hera
namespace Hera
open Chk Sig Enc

/-- operations that `convert` leaves alone fit whenever they conform -/
theorem fits_abstract (c : Cls) (toks : List Tok) (h : c.convertDef = "AbstractOperation")
    (hc : Sig.argsOK (Sig.params c) toks [] = true) :
    ∀ l, Gen.convert c toks = .ok l → ∀ o ∈ l, Fits o := by
  intro l hl o ho
  rw [convert_abstract c toks h] at hl
  injection hl with hl
  subst hl
  simp only [List.mem_cons, List.mem_nil_iff, or_false] at ho
  subst ho
  exact hc

end Hera
