import HeraModel
/-
  herad — the model driver. One request per line on stdin, one canonical answer per line on
  stdout.  See tools/harness/proto.py for the other side.
-/
open Hera Hera.Proto

def wSpecState (σ : Spec.State) (addrs : List Nat) : String :=
  let regs := (List.range 16).map (fun i => toString (σ.get i).toNat)
  let f := σ.fl
  let mem := addrs.map (fun a => toString (σ.mem (BitVec.ofNat 16 a)).toNat)
  String.intercalate " " (regs ++ [wBool f.s, wBool f.z, wBool f.v, wBool f.c, wBool f.cb, wInt σ.pc,
    wBool σ.halted] ++ mem)

def wTok : Tok → String
  | .int v => s!"I {v}"
  | .reg v => s!"R {v}"
  | .sym s => s!"Y {wStr s}"
  | .str s => s!"S {wStr s}"

def wDOp (d : Enc.DOp) : String := s!"{d.cls.pyName} {wList wTok d.toks}"

/-- run the word machine, remembering whether a point the architecture leaves open was executed -/
def wordRunOpen (code : List Nat) : Nat → Spec.State → Bool → Spec.State × Bool
  | 0, σ, o => (σ, o)
  | n + 1, σ, o =>
    match Spec.wordStep code σ with
    | none => (σ, o)
    | some σ' =>
      let isOpen := match code[σ.pc.toNat]? with
        | some w => (match Spec.decode w with
          | some (.instr i) => i.aliased || i.mulHighIn σ
          | _ => false)
        | none => false
      wordRunOpen code n σ' (o || isOpen)


def rTk : R Mini.Tk := do
  let t ← tok
  match t with
  | "I" => do let s ← str; pure (.int s)
  | "R" => do let s ← str; pure (.reg s)
  | "Y" => do let s ← str; pure (.sym s)
  | "F" => do let s ← str; pure (.fmt s)
  | "P" => pure .plus
  | "M" => pure .minus
  | "T" => pure .star
  | "D" => pure .slash
  | "A" => pure .at
  | "L" => pure .lparen
  | "Q" => pure .rparen
  | "C" => pure .comma
  | "E" => pure .eof
  | "O" => pure (.other [])
  | _ => fail s!"bad token tag {t}"

def wNode : Mini.Node → String
  | .int v => s!"i {v}"
  | .reg v => s!"r {v}"
  | .sym s => s!"y {wStr s}"
  | .mem a => s!"m {wNode a}"
  | .prefix _ a => s!"p {wNode a}"
  | .infix op l r => s!"x {wStr op} {wNode l} {wNode r}"

def wEvalErr : Expr.EvalErr → String
  | .literalRange => "literal" | .undefined => "undefined" | .overflow => "overflow" | .divZero => "divzero"


partial def rE : R Expr.E := do
  let t ← tok
  match t with
  | "l" => do let v ← int; pure (.lit v)
  | "r" => do let v ← nat; pure (.reg v)
  | "y" => do let s ← str; pure (.sym s)
  | "n" => do let e ← rE; pure (.neg e)
  | "d" => do let e ← rE; pure (.deref e)
  | "b" => do
    let o ← nat
    let l ← rE
    let r ← rE
    pure (.bin (match o with | 0 => .add | 1 => .sub | 2 => .mul | _ => .div) l r)
  | _ => fail s!"bad expression tag {t}"

def rEnv : R Expr.Env := do
  let regs ← rep 16 int
  let pcv ← int
  let image ← list (pair nat int)
  let syms ← list (pair str int)
  pure {
    reg := fun i => regs.getD i 0,
    mem := fun a => match image.find? (fun p => p.1 == a) with | some p => p.2 | none => 0,
    sym := fun s => match syms.find? (fun p => p.1 == s) with | some p => some p.2 | none => none,
    pc := pcv }


def rCmd : R (Option Dbg.Cmd) := do
  let t ← tok
  match t with
  | "n" => do let v ← int; pure (some (.next v))
  | "s" => pure (some .step)
  | "c" => pure (some .cont)
  | "b" => do let v ← int; pure (some (.brk v))
  | "x" => do let v ← list int; pure (some (.clear v))
  | "X" => pure (some .clearAll)
  | "r" => pure (some .restart)
  | "g" => do let v ← int; pure (some (.goto v))
  | "ar" => do
    let i ← nat
    let v ← int
    pure (some (.assignReg i v))
  | "am" => do
    let a ← int
    let v ← int
    pure (some (.assignMem a v))
  | "ap" => do let v ← int; pure (some (.assignPc v))
  | "f" => do
    let w ← nat
    let v ← bool
    pure (some (.flag w v))
  | "u" => pure none                     -- undo
  | _ => fail s!"bad command tag {t}"

def wDbg (dp : Dbg.DProg) (s : Dbg.State) : String :=
  let vm := { s.vm with out := [], settings := { s.vm.settings with warning_count := 0 } }
  let sh := match Dbg.shown dp s with | some l => l | none => -1
  s!"{s.calls} {wList wInt s.breaks} {sh} {wVM vm}"

def dbgLoop (dp : Dbg.DProg) (fuel : Nat) : List (Option Dbg.Cmd) → Dbg.Session → List String → List String
  | [], _, acc => acc.reverse
  | none :: rest, σ, acc =>
    let σ' := σ.undo
    dbgLoop dp fuel rest σ' (s!"ok {σ'.old.length} {wDbg dp σ'.cur}" :: acc)
  | some c :: rest, σ, acc =>
    match σ.run dp fuel c with
    | .ok (some σ') => dbgLoop dp fuel rest σ' (s!"ok {σ'.old.length} {wDbg dp σ'.cur}" :: acc)
    | .ok none => ("fuel" :: acc).reverse
    | .error e => (s!"err {e.name}" :: acc).reverse

def handle : R String := do
  let cmd ← tok
  match cmd with
  | "exec" => do
    let c ← cls
    let args ← list val
    let v ← vm
    match Gen.exec c args v with
    | .ok (_, v') => pure s!"ok {wVM v'}"
    | .error e => pure s!"err {e.name}"
  | "spec" => do
    let c ← cls
    let args ← list int
    let v ← vm
    let addrs ← list nat
    match Spec.Instr.ofOp c args with
    | none => pure "noinstr"
    | some i =>
      if !decide i.Valid then pure "invalid"
      else
        let σ := abs v
        let open_ := if i.aliased then 2 else if i.mulHighIn σ then 1 else 0
        pure s!"ok {open_} {wSpecState (Spec.exec i σ) addrs}"
  | "run" => do
    -- run <fuel> <program> <vm>: VirtualMachine.run with at most fuel iterations
    let fuel ← nat
    let p ← program
    let v ← vm
    match Run.run p fuel v with
    | .ok v' => pure s!"ok {wBool (Run.finished p v')} {wBool (wfb v')} {wVM v'}"
    | .error e => pure s!"err {e.name}"
  | "parseinit" => do
    let s ← str
    match Cli.parseInit s with
    | some l => pure s!"ok {wList wPair l}"
    | none => pure "none"
  | "sigenv" => do
    -- Spec placement: the symbol environment at the end of the program
    let st ← csettings
    let ops ← list sop
    let tab := Sig.envAt ops st ops.length
    pure (String.intercalate " " (toString tab.length :: tab.map (fun kv => s!"{wVal kv.1} {wSymVal kv.2}")))
  | "sigprog" => do
    let st ← csettings
    let ops ← list sop
    pure (wBool (Sig.programConforms ops st))
  | "tcop" => do
    -- typecheck one operation against a symbol table
    let asmOnly ← bool
    let op ← sop
    let tab ← symTab
    pure (wMsgs (Chk.typecheckOp op tab asmOnly))
  | "oplen" => do
    let op ← sop
    pure (toString (Chk.operationLength op))
  | "check" => do
    let st ← csettings
    let ops ← list sop
    match Chk.check ops st with
    | .error e => pure s!"err {e.name}"
    | .ok (p, m) =>
      if !m.errors.isEmpty then pure s!"rejected {wMsgs m}"
      else
        let tab := String.intercalate " " (toString p.tab.length :: p.tab.map (fun kv => s!"{wVal kv.1} {wSymVal kv.2}"))
        pure s!"ok {wMsgs m} {tab} {wList wROp p.data} {wList wROp p.code}"
  | "asm" => do
    let c ← cls
    let args ← list val
    match Gen.assemble c args with
    | .ok (some b) => pure s!"ok {wList wInt b}"
    | .ok none => pure "none"
    | .error e => pure s!"err {e.name}"
  | "specenc" => do
    let c ← cls
    let args ← list int
    match Spec.EInstr.ofOp c args with
    | none => pure "noinstr"
    | some e => if decide e.Valid then pure s!"ok {Spec.encode e}" else pure "invalid"
  | "dis" => do
    let allow ← bool
    let v ← int
    match Enc.disassemble v allow with
    | .ok d => pure s!"ok {wDOp d}"
    | .error e => pure s!"err {e.name}"
  | "match" => do
    let c ← cls
    let v ← nat
    match Enc.matchBitvector c.BITV v with
    | some m => pure s!"ok {wList wTok m}"
    | none => pure "no"
  | "subst" => do
    let c ← cls
    let args ← list int
    match Enc.substituteBitvector c.BITV args with
    | .ok b => pure s!"ok {wList wInt b}"
    | .error e => pure s!"err {e.name}"
  | "pyint" => do
    let base ← nat
    let s ← str
    match Py.parseInt s base with
    | some v => pure s!"ok {v}"
    | none => pure "err"
  | "specdec" => do
    let w ← nat
    match Spec.decode w with
    | none => pure "none"
    | some e =>
      let (c, args) := e.toOp
      let ints := args.map (fun v => match v with | .int i => i | _ => 0)
      pure s!"ok {c.pyName} {wList wInt ints}"
  | "wordvm" => do
    -- wordvm <fuel> <code words> <memory image: list of (addr, value)> <query addresses>
    let fuel ← nat
    let code ← list nat
    let image ← list (pair nat nat)
    let addrs ← list nat
    let mem : BitVec 16 → BitVec 16 := fun a =>
      match image.find? (fun p => p.1 == a.toNat) with
      | some p => BitVec.ofNat 16 p.2
      | none => 0
    let σ0 : Spec.State := { regs := fun _ => 0, mem := mem, fl := ⟨false, false, false, false, false⟩, pc := 0, halted := false }
    let (σ, opn) := wordRunOpen code fuel σ0 false
    let stopped := (Spec.wordStep code σ).isNone
    pure s!"ok {wBool stopped} {wBool opn} {wSpecState σ addrs}"
  | "ifdef" => do
    let s ← str
    pure (wStr (Ifdef.evaluate s))
  | "pseudo" => do
    let kind ← tok
    let args ← list int
    let v ← vm
    let n (x : Int) : Nat := x.toNat
    let conds : List Spec.Cond := [.always, .l, .ge, .le, .g, .ule, .ug, .z, .nz, .c, .nc, .s, .ns, .v, .nv]
    let p : Option Spec.Pseudo := match kind, args with
      | "SET", [d, x] => some (.set (n d) x)
      | "SETRF", [d, x] => some (.setrf (n d) x)
      | "MOVE", [a, b] => some (.move (n a) (n b))
      | "CMP", [a, b] => some (.cmp (n a) (n b))
      | "NEG", [a, b] => some (.neg (n a) (n b))
      | "NOT", [a, b] => some (.not (n a) (n b))
      | "FLAGS", [a] => some (.flags (n a))
      | "CON", [] => some .con
      | "COFF", [] => some .coff
      | "CBON", [] => some .cbon
      | "CCBOFF", [] => some .ccboff
      | "HALT", [] => some .halt
      | "NOP", [] => some .nop
      | "CALL", [a, l] => some (.callLabel (n a) l)
      | k, [l] => (conds.find? (fun c => (condCls c).1.pyName == k)).map (fun c => .brLabel c l)
      | _, _ => none
    match p with
    | none => pure "nopseudo"
    | some p => if decide p.Valid then pure s!"ok {wSpecState (Spec.pseudo p (abs v)) []}" else pure "invalid"
  | "miniparse" => do
    let toks ← list rTk
    match Mini.parse toks with
    | .ok (f, seq) => pure s!"ok {wStr f} {wList wNode seq}"
    | .error (.syntax _) => pure "err syntax"
    | .error .fuel => pure "err fuel"
  | "minieval" => do
    -- minieval <16 registers> <pc> <memory (addr, value) pairs> <symbols (name, value)> <tokens>
    let env ← rEnv
    let toks ← list rTk
    match Mini.parse toks with
    | .ok (_, seq) =>
      let outs := seq.map (fun n => match Mini.evaluateNode env n with
        | .ok v => s!"v {v}"
        | .error e => s!"e {wEvalErr e}")
      pure s!"ok {wList id outs}"
    | .error (.syntax _) => pure "err syntax"
    | .error .fuel => pure "err fuel"
  | "specexpr" => do
    let env ← rEnv
    let es ← list rE
    let outs := es.map (fun e => match Expr.eval env e with
      | .ok v => s!"v {v}"
      | .error e => s!"e {wEvalErr e}")
    pure s!"ok {wList id outs}"
  | "dbg" => do
    -- dbg <fuel> <program> <group ids> <is-call flags> <lines> <vm> <commands>: a debugger session
    let fuel ← nat
    let p ← program
    let group ← list nat
    let isCall ← list bool
    let line ← list int
    let v ← vm
    let cmds ← list rCmd
    let dp : Dbg.DProg := { p, group, isCall, line }
    match Dbg.initial dp v with
    | .error e => pure s!"err {e.name}"
    | .ok s0 =>
      let outs := dbgLoop dp fuel cmds { cur := s0 } [s!"ok 0 {wDbg dp s0}"]
      pure (String.intercalate " | " outs)
  | "strwrite" => do
    let s ← str
    pure (wStr (StrLit.write s))
  | "strread" => do
    let s ← str
    match StrLit.read s with
    | some r => pure s!"ok {wStr r.value} {r.warnings}"
    | none => pure "err"
  | "cliargs" => do
    let argv ← list str
    match CliArgs.parseArgs argv with
    | .usage m => pure s!"exit 1 {wStr m}"
    | .info t => pure s!"exit 0 {wStr t}"
    | .ok st =>
      let thr := match st.throttle with | some n => n | none => -1
      pure s!"ok {wStr st.path} {wStr st.mode} {wBool st.code} {wBool st.data} {st.data_start} {wBool st.no_debug_ops} {wBool st.obfuscate} {wBool st.stdout} {thr} {wBool st.warn_octal_on} {wBool st.warn_return_on} {st.volume} {wList wPair st.init} {wBool st.color}"
  | "ifdefp" => do
    let s ← str
    pure s!"{wBool (Ifdef.partitions s)} {wStr (Ifdef.evaluateP s)}"
  | "linecol" => do
    -- linecol <text> <offset>: position after the first <offset> characters, the quoted line, the caret prefix
    let s ← str
    let off ← nat
    let p := Loc.posAfter (s.take off)
    let line := (Loc.fileLines s).getD (p.1 - 1) []
    pure s!"{p.1} {p.2} {wStr line} {wStr (Loc.alignCaret line p.2)}"
  | "tigerdiv" => do
    let l ← int
    let r ← int
    let w (x : Except PyErr Int) : String := match x with | .ok v => s!"{v}" | .error e => s!"err:{e.name}"
    pure s!"{w (Tiger.divU l r)} {w (Tiger.modU l r)}"
  | "lex" => do
    let s ← str
    let toks := Lex.lexAll s
    let w (t : Lex.Token) : String :=
      let p := Loc.posAfter (s.take t.off)
      s!"{t.kind.name} {wStr t.value} {p.1} {p.2}"
    pure (wList w toks)
  | "parse" => do
    -- parse <text> <warn_octal>: conditional compilation (lines preserved), lexer model, parser model
    let s0 ← str
    let wo ← nat
    let s := Ifdef.evaluateP s0
    let (items, m) := Parse.parseText (wo != 0) s
    let pos (off : Nat) : String := let p := Loc.posAfter (s.take off); s!"{p.1} {p.2}"
    let wItem : Parse.Item → String
      | .op o =>
        -- the operation as the class it is an instance of (`TIGER_STRING` is `LP_STRING`, `print_reg` is `PRINT_REG`)
        let cname := match nameToClass.find? (fun p => Str.ofString p.1 == o.name) with
          | some p => p.2.pyName
          | none => "?"
        s!"O {wString cname} {wList wTokP o.args} {pos o.off}"
      | .incStr path off => s!"IS {wStr path} {pos off}"
      | .incAngle name off => s!"IA {wStr name} {pos off}"
    let wMsg (p : String × Nat) : String := s!"{wString p.1} {pos p.2}"
    pure s!"{wBool m.stuck} {wList wItem items} {wList wMsg m.errors} {wList wMsg m.warnings}"
  | "wf" => do
    let v ← vm
    pure (wBool (wfb v))
  | "echo" => do
    let v ← vm
    pure (wVM v)
  | _ => fail s!"unknown command {cmd}"

partial def loop (h : IO.FS.Stream) (out : IO.FS.Stream) : IO Unit := do
  let line ← h.getLine
  if line.isEmpty then return ()
  let ts := (line.splitOn " ").map (fun s => s.trimAscii.toString) |>.filter (· ≠ "")
  match ts with
  | [] => out.putStrLn ""
  | id :: rest =>
    match handle rest with
    | .ok (s, _) => out.putStrLn s!"{id} {s}"
    | .error e => out.putStrLn s!"{id} protoerr {e}"
  loop h out

def main : IO Unit := do
  let stdin ← IO.getStdin
  let stdout ← IO.getStdout
  loop stdin stdout
  stdout.flush
