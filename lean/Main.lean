import HeraModel
def main : IO Unit := IO.println "herad"
