/-
  Spec.ISA — the HERA 2.4 instruction set as a BitVec-16 machine, written by hand from the
  architecture definition and hera-py's `doc` strings (DESIGN.md Appendix A), deliberately in
  *different terms* from the Python formulas: results and carries through `BitVec.adc`,
  overflow by the hardware rule (operand signs equal, result sign differs), shifts by
  `<<<`/`>>>`/`sshiftRight`, sign extension by `signExtend`.

  This file is the formal reading of property C01 (and the machine that C03, C06 and C19
  reason about). It imports nothing from the model of the code.
-/
namespace Hera
namespace Spec

abbrev Word := BitVec 16

structure Flags where
  s : Bool
  z : Bool
  v : Bool
  c : Bool
  cb : Bool
deriving DecidableEq, Repr, Inhabited

structure State where
  /-- register file; only indices 0..15 are meaningful, index 0 always reads 0 -/
  regs : Nat → Word
  mem : Word → Word
  fl : Flags
  /-- instruction index; a run ends when it leaves the program -/
  pc : Int
  halted : Bool

inductive Cond where
  | always | l | ge | le | g | ule | ug | z | nz | c | nc | s | ns | v | nv
deriving DecidableEq, Repr, Inhabited

inductive Alu3 where | and | or | add | sub | mul | xor
deriving DecidableEq, Repr, Inhabited

inductive Sh where | lsl | lsr | lsl8 | lsr8 | asl | asr
deriving DecidableEq, Repr, Inhabited

/-- The real (machine) instructions that hera-py executes. Register operands are numbers
    0..15, immediates are the integers written in the source. -/
inductive Instr where
  | setlo (d : Nat) (v : Int)
  | sethi (d : Nat) (v : Int)
  | alu3 (op : Alu3) (d a b : Nat)
  | inc (d : Nat) (k : Int)
  | dec (d : Nat) (k : Int)
  | shift (op : Sh) (d b : Nat)
  | savef (d : Nat)
  | rstrf (d : Nat)
  | fon (v : Int)
  | foff (v : Int)
  | fset5 (v : Int)
  | fset4 (v : Int)
  | load (d : Nat) (o : Int) (b : Nat)
  | store (d : Nat) (o : Int) (b : Nat)
  | br (c : Cond) (b : Nat)
  | brr (c : Cond) (o : Int)
  | call (a b : Nat)
  | ret (a b : Nat)
deriving DecidableEq, Repr, Inhabited

/-- Operand ranges of the architecture (= what the assembler accepts). -/
def Instr.Valid : Instr → Prop
  | .setlo d v | .sethi d v => d < 16 ∧ -128 ≤ v ∧ v < 256
  | .alu3 _ d a b => d < 16 ∧ a < 16 ∧ b < 16
  | .inc d k | .dec d k => d < 16 ∧ 1 ≤ k ∧ k ≤ 64
  | .shift _ d b => d < 16 ∧ b < 16
  | .savef d | .rstrf d => d < 16
  | .fon v | .foff v | .fset5 v => 0 ≤ v ∧ v < 32
  | .fset4 v => 0 ≤ v ∧ v < 16
  | .load d o b | .store d o b => d < 16 ∧ 0 ≤ o ∧ o < 32 ∧ b < 16
  | .br _ b => b < 16
  | .brr _ o => -128 ≤ o ∧ o < 256
  | .call a b | .ret a b => a < 16 ∧ b < 16

instance Instr.decValid (i : Instr) : Decidable i.Valid := by
  cases i <;> simp only [Instr.Valid] <;> exact inferInstance

def Cond.holds (f : Flags) : Cond → Bool
  | .always => true
  | .l => f.s != f.v
  | .ge => f.s == f.v
  | .le => (f.s != f.v) || f.z
  | .g => (f.s == f.v) && !f.z
  | .ule => !f.c || f.z
  | .ug => f.c && !f.z
  | .z => f.z
  | .nz => !f.z
  | .c => f.c
  | .nc => !f.c
  | .s => f.s
  | .ns => !f.s
  | .v => f.v
  | .nv => !f.v

/-- Reading a register: R0 is hard-wired to zero. -/
def State.get (σ : State) (r : Nat) : Word := if r = 0 then 0 else σ.regs r

/-- Writing a register: writes to R0 are discarded. -/
def State.setReg (σ : State) (d : Nat) (w : Word) : State :=
  if d = 0 then σ else { σ with regs := fun i => if i = d then w else σ.regs i }

def State.next (σ : State) : State := { σ with pc := σ.pc + 1 }

/-- sign and zero flags follow the result -/
def Flags.setSZ (f : Flags) (w : Word) : Flags := { f with s := w.msb, z := w == 0 }

/-- effective carry-in: the carry flag unless carry-block is on -/
def Flags.cin (f : Flags) : Bool := f.c && !f.cb

/-- `a + b + ci`: result, carry out, signed overflow (hardware rule). -/
def addc (a b : Word) (ci : Bool) : Word × Bool × Bool :=
  let r := BitVec.adc a b ci
  (r.2, r.1, (a.msb == b.msb) && (r.2.msb != a.msb))

/-- `a - b - borrow` computed as `a + ~b + ci`; carry = "no borrow". -/
def subc (a b : Word) (ci : Bool) : Word × Bool × Bool := addc a (~~~b) ci

def flagsOfInt (v : Int) : Flags :=
  { s := v % 2 == 1, z := v / 2 % 2 == 1, v := v / 4 % 2 == 1, c := v / 8 % 2 == 1,
    cb := v / 16 % 2 == 1 }

def flagsOfWord (w : Word) : Flags :=
  { s := w.getLsbD 0, z := w.getLsbD 1, v := w.getLsbD 2, c := w.getLsbD 3, cb := w.getLsbD 4 }

def Flags.toWord (f : Flags) : Word :=
  BitVec.ofNat 16 (f.s.toNat + 2 * f.z.toNat + 4 * f.v.toNat + 8 * f.c.toNat + 16 * f.cb.toNat)

/-- Is MUL in high-word mode (sign flag on, carry-block off)? -/
def mulHigh (f : Flags) : Bool := f.s && !f.cb

def alu3 (op : Alu3) (a b : Word) (f : Flags) : Word × Flags :=
  match op with
  | .and => let r := a &&& b; (r, f.setSZ r)
  | .or => let r := a ||| b; (r, f.setSZ r)
  | .xor => let r := a ^^^ b; (r, f.setSZ r)
  | .add =>
    let (r, c, v) := addc a b f.cin
    (r, { (f.setSZ r) with c := c, v := v })
  | .sub =>
    -- borrow unless (carry or carry-block)
    let (r, c, v) := subc a b (f.c || f.cb)
    (r, { (f.setSZ r) with c := c, v := v })
  | .mul =>
    if mulHigh f then
      -- bits 31..16 of the signed 32-bit product; carry and overflow are left open by the
      -- architecture (see `allowed`)
      let p : BitVec 32 := a.signExtend 32 * b.signExtend 32
      let r : Word := (p >>> 16).truncate 16
      (r, f.setSZ r)
    else
      let r := a * b
      (r, { (f.setSZ r) with
              c := decide (65536 ≤ a.toNat * b.toNat),
              v := decide (a.toInt * b.toInt < -32768 ∨ 32768 ≤ a.toInt * b.toInt) })

def shift (op : Sh) (b : Word) (f : Flags) : Word × Flags :=
  match op with
  | .lsl =>
    let r := (b <<< 1) ||| (if f.cin then 1 else 0)
    (r, { (f.setSZ r) with c := b.msb })
  | .lsr =>
    let r := (b >>> 1) ||| (if f.cin then 0x8000 else 0)
    (r, { (f.setSZ r) with c := b.getLsbD 0 })
  | .lsl8 => let r := b <<< 8; (r, f.setSZ r)
  | .lsr8 => let r := b >>> 8; (r, f.setSZ r)
  | .asl =>
    let r := (b <<< 1) ||| (if f.cin then 1 else 0)
    -- overflow as for ADD(Rd, Rb, Rb) with the same carry-in
    (r, { (f.setSZ r) with c := b.msb, v := (addc b b f.cin).2.2 })
  | .asr =>
    let r := b.sshiftRight 1
    (r, { (f.setSZ r) with c := b.getLsbD 0 })

/-- the signed byte encoded for an operand in -128..255 -/
def sbyte (v : Int) : Int := (BitVec.ofInt 8 v).toInt

/-- The architected effect of one instruction. -/
def exec (i : Instr) (σ : State) : State :=
  match i with
  | .setlo d v => (σ.setReg d ((BitVec.ofInt 8 v).signExtend 16)).next
  | .sethi d v => (σ.setReg d (BitVec.ofInt 8 v ++ (σ.get d).truncate 8 : BitVec 16)).next
  | .alu3 op d a b =>
    let (r, f) := alu3 op (σ.get a) (σ.get b) σ.fl
    ({ σ with fl := f }.setReg d r).next
  | .inc d k =>
    let (r, c, v) := addc (σ.get d) (BitVec.ofInt 16 k) false
    ({ σ with fl := { (σ.fl.setSZ r) with c := c, v := v } }.setReg d r).next
  | .dec d k =>
    let (r, c, v) := subc (σ.get d) (BitVec.ofInt 16 k) true
    ({ σ with fl := { (σ.fl.setSZ r) with c := c, v := v } }.setReg d r).next
  | .shift op d b =>
    let (r, f) := shift op (σ.get b) σ.fl
    ({ σ with fl := f }.setReg d r).next
  | .savef d => (σ.setReg d σ.fl.toWord).next
  | .rstrf d => { σ with fl := flagsOfWord (σ.get d) }.next
  | .fon v =>
    let m := flagsOfInt v
    { σ with fl := { s := σ.fl.s || m.s, z := σ.fl.z || m.z, v := σ.fl.v || m.v,
                     c := σ.fl.c || m.c, cb := σ.fl.cb || m.cb } }.next
  | .foff v =>
    let m := flagsOfInt v
    { σ with fl := { s := σ.fl.s && !m.s, z := σ.fl.z && !m.z, v := σ.fl.v && !m.v,
                     c := σ.fl.c && !m.c, cb := σ.fl.cb && !m.cb } }.next
  | .fset5 v => { σ with fl := flagsOfInt v }.next
  | .fset4 v => { σ with fl := { (flagsOfInt v) with cb := σ.fl.cb } }.next
  | .load d o b =>
    let w := σ.mem (σ.get b + BitVec.ofInt 16 o)
    ({ σ with fl := σ.fl.setSZ w }.setReg d w).next
  | .store d o b =>
    let addr := σ.get b + BitVec.ofInt 16 o
    let w := σ.get d
    { σ with mem := fun a => if a = addr then w else σ.mem a }.next
  | .br c b => if c.holds σ.fl then { σ with pc := (σ.get b).toNat } else σ.next
  | .brr c o =>
    if c = .always ∧ o = 0 then { σ with halted := true }
    else if c.holds σ.fl then { σ with pc := σ.pc + sbyte o } else σ.next
  | .call a b | .ret a b =>
    -- pc ← R_b, R_b ← pc + 1, FP ↔ R_a   (operands not aliased: b ∉ {a, 14})
    let ra := σ.get a
    let fp := σ.get 14
    let tgt := σ.get b
    ((({ σ with pc := tgt.toNat }.setReg b (BitVec.ofInt 16 (σ.pc + 1))).setReg 14 ra).setReg a fp)

/-- CALL/RETURN whose operand registers alias are left open by the definition. -/
def Instr.aliased : Instr → Bool
  | .call a b | .ret a b => b == a || b == 14
  | _ => false

/-- Is this MUL executed in high-word mode in state σ? -/
def Instr.mulHighIn (i : Instr) (σ : State) : Bool :=
  match i with
  | .alu3 .mul _ _ _ => mulHigh σ.fl
  | _ => false

/-- Observational equality of machine states on the architected components. -/
def State.Eqv (σ τ : State) : Prop :=
  (∀ r, r < 16 → σ.get r = τ.get r) ∧ (∀ a, σ.mem a = τ.mem a) ∧ σ.fl = τ.fl ∧ σ.pc = τ.pc ∧
  σ.halted = τ.halted

/-- What the definition allows as the outcome of `i` from `σ`: exactly `exec`, except at the
    points it leaves open. -/
def allowed (i : Instr) (σ σ' : State) : Prop :=
  if i.aliased then True
  else if i.mulHighIn σ then
    let τ := exec i σ
    State.Eqv { σ' with fl := { σ'.fl with c := τ.fl.c, v := τ.fl.v } } τ
  else State.Eqv σ' (exec i σ)

end Spec
end Hera
