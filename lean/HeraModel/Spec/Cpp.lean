import HeraModel.Model.Ifdef
/-
  Spec.Cpp — what a C preprocessor with only HERA_PY defined keeps of a well-nested conditional structure.
-/
namespace Hera
namespace Cpp

/-- a well-nested conditional structure around arbitrary text -/
inductive CTree where
  | text (s : Str)
  | cond (negated : Bool) (sym : Str) (thn : List CTree) (els : Option (List CTree))
deriving Repr, Inhabited

def defined (sym : Str) : Bool := sym == Str.ofString "HERA_PY"

mutual
/-- the text a C preprocessor keeps: a dead block kills everything inside it, nested directives included -/
def keep : CTree → Str
  | .text s => s
  | .cond neg sym thn els =>
    if defined sym != neg then keepList thn
    else match els with
      | some e => keepList e
      | none => []
def keepList : List CTree → Str
  | [] => []
  | t :: ts => keep t ++ keepList ts
end

mutual
/-- the pieces (chunks and directives) of the structure, in order -/
def flatten : CTree → List Ifdef.Piece
  | .text s => [.text s]
  | .cond neg sym thn els =>
    [if neg then Ifdef.Piece.ifndef sym else .ifdef sym] ++ flattenList thn ++
    (match els with
     | some e => [Ifdef.Piece.else_] ++ flattenList e
     | none => []) ++ [Ifdef.Piece.endif]
def flattenList : List CTree → List Ifdef.Piece
  | [] => []
  | t :: ts => flatten t ++ flattenList ts
end

end Cpp
end Hera
