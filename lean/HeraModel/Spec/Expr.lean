import HeraModel.Model.Cli
/-
  Spec.Expr — expressions of the debugger's mini-language and their meaning: ordinary integer arithmetic with floor
  division over literals, registers, symbols, the program counter and @-dereference; an error instead of a value whenever
  a literal or an intermediate result leaves -32768..65535 or a division by zero occurs.
-/
namespace Hera
namespace Expr

inductive BinOp where | add | sub | mul | div
deriving DecidableEq, Repr, Inhabited

inductive E where
  | lit (v : Int)
  | reg (i : Nat)
  | sym (name : List Nat)      -- `pc` in any letter case is the program counter
  | neg (e : E)
  | deref (e : E)
  | bin (op : BinOp) (l r : E)
deriving DecidableEq, Repr, Inhabited

inductive EvalErr where
  | literalRange | undefined | overflow | divZero
deriving DecidableEq, Repr, Inhabited

/-- what an expression can observe of the debugger -/
structure Env where
  reg : Nat → Int
  mem : Nat → Int           -- cell at a 16-bit address
  sym : List Nat → Option Int
  pc : Int

def inRange (v : Int) : Bool := decide (-32768 ≤ v) && decide (v < 65536)

def applyBin (op : BinOp) (a b : Int) : Except EvalErr Int :=
  match op with
  | .add => .ok (a + b)
  | .sub => .ok (a - b)
  | .mul => .ok (a * b)
  | .div => if b = 0 then .error .divZero else .ok (Int.fdiv a b)

/-- the meaning of an expression -/
def eval (env : Env) : E → Except EvalErr Int
  | .lit v => if inRange v then .ok v else .error .literalRange
  | .reg i => .ok (env.reg i)
  | .sym s =>
    if Cli.lower s == Str.ofString "pc" then .ok env.pc
    else match env.sym s with | some v => .ok v | none => .error .undefined
  | .neg e => do
    let a ← eval env e
    if inRange (-a) then pure (-a) else throw .overflow
  | .deref e => do
    let a ← eval env e
    -- addresses are 16-bit: a value in -32768..-1 names the same cell as its two's complement
    if inRange a then pure (env.mem (a % 65536).toNat) else throw .overflow
  | .bin op l r => do
    let a ← eval env l
    let b ← eval env r
    let v ← applyBin op a b
    if inRange v then pure v else throw .overflow

end Expr
end Hera
