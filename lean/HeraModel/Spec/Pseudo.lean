import HeraModel.Spec.ISA
/-
  Spec.Pseudo — the documented effect of every pseudo-operation as a whole (HERA 2.4 manual and
  hera-py's `doc` strings), stated directly on the architecture state, without reference to
  how hera-py expands them.
-/
namespace Hera
namespace Spec

inductive Pseudo where
  | set (d : Nat) (v : Int)            -- v : -32768..65535
  | setrf (d : Nat) (v : Int)
  | move (a b : Nat)
  | cmp (a b : Nat)
  | neg (d a : Nat)
  | not (d a : Nat)
  | flags (a : Nat)
  | con | coff | cbon | ccboff
  | halt | nop
  | brLabel (c : Cond) (l : Int)        -- register branch written with a label whose value is l (0..65535)
  | callLabel (a : Nat) (l : Int)       -- CALL(Ra, label)
deriving DecidableEq, Repr, Inhabited

def Pseudo.Valid : Pseudo → Prop
  | .set d v | .setrf d v => d < 16 ∧ -32768 ≤ v ∧ v < 65536
  | .move a b | .cmp a b | .neg a b | .not a b => a < 16 ∧ b < 16
  | .flags a => a < 16
  | .brLabel _ l => 0 ≤ l ∧ l < 65536
  | .callLabel a l => a < 16 ∧ 0 ≤ l ∧ l < 65536
  | _ => True

instance Pseudo.decValid (p : Pseudo) : Decidable p.Valid := by
  cases p <;> simp only [Pseudo.Valid] <;> exact inferInstance

def State.addPc (σ : State) (n : Int) : State := { σ with pc := σ.pc + n }

/-- The documented effect. Scratch registers: Rt (R11) for NOT and label branches, PC_ret (R13) for CALL to a label. -/
def pseudo (p : Pseudo) (σ : State) : State :=
  match p with
  | .set d v => (σ.setReg d (BitVec.ofInt 16 v)).addPc 2
  | .setrf d v =>
    -- Rd := v, then the flags of Rd + 0 (what Rd reads as afterwards: R0 stays 0); carry-block unchanged
    let σ1 := σ.setReg d (BitVec.ofInt 16 v)
    let w := σ1.get d
    ({ σ1 with fl := { s := w.msb, z := w == 0, v := false, c := false, cb := σ.fl.cb } }).addPc 4
  | .move a b =>
    let w := σ.get b
    ({ σ with fl := σ.fl.setSZ w }.setReg a w).addPc 1
  | .cmp a b =>
    -- flags of Ra - Rb with no borrow; no register written
    let (r, c, v) := subc (σ.get a) (σ.get b) true
    ({ σ with fl := { (σ.fl.setSZ r) with c := c, v := v } }).addPc 2
  | .neg d a =>
    let (r, c, v) := subc 0 (σ.get a) true
    ({ σ with fl := { (σ.fl.setSZ r) with c := c, v := v } }.setReg d r).addPc 2
  | .not d a =>
    -- Rd := ~Ra (a ≠ Rt); Rt is clobbered with 0xFFFF (unless it is the destination); sign and zero follow the result
    let w := ~~~(σ.get a)
    (({ σ with fl := σ.fl.setSZ w }.setReg 11 0xFFFF).setReg d w).addPc 3
  | .flags a =>
    let w := σ.get a
    ({ σ with fl := { s := w.msb, z := w == 0, v := false, c := false, cb := σ.fl.cb } }).addPc 2
  | .con => ({ σ with fl := { σ.fl with c := true } }).addPc 1
  | .coff => ({ σ with fl := { σ.fl with c := false } }).addPc 1
  | .cbon => ({ σ with fl := { σ.fl with cb := true } }).addPc 1
  | .ccboff => ({ σ with fl := { σ.fl with c := false, cb := false } }).addPc 1
  | .halt => { σ with halted := true }
  | .nop => σ.addPc 1
  | .brLabel c l =>
    let σ1 := σ.setReg 11 (BitVec.ofInt 16 l)
    if c.holds σ.fl then { σ1 with pc := l } else σ1.addPc 3
  | .callLabel a l =>
    -- control continues at l; PC_ret (R13) holds the address after the call; FP and Ra are exchanged
    let ra := (σ.setReg 13 (BitVec.ofInt 16 l)).get a
    let fp := σ.get 14
    ((({ σ with pc := l }.setReg 13 (BitVec.ofInt 16 (σ.pc + 3))).setReg 14 ra).setReg a fp)

/-- running a list of instructions -/
def execList : List Instr → State → State
  | [], σ => σ
  | i :: is, σ => execList is (exec i σ)

end Spec
end Hera
