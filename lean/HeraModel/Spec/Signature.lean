import HeraModel.Model.Checker
/-
  Spec.Signature — the documented operand rules of every HERA operation and the program-level
  rules of the checker, written by hand from hera-py's documentation (README, `doc` strings,
  error messages' meaning), independently of the regenerated `P` table.

  Uses the vocabulary of the checker model (`SOp`, `Tok`, `SymTab`, `CSettings`) but none of its logic.
-/
namespace Hera
namespace Sig
open Chk

/-- documented kinds of operands -/
inductive Kind where
  | reg                      -- a register
  | regOrLabel               -- a register or a code label
  | name                     -- a new symbol name
  | string                   -- a string literal
  | int (lo hi : Int)        -- an integer lo ≤ v < hi, or a constant with such a value
  | intOrLabel (lo hi : Int) -- as `int`, or a label (code label: any value; data label: value in range)
deriving Repr, DecidableEq

/-- The documented signature of every operation. -/
def params : Cls → List Kind
  | .SETLO | .SETHI => [.reg, .int (-128) 256]
  | .SET | .SETRF => [.reg, .intOrLabel (-32768) 65536]
  | .ADD | .SUB | .MUL | .AND | .OR | .XOR => [.reg, .reg, .reg]
  | .INC | .DEC => [.reg, .int 1 65]
  | .LSL | .LSR | .LSL8 | .LSR8 | .ASL | .ASR => [.reg, .reg]
  | .SAVEF | .RSTRF | .FLAGS | .PRINT_REG => [.reg]
  | .FON | .FOFF | .FSET5 => [.int 0 32]
  | .FSET4 | .SWI => [.int 0 16]
  | .LOAD | .STORE => [.reg, .int 0 32, .reg]
  | .BR | .BL | .BGE | .BLE | .BG | .BULE | .BUG | .BZ | .BNZ | .BC | .BNC | .BS | .BNS | .BV | .BNV => [.regOrLabel]
  | .BRR | .BLR | .BGER | .BLER | .BGR | .BULER | .BUGR | .BZR | .BNZR | .BCR | .BNCR | .BSR | .BNSR | .BVR | .BNVR =>
    [.intOrLabel (-128) 256]
  | .CALL => [.reg, .regOrLabel]
  | .RETURN => [.reg, .reg]
  | .CMP | .MOVE | .NEG | .NOT => [.reg, .reg]
  | .CON | .COFF | .CBON | .CCBOFF | .HALT | .NOP | .RTI => []
  | .OPCODE | .DSKIP => [.int 0 65536]
  | .INTEGER => [.int (-32768) 65536]
  | .LP_STRING | .PRINT | .PRINTLN | .X__EVAL => [.string]
  | .CONSTANT => [.name, .int (-32768) 65536]
  | .LABEL | .DLABEL => [.name]

def inRange (lo hi v : Int) : Bool := decide (lo ≤ v) && decide (v < hi)

/-- does token `t` satisfy kind `k` in the symbol environment `env`? -/
def argOK (k : Kind) (t : Tok) (env : SymTab) : Bool :=
  match k, t with
  | .reg, .reg _ => true
  | .regOrLabel, .reg _ => true
  | .regOrLabel, .sym s => (match env.get? (.str s) with | some (.label _) => true | _ => false)
  | .name, .sym _ => true
  | .string, .str _ => true
  | .int lo hi, .int v => inRange lo hi v
  | .int lo hi, .sym s => (match env.get? (.str s) with | some (.const v) => inRange lo hi v | _ => false)
  | .intOrLabel lo hi, .int v => inRange lo hi v
  | .intOrLabel lo hi, .sym s =>
    (match env.get? (.str s) with
     | some (.const v) => inRange lo hi v
     | some (.label _) => true
     | some (.dlabel v) => inRange lo hi v
     | none => false)
  | _, _ => false

def argsOK : List Kind → List Tok → SymTab → Bool
  | [], [], _ => true
  | k :: ks, t :: ts, env => argOK k t env && argsOK ks ts env
  | _, _, _ => false

/-- An operation conforms to its documented signature (operand count, kinds, ranges; an OPCODE word must be
    an instruction unless the program is only being assembled). -/
def opConforms (op : SOp) (env : SymTab) (assemblyOnly : Bool) : Bool :=
  argsOK (params op.cls) op.toks env &&
  (if op.cls = .OPCODE then
     match opcodeWord op.toks env with
     | some v => assemblyOnly || (match Enc.disassemble v false with | .ok _ => true | .error _ => false)
     | none => true
   else true)

end Sig
end Hera

namespace Hera
namespace Sig
open Chk

/-! ### placement of labels (also the specification side of C04) and program-level rules -/

def constValue (consts : List (Str × Int)) (s : Str) : Option Int := (consts.find? (fun p => p.1 == s)).map (·.2)

/-- data cells a statement occupies: INTEGER one, LP_STRING length + characters, DSKIP n (a literal or an
    already declared constant) -/
def cells (op : SOp) (consts : List (Str × Int)) : Int :=
  match op.cls, op.toks with
  | .INTEGER, _ => 1
  | .LP_STRING, [.str s] => s.length + 1
  | .DSKIP, [.int n] => n
  | .DSKIP, [.sym s] => (constValue consts s).getD 0
  | _, _ => 0

/-- machine instructions an operation expands to (documented lengths of the pseudo-operations) -/
def instrCount (op : SOp) (st : CSettings) : Int :=
  if op.cls.isDataOp ∨ op.cls = .LABEL then 0
  else if op.cls.isDebuggingOp ∧ (st.mode = .assemble ∨ st.mode = .preprocess) then 0
  else match op.cls, op.toks with
    | .SET, _ | .CMP, _ | .FLAGS, _ | .NEG, _ => 2
    | .SETRF, _ => 4
    | .NOT, _ => 3
    | .CALL, [_, t] => if t.isReg then 1 else 3
    | c, [.sym _] => if c.isRegisterBranch then 3 else 1
    | _, _ => 1

/-- constants declared by the first `i` operations (name, value), latest first -/
def constsBefore (ops : List SOp) (i : Nat) : List (Str × Int) :=
  (ops.take i).foldl (fun acc op => match op.cls, op.toks with
    | .CONSTANT, [.sym s, .int v] => (s, v) :: acc
    | .CONSTANT, [.sym s, .sym m] =>            -- the value of an earlier constant
      (match constValue acc m with | some v => (s, v) :: acc | none => acc)
    | _, _ => acc) []

/-- value of the code label / data label declared by operation `k` -/
def labelValue (ops : List SOp) (st : CSettings) (k : Nat) : Int :=
  ((ops.take k).map (fun op => instrCount op st)).foldl (· + ·) 0

def dataCounterAt (ops : List SOp) (st : CSettings) (k : Nat) : Int :=
  (List.range k).foldl (fun dc j => match ops[j]? with
    | some op => dc + cells op (constsBefore ops j)
    | none => dc) st.data_start

/-- the symbol environment in which operation `i` is checked: every label and data label of the program, and the
    constants declared before `i` -/
def envAt (ops : List SOp) (st : CSettings) (i : Nat) : SymTab :=
  let labels : SymTab := (List.range ops.length).foldl (fun tab k => match ops[k]? with
    | some op => (match op.cls, op.toks with
      | .LABEL, [.sym s] => tab.set (.str s) (.label (labelValue ops st k))
      | .DLABEL, [.sym s] =>
        let dc := dataCounterAt ops st k
        tab.set (.str s) (.dlabel (if outOfRange dc then 0 else dc))
      | _, _ => tab)
    | none => tab) []
  (constsBefore ops i).reverse.foldl (fun tab p => tab.set (.str p.1) (.const (if outOfRange p.2 then 0 else p.2))) labels

def declaredName (op : SOp) : Option Tok :=
  if isSymbolDecl op.cls then op.toks.head? else none

/-- the program-level rules -/
def programConforms (ops : List SOp) (st : CSettings) : Bool :=
  let n := ops.length
  let asm := st.mode == .assemble
  -- every operation conforms in its environment
  (List.range n).all (fun i => match ops[i]? with
    | some op => opConforms op (envAt ops st i) asm
    | none => true) &&
  -- no symbol is declared twice
  (List.range n).all (fun i => (List.range i).all (fun j => match ops[i]? , ops[j]? with
    | some a, some b => (match declaredName a, declaredName b with
      | some x, some y => x != y
      | _, _ => true)
    | _, _ => true)) &&
  -- no data statement after code
  (List.range n).all (fun i => (List.range i).all (fun j => match ops[i]?, ops[j]? with
    | some a, some b => !(a.cls.isDataOp && !b.cls.isDataOp)
    | _, _ => true)) &&
  -- interrupt instructions (also written as OPCODE words) only where they are allowed
  (st.allow_interrupts || (List.range n).all (fun i => match ops[i]? with
    | some op => !(isInterrupt op (envAt ops st i))
    | none => true)) &&
  -- debugging operations not with --no-debug-ops
  (!st.no_debug_ops || ops.all (fun op => !op.cls.isDebuggingOp)) &&
  -- the data segment ends inside the 16-bit address space
  (List.range (n + 1)).all (fun k => !(outOfRange (dataCounterAt ops st k)))

end Sig
end Hera
