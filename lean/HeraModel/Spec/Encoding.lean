import HeraModel.Spec.ISA
/-
  Spec.Encoding — the HERA 2.4 instruction encoding table written as arithmetic on the
  operands (DESIGN.md Appendix A), independently of hera-py's `BITV` pattern strings.
-/
namespace Hera
namespace Spec

/-- Encodable instructions: the executable ones plus the interrupt instructions. -/
inductive EInstr where
  | instr (i : Instr)
  | swi (n : Int)
  | rti
deriving DecidableEq, Repr, Inhabited

def EInstr.Valid : EInstr → Prop
  | .instr i => i.Valid
  | .swi n => 0 ≤ n ∧ n < 16
  | .rti => True

instance EInstr.decValid (e : EInstr) : Decidable e.Valid := by
  cases e <;> simp only [EInstr.Valid] <;> exact inferInstance

def Cond.code : Cond → Nat
  | .always => 0 | .l => 2 | .ge => 3 | .le => 4 | .g => 5 | .ule => 6 | .ug => 7 | .z => 8
  | .nz => 9 | .c => 10 | .nc => 11 | .s => 12 | .ns => 13 | .v => 14 | .nv => 15

def Alu3.code : Alu3 → Nat
  | .and => 8 | .or => 9 | .add => 10 | .sub => 11 | .mul => 12 | .xor => 13

def Sh.code : Sh → Nat
  | .lsl => 0 | .lsr => 1 | .lsl8 => 2 | .lsr8 => 3 | .asl => 4 | .asr => 5

/-- the byte that stands for an 8-bit operand written as -128..255 -/
def byteOf (v : Int) : Nat := (v % 256).toNat

/-- The 16-bit word of an instruction, by the HERA encoding table. -/
def encode : EInstr → Nat
  | .instr (.setlo d v) => 0xE000 + d * 256 + byteOf v
  | .instr (.sethi d v) => 0xF000 + d * 256 + byteOf v
  | .instr (.alu3 op d a b) => op.code * 4096 + d * 256 + a * 16 + b
  | .instr (.inc d k) => 0x3080 + d * 256 + (k - 1).toNat
  | .instr (.dec d k) => 0x30C0 + d * 256 + (k - 1).toNat
  | .instr (.shift op d b) => 0x3000 + d * 256 + op.code * 16 + b
  | .instr (.savef d) => 0x3070 + d * 256
  | .instr (.rstrf d) => 0x3078 + d * 256
  | .instr (.fon v) => 0x3060 + (v.toNat / 16) * 256 + v.toNat % 16
  | .instr (.fset5 v) => 0x3460 + (v.toNat / 16) * 256 + v.toNat % 16
  | .instr (.foff v) => 0x3860 + (v.toNat / 16) * 256 + v.toNat % 16
  | .instr (.fset4 v) => 0x3C60 + v.toNat
  | .instr (.load d o b) => 0x4000 + (o.toNat / 16) * 4096 + d * 256 + (o.toNat % 16) * 16 + b
  | .instr (.store d o b) => 0x6000 + (o.toNat / 16) * 4096 + d * 256 + (o.toNat % 16) * 16 + b
  | .instr (.br c b) => 0x1000 + c.code * 256 + b
  | .instr (.brr c o) => c.code * 256 + byteOf o
  | .instr (.call a b) => 0x2000 + a * 16 + b
  | .instr (.ret a b) => 0x2100 + a * 16 + b
  | .swi n => 0x2200 + n.toNat
  | .rti => 0x2300

/-- Canonical operand form: 8-bit operands as the unsigned byte (what a disassembler can recover). -/
def canonInstr : Instr → Instr
  | .setlo d v => .setlo d (byteOf v)
  | .sethi d v => .sethi d (byteOf v)
  | .brr c o => .brr c (byteOf o)
  | i => i

def EInstr.canon : EInstr → EInstr
  | .instr i => .instr (canonInstr i)
  | e => e

end Spec
end Hera

namespace Hera
namespace Spec

def condOfCode : Nat → Option Cond
  | 0 => some .always | 2 => some .l | 3 => some .ge | 4 => some .le | 5 => some .g | 6 => some .ule | 7 => some .ug
  | 8 => some .z | 9 => some .nz | 10 => some .c | 11 => some .nc | 12 => some .s | 13 => some .ns | 14 => some .v
  | 15 => some .nv | _ => none

/-- The HERA decoding table, written arithmetically (fields by division and remainder): the instruction a 16-bit word
    denotes, or `none` when the word is not an instruction. -/
def decode (w : Nat) : Option EInstr :=
  let top := w / 4096
  let d := w / 256 % 16
  let a := w / 16 % 16
  let b := w % 16
  let lowb := w % 256
  if w ≥ 65536 then none
  else if top = 14 then some (.instr (.setlo d lowb))
  else if top = 15 then some (.instr (.sethi d lowb))
  else if top = 8 then some (.instr (.alu3 .and d a b))
  else if top = 9 then some (.instr (.alu3 .or d a b))
  else if top = 10 then some (.instr (.alu3 .add d a b))
  else if top = 11 then some (.instr (.alu3 .sub d a b))
  else if top = 12 then some (.instr (.alu3 .mul d a b))
  else if top = 13 then some (.instr (.alu3 .xor d a b))
  else if top = 4 ∨ top = 5 then some (.instr (.load d ((top - 4) * 16 + a) b))
  else if top = 6 ∨ top = 7 then some (.instr (.store d ((top - 6) * 16 + a) b))
  else if top = 0 then (condOfCode d).map (fun c => .instr (.brr c lowb))
  else if top = 1 then (if a = 0 then (condOfCode d).map (fun c => .instr (.br c b)) else none)
  else if top = 2 then
    (if d = 0 then some (.instr (.call a b))
     else if d = 1 then some (.instr (.ret a b))
     else if d = 2 ∧ a = 0 then some (.swi b)
     else if d = 3 ∧ a = 0 ∧ b = 0 then some .rti
     else none)
  else if top = 3 then
    (if lowb ≥ 192 then some (.instr (.dec d (lowb - 192 + 1)))
     else if lowb ≥ 128 then some (.instr (.inc d (lowb - 128 + 1)))
     else if a = 0 then some (.instr (.shift .lsl d b))
     else if a = 1 then some (.instr (.shift .lsr d b))
     else if a = 2 then some (.instr (.shift .lsl8 d b))
     else if a = 3 then some (.instr (.shift .lsr8 d b))
     else if a = 4 then some (.instr (.shift .asl d b))
     else if a = 5 then some (.instr (.shift .asr d b))
     else if a = 7 ∧ b = 0 then some (.instr (.savef d))
     else if a = 7 ∧ b = 8 then some (.instr (.rstrf d))
     else if a = 6 then
       (if d = 0 ∨ d = 1 then some (.instr (.fon ((d % 2) * 16 + b)))
        else if d = 4 ∨ d = 5 then some (.instr (.fset5 ((d % 2) * 16 + b)))
        else if d = 8 ∨ d = 9 then some (.instr (.foff ((d % 2) * 16 + b)))
        else if d = 12 then some (.instr (.fset4 b))
        else none)
     else none)
  else none

/-- A word-level HERA machine: fetch the word at `pc`, decode it by the table, execute it by the architecture. -/
def wordStep (code : List Nat) (σ : State) : Option State :=
  if σ.halted ∨ σ.pc < 0 ∨ σ.pc ≥ code.length then none
  else match code[σ.pc.toNat]? with
    | none => none
    | some w => match decode w with
      | some (.instr i) => some (exec i σ)
      | _ => none

def wordRun (code : List Nat) : Nat → State → State
  | 0, σ => σ
  | n + 1, σ => match wordStep code σ with
    | some σ' => wordRun code n σ'
    | none => σ

end Spec
end Hera
