import HeraModel.Spec.ISA
/-
  Spec.Encoding — the HERA 2.4 instruction encoding table written as arithmetic on the
  operands (DESIGN.md Appendix A), independently of hera-py's `BITV` pattern strings.
-/
namespace Hera
namespace Spec

/-- Encodable instructions: the executable ones plus the interrupt instructions. -/
inductive EInstr where
  | instr (i : Instr)
  | swi (n : Int)
  | rti
deriving DecidableEq, Repr, Inhabited

def EInstr.Valid : EInstr → Prop
  | .instr i => i.Valid
  | .swi n => 0 ≤ n ∧ n < 16
  | .rti => True

instance EInstr.decValid (e : EInstr) : Decidable e.Valid := by
  cases e <;> simp only [EInstr.Valid] <;> exact inferInstance

def Cond.code : Cond → Nat
  | .always => 0 | .l => 2 | .ge => 3 | .le => 4 | .g => 5 | .ule => 6 | .ug => 7 | .z => 8
  | .nz => 9 | .c => 10 | .nc => 11 | .s => 12 | .ns => 13 | .v => 14 | .nv => 15

def Alu3.code : Alu3 → Nat
  | .and => 8 | .or => 9 | .add => 10 | .sub => 11 | .mul => 12 | .xor => 13

def Sh.code : Sh → Nat
  | .lsl => 0 | .lsr => 1 | .lsl8 => 2 | .lsr8 => 3 | .asl => 4 | .asr => 5

/-- the byte that stands for an 8-bit operand written as -128..255 -/
def byteOf (v : Int) : Nat := (v % 256).toNat

/-- The 16-bit word of an instruction, by the HERA encoding table. -/
def encode : EInstr → Nat
  | .instr (.setlo d v) => 0xE000 + d * 256 + byteOf v
  | .instr (.sethi d v) => 0xF000 + d * 256 + byteOf v
  | .instr (.alu3 op d a b) => op.code * 4096 + d * 256 + a * 16 + b
  | .instr (.inc d k) => 0x3080 + d * 256 + (k - 1).toNat
  | .instr (.dec d k) => 0x30C0 + d * 256 + (k - 1).toNat
  | .instr (.shift op d b) => 0x3000 + d * 256 + op.code * 16 + b
  | .instr (.savef d) => 0x3070 + d * 256
  | .instr (.rstrf d) => 0x3078 + d * 256
  | .instr (.fon v) => 0x3060 + (v.toNat / 16) * 256 + v.toNat % 16
  | .instr (.fset5 v) => 0x3460 + (v.toNat / 16) * 256 + v.toNat % 16
  | .instr (.foff v) => 0x3860 + (v.toNat / 16) * 256 + v.toNat % 16
  | .instr (.fset4 v) => 0x3C60 + v.toNat
  | .instr (.load d o b) => 0x4000 + (o.toNat / 16) * 4096 + d * 256 + (o.toNat % 16) * 16 + b
  | .instr (.store d o b) => 0x6000 + (o.toNat / 16) * 4096 + d * 256 + (o.toNat % 16) * 16 + b
  | .instr (.br c b) => 0x1000 + c.code * 256 + b
  | .instr (.brr c o) => c.code * 256 + byteOf o
  | .instr (.call a b) => 0x2000 + a * 16 + b
  | .instr (.ret a b) => 0x2100 + a * 16 + b
  | .swi n => 0x2200 + n.toNat
  | .rti => 0x2300

/-- Canonical operand form: 8-bit operands as the unsigned byte (what a disassembler can recover). -/
def canonInstr : Instr → Instr
  | .setlo d v => .setlo d (byteOf v)
  | .sethi d v => .sethi d (byteOf v)
  | .brr c o => .brr c (byteOf o)
  | i => i

def EInstr.canon : EInstr → EInstr
  | .instr i => .instr (canonInstr i)
  | e => e

end Spec
end Hera
