/-
  Python semantics prelude: the fragment of CPython's int / list / bytes behaviour that
  hera-py's core relies on, with failure explicit (`Except PyErr`).  Mathlib-free.
-/
namespace Hera

/-- Python exceptions that the modelled code can raise (class name only). -/
inductive PyErr where
  | IndexError | HERAError | ValueError | TypeError | NotImplementedError
  | ZeroDivisionError | KeyError | AttributeError | SystemExit | RuntimeError | OverflowError
deriving DecidableEq, Repr, Inhabited

def PyErr.name : PyErr → String
  | .IndexError => "IndexError" | .HERAError => "HERAError" | .ValueError => "ValueError"
  | .TypeError => "TypeError" | .NotImplementedError => "NotImplementedError"
  | .ZeroDivisionError => "ZeroDivisionError" | .KeyError => "KeyError"
  | .AttributeError => "AttributeError" | .SystemExit => "SystemExit"
  | .RuntimeError => "RuntimeError" | .OverflowError => "OverflowError"

namespace Py

/-- Python `l[i]` on a list: negative indices count from the end; out of range raises. -/
def listGet {α} (l : List α) (i : Int) : Except PyErr α :=
  if 0 ≤ i then
    match l[i.toNat]? with
    | some v => .ok v
    | none => .error .IndexError
  else
    if (-i).toNat ≤ l.length then
      match l[l.length - (-i).toNat]? with
      | some v => .ok v
      | none => .error .IndexError
    else .error .IndexError

/-- Python `l[i] = v`. -/
def listSet {α} (l : List α) (i : Int) (v : α) : Except PyErr (List α) :=
  if 0 ≤ i then
    if i.toNat < l.length then .ok (l.set i.toNat v) else .error .IndexError
  else
    if (-i).toNat ≤ l.length then .ok (l.set (l.length - (-i).toNat) v) else .error .IndexError

/-- Python `[x] * n` (n ≤ 0 gives the empty list). -/
def listRepeat {α} (x : α) (n : Int) : List α := List.replicate n.toNat x

/-- Python `len(l)`. -/
def len {α} (l : List α) : Int := (l.length : Int)

/-- `x & y` on nonnegative operands. -/
def natAnd (x y : Int) : Int := ((x.toNat &&& y.toNat : Nat) : Int)
def natOr (x y : Int) : Int := ((x.toNat ||| y.toNat : Nat) : Int)
def natXor (x y : Int) : Int := ((x.toNat ^^^ y.toNat : Nat) : Int)

/-- Python `x & y` for arbitrary (unbounded, two's complement) ints. `~a = -a-1`. -/
def and (x y : Int) : Int :=
  if 0 ≤ x then
    if 0 ≤ y then natAnd x y
    else x - natAnd x (-y - 1)                 -- x & ~a = x - (x & a)
  else
    if 0 ≤ y then y - natAnd y (-x - 1)
    else -(natOr (-x - 1) (-y - 1)) - 1        -- ~(a | b)

/-- Python `x | y`. -/
def or (x y : Int) : Int :=
  if 0 ≤ x then
    if 0 ≤ y then natOr x y
    else -((-y - 1) - natAnd (-y - 1) x) - 1   -- ~(b & ~x)
  else
    if 0 ≤ y then -((-x - 1) - natAnd (-x - 1) y) - 1
    else -(natAnd (-x - 1) (-y - 1)) - 1       -- ~(a & b)

/-- Python `x ^ y`. -/
def xor (x y : Int) : Int :=
  if 0 ≤ x then
    if 0 ≤ y then natXor x y
    else -(natXor x (-y - 1)) - 1
  else
    if 0 ≤ y then -(natXor (-x - 1) y) - 1
    else natXor (-x - 1) (-y - 1)

/-- Python `bytes([..])`: every element must be in 0..255. -/
def bytes (l : List Int) : Except PyErr (List Int) :=
  if l.all (fun b => decide (0 ≤ b) && decide (b < 256)) then .ok l else .error .ValueError

/-- Python `chr(i)` restricted to what we model: code point as Nat; out of range raises. -/
def chr (i : Int) : Except PyErr Nat :=
  if 0 ≤ i ∧ i < 1114112 then .ok i.toNat else .error .ValueError

end Py
end Hera

namespace Hera
namespace Py
/-- Python `l * n` on a list. -/
def listMul {α} (l : List α) (n : Int) : List α := (List.replicate n.toNat l).flatten
end Py
end Hera
