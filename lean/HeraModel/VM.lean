import HeraModel.Py
/-
  The state of hera-py's `VirtualMachine` (hera/vm.py) as a Lean structure, one field per
  Python attribute set in `reset()` (the check compares this field list with the live
  object on every run), plus `out`, the model of everything written to stdout/stderr.
-/
namespace Hera

/-- Python `str` as a list of code points. -/
abbrev Str := List Nat

def Str.ofString (s : String) : Str := s.toList.map Char.toNat
def Str.toString (s : Str) : String := String.ofList (s.map Char.ofNat)

/-- A value in `op.args`: an int (registers are ints) or a string. -/
inductive Val where
  | int (v : Int)
  | str (s : Str)
deriving Repr, DecidableEq, Inhabited

/-- The part of `Settings` (hera/data.py) that the virtual machine reads or writes. -/
structure Settings where
  data_start : Int := 0xC001
  warn_return_on : Bool := true
  /-- `False` in Python is `none`. -/
  throttle : Option Int := none
  init : List (Int × Int) := []
  warning_count : Int := 0
deriving Repr, DecidableEq

/-- Observable output. `loc` is an abstract identifier of the `Location` object. -/
inductive OutEvent where
  | stdout (text : Str)
  | warning (msg : Str) (loc : Int)
  | error (msg : Str) (loc : Int)
deriving Repr, DecidableEq

structure VM where
  settings : Settings := {}
  registers : List Int := List.replicate 16 0
  pc : Int := 0
  dc : Int := 0xC001
  flag_sign : Bool := false
  flag_zero : Bool := false
  flag_overflow : Bool := false
  flag_carry : Bool := false
  flag_carry_block : Bool := false
  memory : List Int := List.replicate 16 0
  input_buffer : Str := []
  input_pos : Int := 0
  expected_returns : List (Int × Int) := []
  halted : Bool := false
  location : Int := -1
  op_count : Int := 0
  warned_for_SWI : Bool := false
  warned_for_RTI : Bool := false
  warned_for_overflow : Bool := false
  warning_count : Int := 0
  out : List OutEvent := []
deriving Repr, DecidableEq

/-- State-and-exception monad in which translated Python methods live. -/
abbrev M (α : Type) := VM → Except PyErr (α × VM)

namespace M
@[inline] def pure' {α} (a : α) : M α := fun vm => .ok (a, vm)
@[inline] def bind' {α β} (x : M α) (f : α → M β) : M β := fun vm =>
  match x vm with
  | .ok (a, vm') => f a vm'
  | .error e => .error e
instance : Monad M where
  pure := pure'
  bind := bind'

@[inline] def get : M VM := fun vm => .ok (vm, vm)
@[inline] def set (s : VM) : M Unit := fun _ => .ok ((), s)
@[inline] def throw {α} (e : PyErr) : M α := fun _ => .error e
/-- Lift a pure computation that may raise. -/
@[inline] def lift {α} (x : Except PyErr α) : M α := fun vm =>
  match x with
  | .ok a => .ok (a, vm)
  | .error e => .error e

@[simp] theorem pure_apply {α} (a : α) (vm : VM) : (Pure.pure a : M α) vm = .ok (a, vm) := rfl
@[simp] theorem bind_apply {α β} (x : M α) (f : α → M β) (vm : VM) :
    (x >>= f) vm = match x vm with | .ok (a, vm') => f a vm' | .error e => .error e := rfl
@[simp] theorem get_apply (vm : VM) : get vm = .ok (vm, vm) := rfl
@[simp] theorem set_apply (s vm : VM) : set s vm = .ok ((), s) := rfl
@[simp] theorem throw_apply {α} (e : PyErr) (vm : VM) : (throw e : M α) vm = .error e := rfl
@[simp] theorem lift_ok {α} (a : α) (vm : VM) : lift (.ok a) vm = .ok (a, vm) := rfl
@[simp] theorem lift_error {α} (e : PyErr) (vm : VM) : (lift (.error e) : M α) vm = .error e := rfl

/-- Python `for x in l: body(x)` with effects. -/
def forM {α} : List α → (α → M Unit) → M Unit
  | [], _ => pure ()
  | x :: xs, f => f x >>= fun _ => forM xs f
end M

/-- Emit an output event. -/
def VM.emit (vm : VM) (e : OutEvent) : VM := { vm with out := vm.out ++ [e] }

end Hera
