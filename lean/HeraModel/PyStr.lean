import HeraModel.VM
/-
  String helpers of the Python prelude: `str(int)`, `"..".format(..)` with `{}` fields,
  `list.pop()`, floor division, and hera-py's `utils.format_int` (hand model, corresponded).
-/
namespace Hera
namespace Py

def digitsNat (n : Nat) : Str := (Nat.toDigits 10 n).map Char.toNat

/-- Python `str(i)` for an int. -/
def strInt (i : Int) : Str :=
  if i < 0 then 45 :: digitsNat (-i).toNat else digitsNat i.toNat

/-- `fmt.format(args...)` where `fmt` contains only `{}` fields (no escapes are used in the
    translated code). Missing arguments raise IndexError in Python; the translated call sites
    are literal, so the model substitutes the empty string (never exercised). -/
def format : Str → List Str → Str
  | 123 :: 125 :: rest, a :: as => a ++ format rest as
  | 123 :: 125 :: rest, [] => format rest []
  | c :: rest, as => c :: format rest as
  | [], _ => []

/-- Python `l.pop()`: last element and the remaining list. -/
def listPop {α} (l : List α) : Except PyErr (α × List α) :=
  match l.getLast? with
  | some x => .ok (x, l.dropLast)
  | none => .error .IndexError

/-- Python `a // b` (floor). -/
def floordiv (a b : Int) : Except PyErr Int :=
  if b = 0 then .error .ZeroDivisionError else .ok (Int.fdiv a b)

/-- Python `a % b` (sign of the divisor). -/
def mod (a b : Int) : Except PyErr Int :=
  if b = 0 then .error .ZeroDivisionError else .ok (Int.fmod a b)

def hexDigit (d : Nat) : Nat := if d < 10 then 48 + d else 87 + d
def hexNat (n : Nat) : Str := (Nat.toDigits 16 n).map Char.toNat

def padLeft (s : Str) (n : Nat) (c : Nat) : Str := List.replicate (n - s.length) c ++ s

/-- Python `repr(chr(v))` for v < 128. -/
def reprChr (v : Nat) : Str :=
  if v = 39 then [34, 39, 34]                       -- "'"
  else if v = 92 then [39, 92, 92, 39]              -- '\\'
  else if v = 9 then [39, 92, 116, 39]
  else if v = 10 then [39, 92, 110, 39]
  else if v = 13 then [39, 92, 114, 39]
  else if v < 32 ∨ v = 127 then [39, 92, 120] ++ padLeft (hexNat v) 2 48 ++ [39]
  else [39, v, 39]

def joinWith (sep : Str) : List Str → Str
  | [] => []
  | [x] => x
  | x :: xs => x ++ sep ++ joinWith sep xs

/-- `utils.format_int(v)` with the default spec "xdsc" (v ≥ 0). -/
def format_int (v : Int) : Str :=
  let n := v.toNat
  let parts : List Str :=
    [[48, 120] ++ padLeft (hexNat n) 4 48, strInt v]
    ++ (if (v / 32768) % 2 ≠ 0 then [strInt (if v ≥ 32768 then -(65536 - v) else v)] else [])
    ++ (if v < 128 ∧ 32 ≤ v ∧ v < 127 then [reprChr n] else [])
  joinWith [32, 61, 32] parts

end Py
end Hera

namespace Hera
namespace Py

/-- whitespace as `str.strip()` / `int()` see it (ASCII part) -/
def isSpace (c : Nat) : Bool := (9 ≤ c && c ≤ 13) || (28 ≤ c && c ≤ 32)

def stripLeft : Str → Str
  | c :: cs => if isSpace c then stripLeft cs else c :: cs
  | [] => []

def strip (s : Str) : Str := (stripLeft (stripLeft s).reverse).reverse

def digitVal (c : Nat) : Option Nat :=
  if 48 ≤ c ∧ c ≤ 57 then some (c - 48)
  else if 97 ≤ c ∧ c ≤ 122 then some (c - 87)
  else if 65 ≤ c ∧ c ≤ 90 then some (c - 55)
  else none

/-- digits of a Python integer literal body: digits `< base`, single underscores only between digits
    (`lead` = an underscore is allowed at the very start, as after a base prefix). -/
def parseDigits (base : Nat) (s : Str) (lead : Bool) : Option Nat :=
  let rec go : Str → Nat → Bool → Bool → Option Nat
    -- acc, prevUnderscore (an underscore was just read), any (some digit read)
    | [], acc, prevU, any => if prevU || !any then none else some acc
    | c :: cs, acc, prevU, any =>
      if c = 95 then
        if prevU || (!any && !lead) then none else go cs acc true any
      else
        match digitVal c with
        | some d => if d < base then go cs (acc * base + d) false true else none
        | none => none
  go s 0 false false

/-- `int(s, base)` for `base ∈ {0, 2, 8, 10, 16}`; `none` = ValueError. -/
def parseInt (s : Str) (base : Nat) : Option Int :=
  let s := strip s
  let (neg, body) := match s with
    | 45 :: r => (true, r)
    | 43 :: r => (false, r)
    | r => (false, r)
  let lower (c : Nat) : Nat := if 65 ≤ c ∧ c ≤ 90 then c + 32 else c
  let mag : Option Nat :=
    match body with
    | 48 :: p :: rest =>
      let p := lower p
      if p = 120 ∧ (base = 0 ∨ base = 16) then parseDigits 16 rest true
      else if p = 111 ∧ (base = 0 ∨ base = 8) then parseDigits 8 rest true
      else if p = 98 ∧ (base = 0 ∨ base = 2) then parseDigits 2 rest true
      else if base = 0 then
        -- decimal literal starting with 0: only zeros (and underscores) allowed
        match parseDigits 10 body false with
        | some 0 => some 0
        | _ => none
      else parseDigits base body false
    | _ => parseDigits (if base = 0 then 10 else base) body false
  match mag with
  | some m => some (if neg then -(m : Int) else (m : Int))
  | none => none

end Py
end Hera
