import HeraModel.VM
/-
  String literals: hand model of `string_to_literal` (hera/op.py, the writer used by listings) and of the lexer's reader
  `consume_str` / `consume_delimited` / `read_escape_char` / `escape_char` (hera/lexer.py). Characters are code points.
-/
namespace Hera
namespace StrLit

def hexDigit (n : Nat) : Nat := if n < 10 then 48 + n else 87 + n       -- '0'..'9', 'a'..'f'

/-- `"{:o}".format(n)` padded to at least three digits -/
def octDigits (n : Nat) : Str :=
  if n < 512 then [48 + n / 64, 48 + n / 8 % 8, 48 + n % 8]
  else (Nat.toDigits 8 n).map Char.toNat

/-- one character of `string_to_literal` -/
def writeChar (c : Nat) : Str :=
  if c = 10 then [92, 110]
  else if c = 9 then [92, 116]
  else if c = 92 then [92, 92]
  else if c = 34 then [92, 34]
  else if 32 ≤ c ∧ c < 127 then [c]
  else if c < 256 then [92, 120, hexDigit (c / 16), hexDigit (c % 16)]
  else 92 :: octDigits c

def writeBody (s : Str) : Str := s.flatMap writeChar

/-- `string_to_literal(s)` -/
def write (s : Str) : Str := [34] ++ writeBody s ++ [34]

def isDigit (c : Nat) : Bool := decide (48 ≤ c) && decide (c ≤ 57)
def isHex (c : Nat) : Bool := isDigit c || (decide (97 ≤ c) && decide (c ≤ 102)) || (decide (65 ≤ c) && decide (c ≤ 70))
def hexVal (c : Nat) : Nat := if c ≤ 57 then c - 48 else if 97 ≤ c then c - 87 else c - 55
def isOct (c : Nat) : Bool := decide (48 ≤ c) && decide (c ≤ 55)

structure Read where
  value : Str
  rest : Str            -- the text after the closing quote
  warnings : Nat
deriving Repr, DecidableEq

/-- `consume_delimited('"')` followed by the closing-quote check of `consume_str`, from the character after the opening
    quote; `none` = "unclosed string literal". Every iteration of the Python loop consumes at least one character, so
    `fuel > text.length` never runs out (`read` supplies that much). -/
def readBody : Nat → Str → Str → Nat → Option Read
  | 0, _, _, _ => none
  | _ + 1, [], _, _ => none
  | fuel + 1, c :: rest, acc, w =>
    if c = 34 then some ⟨acc, rest, w⟩
    else if c = 92 then
      match rest with
      | [] => none                                     -- backslash at the end of the text
      | p :: rest1 =>
        if p = 120 then                                 -- \x
          match rest1 with
          | h1 :: h2 :: rest3 =>
            if isHex h1 && isHex h2 then readBody fuel rest3 (acc ++ [hexVal h1 * 16 + hexVal h2]) w
            else readBody fuel rest1 (acc ++ [120]) (w + 1)
          | _ => readBody fuel rest1 (acc ++ [120]) (w + 1)
        else if isDigit p then
          -- up to three digits; a digit 8 or 9 among them makes the whole escape invalid
          match rest1 with
          | d2 :: rest2 =>
            if isDigit d2 then
              match rest2 with
              | d3 :: rest3 =>
                if isDigit d3 then
                  (if isOct p && isOct d2 && isOct d3 then
                     readBody fuel rest3 (acc ++ [(p - 48) * 64 + (d2 - 48) * 8 + (d3 - 48)]) w
                   else readBody fuel rest1 (acc ++ [p]) (w + 1))
                else
                  (if isOct p && isOct d2 then readBody fuel rest2 (acc ++ [(p - 48) * 8 + (d2 - 48)]) w
                   else readBody fuel rest1 (acc ++ [p]) (w + 1))
              | [] =>
                (if isOct p && isOct d2 then readBody fuel rest2 (acc ++ [(p - 48) * 8 + (d2 - 48)]) w
                 else readBody fuel rest1 (acc ++ [p]) (w + 1))
            else
              (if isOct p then readBody fuel rest1 (acc ++ [p - 48]) w else readBody fuel rest1 (acc ++ [p]) (w + 1))
          | [] => (if isOct p then readBody fuel rest1 (acc ++ [p - 48]) w else readBody fuel rest1 (acc ++ [p]) (w + 1))
        else if p = 110 then readBody fuel rest1 (acc ++ [10]) w
        else if p = 116 then readBody fuel rest1 (acc ++ [9]) w
        else if p = 92 then readBody fuel rest1 (acc ++ [92]) w
        else if p = 34 then readBody fuel rest1 (acc ++ [34]) w
        else readBody fuel rest1 (acc ++ [92, p]) (w + 1)   -- unrecognized escape: kept as two characters, with a warning
    else readBody fuel rest (acc ++ [c]) w

/-- the lexer on a text that starts with `"` -/
def read (text : Str) : Option Read :=
  match text with
  | 34 :: rest => readBody (rest.length + 1) rest [] 0
  | _ => none

end StrLit
end Hera
