import HeraModel.Spec.ISA
/-
  Running a list of architecture instructions placed at an address: the machine of `Spec.exec`, fetching from a code
  segment. Used for the routines of the Tiger standard library (extracted into `Generated/Stdlib.lean`).
-/
namespace Hera
namespace Lib
open Spec

/-- the instruction at `pc` of a segment that starts at `base` -/
def fetch (base : Int) (code : List Instr) (pc : Int) : Option Instr :=
  if pc < base then none else code[(pc - base).toNat]?

/-- one step inside the segment; `none` when the machine has halted or control has left the segment -/
def step (base : Int) (code : List Instr) (σ : State) : Option State :=
  if σ.halted then none else (fetch base code σ.pc).map (fun i => exec i σ)

/-- at most `n` steps, stopping when control leaves the segment (a routine has returned) or the machine halts -/
def run (base : Int) (code : List Instr) : Nat → State → State
  | 0, σ => σ
  | n + 1, σ => match step base code σ with
    | some σ' => run base code n σ'
    | none => σ

end Lib
end Hera
