import HeraModel.Generated.Ops
/-
  Hand model of the arithmetic helpers of the built-in Tiger standard library (hera/stdlib.py): `tiger_div_*` and
  `tiger_mod_*` (the stack and the register variant differ only in where operands and result live). `from_u16` and
  `to_u16` are the regenerated translations of hera/utils.py.
-/
namespace Hera
namespace Tiger

/-- `to_u16(from_u16(l) // from_u16(r)) if from_u16(r) != 0 else 0` -/
def divU (l r : Int) : Except PyErr Int :=
  let a := Gen.from_u16 l
  let b := Gen.from_u16 r
  if b ≠ 0 then Gen.to_u16 (Int.fdiv a b) else .ok 0

/-- `to_u16(from_u16(l) % from_u16(r)) if from_u16(r) != 0 else 0` -/
def modU (l r : Int) : Except PyErr Int :=
  let a := Gen.from_u16 l
  let b := Gen.from_u16 r
  if b ≠ 0 then Gen.to_u16 (Int.fmod a b) else .ok 0

end Tiger
end Hera
