import HeraModel.PyStr
import HeraModel.Generated.Ops
/-
  Hand model of the command-line layer (hera/main.py, hera/utils.py). This file: `--init` strings.
-/
namespace Hera
namespace Cli

def lowerC (c : Nat) : Nat := if 65 ≤ c ∧ c ≤ 90 then c + 32 else c
def lower (s : Str) : Str := s.map lowerC

/-- `str.split()` with no argument: split on runs of whitespace, no empty pieces. -/
def splitWs (s : Str) : List Str :=
  let rec go : Str → Str → List Str → List Str
    | [], cur, acc => (if cur.isEmpty then acc else cur.reverse :: acc).reverse
    | c :: cs, cur, acc =>
      if Py.isSpace c then go cs [] (if cur.isEmpty then acc else cur.reverse :: acc)
      else go cs (c :: cur) acc
  go s [] []

/-- `s.split(sep, maxsplit=1)` unpacked into two names: `none` when `sep` does not occur (ValueError). -/
def splitOnce (s : Str) (sep : Nat) : Option (Str × Str) :=
  let rec go : Str → Str → Option (Str × Str)
    | [], _ => none
    | c :: cs, pre => if c = sep then some (pre.reverse, cs) else go cs (c :: pre)
  go s []

def namedRegisters : List (Str × Int) :=
  [(Str.ofString "rt", 11), (Str.ofString "fp", 14), (Str.ofString "sp", 15), (Str.ofString "pc_ret", 13),
   (Str.ofString "fp_alt", 12)]

/-- `utils.register_to_index`; `none` = HERAError or ValueError (callers treat both alike). -/
def registerToIndex (rname : Str) : Option Int :=
  let r := lower rname
  match namedRegisters.find? (fun p => p.1 == r) with
  | some p => some p.2
  | none =>
    match r with
    | 114 :: rest =>
      match Py.parseInt rest 10 with
      | some v => if 0 ≤ v ∧ v < 16 then some v else none
      | none => none
    | _ => none

def parseInitOne (asgn : Str) : Option (Int × Int) :=
  match splitOnce asgn 61 with
  | none => none
  | some (lhs, rhs) =>
    match registerToIndex lhs with
    | none => none
    | some dest =>
      if dest = 0 then none
      else
        match Py.parseInt rhs 0 with
        | none => none
        | some v =>
          match Gen.to_u16 v with
          | .ok u => some (dest, u)
          | .error _ => none

/-- `main.parse_init_string` -/
def parseInit (s : Str) : Option (List (Int × Int)) :=
  (splitWs (s.map (fun c => if c = 44 then 32 else c))).mapM parseInitOne

end Cli
end Hera
