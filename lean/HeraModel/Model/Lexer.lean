import HeraModel.Model.StrLit
import HeraModel.Model.Cli
/-
  Hand model of hera/lexer.py: `Lexer.skip`, `next_token`, `read_symbol`, `read_int`, `consume_str`, `consume_char`,
  `consume_bracketed`, and the token stream of a whole text. ASCII texts (`str.isalpha / isdigit / isspace` are modelled
  for ASCII). A token carries its offset in the text (number of characters consumed before it); by
  `LexerFacts` / `Loc.posAfter` that determines its line and column.
-/
namespace Hera
namespace Lex

inductive Kind where
  | int | register | symbol | string | bracketed | char | minus | at | asterisk | plus | slash | lparen | rparen
  | lbrace | rbrace | comma | semicolon | fmt | include | eof | error | unknown
deriving Repr, DecidableEq, Inhabited

def Kind.name : Kind → String
  | .int => "INT" | .register => "REGISTER" | .symbol => "SYMBOL" | .string => "STRING" | .bracketed => "BRACKETED"
  | .char => "CHAR" | .minus => "MINUS" | .at => "AT" | .asterisk => "ASTERISK" | .plus => "PLUS" | .slash => "SLASH"
  | .lparen => "LPAREN" | .rparen => "RPAREN" | .lbrace => "LBRACE" | .rbrace => "RBRACE" | .comma => "COMMA"
  | .semicolon => "SEMICOLON" | .fmt => "FMT" | .include => "INCLUDE" | .eof => "EOF" | .error => "ERROR"
  | .unknown => "UNKNOWN"

structure Token where
  kind : Kind
  value : Str
  off : Nat              -- characters of the text before the token's location
deriving Repr, DecidableEq, Inhabited

def isAlpha (c : Nat) : Bool := (decide (65 ≤ c) && decide (c ≤ 90)) || (decide (97 ≤ c) && decide (c ≤ 122))
def isDigit (c : Nat) : Bool := decide (48 ≤ c) && decide (c ≤ 57)
def isSymChar (c : Nat) : Bool := isAlpha c || isDigit c || c == 95

/-- rest of the line: up to, not including, the newline -/
def dropLine : Str → Str
  | [] => []
  | c :: cs => if c = 10 then c :: cs else dropLine cs

/-- after a block comment opened by `/*`: past the closing `*/`, or the end of the text -/
def dropBlock : Str → Str
  | [] => []
  | [_] => []
  | c :: d :: cs => if c = 42 ∧ d = 47 then cs else dropBlock (d :: cs)

theorem dropLine_le (s : Str) : (dropLine s).length ≤ s.length := by
  induction s with
  | nil => simp [dropLine]
  | cons c cs ih => simp only [dropLine]; split <;> simp <;> omega

theorem dropBlock_le : ∀ (s : Str), (dropBlock s).length ≤ s.length
  | [] => by simp [dropBlock]
  | [_] => by simp [dropBlock]
  | c :: d :: cs => by
    simp only [dropBlock]
    split
    · simp; omega
    · have := dropBlock_le (d :: cs); simp at this ⊢; omega

/-- `Lexer.skip()`: whitespace and comments -/
def skip (s : Str) : Str :=
  match s with
  | [] => []
  | c :: cs =>
    if Py.isSpace c then skip cs
    else if c = 47 then
      match cs with
      | 47 :: r => skip (dropLine r)              -- `//` to the end of the line
      | 42 :: r => skip (dropBlock r)             -- `/* ... */`
      | _ => c :: cs
    else c :: cs
termination_by s.length
decreasing_by
  all_goals simp_wf
  all_goals first
    | omega
    | (have h1 := dropLine_le r; omega)
    | (have h1 := dropBlock_le r; omega)

def takeWhileN (p : Nat → Bool) : Str → Nat
  | [] => 0
  | c :: cs => if p c then takeWhileN p cs + 1 else 0

/-- `read_int`: length of the integer token that starts at the (digit) head of `s` -/
def readIntLen (s : Str) : Nat :=
  match s with
  | 48 :: p :: rest =>
    if p = 98 ∨ p = 111 ∨ p = 120 ∨ p = 66 ∨ p = 79 ∨ p = 88 then
      -- "0x" / "0b" / "0o": hex digits are all ASCII letters and digits (sic), others decimal digits
      2 + takeWhileN (fun c => if p = 120 ∨ p = 88 then isDigit c || isAlpha c else isDigit c) rest
    else 1 + takeWhileN isDigit (p :: rest)
  | _ :: rest => 1 + takeWhileN isDigit rest
  | [] => 0

def NAMED : List Str := ["rt", "fp", "sp", "pc_ret", "fp_alt"].map Str.ofString

/-- `utils.is_register` -/
def isRegister (s : Str) : Bool :=
  (match s with
   | c :: rest => (c = 114 ∨ c = 82) && !rest.isEmpty && rest.all isDigit
   | [] => false) || NAMED.contains (Cli.lower s)

/-- the character-literal variant of `consume_delimited` (delimiter `'`): value and rest after the closing quote -/
def readCharBody : Nat → Str → Str → Option (Str × Str)
  | 0, _, _ => none
  | _ + 1, [], _ => none
  | fuel + 1, c :: rest, acc =>
    if c = 39 then some (acc, rest)
    else if c = 92 then
      match rest with
      | [] => none
      | p :: rest1 =>
        if p = 120 then
          match rest1 with
          | h1 :: h2 :: rest3 =>
            if StrLit.isHex h1 && StrLit.isHex h2 then readCharBody fuel rest3 (acc ++ [StrLit.hexVal h1 * 16 + StrLit.hexVal h2])
            else readCharBody fuel rest1 (acc ++ [120])
          | _ => readCharBody fuel rest1 (acc ++ [120])
        else if StrLit.isDigit p then
          match rest1 with
          | d2 :: rest2 =>
            if StrLit.isDigit d2 then
              match rest2 with
              | d3 :: rest3 =>
                if StrLit.isDigit d3 then
                  (if StrLit.isOct p && StrLit.isOct d2 && StrLit.isOct d3 then
                     readCharBody fuel rest3 (acc ++ [(p - 48) * 64 + (d2 - 48) * 8 + (d3 - 48)])
                   else readCharBody fuel rest1 (acc ++ [p]))
                else
                  (if StrLit.isOct p && StrLit.isOct d2 then readCharBody fuel rest2 (acc ++ [(p - 48) * 8 + (d2 - 48)])
                   else readCharBody fuel rest1 (acc ++ [p]))
              | [] =>
                (if StrLit.isOct p && StrLit.isOct d2 then readCharBody fuel rest2 (acc ++ [(p - 48) * 8 + (d2 - 48)])
                 else readCharBody fuel rest1 (acc ++ [p]))
            else (if StrLit.isOct p then readCharBody fuel rest1 (acc ++ [p - 48]) else readCharBody fuel rest1 (acc ++ [p]))
          | [] => (if StrLit.isOct p then readCharBody fuel rest1 (acc ++ [p - 48]) else readCharBody fuel rest1 (acc ++ [p]))
        else if p = 110 then readCharBody fuel rest1 (acc ++ [10])
        else if p = 116 then readCharBody fuel rest1 (acc ++ [9])
        else if p = 92 then readCharBody fuel rest1 (acc ++ [92])
        else if p = 34 then readCharBody fuel rest1 (acc ++ [34])
        else readCharBody fuel rest1 (acc ++ [92, p])
    else readCharBody fuel rest (acc ++ [c])

def startsWith (s p : Str) : Bool := p.isPrefixOf s

/-- a symbol or register name starting at the head of `s` -/
def symTok (s : Str) (off : Nat) : Token × Str :=
  let n := 1 + takeWhileN isSymChar s.tail
  let v := s.take n
  (⟨if isRegister v then .register else .symbol, v, off⟩, s.drop n)

def intTok (s : Str) (off : Nat) : Token × Str :=
  let n := readIntLen s
  (⟨.int, s.take n, off⟩, s.drop n)

/-- `consume_str`: `cs` is the text after the opening quote -/
def strTok (cs : Str) (off : Nat) : Token × Str :=
  match StrLit.readBody (cs.length + 1) cs [] 0 with
  | some r => (⟨.string, r.value, off⟩, r.rest)
  | none => (⟨.error, Str.ofString "unclosed string literal", off⟩, [])

/-- `consume_char` -/
def charTok (cs : Str) (off : Nat) : Token × Str :=
  match readCharBody (cs.length + 1) cs [] with
  | some (v, rest) =>
    (match v with
     | [x] => (⟨.char, [x], off⟩, rest)
     | [92, x] => (⟨.char, [x], off⟩, rest)
     | _ => (⟨.error, Str.ofString "over-long character literal", off⟩, rest))
  | none => (⟨.error, Str.ofString "unclosed character literal", off⟩, [])

/-- `consume_bracketed`: `cs` is the text after `<`; the location is that of its first character -/
def bracketTok (cs : Str) (off : Nat) : Token × Str :=
  let inner := cs.takeWhile (· != 62)
  match cs.drop inner.length with
  | _ :: rest' => (⟨.bracketed, inner, off + 1⟩, rest')
  | [] => (⟨.error, Str.ofString "unclosed bracketed expression", off + 1⟩, [])

/-- `:fmt`: `cs` is the text after the colon; at least one character belongs to the token, whatever it is -/
def fmtTok (cs : Str) (off : Nat) : Token × Str :=
  match cs with
  | [] => (⟨.fmt, [], off + 1⟩, [])
  | _ :: cs' =>
    let n := 1 + takeWhileN isSymChar cs'
    (⟨.fmt, cs.take n, off + 1⟩, cs.drop n)

def punctKind (c : Nat) : Kind :=
  if c = 45 then .minus else if c = 43 then .plus else if c = 47 then .slash else if c = 42 then .asterisk
  else if c = 64 then .at else if c = 40 then .lparen else if c = 41 then .rparen else if c = 123 then .lbrace
  else if c = 125 then .rbrace else if c = 44 then .comma else if c = 59 then .semicolon else .unknown

/-- `next_token` after `skip`: the token at the head of `s` (which is not whitespace or a comment) and the rest.
    `off` = offset of `s` in the text. -/
def tokenAt (s : Str) (off : Nat) : Token × Str :=
  match s with
  | [] => (⟨.eof, [], off⟩, [])
  | c :: cs =>
    if isAlpha c || c == 95 then symTok (c :: cs) off
    else if isDigit c then intTok (c :: cs) off
    else if c = 34 then strTok cs off
    else if c = 39 then charTok cs off
    else if startsWith (c :: cs) (Str.ofString "#include") then (⟨.include, (c :: cs).take 8, off⟩, (c :: cs).drop 8)
    else if c = 60 then bracketTok cs off
    else if c = 58 then fmtTok cs off
    else (⟨punctKind c, [c], off⟩, cs)

/-- the token stream: `skip`, then a token, until EOF. `total` = length of the whole text (offsets count from its start).
    The fuel never runs out when it exceeds the length of the text (`Props/C07`). -/
def lexGo (total : Nat) : Nat → Str → List Token
  | 0, _ => []
  | fuel + 1, s =>
    let s' := skip s
    let r := tokenAt s' (total - s'.length)
    if r.1.kind = .eof then [r.1] else r.1 :: lexGo total fuel r.2

/-- all tokens of a text, the final EOF included -/
def lexAll (text : Str) : List Token := lexGo text.length (text.length + 1) text

end Lex
end Hera
