import HeraModel.Model.Lexer
import HeraModel.Model.Enc
/-
  Hand model of hera/parser.py (class `Parser`): `match_program`, `match_op`, `match_optional_arglist`, `match_value`,
  `match_int`, `match_include` (up to the point where a file would be read), `handle_cpp_boilerplate`, `expect`,
  `skip_until`, over the token list of the lexer model. The parser's loops are written with a checked decrease: a
  recursive call is made only on a strictly shorter token list, otherwise the result carries the marker `stuck` - which
  the real parser never produces, so the correspondence shows it, and `Props/C07c` proves it unreachable. Hence the
  model is total by construction and the parser's progress argument is a theorem.
-/
namespace Hera
namespace Parse
open Lex

structure Msgs where
  errors : List (String × Nat) := []
  warnings : List (String × Nat) := []
  stuck : Bool := false
deriving Repr, DecidableEq, Inhabited

def Msgs.err (m : Msgs) (s : String) (off : Nat) : Msgs := { m with errors := m.errors ++ [(s, off)] }
def Msgs.warn (m : Msgs) (s : String) (off : Nat) : Msgs := { m with warnings := m.warnings ++ [(s, off)] }

/-- a parsed operation: the name token's text, the argument tokens, the name token's offset -/
structure POp where
  name : Str
  args : List Tok
  off : Nat
deriving Repr, DecidableEq, Inhabited

inductive Item where
  | op (o : POp)
  | incStr (path : Str) (off : Nat)        -- `#include "path"`: the file system decides what it contributes
  | incAngle (name : Str) (off : Nat)      -- `#include <name>`
deriving Repr, DecidableEq, Inhabited

def eofTok : Token := ⟨.eof, [], 0⟩
/-- `self.lexer.tkn` -/
def cur (ts : List Token) : Token := ts.headD eofTok
def atEnd (ts : List Token) : Bool := (cur ts).kind == .eof
/-- `self.lexer.next_token()`: at the end of the text the lexer keeps returning EOF -/
def next (ts : List Token) : List Token := if atEnd ts then ts else ts.tail

/-- `expect(types, msg)` -/
def expect (types : List Kind) (msg : String) (ts : List Token) (m : Msgs) : Bool × Msgs :=
  let t := cur ts
  if types.contains t.kind then (true, m)
  else if t.kind == .eof then (false, m.err "premature end of input" t.off)
  else if t.kind == .error then (false, m.err (Str.toString t.value) t.off)
  else (false, m.err msg t.off)

/-- `skip_until(types)` (EOF always stops it) -/
def skipUntil (types : List Kind) : List Token → List Token
  | [] => []
  | t :: rest => if types.contains t.kind || t.kind == .eof then t :: rest else skipUntil types rest

def isOct (c : Nat) : Bool := decide (48 ≤ c) && decide (c ≤ 55)
def isHex (c : Nat) : Bool := isDigit c || (decide (65 ≤ c) && decide (c ≤ 70)) || (decide (97 ≤ c) && decide (c ≤ 102))

/-- `int(value, base=8 if it starts with 0 and a digit else 0)` on the text of an INT token; `none` = ValueError (which
    includes a decimal literal of more than 4300 digits) -/
def intValue (s : Str) : Option Int :=
  match s with
  | 48 :: d :: _ =>
    if isDigit d then (if s.all isOct then Py.parseInt s 8 else none)
    else Py.parseInt s 0
  | _ => if s.length > 4300 then none else Py.parseInt s 0

def zeroPrefixed (s : Str) : Bool :=
  match s with
  | 48 :: d :: _ => isDigit d
  | _ => false

/-- `match_int` on the current token -/
def matchInt (t : Token) (warnOctal : Bool) (m : Msgs) : Int × Msgs :=
  let m := if zeroPrefixed t.value && warnOctal then m.warn "consider using \"0o\" prefix for octal numbers" t.off else m
  match intValue t.value with
  | some v => (v, m)
  | none => (1, m.err "invalid integer literal" t.off)

def valueKinds : List Kind := [.int, .register, .symbol, .string, .char, .minus]

/-- `match_value`: the value, the token list afterwards (only a minus sign is consumed), the messages -/
def matchValue (ts : List Token) (warnOctal : Bool) (m : Msgs) : Option Tok × List Token × Msgs :=
  let t := cur ts
  match t.kind with
  | .int => let (v, m) := matchInt t warnOctal m; (some (.int v), ts, m)
  | .char => (some (.int (t.value.headD 0)), ts, m)
  | .register =>
    (match Cli.registerToIndex t.value with
     | some i => (some (.reg i), ts, m)
     | none => (some (.reg 0), ts, m.err (Str.toString t.value ++ " is not a valid register") t.off))
  | .minus =>
    let ts1 := next ts
    let (ok, m) := expect [.int] "expected integer" ts1 m
    if ok then let (v, m) := matchInt (cur ts1) warnOctal m; (some (.int (-v)), ts1, m)
    else (none, ts1, m)
  | .string => (some (.str t.value), ts, m)
  | _ => (some (.sym t.value), ts, m)

theorem skipUntil_le (types : List Kind) : ∀ ts, (skipUntil types ts).length ≤ ts.length
  | [] => by simp [skipUntil]
  | t :: rest => by
    simp only [skipUntil]
    split
    · simp
    · have := skipUntil_le types rest
      simp
      omega

/-- one iteration of the loop of `match_optional_arglist`: either the loop ends (arguments, error flag, tokens at the
    right parenthesis or at EOF, messages) or it goes round again on the given tokens -/
inductive ArgStep where
  | done (args : List Tok) (hit : Bool) (ts : List Token) (m : Msgs)
  | again (args : List Tok) (hit : Bool) (ts : List Token) (m : Msgs)

def argStep (warnOctal : Bool) (ts : List Token) (args : List Tok) (hit : Bool) (m : Msgs) : ArgStep :=
  let (ok, m) := expect valueKinds "expected value" ts m
  let r : Option Tok × List Token × Msgs := if ok then matchValue ts warnOctal m else (none, ts, m)
  match r with
  | (none, ts0, m) =>
    let ts1 := skipUntil [.comma, .rparen] ts0
    if (cur ts1).kind == .comma then .again args true (next ts1) m
    else .done args true ts1 m
  | (some v, ts0, m) =>
    let args := args ++ [v]
    let ts1 := next ts0
    if (cur ts1).kind == .rparen then .done args hit ts1 m
    else if (cur ts1).kind != .comma then
      let m := m.err "expected comma or right parenthesis" (cur ts1).off
      let ts2 := skipUntil [.comma, .rparen] ts1
      if (cur ts2).kind == .eof || (cur ts2).kind == .rparen then .done args true ts2 m
      else .again args true ts2 m
    else .again args hit (next ts1) m

/-- the loop of `match_optional_arglist` (entered when the current token is not the right parenthesis) -/
def argLoop (warnOctal : Bool) (ts : List Token) (args : List Tok) (hit : Bool) (m : Msgs) :
    List Tok × Bool × List Token × Msgs :=
  match argStep warnOctal ts args hit m with
  | .done args hit ts' m => (args, hit, ts', m)
  | .again args hit ts' m =>
    if h : ts'.length < ts.length then argLoop warnOctal ts' args hit m
    else (args, hit, ts', { m with stuck := true })
termination_by ts.length

/-- `match_optional_arglist`: `none` when the argument list could not be parsed -/
def matchArglist (warnOctal : Bool) (ts : List Token) (m : Msgs) : Option (List Tok) × List Token × Msgs :=
  if (cur ts).kind == .rparen then (some [], ts, m)
  else
    let (args, hit, ts', m) := argLoop warnOctal ts [] false m
    (if hit then none else some args, ts', m)

def knownName (name : Str) : Bool := nameToClass.any (fun p => Str.ofString p.1 == name)

/-- `match_op`, the current token being the left parenthesis -/
def matchOp (warnOctal : Bool) (nameTok : Token) (ts : List Token) (m : Msgs) : Option POp × List Token × Msgs :=
  let ts1 := next ts
  let (args, ts2, m) := matchArglist warnOctal ts1 m
  let ts3 := next ts2
  match args with
  | none => (none, ts3, m)
  | some a =>
    if knownName nameTok.value then (some ⟨nameTok.value, a, nameTok.off⟩, ts3, m)
    else (none, ts3, m.err ("unknown instruction `" ++ Str.toString nameTok.value ++ "`") nameTok.off)

def tigerLibs : List Str := ["Tiger-stdlib-stack-data.hera", "Tiger-stdlib-stack.hera", "Tiger-stdlib-reg-data.hera",
  "Tiger-stdlib-reg.hera"].map Str.ofString

/-- `match_include`, the current token being `#include` -/
def matchInclude (ts : List Token) (m : Msgs) : List Item × List Token × Msgs :=
  let ts1 := next ts
  let t := cur ts1
  let (ok, m) := expect [.string, .bracketed] "expected quote or angle-bracket delimited string" ts1 m
  if !ok then ([], next ts1, m)
  else
    let ts2 := next ts1
    -- what the file system contributes is outside the model: a quoted include and an unknown library stand as an item and
    -- as the placeholder message that the harness normalises every failing include to
    if t.kind == .string then ([.incStr t.value t.off], ts2, m.err "<include>" t.off)
    else if t.value == Str.ofString "HERA.h" then ([], ts2, m.warn "#include <HERA.h> is not necessary for hera-py" t.off)
    else if tigerLibs.contains t.value then ([.incAngle t.value t.off], ts2, m)
    else ([.incAngle t.value t.off], ts2, m.err "<include>" t.off)

/-- `handle_cpp_boilerplate` (`void HERA_main() {`), the current token being the symbol after `void` -/
def cppBoilerplate (ts : List Token) (m : Msgs) : List Token × Msgs :=
  let ts1 := next ts
  let (ok1, m) := expect [.lparen] "expected left parenthesis" ts1 m
  let ts2 := if ok1 then next ts1 else ts1
  let (ok2, m) := expect [.rparen] "expected right parenthesis" ts2 m
  let ts3 := if ok2 then next ts2 else ts2
  let (_, m) := expect [.lbrace] "expected left curly brace" ts3 m
  (next ts3, m)

def voidName : Str := Str.ofString "void"

/-- one iteration of the loop of `match_program` (the current token is not EOF): the items it adds, the tokens
    afterwards, the brace flag, the messages -/
def progStep (warnOctal : Bool) (ts : List Token) (brace : Bool) (m : Msgs) : List Item × List Token × Bool × Msgs :=
  let (ok, m) := expect [.include, .symbol, .rbrace] "expected HERA operation or #include" ts m
  if !ok then ([], skipUntil [.include, .symbol] ts, brace, m)
  else if (cur ts).kind == .include then
    let (items, ts', m) := matchInclude ts m
    (items, ts', brace, m)
  else if (cur ts).kind == .symbol then
    let nameTok := cur ts
    let ts1 := next ts
    if (cur ts1).kind == .symbol && nameTok.value == voidName then
      let (ts', m) := cppBoilerplate ts1 m
      ([], ts', true, m)
    else if (cur ts1).kind == .lparen then
      let (op, ts2, m) := matchOp warnOctal nameTok ts1 m
      let ts3 := if (cur ts2).kind == .semicolon then next ts2 else ts2
      ((match op with | some o => [.op o] | none => []), ts3, brace, m)
    else ([], ts1, brace, m.err "expected left parenthesis" (cur ts1).off)
  else
    -- a right brace
    let m := if brace then m else m.err "unexpected right brace" (cur ts).off
    ([], next ts, false, m)

/-- the loop of `match_program` -/
def progLoop (warnOctal : Bool) (ts : List Token) (brace : Bool) (acc : List Item) (m : Msgs) : List Item × Msgs :=
  if atEnd ts then (acc, m)
  else
    match progStep warnOctal ts brace m with
    | (items, ts', brace', m') =>
      if h : ts'.length < ts.length then progLoop warnOctal ts' brace' (acc ++ items) m'
      else (acc ++ items, { m' with stuck := true })
termination_by ts.length

/-- `Parser.match_program` on the tokens of a text -/
def parseTokens (warnOctal : Bool) (ts : List Token) : List Item × Msgs := progLoop warnOctal ts false [] {}

/-- the parser on a text (after conditional compilation): lexer model, then `match_program` -/
def parseText (warnOctal : Bool) (text : Str) : List Item × Msgs := parseTokens warnOctal (lexAll text)

end Parse
end Hera
