import HeraModel.Generated.Exec
import HeraModel.Model.Run
import HeraModel.Model.Cli
/-
  Hand model of hera/checker.py and of the per-operation type checking in hera/op.py
  (`AbstractOperation.typecheck`, `check_arglist` and friends, `OPCODE.typecheck`).

  The operand signatures `Cls.P`, the class-hierarchy flags and `convert` are regenerated from
  the source; this file mirrors the control flow of the checker function by function.
  Diagnostics are kept as (message, location id); warnings are kept separately.
-/
namespace Hera
namespace Chk

/-- value of a symbol-table entry (`Label`, `DataLabel`, `Constant` are `int` subclasses) -/
inductive SymVal where
  | label (v : Int)
  | dlabel (v : Int)
  | const (v : Int)
deriving Repr, DecidableEq, Inhabited

def SymVal.val : SymVal → Int
  | .label v | .dlabel v | .const v => v

/-- Python dict keyed by `op.args[0]` (a str for well-formed programs, possibly an int otherwise) -/
abbrev SymTab := List (Val × SymVal)

def SymTab.get? (t : SymTab) (k : Val) : Option SymVal := (t.find? (fun p => p.1 == k)).map (·.2)
/-- `d[k] = v` (the latest assignment wins; position of an existing key is kept) -/
def SymTab.set (t : SymTab) (k : Val) (v : SymVal) : SymTab :=
  if t.any (fun p => p.1 == k) then t.map (fun p => if p.1 == k then (k, v) else p) else t ++ [(k, v)]

/-- a source operation as the parser builds it -/
structure SOp where
  cls : Cls
  toks : List Tok
  loc : Int := -1
deriving Repr, DecidableEq, Inhabited

def SOp.args (op : SOp) : List Val := op.toks.map Tok.val

inductive Mode where | run | debug | assemble | preprocess
deriving Repr, DecidableEq, Inhabited

structure CSettings where
  mode : Mode := .run
  allow_interrupts : Bool := false
  no_debug_ops : Bool := false
  data_start : Int := 0xC001
deriving Repr, DecidableEq, Inhabited

/-- diagnostics: message text and location id -/
structure Msgs where
  errors : List (String × Int) := []
  warnings : List (String × Int) := []
deriving Repr, DecidableEq, Inhabited

def Msgs.err (m : Msgs) (s : String) (loc : Int) : Msgs := { m with errors := m.errors ++ [(s, loc)] }
def Msgs.warn (m : Msgs) (s : String) (loc : Int) : Msgs := { m with warnings := m.warnings ++ [(s, loc)] }
def Msgs.extend (m n : Msgs) : Msgs := { errors := m.errors ++ n.errors, warnings := m.warnings ++ n.warnings }

def isSym : Tok → Bool | .sym _ => true | _ => false
def isInt : Tok → Bool | .int _ => true | _ => false
def isStr : Tok → Bool | .str _ => true | _ => false

/-- `utils.out_of_range` -/
def outOfRange (n : Int) : Bool := decide (n < -32768) || decide (n ≥ 65536)

/-! ### op.py: check_arglist and friends (return `none` = no error) -/

def checkRegister (t : Tok) : Option String :=
  match t with
  | .reg _ => none
  | .sym s => if Cli.lower s == Str.ofString "pc" then some "program counter cannot be accessed or changed directly" else some "expected register"
  | .str s => if Cli.lower s == Str.ofString "pc" then some "program counter cannot be accessed or changed directly" else some "expected register"
  | _ => some "expected register"

def checkRegisterOrLabel (t : Tok) (tab : SymTab) : Option String :=
  match t with
  | .reg _ => none
  | .sym s =>
    match tab.get? (.str s) with
    | none => some "undefined symbol"
    | some (.const _) => some "constant cannot be used as label"
    | some (.dlabel _) => some "data label cannot be used as branch label"
    | some (.label _) => none
  | _ => some "expected register or label"

def checkLabel (t : Tok) : Option String := if isSym t then none else some "expected label"
def checkString (t : Tok) : Option String := if isStr t then none else some "expected string literal"

def rangeMsg (lo hi : Int) : String := s!"integer must be in range [{lo}, {hi})"

def checkInRange (t : Tok) (tab : SymTab) (lo hi : Int) (labels : Bool) : Option String :=
  let inRange (v : Int) : Option String := if v < lo ∨ v ≥ hi then some (rangeMsg lo hi) else none
  match t with
  | .sym s =>
    match tab.get? (.str s) with
    | none => some "undefined constant"
    | some sv =>
      match sv with
      | .const v => inRange v
      | .label v => if labels then none else some "cannot use label as constant"
      | .dlabel v => if labels then inRange v else some "cannot use label as constant"
  | .int v => inRange v
  | _ => some "expected integer"

def checkArg (p : PTy) (t : Tok) (tab : SymTab) : Option String :=
  match p with
  | .register => checkRegister t
  | .registerOrLabel => checkRegisterOrLabel t tab
  | .labelType => checkLabel t
  | .string => checkString t
  | .i16OrLabel => checkInRange t tab (-32768) 65536 true
  | .i8OrLabel => checkInRange t tab (-128) 256 true
  | .range lo hi => checkInRange t tab lo hi false

/-- location of a token: the harness gives every token of an op the op's location + its index -/
def tokLoc (opLoc : Int) (i : Nat) : Int := opLoc * 100 + (i + 1)

def checkArglist (ps : List PTy) (toks : List Tok) (tab : SymTab) (opLoc : Int) : Msgs :=
  let rec go : List PTy → List Tok → Nat → Msgs → Msgs
    | p :: ps, t :: ts, i, m =>
      go ps ts (i + 1) (match checkArg p t tab with | some e => m.err e (tokLoc opLoc i) | none => m)
    | _, _, _, m => m
  go ps toks 0 {}

/-- arity message of `AbstractOperation.typecheck` -/
def arityErrors (op : SOp) : List (String × Int) :=
  let np := op.cls.P.length
  let nt := op.toks.length
  let name := op.cls.pyName
  if np < nt then [(s!"too many args to {name} (expected {np})", op.loc)]
  else if np > nt then [(s!"too few args to {name} (expected {np})", op.loc)] else []

/-- the word that an OPCODE operand names: a literal, or a constant that is in scope -/
def opcodeWord (toks : List Tok) (tab : SymTab) : Option Int :=
  match toks with
  | [.int v] => some v
  | [.sym s] => (match tab.get? (.str s) with | some (.const v) => some v | _ => none)
  | _ => none

/-- the error `OPCODE.typecheck` may add -/
def opcodeErrors (op : SOp) (tab : SymTab) (assemblyOnly : Bool) : List (String × Int) :=
  if op.cls = .OPCODE then
    match opcodeWord op.toks tab with
    | some v =>
      match Enc.disassemble v assemblyOnly with
      | .ok _ => []
      | .error _ => if assemblyOnly then [] else [("not a HERA instruction", tokLoc op.loc 0)]
    | none => []
  else []

/-- the warnings that the `typecheck` overrides of CALL / RETURN / NOT add -/
def opWarnings (op : SOp) : List (String × Int) :=
  let name := op.cls.pyName
  if op.cls = .CALL ∨ op.cls = .RETURN then
    (match op.toks with
      | .reg r :: _ => if r ≠ 12 then [(s!"first argument to {name} should be R12", tokLoc op.loc 0)] else []
      | _ => []) ++
    (if op.cls = .RETURN then
      match op.toks with
      | _ :: .reg r :: _ => if r ≠ 13 then [("second argument to RETURN should be R13", tokLoc op.loc 1)] else []
      | _ => []
     else [])
  else if op.cls = .NOT then
    match op.toks with
    | [_, .reg r] => if r = 11 then [("don't use R11 with NOT", tokLoc op.loc 1)] else []
    | _ => []
  else []

/-- `op.typecheck(symbol_table, assembly_only=...)`: `AbstractOperation.typecheck` (arity, then `check_arglist`)
    plus the overrides (OPCODE may add an error; CALL, RETURN, NOT only warn). -/
def typecheckOp (op : SOp) (tab : SymTab) (assemblyOnly : Bool) : Msgs :=
  { errors := arityErrors op ++ (checkArglist op.cls.P op.toks tab op.loc).errors ++ opcodeErrors op tab assemblyOnly,
    warnings := opWarnings op }

/-! ### checker.py -/

def isSymbolDecl (c : Cls) : Bool := c == .CONSTANT || c == .LABEL || c == .DLABEL

def symKey (v : Val) : String := match v with
  | .str s => Str.toString s
  | .int i => toString i

/-- the symbol an operation declares, as far as `check_symbol_redeclaration` is concerned: CONSTANT / LABEL / DLABEL
    with a first operand that is a `str` (anything else is left to the operation's own type check) -/
def declKey (op : SOp) : Option Val :=
  if isSymbolDecl op.cls then
    match op.args with
    | (.str s) :: _ => some (.str s)
    | _ => none
  else none

/-- `check_symbol_redeclaration` -/
def checkSymbolRedeclaration (prog : List SOp) : Msgs :=
  let rec go : List SOp → List Val → Msgs → Msgs
    | [], _, m => m
    | op :: rest, seen, m =>
      match declKey op with
      | some k =>
        if seen.contains k then go rest seen (m.err s!"symbol `{symKey k}` has already been defined" op.loc)
        else go rest (k :: seen) m
      | none => go rest seen m
  go prog [] {}

/-- `operation_length` (hand model; corresponded exhaustively over class x token-kind tuples) -/
def operationLength (op : SOp) : Int :=
  if op.cls.isRegisterBranch then
    match op.toks with
    | [t] => if isSym t then 3 else 1
    | _ => 1
  else if op.cls = .SET then 2
  else if op.cls = .CMP then 2
  else if op.cls = .SETRF then 4
  else if op.cls = .FLAGS then 2
  else if op.cls = .CALL then
    match op.toks with
    | [_, t] => if t.isReg then 1 else 3
    | _ => 1
  else if op.cls = .NEG then 2
  else if op.cls = .NOT then 3
  else 1

def isDebugSkipped (st : CSettings) (c : Cls) : Bool :=
  (st.mode == .assemble || st.mode == .preprocess) && c.isDebuggingOp

structure LabelState where
  tab : SymTab := []
  consts : List (Val × Int) := []
  pc : Int := 0
  dc : Int
  msgs : Msgs := {}

/-- one iteration of the loop of `get_labels`, before the end-of-memory test: the new state, and whether the iteration
    ended with `continue` -/
def labelCore (st : CSettings) (s : LabelState) (op : SOp) : LabelState × Bool :=
  let args := op.args
  if op.cls = .LABEL then
    (match args with
     | [k] =>
       if outOfRange s.pc then
         { s with tab := s.tab.set k (.label 0), msgs := s.msgs.err "label is past the end of the 16-bit address space" op.loc }
       else { s with tab := s.tab.set k (.label s.pc) }
     | _ => s, false)
  else if op.cls = .DLABEL then
    (match args with
     | [k] => { s with tab := s.tab.set k (if outOfRange s.dc then .dlabel 0 else .dlabel s.dc) }
     | _ => s, false)
  else if op.cls = .CONSTANT then
    (match args with
     | [k, .int v] => { s with consts := (k, v) :: s.consts }
     | [k, x] =>                -- `constants.get(x, x)`: the value of an already declared constant ...
       (match s.consts.find? (fun p => p.1 == x) with
        | some p => { s with consts := (k, p.2) :: s.consts }
        | none => s)            -- ... else Constant("text") raises ValueError, suppressed (numeric strings are not modelled)
     | _ => s, false)
  else if op.cls = .INTEGER then ({ s with dc := s.dc + 1 }, false)
  else if op.cls = .LP_STRING then
    (match args with | [.str x] => { s with dc := s.dc + x.length + 1 } | _ => s, false)
  else if op.cls = .DSKIP then
    (match args with
     | [.int n] => { s with dc := s.dc + n }
     | [k] => (match s.consts.find? (fun p => p.1 == k) with | some p => { s with dc := s.dc + p.2 } | none => s)
     | _ => s, false)
  else if isDebugSkipped st op.cls then (s, true)
  else ({ s with pc := s.pc + operationLength op }, false)

/-- one iteration of the loop of `get_labels` -/
def labelStep (st : CSettings) (s : LabelState) (op : SOp) : LabelState :=
  let r := labelCore st s op
  if r.2 then r.1
  else if outOfRange r.1.dc && !outOfRange s.dc then { r.1 with msgs := r.1.msgs.err "past the end of available memory" op.loc }
  else r.1

/-- `get_labels` -/
def getLabels (prog : List SOp) (st : CSettings) : SymTab × Msgs :=
  let s := prog.foldl (labelStep st) { dc := st.data_start }
  (s.tab, s.msgs)

/-- `looks_like_a_CONSTANT` and the value that `typecheck` enters for it: a literal, or the value of a constant that is
    in scope (anything else has been reported as an error and counts as 0) -/
def looksLikeConstant (op : SOp) (tab : SymTab) : Option (Val × Int) :=
  if op.cls = .CONSTANT then
    let symVal (m : Str) : Int := match tab.get? (.str m) with | some (.const v) => v | _ => 0
    match op.toks with
    | [.sym s, .int v] => some (.str s, v)
    | [.str s, .int v] => some (.str s, v)
    | [.sym s, .sym m] => some (.str s, symVal m)
    | [.str s, .sym m] => some (.str s, symVal m)
    | _ => none
  else none

def isInterrupt (op : SOp) (tab : SymTab) : Bool :=
  if op.cls = .RTI ∨ op.cls = .SWI then true
  else if op.cls = .OPCODE then
    let word : Option Int := match op.toks with
      | [.int v] => some v
      | [.sym s] => (match tab.get? (.str s) with | some (.const v) => some v | _ => none)
      | _ => none
    match word with
    | some w => (match Enc.disassemble w false with
      | .ok d => d.cls == .RTI || d.cls == .SWI
      | .error _ => false)
    | none => false
  else false

/-- one iteration of the main loop of `typecheck`: (symbol table, messages, has code been seen) -/
def tcStep (st : CSettings) (s : SymTab × Msgs × Bool) (op : SOp) : SymTab × Msgs × Bool :=
  let assemblyOnly := st.mode == .assemble
  let (tab, m, seenCode) := s
  let m := m.extend (typecheckOp op tab assemblyOnly)
  let (m, seenCode) :=
    if op.cls.isDataOp then (if seenCode then m.err "data statement after code" op.loc else m, seenCode)
    else (m, true)
  let m := if !st.allow_interrupts && isInterrupt op tab then m.err s!"hera-py does not support {op.cls.pyName}" op.loc else m
  let m := if st.no_debug_ops && op.cls.isDebuggingOp then
    m.err "debugging instructions disallowed with --no-debug-ops flag" op.loc else m
  let tab := match looksLikeConstant op tab with
    | some (k, v) => tab.set k (.const (if outOfRange v then 0 else v))
    | none => tab
  (tab, m, seenCode)

/-- `typecheck` -/
def typecheck (prog : List SOp) (st : CSettings) : SymTab × Msgs :=
  let m0 := checkSymbolRedeclaration prog
  let (tab0, lm) := getLabels prog st
  let m0 := m0.extend lm
  let (tab, m, _) := prog.foldl (tcStep st) (tab0, m0, false)
  (tab, m)

/-- `substitute_label`: every symbol token becomes the integer it stands for (KeyError cannot happen after typecheck) -/
def substituteLabel (op : SOp) (tab : SymTab) : Except PyErr SOp := do
  let toks ← op.toks.mapM (fun t => match t with
    | .sym s => (match tab.get? (.str s) with | some v => .ok (Tok.int v.val) | none => .error .KeyError)
    | t => .ok t)
  pure { op with toks := toks }

/-- a converted (real) operation together with the index of the source operation it came from -/
structure ROp where
  cls : Cls
  toks : List Tok
  loc : Int
  orig : Nat
deriving Repr, DecidableEq, Inhabited

/-- the first half of one iteration of `convert_ops`: a relative branch to a label gets its displacement (or the
    "too far" error), every other operation has its symbols substituted -/
def convStep (tab : SymTab) (pc : Int) (op : SOp) (m : Msgs) : Except PyErr (SOp × Msgs) :=
  let relLabel : Option Int :=
    if op.cls.isRelativeBranch then
      match op.toks with
      | .sym s :: _ => (match tab.get? (.str s) with
        | some (.const _) => none
        | some v => some v.val
        | none => none)
      | _ => none
    else none
  let isRelSym : Bool := op.cls.isRelativeBranch && (match op.toks with | .sym _ :: _ => true | _ => false)
  match relLabel with
  | some target =>
    let jump := target - pc
    if jump < -128 ∨ jump ≥ 128 then
      .ok (op, m.err "label is too far for a relative branch" (tokLoc op.loc 0))
    else .ok ({ op with toks := (Tok.int jump) :: op.toks.drop 1 }, m)
  | none =>
    if isRelSym && (match op.toks with | .sym s :: _ => (tab.get? (.str s)).isNone | _ => false) then .error .KeyError
    else do
      let o ← substituteLabel op tab
      pure (o, m)

def toROps (newOps : List Enc.DOp) (loc : Int) (k : Nat) : List ROp :=
  newOps.map (fun d => { cls := d.cls, toks := d.toks, loc := loc, orig := k })

/-- the loop of `convert_ops` -/
def convGo (tab : SymTab) : List SOp → Nat → Int → List ROp → Msgs → Except PyErr (List ROp × Msgs)
  | [], _, _, acc, m => .ok (acc, m)
  | op :: rest, k, pc, acc, m =>
    match convStep tab pc op m with
    | .error e => .error e
    | .ok (op', m) =>
      match Gen.convert op'.cls op'.toks with
      | .error e => .error e
      | .ok newOps =>
        convGo tab rest (k + 1) (if op.cls.isDataOp then pc else pc + newOps.length) (acc ++ toROps newOps op.loc k) m

/-- `convert_ops` -/
def convertOps (ops : List SOp) (tab : SymTab) : Except PyErr (List ROp × Msgs) :=
  convGo tab ops 0 0 [] {}

structure CProgram where
  data : List ROp := []
  code : List ROp := []
  tab : SymTab := []
deriving Repr, DecidableEq, Inhabited

/-- `check` -/
def check (ops : List SOp) (st : CSettings) : Except PyErr (CProgram × Msgs) := do
  let (tab, m) := typecheck ops st
  if !m.errors.isEmpty then pure ({}, m)
  else
    let ops' := if st.mode == .assemble || st.mode == .preprocess then ops.filter (fun o => !o.cls.isDebuggingOp) else ops
    -- indices of `orig` refer to the filtered list; the harness compares per-op structure only
    let (rops, pm) ← convertOps ops' tab
    let m := m.extend pm
    let data := rops.filter (fun r => r.cls.isDataOp)
    let code := rops.filter (fun r => !r.cls.isDataOp && !(isDebugSkipped st r.cls))
    pure ({ data, code, tab }, m)

end Chk
end Hera
