import HeraModel.VM
import HeraModel.Generated.Tables
import HeraModel.Spec.ISA
import HeraModel.Spec.Encoding
/-
  Well-formedness of the Python-level machine (property C02) and its abstraction to the
  BitVec machine of `Spec.ISA`; the map from architecture instructions to hera-py classes.
-/
namespace Hera

/-- The machine is a well-formed 16-bit HERA machine. Flags are `Bool` by typing (an
    obligation discharged by the translator's type check). -/
def WF (vm : VM) : Prop :=
  vm.registers.length = 16 ∧ (∀ r ∈ vm.registers, 0 ≤ r ∧ r < 65536) ∧
  vm.registers[0]? = some 0 ∧
  vm.memory.length ≤ 65536 ∧ (∀ c ∈ vm.memory, 0 ≤ c ∧ c < 65536)

def wfb (vm : VM) : Bool :=
  vm.registers.length == 16 && vm.registers.all (fun r => decide (0 ≤ r) && decide (r < 65536)) &&
  vm.registers[0]? == some 0 &&
  decide (vm.memory.length ≤ 65536) && vm.memory.all (fun c => decide (0 ≤ c) && decide (c < 65536))

/-- register `i` as stored (0 outside the list) -/
def reg (vm : VM) (i : Nat) : Int := vm.registers.getD i 0
/-- memory cell `a` as stored (cells past the end of the lazily grown list read 0) -/
def cell (vm : VM) (a : Nat) : Int := vm.memory.getD a 0

def absFlags (vm : VM) : Spec.Flags :=
  { s := vm.flag_sign, z := vm.flag_zero, v := vm.flag_overflow, c := vm.flag_carry,
    cb := vm.flag_carry_block }

/-- Abstraction of a (well-formed) Python machine to the architecture's state. -/
def abs (vm : VM) : Spec.State :=
  { regs := fun i => BitVec.ofInt 16 (reg vm i)
    mem := fun a => BitVec.ofInt 16 (cell vm a.toNat)
    fl := absFlags vm
    pc := vm.pc
    halted := vm.halted }

open Spec in
def condCls : Cond → Cls × Cls
  | .always => (.BR, .BRR) | .l => (.BL, .BLR) | .ge => (.BGE, .BGER) | .le => (.BLE, .BLER)
  | .g => (.BG, .BGR) | .ule => (.BULE, .BULER) | .ug => (.BUG, .BUGR) | .z => (.BZ, .BZR)
  | .nz => (.BNZ, .BNZR) | .c => (.BC, .BCR) | .nc => (.BNC, .BNCR) | .s => (.BS, .BSR)
  | .ns => (.BNS, .BNSR) | .v => (.BV, .BVR) | .nv => (.BNV, .BNVR)

open Spec in
/-- The hera-py operation (class, `args`) that stands for an architecture instruction. -/
def Spec.Instr.toOp : Instr → Cls × List Val
  | .setlo d v => (.SETLO, [.int d, .int v])
  | .sethi d v => (.SETHI, [.int d, .int v])
  | .alu3 op d a b =>
    ((match op with | .and => Cls.AND | .or => .OR | .add => .ADD | .sub => .SUB | .mul => .MUL | .xor => .XOR),
     [.int d, .int a, .int b])
  | .inc d k => (.INC, [.int d, .int k])
  | .dec d k => (.DEC, [.int d, .int k])
  | .shift op d b =>
    ((match op with | .lsl => Cls.LSL | .lsr => .LSR | .lsl8 => .LSL8 | .lsr8 => .LSR8 | .asl => .ASL | .asr => .ASR),
     [.int d, .int b])
  | .savef d => (.SAVEF, [.int d])
  | .rstrf d => (.RSTRF, [.int d])
  | .fon v => (.FON, [.int v])
  | .foff v => (.FOFF, [.int v])
  | .fset5 v => (.FSET5, [.int v])
  | .fset4 v => (.FSET4, [.int v])
  | .load d o b => (.LOAD, [.int d, .int o, .int b])
  | .store d o b => (.STORE, [.int d, .int o, .int b])
  | .br c b => ((condCls c).1, [.int b])
  | .brr c o => ((condCls c).2, [.int o])
  | .call a b => (.CALL, [.int a, .int b])
  | .ret a b => (.RETURN, [.int a, .int b])

open Spec in
/-- Inverse direction, for the driver: the architecture instruction of a class + int args. -/
def Spec.Instr.ofOp (c : Cls) (args : List Int) : Option Instr :=
  let n (x : Int) : Nat := x.toNat
  match c, args with
  | .SETLO, [d, v] => some (.setlo (n d) v)
  | .SETHI, [d, v] => some (.sethi (n d) v)
  | .AND, [d, a, b] => some (.alu3 .and (n d) (n a) (n b))
  | .OR, [d, a, b] => some (.alu3 .or (n d) (n a) (n b))
  | .ADD, [d, a, b] => some (.alu3 .add (n d) (n a) (n b))
  | .SUB, [d, a, b] => some (.alu3 .sub (n d) (n a) (n b))
  | .MUL, [d, a, b] => some (.alu3 .mul (n d) (n a) (n b))
  | .XOR, [d, a, b] => some (.alu3 .xor (n d) (n a) (n b))
  | .INC, [d, k] => some (.inc (n d) k)
  | .DEC, [d, k] => some (.dec (n d) k)
  | .LSL, [d, b] => some (.shift .lsl (n d) (n b))
  | .LSR, [d, b] => some (.shift .lsr (n d) (n b))
  | .LSL8, [d, b] => some (.shift .lsl8 (n d) (n b))
  | .LSR8, [d, b] => some (.shift .lsr8 (n d) (n b))
  | .ASL, [d, b] => some (.shift .asl (n d) (n b))
  | .ASR, [d, b] => some (.shift .asr (n d) (n b))
  | .SAVEF, [d] => some (.savef (n d))
  | .RSTRF, [d] => some (.rstrf (n d))
  | .FON, [v] => some (.fon v)
  | .FOFF, [v] => some (.foff v)
  | .FSET5, [v] => some (.fset5 v)
  | .FSET4, [v] => some (.fset4 v)
  | .LOAD, [d, o, b] => some (.load (n d) o (n b))
  | .STORE, [d, o, b] => some (.store (n d) o (n b))
  | .CALL, [a, b] => some (.call (n a) (n b))
  | .RETURN, [a, b] => some (.ret (n a) (n b))
  | c, [x] =>
    let conds : List Cond := [.always, .l, .ge, .le, .g, .ule, .ug, .z, .nz, .c, .nc, .s, .ns, .v, .nv]
    match conds.find? (fun k => (condCls k).1 == c) with
    | some k => some (.br k (n x))
    | none =>
      match conds.find? (fun k => (condCls k).2 == c) with
      | some k => some (.brr k x)
      | none => none
  | _, _ => none


/-- The hera-py operation of an encodable instruction. -/
def Spec.EInstr.toOp : Spec.EInstr → Cls × List Val
  | .instr i => i.toOp
  | .swi n => (.SWI, [.int n])
  | .rti => (.RTI, [])

def Spec.EInstr.ofOp (c : Cls) (args : List Int) : Option Spec.EInstr :=
  match c, args with
  | .SWI, [n] => some (.swi n)
  | .RTI, [] => some .rti
  | c, args => (Spec.Instr.ofOp c args).map .instr

end Hera
