import HeraModel.Generated.Exec
/-
  Hand model of `VirtualMachine.run` (hera/vm.py): reset, data statements, then one of the
  two loops. The loop *guards* are regenerated from the source (`Gen.runGuard`,
  `Gen.runGuardThrottled`); the generator refuses to run if the rest of `run` no longer has
  the shape modelled here. Loops take fuel; `fetch` is Python's `program.code[self.pc]`,
  negative indices included, so a guard that lets a negative pc through is visible.
-/
namespace Hera

/-- A preprocessed operation: class, `args`, and an abstract id of its source location. -/
structure Op where
  cls : Cls
  args : List Val
  loc : Int := -1
deriving Repr, DecidableEq, Inhabited

/-- `Program(data, code, ...)` as far as execution is concerned. -/
structure Program where
  data : List Op := []
  code : List Op := []
deriving Repr, DecidableEq, Inhabited

namespace Run

/-- `op = program.code[self.pc]` -/
def fetch (p : Program) (vm : VM) : Except PyErr Op := Py.listGet p.code vm.pc

/-- loop body: fetch, set `location`, execute -/
def iter (p : Program) (vm : VM) : Except PyErr VM :=
  match fetch p vm with
  | .error e => .error e
  | .ok op =>
    match Gen.exec op.cls op.args { vm with location := op.loc } with
    | .ok (_, vm') => .ok vm'
    | .error e => .error e

/-- the unthrottled loop, at most `fuel` iterations -/
def loop (p : Program) : Nat → VM → Except PyErr VM
  | 0, vm => .ok vm
  | n + 1, vm =>
    if Gen.runGuard vm p.code.length then
      match iter p vm with
      | .ok vm' => loop p n vm'
      | .error e => .error e
    else .ok vm

/-- the throttled loop -/
def loopThrottled (p : Program) (thr : Int) : Nat → VM → Except PyErr VM
  | 0, vm => .ok vm
  | n + 1, vm =>
    if Gen.runGuardThrottled vm p.code.length thr then
      match iter p vm with
      | .ok vm' => loopThrottled p thr n { vm' with op_count := vm'.op_count + 1 }
      | .error e => .error e
    else .ok vm

/-- `for data_op in program.data: data_op.execute(self)` -/
def execData : List Op → VM → Except PyErr VM
  | [], vm => .ok vm
  | op :: rest, vm =>
    match Gen.exec op.cls op.args vm with
    | .ok (_, vm') => execData rest vm'
    | .error e => .error e

/-- `reset()` then the data statements -/
def start (p : Program) (vm : VM) : Except PyErr VM :=
  match Gen.VM.reset vm with
  | .ok (_, vm0) => execData p.data vm0
  | .error e => .error e

/-- `vm.run(program)` with at most `fuel` loop iterations -/
def run (p : Program) (fuel : Nat) (vm : VM) : Except PyErr VM :=
  match start p vm with
  | .error e => .error e
  | .ok vm0 =>
    match vm0.settings.throttle with
    | none => loop p fuel vm0
    | some thr => loopThrottled p thr fuel vm0

/-- does the loop stop within the fuel (guard false)? -/
def finished (p : Program) (vm : VM) : Bool :=
  match vm.settings.throttle with
  | none => !Gen.runGuard vm p.code.length
  | some thr => !Gen.runGuardThrottled vm p.code.length thr

end Run
end Hera
