import HeraModel.Model.Cli
/-
  Hand model of `main.parse_args`, `parse_throttle`, `short_to_long` (hera/main.py): the scan of the argument vector,
  the --help / --version / --credits rules, mode selection, the flag / mode compatibility table, and the resulting
  settings. Arguments are ASCII strings (`str.isdigit` is modelled for ASCII only).
-/
namespace Hera
namespace CliArgs

def S (s : String) : Str := Str.ofString s

/-- the value a flag carries in the `flags` dict -/
inductive FVal where
  | yes
  | num (n : Int)
  | text (s : Str)
deriving Repr, DecidableEq, Inhabited

abbrev Flags := List (Str × FVal)

def Flags.has (f : Flags) (k : Str) : Bool := f.any (·.1 == k)
def Flags.get? (f : Flags) (k : Str) : Option FVal := (f.find? (·.1 == k)).map (·.2)
/-- dict assignment: replaces the value, keeps the position of the key -/
def Flags.set (f : Flags) (k : Str) (v : FVal) : Flags :=
  if f.has k then f.map (fun p => if p.1 == k then (k, v) else p) else f ++ [(k, v)]

def FLAGS : List Str := ["--big-stack", "--code", "--credits", "--data", "--help", "--init", "--no-color", "--no-debug-ops",
  "--obfuscate", "--quiet", "--stdout", "--throttle", "--verbose", "--version", "--warn-octal-off", "--warn-return-off",
  "assemble", "debug", "disassemble", "preprocess"].map S

/-- `PICKY_FLAGS`, in dict order -/
def PICKY : List (Str × List Str) := [
  (S "--big-stack", [S "", S "debug", S "assemble"]), (S "--obfuscate", [S "preprocess"]), (S "--throttle", [S ""]),
  (S "--warn-return-off", [S "", S "debug"]), (S "--code", [S "assemble"]), (S "--data", [S "assemble"]),
  (S "--stdout", [S "assemble"]), (S "--init", [S "", S "debug"])]

structure CSettings where
  path : Str
  mode : Str
  code : Bool
  data : Bool
  data_start : Int
  no_debug_ops : Bool
  obfuscate : Bool
  stdout : Bool
  throttle : Option Int
  warn_octal_on : Bool
  warn_return_on : Bool
  volume : Nat                      -- 0 quiet, 1 normal, 2 verbose
  init : List (Int × Int)
  color : Bool
deriving Repr, DecidableEq

inductive Outcome where
  | usage (msg : Str)               -- message on stderr, exit status 1
  | info (text : Str)               -- --help / --version / --credits: text on stdout, exit status 0
  | ok (st : CSettings)
deriving Repr, DecidableEq

def shortToLong (a : Str) : Str :=
  if a = S "-h" then S "--help" else if a = S "-v" then S "--version" else if a = S "-q" then S "--quiet" else a

def isDigits (s : Str) : Bool := !s.isEmpty && s.all (fun c => decide (48 ≤ c) && decide (c ≤ 57))

/-- `parse_throttle`: a non-negative decimal integer, or the usage error -/
def parseThrottle (v : Str) : Except Str Int :=
  if isDigits v then
    match Py.parseInt v 10 with
    | some n => if n < 0 then .error (S "--throttle takes one integer argument.") else .ok n
    | none => .error (S "--throttle takes one integer argument.")
  else .error (S "--throttle takes one integer argument.")

structure Scan where
  flags : Flags := []
  pos : List Str := []
  after : Bool := false
deriving Repr, DecidableEq

def startsWith (s p : Str) : Bool := p.isPrefixOf s

/-- the `while i < len(argv)` loop; `.error msg` = `sys.exit(1)` after writing msg -/
def scan : List Str → Scan → Except Str Scan
  | [], st => .ok st
  | arg :: rest, st =>
    let a := shortToLong arg
    if a = S "--" then scan rest { st with after := true }
    else if !st.after && FLAGS.contains a then
      if a = S "--throttle" then
        match rest with
        | [] => .error (S "--throttle takes one integer argument.")
        | v :: rest' =>
          match parseThrottle v with
          | .ok n => scan rest' { st with flags := st.flags.set a (.num n) }
          | .error m => .error m
      else if a = S "--init" then
        match rest with
        | [] => .error (S "--init takes one argument.")
        | v :: rest' => scan rest' { st with flags := st.flags.set a (.text v) }
      else scan rest { st with flags := st.flags.set a .yes }
    else if !st.after && startsWith a (S "--throttle=") then
      match parseThrottle (a.drop 11) with
      | .ok n => scan rest { st with flags := st.flags.set (S "--throttle") (.num n) }
      | .error m => .error m
    else if !st.after && startsWith a (S "--init=") then
      scan rest { st with flags := st.flags.set (S "--init") (.text (a.drop 7)) }
    else if !st.after && startsWith a (S "-") && decide (a.length > 1) then
      .error (S "Unrecognized flag: " ++ arg)
    else scan rest { st with pos := st.pos ++ [a] }

def HELP1 : Str := S "hera: an interpreter for the Haverford Educational RISC Architecture."
def VERSION : Str := S "hera-py 1.0.7 for HERA version 2.4"

/-- the mode: the first of debug, assemble, preprocess, disassemble that was given, else run mode `""` -/
def modeOf (f : Flags) : Str :=
  if f.has (S "debug") then S "debug" else if f.has (S "assemble") then S "assemble"
  else if f.has (S "preprocess") then S "preprocess" else if f.has (S "disassemble") then S "disassemble" else S ""

/-- everything after the scan -/
def finish (st : Scan) : Outcome :=
  let f := st.flags
  let alone := f.length == 1 && st.pos.isEmpty
  if f.has (S "--help") then
    (if alone then .info HELP1 else .usage (S "--help may not be combined with other flags or commands."))
  else if f.has (S "--version") then
    (if alone then .info VERSION else .usage (S "--version may not be combined with other flags or commands."))
  else if f.has (S "--credits") then
    (if alone then .info VERSION else .usage (S "--credits may not be combined with other flags or commands."))
  else
    match st.pos with
    | [] => .usage (S "No file path supplied.")
    | _ :: _ :: _ => .usage (S "Too many file paths supplied.")
    | [path] =>
      let mode : Str := modeOf f
      match PICKY.find? (fun p => f.has p.1 && !p.2.contains mode) with
      | some p => .usage (p.1 ++ S " is not compatible with the chosen mode.")
      | none =>
        if f.has (S "--quiet") && f.has (S "--verbose") then .usage (S "--quiet and --verbose are incompatible.")
        else
          let init : Option (List (Int × Int)) :=
            match f.get? (S "--init") with
            | some (.text s) => Cli.parseInit s
            | _ => some []
          match init with
          | none => .usage (S "Invalid syntax for --init argument.")
          | some ini =>
            .ok { path := path, mode := mode, code := f.has (S "--code"), data := f.has (S "--data"),
                  data_start := if f.has (S "--big-stack") then 0xC167 else 0xC001,
                  no_debug_ops := f.has (S "--no-debug-ops"), obfuscate := f.has (S "--obfuscate"), stdout := f.has (S "--stdout"),
                  throttle := (match f.get? (S "--throttle") with | some (.num n) => some n | _ => none),
                  warn_octal_on := !f.has (S "--warn-octal-off"), warn_return_on := !f.has (S "--warn-return-off"),
                  volume := if f.has (S "--verbose") then 2 else if f.has (S "--quiet") then 0 else 1,
                  init := ini, color := !f.has (S "--no-color") }

/-- `parse_args(argv)` -/
def parseArgs (argv : List Str) : Outcome :=
  match scan argv {} with
  | .error m => .usage m
  | .ok st => finish st

end CliArgs
end Hera
