import HeraModel.Model.Ifdef
/-
  Locations: hand model of the lexer's line / column accounting (`Lexer.next_char`, `Lexer.__init__`'s `file_lines`),
  of `utils.align_caret`, and of `evaluate_ifdefs(text, preserve_lines=True)` as the parser calls it.
-/
namespace Hera
namespace Loc

/-- `next_char`: the position after reading `c` -/
def adv (p : Nat × Nat) (c : Nat) : Nat × Nat := if c = 10 then (p.1 + 1, 1) else (p.1, p.2 + 1)

/-- (line, column) of the lexer after it has consumed `pre`, starting from (1, 1) -/
def posAfter (pre : Str) : Nat × Nat := pre.foldl adv (1, 1)

/-- `text.split("\n")` -/
def splitLines : Str → List Str
  | [] => [[]]
  | c :: cs =>
    match splitLines cs with
    | l :: ls => if c = 10 then [] :: l :: ls else (c :: l) :: ls
    | [] => [[c]]

/-- the part of `s` before its first newline -/
def firstLine : Str → Str
  | [] => []
  | c :: cs => if c = 10 then [] else c :: firstLine cs

/-- the part of `s` after its last newline -/
def lastLine : Str → Str
  | [] => []
  | c :: cs => if (c :: cs).count 10 = 0 then c :: cs else lastLine cs

def count10 (s : Str) : Nat := s.count 10

/-- `line.rstrip("\r")` -/
def rstripCR (s : Str) : Str := (s.reverse.dropWhile (· == 13)).reverse

/-- `Lexer.file_lines` -/
def fileLines (text : Str) : List Str := (splitLines text).map rstripCR

/-- `align_caret(line, col)`: tabs are copied, everything else becomes a blank -/
def alignCaret (line : Str) (col : Nat) : Str := (line.take (col - 1)).map (fun c => if c = 9 then 9 else 32)

end Loc

namespace Ifdef

/-- a segment of the scanned text: plain text, or a directive together with the text its pattern matched -/
inductive Seg where
  | text (s : Str)
  | dir (p : Piece) (src : Str)
deriving Repr, DecidableEq

def Seg.src : Seg → Str
  | .text s => s
  | .dir _ s => s

/-- `scanGo` that also records what each directive's pattern consumed -/
def scanGoM : Nat → Str → Bool → Str → List Seg
  | 0, s, _, cur => [.text (cur.reverse ++ s)]
  | _ + 1, [], _, cur => [.text cur.reverse]
  | fuel + 1, c :: cs, atLineStart, cur =>
    match (if atLineStart then matchAt (c :: cs) else none) with
    | some (p, rest, afterNl) =>
      .text cur.reverse :: .dir p ((c :: cs).take ((c :: cs).length - rest.length)) :: scanGoM fuel rest afterNl []
    | none => scanGoM fuel cs (c == 10) (c :: cur)

def scanM (s : Str) : List Seg := scanGoM (s.length + 1) s true []

/-- what is left of stripped text when lines are preserved: its line breaks -/
def stripped (s : Str) : Str := List.replicate (s.count 10) 10

/-- the keep-stack machine with `preserve_lines=True` -/
def evalGoP : List Seg → List Bool → List Bool → Str → Str
  | [], _, _, acc => acc
  | [.text s], _, _, acc => acc ++ s
  | g :: rest, keeping, enclosing, acc =>
    let top := keeping.head?.getD true
    match g with
    | .text s => evalGoP rest keeping enclosing (if top then acc ++ s else acc ++ stripped s)
    | .dir (.ifdef w) src =>
      evalGoP rest ((top && w == Str.ofString "HERA_PY") :: keeping) (top :: enclosing) (acc ++ stripped src)
    | .dir (.ifndef w) src =>
      evalGoP rest ((top && w != Str.ofString "HERA_PY") :: keeping) (top :: enclosing) (acc ++ stripped src)
    | .dir .else_ src =>
      if keeping.length > 1 then
        evalGoP rest ((enclosing.head?.getD true && !top) :: keeping.tail) enclosing (acc ++ stripped src)
      else evalGoP rest keeping enclosing (acc ++ stripped src)
    | .dir .endif src =>
      if keeping.length > 1 then evalGoP rest keeping.tail enclosing.tail (acc ++ stripped src)
      else evalGoP rest keeping enclosing (acc ++ stripped src)
    | .dir (.text _) src => evalGoP rest keeping enclosing (acc ++ stripped src)    -- not produced by the scanner

/-- `evaluate_ifdefs(text, preserve_lines=True)` -/
def evaluateP (s : Str) : Str := evalGoP (scanM s) [true] [] []

/-- do the segments partition the text? (checked for every input of the correspondence stream) -/
def partitions (s : Str) : Bool := (scanM s).flatMap Seg.src == s

end Ifdef
end Hera
