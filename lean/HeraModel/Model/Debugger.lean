import HeraModel.Model.Run
/-
  Hand model of hera/debugger/debugger.py (`Debugger.next`, `real_ops`, `finished`, `at_breakpoint`, `reset`, `save`)
  and of the stepping / history handlers of hera/debugger/shell.py (`handle_next`, `handle_step`, `handle_continue`,
  `handle_break`, `handle_clear`, `handle_restart`, `handle_undo`, the `@mutates` decorator).

  What is *not* modelled here: Python object aliasing. `save()` is a value copy in this model; that the real snapshot
  shares no mutable structure with the live debugger is a separate obligation (`Generated/Alias.lean`, regenerated
  from the source: every attribute that is mutated in place is re-copied by `VirtualMachine.copy` / `Debugger.save`).
-/
namespace Hera
namespace Dbg

/-- the debugged program: code, and per instruction the identity of its source operation (`op.original`), whether
    that source operation is a CALL, and its source line -/
structure DProg where
  p : Program
  group : List Nat
  isCall : List Bool
  line : List Int := []
deriving Repr, Inhabited

/-- `Debugger` as far as commands can change it -/
structure State where
  vm : VM
  calls : Int := 0
  breaks : List Int := []          -- keys of the `breakpoints` dict, oldest first
deriving Repr, DecidableEq

/-- `Debugger.finished()` -/
def finished (dp : DProg) (s : State) : Bool :=
  s.vm.halted || !(decide (0 ≤ s.vm.pc) && decide (s.vm.pc < dp.p.code.length))

/-- `Debugger.at_breakpoint()` -/
def atBreak (dp : DProg) (s : State) : Bool := !finished dp s && s.breaks.contains s.vm.pc

/-- the leading operations whose source operation is `g` -/
def runOf (g : Nat) : List (Op × Nat) → List Op
  | [] => []
  | (op, x) :: xs => if x = g then op :: runOf g xs else []

/-- `real_ops()`: the instructions from `pc` to the end of the current source operation (identity of `original`):
    `end = pc; while end < len(code) and op(end) is original: end += 1; return code[pc:end]` -/
def realOps (dp : DProg) (pc : Nat) : List Op :=
  match (dp.p.code.zip dp.group).drop pc with
  | [] => []
  | (op, g) :: xs => op :: runOf g xs

/-- the `for real_op in self.real_ops()` loop: executes the slice in list order, counting CALL / RETURN -/
def execOps : List Op → State → Except PyErr State
  | [], s => .ok s
  | op :: rest, s =>
    let calls := if op.cls = .CALL then s.calls + 1 else if op.cls = .RETURN then s.calls - 1 else s.calls
    match Gen.exec op.cls op.args { s.vm with location := op.loc } with
    | .ok (_, vm') => execOps rest { s with vm := vm', calls := calls }
    | .error e => .error e

/-- `next(step=True)`, also the non-CALL branch of `next(step=False)` -/
def nextStep (dp : DProg) (s : State) : Except PyErr State :=
  if finished dp s then .ok s else execOps (realOps dp s.vm.pc.toNat) s

/-- `while cond: self.next(step=True)`; `none` = the fuel of the model ran out (the real loop would still be running) -/
def whileNext (dp : DProg) (cond : State → Bool) : Nat → State → Except PyErr (Option State)
  | 0, s => .ok (if cond s then none else some s)
  | n + 1, s =>
    if cond s then
      match nextStep dp s with
      | .ok s' => whileNext dp cond n s'
      | .error e => .error e
    else .ok (some s)

def isCallAt (dp : DProg) (s : State) : Bool := dp.isCall.getD s.vm.pc.toNat false

/-- `next(step=False)` -/
def nextOver (dp : DProg) (fuel : Nat) (s : State) : Except PyErr (Option State) :=
  if finished dp s then .ok (some s)
  else if isCallAt dp s then
    match nextStep dp s with
    | .ok s1 => whileNext dp (fun t => !finished dp t && !atBreak dp t && decide (t.calls > s.calls)) fuel s1
    | .error e => .error e
  else
    match nextStep dp s with
    | .ok s1 => .ok (some s1)
    | .error e => .error e

/-- `handle_next` with argument `n`: `for _ in range(n): if finished: break; next(step=False)` -/
def handleNext (dp : DProg) (fuel : Nat) : Nat → State → Except PyErr (Option State)
  | 0, s => .ok (some s)
  | n + 1, s =>
    if finished dp s then .ok (some s)
    else
      match nextOver dp fuel s with
      | .ok (some s') => handleNext dp fuel n s'
      | .ok none => .ok none
      | .error e => .error e

/-- `handle_step`: only on a CALL, otherwise a message and no change -/
def handleStep (dp : DProg) (s : State) : Except PyErr State :=
  if finished dp s || !isCallAt dp s then .ok s else nextStep dp s

/-- `handle_continue` -/
def handleContinue (dp : DProg) (fuel : Nat) (s : State) : Except PyErr (Option State) :=
  match nextStep dp s with
  | .ok s1 => whileNext dp (fun t => !finished dp t && !atBreak dp t) fuel s1
  | .error e => .error e

/-- `Debugger.__init__` / `Debugger.reset()` after the fix: reset the machine, forget open calls, lay out the data -/
def initial (dp : DProg) (vm : VM) : Except PyErr State :=
  match Run.start dp.p vm with
  | .ok vm0 => .ok { vm := vm0, calls := 0, breaks := [] }
  | .error e => .error e

def restart (dp : DProg) (s : State) : Except PyErr State :=
  match Run.start dp.p s.vm with
  | .ok vm0 => .ok { vm := vm0, calls := 0, breaks := s.breaks }
  | .error e => .error e

/-! ### commands and the undo history -/

inductive Cmd where
  | next (n : Int)               -- `next n` (n ≤ 0: nothing is executed)
  | step
  | cont
  | brk (pc : Int)               -- `break <location>` resolved to an instruction number
  | clear (pcs : List Int)      -- `clear <location>...` resolved to instruction numbers (one snapshot for the command)
  | clearAll
  | restart
  | assignReg (i : Nat) (v : Int) -- `Ri = <expr>` with the value of the expression
  | assignMem (addr v : Int)     -- `@<expr> = <expr>` with both values
  | assignPc (v : Int)           -- `pc = <expr>`
  | goto (pc : Int)              -- `goto <location>` resolved to an instruction number
  | flag (which : Nat) (v : Bool) -- `on` / `off` of one flag: 0 sign, 1 zero, 2 overflow, 3 carry, 4 carry-block
deriving Repr, DecidableEq, Inhabited

/-- `handle_assign` to a register: `vm.store_register(index, rhs)` - the value is stored as it is -/
def assignReg (s : State) (i : Nat) (rhs : Int) : Except PyErr State :=
  match Gen.VM.store_register (i : Int) rhs s.vm with
  | .ok (_, vm') => .ok { s with vm := vm' }
  | .error e => .error e

/-- `handle_assign` to a memory cell: `vm.store_memory(to_u16(address), to_u16(rhs))` -/
def assignMem (s : State) (addr rhs : Int) : Except PyErr State :=
  match Gen.to_u16 addr with
  | .error e => .error e
  | .ok a =>
    match Gen.to_u16 rhs with
    | .error e => .error e
    | .ok v =>
      match Gen.VM.store_memory a v s.vm with
      | .ok (_, vm') => .ok { s with vm := vm' }
      | .error e => .error e

/-- `handle_assign` to `pc`: negative values are refused ("program counter cannot be negative") -/
def assignPc (s : State) (rhs : Int) : Except PyErr State :=
  if rhs < 0 then .error .HERAError else .ok { s with vm := { s.vm with pc := rhs } }

def setBreak (s : State) (b : Int) : State := if s.breaks.contains b then s else { s with breaks := s.breaks ++ [b] }

/-- the effect of a (state-changing) command on the debugger; `none` = model fuel exhausted -/
def apply (dp : DProg) (fuel : Nat) (c : Cmd) (s : State) : Except PyErr (Option State) :=
  match c with
  | .next n => handleNext dp fuel n.toNat s
  | .step => (handleStep dp s).map some
  | .cont => handleContinue dp fuel s
  | .brk b => .ok (some (setBreak s b))
  | .clear bs => .ok (some { s with breaks := s.breaks.filter (fun b => !bs.contains b) })
  | .clearAll => .ok (some { s with breaks := [] })
  | .restart => (restart dp s).map some
  | .assignReg i v => (match assignReg s i v with | .ok s' => .ok (some s') | .error _ => .ok (some s))   -- "Eval error": no change
  | .assignMem a v => (match assignMem s a v with | .ok s' => .ok (some s') | .error _ => .ok (some s))
  | .assignPc v => (match assignPc s v with | .ok s' => .ok (some s') | .error _ => .ok (some s))
  | .goto pc => .ok (some { s with vm := { s.vm with pc := pc } })
  | .flag w v =>
    let vm := s.vm
    let vm := match w with
      | 0 => { vm with flag_sign := v }
      | 1 => { vm with flag_zero := v }
      | 2 => { vm with flag_overflow := v }
      | 3 => { vm with flag_carry := v }
      | _ => { vm with flag_carry_block := v }
    .ok (some { s with vm := vm })

/-- a sequence of commands; `none` = model fuel exhausted -/
def runCmds (dp : DProg) (fuel : Nat) : List Cmd → State → Except PyErr (Option State)
  | [], s => .ok (some s)
  | c :: cs, s =>
    match apply dp fuel c s with
    | .ok (some s') => runCmds dp fuel cs s'
    | .ok none => .ok none
    | .error e => .error e

/-- `Shell` + the linked list `Debugger.old`: the current debugger and the snapshots, newest first -/
structure Session where
  cur : State
  old : List State := []
deriving Repr, DecidableEq

/-- a `@mutates` handler: `save()`, then the handler -/
def Session.run (dp : DProg) (fuel : Nat) (c : Cmd) (σ : Session) : Except PyErr (Option Session) :=
  match apply dp fuel c σ.cur with
  | .ok (some s') => .ok (some { cur := s', old := σ.cur :: σ.old })
  | .ok none => .ok none
  | .error e => .error e

/-- `handle_undo`: `self.debugger = self.debugger.old` ("Nothing to undo." when there is no snapshot) -/
def Session.undo (σ : Session) : Session :=
  match σ.old with
  | [] => σ
  | s :: rest => { cur := s, old := rest }

/-- the line the debugger shows after a command: that of the next instruction, `none` when finished -/
def shown (dp : DProg) (s : State) : Option Int :=
  if finished dp s then none else dp.line[s.vm.pc.toNat]?

end Dbg
end Hera
