import HeraModel.PyStr
/-
  Hand model of `parser.evaluate_ifdefs` (hera/parser.py), in two stages:
   1. `scan`: the four MULTILINE regular expressions of `_ifdef_pattern` as a hand recogniser
      (leftmost match, alternatives in source order, greedy whitespace across newlines, `$` = before a newline
      or at the end) - cuts the text into chunks and directives;
   2. `evalPieces`: the keep-stack machine of `evaluate_ifdefs`.
  Stage 2 carries the C-preprocessor semantics (theorem C16_ifdef); stage 1 is corresponded with Python's `re`.
-/
namespace Hera
namespace Ifdef

inductive Piece where
  | text (s : Str)
  | ifdef (w : Str)
  | ifndef (w : Str)
  | else_
  | endif
deriving Repr, DecidableEq, Inhabited

def isSymStart (c : Nat) : Bool := (65 ≤ c && c ≤ 90) || (97 ≤ c && c ≤ 122) || c == 95
def isSymChar (c : Nat) : Bool := isSymStart c || (48 ≤ c && c ≤ 57)

def takeWhile (p : Nat → Bool) : Str → Str × Str
  | [] => ([], [])
  | c :: cs => if p c then let (a, b) := takeWhile p cs; (c :: a, b) else ([], c :: cs)

/-- does `s` start with the literal `lit`? returns the rest -/
def stripPrefix : Str → Str → Option Str
  | [], s => some s
  | _ :: _, [] => none
  | l :: ls, c :: cs => if l = c then stripPrefix ls cs else none

/-- `\s*$`: from the start of a whitespace run `ws ++ rest` (ws maximal), the match ends at the largest position that
    is the end of the text or just before a newline. Returns the number of characters of `ws` consumed. -/
def trailing (ws rest : Str) : Option Nat :=
  if rest.isEmpty then some ws.length
  else
    -- last newline inside the whitespace run
    let idxs := (List.range ws.length).filter (fun i => ws.getD i 0 == 10)
    idxs.getLast?

/-- try to match one directive at the beginning of `s` (where `^` holds). Returns the piece and the remaining text. -/
def matchAt (s : Str) : Option (Piece × Str × Bool) :=
  let (_, s1) := takeWhile Py.isSpace s
  let nlEnd (ws : Str) (n : Nat) : Bool := n > 0 && ws.getD (n - 1) 0 == 10
  let withSym (lit : String) (mk : Str → Piece) : Option (Piece × Str × Bool) :=
    match stripPrefix (Str.ofString lit) s1 with
    | none => none
    | some s2 =>
      let (ws, s3) := takeWhile Py.isSpace s2
      if ws.isEmpty then none
      else match s3 with
        | c :: _ =>
          if isSymStart c then
            let (sym, s4) := takeWhile isSymChar s3
            let (ws2, s5) := takeWhile Py.isSpace s4
            match trailing ws2 s5 with
            | some n => some (mk sym, ws2.drop n ++ s5, nlEnd ws2 n)
            | none => none
          else none
        | [] => none
  let bare (lit : String) (p : Piece) : Option (Piece × Str × Bool) :=
    match stripPrefix (Str.ofString lit) s1 with
    | none => none
    | some s2 =>
      let (ws2, s5) := takeWhile Py.isSpace s2
      match trailing ws2 s5 with
      | some n => some (p, ws2.drop n ++ s5, nlEnd ws2 n)
      | none => none
  (withSym "#ifdef" Piece.ifdef).orElse fun _ =>
  (withSym "#ifndef" Piece.ifndef).orElse fun _ =>
  (bare "#else" Piece.else_).orElse fun _ =>
  (bare "#endif" Piece.endif)

/-- `finditer`: scan left to right; `atLineStart` says whether `^` holds at the current position. -/
def scanGo : Nat → Str → Bool → Str → List Piece
  | 0, s, _, cur => [.text (cur.reverse ++ s)]
  | _ + 1, [], _, cur => [.text cur.reverse]
  | fuel + 1, c :: cs, atLineStart, cur =>
    match (if atLineStart then matchAt (c :: cs) else none) with
    | some (p, rest, afterNl) =>
      -- `^` holds at `rest` iff the match consumed a newline as its last character
      .text cur.reverse :: p :: scanGo fuel rest afterNl []
    | none => scanGo fuel cs (c == 10) (c :: cur)

def scan (s : Str) : List Piece := scanGo (s.length + 1) s true []

/-- the keep-stack machine of `evaluate_ifdefs` (after the last directive the tail is appended unconditionally) -/
def evalGo : List Piece → List Bool → List Bool → Str → Str
  | [], _, _, acc => acc
  | [.text s], _, _, acc => acc ++ s                     -- `ret.append(text[starting_at:])`
  | p :: rest, keeping, enclosing, acc =>
    let top := keeping.head?.getD true
    match p with
    | .text s => evalGo rest keeping enclosing (if top then acc ++ s else acc)
    | .ifdef w => evalGo rest ((top && w == Str.ofString "HERA_PY") :: keeping) (top :: enclosing) acc
    | .ifndef w => evalGo rest ((top && w != Str.ofString "HERA_PY") :: keeping) (top :: enclosing) acc
    | .else_ =>
      if keeping.length > 1 then
        evalGo rest ((enclosing.head?.getD true && !top) :: keeping.tail) enclosing acc
      else evalGo rest keeping enclosing acc
    | .endif =>
      if keeping.length > 1 then evalGo rest keeping.tail enclosing.tail acc
      else evalGo rest keeping enclosing acc

/-- `evaluate_ifdefs(text)` -/
def evaluate (s : Str) : Str := evalGo (scan s) [true] [] []

end Ifdef
end Hera
