import HeraModel.Spec.Expr
/-
  Hand model of hera/debugger/miniparser.py (Pratt parser over the lexer's tokens) and of `Shell.evaluate_node`
  (hera/debugger/shell.py). The parser works on the token sequence that the real lexer produces (the harness sends
  tokens), so this file contains no lexer.
-/
namespace Hera
namespace Mini

inductive Tk where
  | int (text : Str)          -- INT token, still as text: `int(value, base=0)` happens in the parser
  | reg (text : Str)
  | sym (text : Str)
  | plus | minus | star | slash | at | lparen | rparen | comma
  | fmt (text : Str)
  | eof
  | other (kind : Str)        -- anything else (STRING, CHAR, UNKNOWN, ...)
deriving DecidableEq, Repr, Inhabited

inductive Node where
  | int (v : Int)
  | reg (i : Int)
  | sym (s : Str)
  | mem (a : Node)
  | prefix (op : Str) (a : Node)      -- op is "-"
  | infix (op : Str) (l r : Node)
deriving DecidableEq, Repr, Inhabited

inductive PErr where
  | syntax (msg : String)             -- SyntaxError (a result for the shell, not a crash)
  | fuel
deriving DecidableEq, Repr, Inhabited

def prec : Tk → Option Nat
  | .plus | .minus => some 1
  | .slash | .star => some 2
  | _ => none

def opText : Tk → Str
  | .plus => [43] | .minus => [45] | .star => [42] | .slash => [47] | _ => []

def unexpected (t : Tk) : PErr :=
  match t with
  | .eof => .syntax "premature end of input"
  | .other _ => .syntax "unexpected token"
  | _ => .syntax "did not expect token in this position"

/-- the first half of `match_expr`: a prefix expression (atom, `-x`, `@x`, parenthesised expression); `sub` is the
    parser for sub-expressions at a given precedence -/
def primary (sub : Nat → List Tk → Except PErr (Node × List Tk)) (toks : List Tk) : Except PErr (Node × List Tk) :=
  match toks with
  | .at :: rest => do
    let (a, rest) ← sub 3 rest
    pure (Node.mem a, rest)
  | .int t :: rest =>
    (match Py.parseInt t 0 with
     | some v => .ok (Node.int v, rest)
     | none => .error (.syntax "invalid integer literal"))
  | .minus :: rest => do
    let (a, rest) ← sub 3 rest
    pure (Node.prefix [45] a, rest)
  | .reg t :: rest =>
    (match Cli.registerToIndex t with
     | some i => .ok (Node.reg i, rest)
     | none => .error (.syntax "not a valid register"))
  | .sym t :: rest => .ok (Node.sym t, rest)
  | .lparen :: rest => do
    let (e, rest) ← sub 0 rest
    (match rest with
     | .rparen :: rest => pure (e, rest)
     | t :: _ => throw (unexpected t)
     | [] => throw (unexpected .eof))
  | t :: _ => .error (unexpected t)
  | [] => .error (unexpected .eof)

mutual
/-- `match_expr(precedence)` -/
def matchExpr : Nat → Nat → List Tk → Except PErr (Node × List Tk)
  | 0, _, _ => .error .fuel
  | fuel + 1, p, toks => do
    let (left, rest) ← primary (matchExpr fuel) toks
    infixLoop fuel p left rest
/-- the `while infix_tkn.type in PREC_MAP and precedence < PREC_MAP[...]` loop -/
def infixLoop : Nat → Nat → Node → List Tk → Except PErr (Node × List Tk)
  | 0, _, _, _ => .error .fuel
  | fuel + 1, p, left, toks =>
    match toks with
    | t :: rest =>
      (match prec t with
       | some q =>
         if p < q then do
           let (right, rest) ← matchExpr fuel q rest
           infixLoop fuel p (Node.infix (opText t) left right) rest
         else .ok (left, toks)
       | none => .ok (left, toks))
    | [] => .ok (left, toks)
end

/-- nesting depth of an expression tree (`miniparser.is_deeper_than` counts the same way) -/
def Node.depth : Node → Nat
  | .int _ | .reg _ | .sym _ => 1
  | .mem a => a.depth + 1
  | .prefix _ a => a.depth + 1
  | .infix _ l r => max l.depth r.depth + 1

/-- `MAX_DEPTH` of hera/debugger/miniparser.py -/
def maxDepth : Nat := 100

/-- `match_exprlist` + `parse`: optional format, comma separated expressions, then EOF; trees nested deeper than
    `MAX_DEPTH` are refused (parenthesis nesting beyond Python's own recursion limit, which the real parser reports the same
    way, is not modelled) -/
def parse (toks : List Tk) : Except PErr (Str × List Node) :=
  let fuel := 4 * toks.length + 8
  let (fmtS, toks) := match toks with
    | .fmt f :: rest => (f, rest)
    | _ => ([], toks)
  let rec go : Nat → List Tk → List Node → Except PErr (List Node × List Tk)
    | 0, _, _ => .error .fuel
    | n + 1, toks, acc => do
      let (e, rest) ← matchExpr fuel 0 toks
      match rest with
      | .comma :: rest => go n rest (acc ++ [e])
      | _ => pure (acc ++ [e], rest)
  match go (toks.length + 1) toks [] with
  | .error e => .error e
  | .ok (seq, rest) =>
    match rest with
    | [.eof] | [] =>
      if seq.any (fun n => decide (n.depth > maxDepth)) then .error (.syntax "expression is too deeply nested") else .ok (fmtS, seq)
    | _ => .error (.syntax "trailing input")

/-- `Shell.evaluate_node` (HERAError messages collapsed to the specification's error kinds) -/
def evaluateNode (env : Expr.Env) : Node → Except Expr.EvalErr Int
  | .int v => if v ≥ 65536 ∨ v < -32768 then .error .literalRange else .ok v
  | .reg i => .ok (env.reg i.toNat)
  | .mem a => do
    let v ← evaluateNode env a
    -- `to_u16(address)` raises HERAError when out of range; negative values wrap
    if v ≥ 65536 ∨ v < -32768 then throw .overflow
    else pure (env.mem (if v < 0 then 65536 + v else v).toNat)
  | .sym s =>
    if Cli.lower s == Str.ofString "pc" then .ok env.pc
    else match env.sym s with | some v => .ok v | none => .error .undefined
  | .prefix _ a => do
    let v ← evaluateNode env a
    let r := -v
    if r < -32768 ∨ r ≥ 65536 then throw .overflow else pure r
  | .infix op l r => do
    let a ← evaluateNode env l
    let b ← evaluateNode env r
    let v ← (if op = [43] then pure (a + b)
             else if op = [45] then pure (a - b)
             else if op = [42] then pure (a * b)
             else if b = 0 then throw Expr.EvalErr.divZero else pure (Int.fdiv a b) : Except Expr.EvalErr Int)
    if v < -32768 ∨ v ≥ 65536 then throw .overflow else pure v

/-- the node that stands for a specification expression -/
def toNode : Expr.E → Node
  | .lit v => .int v
  | .reg i => .reg i
  | .sym s => .sym s
  | .neg e => .prefix [45] (toNode e)
  | .deref e => .mem (toNode e)
  | .bin op l r => .infix (match op with | .add => [43] | .sub => [45] | .mul => [42] | .div => [47]) (toNode l) (toNode r)

end Mini
end Hera
