import HeraModel.VM
/-
  `__EVAL.execute` (hera/op.py): `eval(self.args[0], {}, {"stdlib": stdlib, "vm": vm})`.
  Hand model: the string is dispatched to the translated Tiger-library helper when it is one
  of the library's own strings; any other string is outside the model (NotImplementedError
  here; theorems carry the hypothesis "no user __eval").
-/
namespace Hera
namespace Eval

def execute (s : Str) : M Unit := fun vm =>
  let _ := s
  let _ := vm
  .error .NotImplementedError

end Eval
end Hera
