import HeraModel.VM
import HeraModel.Generated.Tables
/-
  Hand model of the bit-pattern machinery of hera/op.py: `match_bitvector`,
  `substitute_bitvector` (+ `substitute_half_a_bitvector`) and `disassemble`.

  Patterns come verbatim from the regenerated `Cls.BITV`. Argument values are kept as an
  assignment `index ↦ value` (index = letter - 'a'), which is what Python's token list is.
  The model is compared with the real functions exhaustively on every run: all 65 536 words
  against every pattern, every in-range instruction instance, and out-of-range values.
-/
namespace Hera

/-- A token as far as operations see it. -/
inductive Tok where
  | int (v : Int)
  | reg (v : Int)
  | sym (s : Str)
  | str (s : Str)
deriving Repr, DecidableEq, Inhabited

def Tok.val : Tok → Val
  | .int v | .reg v => .int v
  | .sym s | .str s => .str s

namespace Enc

/-- `pattern.replace(" ", "")` -/
def strip (p : List Char) : List Char := p.filter (· ≠ ' ')

def isLetter (c : Char) : Bool := c.isAlpha
/-- `ord(pattern_bit.lower()) - ord("a")` -/
def idx (c : Char) : Nat := c.toLower.toNat - 97

def upd {α} (a : Nat → α) (k : Nat) (v : α) : Nat → α := fun i => if i = k then v else a i

/-- the matching loop of `match_bitvector`, most significant bit first -/
def matchGo : List Char → List Bool → (Nat → Int) → Option (Nat → Int)
  | [], _, a => some a
  | _ :: _, [], a => some a           -- zip stops at the shorter sequence
  | c :: p, b :: bs, a =>
    if c = '0' then (if b then none else matchGo p bs a)
    else if c = '1' then (if b then matchGo p bs a else none)
    else matchGo p bs (upd a (idx c) (2 * a (idx c) + (if b then 1 else 0)))

/-- the substitution loop, least significant bit first (`reversed(pattern)`), over a reversed pattern -/
def substGo : List Char → (Nat → Int) → List Bool
  | [], _ => []
  | c :: q, a =>
    if c = '0' then false :: substGo q a
    else if c = '1' then true :: substGo q a
    else (a (idx c) % 2 == 1) :: substGo q (upd a (idx c) (a (idx c) / 2))

/-- 16 binary digits of `v`, most significant first: `bin(v)[2:].rjust(16, "0")` for 0 ≤ v < 2^16 -/
def bitsOf (v : Nat) : List Bool := (List.range 16).reverse.map (fun i => v.testBit i)

/-- value of a bit list given least significant bit first -/
def valLsb : List Bool → Nat
  | [] => 0
  | b :: bs => (if b then 1 else 0) + 2 * valLsb bs

/-- highest argument index used by a pattern, plus one (= length of Python's `args`) -/
def arity (p : List Char) : Nat :=
  p.foldl (fun n c => if isLetter c then max n (idx c + 1) else n) 0

/-- is argument `k` a register (uppercase letter; the last occurrence decides, as in Python) -/
def isRegArg (p : List Char) (k : Nat) : Bool :=
  p.foldl (fun r c => if isLetter c && idx c == k then c.isUpper else r) false

/-- `match_bitvector(pattern, v)` for `0 ≤ v < 2^16`: `none` is Python's `False`. -/
def matchBitvector (pattern : List Char) (v : Nat) : Option (List Tok) :=
  let p := strip pattern
  match matchGo p (bitsOf v) (fun _ => 0) with
  | none => none
  | some a => some ((List.range (arity p)).map (fun k => if isRegArg p k then Tok.reg (a k) else Tok.int (a k)))

/-- `substitute_bitvector(pattern, args)` as `[high_byte, low_byte]`; `IndexError` when the pattern uses an
    argument the list does not have. -/
def substituteBitvector (pattern : List Char) (args : List Int) : Except PyErr (List Int) :=
  let p := strip pattern
  if arity p > args.length then .error .IndexError
  else
    let bits := substGo p.reverse (fun k => args.getD k 0)
    .ok [((valLsb (bits.drop 8) : Nat) : Int), ((valLsb (bits.take 8) : Nat) : Int)]

/-- a disassembled operation -/
structure DOp where
  cls : Cls
  toks : List Tok
deriving Repr, DecidableEq, Inhabited

/-- `cls.disassemble(*m)`: INC and DEC add one to their second argument. -/
def clsDisassemble (c : Cls) (m : List Tok) : Except PyErr DOp :=
  if c = .INC ∨ c = .DEC then
    match m with
    | [a0, .int v] => .ok ⟨c, [a0, .int (v + 1)]⟩
    | [a0, .reg v] => .ok ⟨c, [a0, .int (v + 1)]⟩
    | _ => .error .TypeError
  else .ok ⟨c, m⟩

/-- `disassemble(v, allow_unknown)` -/
def disassemble (v : Int) (allowUnknown : Bool) : Except PyErr DOp :=
  if ¬ (0 ≤ v ∧ v < 65536) then .error .HERAError
  else
    let rec go : List (String × Cls) → Except PyErr DOp
      | [] => if allowUnknown then .ok ⟨.OPCODE, [.int v]⟩ else .error .HERAError
      | (_, c) :: rest =>
        if c.BITV = [] then go rest
        else
          match matchBitvector c.BITV v.toNat with
          | some m => clsDisassemble c m
          | none => go rest
    go nameToClass

end Enc
end Hera

namespace Hera
/-- `token.type == Token.REGISTER` -/
def Tok.isReg : Tok → Bool
  | .reg _ => true
  | _ => false

/-- `token.value` used as an int (arithmetic on a str raises TypeError) -/
def Tok.ival : Tok → Except PyErr Int
  | .int v | .reg v => .ok v
  | _ => .error .TypeError
end Hera
