import HeraModel.VM
import HeraModel.Generated.Tables
import HeraModel.Model.Run
import HeraModel.Model.Checker
/-
  Line protocol between the Python harness and the model driver `herad`:
  whitespace-separated tokens, integers in decimal, lists length-prefixed.
-/
namespace Hera
namespace Proto

/-- token-stream reader -/
abbrev R (α : Type) := List String → Except String (α × List String)

instance : Monad R where
  pure a := fun ts => .ok (a, ts)
  bind x f := fun ts => match x ts with
    | .ok (a, ts') => f a ts'
    | .error e => .error e

def fail {α} (msg : String) : R α := fun _ => .error msg

def tok : R String := fun ts => match ts with
  | t :: rest => .ok (t, rest)
  | [] => .error "unexpected end of line"

def int : R Int := do
  let t ← tok
  match t.toInt? with
  | some v => pure v
  | none => fail s!"not an integer: {t}"

def nat : R Nat := do
  let v ← int
  if v < 0 then fail "negative count" else pure v.toNat

def bool : R Bool := do
  let v ← int
  pure (v != 0)

def rep {α} (n : Nat) (x : R α) : R (List α) :=
  match n with
  | 0 => pure []
  | n + 1 => do
    let a ← x
    let as ← rep n x
    pure (a :: as)

def list {α} (x : R α) : R (List α) := do
  let n ← nat
  rep n x

def str : R Str := do
  let l ← list nat
  pure l

def pair {α β} (x : R α) (y : R β) : R (α × β) := do
  let a ← x
  let b ← y
  pure (a, b)

def cls : R Cls := do
  let t ← tok
  match nameToClass.find? (fun p => p.1 == t) with
  | some p => pure p.2
  | none =>
    match Cls.all.find? (fun c => c.pyName == t) with
    | some c => pure c
    | none => fail s!"unknown class {t}"

def val : R Val := do
  let t ← tok
  if t == "I" then do
    let v ← int
    pure (.int v)
  else if t == "S" then do
    let s ← str
    pure (.str s)
  else fail s!"bad value tag {t}"

def outEvent : R OutEvent := do
  let k ← nat
  let s ← str
  if k == 0 then pure (.stdout s)
  else do
    let loc ← int
    if k == 1 then pure (.warning s loc) else pure (.error s loc)

def settings : R Settings := do
  let data_start ← int
  let warn_return_on ← bool
  let thr ← int
  let init ← list (pair int int)
  let warning_count ← int
  pure { data_start, warn_return_on, throttle := if thr < 0 then none else some thr, init, warning_count }

/-- memory: total length, then the non-zero cells as (address, value) pairs -/
def memory : R (List Int) := do
  let len ← nat
  let cells ← list (pair nat int)
  pure (cells.foldl (fun m (p : Nat × Int) => m.set p.1 p.2) (List.replicate len 0))

def vm : R VM := do
  let registers ← list int
  let pc ← int
  let dc ← int
  let flag_sign ← bool
  let flag_zero ← bool
  let flag_overflow ← bool
  let flag_carry ← bool
  let flag_carry_block ← bool
  let mem ← memory
  let input_buffer ← str
  let input_pos ← int
  let expected_returns ← list (pair int int)
  let halted ← bool
  let location ← int
  let op_count ← int
  let warned_for_SWI ← bool
  let warned_for_RTI ← bool
  let warned_for_overflow ← bool
  let warning_count ← int
  let st ← settings
  let out ← list outEvent
  pure { settings := st, registers, pc, dc, flag_sign, flag_zero, flag_overflow, flag_carry,
         flag_carry_block, memory := mem, input_buffer, input_pos, expected_returns, halted,
         location, op_count, warned_for_SWI, warned_for_RTI, warned_for_overflow,
         warning_count, out }

def op : R Op := do
  let c ← cls
  let args ← list val
  let loc ← int
  pure { cls := c, args, loc }

def program : R Program := do
  let data ← list op
  let code ← list op
  pure { data, code }

def tokR : R Tok := do
  let t ← tok
  if t == "I" then do let v ← int; pure (.int v)
  else if t == "R" then do let v ← int; pure (.reg v)
  else if t == "Y" then do let s ← str; pure (.sym s)
  else if t == "S" then do let s ← str; pure (.str s)
  else fail s!"bad token tag {t}"

def sop : R Chk.SOp := do
  let c ← cls
  let toks ← list tokR
  let loc ← int
  pure { cls := c, toks, loc }

def symVal : R Chk.SymVal := do
  let k ← nat
  let v ← int
  pure (if k == 0 then .label v else if k == 1 then .dlabel v else .const v)

def symTab : R Chk.SymTab := list (pair val symVal)

def csettings : R Chk.CSettings := do
  let m ← nat
  let ai ← bool
  let nd ← bool
  let ds ← int
  pure { mode := (if m == 0 then .run else if m == 1 then .debug else if m == 2 then .assemble else .preprocess),
         allow_interrupts := ai, no_debug_ops := nd, data_start := ds }

/-! ### writers -/

def wInt (i : Int) : String := toString i
def wBool (b : Bool) : String := if b then "1" else "0"
def wList {α} (f : α → String) (l : List α) : String :=
  String.intercalate " " (toString l.length :: l.map f)
def wStr (s : Str) : String := wList (fun (n : Nat) => toString n) s
def wPair (p : Int × Int) : String := s!"{p.1} {p.2}"

def wMemory (m : List Int) : String :=
  let nz := (m.zipIdx.filter (fun p => p.1 != 0)).map (fun p => s!"{p.2} {p.1}")
  String.intercalate " " (toString m.length :: toString nz.length :: nz)

/-- Canonical form of the output: all stdout text concatenated, then the diagnostics in order. -/
def wOut (out : List OutEvent) : String :=
  let text : Str := out.foldl (fun acc e => match e with | .stdout s => acc ++ s | _ => acc) []
  let diags := out.filterMap (fun e => match e with
    | .stdout _ => none
    | .warning s loc => some s!"1 {wStr s} {loc}"
    | .error s loc => some s!"2 {wStr s} {loc}")
  String.intercalate " " ([wStr text, toString diags.length] ++ diags)

def wSettings (s : Settings) : String :=
  String.intercalate " " [wInt s.data_start, wBool s.warn_return_on,
    (match s.throttle with | none => "-1" | some t => wInt t), wList wPair s.init, wInt s.warning_count]

def wVM (v : VM) : String :=
  String.intercalate " " [wList wInt v.registers, wInt v.pc, wInt v.dc, wBool v.flag_sign,
    wBool v.flag_zero, wBool v.flag_overflow, wBool v.flag_carry, wBool v.flag_carry_block,
    wMemory v.memory, wStr v.input_buffer, wInt v.input_pos, wList wPair v.expected_returns,
    wBool v.halted, wInt v.location, wInt v.op_count, wBool v.warned_for_SWI, wBool v.warned_for_RTI,
    wBool v.warned_for_overflow, wInt v.warning_count, wSettings v.settings, wOut v.out]

def wString (s : String) : String := wStr (Str.ofString s)
def wTokP : Tok → String
  | .int v => s!"I {v}"
  | .reg v => s!"R {v}"
  | .sym s => s!"Y {wStr s}"
  | .str s => s!"S {wStr s}"
def wVal : Val → String
  | .int v => s!"I {v}"
  | .str s => s!"S {wStr s}"
def wSymVal : Chk.SymVal → String
  | .label v => s!"0 {v}"
  | .dlabel v => s!"1 {v}"
  | .const v => s!"2 {v}"
def wMsgs (m : Chk.Msgs) : String :=
  s!"{wList (fun (p : String × Int) => wString p.1) m.errors} {wList (fun (p : String × Int) => wString p.1) m.warnings}"
def wROp (r : Chk.ROp) : String := s!"{r.cls.pyName} {wList wTokP r.toks} {r.loc}"

end Proto
end Hera
