import HeraModel.Py
import HeraModel.VM
import HeraModel.PyStr
import HeraModel.Generated.Tables
import HeraModel.Generated.Ops
import HeraModel.Generated.Exec
