import HeraModel
