import sys, io, contextlib, os, tempfile
sys.path.insert(0,'/repo')
from unittest.mock import patch
from hera.main import main
def cli(argv, stdin=""):
    out, err = io.StringIO(), io.StringIO()
    code = None
    try:
        with patch("sys.stdin", io.StringIO(stdin)), contextlib.redirect_stdout(out), contextlib.redirect_stderr(err):
            r = main(argv)
    except SystemExit as e:
        code = e.code
    except BaseException as e:
        code = "CRASH " + repr(e)
    return code, out.getvalue(), err.getvalue()
d = tempfile.mkdtemp(dir="/tmp/scratch")
def wf(name, text):
    p = os.path.join(d, name); open(p,"w").write(text); return p
p1 = wf("a.hera", "SET(R1, 5)\n")
for argv in [["--throttle=abc", p1], ["--throttle=", p1], ["--throttle", "-1", p1], ["--throttlex", p1], ["--init", "rx=5", p1], ["--init", "r0=5", p1], ["--init", "r1=-5", p1], ["--init=r1=70000", p1], ["--init", "r1", p1], ["--initx", p1],
             ["--throttle", "0", p1], ["-q", "-q", p1], ["--help", p1], ["--bogus", p1], [p1, p1], [], ["--", "--help"], ["-"], ["debug", "--throttle", "1", p1], ["preprocess", "--big-stack", p1], ["assemble", "--stdout", "--code", "--data", p1],
             [os.path.join(d,"nosuch.hera")], [d], ["disassemble", p1], ["--quiet", "--verbose", p1], ["--version", "--help"], ["assemble", "debug", p1], ["--init", "", p1], ["--init", "r1=0x10,R2=0b11;", p1], ["--init", "sp=5 FP=6 pc_ret=1", p1]]:
    c,o,e = cli(argv)
    flag = ""
    if isinstance(c,str): flag="  <<<<<"
    print(argv[:-1] if argv and argv[-1]==p1 else argv, "->", c, "| out:", repr(o[:50]), "| err:", repr(e[:70]), flag)
# preprocess roundtrip strings
p2 = wf("s.hera", 'LP_STRING("a\\x0db\\x07\\x01\\\\ \\" \\t \\n \\xff \\777 \\x7f")\nSET(R1,1)\n')
c,o,e = cli(["preprocess", p2]); print(c, o, e)
p3 = wf("i.hera", 'INC(R1,64)\nSETRF(R2, 5)\n')
c,o,e = cli(["preprocess","--obfuscate", p3]); print(c, o, e[:200])
p4 = wf("i4.hera", 'INC(R1,64)\nINTEGER(5)')
c,o,e = cli(["preprocess","--obfuscate", wf("i5.hera", 'INC(R1,64)\nDEC(R1,64)\n')]); print(c, o, e[:200])
# tiger div
p5 = wf("t.hera", '#include <Tiger-stdlib-reg-data.hera>\nCBON()\nSET(R1, -6)\nSET(R2, 2)\nMOVE(FP_alt, SP)\nCALL(FP_alt, div)\nprint_reg(R1)\nSET(R1, -7)\nSET(R2, 2)\nCALL(FP_alt, mod)\nprint_reg(R1)\nHALT()\n#include <Tiger-stdlib-reg.hera>\n')
c,o,e = cli(["-q", p5]); print(c, o, e[:300])
