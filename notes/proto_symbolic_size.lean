abbrev W := BitVec 16
structure St where
  r : Nat → W          -- registers (index < 16), r 0 = 0 maintained by write
  m : W → W
  pc : Nat
  s : Bool
  z : Bool
  v : Bool
  c : Bool
  cb : Bool
  halted : Bool

def St.setR (st : St) (d : Nat) (x : W) : St := if d = 0 then st else { st with r := fun i => if i = d then x else st.r i }
def St.setM (st : St) (a x : W) : St := { st with m := fun i => if i = a then x else st.m i }
def St.zs (st : St) (x : W) : St := { st with z := x == 0, s := x.msb }

inductive I where
  | inc (d : Nat) (k : Nat) | dec (d : Nat) (k : Nat)
  | load (d o b : Nat) | store (d o b : Nat) | ret (a b : Nat)

def step (i : I) (st : St) : St :=
  match i with
  | .inc d k => let x := st.r d + BitVec.ofNat 16 k
      let st' := (st.setR d x).zs x
      { st' with c := decide ((st.r d).toNat + k ≥ 65536), v := decide ((st.r d).toInt + k > 32767), pc := st.pc + 1 }
  | .dec d k => let x := st.r d - BitVec.ofNat 16 k
      let st' := (st.setR d x).zs x
      { st' with c := decide ((st.r d).toNat ≥ k), v := decide ((st.r d).toInt - k < -32768), pc := st.pc + 1 }
  | .load d o b => let x := st.m (st.r b + BitVec.ofNat 16 o)
      { (st.setR d x).zs x with pc := st.pc + 1 }
  | .store d o b => { st.setM (st.r b + BitVec.ofNat 16 o) (st.r d) with pc := st.pc + 1 }
  | .ret a b =>
      let st1 := { st with pc := (st.r b).toNat }
      let st2 := st1.setR b (BitVec.ofNat 16 (st.pc + 1))
      let fp := st2.r 14
      let st3 := st2.setR 14 (st2.r a)
      st3.setR a fp

def sizeCode : List I := [.inc 15 1, .store 1 4 14, .load 1 3 14, .load 1 0 1, .store 1 3 14, .load 1 4 14, .dec 15 1, .ret 12 13]

def runList : List I → St → St
  | [], st => st
  | i :: is, st => runList is (step i st)

-- size(s): arg at FP+3 is address of string; result (length) stored to FP+3; R1, SP preserved
theorem size_ok (st : St) (h0 : st.r 0 = 0)
    (hfp : ∀ k : Nat, k ≤ 4 → st.r 14 + BitVec.ofNat 16 k ≠ st.m (st.r 14 + 3)) :
    let st' := runList sizeCode st
    st'.m (st.r 14 + 3) = st.m (st.m (st.r 14 + 3)) ∧ st'.r 1 = st.r 1 ∧ st'.r 15 = st.r 15 ∧ st'.pc = (st.r 13).toNat ∧ st'.r 14 = st.r 12 := by
  simp only [sizeCode, runList, step, St.setR, St.setM, St.zs]
  simp
  trace_state
  sorry
