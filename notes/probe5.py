import sys, io, traceback, contextlib
sys.path.insert(0, '/repo')
from hera.data import Settings, Program
from hera.loader import load_program
from hera.debugger import Debugger, Shell

def mk(text, big=False, init=None):
    s = Settings(mode="debug", color=False)
    if big: s.data_start = 0xC167
    if init: s.init = init
    p = load_program(text, s)
    return Shell(Debugger(p, s), s)

def drive(text, cmds, **kw):
    sh = mk(text, **kw)
    out = io.StringIO()
    for c in cmds:
        try:
            with contextlib.redirect_stdout(out), contextlib.redirect_stderr(out):
                sh.handle_command(c)
        except BaseException as e:
            print("  CRASH on", repr(c), repr(e))
    return sh, out.getvalue()

P = 'SET(R1, 1)\nSET(R2, 2)\nADD(R3, R1, R2)\n'
for cmds in [["c","doc"],["c","step"],["c","goto 1"],["c","break 1"],["c", "list"], ["c","info"], ["print :"], ["print -5"], ["print @(0-100)"], ["@(0-3) = 5"], ["pc = 0-1", "n"], ["pc = 100", "doc"], ["pc=100","info"],
   ["r1 = 0-5","info"], ["print 1/0"], ["print 65535+1"], ["print :z 5"], ["print :l 5"], ["asm INTEGER(300)"], ["asm SET(R1,1)"], ["asm"], ["execute OPCODE(0x2200)"], ["execute HALT()", "n"], ["execute BR(R1)"], ["execute __eval(\"1/0\")"], ["dis 0x10000"], ["dis -1"], ["dis x"], ["n x"], ["n -1"], ["list x"], ["list -5"], ["undo"], ["undo x"], ["on q"], ["off"], ["clear"], ["clear 99"], ["clear x"], ["break 99"], ["break nosuch"], ["break a:b:c"], ["break :"], ["goto"], ["help zzz"], ["help"], ["info zzz"], ["info symbols"], ["xyz"], ["="], ["= 5"], ["R1 ="], ["a b = c"], ["restart x"], ["ll x"], ["s x"], ["c x"], [""], ["q"], ["print R16"], ["print r"], ["print ("], ["print )"], ["print 1 +"], ["print 1,,2"], ["print \"s\""], ["print 'a'"], ["print #include"], ["print <a>"], ["print 0x"], ["print 08"], ["print 99999999"], ["print @@1"], ["print --1"], ["print 1 2"], ["print ;"], ["print :d"],["print :x 1, 2"]]:
    sh, out = drive(P, cmds)
print("----")
# info stack with call outside program
sh,out = drive('SET(R1, 500)\nCALL(R12, R1)\nNOP()', ["n","s","info"]); print(out[-200:])
sh,out = drive('SET(R1, 500)\nCALL(R12, R1)\nNOP()', ["n","n","info"]); print(out[-200:])
