def from_u16 (n : Int) : Int := if n ≥ 32768 then -(65536 - n) else n

structure Fl where
  s : Bool
  z : Bool
  v : Bool
  c : Bool
  cb : Bool
deriving DecidableEq, Repr

-- "translated" impl
def ADD_calc (f : Fl) (left right : Int) : Fl × Int :=
  let carry : Int := if (!f.cb && f.c) then 1 else 0
  let result := (left + right + carry) % 65536
  let f := { f with c := decide (result < left + right + carry) }
  let f := { f with v := decide (from_u16 result ≠ from_u16 left + from_u16 right + carry) }
  (f, result)

-- spec on BitVec
def specAdd (a b : BitVec 16) (cin : Bool) : BitVec 16 × Bool × Bool :=
  let r := (BitVec.adc a b cin)
  (r.2, r.1, (a.msb == b.msb) && (r.2.msb != a.msb))

theorem add_refines (f : Fl) (a b : BitVec 16) :
    let cin := !f.cb && f.c
    let (f', r) := ADD_calc f (a.toNat : Int) (b.toNat : Int)
    let (sr, sc, sv) := specAdd a b cin
    r = (sr.toNat : Int) ∧ f'.c = sc ∧ f'.v = sv := by
  have ha := a.isLt
  have hb := b.isLt
  simp only [ADD_calc, specAdd, from_u16, BitVec.adc_spec, BitVec.msb_eq_decide, BitVec.toNat_add, BitVec.carry]
  rcases f with ⟨s, z, v, c, cb⟩
  cases c <;> cases cb <;> simp <;> (refine ⟨by omega, ?_⟩) <;> (rw [Bool.eq_iff_iff]; simp) <;> omega
