-- prototype: shape of generated code for ADD.execute and the C01 instance, with list registers and Except
inductive PyErr where | IndexError | HERAError | ValueError
deriving DecidableEq, Repr

structure VM where
  registers : List Int
  pc : Int
  flag_sign : Bool
  flag_zero : Bool
  flag_overflow : Bool
  flag_carry : Bool
  flag_carry_block : Bool
  memory : List Int
deriving Repr

namespace Py
def listGet (l : List Int) (i : Int) : Except PyErr Int :=
  if 0 ≤ i then (match l[i.toNat]? with | some v => .ok v | none => .error .IndexError)
  else (match l[(l.length - (-i).toNat)]? with | some v => if (-i).toNat ≤ l.length then .ok v else .error .IndexError | none => .error .IndexError)
def listSet (l : List Int) (i : Int) (v : Int) : Except PyErr (List Int) :=
  if 0 ≤ i then (if i.toNat < l.length then .ok (l.set i.toNat v) else .error .IndexError)
  else (if (-i).toNat ≤ l.length then .ok (l.set (l.length - (-i).toNat) v) else .error .IndexError)
end Py

def from_u16 (n : Int) : Int := if n ≥ 32768 then -(65536 - n) else n

-- "generated"
def VM.load_register (vm : VM) (index : Int) : Except PyErr Int := Py.listGet vm.registers index
def VM.store_register (vm : VM) (index value : Int) : Except PyErr VM :=
  if index ≠ 0 then
    match Py.listSet vm.registers index value with
    | .error e => .error e
    | .ok rs => .ok { vm with registers := rs }     -- (warning bookkeeping omitted in prototype)
  else .ok vm
def VM.set_zero_and_sign (vm : VM) (value : Int) : VM :=
  { vm with flag_zero := decide (value = 0), flag_sign := decide ((value / 32768 % 2) * 32768 ≠ 0) }

def ADD.calculate (vm : VM) (left right : Int) : VM × Int :=
  let carry : Int := if (!vm.flag_carry_block && vm.flag_carry) then 1 else 0
  let result : Int := (left + right + carry) % 65536
  let vm := { vm with flag_carry := decide (result < left + right + carry) }
  let vm := { vm with flag_overflow := decide (from_u16 result ≠ from_u16 left + from_u16 right + carry) }
  (vm, result)

def ADD.execute (a0 a1 a2 : Int) (vm : VM) : Except PyErr VM :=
  match vm.load_register a1 with
  | .error e => .error e
  | .ok left =>
  match vm.load_register a2 with
  | .error e => .error e
  | .ok right =>
  let (vm, result) := ADD.calculate vm left right
  let vm := vm.set_zero_and_sign result
  match vm.store_register a0 result with
  | .error e => .error e
  | .ok vm => .ok { vm with pc := vm.pc + 1 }

-- WF and abstraction
def WF (vm : VM) : Prop :=
  vm.registers.length = 16 ∧ (∀ r ∈ vm.registers, 0 ≤ r ∧ r < 65536) ∧ vm.registers[0]? = some 0 ∧ 0 ≤ vm.pc

def reg (vm : VM) (i : Nat) : Int := vm.registers.getD i 0

theorem load_ok (vm : VM) (h : WF vm) (i : Nat) (hi : i < 16) :
    vm.load_register (i : Int) = .ok (reg vm i) ∧ 0 ≤ reg vm i ∧ reg vm i < 65536 := by
  obtain ⟨hl, hr, _, _⟩ := h
  have hlt : i < vm.registers.length := by omega
  have hmem : vm.registers[i] ∈ vm.registers := List.getElem_mem hlt
  have := hr _ hmem
  simp [VM.load_register, Py.listGet, reg, List.getD, List.getElem?_eq_getElem hlt]
  exact this

-- spec
structure SFlags where (s z v c cb : Bool) deriving DecidableEq
def specAdd (a b : BitVec 16) (f : SFlags) : BitVec 16 × SFlags :=
  let cin := !f.cb && f.c
  let r := BitVec.adc a b cin
  (r.2, { f with c := r.1, v := (a.msb == b.msb) && (r.2.msb != a.msb), z := r.2 == 0, s := r.2.msb })

def absF (vm : VM) : SFlags := ⟨vm.flag_sign, vm.flag_zero, vm.flag_overflow, vm.flag_carry, vm.flag_carry_block⟩
def absR (vm : VM) (i : Nat) : BitVec 16 := BitVec.ofInt 16 (reg vm i)


theorem toNat_ofInt16 (x : Int) (h0 : 0 ≤ x) (h1 : x < 65536) : ((BitVec.ofInt 16 x).toNat : Int) = x := by
  simp [BitVec.toNat_ofInt]; omega

theorem store_ok (vm : VM) (h : WF vm) (d : Nat) (hd : d < 16) (v : Int) (h0 : 0 ≤ v) (h1 : v < 65536) :
    ∃ vm', vm.store_register (d : Int) v = .ok vm' ∧
      vm'.registers = (if d = 0 then vm.registers else vm.registers.set d v) ∧
      vm'.pc = vm.pc ∧ vm'.memory = vm.memory ∧ absF vm' = absF vm := by
  obtain ⟨hl, _, _, _⟩ := h
  by_cases hz : d = 0
  · subst hz; exact ⟨vm, by simp [VM.store_register], by simp, rfl, rfl, rfl⟩
  · have : (d : Int) ≠ 0 := by omega
    have hlt : d < vm.registers.length := by omega
    refine ⟨{ vm with registers := vm.registers.set d v }, ?_, by simp [hz], rfl, rfl, rfl⟩
    simp [VM.store_register, Py.listSet, hlt]
    intro h0; exact absurd h0 hz

/-- arithmetic core, as in the stand-alone prototype: Python formulas vs BitVec.adc + hardware overflow rule -/
theorem add_core (a b : BitVec 16) (c cb : Bool) :
    let carry : Int := if (!cb && c) then 1 else 0
    let result : Int := ((a.toNat : Int) + b.toNat + carry) % 65536
    let r := BitVec.adc a b (!cb && c)
    result = (r.2.toNat : Int) ∧
    decide (result < (a.toNat : Int) + b.toNat + carry) = r.1 ∧
    decide (from_u16 result ≠ from_u16 a.toNat + from_u16 b.toNat + carry) = ((a.msb == b.msb) && (r.2.msb != a.msb)) := by
  have ha := a.isLt
  have hb := b.isLt
  simp only [from_u16, BitVec.adc_spec, BitVec.msb_eq_decide, BitVec.toNat_add, BitVec.carry]
  cases c <;> cases cb <;> simp <;> (refine ⟨?_, ?_⟩) <;> (try omega) <;> (rw [Bool.eq_iff_iff]; simp) <;> omega

theorem C01_ADD (vm : VM) (h : WF vm) (d a b : Nat) (hd : d < 16) (ha : a < 16) (hb : b < 16) :
    ∃ vm', ADD.execute d a b vm = .ok vm' ∧ WF vm' ∧ vm'.pc = vm.pc + 1 ∧ vm'.memory = vm.memory ∧
      absF vm' = (specAdd (absR vm a) (absR vm b) (absF vm)).2 ∧
      (∀ i, i < 16 → absR vm' i = if i = d ∧ d ≠ 0 then (specAdd (absR vm a) (absR vm b) (absF vm)).1 else absR vm i) := by
  obtain ⟨hla, ha0, ha1⟩ := load_ok vm h a ha
  obtain ⟨hlb, hb0, hb1⟩ := load_ok vm h b hb
  -- the arithmetic core at the abstract operands
  have hA := toNat_ofInt16 _ ha0 ha1
  have hB := toNat_ofInt16 _ hb0 hb1
  have core := add_core (absR vm a) (absR vm b) vm.flag_carry vm.flag_carry_block
  simp only [absR] at core
  simp only [hA, hB] at core
  obtain ⟨hres, hcar, hov⟩ := core
  -- run the generated code
  simp only [ADD.execute, hla, hlb, ADD.calculate]
  -- intermediate machine differs from vm in flags only, so store_ok applies
  generalize hvm1 : (VM.set_zero_and_sign _ _) = vm1
  have hregs : vm1.registers = vm.registers := by subst hvm1; rfl
  have hwf1 : WF vm1 := by
    obtain ⟨h1, h2, h3, h4⟩ := h
    subst hvm1
    exact ⟨h1, h2, h3, h4⟩
  have hr0 : 0 ≤ (reg vm a + reg vm b + (if (!vm.flag_carry_block && vm.flag_carry) = true then 1 else 0)) % 65536 := by omega
  have hr1 : (reg vm a + reg vm b + (if (!vm.flag_carry_block && vm.flag_carry) = true then 1 else 0)) % 65536 < 65536 := by omega
  obtain ⟨vm2, hst, hrs, hpc, hmem, hfl⟩ := store_ok vm1 hwf1 d hd _ hr0 hr1
  rw [hst]
  refine ⟨_, rfl, ?_, ?_, ?_, ?_, ?_⟩
  all_goals sorry
