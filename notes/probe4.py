import sys, io, traceback, contextlib
sys.path.insert(0, '/repo')
from hera.data import Settings, Program
from hera.loader import load_program
from hera.vm import VirtualMachine

def prog(text, mode="", big=False):
    s = Settings(mode=mode, color=False)
    if big: s.data_start = 0xC167
    err = io.StringIO()
    try:
        with contextlib.redirect_stderr(err):
            p = load_program(text, s)
        return p, s
    except SystemExit as e:
        return "EXIT "+ err.getvalue()[:300], s
    except BaseException as e:
        return "CRASH "+ repr(e), s

def run(text, **kw):
    p, s = prog(text, **kw)
    if isinstance(p, str): print("RUN", repr(text), p); return
    s.throttle = 2000
    vm = VirtualMachine(s)
    err = io.StringIO()
    try:
        with contextlib.redirect_stderr(err):
            vm.run(p)
        print("RUN", repr(text), vm.registers[:5], "pc", vm.pc, "halted", vm.halted, "memlen", len(vm.memory), err.getvalue()[:80].replace("\n"," "))
    except BaseException as e:
        print("RUN", repr(text), "CRASH", repr(e))
run('OPCODE(0x2200)')
run('BRR(-1)')
run('SET(R1, 0xFFFF) BR(R1)')
run('NOP() NOP() BRR(-5)')
run('SET(R1,5) BRR(-2) SET(R1, 7)')
run('SET(R1,5) BRR(-4) SET(R1, 7)')
run('SET(R2, 0x8000) LSL(R1, R2) SAVEF(R3)', )
run('SET(R1, 0x4000) SETHI(R1, -1)')
run('CALL(R12, R1)')
run('RETURN(R12, R13)')
run('SET(R1, 0xFFF0) STORE(R1, 31, R1)')
run('SET(R1, 0xFFF0) STORE(R1, 31, R1) LOAD(R2, 31, R1) LOAD(R3, 15, R0)')
run('SET(R15, 0xC001)')
run('DLABEL(X) INTEGER(70000)')
run('DSKIP(0xFFFF) INTEGER(5)')
run('DSKIP(0x3FFE) INTEGER(5) DLABEL(z) SET(R1, z)')
