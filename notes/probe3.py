import sys, io, traceback, contextlib
sys.path.insert(0, '/repo')
from hera.data import Settings
from hera.loader import load_program
from hera.vm import VirtualMachine
from hera.assembler import assemble

def prog(text, mode="", big=False):
    s = Settings(mode=mode, color=False)
    if big: s.data_start = 0xC167
    if mode in ("assemble","preprocess"): s.allow_interrupts = True
    err = io.StringIO()
    try:
        with contextlib.redirect_stderr(err):
            p = load_program(text, s)
        return p, s
    except SystemExit as e:
        return ("EXIT", err.getvalue()[:300]), s
    except BaseException as e:
        return ("CRASH", repr(e)), s

def show(text, mode=""):
    p, s = prog(text, mode)
    if isinstance(p, tuple): print(repr(text), mode, p); return
    print(repr(text), mode, "CODE:", [str(o) for o in p.code], "DATA:", [str(o) for o in p.data], {k:(type(v).__name__, int(v)) for k,v in p.symbol_table.items()})

show('CONSTANT(c, 5) NOP() NOP() NOP() BRR(c)')
show('NOP() print_reg(R1) LABEL(a) NOP() BRR(a)', "assemble")
show('NOP() print_reg(R1) LABEL(a) NOP() BRR(a)', "")
show('NOP() LABEL(a) print_reg(R1) NOP() BRR(a)', "assemble")
show('print_reg(R1) BRR(a) NOP() LABEL(a) NOP()', "assemble")
show('print_reg(R1) BRR(a) NOP() LABEL(a) NOP()', "preprocess")
show('SETRF(R1, 5)', "")
show('OPCODE(0x2200)', "")
show('OPCODE(0x317f)', "")
show('OPCODE(0x317f)', "assemble")
show('LABEL(x) SET(R1, x) CALL(R12, x) BR(x) BRR(x)', "")
show('DLABEL(d) INTEGER(5) LP_STRING("ab") DSKIP(3) DLABEL(e) INTEGER(-1) SET(R1, e)', "")
show('CONSTANT(n, 3) DSKIP(n) DLABEL(e) SET(R1, e)', "")
show('DSKIP(n) CONSTANT(n, 3) DLABEL(e) SET(R1, e)', "")
show('SET(R1, 0xFFFF) SET(R2, -1) SET(R3, 0x80) SET(R4, -32768)')
show('NOT(Rt, Rt) NOT(R1, Rt)')
show('BRR(200) BRR(-128) BRR(255)')
# run
def run(text, flags=None, **kw):
    p, s = prog(text, **kw)
    if isinstance(p, tuple): print("RUN", repr(text), p); return
    vm = VirtualMachine(s)
    try:
        vm.run(p)
        print("RUN", repr(text), vm.registers[:5], "pc", vm.pc, "halted", vm.halted)
    except BaseException as e:
        print("RUN", repr(text), "CRASH", repr(e))
run('OPCODE(0x2200)')
run('BRR(-1)')
run('SET(R1, 0xFFFF) BR(R1)')
run('NOP() NOP() BRR(-5)')
run('SET(R1,5) BRR(-1) SET(R1, 7)')   # pc=2 -> 1?? 
run('LSL(R1, R2) SAVEF(R3)', )
run('SET(R2, 0x8000) LSL(R1, R2) SAVEF(R3)', )
run('SET(R1, 0x4000) SETHI(R1, -1)')
run('CALL(R12, R1)')
run('RETURN(R12, R13)')
