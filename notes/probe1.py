import sys, io, traceback
sys.path.insert(0, '/repo')
from hera.data import Settings, Token
from hera import op as O
from hera.vm import VirtualMachine
from hera.op import *

def run1(opobj, regs=None, flags=None):
    vm = VirtualMachine(Settings())
    if regs:
        for k,v in regs.items(): vm.registers[k]=v
    if flags:
        for k,v in flags.items(): setattr(vm,'flag_'+k,v)
    opobj.execute(vm)
    return vm

R=Token.R; I=Token.Int
# ADD overflow with carry-in
vm = run1(ADD(R(1),R(2),R(3)), {2:0,3:0}, {'carry':True})
print("ADD 0+0+c:", vm.registers[1], "V=",vm.flag_overflow, "C=", vm.flag_carry)
vm = run1(ADD(R(1),R(2),R(3)), {2:0x7fff,3:0}, {'carry':True})
print("ADD 7fff+0+c:", hex(vm.registers[1]), "V=",vm.flag_overflow)
# SUB with borrow
vm = run1(SUB(R(1),R(2),R(3)), {2:0,3:0}, {'carry':False})
print("SUB 0-0-1:", hex(vm.registers[1]), "V=",vm.flag_overflow, "C=",vm.flag_carry)
vm = run1(SUB(R(1),R(2),R(3)), {2:0x8000,3:0}, {'carry':False})
print("SUB 8000-0-1:", hex(vm.registers[1]), "V=",vm.flag_overflow, "C=",vm.flag_carry)
# LSL carry type
vm = run1(LSL(R(1),R(2)), {2:0x8001})
print("LSL carry:", repr(vm.flag_carry))
vm = run1(ASL(R(1),R(2)), {2:0x4000})
print("ASL 0x4000 V:", repr(vm.flag_overflow), hex(vm.registers[1]))
vm = run1(ASL(R(1),R(2)), {2:0x8000})
print("ASL 0x8000 V:", repr(vm.flag_overflow), repr(vm.flag_carry))
vm = run1(ASR(R(1),R(2)), {2:0x8001})
print("ASR carry:", repr(vm.flag_carry))
vm = run1(SETHI(R(1),I(-1)), {1:5})
print("SETHI -1:", vm.registers[1])
vm = run1(SETHI(R(1),I(-128)), {1:5})
print("SETHI -128:", vm.registers[1])
vm = run1(SETLO(R(1),I(-128)), {1:5})
print("SETLO -128:", vm.registers[1])
vm = run1(STORE(R(1),I(31),R(2)), {1:7, 2:0xffff})
print("STORE mem len:", len(vm.memory))
vm = run1(LOAD(R(1),I(31),R(2)), {1:7, 2:0xffff})
print("LOAD beyond:", vm.registers[1])
# MUL
vm = run1(MUL(R(1),R(2),R(3)), {2:0xffff,3:0xffff}, {})
print("MUL ffff*ffff lo:", hex(vm.registers[1]), vm.flag_carry, vm.flag_overflow)
vm = run1(MUL(R(1),R(2),R(3)), {2:0xffff,3:0xffff}, {'sign':True})
print("MUL ffff*ffff hi:", hex(vm.registers[1]), vm.flag_carry, vm.flag_overflow)
vm = run1(MUL(R(1),R(2),R(3)), {2:0x8000,3:0x8000}, {'sign':True})
print("MUL 8000*8000 hi:", hex(vm.registers[1]), vm.flag_carry, vm.flag_overflow)
# INC flags
vm = run1(INC(R(1),I(1)), {1:0x7fff})
print("INC:", hex(vm.registers[1]), vm.flag_overflow, vm.flag_carry)
vm = run1(INC(R(0),I(5)), {})
print("INC R0:", vm.registers[0], vm.flag_zero, vm.flag_sign)
# BL type
vm = run1(BLR(I(5)), {}, {'sign':True})
print("BLR pc:", vm.pc)
vm = run1(BRR(I(200)), {}, {})
print("BRR 200 pc:", vm.pc)
vm = run1(BRR(I(-5)), {}, {})
print("BRR -5 pc:", vm.pc)
# encoding
for o in [INC(R(1),I(64)), INC(R(1),I(1)), DEC(R(1),I(64)), SETLO(R(1),I(-1)), SETHI(R(1), I(-128)), BRR(I(-1)), BRR(I(200)), LOAD(R(1),I(31),R(2)), FSET4(I(15)), FON(I(31))]:
    try:
        b = o.assemble(); print(o, hex((b[0]<<8)+b[1]))
    except Exception as e:
        print(o, "EXC", repr(e))
for v in [0x10000, -1, -5, 0x317f, 0x3d60, 0x3c70, 0x2200, 0x2300, 0x0100, 0x1100, 0x2201, 0x2301]:
    try:
        print(hex(v), O.disassemble(v))
    except Exception as e:
        print(hex(v), "EXC", repr(e))
for d in [INTEGER(I(300)), INTEGER(I(-1)), INTEGER(I(255)), LP_STRING(Token(Token.STRING, "a"*300)), DSKIP(I(3))]:
    try:
        print(d.name, d.assemble()[:6])
    except Exception as e:
        print(d.name, "EXC", repr(e))
