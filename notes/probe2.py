import sys, io, traceback, contextlib
sys.path.insert(0, '/repo')
from hera.data import Settings
from hera.parser import parse, evaluate_ifdefs
from hera.checker import check
from hera.lexer import Lexer

def fe(text, mode=""):
    s = Settings(mode=mode)
    try:
        ops, m = parse(text, settings=s)
        prog, m2 = check(ops, s)
        return "ok errs=%d/%d" % (len(m.errors), len(m2.errors)), [e[0] for e in m.errors+m2.errors][:3]
    except BaseException as e:
        return "CRASH", repr(e)

cases = ['/* unterminated', 'OPCODE()', 'OPCODE("x")', 'OPCODE(R1)', 'SET(R1, :', ':', '"\\x', '"\\x4', '"abc\\', "'\\", 'SETRF(R1, 5)', 'SET(R1, 0x)', 'SET(R1, 08)', 'SET(R1, 1_0)',
  '#include "a\x00b"', '#include <', '#include', 'CONSTANT(X, "s")', 'CONSTANT("s", 5)', 'CONSTANT(X, R1)', 'DSKIP(X)', 'DSKIP("s")', 'LP_STRING(5)', 'LABEL(5)', 'DLABEL(R1)', 'LABEL()', 
  'BR()', 'BRR()', 'BRR(R1)', 'BRR("x")', 'CALL()', 'CALL(R12)', 'CALL(R12, 5)', 'CALL(R12,"s")','BR(5)', 'BR("s")', 'SET(R1)', 'INTEGER()', 'INTEGER(X)', 'CONSTANT(X,1) CONSTANT(X,2)',
  'void HERA_main() { SET(R1,1) }', 'void', 'void x', '}', 'SET(R99, 1)', 'SET(Rt, 1)', 'SET(r1 , -', 'SET(R1, --5)', "SET(R1, 'ab')", "SET(R1, '')", 'print_reg()', 'print(5)', '__eval(5)', 
  'OPCODE(0x2200)', 'OPCODE(0x317f)', 'OPCODE(70000)', 'OPCODE(-1)', 'SWI(1)', 'RTI()', 'NOT(R1)', 'NOT(R1, 5)', 'CMP(5, 5)', 'SET(PC, 5)', 'LABEL(x) BRR(x)', 'BRR(y)', 'DLABEL(d) BRR(d)', 'CONSTANT(c, 5) BRR(c)', 'CONSTANT(c, 500) BRR(c)',
  'CONSTANT(c, 5) BR(c)', 'DLABEL(d) BR(d)', 'DLABEL(d) SET(R1, d)', 'LABEL(x) DSKIP(x)', 'LABEL(x) INTEGER(x)', 'LABEL(x) SETLO(R1, x)', 'LABEL(x) INC(R1, x)', 'CONSTANT(c, 99999)', 'SET(R1, c) CONSTANT(c, 5)', 'DSKIP(70000)', 'DSKIP(20000) DSKIP(20000)',
  'SET(R1, 1) INTEGER(5)', 'INC(R1, 0)', 'INC(R1, 64)', 'INC(R1, 65)', 'LOAD(R1, 32, R2)', 'LOAD(R1, -1, R2)', 'FSET4(16)', 'FSET5(32)', 'SETLO(R1, 256)', 'SETLO(R1, -129)', 'SET(R1, 65536)', 'SET(R1, -32769)',
  'INTEGER(65535)', 'INTEGER(65536)', 'INTEGER(-32768)', 'r1(5)', 'R1(5)', 'SET(R1, R2)', 'LP_STRING("\\q")', 'LP_STRING("\\777")', 'LP_STRING("\\8")', 'LP_STRING("\\xZZ")',
  '#ifdef', '#ifdef X\n#else', '#endif', '#else', 'SET(R1,1) ; ; SET(R2,2)', 'SET(R1,1),', 'SET(R1 1)', 'SET((R1,1)', 'SET(R1,1))', 'SET', 'SET(', 'SET(R1,', 'SET(R1, 1', '(', ')', ',,,', '<abc', '<abc>', "'a", '"a',
  'TIGER_STRING("x")', 'SET(R1, \'a\')', 'SET(R1, 0b102)', 'SET(R1, 0xg)', 'SET(R1, 0o9)', 'SET(R1, 5abc)', 'SET(R1,1)\x00', '\x0c\x1c', 'SET(R1, 1) // c', 'SET(R1, /', 'SET(R1, /*', '/', '/*/', 'CALL(R12, x) LABEL(x)', 'BR(x) LABEL(x)',
]
for c in cases:
    for mode in ["", "assemble"]:
        r = fe(c, mode)
        if r[0] == "CRASH":
            print(repr(c), mode, r)
