# scratch prototype: Python AST -> Lean for op.py semantic methods
import ast, inspect, sys, textwrap
sys.path.insert(0,'/repo')
from hera import op as O

FLAGS = {"flag_sign","flag_zero","flag_overflow","flag_carry","flag_carry_block","halted"}
INTF = {"pc","dc","op_count"}

class T:
    def __init__(self, env): self.env = dict(env); self.lines=[]
    def ty(self, e):
        return self.expr(e)[1]
    def expr(self, e):
        if isinstance(e, ast.Constant):
            if isinstance(e.value, bool): return (("true" if e.value else "false"), "Bool")
            if isinstance(e.value, int): return (f"({e.value} : Int)", "Int")
        if isinstance(e, ast.Name):
            return (e.id, self.env[e.id])
        if isinstance(e, ast.Attribute) and isinstance(e.value, ast.Name) and e.value.id == "vm":
            if e.attr in FLAGS: return (f"vm.{e.attr}", "Bool")
            if e.attr in INTF: return (f"vm.{e.attr}", "Int")
        if isinstance(e, ast.BinOp):
            (l,lt),(r,rt) = self.expr(e.left), self.expr(e.right)
            if isinstance(e.op, ast.BitAnd) and isinstance(e.right, ast.Constant):
                m = e.right.value
                if m & (m+1) == 0: return (f"({l} % {m+1})", "Int")
                if m & (m-1) == 0: return (f"(({l} / {m}) % 2 * {m})", "Int")
            if isinstance(e.op, ast.Pow) and isinstance(e.left, ast.Constant) and isinstance(e.right, ast.Constant):
                return (f"({e.left.value**e.right.value} : Int)", "Int")
            if isinstance(e.op, ast.LShift) and isinstance(e.right, ast.Constant): return (f"({l} * {2**e.right.value})","Int")
            if isinstance(e.op, ast.RShift) and isinstance(e.right, ast.Constant): return (f"({l} / {2**e.right.value})","Int")
            if isinstance(e.op, ast.Mod) and isinstance(e.right, ast.Constant) and e.right.value>0: return (f"({l} % {e.right.value})","Int")
            ops = {ast.Add:"+", ast.Sub:"-", ast.Mult:"*"}
            if type(e.op) in ops and lt==rt=="Int": return (f"({l} {ops[type(e.op)]} {r})","Int")
            if isinstance(e.op, ast.BitXor) and lt==rt=="Bool": return (f"(xor {l} {r})","Bool")
            if isinstance(e.op, (ast.BitAnd, ast.BitOr, ast.BitXor)) and lt==rt=="Int":
                f = {ast.BitAnd:"pyAnd", ast.BitOr:"pyOr", ast.BitXor:"pyXor"}[type(e.op)]
                return (f"({f} {l} {r})","Int")
            raise NotImplementedError(ast.dump(e))
        if isinstance(e, ast.UnaryOp):
            (x,t) = self.expr(e.operand)
            if isinstance(e.op, ast.Not):
                if t=="Bool": return (f"(!{x})","Bool")
                if t=="Int": return (f"(decide ({x} = 0))","Bool")
            if isinstance(e.op, ast.USub) and t=="Int": return (f"(-{x})","Int")
        if isinstance(e, ast.BoolOp):
            parts = [self.expr(v) for v in e.values]
            if all(t=="Bool" for _,t in parts):
                o = " && " if isinstance(e.op, ast.And) else " || "
                return ("(" + o.join(x for x,_ in parts) + ")","Bool")
            raise TypeError(f"ILL-TYPED boolean operator with operand types {[t for _,t in parts]} at line {e.lineno}: {ast.unparse(e)}")
        if isinstance(e, ast.Compare) and len(e.ops)==1:
            (l,lt),(r,rt) = self.expr(e.left), self.expr(e.comparators[0])
            o = {ast.Lt:"<", ast.LtE:"≤", ast.Gt:">", ast.GtE:"≥", ast.Eq:"=", ast.NotEq:"≠"}[type(e.ops[0])]
            return (f"(decide ({l} {o} {r}))","Bool")
        if isinstance(e, ast.IfExp):
            (c,ct),(a,at),(b,bt) = self.expr(e.test), self.expr(e.body), self.expr(e.orelse)
            assert ct=="Bool" and at==bt
            return (f"(if {c} then {a} else {b})", at)
        if isinstance(e, ast.Call):
            f = e.func
            if isinstance(f, ast.Name) and f.id in ("from_u16",): return (f"(from_u16 {self.expr(e.args[0])[0]})","Int")
            if isinstance(f, ast.Name) and f.id == "bool":
                (x,t)=self.expr(e.args[0]); return (x,"Bool") if t=="Bool" else (f"(decide ({x} ≠ 0))","Bool")
            if isinstance(f, ast.Name) and f.id == "int":
                (x,t)=self.expr(e.args[0]); return (f"(Bool.toInt {x})","Int") if t=="Bool" else (x,"Int")
        raise NotImplementedError(ast.dump(e))
    def stmt(self, s):
        if isinstance(s, ast.Assign) and len(s.targets)==1:
            t = s.targets[0]; (x,ty) = self.expr(s.value)
            if isinstance(t, ast.Name):
                self.env[t.id]=ty; self.lines.append(f"let {t.id} : {ty} := {x}")
                return
            if isinstance(t, ast.Attribute) and t.value.id=="vm":
                want = "Bool" if t.attr in FLAGS else "Int"
                if ty != want: raise TypeError(f"ILL-TYPED: vm.{t.attr} : {want} assigned {ty} expression `{ast.unparse(s.value)}` (line {s.lineno})")
                self.lines.append(f"let vm := {{ vm with {t.attr} := {x} }}"); return
        if isinstance(s, ast.Return):
            (x,ty)=self.expr(s.value); self.lines.append(f"(vm, {x})"); return
        if isinstance(s, ast.Expr) and isinstance(s.value, ast.Constant): return
        raise NotImplementedError(ast.dump(s))

def translate_calc(cls, params):
    src = textwrap.dedent(inspect.getsource(cls.calculate))
    fn = ast.parse(src).body[0]
    t = T({p:"Int" for p in params})
    for s in fn.body: t.stmt(s)
    args = " ".join(f"({p} : Int)" for p in params)
    return f"def {cls.__name__}.calculate (vm : VM) {args} : VM × Int :=\n  " + "\n  ".join(t.lines)

for cls, ps in [(O.ADD,["left","right"]),(O.SUB,["left","right"]),(O.AND,["left","right"]),(O.LSR,["arg"]),(O.LSL,["arg"]),(O.ASL,["arg"]),(O.ASR,["arg"]),(O.LSR8,["arg"])]:
    try: print(translate_calc(cls, ps)); print()
    except Exception as e: print(f"-- {cls.__name__}: {type(e).__name__}: {e}\n")
