-- generic round-trip lemmas for match_bitvector / substitute_bitvector (prototype)
inductive Sym where | z | o | f (i : Nat)
deriving DecidableEq, Repr

abbrev Args := Nat → Nat     -- field index ↦ value

def upd (a : Args) (i v : Nat) : Args := fun j => if j = i then v else a j

/-- one step of match (MSB→LSB): consume one bit -/
def stepM (s : Sym) (b : Bool) (a : Args) : Option Args :=
  match s with
  | .z => if b then none else some a
  | .o => if b then some a else none
  | .f i => some (upd a i (2 * a i + b.toNat))

def matchGo : List Sym → List Bool → Args → Option Args
  | [], [], a => some a
  | s :: ps, b :: bs, a => (stepM s b a).bind (matchGo ps bs)
  | _, _, _ => none

/-- substitute, LSB first: input is the *reversed* pattern; output bits LSB first, plus leftover args -/
def substGo : List Sym → Args → List Bool × Args
  | [], a => ([], a)
  | .z :: ps, a => let (bs, a') := substGo ps a; (false :: bs, a')
  | .o :: ps, a => let (bs, a') := substGo ps a; (true :: bs, a')
  | .f i :: ps, a => let (bs, a') := substGo ps (upd a i (a i / 2)); ((a i % 2 == 1) :: bs, a')

theorem matchGo_snoc (p : List Sym) (s : Sym) (bs : List Bool) (b : Bool) (a : Args)
    (hl : p.length = bs.length) :
    matchGo (p ++ [s]) (bs ++ [b]) a = (matchGo p bs a).bind (stepM s b) := by
  induction p generalizing bs a with
  | nil =>
    cases bs with
    | nil => simp [matchGo]
    | cons _ _ => simp at hl
  | cons q p ih =>
    cases bs with
    | nil => simp at hl
    | cons c bs =>
      simp only [List.cons_append, matchGo]
      cases h : stepM q c a with
      | none => simp [Option.bind]
      | some a1 => simp only [Option.bind]; exact ih bs a1 (by simpa using hl)


theorem substGo_f (i : Nat) (ps : List Sym) (a : Args) :
    substGo (.f i :: ps) a = (((a i % 2 == 1) :: (substGo ps (upd a i (a i / 2))).1), (substGo ps (upd a i (a i / 2))).2) := by
  simp [substGo]

theorem upd_upd (a : Args) (i v w : Nat) : upd (upd a i v) i w = upd a i w := by
  funext j; simp [upd]; split <;> simp_all
theorem upd_self (a : Args) (i : Nat) : upd a i (a i) = a := by
  funext j; simp [upd]; intro h; simp [h]

theorem match_subst : ∀ (n : Nat) (p : List Sym) (bs : List Bool) (acc a : Args), p.length = n →
    matchGo p bs acc = some a → substGo p.reverse a = (bs.reverse, acc) := by
  intro n
  induction n with
  | zero =>
    intro p bs acc a hn h
    have : p = [] := List.eq_nil_of_length_eq_zero hn
    subst this
    cases bs <;> simp_all [matchGo, substGo]
  | succ n ih =>
    intro p bs acc a hn h
    rcases List.eq_nil_or_concat p with rfl | ⟨p', s, rfl⟩
    · simp at hn
    · have hlen : p'.length = n := by simpa using hn
      rcases List.eq_nil_or_concat bs with rfl | ⟨bs', b, rfl⟩
      · cases p' <;> simp [matchGo] at h
      · simp only [List.concat_eq_append] at h hn ⊢
        by_cases hl : p'.length = bs'.length
        · rw [matchGo_snoc _ _ _ _ _ hl] at h
          cases hm : matchGo p' bs' acc with
          | none => simp [hm] at h
          | some a1 =>
            simp [hm] at h
            have ih' := ih p' bs' acc a1 hlen hm
            simp only [List.reverse_append, List.reverse_cons, List.reverse_nil, List.nil_append, List.singleton_append]
            cases s with
            | z => cases b <;> simp [stepM] at h; subst h; simp [substGo, ih']
            | o => cases b <;> simp [stepM] at h; subst h; simp [substGo, ih']
            | f i =>
              simp [stepM] at h; subst h
              rw [substGo_f]
              have e1 : upd a1 i (2 * a1 i + b.toNat) i = 2 * a1 i + b.toNat := by simp [upd]
              rw [e1]
              have e2 : (2 * a1 i + b.toNat) / 2 = a1 i := by cases b <;> simp <;> omega
              rw [e2, upd_upd, upd_self, ih']
              cases b <;> simp <;> omega
        · sorry
