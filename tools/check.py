#!/usr/bin/env python3
"""
check <Cxx> quick|thorough      decide property Cxx on /repo's current working tree
check --replay <path>           re-run a recorded counterexample against the real code

Pipeline (DESIGN.md section 6):
  1 regenerate the Lean model from the source      (tools/gen.py, under a lock)
  2 build the property's proof modules             (lake build)
  3 audit: forbidden tokens, `#print axioms` of every obligation
  4 correspondence: model vs implementation        (tools/props/Cxx.py -> harness streams)
  5 oracle: executable Spec / property oracle vs the real code, same streams
  6 decide, print VIOLATION / KNOWN-FINDING lines, write replays and evidence

Exit status: 0 property held on everything explored; 1 violation (line printed);
             2 the machinery itself failed (never a VIOLATION line).
"""
import fcntl
import hashlib
import importlib
import json
import os
import re
import subprocess
import sys
import time
import traceback

VERIF = os.path.abspath(os.path.join(os.path.dirname(__file__), ".."))
LEAN = os.path.join(VERIF, "lean")
TOOLS = os.path.join(VERIF, "tools")
sys.path.insert(0, TOOLS)
PY = "/venv/bin/python"
ALLOWED_AXIOMS = {"propext", "Classical.choice", "Quot.sound"}
FORBIDDEN = re.compile(r"\bsorry\b|\badmit\b|^\s*axiom\s|native_decide|bv_decide|implemented_by|\bunsafe\s|maxHeartbeats\s+0\b")

TRUSTED_BASE = [
    "Lean 4.33.0 kernel (thorough tier: leanchecker re-check of the property modules)",
    "axioms allowed: propext, Classical.choice, Quot.sound (audited per obligation by #print axioms); no sorry/admit/native_decide/bv_decide/own axioms",
    "Spec files under lean/HeraModel/Spec: the formal reading of the property (hand-written from HERA 2.4 + hera-py doc strings)",
    "py2lean translator and table extractor (tools/py2lean.py, tools/gen.py): semantic map of DESIGN.md 4.2, validated on every run by the correspondence stream, not verified",
    "hand-written models (lean/HeraModel/Model): trusted only as far as the correspondence streams explore them",
    "CPython int/list/str semantics as encoded in lean/HeraModel/Py.lean and PyStr.lean",
]


def sh(cmd, cwd=None, timeout=None, env=None):
    p = subprocess.run(cmd, cwd=cwd, stdout=subprocess.PIPE, stderr=subprocess.STDOUT, timeout=timeout, env=env)
    return p.returncode, p.stdout.decode(errors="replace")


class Lock:
    def __init__(self, name):
        os.makedirs(os.path.join(VERIF, ".locks"), exist_ok=True)
        self.path = os.path.join(VERIF, ".locks", name)

    def __enter__(self):
        self.f = open(self.path, "w")
        fcntl.flock(self.f, fcntl.LOCK_EX)
        return self

    def __exit__(self, *a):
        fcntl.flock(self.f, fcntl.LOCK_UN)
        self.f.close()


def strip_comments(text):
    text = re.sub(r"/-.*?-/", "", text, flags=re.S)
    text = re.sub(r"--.*", "", text)
    return text


def regenerate():
    """Step 1. Returns dict file -> {'status': changed|unchanged|untranslatable, 'sha'|'reason'}."""
    rc, out = sh([PY, os.path.join(TOOLS, "gen.py")])
    res = {}
    for line in out.splitlines():
        if line.startswith("GENERATED "):
            _, f, sha, st = line.split()
            res[f] = {"status": st, "sha": sha}
        elif line.startswith("UNTRANSLATABLE "):
            _, f, reason = line.split(" ", 2)
            res[f] = {"status": "untranslatable", "reason": reason}
    if rc not in (0, 3) or not res:
        raise RuntimeError("gen.py failed:\n" + out[-3000:])
    return res


def build(targets):
    """Step 2. lake build of the given targets; returns (ok, log)."""
    rc, out = sh(["lake", "build"] + targets, cwd=LEAN, timeout=3000)
    return rc == 0, out


def read_obligations(pid):
    path = os.path.join(VERIF, "obligations", pid + ".txt")
    obs = []
    with open(path) as f:
        for line in f:
            line = line.split("#")[0].strip()
            if line:
                obs.append(line)
    return obs


def audit(pid, modules, obligations, thorough, partial=False):
    """Step 3. Returns (discharged names, problems list, axioms map)."""
    problems = []
    # forbidden tokens in every Lean source of the project (outside comments)
    for root, _, files in os.walk(LEAN):
        if ".lake" in root:
            continue
        for fn in files:
            if fn.endswith(".lean"):
                p = os.path.join(root, fn)
                with open(p, encoding="utf-8") as f:
                    text = strip_comments(f.read())
                for n, line in enumerate(text.splitlines(), 1):
                    if FORBIDDEN.search(line):
                        problems.append("forbidden token in {}: {}".format(os.path.relpath(p, VERIF), line.strip()[:120]))
    os.makedirs(os.path.join(LEAN, "HeraProofs", "Audit"), exist_ok=True)
    apath = os.path.join(LEAN, "HeraProofs", "Audit", pid + ".lean")
    text = "".join("import {}\n".format(m) for m in modules)
    text += "open Hera\n"
    for ob in obligations:
        text += "#print axioms {}\n".format(ob)
    with open(apath, "w") as f:
        f.write(text)
    rc, out = sh(["lake", "env", "lean", apath], cwd=LEAN, timeout=1200)
    axioms = {}
    joined = re.sub(r"\n\s+", " ", out)
    for m in re.finditer(r"'([^']+)' depends on axioms: \[([^\]]*)\]", joined):
        axioms[m.group(1)] = [a.strip() for a in m.group(2).split(",") if a.strip()]
    for m in re.finditer(r"'([^']+)' does not depend on any axioms", joined):
        axioms[m.group(1)] = []
    if partial and any(not [k for k in axioms if k == ob or k.endswith("." + ob)] for ob in obligations):
        # one of the modules does not build: audit module by module, so that only the theorems of the broken module (and of
        # those that import it) count as not discharged, and the report names them
        for m in modules:
            text1 = "import {}\nopen Hera\n".format(m) + "".join("#print axioms {}\n".format(ob) for ob in obligations)
            apath1 = os.path.join(LEAN, "HeraProofs", "Audit", pid + "_part.lean")
            with open(apath1, "w") as f:
                f.write(text1)
            rc1, out1 = sh(["lake", "env", "lean", apath1], cwd=LEAN, timeout=1200)
            joined1 = re.sub(r"\n\s+", " ", out1)
            for mm in re.finditer(r"'([^']+)' depends on axioms: \[([^\]]*)\]", joined1):
                axioms.setdefault(mm.group(1), [a.strip() for a in mm.group(2).split(",") if a.strip()])
            for mm in re.finditer(r"'([^']+)' does not depend on any axioms", joined1):
                axioms.setdefault(mm.group(1), [])
            try:
                os.remove(apath1)
            except OSError:
                pass
    discharged = []
    for ob in obligations:
        full = [k for k in axioms if k == ob or k.endswith("." + ob)]
        if not full:
            problems.append("obligation {} not found / does not compile".format(ob))
            continue
        bad = [a for a in axioms[full[0]] if a not in ALLOWED_AXIOMS]
        if bad:
            problems.append("obligation {} depends on {}".format(ob, bad))
        else:
            discharged.append(ob)
    if thorough and not problems:
        rc, out2 = sh(["lake", "env", "leanchecker"] + modules, cwd=LEAN, timeout=3000)
        if rc != 0:
            problems.append("leanchecker rejected {}: {}".format(modules, out2[-500:]))
    return discharged, problems, axioms


def load_known():
    path = os.path.join(VERIF, "known_findings.json")
    if not os.path.exists(path):
        return []
    with open(path) as f:
        return json.load(f)["findings"]


def write_replay(pid, obj):
    os.makedirs(os.path.join(VERIF, "replays"), exist_ok=True)
    blob = json.dumps(obj, sort_keys=True, default=str)
    h = hashlib.sha256(blob.encode()).hexdigest()[:12]
    rel = os.path.join("replays", "{}-{}.json".format(pid, h))
    with open(os.path.join(VERIF, rel), "w") as f:
        json.dump(obj, f, indent=1, sort_keys=True, default=str)
    return rel


def main():
    if len(sys.argv) >= 3 and sys.argv[1] == "--replay":
        return replay(sys.argv[2])
    if len(sys.argv) != 3 or sys.argv[2] not in ("quick", "thorough"):
        print(__doc__)
        return 2
    pid, tier = sys.argv[1], sys.argv[2]
    seed = int(os.environ.get("VERIF_SEED", "0") or 0)
    t0 = time.time()
    # last line of defence against a stream of the machinery itself that does not return (every stream has its own
    # watchdogs; SIGALRM is theirs, so this one is a thread): a check that runs this long gives no verdict, exit 2
    import threading
    budget = int(os.environ.get("VERIF_BUDGET", "5400" if tier == "thorough" else "1800"))

    def give_up():
        # (file descriptor 1 directly: sys.stdout may be a capture object of a stream at this moment)
        os.write(1, "check {} {}: the verification machinery did not finish within {} s (no verdict)\n".format(pid, tier, budget).encode())
        os._exit(2)
    timer = threading.Timer(budget, give_up)
    timer.daemon = True
    timer.start()
    try:
        return run_check(pid, tier, seed, t0)
    except subprocess.TimeoutExpired as e:
        print("check {}: timeout in {}".format(pid, e.cmd))
        return 2
    except Exception:
        traceback.print_exc()
        print("check {}: internal error of the verification machinery (no verdict)".format(pid))
        return 2


def run_check(pid, tier, seed, t0):
    prop = importlib.import_module("props." + pid)
    thorough = tier == "thorough"
    obligations = read_obligations(pid)
    broken = []  # reasons why the proof side no longer shows the property
    with Lock("build.lock"):
        gen = regenerate()
        for f in prop.GENERATED_DEPS:
            g = gen.get(f)
            if g is None or g["status"] == "untranslatable":
                broken.append("model file Generated/{} cannot be regenerated from the source: {}".format(
                    f, (g or {}).get("reason", "missing")))
        ok_drv, log_drv = build(["herad"])
        ok, log = build(prop.MODULES)
        if not ok:
            errs = [l for l in log.splitlines() if "error" in l][:12]
            broken.append("proof modules {} no longer build: {}".format(prop.MODULES, " | ".join(errs)))
        if ok:
            discharged, problems, axioms = audit(pid, prop.MODULES, obligations, thorough)
        else:
            # which of the modules still build? (a module that does not build may have left a stale compiled file behind:
            # only modules that `lake build` accepts now are audited) - their theorems stay discharged, the report names the rest
            good = [m for m in prop.MODULES if build([m])[0]]
            discharged, problems, axioms = audit(pid, good, obligations, False, partial=True) if good else ([], [], {})
        broken.extend(problems)
    if not os.path.exists(os.path.join(LEAN, ".lake", "build", "bin", "herad")):
        raise RuntimeError("model driver herad is not built:\n" + log_drv[-2000:])
    stale_driver = not ok_drv
    # steps 4 + 5
    ctx = {"seed": seed, "tier": tier, "thorough": thorough, "property": pid}
    res = prop.run(ctx)
    from harness import proto as _proto
    run_samples = _proto.take_samples()
    disagreements = res.get("disagreements", [])
    violations = [v for v in res.get("violations", []) if v.get("property", pid) == pid]
    if disagreements and not stale_driver and not any(g.get("status") == "untranslatable" for g in gen.values()):
        d = disagreements[0]
        broken.append("correspondence stream {} diverges: model and implementation differ on {}".format(
            d.get("stream"), json.dumps(d.get("case"), default=str)[:300]))
    # step 6
    known = [k for k in load_known() if k["property"] == pid and k.get("kind", "finding") == "finding"]
    printed_known, new_violations = {}, []
    for v in violations:
        hit = [k for k in known if k["match"].get("key") is not None and k["match"]["key"] == v.get("key")]
        if hit:
            printed_known.setdefault(hit[0]["id"], (hit[0], v))
        else:
            new_violations.append(v)
    for kid, (k, v) in sorted(printed_known.items()):
        print("KNOWN-FINDING: property={} {} [{}]".format(pid, k["what"], v.get("what", "")[:160]))
    rc = 0
    replay_paths = []
    if new_violations:
        # one replay per distinct cause (first of each `what` prefix), at most 5
        seen = set()
        for v in new_violations:
            sig = v.get("key") or v.get("sig") or v.get("what", "")[:60]
            if sig in seen or len(seen) >= 3:
                continue
            seen.add(sig)
            path = write_replay(pid, {"property": pid, "kind": "counterexample", "what": v.get("what"),
                                      "stream": v.get("stream"), "case": v.get("case"), "key": v.get("key"),
                                      "broken_obligations": broken,
                                      "rerun": "tools/check --replay <this file>"})
            replay_paths.append(path)
            print("VIOLATION property={} replay={}".format(pid, path))
        rc = 1
    elif broken:
        path = write_replay(pid, {"property": pid, "kind": "unproved",
                                  "what": "the property is no longer shown to hold: " + "; ".join(broken),
                                  "broken_obligations": broken,
                                  "first_divergence": disagreements[0] if disagreements else None,
                                  "searched": res.get("evaluations", 0)})
        replay_paths.append(path)
        print("VIOLATION property={} replay={} no-failing-input-found".format(pid, path))
        rc = 1
    # evidence
    cov = {
        "obligations": len(obligations),
        "discharged": len(discharged),
        "checker_cmd": "cd lean && lake build {} && lake env lean HeraProofs/Audit/{}.lean{}".format(
            " ".join(prop.MODULES), pid, " && lake env leanchecker " + " ".join(prop.MODULES) if thorough else ""),
        "trusted_base": TRUSTED_BASE + list(getattr(prop, "TRUSTED_EXTRA", [])),
        "evaluations": int(res.get("evaluations", 0)),
        "distinct_nontrivial": int(res.get("distinct_nontrivial", 0)),
        "rule": res.get("rule", ""),
        "exhaustive": bool(res.get("exhaustive", False)),
        "samples": ([{"obligation": o, "axioms": axioms.get(o, axioms.get("Hera." + o))} for o in obligations[:6]]
                    + (run_samples[:10] or list(res.get("samples", []))[:6])),
        "obligation_names": obligations,
        "undischarged": [o for o in obligations if o not in discharged],
        "proof_side_problems": broken,
        "generated": gen,
        "correspondence": {"disagreements": len(disagreements), "streams": res.get("streams", {})},
        "distribution": res.get("distribution", {}),
        "known_findings_printed": sorted(printed_known),
        "explanation": getattr(prop, "EXPLANATION", ""),
    }
    ev = {
        # a run in which no obligation could be discharged (the proof modules no longer build) is evidence of the
        # exploration it did, not of a proof
        "property_id": pid, "tier": tier, "seed": seed, "level": "proof" if discharged else "exploration", "coverage": cov,
        "assumptions": list(getattr(prop, "ASSUMPTIONS", [])),
        "wall_s": round(time.time() - t0, 2), "violations": len(new_violations) + (1 if (broken and not new_violations) else 0),
    }
    os.makedirs(os.path.join(VERIF, "evidence"), exist_ok=True)
    with open(os.path.join(VERIF, "evidence", pid + ".json"), "w") as f:
        json.dump(ev, f, indent=1, default=str)
    print("check {} {}: obligations {}/{} discharged, {} cases, {} model/impl disagreements, {} violations, {} known findings, {:.1f}s".format(
        pid, tier, len(discharged), len(obligations), cov["evaluations"], len(disagreements),
        len(new_violations), len(printed_known), time.time() - t0))
    return rc


def replay(path):
    with open(path) as f:
        obj = json.load(f)
    pid = obj["property"]
    prop = importlib.import_module("props." + pid)
    if obj.get("kind") != "counterexample":
        print("replay {}: records an unproved obligation, not an input: {}".format(path, obj.get("what")))
        return 1
    r = prop.replay(obj)
    if r:
        print("replay {}: still fails: {}".format(path, r))
        print("VIOLATION property={} replay={}".format(pid, path))
        return 1
    print("replay {}: no longer fails".format(path))
    return 0


if __name__ == "__main__":
    sys.exit(main())
