"""
Stream for C07 / C17: the real Lexer's token stream (type, value, line, column) against the Lean lexer model
(herad `lex`) on valid, damaged and random ASCII texts.
"""
import random

from . import frontfuzz, proto


def real_tokens(text, limit=10):
    """the real lexer's tokens; a lexer that does not return within `limit` seconds is the exception `Hang`"""
    import signal
    from .dbg import Hang, _alarm
    old = signal.signal(signal.SIGALRM, _alarm)
    signal.setitimer(signal.ITIMER_REAL, limit)
    try:
        return _real_tokens(text)
    except Hang:
        raise RuntimeError("Hang")
    finally:
        signal.setitimer(signal.ITIMER_REAL, 0)
        signal.signal(signal.SIGALRM, old)


def _real_tokens(text):
    from hera.lexer import Lexer
    from hera.data import Token
    with proto.Capture() as cap:
        lx = Lexer(text)
        out = []
        for _ in range(len(text) + 3):
            t = lx.tkn
            v = t.value if isinstance(t.value, str) else str(t.value)
            out.append("{} {} {} {}".format(t.type[len("TOKEN_"):], proto.w_str(v), t.location.line, t.location.column))
            if t.type == Token.EOF:
                break
            lx.next_token()
        cap.take()
    return "{} {}".format(len(out), " ".join(out))


def gen_text(rng, seed):
    k = rng.random()
    if k < 0.5:
        return frontfuzz.gen_text(rng, seed)
    n = rng.choice([0, 1, 2, 4, 8, 16, 40])
    pool = ["R1", "r15", "Rt", "FP_alt", "pc_ret", "R", "r1x", "SET", "x_1", "_", "0", "07", "0x1F", "0xg", "0b12", "0o9", "12a", "99",
            '"', '"a b"', '"\\n\\x41\\101\\q"', "'a'", "'\\n'", "'ab'", "'", "#include", "#includex", "# include", "<a.h>", "<", ">", ":d", ":",
            ": x", ":xyz1 ", "-", "+", "/", "*", "@", "(", ")", "{", "}", ",", ";", "$", "`", "\\", "//c", "// c\n", "/* c */", "/* c", "/*/", "*/",
            " ", "\t", "\n", "\r\n", "\x0b", "\x0c", "\x1c", "\x1f", "\x00", "\x7f", "."]
    return "".join(rng.choice(pool) + rng.choice(["", "", " "]) for _ in range(n))


def check(seed, n):
    rng = random.Random(seed)
    reqs, reals, cases = [], [], []
    for k in range(n):
        text = gen_text(rng, seed * 5171 + k)
        if any(ord(c) > 127 for c in text):
            continue
        try:
            real = real_tokens(text)
        except Exception as e:  # noqa
            real = "exception " + type(e).__name__
        reqs.append("lex " + proto.w_str(text))
        reals.append(real)
        cases.append(text)
        if k % 500 == 0:
            proto.sample("lexer", {"text": text[:200]})
    answers = proto.run_herad(reqs)
    disagreements, violations = [], []
    for text, real, ans in zip(cases, reals, answers):
        if real.startswith("exception"):
            violations.append({"property": "C07", "stream": "lexer", "sig": "lexer:" + real, "case": {"text": text, "mode": ""},
                               "what": "the lexer raised {} on {!r}".format(real, text[:60])})
        elif ans != real:
            disagreements.append({"stream": "lexer", "case": {"text": text}, "model": ans[:400], "impl": real[:400]})
    return {"evaluations": len(cases), "violations": violations, "disagreements": disagreements, "distinct": len(set(cases))}
