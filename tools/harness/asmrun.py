"""
Stream for C06: `hera assemble --stdout` output executed by the independent word-level machine of Spec (herad `wordvm`)
against `hera` interpreting the same source; plus the strip-debugging-ops oracle.
"""
import os
import re
import shutil
import tempfile

from . import proto, proggen, progrun
from .proto import w_list

DEBUG_LINE = re.compile(r"^\s*(print_reg|print|println|__eval)\(.*\)\s*(//.*)?$")


def scratch_dir():
    return tempfile.mkdtemp(prefix="hera_verif_")


def real_main(argv):
    """hera.main.main in-process with captured streams. Returns (exit code, stdout, stderr, vm)."""
    import hera.main as M
    code, vm = 0, None
    with proto.Capture() as cap:
        try:
            vm = M.main(argv)
        except SystemExit as e:
            code = e.code if isinstance(e.code, int) else (0 if e.code is None else 1)
        except Exception as e:  # noqa
            code = "exception " + type(e).__name__
        out, errs = cap.take()
    return code, out, "".join(errs), vm


def parse_assembled(out):
    """[DATA] / [CODE] sections of `hera assemble --stdout`. Returns (zeros, cell, data words, code words)."""
    lines = [l.strip() for l in out.split("\n")]
    di, ci = lines.index("[DATA]"), lines.index("[CODE]")
    data = [l for l in lines[di + 1:ci] if l]
    code = [l for l in lines[ci + 1:] if l]
    m = re.match(r"^(\d+)\*0$", data[0])
    zeros = int(m.group(1))
    cell = int(data[1], 16)
    return zeros, cell, [int(x, 16) for x in data[2:]], [int(x, 16) for x in code]


def strip_debug(text):
    return "\n".join(l for l in text.split("\n") if not DEBUG_LINE.match(l)) + ("\n" if not text.endswith("\n\n") else "")


def interpret(path, big):
    argv = ([] if not big else ["--big-stack"]) + ["--no-color", "-q", path]
    return real_main(argv)


def compare(vm, ans, q, skip):
    toks = ans.split()
    if toks[0] != "ok":
        return "word machine: " + ans
    stopped = toks[1] == "1"
    if toks[2] == "1":
        return None  # a point the architecture leaves open was executed (MUL high word c/v, aliased CALL/RETURN): not comparable
    vals = [int(t) for t in toks[3:]]
    sregs, sflags, spc, shalt, smem = vals[:16], vals[16:21], vals[21], vals[22], vals[23:]
    if not stopped:
        return "the word machine did not stop within the step budget"
    rflags = [int(vm.flag_sign), int(vm.flag_zero), int(vm.flag_overflow), int(vm.flag_carry), int(vm.flag_carry_block)]
    if list(vm.registers) != sregs:
        k = [i for i in range(16) if vm.registers[i] != sregs[i]][0]
        return "R{}: interpreted {} / assembled {}".format(k, vm.registers[k], sregs[k])
    if rflags != sflags:
        return "flags: interpreted {} / assembled {}".format(rflags, sflags)
    if int(vm.halted) != shalt:
        return "halt status: interpreted {} / assembled {}".format(vm.halted, bool(shalt))
    for a, sv in zip(q, smem):
        if a == skip:
            continue
        rv = vm.memory[a] if a < len(vm.memory) else 0
        if rv != sv:
            return "memory[{}]: interpreted {} / assembled {}".format(a, rv, sv)
    return None


def run_case(text, big, d):
    """Returns (problem, key) for one program; problem None = agreement."""
    path = os.path.join(d, "p.hera")
    with open(path, "w") as f:
        f.write(text)
    code, out, err, vm = interpret(path, big)
    if code != 0 or vm is None:
        return ("skip", None)
    acode, aout, aerr, _ = real_main(["assemble", "--stdout", "--no-color"] + (["--big-stack"] if big else []) + [path])
    if acode != 0:
        return ("`hera assemble` fails (status {}) on a program that `hera` runs: {}".format(acode, aerr[:120]), None)
    zeros, cell, data, words = parse_assembled(aout)
    data_start = 0xC167 if big else 0xC001
    if zeros != data_start - 1 or cell != data_start + len(data):
        return ("data image header is wrong: {}*0, next-free cell 0x{:x} for {} cells from 0x{:x}".format(zeros, cell, len(data), data_start), None)
    image = [(data_start - 1, cell)] + [(data_start + i, v) for i, v in enumerate(data)]
    q = sorted(set([a for a, _ in image] + [a for a, v in enumerate(vm.memory) if v != 0]))
    req = "wordvm {} {} {} {}".format(vm.op_count + 20000, w_list(words), w_list("{} {}".format(a, v) for a, v in image), w_list(q))
    ans = proto.run_herad([req])[0]
    problem = compare(vm, ans, q, data_start - 1)
    if problem is None:
        return (None, None)
    # is it the known, inherent finding (debugging operations occupy instruction slots when interpreting)?
    stripped = strip_debug(text)
    if stripped != text:
        path2 = os.path.join(d, "q.hera")
        with open(path2, "w") as f:
            f.write(stripped)
        c2, o2, e2, vm2 = interpret(path2, big)
        if c2 == 0 and vm2 is not None and compare(vm2, ans, q, data_start - 1) is None:
            return (problem, "debug-ops-occupy-instruction-slots")
    return (problem, None)


def strip_oracle(text, big, d):
    """Deleting the debugging operations leaves the assembler output byte-identical."""
    stripped = strip_debug(text)
    if stripped == text:
        return None
    outs = []
    for name, t in (("a.hera", text), ("b.hera", stripped)):
        path = os.path.join(d, name)
        with open(path, "w") as f:
            f.write(t)
        code, out, err, _ = real_main(["assemble", "--stdout", "--no-color"] + (["--big-stack"] if big else []) + [path])
        outs.append((code, out))
    if outs[0] != outs[1]:
        return "assembler output changes when the debugging operations are deleted from the source"
    return None


def disassembly_oracle(text, big, d):
    """The disassembly of the emitted code re-assembles to the same words."""
    flags = ["--no-color"] + (["--big-stack"] if big else [])
    path = os.path.join(d, "c.hera")
    with open(path, "w") as f:
        f.write(text)
    code, out, err, _ = real_main(["assemble", "--code", "--stdout"] + flags + [path])
    if code != 0:
        return None
    words = [w for w in out.split() if w]
    cpath = os.path.join(d, "c.lcode")
    with open(cpath, "w") as f:
        f.write("\n".join(words) + "\n")
    code2, out2, err2, _ = real_main(["disassemble", "--no-color", cpath])
    if code2 != 0:
        return "`hera disassemble` fails (status {}) on the code that `hera assemble` emitted: {}".format(code2, err2[:100])
    rpath = os.path.join(d, "r.hera")
    with open(rpath, "w") as f:
        f.write(out2)
    code3, out3, err3, _ = real_main(["assemble", "--code", "--stdout", "--no-color", rpath])
    words3 = [w for w in out3.split() if w]
    if code3 != 0 or words3 != words:
        k = next((i for i, (a, b) in enumerate(zip(words, words3)) if a != b), min(len(words), len(words3)))
        return ("the disassembly of the emitted code does not re-assemble to the same words (status {}, word {}: {} -> {!r} -> {})".format(
            code3, k, words[k] if k < len(words) else None, (out2.split("\n") + [""] * (k + 1))[k][:40], words3[k] if k < len(words3) else None))
    return None


def wide_offset_programs():
    """LOAD / STORE with every offset 0..31 (the fifth offset bit sits in the opcode nibble), FON / FOFF / FSET5 with bit 4,
    INC / DEC at both ends"""
    out = []
    for o in range(0, 32, 3):
        out.append("SET(R1, 0x4000)\nSET(R2, {0})\nSTORE(R2, {0}, R1)\nLOAD(R3, {0}, R1)\nSTORE(R3, {1}, R1)\nLOAD(R4, {1}, R1)\nHALT()\n".format(o, 31 - o))
    out.append("FON(31)\nFOFF(16)\nFSET5(21)\nFSET4(15)\nINC(R1, 64)\nDEC(R1, 1)\nINC(R2, 1)\nDEC(R2, 64)\nHALT()\n")
    return out


def debug_runs():
    """runs of 1-4 adjacent debugging operations (the print-a-label-then-a-register idiom) before, inside and after loops
    and forward skips that use relative branches to labels, register branches, CALL and SET of labels"""
    dbg = ['print("x = ")', "print_reg(R1)", 'println("!")', "print_reg(R2)"]
    out = []
    for n in (1, 2, 3, 4):
        run = "\n".join(dbg[:n])
        out.append("SET(R1, 3)\n{0}\nLABEL(loop)\nDEC(R1, 1)\n{0}\nBNZR(loop)\nSET(R2, 5)\nHALT()\n".format(run))
        out.append("SET(R1, 0)\n{0}\nFLAGS(R1)\nBZR(skip)\nSET(R6, 9)\n{0}\nLABEL(skip)\nSET(R7, 1)\n{0}\nBRR(end)\nSET(R7, 2)\nLABEL(end)\nHALT()\n".format(run))
        out.append("{0}\nSET(R1, 2)\nLABEL(top)\n{0}\nDEC(R1, 1)\nBNZ(top)\nCALL(FP_alt, f)\nHALT()\nLABEL(f)\n{0}\nINC(R3, 1)\nRETURN(FP_alt, PC_ret)\n".format(run))
    return out


def check(seed, n):
    violations = []
    evals = 0
    feats = {}
    seen = set()
    d = scratch_dir()
    try:
        planned = debug_runs() + wide_offset_programs()
        for k in range(n + len(planned)):
            if k < len(planned):
                text, fs = planned[k], ["planned"]
            else:
                text, fs = proggen.generate(seed * 5003 + k, wild=False, debug_ops=(k % 2 == 0), strings_wide=(k % 5 == 0))
            big = k % 4 == 1
            for f in fs:
                feats[f] = feats.get(f, 0) + 1
            problem, key = run_case(text, big, d)
            if problem == "skip":
                continue
            evals += 1
            seen.add((text, big))
            case = {"text": text, "big_stack": big}
            proto.sample("asmrun", {"text": text[:400], "big_stack": big})
            if problem:
                v = {"property": "C06", "stream": "asmrun", "sig": "asm-vs-run:" + problem.split(":")[0], "case": case,
                     "what": "assembled program and interpreted source end differently: " + problem}
                if key:
                    v["key"] = key
                violations.append(v)
            sp = strip_oracle(text, big, d)
            if sp:
                violations.append({"property": "C06", "stream": "asmrun", "sig": "strip", "case": case, "what": sp})
            dp = disassembly_oracle(text, big, d)
            if dp:
                violations.append({"property": "C06", "stream": "asmrun", "sig": "disassembly", "case": case, "what": dp})
    finally:
        shutil.rmtree(d, ignore_errors=True)
    return {"evaluations": evals, "violations": violations, "disagreements": [], "distribution": feats, "distinct": len(seen)}
