"""
Checker streams: real parse + check against the Chk model (herad `check`, `tcop`, `oplen`).
"""
import itertools
import random

from . import proto, proggen, progrun
from .enc import w_tok
from .proto import w_list, w_str

MODES = {"": 0, "debug": 1, "assemble": 2, "preprocess": 3}


def hera():
    import hera.parser as P
    import hera.checker as C
    import hera.data as D
    import hera.op as O
    return P, C, D, O


def w_sop(op):
    return "{} {} {}".format(op.__class__.__name__, w_list(w_tok(t) for t in op.tokens), proto.loc_id(op.loc))


def w_symval(v):
    P, C, D, O = hera()
    k = 0 if isinstance(v, D.Label) else 1 if isinstance(v, D.DataLabel) else 2
    return "{} {}".format(k, int(v))


def w_key(k):
    return "S " + w_str(k) if isinstance(k, str) else "I {}".format(k)


def w_msgs(m):
    return "{} {}".format(w_list(w_str(e[0]) for e in m.errors), w_list(w_str(w[0]) for w in m.warnings))


def w_settings(st):
    return "{} {} {} {}".format(MODES[st.mode], 1 if st.allow_interrupts else 0, 1 if st.no_debug_ops else 0, st.data_start)


def parse(text, st):
    """Real parser. Returns (oplist, messages) or raises."""
    P, C, D, O = hera()
    return P.parse(text, settings=st)


HANGS = [0]


def real_check(text, st, limit=20):
    """Returns (canonical line, oplist, program, parse_messages, exception). A front end that does not return within
    `limit` seconds is reported as the exception `parse:Hang` (every caller treats an exception as the front end's fault)."""
    import signal
    from .dbg import Hang, _alarm
    if HANGS[0] >= 3:
        # three texts have already shown that the front end does not return: do not wait for every further one
        return None, None, None, None, "parse:Hang-not-retried"
    old = signal.signal(signal.SIGALRM, _alarm)
    signal.setitimer(signal.ITIMER_REAL, limit)
    try:
        return _real_check(text, st)
    except Hang:
        HANGS[0] += 1
        return None, None, None, None, "parse:Hang"
    finally:
        signal.setitimer(signal.ITIMER_REAL, 0)
        signal.signal(signal.SIGALRM, old)


def _real_check(text, st):
    P, C, D, O = hera()
    with proto.Capture() as cap:
        try:
            oplist, pm = P.parse(text, settings=st)
        except Exception as e:  # noqa
            cap.take()
            return None, None, None, None, "parse:" + type(e).__name__
        if pm.errors:
            cap.take()
            return None, oplist, None, pm, None
        src = " ".join([w_settings(st), w_list(w_sop(o) for o in oplist)])
        try:
            prog, cm = C.check(oplist, st)
        except Exception as e:  # noqa
            cap.take()
            return ("err " + type(e).__name__, src), oplist, None, pm, "check:" + type(e).__name__
        cap.take()
    if cm.errors:
        line = "rejected " + w_msgs(cm)
    else:
        tab = " ".join([str(len(prog.symbol_table))] + ["{} {}".format(w_key(k), w_symval(v)) for k, v in prog.symbol_table.items()])
        rops = lambda ops: w_list("{} {} {}".format(o.__class__.__name__, w_list(w_tok(t) for t in o.tokens), proto.loc_id(o.loc)) for o in ops)  # noqa
        line = "ok {} {} {} {}".format(w_msgs(cm), tab, rops(prog.data), rops(prog.code))
    return (line, src), oplist, prog if not cm.errors else None, pm, None


def check_texts(items):
    """items: dicts(text, mode, big_stack, no_debug_ops). Model vs implementation of check()."""
    reqs, metas = [], []
    violations = []
    stats = {"accepted": 0, "rejected": 0, "parse_errors": 0}
    for it in items:
        st = progrun.make_settings(mode=it.get("mode", ""), big_stack=it.get("big_stack", False),
                                   no_debug_ops=it.get("no_debug_ops", False))
        res, oplist, prog, pm, exc = real_check(it["text"], st)
        if exc:
            violations.append({"property": "C07", "stream": "chk", "sig": "frontend:" + exc, "case": it,
                               "what": "front end raised " + exc})
        if res is None:
            stats["parse_errors"] += 1
            continue
        line, src = res
        stats["accepted" if line.startswith("ok") else "rejected"] += 1
        reqs.append("check " + src)
        metas.append((it, line))
    ans = proto.run_herad(reqs)
    dis = [{"stream": "chk", "case": it, "model": a[:3000], "impl": line[:3000]} for (it, line), a in zip(metas, ans) if a != line]
    return {"evaluations": len(items), "disagreements": dis, "violations": violations, "stats": stats}


def gen_prog_items(seed, n):
    items = []
    for k in range(n):
        text, feats = proggen.generate(seed * 99991 + k, wild=(k % 4 == 0), same_line=True)
        items.append({"text": text, "mode": ["", "debug", "assemble", "preprocess"][k % 4], "big_stack": k % 3 == 0,
                      "no_debug_ops": k % 11 == 0})
    return items


# ---------------------------------------------------------------------------------------------
# the operand grid (C09)

# constants at the boundary values of every operand range, an OPCODE word that is no instruction (0x0123), one that is SWI
# (0x2203), and a constant defined by another constant
CONST_VALUES = {"kc": 5, "kbig": 65535, "kneg": -3, "k0": 0, "k15": 15, "k16": 16, "k31": 31, "k32": 32, "k64": 64, "k65": 65,
                "k127": 127, "k128": 128, "kn128": -128, "kn129": -129, "k255": 255, "k256": 256, "kmin": -32768, "kunk": 0x0123,
                "kswi": 0x2203}
PRELUDE = ("".join("CONSTANT({}, {})\n".format(k, v) for k, v in CONST_VALUES.items()) + "CONSTANT(kk, k64)\nCONSTANT(kk2, kk)\n"
           + "DLABEL(dl)\nINTEGER(1)\nLABEL(lb)\n")
KINDS = {
    "reg": ["R0", "R5", "r15", "Rt", "FP", "SP", "PC_ret", "fp_alt"],
    "badreg": ["R16", "R007"],
    "int": ["0", "1", "-1", "15", "16", "31", "32", "63", "64", "65", "127", "128", "-128", "-129", "255", "256",
            "32767", "-32768", "-32769", "65535", "65536", "0x10", "0b101", "0o17", "'a'"],
    "str": ['"hi"', '""', '"\\777\\x80\\0"'],
    "label": ["lb"],
    "dlabel": ["dl"],
    "const": list(CONST_VALUES) + ["kk", "kk2"],
    "undef": ["nosuch", "pc", "PC"],
}


def grid_cases(thorough, seed):
    P, C, D, O = hera()
    rng = random.Random(seed)
    names = list(O.name_to_class.keys())
    cases = []
    for name in names:
        cls = O.name_to_class[name]
        np = len(cls.P)
        for arity in range(0, 5):
            if arity == 0:
                cases.append((name, []))
                continue
            kinds = list(KINDS.keys())
            combos = list(itertools.product(kinds, repeat=arity))
            if len(combos) > (60 if thorough else 14) or arity != np:
                rng.shuffle(combos)
                combos = combos[: (60 if thorough else 14) if arity == np else (8 if thorough else 2)]
            for combo in combos:
                nvals = 3 if arity == np else 1
                for _ in range(nvals):
                    cases.append((name, [rng.choice(KINDS[k]) for k in combo]))
        # systematic: every value of every kind in each position, others valid
        for pos in range(np):
            valid = []
            for p in cls.P:
                if p in (O.REGISTER, O.REGISTER_OR_LABEL):
                    valid.append("R1")
                elif p == O.STRING:
                    valid.append('"s"')
                elif p == O.LABEL_TYPE:
                    valid.append("newsym")
                elif isinstance(p, range):
                    valid.append(str(p.start))
                else:
                    valid.append("1")
            for k, vals in KINDS.items():
                for v in vals:
                    a = list(valid)
                    a[pos] = v
                    cases.append((name, a))
    return cases


def check_grid(thorough, seed):
    """Single operations after a fixed prelude, in every mode; model vs implementation, and the Spec.Signature oracle."""
    cases = grid_cases(thorough, seed)
    items = []
    modes = ["", "debug", "assemble", "preprocess"]
    for i, (name, args) in enumerate(cases):
        text = PRELUDE + "{}({})\n".format(name, ", ".join(args))
        for m in (modes if (thorough or i % 7 == 0) else [modes[i % 4]]):
            items.append({"text": text, "mode": m, "no_debug_ops": (i % 13 == 0), "op": name, "args": args})
    r = check_texts(items)
    r["grid_cases"] = len(cases)
    return r, items


# ---------------------------------------------------------------------------------------------
# the Spec.Signature oracle: documented rules vs the real checker's verdict

RULE_PROGRAMS = [
    "LABEL(a)\nLABEL(a)\n", "CONSTANT(a, 1)\nLABEL(a)\n", "DLABEL(a)\nINTEGER(1)\nCONSTANT(a, 2)\n",
    "SET(R1, 1)\nINTEGER(5)\n", "LABEL(x)\nINTEGER(5)\n", "INTEGER(5)\nLABEL(x)\nSET(R1, x)\n",
    "SET(R1, k)\nCONSTANT(k, 5)\n", "CONSTANT(k, 5)\nSET(R1, k)\n", "CONSTANT(k, 5)\nDSKIP(k)\nDLABEL(d)\nINTEGER(1)\nSET(R1, d)\n",
    "DSKIP(16382)\nINTEGER(1)\n", "DSKIP(16383)\n", "DSKIP(16383)\nINTEGER(1)\n", "DSKIP(65535)\nDLABEL(d)\nSET(R1,d)\n",
    "CONSTANT(m, 5)\nCONSTANT(n, m)\nSET(R1, n)\n", "CONSTANT(n, m)\nCONSTANT(m, 5)\nSET(R1, n)\n", "CONSTANT(n, n)\n",
    "LABEL(l)\nCONSTANT(n, l)\n", "CONSTANT(m, 3)\nCONSTANT(n, m)\nDLABEL(a)\nDSKIP(n)\nDLABEL(b)\nINTEGER(1)\nSET(R1, b)\n",
    "CONSTANT(m, 70000)\nCONSTANT(n, m)\nSET(R1, n)\n", "CONSTANT(w, 0x0123)\nOPCODE(w)\n", "CONSTANT(w, 0x3180)\nOPCODE(w)\n",
    "SWI(3)\n", "RTI()\n", "OPCODE(0x2200)\n", "OPCODE(0x2300)\n", "CONSTANT(c, 0x2203)\nOPCODE(c)\n", "OPCODE(0xffff)\n",
    "OPCODE(0x2400)\n", "OPCODE(0x0100)\n", "print_reg(R1)\n", "println(\"x\")\n", "__eval(\"1\")\n",
    "INC(R1, lb)\nLABEL(lb)\n", "BR(lb)\nLABEL(lb)\n", "BR(d)\n", "DLABEL(d)\nINTEGER(1)\nBR(d)\n", "CONSTANT(c,1)\nBR(c)\n",
    "BRR(lb)\nLABEL(lb)\n", "DLABEL(d)\nINTEGER(1)\nBRR(d)\n", "DLABEL(d)\nINTEGER(1)\nSETLO(R1, d)\n",
    "DLABEL(d)\nINTEGER(1)\nSET(R1, d)\n", "CALL(FP_alt, f)\nLABEL(f)\nRETURN(FP_alt, PC_ret)\n", "CALL(R12, R13)\n",
    "LABEL(5)\n", "CONSTANT(5, 5)\n", "CONSTANT(\"x\", 5)\nSET(R1, x)\n", "LP_STRING(foo)\n", "TIGER_STRING(\"s\")\n",
    "CONSTANT(big, 65535)\nSETLO(R1, big)\n", "CONSTANT(c, 64)\nINC(R1, c)\n", "CONSTANT(c, 65)\nINC(R1, c)\n",
    "LABEL(a)\nCONSTANT(a, 3)\nSET(R1, a)\n", "SET(R1, 'a')\n", "SET(R1, -'a')\n", "FOO(1)\n",
    # something that is not a symbol "declared" twice: the type check's business, never the redeclaration rule's
    "LABEL(5)\nLABEL(5)\n", "CONSTANT(5, 1)\nCONSTANT(5, 2)\n", "DLABEL(7)\nDLABEL(7)\n", "LABEL(R1)\nLABEL(R1)\n",
    "LABEL(\"s\")\nLABEL(\"s\")\n", "CONSTANT(\"x\", 5)\nCONSTANT(\"x\", 6)\n", "LABEL(\"x\")\nLABEL(x)\n", "LABEL(5)\nCONSTANT(5, 5)\nDLABEL(5)\n",
]


def kind_swap_texts():
    """two operations with the same name and the same operand *numbers*, one well-formed, the other with the kinds of some
    operands exchanged (R5 <-> 5), in both orders: the verdict on an operation must not depend on what was checked before"""
    import hera.op as O
    out = []
    for name in sorted(O.name_to_class):
        P = getattr(O.name_to_class[name], "P", ())
        if not P or any(str(t) in ("STRING", "LABEL_TYPE") for t in P):
            continue
        good = ["R5" if str(t) in ("REGISTER", "REGISTER_OR_LABEL") else "5" for t in P]
        flip = lambda a: "5" if a == "R5" else "R5"
        variants = [[flip(a) if i == k else a for i, a in enumerate(good)] for k in range(len(good))] + [[flip(a) for a in good]]
        g = "{}({})\n".format(name, ", ".join(good))
        for v in variants:
            b = "{}({})\n".format(name, ", ".join(v))
            out += [g + b, b + g, g + g + b]
    return out



def check_signature(items):
    """Spec.Signature.programConforms (herad `sigprog`) vs error emptiness of the real checker."""
    reqs, metas = [], []
    for it in items:
        st = progrun.make_settings(mode=it.get("mode", ""), big_stack=it.get("big_stack", False),
                                   no_debug_ops=it.get("no_debug_ops", False))
        res, oplist, prog, pm, exc = real_check(it["text"], st)
        if res is None or exc:
            continue
        line, src = res
        accepted = line.startswith("ok")
        reqs.append("sigprog " + src)
        metas.append((it, accepted, line))
    ans = proto.run_herad(reqs)
    violations = []
    for (it, accepted, line), a in zip(metas, ans):
        conforms = a == "1"
        if accepted != conforms:
            name = it.get("op") or it["text"].strip().split("\n")[-1].split("(")[0]
            violations.append({"property": "C09", "stream": "sig", "sig": ("accepts:" if accepted else "rejects:") + name,
                               "case": it,
                               "what": "the checker {} a program that {} the documented rules (last line: {})".format(
                                   "accepts" if accepted else "rejects", "violates" if accepted else "obeys",
                                   it["text"].strip().split("\n")[-1])})
    return {"evaluations": len(metas), "violations": violations, "disagreements": []}


# names that look like registers but are not: legal symbols (the documented register spellings are R0..R15, Rt, FP, SP,
# PC_ret, FP_alt in any letter case)
NEAR_REGISTER_NAMES = ["r", "R", "rx", "R16x", "r_1", "Rt_", "fp_", "sp2", "pc", "fpalt", "R1a"]


def check_near_register_names():
    """a program that uses such a name as label, data label and constant conforms to every documented rule: it must be
    accepted in every mode"""
    violations, evals = [], 0
    for n in NEAR_REGISTER_NAMES:
        for text in ("LABEL({0})\nBR({0})\nHALT()\n".format(n), "CONSTANT({0}, 5)\nSET(R1, {0})\n".format(n),
                     "DLABEL({0})\nINTEGER(1)\nSET(R1, {0})\n".format(n)):
            for m in ["", "debug", "assemble", "preprocess"]:
                st = progrun.make_settings(mode=m)
                res, oplist, prog, pm, exc = real_check(text, st)
                evals += 1
                accepted = res is not None and not exc and res[0].startswith("ok")
                if not accepted:
                    violations.append({"property": "C09", "stream": "sig", "sig": "rejects-name:" + n, "case": {"text": text, "mode": m, "names": True},
                                       "what": "the checker rejects a program that obeys the documented rules: `{}` is a legal symbol name ({})".format(
                                           n, text.split("\n")[0])})
    return {"evaluations": evals, "violations": violations, "disagreements": []}


def rule_items():
    items = []
    for text in RULE_PROGRAMS + kind_swap_texts():
        for m in ["", "debug", "assemble", "preprocess"]:
            for nd in (False, True):
                items.append({"text": text, "mode": m, "no_debug_ops": nd})
    return items
