"""
Streams `words` and `instrs` (C05): the real disassemble / assemble / match_bitvector against the Enc model
and against the arithmetic encoding table of Spec.Encoding — exhaustively.
"""
import itertools
import random

from . import proto
from .proto import w_list, w_val


def hera():
    import hera.op as O
    import hera.data as D
    return O, D


def w_tok(t):
    O, D = hera()
    if t.type == D.Token.REGISTER:
        return "R {}".format(t.value)
    if t.type == D.Token.INT:
        return "I {}".format(t.value)
    if t.type == D.Token.SYMBOL:
        return "Y " + proto.w_str(t.value)
    return "S " + proto.w_str(str(t.value))


def w_op(op):
    return "{} {}".format(op.__class__.__name__, w_list(w_tok(t) for t in op.tokens))


def real_dis(v, allow):
    O, D = hera()
    try:
        return "ok " + w_op(O.disassemble(v, allow_unknown=allow))
    except D.HERAError:
        return "err HERAError"
    except Exception as e:  # noqa
        return "err " + type(e).__name__


def encodable_classes():
    O, D = hera()
    res = []
    for c in O.name_to_class.values():
        if c.BITV and c not in res:
            res.append(c)
    return res


def operand_space(O, p):
    if p in (O.REGISTER, O.REGISTER_OR_LABEL):
        return range(16)
    if isinstance(p, range):
        return p
    if p == O.I8_OR_LABEL:
        return range(-128, 256)
    raise ValueError(p)


def all_instances():
    """Every encodable class x every in-range operand tuple."""
    O, D = hera()
    for c in encodable_classes():
        for tup in itertools.product(*[operand_space(O, p) for p in c.P]):
            yield c, list(tup)


def mk_op(c, args):
    O, D = hera()
    toks = []
    for p, a in zip(c.P, args):
        if p in (O.REGISTER, O.REGISTER_OR_LABEL):
            toks.append(D.Token(D.Token.REGISTER, a))
        else:
            toks.append(D.Token(D.Token.INT, a))
    return c(*toks)


def canon_args(c, args):
    O, D = hera()
    out = []
    for p, a in zip(c.P, args):
        if (p == O.I8_OR_LABEL or (isinstance(p, range) and p.start == -128)) and a < 0:
            out.append(a + 256)
        else:
            out.append(a)
    return out


def check_words(thorough):
    """All 65 536 words (+ out-of-range values) through disassemble; model and round-trip oracle."""
    O, D = hera()
    values = list(range(65536)) + [-1, -5, -32768, -65536, 65536, 65537, 0x1A123, 1 << 20, -(1 << 20)]
    reqs, reals = [], []
    violations = []
    by_word = {}
    for v in values:
        for allow in ((False, True) if (v % 97 == 0 or not (0 <= v < 65536)) else (False,)):
            r = real_dis(v, allow)
            reqs.append("dis {} {}".format(1 if allow else 0, v))
            reals.append(r)
        # oracle (decode side of C05)
        try:
            op = O.disassemble(v)
        except D.HERAError:
            op = None
        except Exception as e:  # noqa
            violations.append({"property": "C05", "stream": "words", "sig": "dis:exception", "case": {"word": v},
                               "what": "disassemble({}) raised {}".format(v, type(e).__name__)})
            continue
        if not (0 <= v < 65536):
            if op is not None:
                violations.append({"property": "C05", "stream": "words", "sig": "dis:range", "case": {"word": v},
                                   "what": "disassemble({}) decoded a value outside 0..0xFFFF as {}".format(v, op)})
            continue
        if op is not None:
            try:
                b = op.assemble()
                w2 = (b[0] << 8) + b[1]
            except Exception as e:  # noqa
                w2 = "exception " + type(e).__name__
            msgs = op.typecheck({}).errors
            if w2 != v:
                violations.append({"property": "C05", "stream": "words", "sig": "dis:reassemble:" + op.name, "case": {"word": v},
                                   "what": "word 0x{:04x} disassembles to {} which re-assembles to {}".format(
                                       v, op, hex(w2) if isinstance(w2, int) else w2)})
            elif msgs:
                violations.append({"property": "C05", "stream": "words", "sig": "dis:invalid:" + op.name, "case": {"word": v},
                                   "what": "word 0x{:04x} disassembles to {} which the type checker rejects ({})".format(
                                       v, op, msgs[0][0])})
            by_word[v] = op
    ans = proto.run_herad(reqs)
    dis = [{"stream": "words", "case": {"req": q}, "model": a, "impl": r} for q, a, r in zip(reqs, ans, reals) if a != r]
    n = len(reqs)
    if thorough:
        # match_bitvector of every pattern against every word
        reqs2, reals2 = [], []
        for c in encodable_classes():
            for v in range(65536):
                m = O.match_bitvector(c.BITV, v)
                reals2.append("no" if m is False else "ok " + w_list(w_tok(t) for t in m))
                reqs2.append("match {} {}".format(c.__name__, v))
        ans2 = proto.run_herad(reqs2)
        dis += [{"stream": "words", "case": {"req": q}, "model": a, "impl": r} for q, a, r in zip(reqs2, ans2, reals2) if a != r]
        n += len(reqs2)
    return {"evaluations": n, "disagreements": dis, "violations": violations, "decoded": len(by_word)}, by_word


def check_instances(by_word):
    """Every valid instance: assemble (model + Spec.encode), decode-complete, injectivity."""
    O, D = hera()
    reqs_asm, reqs_spec, metas = [], [], []
    violations = []
    seen_word = {}
    for c, args in all_instances():
        op = mk_op(c, args)
        try:
            b = op.assemble()
            real = "ok 2 {} {}".format(b[0], b[1])
            w = (b[0] << 8) + b[1]
        except Exception as e:  # noqa
            real = "err " + type(e).__name__
            w = None
            violations.append({"property": "C05", "stream": "instrs", "sig": "asm:exception:" + c.__name__,
                               "case": {"cls": c.__name__, "args": args},
                               "what": "{}{} cannot be assembled: {}".format(c.__name__, tuple(args), type(e).__name__)})
        reqs_asm.append("asm {} {}".format(c.__name__, w_list(w_val(a) for a in args)))
        reqs_spec.append("specenc {} {}".format(c.__name__, w_list(args)))
        metas.append((c, args, real, w))
        if w is not None:
            key = (c.__name__, tuple(canon_args(c, args)))
            other = seen_word.get(w)
            if other is not None and other != key:
                violations.append({"property": "C05", "stream": "instrs", "sig": "asm:shared-word",
                                   "case": {"cls": c.__name__, "args": args},
                                   "what": "{}{} and {}{} share the word 0x{:04x}".format(c.__name__, tuple(args), other[0], other[1], w)})
            seen_word[w] = key
            back = by_word.get(w)
            if back is None or back.__class__ is not c or list(back.args) != canon_args(c, args):
                violations.append({"property": "C05", "stream": "instrs", "sig": "asm:decode:" + c.__name__,
                                   "case": {"cls": c.__name__, "args": args},
                                   "what": "{}{} assembles to 0x{:04x}, which disassembles to {}".format(c.__name__, tuple(args), w, back)})
    ans_asm = proto.run_herad(reqs_asm)
    ans_spec = proto.run_herad(reqs_spec)
    dis = []
    for (c, args, real, w), aa, asp, q in zip(metas, ans_asm, ans_spec, reqs_asm):
        if aa != real:
            dis.append({"stream": "instrs", "case": {"req": q}, "model": aa, "impl": real})
        if w is not None and asp != "ok {}".format(w):
            violations.append({"property": "C05", "stream": "instrs", "sig": "asm:table:" + c.__name__,
                               "case": {"cls": c.__name__, "args": args},
                               "what": "{}{} assembles to 0x{:04x} but the HERA encoding table gives {}".format(
                                   c.__name__, tuple(args), w, asp)})
    return {"evaluations": len(metas), "disagreements": dis, "violations": violations}


def check_out_of_range(seed, n):
    """Model vs implementation on operands outside the documented ranges (translator validation of assemble)."""
    O, D = hera()
    rng = random.Random(seed)
    cls = encodable_classes() + [O.OPCODE, O.INTEGER, O.DSKIP, O.LP_STRING, O.PRINT, O.PRINT_REG]
    reqs, reals = [], []
    for _ in range(n):
        c = rng.choice(cls)
        args = []
        for p in c.P:
            if p == O.STRING:
                args.append("".join(rng.choice("ab \n\x00\x7f") for _ in range(rng.choice([0, 1, 3, 300]))))
            else:
                args.append(rng.choice([0, 1, 15, 16, 31, 32, 63, 64, 65, 127, 128, 255, 256, 300, 65535, 65536, -1, -128, -129,
                                        -32768, -32769, 70000, rng.randint(-70000, 70000)]))
        if c is O.DSKIP:
            args[0] = rng.choice([0, 1, 5, 300, -1, -5])
        try:
            op = c(*[D.Token(D.Token.STRING if isinstance(a, str) else D.Token.INT, a) for a in args])
            b = op.assemble()
            real = "none" if b is None else "ok " + w_list(list(b))
        except Exception as e:  # noqa
            real = "err " + type(e).__name__
        reqs.append("asm {} {}".format(c.__name__, w_list(w_val(a) for a in args)))
        reals.append(real.replace("err error", "err ValueError"))
    ans = proto.run_herad(reqs)
    dis = [{"stream": "asm-oor", "case": {"req": q}, "model": a, "impl": r} for q, a, r in zip(reqs, ans, reals)
           if a != r and not (a.startswith("err") and r.startswith("err"))]
    return {"evaluations": n, "disagreements": dis, "violations": []}
