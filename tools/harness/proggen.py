"""
Type-directed generator of HERA source programs (stream `prog`).

Programs are mostly valid and terminate by construction: backward branches are guarded by a
down-counter, calls go to functions placed after the final HALT. `wild=True` adds control
flow that leaves the program at either end (register branches to arbitrary values, relative
branches backwards past instruction 0), which also terminates (the run simply ends).

A program is a list of source lines; `render` gives the text. Every label is followed by a
marker `SET(R10, k)` so that oracles can tell where control arrived.
"""
import random

REGS = ["R1", "R2", "R3", "R4", "R5", "R6", "R7", "R8"]
ALU3 = ["ADD", "SUB", "MUL", "AND", "OR", "XOR"]
SHIFT = ["LSL", "LSR", "LSL8", "LSR8", "ASL", "ASR"]
BRANCHES = ["BR", "BL", "BGE", "BLE", "BG", "BULE", "BUG", "BZ", "BNZ", "BC", "BNC", "BS", "BNS", "BV", "BNV"]
VALUES = [0, 1, 2, 5, 0x7F, 0x80, 0xFF, 0x100, 0x7FFF, 0x8000, 0xFFFF, -1, -2, -128, -32768, 1000, 0xC001]


class Gen:
    def __init__(self, rng, *, debug_ops=True, wild=False, data=True, calls=True, size=None, pseudo=True,
                 relative=True, opcode=True, strings_wide=False, same_line=False):
        self.rng = rng
        self.debug_ops = debug_ops
        self.wild = wild
        self.data = data
        self.calls = calls
        self.pseudo = pseudo
        self.relative = relative
        self.opcode = opcode
        self.strings_wide = strings_wide
        self.same_line = same_line
        self.size = size if size is not None else rng.choice([3, 6, 10, 16, 25])
        self.nlabel = 0
        self.dlabels = []
        self.constants = []
        self.functions = []
        self.lines = []
        self.features = set()

    def reg(self):
        return self.rng.choice(REGS)

    def val16(self):
        r = self.rng
        return r.choice(VALUES) if r.random() < 0.6 else r.randint(-32768, 65535)

    def string(self):
        r = self.rng
        n = r.choice([0, 1, 2, 5, 12])
        if self.strings_wide:
            alphabet = [chr(c) for c in range(32, 127)] + ["\n", "\t", "\\", '"']
        else:
            alphabet = list("abcXYZ 019_,.!") + ["\n", "\t", "\\", '"']
        s = "".join(r.choice(alphabet) for _ in range(n))
        return s

    @staticmethod
    def quote(s):
        out = []
        for c in s:
            if c == "\n":
                out.append("\\n")
            elif c == "\t":
                out.append("\\t")
            elif c == "\\":
                out.append("\\\\")
            elif c == '"':
                out.append('\\"')
            else:
                out.append(c)
        return '"' + "".join(out) + '"'

    def new_label(self, prefix="L"):
        self.nlabel += 1
        return "{}{}".format(prefix, self.nlabel)

    def emit(self, line):
        self.lines.append(line)

    # ---------------------------------------------------------------------------------------
    def gen_data(self):
        r = self.rng
        for _ in range(r.choice([0, 1, 2, 4])):
            k = r.random()
            if k < 0.25:
                name = self.new_label("K")
                self.constants.append(name)
                self.emit("CONSTANT({}, {})".format(name, r.choice([0, 1, 5, 20, 100, -3, 300])))
                self.features.add("CONSTANT")
            else:
                name = self.new_label("D")
                self.dlabels.append(name)
                self.emit("DLABEL({})".format(name))
                for _ in range(r.choice([1, 1, 2])):
                    j = r.random()
                    if j < 0.45:
                        self.emit("INTEGER({})".format(self.val16()))
                        self.features.add("INTEGER")
                    elif j < 0.8:
                        self.emit("LP_STRING({})".format(self.quote(self.string())))
                        self.features.add("LP_STRING")
                    else:
                        n = r.choice([0, 1, 3, 10])
                        if self.constants and r.random() < 0.3:
                            pos = [c for c in self.constants]
                            self.emit("DSKIP({})".format(n))
                        else:
                            self.emit("DSKIP({})".format(n))
                        self.features.add("DSKIP")

    def simple_op(self):
        r = self.rng
        k = r.random()
        if k < 0.22:
            tgt = self.val16()
            if self.dlabels and r.random() < 0.3:
                tgt = r.choice(self.dlabels)
            elif self.constants and r.random() < 0.2:
                tgt = r.choice(self.constants)
            self.features.add("SET")
            return "SET({}, {})".format(self.reg(), tgt)
        if k < 0.42:
            op = r.choice(ALU3)
            self.features.add(op)
            return "{}({}, {}, {})".format(op, self.reg(), self.reg(), self.reg())
        if k < 0.5:
            op = r.choice(["INC", "DEC"])
            return "{}({}, {})".format(op, self.reg(), r.choice([1, 2, 31, 63, 64]))
        if k < 0.58:
            op = r.choice(SHIFT)
            return "{}({}, {})".format(op, self.reg(), self.reg())
        if k < 0.66:
            op = r.choice(["CON()", "COFF()", "CBON()", "CCBOFF()", "FON({})".format(r.randint(0, 31)),
                           "FOFF({})".format(r.randint(0, 31)), "FSET5({})".format(r.randint(0, 31)),
                           "FSET4({})".format(r.randint(0, 15)), "SAVEF({})".format(self.reg()),
                           "RSTRF({})".format(self.reg())])
            self.features.add("flags")
            return op
        if k < 0.76 and self.pseudo:
            op = r.choice(["MOVE({}, {})".format(self.reg(), self.reg()), "CMP({}, {})".format(self.reg(), self.reg()),
                           "NEG({}, {})".format(self.reg(), self.reg()), "NOT({}, {})".format(self.reg(), self.reg()),
                           "FLAGS({})".format(self.reg()), "NOP()",
                           "SETRF({}, {})".format(self.reg(), self.val16())])
            self.features.add("pseudo")
            return op
        if k < 0.84:
            base = self.reg()
            if self.dlabels and r.random() < 0.8:
                self.emit("SET({}, {})".format(base, r.choice(self.dlabels)))
            op = r.choice(["LOAD", "STORE"])
            self.features.add(op)
            return "{}({}, {}, {})".format(op, self.reg(), r.choice([0, 1, 2, 31]), base)
        if k < 0.9 and self.debug_ops:
            self.features.add("debug")
            return r.choice(["print_reg({})".format(self.reg()), "print({})".format(self.quote(self.string())),
                             "println({})".format(self.quote(self.string()))])
        if k < 0.94:
            return "SETLO({}, {})".format(self.reg(), r.choice([-128, -1, 0, 1, 127, 128, 200, 255]))
        if k < 0.97 and self.opcode:
            self.features.add("OPCODE")
            # a few harmless real instructions given as raw words
            return "OPCODE({})".format(r.choice(["0xa123", "0x3180", "0xe1ff", "0x0001", "0x3068"]))
        return "SETHI({}, {})".format(self.reg(), r.choice([-128, -1, 0, 1, 127, 128, 255]))

    def block(self, n, depth=0):
        r = self.rng
        i = 0
        while i < n:
            k = r.random()
            if k < 0.62 or depth > 1:
                self.emit(self.simple_op())
            elif k < 0.74:
                # forward conditional branch over a few ops
                lbl = self.new_label()
                br = r.choice(BRANCHES)
                self.features.add("branch-forward")
                if self.relative and r.random() < 0.3:
                    self.emit("{}R({})".format(br, lbl))
                    self.features.add("relative-label")
                else:
                    self.emit("{}({})".format(br, lbl))
                self.block(r.choice([1, 2, 3]), depth + 1)
                self.emit("LABEL({})".format(lbl))
                self.emit("SET(R10, {})".format(self.nlabel))
            elif k < 0.82:
                # counted loop (R9 is reserved for the counter; the body never writes it)
                lbl = self.new_label()
                self.features.add("loop")
                self.emit("SET(R9, {})".format(r.choice([1, 2, 3])))
                self.emit("LABEL({})".format(lbl))
                self.emit("SET(R10, {})".format(self.nlabel))
                self.block(r.choice([1, 2, 3]), depth + 2)
                self.emit("DEC(R9, 1)")
                if self.relative and r.random() < 0.3:
                    self.emit("BNZR({})".format(lbl))
                    self.features.add("relative-label")
                else:
                    self.emit("BNZ({})".format(lbl))
            elif k < 0.88 and self.calls:
                f = self.new_label("f")
                self.functions.append(f)
                self.features.add("call")
                self.emit("CALL(FP_alt, {})".format(f))
            elif k < 0.92 and self.relative:
                # literal relative branch forward over one or two simple ops
                j = r.choice([1, 2])
                self.features.add("relative-literal")
                self.emit("{}R({})".format(r.choice(BRANCHES), j + 1))
                for _ in range(j):
                    self.emit(r.choice(["INC(R5, 1)", "ADD(R6, R6, R5)", "LSL(R7, R7)"]))
            elif k < 0.95:
                # register branch through a register
                lbl = self.new_label()
                self.features.add("branch-register")
                self.emit("SET(R8, {})".format(lbl))
                self.emit("BR(R8)")
                self.emit(self.simple_op())
                self.emit("LABEL({})".format(lbl))
                self.emit("SET(R10, {})".format(self.nlabel))
            elif self.wild:
                self.features.add("wild")
                w = r.random()
                if w < 0.4:
                    self.emit("SET(R8, {})".format(r.choice([0xFFFF, 0x8000, 30000, 65534])))
                    self.emit("{}(R8)".format(r.choice(BRANCHES)))
                elif w < 0.8:
                    self.emit("{}R({})".format(r.choice(BRANCHES), r.choice([-128, -100, -60, 200, 255, 127, 100])))
                else:
                    self.emit("SET(R8, 0xFFFF)")
                    self.emit("CALL(R12, R8)")
            else:
                self.emit(self.simple_op())
            i += 1

    def gen_function(self, name):
        r = self.rng
        self.emit("LABEL({})".format(name))
        self.emit("SET(R10, {})".format(100 + len(self.lines)))
        for _ in range(r.choice([0, 1, 2])):
            self.emit(self.simple_op())
        self.emit("RETURN(FP_alt, PC_ret)")

    def generate(self):
        if self.data and self.rng.random() < 0.7:
            self.gen_data()
        self.block(self.size)
        if self.functions or self.rng.random() < 0.5:
            self.emit("HALT()")
        fs = list(self.functions)
        for f in fs:
            self.gen_function(f)
        return self

    def render(self):
        """Layout: one operation per line, commented/indented, or several operations sharing a source line."""
        r = self.rng
        style = r.random()
        out = []
        for line in self.lines:
            if style < 0.15:
                out.append("  " + line + "  // c")
            elif self.same_line and 0.15 <= style < 0.4 and out and r.random() < 0.4 and not out[-1].endswith("// c"):
                out[-1] = out[-1] + r.choice([" ", "  ", "\t"]) + line
            else:
                out.append(line)
        return "\n".join(out) + "\n"


def generate(seed, **kw):
    rng = random.Random(seed)
    g = Gen(rng, **kw).generate()
    return g.render(), sorted(g.features)
