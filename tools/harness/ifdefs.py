"""
Streams for C16 (conditional compilation): parser.evaluate_ifdefs vs the Ifdef model (herad `ifdef`) and vs the C-preprocessor
specification Cpp.keep on rendered well-nested structures.
"""
import random

from . import proto

JUNK = ["int main() { return 0; }", "#include <HERA.h>", "SET(R1, 5)", "{{{ ((( \"unterminated", "/* comment", "'x", "#define FOO 1",
        "#ifdefX", "# ifdef A", "text #ifdef A", "void HERA_main() {", "}", "", "   ", "\t", "#else junk", "#endif // c", "ifdef HERA_PY"]
# near misses of the one defined symbol: other names, case variants, proper substrings, prefixes and extensions
SYMS = ["HERA_C", "FOO", "_x1", "HERA_PYX", "hera_py", "HERA", "PY", "A", "_", "H", "HERA_P", "ERA_PY", "HERA_PY_", "XHERA_PY", "HERA_Py",
        "HERA_PY2", "HERA_CPP", "Y"]


def pick_sym(rng):
    return "HERA_PY" if rng.random() < 0.4 else rng.choice(SYMS)


def gen_tree(rng, depth):
    """A list of nodes: ('text', s) | ('cond', negated, sym, then, else or None)."""
    nodes = []
    for _ in range(rng.choice([1, 2, 3])):
        if depth > 0 and rng.random() < 0.5:
            els = gen_tree(rng, depth - 1) if rng.random() < 0.5 else None
            nodes.append(("cond", rng.random() < 0.4, pick_sym(rng), gen_tree(rng, depth - 1), els))
        else:
            lines = [rng.choice(JUNK) if rng.random() < 0.7 else "ADD(R{},R1,R2)".format(rng.randint(0, 15)) for _ in range(rng.choice([1, 1, 2, 3]))]
            nodes.append(("text", "\n".join(lines) + "\n"))
    return nodes


def render(nodes, rng):
    out = []
    for n in nodes:
        if n[0] == "text":
            out.append(n[1])
        else:
            _, neg, sym, thn, els = n
            pad = rng.choice(["", "", "  ", "\t"])
            trail = rng.choice(["", "", " ", "\t "])
            out.append("{}#{} {}{}\n".format(pad, "ifndef" if neg else "ifdef", rng.choice([" ", "  ", "\t"]).join(["", sym]).strip() if False else sym, trail))
            out.append(render(thn, rng))
            if els is not None:
                out.append("{}#else{}\n".format(pad, trail))
                out.append(render(els, rng))
            out.append("{}#endif{}\n".format(pad, trail))
    return "".join(out)


def keep(nodes):
    """Reference C-preprocessor semantics computed on the structure (only HERA_PY defined)."""
    out = []
    for n in nodes:
        if n[0] == "text":
            out.append(n[1])
        else:
            _, neg, sym, thn, els = n
            if (sym == "HERA_PY") != neg:
                out.append(keep(thn))
            elif els is not None:
                out.append(keep(els))
    return "".join(out)


def has_directive_like_text(nodes):
    return False


def mutate(text, rng):
    ops = rng.choice([1, 1, 2])
    t = text
    for _ in range(ops):
        if not t:
            break
        i = rng.randrange(len(t))
        k = rng.random()
        if k < 0.3:
            t = t[:i] + t[i + 1:]
        elif k < 0.6:
            t = t[:i] + rng.choice(["\n", " ", "#", "\t", "\r", "\x0b", "#else\n", "#endif", "\n\n", "\x1c"]) + t[i:]
        else:
            j = rng.randrange(len(t))
            t = t[:min(i, j)] + t[max(i, j):]
    return t


SOUP = ["#endif", "#else", "#ifdef HERA_PY", "#ifdef HERA_C", "#ifndef HERA_PY", "#ifndef X", "SET(R1, 1)", "", "  #endif  ", "\t#else",
        "#endif // c", "#ifdef", "junk {"]


def soup(rng):
    """directive lines in any order and balance: closers that close nothing, openers that are never closed, doubled #else"""
    return "\n".join(rng.choice(SOUP) for _ in range(rng.choice([1, 2, 2, 3, 4, 6, 9]))) + rng.choice(["", "\n"])


def check(seed, n):
    import hera.parser as P
    rng = random.Random(seed)
    reqs, reals = [], []
    violations = []
    cases = []
    for k in range(n):
        tree = gen_tree(rng, rng.choice([0, 1, 2, 3, 4, 5]))
        text = render(tree, rng)
        kind = "tree"
        if k % 3 == 2:
            text = mutate(text, rng)
            kind = "mutated"
        elif k % 7 == 3:
            text = soup(rng)
            kind = "soup"
        try:
            real = P.evaluate_ifdefs(text)
        except Exception as e:  # noqa
            # no result at all: the front end is not total (C07) and nothing is kept by any rule (C16)
            for pid in ("C07", "C16"):
                violations.append({"property": pid, "stream": "ifdef", "sig": "ifdef:exception", "case": {"text": text},
                                   "what": "evaluate_ifdefs raised {} on {!r}".format(type(e).__name__, text[:80])})
            continue
        reqs.append("ifdef " + proto.w_str(text))
        reals.append(proto.w_str(real))
        cases.append(text)
        proto.sample("ifdef", {"text": text[:300]})
        if kind == "tree":
            # Spec oracle: the kept text must be what a C preprocessor keeps (compared token-wise: whitespace-insensitive)
            exp = keep(tree)
            junk_directive = any(l.strip().split(" ")[0] in ("#else", "#endif") and l.strip() in ("#else", "#endif")
                                 for n_ in [exp] for l in n_.split("\n"))
            if real.split() != exp.split():
                violations.append({"property": "C16", "stream": "ifdef", "sig": "ifdef:keep", "case": {"text": text},
                                   "what": "conditional compilation keeps {!r}..., a C preprocessor with only HERA_PY defined keeps {!r}...".format(
                                       " ".join(real.split())[:120], " ".join(exp.split())[:120])})
    ans = proto.run_herad(reqs)
    dis = [{"stream": "ifdef", "case": {"text": c}, "model": a[:500], "impl": r[:500]} for c, a, r in zip(cases, ans, reals) if a != r]
    return {"evaluations": len(cases), "violations": violations, "disagreements": dis,
            "distinct": len({c for c in cases if "#" in c})}


def cpp_reference(text):
    """A line-based C preprocessor with only HERA_PY defined (#ifdef / #ifndef / #else / #endif on lines of their own)."""
    import re
    out, stack = [], []          # stack of (enclosing kept, this branch kept, seen else)
    for line in text.split("\n"):
        t = line.strip()
        m = re.match(r"^#(ifdef|ifndef)\s+([A-Za-z_][A-Za-z0-9_]*)$", t)
        kept = all(s[1] for s in stack)
        if m:
            cond = (m.group(2) == "HERA_PY") != (m.group(1) == "ifndef")
            stack.append([kept, kept and cond, False])
        elif t == "#else" and stack:
            stack[-1][1] = stack[-1][0] and not stack[-1][1] and not stack[-1][2]
            stack[-1][2] = True
        elif t == "#endif" and stack:
            stack.pop()
        elif kept:
            out.append(line)
    return "\n".join(out)


def replay_case(case):
    import hera.parser as P
    text = case["text"]
    try:
        real = P.evaluate_ifdefs(text)
    except Exception as e:  # noqa
        return "evaluate_ifdefs raised " + type(e).__name__
    exp = cpp_reference(text)
    if real.split() != exp.split():
        return "conditional compilation keeps {!r}..., a C preprocessor with only HERA_PY defined keeps {!r}...".format(
            " ".join(real.split())[:120], " ".join(exp.split())[:120])
    return None
