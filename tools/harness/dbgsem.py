"""
Streams for C11 / C12 / C13: debugger sessions on the real Shell against
  * the plain interpreter (C11: final state, output, warnings),
  * a reference stepper built from the interpreter's single step and the source map (C12: extent of next / step /
    continue, breakpoints, the displayed line),
  * snapshots (C13: undo restores, restart = fresh session + breakpoints),
and against the Lean debugger model (herad `dbg`): correspondence.
"""
import random
import re

from . import dbg, proggen, progrun, proto

RECURSION = """
SET(R1, 4)
SET(R2, 0)
MOVE(FP_alt, SP)
CALL(FP_alt, down)
SET(R5, 77)
HALT()
LABEL(down)
INC(SP, 2)
STORE(PC_ret, 0, FP)
STORE(FP_alt, 1, FP)
ADD(R2, R2, R1)
DEC(R1, 1)
BZ(done)
MOVE(FP_alt, SP)
CALL(FP_alt, down)
LABEL(done)
LOAD(PC_ret, 0, FP)
LOAD(FP_alt, 1, FP)
DEC(SP, 2)
RETURN(FP_alt, PC_ret)
"""

NESTED = """
DLABEL(buf)
INTEGER(5)
LP_STRING("ab")
SET(R1, 1)
CALL(FP_alt, f)
CALL(FP_alt, f)
INC(R1, 1)
INC(R1, 1)
BRR(2)
BRR(2)
INC(R6, 1)
INC(R6, 2)
print_reg(R1)
HALT()
LABEL(f)
MOVE(R8, PC_ret)
MOVE(R9, FP_alt)
CALL(FP_alt, g)
MOVE(PC_ret, R8)
MOVE(FP_alt, R9)
RETURN(FP_alt, PC_ret)
LABEL(g)
ADD(R1, R1, R1)
NOT(R3, R1)
NEG(R4, R1)
SETRF(R7, -1)
CMP(R1, R3)
RETURN(FP_alt, PC_ret)
"""

WARNS = """
SET(R1, 5)
CALL(FP_alt, f)
SET(R2, 1)
HALT()
LABEL(f)
INC(R1, 1)
SET(R13, 7)
RETURN(FP_alt, PC_ret)
"""

SAME_LINE = """
SET(R1, 5) SET(R2, 5)
CMP(R1, R2) BZ(equal) SET(R3, 111)
LABEL(equal) SET(R4, 222) CALL(FP_alt, f) INC(R4, 1)
HALT() SET(R6, 1)
LABEL(f) INC(R5, 1) RETURN(FP_alt, PC_ret) INC(R5, 7)
"""

MUTUAL = """
SET(R1, 5)
MOVE(FP_alt, SP)
CALL(FP_alt, even)
SET(R6, 9)
HALT()
LABEL(even)
INC(SP, 2)
STORE(PC_ret, 0, FP)
STORE(FP_alt, 1, FP)
DEC(R1, 1)
BS(evdone)
MOVE(FP_alt, SP)
CALL(FP_alt, odd)
INC(R2, 1)
LABEL(evdone)
LOAD(PC_ret, 0, FP)
LOAD(FP_alt, 1, FP)
DEC(SP, 2)
RETURN(FP_alt, PC_ret)
LABEL(odd)
INC(SP, 2)
STORE(PC_ret, 0, FP)
STORE(FP_alt, 1, FP)
DEC(R1, 1)
BS(oddone)
MOVE(FP_alt, SP)
CALL(FP_alt, even)
INC(R3, 1)
LABEL(oddone)
LOAD(PC_ret, 0, FP)
LOAD(FP_alt, 1, FP)
DEC(SP, 2)
RETURN(FP_alt, PC_ret)
"""

FIXED = [RECURSION, NESTED, WARNS, SAME_LINE, MUTUAL]


def gen_program(rng, seed):
    k = rng.random()
    if k < 0.12:
        return rng.choice(FIXED)
    text, feats = proggen.generate(seed, size=rng.choice([4, 8, 12]), wild=(rng.random() < 0.15))
    lines = text.split("\n")
    # adjacent identical operations (the debugger groups real ops by their source op)
    out = []
    for l in lines:
        out.append(l)
        if l and not l.startswith(("LABEL", "DLABEL", "CONSTANT", "HALT", "RETURN")) and rng.random() < 0.15:
            out.append(l)
    if rng.random() < 0.35:
        # a label that names the very first instruction (after the data statements) and one at the very end
        i = 0
        while i < len(out) and out[i].split("(")[0].strip() in ("CONSTANT", "DLABEL", "INTEGER", "LP_STRING", "DSKIP", ""):
            i += 1
        out.insert(i, "LABEL(top0)")
        out.append("LABEL(bottom0)")
    if rng.random() < 0.3:
        # several operations on one source line
        joined = []
        for l in out:
            if joined and l and joined[-1] and rng.random() < 0.45:
                joined[-1] = joined[-1] + " " + l
            else:
                joined.append(l)
        out = joined
    return "\n".join(out)


# ---------------------------------------------------------------------------------------------------------

def source_map(text, settings, ncode):
    """[(first pc, end pc, source line, operation name)] per instruction, from the text alone; None when it cannot be
    built or does not cover the program (then the stamps are used as before)"""
    import hera.parser as P
    import hera.checker as C
    with proto.Capture() as cap:
        try:
            ops, msgs = P.parse(text, settings=settings)
        except BaseException:  # noqa
            cap.take()
            return None
        cap.take()
    out = []
    for op in ops:
        if op.name in ("LABEL", "DLABEL", "CONSTANT", "INTEGER", "DSKIP", "LP_STRING", "TIGER_STRING"):
            continue
        try:
            n = int(C.operation_length(op))
        except BaseException:  # noqa
            return None
        start = len(out)
        out += [(start, start + n, op.loc.line, op.name)] * n
    return out if len(out) == ncode else None


class Ref:
    """Reference stepper: the interpreter's single step (real op.execute following pc) + the source map."""

    def __init__(self, prog, settings, text=None):
        import hera.vm as V
        self.prog = prog
        self.code = prog.code
        # the source map (which instructions belong to which source operation, and its line) is computed from the text
        # by parsing it again and adding up operation lengths - not read off the `original` / `loc` stamps that
        # convert_ops puts on the real operations, which are part of what is being checked
        self.map = source_map(text, settings, len(prog.code)) if text is not None else None
        self.vm = V.VirtualMachine(settings)
        for d in prog.data:
            d.execute(self.vm)
        self.calls = 0
        self.breaks = set()

    def finished(self):
        return self.vm.halted or not (0 <= self.vm.pc < len(self.code))

    def group_end(self, pc):
        if self.map is not None:
            return self.map[pc][1]
        e = pc
        while e < len(self.code) and self.code[e].original is self.code[pc].original:
            e += 1
        return e

    def source_op(self):
        """execute the rest of the current source operation, instruction by instruction"""
        if self.finished():
            return
        k = self.group_end(self.vm.pc) - self.vm.pc
        for _ in range(k):
            if self.finished():
                break
            op = self.code[self.vm.pc]
            if op.name == "CALL":
                self.calls += 1
            elif op.name == "RETURN":
                self.calls -= 1
            op.execute(self.vm)

    def at_break(self):
        return not self.finished() and self.vm.pc in self.breaks

    def source_name(self, pc):
        return self.map[pc][3] if self.map is not None else self.code[pc].original.name

    def next(self):
        if self.finished():
            return
        if self.source_name(self.vm.pc) == "CALL":
            c0 = self.calls
            self.source_op()
            while not self.finished() and not self.at_break() and self.calls > c0:
                self.source_op()
        else:
            self.source_op()

    def step(self):
        if self.finished() or self.source_name(self.vm.pc) != "CALL":
            return False
        self.source_op()
        return True

    def cont(self):
        self.source_op()
        while not self.finished() and not self.at_break():
            self.source_op()

    def line_to_pc(self, line):
        if self.map is not None:
            for pc, m in enumerate(self.map):
                if m[2] == line:
                    return pc
            return None
        for pc, op in enumerate(self.code):
            if op.loc.line == line:
                return pc
        return None

    def shown(self):
        """what the debugger must show: the source line of the next instruction, or None when finished"""
        if self.finished():
            return None
        if self.map is not None:
            return self.map[self.vm.pc][2]
        return self.code[self.vm.pc].original.loc.line


def calls_of(d):
    """the debugger's step-over bookkeeping (open calls); a debugger that keeps it elsewhere is observed as -999, which the
    model never produces: a disagreement of the correspondence, not an error of the machinery"""
    try:
        return int(d.calls)
    except Exception:  # noqa
        return -999


def state_of(vm):
    mem = tuple((a, int(v)) for a, v in enumerate(vm.memory) if v != 0)
    return (tuple(int(r) for r in vm.registers), (vm.flag_sign, vm.flag_zero, vm.flag_overflow, vm.flag_carry, vm.flag_carry_block),
            int(vm.pc), bool(vm.halted), mem)


def diff_state(a, b):
    names = ["registers", "flags", "pc", "halted", "memory"]
    for n, x, y in zip(names, a, b):
        if x != y:
            if n == "memory":
                d = sorted(set(x) ^ set(y))[:4]
                return "memory differs at {}".format(d)
            return "{}: {} vs {}".format(n, x, y)
    return None


MARK_A, MARK_B = "\x01<<", ">>\x02"


def instrument(shell):
    """Harness-side wrapper: bracket the debugger's own display so that program output can be told apart."""
    orig = shell.print_current_op

    def wrapped():
        print(MARK_A, end="")
        try:
            orig()
        finally:
            print(MARK_B, end="")
    shell.print_current_op = wrapped


def split_output(out):
    """(program output, list of display blocks)"""
    blocks = re.findall(re.escape(MARK_A) + r"(.*?)" + re.escape(MARK_B), out, flags=re.S)
    rest = re.sub(re.escape(MARK_A) + r".*?" + re.escape(MARK_B), "", out, flags=re.S)
    return rest, blocks


def shown_line(block):
    """line number carrying the '->' marker in a display block, None if finished, -1 if unparseable"""
    if "Program has finished executing." in block:
        return None
    for l in block.split("\n"):
        m = re.match(r"\s*->\s+(\d+)", l)
        if m:
            return int(m.group(1))
    return -1


def gen_run_cmds(rng, nbreak_lines):
    n = rng.choice([0, 1, 3, 6, 10, 20])
    cmds = []
    for _ in range(n):
        k = rng.random()
        if k < 0.45:
            cmds.append("next")
        elif k < 0.6:
            cmds.append("next {}".format(rng.choice([0, 1, 2, 3, 5, 10])))
        elif k < 0.8:
            cmds.append("step")
        elif k < 0.88:
            cmds.append("n")
        else:
            cmds.append("s")
    return cmds


def options(rng):
    o = {}
    if rng.random() < 0.3:
        o["big_stack"] = True
    if rng.random() < 0.3:
        o["warn_return_off"] = True
    if rng.random() < 0.3:
        o["init"] = [(rng.choice([1, 2, 3, 9, 12, 13, 14, 15]), rng.choice([0, 1, 0x7FFF, 0x8000, 0xFFFF, 1234]))
                     for _ in range(rng.choice([1, 2]))]
    return o


def make_settings(mode, opts):
    o = dict(opts)
    if "init" in o:
        o["init"] = [tuple(p) for p in o["init"]]
    return progrun.make_settings(mode=mode, **o)


def load_terminating(text, opts, max_steps=4000, mode="debug"):
    st = make_settings(mode, opts)
    prog, out, errs, exc = progrun.load(text, st)
    if prog is None or not prog.code or progrun.has_eval(prog):
        return None
    import hera.vm as V
    vm = V.VirtualMachine(make_settings(mode, opts))
    with proto.Capture() as cap:
        try:
            for d in prog.data:
                d.execute(vm)
            steps = 0
            while not vm.halted and 0 <= vm.pc < len(prog.code) and steps < max_steps:
                prog.code[vm.pc].execute(vm)
                steps += 1
        except BaseException:  # noqa
            steps = max_steps
        cap.take()
    if steps >= max_steps:
        return None
    return prog


def interp_result(text, opts):
    # the interpreter side is loaded and run the way `hera prog.hera` does it (mode ""), the debugger side the way
    # `hera debug prog.hera` does (mode "debug"): what depends on the mode while loading is part of the comparison
    st = make_settings("", opts)
    prog, out, errs, exc = progrun.load(text, st)
    vm, out, diags, exc = progrun.real_run(prog, st)
    return vm, out, diags, exc


def debugger_session(text, opts):
    import hera.debugger as DBG
    st = make_settings("debug", opts)
    prog, out, errs, exc = progrun.load(text, st)
    with proto.Capture() as cap:
        d = DBG.Debugger(prog, st)
        shell = DBG.Shell(d, st)
        out0, errs0 = cap.take()
    instrument(shell)
    return shell, st, prog, out0, errs0


# ---------------------------------------------------------------------------------------------------------
# C11

def c11_case(text, opts, cmds, max_steps=4000):
    """Returns a description of the difference, or None."""
    if load_terminating(text, opts, max_steps=max_steps) is None:
        if load_terminating(text, opts, max_steps=400, mode="") is not None:
            return "the program terminates (within 400 operations) as loaded for the interpreter but not (within 4000) as loaded for the debugger"
        return "skip"
    if load_terminating(text, opts, max_steps=10 * max_steps, mode="") is None:
        # the program as the debugger loads it ends within 4000 operations, as the interpreter loads it it does not end in 40000
        return "the program terminates as loaded for the debugger but not as loaded for the interpreter"
    vm_i, out_i, diags_i, exc_i = interp_result(text, opts)
    shell, st, prog, out0, errs0 = debugger_session(text, opts)
    outs, errs_all = [out0], list(errs0)
    for c in cmds + ["continue"] * 3:
        if shell.debugger.finished() and c == "continue":
            break
        out, errs, exc, cont = dbg.feed(shell, c, limit=5)
        outs.append(out)
        errs_all += errs
        if exc:
            return "debugger command {!r} raised {}".format(c, exc)
    if not shell.debugger.finished():
        return "skip"
    prog_out, blocks = split_output("".join(outs))
    prog_out = prog_out.replace("step is only valid when the current instruction is CALL.\n", "")
    d = diff_state(state_of(vm_i), state_of(shell.debugger.vm))
    if d:
        return "final state differs (interpreter vs debugger): " + d
    if prog_out != out_i:
        return "program output differs: interpreter {!r}, debugger {!r}".format(out_i[-80:], prog_out[-80:])
    diags_d = proto.diags_of(errs_all)
    wi = sorted((k, m, loc) for k, m, loc in diags_i)
    wd = sorted((k, m, loc) for k, m, loc in diags_d)
    if wi != wd:
        return "run-time warnings differ: interpreter {}, debugger {}".format(wi[:3], wd[:3])
    return None


def deep_programs():
    """call nesting far beyond anything a recursive implementation of the stepping commands could hold on Python's stack:
    recursion 1500 deep, and 1500 calls in a loop to a function that goes back with BR(PC_ret) (the call counter of the
    debugger never drops); each with the commands that step over the outermost CALL"""
    deep = RECURSION.replace("SET(R1, 4)", "SET(R1, 1500)")
    loop = ("SET(R1, 1500)\nSET(R2, 0)\nLABEL(again)\nCALL(FP_alt, f)\nDEC(R1, 1)\nBNZ(again)\nSET(R5, 77)\nHALT()\n"
            "LABEL(f)\nINC(R2, 4)\nBR(PC_ret)\n")
    for text in (deep, loop):
        for cmds in (["next"] * 8, ["next 3", "next", "continue"], ["step", "next 30", "continue"], ["continue"]):
            yield text, cmds


def check_c11(seed, n):
    rng = random.Random(seed)
    violations, evals, dist = [], 0, {"cmds": 0, "with_calls": 0, "options": 0}
    seen = set()
    planned = [(t, {}, c, 60000) for t, c in deep_programs()]
    for k in range(n + len(planned)):
        if k < len(planned):
            text, opts, cmds, budget = planned[k]
            dist["deep"] = dist.get("deep", 0) + 1
        else:
            text = gen_program(rng, seed * 7919 + k)
            opts = options(rng)
            cmds = gen_run_cmds(rng, 0)
            budget = 4000
        r = c11_case(text, opts, cmds, max_steps=budget)
        if cmds and r != "skip":
            proto.sample("c11", {"text": text[:400], "opts": opts, "cmds": cmds})
        if r == "skip":
            continue
        evals += 1
        if cmds:
            seen.add((text, repr(opts), tuple(cmds)))
        dist["cmds"] += len(cmds)
        dist["with_calls"] += "CALL" in text
        dist["options"] += bool(opts)
        if r:
            violations.append({"property": "C11", "stream": "c11", "sig": "c11:" + r.split(":")[0][:40],
                               "case": {"text": text, "opts": opts, "cmds": cmds}, "what": r})
    return {"evaluations": evals, "violations": violations, "disagreements": [], "distribution": dist, "distinct": len(seen)}


# ---------------------------------------------------------------------------------------------------------
# C12

def gen_c12_cmds(rng, prog):
    from hera.data import Label
    lines = sorted({op.loc.line for op in prog.code})
    labels = [k for k, v in prog.symbol_table.items() if isinstance(v, Label)]
    other = [k for k, v in prog.symbol_table.items() if not isinstance(v, Label)]
    nlines = max(lines) + 2 if lines else 2
    cmds = []
    for _ in range(rng.choice([2, 5, 10, 20, 30])):
        k = rng.random()
        if k < 0.35:
            cmds.append(rng.choice(["next", "n"]))
        elif k < 0.45:
            cmds.append("next {}".format(rng.choice([0, 1, 2, 3, 7])))
        elif k < 0.6:
            cmds.append(rng.choice(["step", "s"]))
        elif k < 0.72:
            cmds.append(rng.choice(["continue", "c"]))
        elif k < 0.9:
            j = rng.random()
            if j < 0.5 and lines:
                tgt = str(rng.choice(lines))
            elif j < 0.75 and labels:
                tgt = rng.choice(labels)
            elif j < 0.85:
                tgt = "."
            else:
                tgt = rng.choice([str(rng.randint(0, nlines)), "nolabel", "0", "-1"] + other)
            cmds.append("break " + tgt)
        elif k < 0.97:
            tgt = rng.choice([str(rng.choice(lines)) if lines else "1", "*", "."] + labels)
            cmds.append("clear " + tgt)
        else:
            cmds.append("break")
    return cmds


def ref_location(ref, arg):
    """instruction number that a break/clear argument denotes, or None (error message expected)"""
    from hera.data import Label
    if arg == ".":
        return ref.vm.pc if 0 <= ref.vm.pc < len(ref.code) else None
    try:
        n = int(arg)
    except ValueError:
        v = ref.prog.symbol_table.get(arg)
        return int(v) if isinstance(v, Label) else None
    return ref.line_to_pc(n)


def c12_case(text, opts, cmds):
    prog0 = load_terminating(text, opts)
    if prog0 is None:
        return "skip", 0
    shell, st, prog, out0, errs0 = debugger_session(text, opts)
    ref = Ref(prog, make_settings("debug", opts), text)
    with proto.Capture() as cap:
        pass
    done = 0
    for c in cmds:
        parts = c.split()
        with proto.Capture() as cap:
            expect_display = False
            if parts[0] in ("next", "n"):
                n = int(parts[1]) if len(parts) > 1 else 1
                for _ in range(n):
                    if ref.finished():
                        break
                    ref.next()
                expect_display = True
            elif parts[0] in ("step", "s"):
                expect_display = ref.step()
            elif parts[0] in ("continue", "c"):
                ref.cont()
                expect_display = True
            elif parts[0] == "break" and len(parts) == 2:
                b = ref_location(ref, parts[1])
                if b is not None and 0 <= b < len(ref.code):
                    ref.breaks.add(b)
            elif parts[0] == "clear":
                if parts[1] == "*":
                    ref.breaks.clear()
                else:
                    b = ref_location(ref, parts[1])
                    ref.breaks.discard(b)
            cap.take()
        out, errs, exc, cont = dbg.feed(shell, c, limit=5)
        done += 1
        if exc:
            return "{!r} raised {}".format(c, exc), done
        d = diff_state(state_of(ref.vm), state_of(shell.debugger.vm))
        if d:
            return "after {!r} (command {}): {} (expected by the source-level trace vs debugger)".format(c, done, d), done
        if set(shell.debugger.breakpoints) != ref.breaks:
            return "after {!r}: breakpoints {} expected {}".format(c, sorted(shell.debugger.breakpoints), sorted(ref.breaks)), done
        if expect_display:
            po, blocks = split_output(out)
            got = shown_line(blocks[-1]) if blocks else -2
            if got != ref.shown():
                return "after {!r}: the debugger shows line {} but the next instruction (pc {}) is on line {}".format(
                    c, got, ref.vm.pc, ref.shown()), done
    return None, done


def call_policy_sessions():
    """Systematic: on the programs with recursion and nested calls, `step` into the first j CALLs met, then `next` over
    every further CALL (so `next` is issued on recursive CALLs from inside the recursion), with and without a breakpoint."""
    out = []
    for text in (RECURSION, MUTUAL, NESTED):
        for j in range(0, 6):
            for brk in (None, "done" if text is RECURSION else None):
                out.append((text, j, brk))
    return out


def policy_case(text, j, brk):
    prog0 = load_terminating(text, {})
    if prog0 is None:
        return "skip", 0, []
    shell, st, prog, out0, errs0 = debugger_session(text, {})
    ref = Ref(prog, make_settings("debug", {}), text)
    cmds, done, stepped = [], 0, 0
    if brk:
        cmds.append("break " + brk)
    for _ in range(80):
        if ref.finished():
            break
        on_call = ref.code[ref.vm.pc].original.name == "CALL"
        cmds.append("step" if (on_call and stepped < j) else "next")
        stepped += 1 if (on_call and stepped < j) else 0
        # run this one command on both
        c = cmds[-1]
        break_cmd = None
        if len(cmds) == 1 and brk:
            pass
        with proto.Capture() as cap:
            if c == "step":
                ref.step()
            else:
                ref.next()
            cap.take()
        if done == 0 and brk:
            b = ref_location(ref, brk)
            ref.breaks.add(b)
            dbg.feed(shell, "break " + brk, limit=5)
        out, errs, exc, cont = dbg.feed(shell, c, limit=5)
        done += 1
        if exc:
            return "{!r} raised {}".format(c, exc), done, cmds
        d = diff_state(state_of(ref.vm), state_of(shell.debugger.vm))
        if d:
            return "after {!r} (command {} of the policy 'step into the first {} calls, then next'): {}".format(c, done, j, d), done, cmds
        po, blocks = split_output(out)
        got = shown_line(blocks[-1]) if blocks else -2
        if got != ref.shown():
            return "after {!r}: the debugger shows line {} but the next instruction is on line {}".format(c, got, ref.shown()), done, cmds
    return None, done, cmds


# two files with operations on the same line numbers: a bare line number in break / clear means that line of the file the
# debugger is stopped in. Straight-line code, every SET is two instructions, so the reference is a table.
MULTI_MAIN = 'SET(R1, 1)\nSET(R2, 2)\n#include "lib.hera"\nSET(R3, 7)\nSET(R4, 8)\nSET(R7, 9)\n'
MULTI_LIB = "SET(R5, 1)\nSET(R5, 2)\nSET(R5, 3)\nSET(R3, 3)\nSET(R6, 6)\n"
MULTI_PCS = [("main", 1), ("main", 2), ("lib", 1), ("lib", 2), ("lib", 3), ("lib", 4), ("lib", 5), ("main", 4), ("main", 5), ("main", 6)]


def multifile_case(cmds):
    """Returns (problem or None, commands done)."""
    import os
    import shutil
    import tempfile
    import hera.debugger as DBG
    import hera.loader as L
    import hera.utils as U
    d = tempfile.mkdtemp(prefix="hera_verif_mf_")
    try:
        with open(os.path.join(d, "main.hera"), "w") as f:
            f.write(MULTI_MAIN)
        with open(os.path.join(d, "lib.hera"), "w") as f:
            f.write(MULTI_LIB)
        st = make_settings("debug", {})
        with proto.Capture() as cap:
            try:
                prog = L.load_program_from_file(U.Path(os.path.join(d, "main.hera")), st)
                shell = DBG.Shell(DBG.Debugger(prog, st), st)
            except BaseException as e:  # noqa
                cap.take()
                return "loading the two-file program raised " + type(e).__name__, 0
            cap.take()
        end = 2 * len(MULTI_PCS)
        if len(prog.code) != end:
            return "skip", 0
        pc, bps, done = 0, set(), 0
        where = {(f, ln): 2 * i for i, (f, ln) in enumerate(MULTI_PCS)}
        for c in cmds:
            if pc >= end:
                break
            parts = c.split()
            if parts[0] == "next":
                pc += 2
            elif parts[0] == "continue":
                later = sorted(b for b in bps if b > pc)
                pc = later[0] if later else end
            elif parts[0] in ("break", "clear"):
                tgt = where.get((MULTI_PCS[pc // 2][0], int(parts[1])))
                if tgt is not None:
                    (bps.add if parts[0] == "break" else bps.discard)(tgt)
            out, errs, exc, cont = dbg.feed(shell, c, limit=5)
            done += 1
            if exc:
                return "{!r} raised {}".format(c, exc), done
            if shell.debugger.vm.pc != pc:
                return "after {!r} (command {}, two-file program): the debugger is at instruction {} ({}), expected {} ({})".format(
                    c, done, shell.debugger.vm.pc, MULTI_PCS[min(shell.debugger.vm.pc, end - 1) // 2], pc, MULTI_PCS[min(pc, end - 1) // 2]), done
            if set(shell.debugger.breakpoints) != bps:
                return "after {!r} (command {}, stopped in {}.hera): breakpoints at instructions {}, expected {}".format(
                    c, done, MULTI_PCS[min(pc, end - 1) // 2][0], sorted(shell.debugger.breakpoints), sorted(bps)), done
        return None, done
    finally:
        shutil.rmtree(d, ignore_errors=True)


def gen_multifile_cmds(rng):
    return [rng.choice(["next", "next", "continue", "break {}".format(rng.randint(1, 7)), "break {}".format(rng.randint(1, 7)),
                        "clear {}".format(rng.randint(1, 7))]) for _ in range(rng.choice([4, 8, 14]))]


def check_c12(seed, n):
    rng = random.Random(seed)
    violations, evals, dist = [], 0, {"programs": 0, "commands": 0}
    seen = set()
    for k in range(max(40, n // 4)):
        cmds = gen_multifile_cmds(rng)
        r, done = multifile_case(cmds)
        if r == "skip":
            break
        evals += done
        dist["multifile_sessions"] = dist.get("multifile_sessions", 0) + 1
        seen.add(("multifile", tuple(cmds)))
        if r:
            violations.append({"property": "C12", "stream": "c12multifile", "sig": "c12mf:" + re.sub(r"[0-9]+", "N", r)[:40],
                               "case": {"multifile": True, "cmds": cmds}, "what": r})
    for text, j, brk in call_policy_sessions():
        r, done, cmds = policy_case(text, j, brk)
        if r == "skip":
            continue
        evals += done
        dist["policy_sessions"] = dist.get("policy_sessions", 0) + 1
        seen.add((text, j, brk))
        if r:
            violations.append({"property": "C12", "stream": "c12policy", "sig": "c12policy:" + re.sub(r"[0-9]+", "N", r)[:50],
                               "case": {"text": text, "policy": j, "break": brk, "cmds": cmds}, "what": r})
    for k in range(n):
        text = gen_program(rng, seed * 6007 + k)
        opts = options(rng) if rng.random() < 0.3 else {}
        prog = load_terminating(text, opts)
        if prog is None:
            continue
        cmds = gen_c12_cmds(rng, prog)
        r, done = c12_case(text, opts, cmds)
        proto.sample("c12", {"text": text[:400], "opts": opts, "cmds": cmds})
        if r == "skip":
            continue
        evals += done
        seen.update((text, repr(opts), tuple(cmds[:i + 1])) for i in range(done))
        dist["programs"] += 1
        dist["commands"] += done
        if r:
            violations.append({"property": "C12", "stream": "c12", "sig": "c12:" + re.sub(r"[0-9]+", "N", r)[:50],
                               "case": {"text": text, "opts": opts, "cmds": cmds}, "what": r})
    return {"evaluations": evals, "violations": violations, "disagreements": [], "distribution": dist, "distinct": len(seen)}


# ---------------------------------------------------------------------------------------------------------
# C13

def full_snapshot(shell):
    d = shell.debugger
    vm = d.vm
    info, _errs, exc, _c = dbg.feed(shell, "info")
    return {"vm": state_of(vm), "call_stack": tuple((int(a), int(b)) for a, b in vm.expected_returns), "calls": calls_of(d),
            "breakpoints": tuple(sorted((int(k), v) for k, v in d.breakpoints.items())), "info": info if not exc else "info raised " + exc}


def diff_snapshot(a, b):
    for k in ("vm", "call_stack", "calls", "breakpoints", "info"):
        if a[k] != b[k]:
            if k == "vm":
                return diff_state(a[k], b[k])
            if k == "info":
                la, lb = a[k].split("\n"), b[k].split("\n")
                for x, y in zip(la, lb):
                    if x != y:
                        return "info output: {!r} vs {!r}".format(x[:60], y[:60])
                return "info output differs in length"
            return "{}: {} vs {}".format(k, a[k], b[k])
    return None


def gen_c13_cmds(rng, prog):
    from hera.data import Label
    lines = sorted({op.loc.line for op in prog.code})
    labels = [k for k, v in prog.symbol_table.items() if isinstance(v, Label)]
    cmds, broken = [], []
    for _ in range(rng.choice([2, 4, 8, 14, 24])):
        k = rng.random()
        if k < 0.25:
            cmds.append("undo")
        elif k < 0.4:
            cmds.append(rng.choice(["next", "next 2", "next 5", "n"]))
        elif k < 0.48:
            cmds.append("step")
        elif k < 0.55:
            cmds.append("continue")
        elif k < 0.67:
            lhs = rng.choice(dbg.REG_NAMES + ["@R1", "@(0-3)", "@100", "@65535", "pc"])
            cmds.append("{} = {}".format(lhs, rng.choice(dbg.EXPRS)))
        elif k < 0.76:
            cmds.append("execute " + rng.choice(["SET(R1, -1)", "ADD(R1,R1,R1)", "STORE(R1, 3, R3)", "CON()", "FSET5(21)", "INC(SP, 3)",
                                                 "CALL(FP_alt, R1)", "RETURN(FP_alt, PC_ret)", "print_reg(R1)", "FOO(1)"]))
        elif k < 0.82:
            cmds.append("goto " + rng.choice([str(l) for l in lines] + labels + ["nolabel"]))
        elif k < 0.89:
            where = rng.choice([str(l) for l in lines] + labels + [".", "nolabel"])
            cmds.append("break " + where)
            broken.append(where)
        elif k < 0.93:
            # one or several locations in one command, mostly ones that were given to `break` before
            pool = (broken * 3 if broken else []) + [str(l) for l in lines] + ["*", "nolabel"]
            cmds.append("clear " + " ".join(rng.choice(pool) for _ in range(rng.choice([1, 1, 2, 2, 3]))))
        elif k < 0.97:
            cmds.append(rng.choice(["on", "off"]) + " " + rng.choice(["c", "cb", "v s", "z", "x"]))
        else:
            cmds.append("restart")
    return cmds


def c13_case(text, opts, cmds):
    if load_terminating(text, opts) is None:
        return "skip", 0
    shell, st, prog, out0, errs0 = debugger_session(text, opts)
    stack = []      # snapshots before each not yet undone mutating command
    done = 0
    for c in cmds:
        before = full_snapshot(shell)
        depth = len(shell.command_history)
        out, errs, exc, cont = dbg.feed(shell, c, limit=5)
        done += 1
        if exc and exc.startswith("Hang"):
            # the user's changes to the state can make the program loop for ever: not the debugger's fault
            return None, done
        if exc:
            return "{!r} raised {}".format(c, exc), done
        if c == "undo":
            if stack:
                want, wc = stack.pop()
                d = diff_snapshot(want, full_snapshot(shell))
                if d:
                    return "undo of {!r} does not restore the state before it: {}".format(wc, d), done
            elif "Nothing to undo" not in out:
                return "undo with nothing to undo changed something", done
            continue
        if len(shell.command_history) > depth:
            stack.append((before, c))
        if c == "restart":
            fresh, _st, _p, _o, _e = debugger_session(text, opts)
            fresh.debugger.breakpoints = dict(shell.debugger.breakpoints)
            d = diff_snapshot(full_snapshot(fresh), full_snapshot(shell))
            if d:
                return "after restart the session is not in the state of a fresh session (+ breakpoints): {}".format(d), done
    # walk back to the start
    first = stack[0][0] if stack else None
    while stack:
        want, wc = stack.pop()
        out, errs, exc, cont = dbg.feed(shell, "undo", limit=5)
        if exc:
            return "undo raised {}".format(exc), done
        d = diff_snapshot(want, full_snapshot(shell))
        if d:
            return "walking back: undo of {!r} does not restore the state before it: {}".format(wc, d), done
    out, errs, exc, cont = dbg.feed(shell, "undo", limit=5)
    if "Nothing to undo" not in out:
        return "undo past the start of the session did not say 'Nothing to undo'", done
    return None, done


def check_c13(seed, n):
    rng = random.Random(seed)
    violations, evals, dist = [], 0, {"programs": 0, "commands": 0}
    seen = set()
    for k in range(n):
        text = gen_program(rng, seed * 5003 + k)
        opts = options(rng) if rng.random() < 0.4 else {}
        prog = load_terminating(text, opts)
        if prog is None:
            continue
        cmds = gen_c13_cmds(rng, prog)
        r, done = c13_case(text, opts, cmds)
        proto.sample("c13", {"text": text[:400], "opts": opts, "cmds": cmds})
        if r == "skip":
            continue
        evals += done
        seen.update((text, repr(opts), tuple(cmds[:i + 1])) for i in range(done))
        dist["programs"] += 1
        dist["commands"] += done
        if r:
            violations.append({"property": "C13", "stream": "c13", "sig": "c13:" + re.sub(r"[0-9]+", "N", r)[:60],
                               "case": {"text": text, "opts": opts, "cmds": cmds}, "what": r})
    return {"evaluations": evals, "violations": violations, "disagreements": [], "distribution": dist, "distinct": len(seen)}


# ---------------------------------------------------------------------------------------------------------
# correspondence with the Lean debugger model (herad `dbg`)

FLAG_IDX = {"flag_sign": 0, "flag_zero": 1, "flag_overflow": 2, "flag_carry": 3, "flag_carry_block": 4}
MODELLED = ("next", "n", "step", "s", "continue", "c", "break", "clear", "restart", "undo", "goto", "on", "off")


def assign_cmd(shell, lhs, rhs):
    """model command for an assignment, evaluated on the real shell before the command runs"""
    from hera.debugger import miniparser as MP
    from hera.data import HERAError
    noop = ["n 0"]
    try:
        lt, rt = MP.parse(lhs), MP.parse(rhs)
    except SyntaxError:
        return noop
    if len(lt.seq) != 1 or len(rt.seq) != 1:
        return noop
    lt, rt = lt.seq[0], rt.seq[0]
    try:
        v = int(shell.evaluate_node(rt))
        if isinstance(lt, MP.RegisterNode):
            return ["ar {} {}".format(int(lt.value), v)]
        if isinstance(lt, MP.MemoryNode):
            a = int(shell.evaluate_node(lt.address))
            return ["am {} {}".format(a, v)]
        if isinstance(lt, MP.SymbolNode) and lt.value == "pc":
            return ["ap {}".format(v)]
    except HERAError:
        return noop
    return noop


def modelled(cmds):
    return all(c.split()[0] in MODELLED for c in cmds)


def to_model_cmd(shell, c):
    """Protocol form of a shell command (locations resolved by the real debugger), evaluated *before* the command runs.
    A command that only prints an error still saves a snapshot: `n 0`."""
    import hera.debugger.shell as SH
    from hera.data import HERAError
    parts = c.split()
    k = parts[0]
    noop = ["n 0"]
    if k == "assign":
        return assign_cmd(shell, parts[1], parts[2]) if len(parts) == 3 else noop
    if "=" in c and k not in MODELLED:
        lhs, rhs = c.split("=", 1)
        # the shell splits the two sides at blanks only when the command word is known; here it hands over both halves
        return assign_cmd(shell, lhs, rhs)
    if k in ("next", "n"):
        if len(parts) > 2:
            return noop
        if len(parts) == 2:
            try:
                return ["n {}".format(int(parts[1]))]
            except ValueError:
                return noop
        return ["n 1"]
    if k in ("step", "s"):
        return ["s"] if len(parts) == 1 else noop
    if k in ("continue", "c"):
        return ["c"] if len(parts) == 1 else noop
    if k == "restart":
        return ["r"] if len(parts) == 1 else noop
    if k == "undo":
        return ["u"] if len(parts) == 1 else []
    if k in ("break", "goto"):
        if len(parts) != 2:
            return noop
        try:
            b = shell.debugger.location_to_instruction_number(parts[1])
        except ValueError:
            return noop
        if k == "break" and not 0 <= int(b) < len(shell.debugger.program.code):
            return noop      # "there is no instruction at that location"
        return ["{} {}".format("b" if k == "break" else "g", int(b))]
    if k == "clear":
        if len(parts) == 1:
            return noop
        if "*" in parts[1:]:
            return ["X"]
        out = []
        for a in parts[1:]:
            try:
                out.append(int(shell.debugger.location_to_instruction_number(a)))
            except ValueError:
                pass
        # several locations inside one command are one snapshot
        return ["x " + proto.w_list(out)] if out else noop
    if k in ("on", "off"):
        if len(parts) == 1:
            return noop
        try:
            flags = [SH.expand_flag(a) for a in parts[1:]]
        except HERAError:
            return noop
        if len(flags) != 1:
            return None
        return ["f {} {}".format(FLAG_IDX[flags[0]], 1 if k == "on" else 0)]
    return None


def render_real(shell):
    d = shell.debugger
    vm = d.vm
    vm.settings.warning_count = 0
    sh = -1 if d.finished() else d.op().loc.line
    return "ok {} {} {} {} {}".format(len(shell.command_history), calls_of(d), proto.w_list(int(k) for k in d.breakpoints), sh,
                                      proto.w_vm(vm, "", ()))


def w_dprog(prog):
    ids, gid = {}, []
    for op in prog.code:
        gid.append(ids.setdefault(id(op.original), len(ids)))
    is_call = [1 if op.original.name == "CALL" else 0 for op in prog.code]
    lines = [op.original.loc.line for op in prog.code]
    return "{} {} {} {}".format(progrun.w_program(prog), proto.w_list(gid), proto.w_list(is_call), proto.w_list(lines))


def model_case(text, opts, cmds, fuel=6000):
    """Returns (request line, list of real per-command renderings) or None when the history is outside the model."""
    import hera.vm as V
    if load_terminating(text, opts) is None:
        return None
    shell, st, prog, out0, errs0 = debugger_session(text, opts)
    pre = V.VirtualMachine(make_settings("debug", opts))
    real = [render_real(shell)]
    mcmds = []
    for c in cmds:
        mc = to_model_cmd(shell, c)
        if mc is None:
            break
        out, errs, exc, cont = dbg.feed(shell, c, limit=5)
        if exc:
            break
        for m in mc:
            mcmds.append(m)
        if mc:
            real.append(render_real(shell))
    req = "dbg {} {} {} {} {}".format(fuel, w_dprog(prog), proto.w_vm(pre, as_input=True), len(mcmds), " ".join(mcmds))
    return req, real


def check_model(seed, n):
    rng = random.Random(seed)
    reqs, reals, cases = [], [], []
    for k in range(n):
        text = gen_program(rng, seed * 4001 + k)
        opts = options(rng) if rng.random() < 0.4 else {}
        prog = load_terminating(text, opts)
        if prog is None:
            continue
        cmds = [c for c in (gen_c13_cmds(rng, prog) if k % 2 else gen_c12_cmds(rng, prog)) if (c.split()[0] in MODELLED or "=" in c)
                and not (c.split()[0] in ("on", "off") and len(c.split()) != 2) and c != "break"]
        r = model_case(text, opts, cmds)
        if r is None:
            continue
        reqs.append(r[0])
        reals.append(r[1])
        cases.append({"text": text, "opts": opts, "cmds": cmds})
    answers = proto.run_herad(reqs)
    disagreements, evals = [], 0
    for case, real, ans in zip(cases, reals, answers):
        got = ans.split(" | ")
        evals += len(real)
        if got and got[-1] == "fuel":
            got = got[:-1]
            real = real[:len(got)]
        if got != real:
            i = next((j for j, (a, b) in enumerate(zip(got, real)) if a != b), min(len(got), len(real)))
            disagreements.append({"stream": "dbgmodel", "case": case, "at": i,
                                  "model": (got[i] if i < len(got) else "<missing>")[:600],
                                  "impl": (real[i] if i < len(real) else "<missing>")[:600]})
    distinct = len({(c["text"], repr(c["opts"]), tuple(c["cmds"][:i + 1])) for c, real in zip(cases, reals) for i in range(len(real) - 1)})
    return {"evaluations": evals, "violations": [], "disagreements": disagreements, "distribution": {"sessions": len(cases)},
            "distinct": distinct}


# ---------------------------------------------------------------------------------------------------------
# hypothesis monitor for C11: within every source operation only the last instruction may be anything but
# SETLO / SETHI / FON / FOFF, and the instructions of one source operation are contiguous

STRAIGHT = ("SETLO", "SETHI", "FON", "FOFF")


def shape_problem(text, opts):
    st = make_settings("debug", opts)
    prog, out, errs, exc = progrun.load(text, st)
    if prog is None:
        return None
    seen = set()
    code = prog.code
    for i, op in enumerate(code):
        oid = id(op.original)
        if i > 0 and id(code[i - 1].original) != oid and oid in seen:
            return "the instructions of source operation {} (line {}) are not contiguous".format(op.original, op.original.loc.line)
        seen.add(oid)
        last = i + 1 >= len(code) or code[i + 1].original is not op.original
        if not last and op.name not in STRAIGHT:
            return "{} (not the last instruction of {}) is not one of SETLO/SETHI/FON/FOFF".format(op, op.original)
    return None


def check_shape(seed, n):
    rng = random.Random(seed)
    violations, evals = [], 0
    for k in range(n):
        text = gen_program(rng, seed * 3001 + k)
        r = shape_problem(text, {})
        evals += 1
        if r:
            violations.append({"property": "C11", "stream": "shape", "sig": "shape", "case": {"text": text, "opts": {}},
                               "what": "hypothesis of C11 fails on a real program: " + r})
    return {"evaluations": evals, "violations": violations, "disagreements": [], "distribution": {}, "distinct": 0}
