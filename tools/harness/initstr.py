"""Stream `initstr`: main.parse_init_string vs Cli.parseInit, plus the InitOK oracle on the real result."""
import itertools
import random

from . import proto

PIECES = ["r1", "R2", "r0", "r15", "r16", "rx", "r", "sp", "FP", "pc_ret", "fp_alt", "Rt", "pc", "r+1", "r 1",
          "r1_0", "r-1", "r01", "x"]
VALUES = ["5", "0", "-5", "-32768", "-32769", "65535", "65536", "70000", "0x10", "0xFFFF", "0o17", "0b11", "017",
          "1_0", "", "abc", "+7", "0x", "5 ", "1e3", " 8"]
SEPS = ["=", "==", "", " = "]


def gen(seed, n):
    rng = random.Random(seed)
    cases = []
    for p, v, s in itertools.product(PIECES, VALUES, SEPS):
        cases.append(p + s + v)
    while len(cases) < n:
        k = rng.choice([1, 2, 3])
        parts = [rng.choice(PIECES) + rng.choice(SEPS[:2] if rng.random() < 0.9 else SEPS) + rng.choice(VALUES)
                 for _ in range(k)]
        cases.append(rng.choice([", ", ",", " ", "  ,, "]).join(parts) + rng.choice(["", ",", " "]))
    return cases


def init_ok(pairs):
    for d, v in pairs:
        if type(d) is not int or type(v) is not int or not (1 <= d < 16) or not (0 <= v < 65536):
            return "--init accepted a pair that breaks the machine: R{} = {}".format(d, v)
    return None


def run(seed, n):
    import hera.main as M
    cases = gen(seed, n)
    reqs, reals = [], []
    violations = []
    for c in cases:
        try:
            r = M.parse_init_string(c)
            real = "none" if r is None else "ok " + proto.w_list("{} {}".format(a, b) for a, b in r)
            if r is not None:
                w = init_ok(r)
                if w:
                    violations.append({"property": "C02", "stream": "initstr", "case": {"init": c}, "sig": "init:notok",
                                       "what": "--init {!r}: {}".format(c, w)})
        except Exception as e:  # noqa
            real = "exc " + type(e).__name__
            violations.append({"property": "C18", "stream": "initstr", "case": {"init": c}, "sig": "init:exception",
                               "what": "parse_init_string({!r}) raised {}".format(c, type(e).__name__)})
        reqs.append("parseinit " + proto.w_str(c))
        reals.append(real)
    ans = proto.run_herad(reqs)
    dis = [{"stream": "initstr", "case": {"init": c}, "model": a, "impl": r}
           for c, a, r in zip(cases, ans, reals) if a != r]
    return {"evaluations": len(cases), "disagreements": dis, "violations": violations}
