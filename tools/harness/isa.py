"""
Stream `isa`: single-instruction cases (class, operands, pre-state).

For every case the real `op.execute(vm)` of /repo is run in-process and compared with
  (a) the translated implementation model  (herad `exec`)  -> correspondence / translator validation
  (b) the hand-written BitVec specification (herad `spec`) -> oracle for C01
  (c) the well-formedness monitor                          -> oracle for C02
"""
import random

from . import proto
from .proto import w_val, w_vm, w_list

BOUNDARY = [0, 1, 2, 0x7F, 0x80, 0xFF, 0x100, 0x3FFF, 0x4000, 0x7FFE, 0x7FFF, 0x8000, 0x8001,
            0xBFFF, 0xC000, 0xC001, 0xC166, 0xC167, 0xFFE0, 0xFFF0, 0xFFFE, 0xFFFF]


def hera():
    import hera.op as O
    import hera.vm as V
    import hera.data as D
    return O, V, D


def real_classes():
    """Concrete classes that have an encoding and an execute of their own (the machine instructions)."""
    O, V, D = hera()
    res = []
    for name, cls in O.name_to_class.items():
        if cls.BITV and cls not in res and cls not in (O.SWI, O.RTI):
            res.append(cls)
    return res


def operand_choices(O, p, rng, reg_pool):
    if p in (O.REGISTER, O.REGISTER_OR_LABEL):
        return rng.choice(reg_pool)
    if isinstance(p, range):
        lo, hi = p.start, p.stop - 1
        cands = [lo, hi, lo + 1, hi - 1, (lo + hi) // 2, rng.randint(lo, hi), rng.randint(lo, hi)]
        if lo < 0:
            cands += [0, -1, 127, 128]
        return rng.choice([c for c in cands if lo <= c <= hi])
    if p == O.I8_OR_LABEL:
        return rng.choice([-128, -127, -2, -1, 0, 1, 2, 3, 126, 127, 128, 129, 200, 254, 255,
                           rng.randint(-128, 255)])
    raise ValueError(p)


def gen_state(rng, hot_regs=()):
    regs = [0] * 16
    for i in range(1, 16):
        r = rng.random()
        if r < 0.6:
            regs[i] = rng.choice(BOUNDARY)
        elif r < 0.9:
            regs[i] = rng.randint(0, 0xFFFF)
        else:
            regs[i] = 0
    mlen = rng.choice([16, 16, 17, 32, 64, 200])
    if rng.random() < 0.03:
        mlen = rng.choice([0x4000, 0xC002, 65535, 65536])
    mem = {}
    for _ in range(rng.randint(0, 6)):
        a = rng.randrange(mlen)
        mem[a] = rng.choice(BOUNDARY) if rng.random() < 0.5 else rng.randint(1, 0xFFFF)
    er = [(rng.randint(0, 300), rng.randint(0, 300)) for _ in range(rng.choice([0, 0, 1, 2, 3]))]
    return {
        "registers": regs,
        "pc": rng.choice([0, 1, 5, 100, 127, 128, 255, 256, 1000, 65534, rng.randint(0, 65534)]),
        "dc": rng.choice([0xC001, 0xC167, rng.randint(0, 0xFFFF)]),
        "flags": [rng.random() < 0.5 for _ in range(5)],  # s z v c cb
        "memlen": mlen,
        "mem": sorted(mem.items()),
        "expected_returns": er,
        "halted": False,
        "warned_for_overflow": rng.random() < 0.3,
        "warning_count": rng.choice([0, 0, 3]),
        "data_start": rng.choice([0xC001, 0xC167]),
        "warn_return_on": rng.random() < 0.7,
        "settings_warning_count": rng.choice([0, 0, 2]),
    }


def mk_vm(st):
    O, V, D = hera()
    settings = D.Settings()
    settings.color = False
    settings.data_start = st["data_start"]
    settings.warn_return_on = st["warn_return_on"]
    settings.warning_count = st["settings_warning_count"]
    vm = V.VirtualMachine(settings)
    vm.registers = list(st["registers"])
    vm.pc = st["pc"]
    vm.dc = st["dc"]
    (vm.flag_sign, vm.flag_zero, vm.flag_overflow, vm.flag_carry, vm.flag_carry_block) = [bool(b) for b in st["flags"]]
    vm.memory = [0] * st["memlen"]
    for a, v in st["mem"]:
        vm.memory[a] = v
    vm.expected_returns = [tuple(p) for p in st["expected_returns"]]
    vm.halted = st["halted"]
    vm.warned_for_overflow = st["warned_for_overflow"]
    vm.warning_count = st["warning_count"]
    return vm


def mk_op(cls, args):
    O, V, D = hera()
    toks = []
    for p, a in zip(cls.P, args):
        if p in (O.REGISTER, O.REGISTER_OR_LABEL):
            toks.append(D.Token(D.Token.REGISTER, a))
        elif p == O.STRING:
            toks.append(D.Token(D.Token.STRING, a))
        else:
            toks.append(D.Token(D.Token.INT, a))
    return cls(*toks)


def gen_cases(seed, n):
    O, V, D = hera()
    rng = random.Random(seed)
    classes = real_classes()
    cases = []
    # part 1: systematic — every class x all 32 flag settings x a few aliasing patterns
    patterns = [(1, 2, 3), (1, 1, 1), (0, 1, 2), (1, 0, 2), (1, 2, 0), (2, 2, 5), (3, 5, 3),
                (15, 1, 2), (14, 14, 13), (12, 13, 14), (13, 13, 12), (11, 15, 15)]
    for cls in classes:
        for fl in range(32):
            pat = patterns[(fl + len(cls.__name__)) % len(patterns)]
            st = gen_state(rng)
            st["flags"] = [bool(fl >> k & 1) for k in range(5)]
            args = []
            ri = 0
            for p in cls.P:
                if p in (O.REGISTER, O.REGISTER_OR_LABEL):
                    args.append(pat[ri % 3])
                    ri += 1
                else:
                    args.append(operand_choices(O, p, rng, [0]))
            cases.append({"cls": cls.__name__, "args": args, "pre": st})
    # part 2: random, boundary-biased
    reg_pool = [0, 1, 2, 3, 11, 12, 13, 14, 15] + list(range(16))
    while len(cases) < n:
        cls = rng.choice(classes)
        st = gen_state(rng)
        args = [operand_choices(O, p, rng, reg_pool) for p in cls.P]
        # make LOAD/STORE hit interesting addresses
        if cls in (O.LOAD, O.STORE) and args[2] != 0 and rng.random() < 0.7:
            tgt = rng.choice([0, 1, st["memlen"] - 1, st["memlen"], st["memlen"] + 1, 0xFFFF, 0xFFFE,
                              0x10000 + rng.randint(0, 30), rng.randint(0, 0xFFFF)])
            st["registers"][args[2]] = (tgt - args[1]) % 0x10000
        cases.append({"cls": cls.__name__, "args": args, "pre": st})
    return cases


def run_real(case):
    """Execute the real op on the real VM. Returns (vm, stdout, diags, exception name or None)."""
    O, V, D = hera()
    cls = getattr(O, case["cls"]) if hasattr(O, case["cls"]) else O.name_to_class[case["cls"]]
    vm = mk_vm(case["pre"])
    op = mk_op(cls, case["args"])
    exc = None
    with proto.Capture() as cap:
        try:
            op.execute(vm)
        except Exception as e:  # noqa
            exc = type(e).__name__
        text, errs = cap.take()
    return vm, text, proto.diags_of(errs), exc


def wf_violation(vm):
    """Well-formedness monitor (C02) on a real VirtualMachine; returns a description or None."""
    if len(vm.registers) != 16:
        return "register file has {} entries".format(len(vm.registers))
    for i, r in enumerate(vm.registers):
        if not isinstance(r, int) or isinstance(r, bool) or not (0 <= r < 65536):
            return "R{} = {!r}".format(i, r)
    if vm.registers[0] != 0:
        return "R0 = {}".format(vm.registers[0])
    for name in ("flag_sign", "flag_zero", "flag_overflow", "flag_carry", "flag_carry_block", "halted"):
        v = getattr(vm, name)
        if type(v) is not bool:
            return "{} = {!r} is not a plain on/off value".format(name, v)
    if len(vm.memory) > 65536:
        return "memory has {} cells".format(len(vm.memory))
    for a, c in enumerate(vm.memory):
        if not isinstance(c, int) or isinstance(c, bool) or not (0 <= c < 65536):
            return "memory[{}] = {!r}".format(a, c)
    return None


UNTOUCHED = ["dc", "input_buffer", "input_pos", "op_count", "location", "warned_for_SWI", "warned_for_RTI"]


def check(cases, want_spec=True):
    """Run all cases. Returns dict with disagreements (model vs impl) and violations (spec/WF vs impl)."""
    O, V, D = hera()
    req_exec, req_spec, reals = [], [], []
    for case in cases:
        pre_vm = mk_vm(case["pre"])
        pre_line = w_vm(pre_vm, as_input=True)
        vm, text, diags, exc = run_real(case)
        reals.append((vm, text, diags, exc, pre_vm))
        cls = case["cls"]
        req_exec.append("exec {} {} {}".format(cls, w_list(w_val(a) for a in case["args"]), pre_line))
        # addresses to query: non-zero cells before and after, cells that changed, the effective address
        q = set(a for a, _ in case["pre"]["mem"])
        if exc is None:
            post = vm.memory
            prem = pre_vm.memory
            for a in range(max(len(post), len(prem))):
                pv = prem[a] if a < len(prem) else 0
                nv = post[a] if a < len(post) else 0
                if pv != nv:
                    q.add(a)
        if cls in ("LOAD", "STORE"):
            q.add((case["pre"]["registers"][case["args"][2]] + case["args"][1]) % 65536)
        q = sorted(a for a in q if 0 <= a < 65536)
        case["_q"] = q
        req_spec.append("spec {} {} {} {}".format(cls, w_list(case["args"]), pre_line, w_list(q)))
    ans_exec = proto.run_herad(req_exec)
    ans_spec = proto.run_herad(req_spec) if want_spec else [None] * len(cases)
    disagreements, violations = [], []
    dist = {}
    for case, (vm, text, diags, exc, pre_vm), ae, asp in zip(cases, reals, ans_exec, ans_spec):
        cls = case["cls"]
        dist[cls] = dist.get(cls, 0) + 1
        rcase = {k: v for k, v in case.items() if not k.startswith("_")}
        # (a) model vs implementation
        real_line = "err " + exc if exc else "ok " + w_vm(vm, text, diags)
        if ae != real_line:
            disagreements.append({"stream": "isa", "case": rcase, "model": ae[:4000], "impl": real_line[:4000]})
        # (c) WF monitor
        if exc is not None:
            # an instruction that raises has neither kept the machine going (C02) nor had its architected effect (C01)
            for pid in ("C02", "C01"):
                violations.append({"property": pid, "stream": "isa", "case": rcase, "sig": cls + ":exception",
                                   "what": "internal error {} executing the valid instruction {}{} on a well-formed machine".format(
                                       exc, cls, tuple(case["args"]))})
            continue
        w = wf_violation(vm)
        if w:
            violations.append({"property": "C02", "stream": "isa", "case": rcase, "sig": cls + ":wf",
                               "what": "machine not well-formed after {}{}: {}".format(cls, tuple(case["args"]), w)})
        # (b) spec
        if not want_spec:
            continue
        if not asp.startswith("ok "):
            violations.append({"property": "C01", "stream": "isa", "case": rcase, "what": "spec driver says " + asp})
            continue
        toks = asp.split()
        open_ = int(toks[1])
        vals = [int(t) for t in toks[2:]]
        sregs, sflags, spc, shalt, smem = vals[:16], vals[16:21], vals[21], vals[22], vals[23:]
        if open_ == 2:
            continue  # aliased CALL/RETURN: unconstrained
        bad = None
        if w is not None:
            # not even a well-formed machine: also not the architected effect (R0 written, value out of range, ...)
            bad = "machine not well-formed: " + w
        else:
            rflags = [int(vm.flag_sign), int(vm.flag_zero), int(vm.flag_overflow), int(vm.flag_carry), int(vm.flag_carry_block)]
            if list(vm.registers) != sregs:
                k = [i for i in range(16) if vm.registers[i] != sregs[i]][0]
                bad = "R{} = {} but the architecture gives {}".format(k, vm.registers[k], sregs[k])
            elif open_ == 0 and rflags != sflags:
                bad = "flags (s,z,v,c,cb) = {} but the architecture gives {}".format(rflags, sflags)
            elif open_ == 1 and (rflags[0:2] + rflags[4:]) != (sflags[0:2] + sflags[4:]):
                bad = "flags (s,z,cb) = {} but the architecture gives {}".format(rflags, sflags)
            elif vm.pc != spc:
                bad = "pc = {} but the architecture gives {}".format(vm.pc, spc)
            elif int(vm.halted) != shalt:
                bad = "halted = {} but the architecture gives {}".format(vm.halted, shalt)
            else:
                for a, sv in zip(case["_q"], smem):
                    rv = vm.memory[a] if a < len(vm.memory) else 0
                    if rv != sv:
                        bad = "memory[{}] = {} but the architecture gives {}".format(a, rv, sv)
                        break
            if bad is None:
                for f in UNTOUCHED:
                    if getattr(vm, f) != getattr(pre_vm, f):
                        bad = "{} changed from {!r} to {!r}".format(f, getattr(pre_vm, f), getattr(vm, f))
                        break
            if bad is None and cls not in ("CALL", "RETURN") and vm.expected_returns != pre_vm.expected_returns:
                bad = "call stack changed"
            if bad is None and text != "":
                bad = "instruction wrote {!r} to stdout".format(text)
        if bad:
            violations.append({"property": "C01", "stream": "isa", "case": rcase,
                               "sig": cls + ":" + bad.split(" ")[0].rstrip("0123456789[]"),
                               "what": "{}{}: {}".format(cls, tuple(case["args"]), bad)})
    return {"evaluations": len(cases), "disagreements": disagreements, "violations": violations,
            "distribution": dist}
