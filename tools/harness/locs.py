"""
Stream for C17: programs with one planted fault of a known diagnostic kind at a token whose position the generator
knows, under layouts of whitespace, tabs, comments, multi-line operations, conditional blocks and includes. Oracle:
the reported (path, line, column) exists in the user's text, the quoted line is that line, and the caret is within the
offending token. Plus correspondence of the line/column arithmetic with the Lean model (herad `linecol`).
"""
import os
import random
import re
import shutil
import tempfile

from . import progrun, proto

# (kind, line template with {X} marking the offending token, expected message fragment, where the caret must be:
#  "X" = within the marked token, "name" = within the operation name)
FAULTS = [
    ("unknown-op", "{X}(R1, R2)", "unknown instruction", "X", "FOO"),
    ("bad-register", "ADD(R1, {X}, R3)", "not a valid register", "X", "R17"),
    ("int-range", "SETLO(R1, {X})", "integer must be in range", "X", "300"),
    ("int-range-inc", "INC(R2, {X})", "integer must be in range", "X", "65"),
    ("not-a-register", "ADD(R1, R2, {X})", "expected register", "X", "5"),
    ("not-an-int", "SET(R1, {X})", "expected integer", "X", '"s"'),
    ("undefined", "SET(R1, {X})", "undefined", "X", "nosuch"),
    ("too-few", "{X}(R1, R2)", "too few", "name", "ADD"),
    ("too-many", "{X}(R1, R2, R3, R4)", "too many", "name", "ADD"),
    ("string-expected", "LP_STRING({X})", "expected string", "X", "5"),
    ("label-as-const", "INC(R1, {X})", "cannot use label as constant", "X", "top"),
    ("invalid-int", "SET(R1, {X})", "invalid integer", "X", "0x"),
    ("octal-warning", "SET(R1, {X})", "consider using", "X", "017"),
    ("call-warning", "CALL({X}, R13)", "first argument to CALL should be R12", "X", "R5"),
    ("not-warning", "NOT(R1, {X})", "don't use R11 with NOT", "X", "R11"),
    ("unclosed-string", "LP_STRING({X}", "unclosed string", "X", '"abc'),
    ("data-after-code", "{X}(5)", "data statement after code", "name", "INTEGER"),
    ("duplicate", "LABEL({X})", "already been defined", "name-or-X", "top"),
    ("overlong-char", "SET(R1, {X})", "over-long character", "X", "'ab'"),
    ("escape-warning", 'LP_STRING("a{X}b")', "unrecognized backslash escape", "X", "\\q"),
    # negative literals: the lexer gives the sign and the digits as two tokens, with anything between them; the report must
    # be on the sign or on a digit ("signdigit"), never on what separates them
    ("neg-range", "SETLO(R1, {X})", "integer must be in range", "signdigit", "-300"),
    ("neg-range-blank", "SETLO(R1, {X})", "integer must be in range", "signdigit", "- 300"),
    ("neg-range-tab", "SET(R1, {X})", "integer must be in range", "signdigit", "-\t70000"),
    ("neg-range-comment", "INC(R1, {X})", "integer must be in range", "signdigit", "-/* c */5"),
    ("neg-range-newline", "SET(R1, {X})", "integer must be in range", "signdigit", "-\n70000"),
    ("neg-range-newline-indent", "SETLO(R2, {X})", "integer must be in range", "signdigit", "- // c\n    300"),
    ("neg-not-register", "ADD(R1, R2, {X})", "expected register", "signdigit", "- 5"),
]
# run-time diagnostics: the operation is executed; an identical operation that is never executed (or executed later)
# stands elsewhere in the program, so that only the identity of the reported operation tells them apart
RUNTIME = [
    ("rt-return", "{X}(FP_alt, PC_ret)", "incorrect return address", "name", "RETURN"),
    ("rt-return-opcode", "{X}(0x21CD)", "incorrect return address", "name", "OPCODE"),
    ("rt-stack-set", "{X}(SP, 0xC005)", "stack has overflowed", "name", "SET"),
    ("rt-stack-opcode", "{X}(0xEFFF)", "stack has overflowed", "name", "OPCODE"),
    ("rt-stack-move", "{X}(SP, R7)", "stack has overflowed", "name", "MOVE"),
    ("rt-eval", '{X}("1/0")', "Python exception", "name", "__eval"),
]
GOOD = ["SET(R1, 5)", "ADD(R2, R1, R1)", "INC(R3, 1)", "NOP()", "MOVE(R4, R1)", "// just a comment", "", "FLAGS(R1)", "SETRF(R5, -2)"]


def layout_line(rng, line):
    """Spread one operation over whitespace / tabs / comments / several lines. Returns text (may contain newlines)."""
    k = rng.random()
    if k < 0.35:
        return rng.choice(["", "  ", "\t", "\t\t ", "    "]) + line + rng.choice(["", "  // c", "\t/* c */"])
    if k < 0.55:
        return line.replace("(", rng.choice(["(", " (", "( ", "\t("]), 1).replace(", ", rng.choice([", ", ",", " ,\t", ",   "]))
    if k < 0.75 and ", " in line:
        # multi-line operation
        return line.replace(", ", ",\n" + rng.choice(["", "    ", "\t"]), rng.choice([1, 2]))
    if k < 0.9:
        return "/* c1 */ " + line.replace(", ", ", /* x */ ", 1)
    return line


def gen_case(rng):
    kind, tmpl, frag, where, tok = rng.choice(FAULTS + RUNTIME[:rng.choice([0, 0, len(RUNTIME)])])
    before = [rng.choice(GOOD) for _ in range(rng.choice([0, 1, 3, 6]))]
    after = [rng.choice(GOOD) for _ in range(rng.choice([0, 1, 3]))]
    if kind.startswith("rt-"):
        twin = tmpl.replace("{X}", tok)
        if kind == "rt-stack-move":
            before.append("SET(R7, 0xC100)")
        # look-alikes: one that is jumped over before the fault, ones after the end of the run
        if rng.random() < 0.5:
            before += ["BR(over)", layout_line(rng, twin), "LABEL(over)"]
        after = ["HALT()"] + [layout_line(rng, twin) for _ in range(rng.choice([0, 1, 1, 2]))]
    env = rng.choice(["plain", "plain", "kept-block", "dead-block-before", "else-block", "include", "same-line", "crlf", "formfeed",
                      "raw-newline-string", "block-comment-lines"])
    pre_lines = ["LABEL(top)"] + before
    fault_line = layout_line(rng, tmpl.replace("{X}", "\x01" + tok + "\x02"))
    if kind == "data-after-code":
        pre_lines = ["LABEL(top)", "SET(R9, 1)"] + before
    lines = list(pre_lines)
    if env == "kept-block":
        lines += ["#ifdef HERA_PY", fault_line, "#endif"]
    elif env == "dead-block-before":
        lines += ["#ifdef HERA_C", "this is { not HERA", "at all", "#endif", fault_line]
    elif env == "else-block":
        lines += ["#ifndef HERA_PY", "junk junk", "#else", fault_line, "#endif"]
    elif env == "same-line":
        lines += [rng.choice(GOOD[:4]) + "  " + fault_line]
    elif env == "raw-newline-string":
        # a string literal with real line breaks between its quotes, before the fault (sometimes on its line)
        lit = 'print("one\ntwo{}")'.format(rng.choice(["", "\nthree", "\n"]))
        lines += [lit + rng.choice(["\n", "  "]) + fault_line]
    elif env == "block-comment-lines":
        lines += ["/* a comment\n   over several\n   lines */ " + rng.choice(["", "\n"]) + fault_line]
    else:
        lines += [fault_line]
    lines += after
    nl = "\n"
    text = nl.join(lines) + nl
    if env == "crlf":
        text = text.replace("\n", "\r\n")
    if env == "formfeed":
        # a form feed / vertical tab inside an earlier comment or blank area: whitespace for the lexer
        text = text.replace("LABEL(top)\n", "LABEL(top) //\x0c ff\n\x0b\n", 1)
    # any of these layouts may also be the content of an included file (the including file is fixed): conditional blocks,
    # comments and raw line breaks in front of the fault inside an include
    return dict(kind=kind, frag=frag, where=where, tok=tok, env=env, marked=text, include=(env == "include" or rng.random() < 0.3))


def unmark(marked):
    """Remove the markers; returns (text, offset of token start, offset of token end)."""
    a = marked.index("\x01")
    b = marked.index("\x02") - 1
    return marked.replace("\x01", "").replace("\x02", ""), a, b


def line_col(text, off):
    """1-based line and column of an offset, counting '\\n' only (as an editor and the lexer do)."""
    line = text.count("\n", 0, off) + 1
    col = off - (text.rfind("\n", 0, off) + 1) + 1
    return line, col


LOCRE = re.compile(r"^(Warning|Error): (.*), line (\d+) col (\d+) of (.*)$")


def parse_stderr(errs):
    """[(msg, line, col, path, quoted line, caret column (1-based) or None)]"""
    out = []
    for e in errs:
        ls = e.split("\n")
        m = LOCRE.match(ls[0])
        if not m:
            out.append((ls[0], None, None, None, None, None))
            continue
        quoted = ls[2][2:] if len(ls) > 2 else None
        caret_line = ls[3][2:] if len(ls) > 3 else ""
        caret = caret_line.index("^") + 1 if "^" in caret_line else None
        out.append((m.group(2), int(m.group(3)), int(m.group(4)), m.group(5), quoted, caret))
    return out


def run_case(case, d):
    """Returns (problem or None, key)."""
    import hera.main as M
    text, a, b = unmark(case["marked"])
    path = os.path.join(d, "main.hera")
    user_text = text
    if case["env"] == "include" or case.get("include"):
        inc = os.path.join(d, "part.hera")
        with open(inc, "w", newline="") as f:
            f.write(text)
        main_text = "SET(R8, 1)\n\n#include \"part.hera\"\nSET(R8, 2)\n"
        if case["kind"].startswith("rt-"):
            # the same operation once more in the including file, never executed
            main_text += "HALT()\n" + dict((k, t.replace("{X}", tk)) for k, t, _f, _w, tk in RUNTIME)[case["kind"]] + "\n"
        with open(path, "w", newline="") as f:
            f.write(main_text)
        expect_path = inc
    else:
        with open(path, "w", newline="") as f:
            f.write(text)
        expect_path = path
    with proto.Capture() as cap:
        try:
            M.main(["--no-color", "--throttle", "200", "-q", path])
        except SystemExit:
            pass
        except BaseException as e:  # noqa
            cap.take()
            return "raised " + type(e).__name__, None
        out, errs = cap.take()
    diags = parse_stderr(errs)
    hits = [x for x in diags if case["frag"] in x[0]]
    if not hits:
        return "no diagnostic containing {!r} (got {})".format(case["frag"], [x[0][:40] for x in diags][:3]), None
    msg, line, col, rpath, quoted, caret = hits[0]
    if line is None:
        return "the diagnostic {!r} carries no location".format(msg[:50]), None
    key = None
    if case["env"] in ("dead-block-before", "else-block", "kept-block"):
        key = "ifdef-line-shift"
    lines = user_text.split("\n")
    tl, tc = line_col(user_text, a)
    el, ec = line_col(user_text, b)
    if case["where"] == "name":
        # the operation name: the identifier that starts the marked token's operation
        pass
    if os.path.realpath(rpath) != os.path.realpath(expect_path):
        return "diagnostic names file {} but the fault is in {}".format(os.path.basename(rpath), os.path.basename(expect_path)), key
    if not (1 <= line <= len(lines)):
        return "line {} does not exist in the file ({} lines)".format(line, len(lines)), key
    want_line = lines[line - 1].rstrip("\r")
    if quoted is not None and quoted.rstrip("\r") != want_line:
        return "the quoted source line {!r} is not line {} of the file ({!r})".format(quoted[:40], line, want_line[:40]), key
    if not (1 <= col <= len(lines[line - 1]) + 1):
        return "column {} does not exist in line {}".format(col, line), key
    if case["where"] == "signdigit":
        inside = (line, col) >= (tl, tc) and (line, col) <= (el, ec)
        ch = lines[line - 1][col - 1:col]
        if not inside or ch not in tuple("-0123456789"):
            return "{} reported at line {} col {} (character {!r}) but the operand {!r} has its sign at line {} col {} and ends at line {} col {}".format(
                case["kind"], line, col, ch, case["tok"], tl, tc, el, ec), key
    if case["where"] in ("X", "name", "name-or-X"):
        inside = (line, col) >= (tl, tc) and (line, col) <= (el, ec)
        if case["where"] == "name-or-X" and not inside:
            # whole-operation fault: the name of the operation that contains the token
            inside = line == tl and col <= tc
        if case["kind"] == "unclosed-string":
            inside = inside or (line == tl and col == tc)
        if not inside:
            return "{} reported at line {} col {} but the offending token {!r} is at line {} col {}..{}".format(
                case["kind"], line, col, case["tok"], tl, tc, ec), key
    if caret is not None and quoted is not None:
        # the caret's column in the printed text (tabs copied) must be the reported column
        if caret != col:
            return "the caret is printed under column {} but the message says col {}".format(caret, col), key
    return None, key


def check(seed, n):
    rng = random.Random(seed)
    d = tempfile.mkdtemp(prefix="hera_verif_loc_")
    violations, seen = [], set()
    dist = {}
    evals = 0
    try:
        for k in range(n):
            case = gen_case(rng)
            problem, key = run_case(case, d)
            proto.sample("locs", {"kind": case["kind"], "env": case["env"], "text": case["marked"].replace("\x01", "").replace("\x02", "")})
            evals += 1
            seen.add(case["marked"])
            dist[case["env"]] = dist.get(case["env"], 0) + 1
            if case["kind"].startswith("rt-"):
                dist["run-time kinds"] = dist.get("run-time kinds", 0) + 1
            if problem:
                v = {"property": "C17", "stream": "locs", "sig": "loc:{}:{}".format(case["env"], re.sub(r"[0-9]+", "N", problem)[:40]),
                     "case": case, "what": "[{} / {}] {}".format(case["kind"], case["env"], problem)}
                if key and "line" in problem:
                    v["key"] = key
                violations.append(v)
    finally:
        shutil.rmtree(d, ignore_errors=True)
    return {"evaluations": evals, "violations": violations, "disagreements": [], "distribution": dist, "distinct": len(seen)}


def replay_case(case):
    if case.get("kind") == "oploc":
        r = oploc_problem(case["marked"], case["kinds"], case["mode"])
        return None if r == "skip" else r
    d = tempfile.mkdtemp(prefix="hera_verif_loc_")
    try:
        return run_case(case, d)[0]
    finally:
        shutil.rmtree(d, ignore_errors=True)


# ---------------------------------------------------------------------------------------------------------
# every operation of the loaded program carries the position of the operation it was written as

OPLOC_CODE = ["SET(R1, 5)", "SET(R1, 5)", "ADD(R2, R1, R1)", "NOP()", "OPCODE(0x21CD)", "OPCODE(0x21CD)", "OPCODE(0)", "OPCODE(0)",
              "MOVE(R4, R1)", "CMP(R1, R2)", "SETRF(R5, -2)", "print_reg(R1)", "print(\"x\")", "NOT(R1, R2)", "CALL(R12, top)", "BR(top)",
              "BRR(top)", "INC(R3, 1)", "INC(R3, 1)", "HALT()", "RETURN(R12, R13)", "NEG(R1, R2)", "SWI(1)", "RTI()"]
OPLOC_DATA = ["INTEGER(5)", "INTEGER(5)", "DSKIP(2)", "LP_STRING(\"ab\")", "TIGER_STRING(\"ab\")"]
OPLOC_NONE = ["LABEL(l{n})", "CONSTANT(c{n}, 3)", "// SET(R1, 5)", "/* NOP() */", ""]


def gen_oploc(rng):
    """(marked text, kinds): each operation name is preceded by \\x01; kinds[i] in code / data / none for the i-th marker"""
    lines, kinds = ["LABEL(top)"], []
    nd = rng.choice([0, 0, 1, 3])
    n = 0
    for i in range(nd + rng.choice([1, 3, 6, 12])):
        pool = OPLOC_DATA if i < nd else OPLOC_CODE
        if rng.random() < 0.2:
            t = rng.choice(OPLOC_NONE).replace("{n}", str(n))
            n += 1
            lines.append(t)
            continue
        t = rng.choice(pool)
        kinds.append("data" if i < nd else "code")
        piece = layout_line(rng, "\x01" + t)
        if rng.random() < 0.15 and lines and "//" not in lines[-1]:
            lines[-1] += "  " + piece       # two operations on one line
        else:
            lines.append(piece)
    if rng.random() < 0.3:
        k = rng.randrange(1, len(lines) + 1)
        lines[k:k] = rng.choice([["#ifdef HERA_C", "junk {", "#endif"], ["#ifndef HERA_PY", "junk", "#else", "#endif"], ["#ifdef HERA_PY", "#endif"]])
    return "\n".join(lines) + "\n", kinds


def oploc_problem(marked, kinds, mode):
    text = marked.replace("\x01", "")
    want, off = [], 0
    for i, ch in enumerate(marked):
        if ch == "\x01":
            want.append(line_col(text, i - len(want)))
    st = progrun.make_settings(mode=mode)
    prog, out, errs, exc = progrun.load(text, st)
    if prog is None:
        return "skip"
    for what, ops, kind in (("code", prog.code, "code"), ("data", prog.data, "data")):
        got = []
        for op in ops:
            if op.loc is None:
                return "an operation of the loaded program ({}) carries no location".format(op.name)
            p = (op.loc.line, op.loc.column)
            if not got or got[-1] != p:
                got.append(p)
        exp = [w for w, k in zip(want, kinds) if k == kind]
        if mode in ("assemble", "preprocess") and kind == "code":
            continue        # debugging operations are dropped there: covered by the run modes
        if got != exp:
            for j, (g, e) in enumerate(zip(got + [None] * len(exp), exp + [None] * len(got))):
                if g != e:
                    return "the {} operations of the loaded program carry, in order, the positions {}... but were written at {}... (first difference at #{})".format(
                        what, got[max(0, j - 1):j + 2], exp[max(0, j - 1):j + 2], j)
    return None


def check_oploc(seed, n):
    rng = random.Random(seed)
    violations, seen, evals, dist = [], set(), 0, {"loaded": 0, "rejected": 0}
    for k in range(n):
        marked, kinds = gen_oploc(rng)
        mode = ["", "debug"][k % 2]
        r = oploc_problem(marked, kinds, mode)
        if k % 400 == 0:
            proto.sample("oploc", {"text": marked.replace("\x01", ""), "mode": mode}, per_stream=3)
        evals += 1
        seen.add((marked, mode))
        if r == "skip":
            dist["rejected"] += 1
            continue
        dist["loaded"] += 1
        if r:
            violations.append({"property": "C17", "stream": "oploc", "sig": "oploc:" + re.sub(r"[0-9]+", "N", r)[:40],
                               "case": {"kind": "oploc", "marked": marked, "kinds": kinds, "mode": mode}, "what": r})
    return {"evaluations": evals, "violations": violations, "disagreements": [], "distribution": dist, "distinct": len(seen)}


# ---------------------------------------------------------------------------------------------------------
# correspondence with the Lean location model (herad `linecol`, `ifdefp`)

def lexed_text(text):
    """the text that the real parser hands to its lexer (after conditional compilation), observed by wrapping the Lexer
    class that hera.parser uses for the duration of one parse call"""
    import hera.parser as P
    seen = []
    real_lexer = P.Lexer

    def spy(t, *a, **kw):
        seen.append(t)
        return real_lexer(t, *a, **kw)
    P.Lexer = spy
    try:
        with proto.Capture() as cap:
            try:
                P.parse(text, settings=progrun.make_settings())
            except BaseException:  # noqa
                pass
            cap.take()
    finally:
        P.Lexer = real_lexer
    return seen[0] if seen else ""


def check_model(seed, n):
    from hera.lexer import Lexer
    import hera.utils as U
    import hera.parser as P
    from . import ifdefs
    rng = random.Random(seed)
    reqs, reals, cases = [], [], []
    for k in range(n):
        if k % 2 == 0:
            # line / column arithmetic on texts with every kind of line-break-like character
            m = rng.choice([0, 1, 3, 8, 30])
            text = "".join(rng.choice(["a", "B", " ", "\t", "\n", "\n", "\r", "\r\n", "\x0b", "\x0c", "\x1c", "(", ",", "/"]) for _ in range(m))
            off = rng.randint(0, len(text))
            lx = Lexer.__new__(Lexer)
            lx.text, lx.position, lx.line, lx.column = text, 0, 1, 1
            for _ in range(off):
                lx.next_char()
            with proto.Capture() as cap:
                file_lines = Lexer(text).file_lines
                cap.take()
            line = file_lines[lx.line - 1] if lx.line - 1 < len(file_lines) else None
            if line is None:
                reals.append("no such line {}".format(lx.line))
            else:
                reals.append("{} {} {} {}".format(lx.line, lx.column, proto.w_str(line), proto.w_str(U.align_caret(line, lx.column))))
            reqs.append("linecol {} {}".format(proto.w_str(text), off))
            cases.append({"kind": "linecol", "text": text, "offset": off})
        else:
            tree = ifdefs.gen_tree(rng, rng.choice([0, 1, 2, 3, 4]))
            text = ifdefs.render(tree, rng)
            if k % 3 == 0:
                text = ifdefs.mutate(text, rng)
            if rng.random() < 0.3:
                text = text.replace("\n", "\n\n", rng.choice([1, 2]))
            real = lexed_text(text)
            reals.append("1 " + proto.w_str(real))
            reqs.append("ifdefp " + proto.w_str(text))
            cases.append({"kind": "ifdefp", "text": text})
    answers = proto.run_herad(reqs)
    disagreements = []
    for case, real, ans in zip(cases, reals, answers):
        if ans != real:
            disagreements.append({"stream": "locmodel", "case": case, "model": ans[:300], "impl": real[:300]})
    return {"evaluations": len(cases), "violations": [], "disagreements": disagreements,
            "distinct": len({(c["kind"], c["text"], c.get("offset")) for c in cases})}
