"""
Harness side of the line protocol with `herad` (lean/Main.lean), plus helpers to build real
hera-py objects in given states and to render them in the protocol's canonical form.
"""
import io
import os
import subprocess
import sys

VERIF = os.path.abspath(os.path.join(os.path.dirname(__file__), "..", ".."))
REPO = os.environ.get("HERA_REPO", "/repo")
if REPO not in sys.path:
    sys.path.insert(0, REPO)
HERAD = os.path.join(VERIF, "lean", ".lake", "build", "bin", "herad")


def run_herad(lines):
    """Send request lines (without ids) to herad; return the list of answers (ids stripped)."""
    if not lines:
        return []
    data = "".join("{} {}\n".format(i, l) for i, l in enumerate(lines))
    p = subprocess.run([HERAD], input=data.encode(), stdout=subprocess.PIPE, stderr=subprocess.PIPE)
    if p.returncode != 0:
        raise RuntimeError("herad failed: " + p.stderr.decode()[-2000:])
    out = p.stdout.decode().split("\n")
    res = []
    for i in range(len(lines)):
        line = out[i]
        sp = line.find(" ")
        if sp < 0 or line[:sp] != str(i):
            raise RuntimeError("herad answer out of sync at {}: {!r}".format(i, line[:200]))
        res.append(line[sp + 1:])
    return res


# ---------------------------------------------------------------------------------------------
def w_list(items):
    items = list(items)
    return " ".join([str(len(items))] + [str(x) for x in items])


def w_str(s):
    return w_list(ord(c) for c in s)


def w_bool(b):
    return "1" if b else "0"


def w_int_flag(b):
    """A flag as the protocol sees it; a non-bool flag value is a WF violation caught elsewhere."""
    return "1" if b else "0"


def w_memory(mem):
    nz = [(a, v) for a, v in enumerate(mem) if v != 0]
    return " ".join([str(len(mem)), str(len(nz))] + ["{} {}".format(a, v) for a, v in nz])


def w_settings(st):
    thr = -1 if st.throttle is False else st.throttle
    return " ".join([str(st.data_start), w_bool(st.warn_return_on), str(thr),
                     w_list("{} {}".format(a, b) for a, b in st.init), str(st.warning_count)])


def loc_id(loc):
    if loc is None:
        return -1
    if isinstance(loc, int):
        return loc
    return loc.line * 10000 + loc.column


def w_vm(vm, stdout_text="", diags=(), as_input=False):
    """Canonical rendering of a real VirtualMachine. `diags` = [(kind, msg, locid)]."""
    parts = [w_list(vm.registers), str(vm.pc), str(vm.dc), w_int_flag(vm.flag_sign),
             w_int_flag(vm.flag_zero), w_int_flag(vm.flag_overflow), w_int_flag(vm.flag_carry),
             w_int_flag(vm.flag_carry_block), w_memory(vm.memory), w_str(vm.input_buffer),
             str(vm.input_pos), w_list("{} {}".format(a, b) for a, b in vm.expected_returns),
             w_bool(vm.halted), str(loc_id(vm.location)), str(vm.op_count), w_bool(vm.warned_for_SWI),
             w_bool(vm.warned_for_RTI), w_bool(vm.warned_for_overflow), str(vm.warning_count),
             w_settings(vm.settings)]
    if as_input:
        # list of events: here always empty for a pre-state
        parts.append("0")
    else:
        parts.append(w_str(stdout_text))
        parts.append(str(len(diags)))
        for kind, msg, loc in diags:
            parts.append("{} {} {}".format(kind, w_str(msg), loc))
    return " ".join(parts)


def w_val(v):
    if isinstance(v, str):
        return "S " + w_str(v)
    return "I " + str(v)


class Capture:
    """Capture stdout text and stderr diagnostics written by hera-py while active."""

    def __init__(self):
        self.out = io.StringIO()
        self.err = []

    def write(self, s):  # stderr
        self.err.append(s)

    def flush(self):
        pass

    def isatty(self):
        return False

    def __enter__(self):
        self.saved = (sys.stdout, sys.stderr)
        sys.stdout = self.out
        sys.stderr = self
        return self

    def __exit__(self, *a):
        sys.stdout, sys.stderr = self.saved

    def take(self):
        text = self.out.getvalue()
        self.out.seek(0)
        self.out.truncate()
        errs, self.err = self.err, []
        return text, errs


import re as _re
_LOCPAT = _re.compile(r"^(.*), line (\d+) col (\d+) of (.*)$")


def diags_of(errs, loc=-1):
    """Turn raw stderr writes of print_message into (kind, msg, loc). With a Location the message's
    first line ends in ', line L col C of PATH' and is followed by the quoted source line."""
    res = []
    for e in errs:
        line = e.split("\n")[0]
        m = _LOCPAT.match(line)
        this_loc = loc
        if m:
            line = m.group(1)
            this_loc = int(m.group(2)) * 10000 + int(m.group(3))
        if line.startswith("Warning: "):
            res.append((1, line[len("Warning: "):], this_loc))
        elif line.startswith("Error: "):
            res.append((2, line[len("Error: "):], this_loc))
        else:
            res.append((3, line, this_loc))
    return res


# ---------------------------------------------------------------------------------------------
# samples of what a run actually explored (written into the evidence by check.py)

_SAMPLES = {}


def sample(stream, case, per_stream=2):
    """remember the first few real cases of a stream"""
    lst = _SAMPLES.setdefault(stream, [])
    if len(lst) < per_stream:
        try:
            import json
            lst.append(json.loads(json.dumps(case, default=str)))
        except Exception:  # noqa
            lst.append(str(case)[:500])


def take_samples():
    out = [{"stream": k, "case": c} for k, v in _SAMPLES.items() for c in v]
    _SAMPLES.clear()
    return out
