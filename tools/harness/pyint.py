"""Stream `pyint`: Python's int(s, base) vs the Lean prelude's Py.parseInt, exhaustive over short strings."""
import itertools

from . import proto

ALPHABET = "0179afxXoOb_+- \t"


def run(maxlen=4, bases=(0, 8, 10, 16)):
    reqs, exp = [], []
    for n in range(0, maxlen + 1):
        for tup in itertools.product(ALPHABET, repeat=n):
            s = "".join(tup)
            for b in bases:
                try:
                    v = "ok {}".format(int(s, b))
                except ValueError:
                    v = "err"
                reqs.append("pyint {} {}".format(b, proto.w_str(s)))
                exp.append((s, b, v))
    ans = proto.run_herad(reqs)
    dis = []
    for (s, b, v), a in zip(exp, ans):
        if a != v:
            dis.append({"stream": "pyint", "case": {"s": s, "base": b}, "model": a, "impl": v})
    return {"evaluations": len(reqs), "disagreements": dis, "exhaustive": True}
