"""
Stream for C14 (robustness): arbitrary command lines fed to the real debugger Shell in every kind of state.
"""
import random

from . import dbg, dbgsem, proggen, proto

COMMANDS = ["asm", "assign", "break", "continue", "clear", "dis", "doc", "execute", "goto", "help", "info", "list", "ll", "next",
            "off", "on", "print", "restart", "step", "undo", "a", "b", "c", "cl", "e", "g", "h", "i", "l", "n", "p", "s", "u", "q?", "x"]
ARGS = ["", "1", "3", "-1", "0", "99999", "R1", "r1", "pc", "PC", ".", "*", "nolabel", ":x", ":", ":d R1", ":zz 1", "@R1", "@(0-100)", "-5", "@65535",
        "1+", "(1", "1 2", "3/0", "2*3+4", "R1, R2", "SET(R1, 5)", "INTEGER(300)", "INTEGER(-1)", "OPCODE(0x2200)", "OPCODE(65535)",
        "__eval(\"1/0\")", "__eval(\"vm.pc\")", "BR(R1)", "LABEL(x)", "FOO(", "print_reg(R1)", "\"str\"", "'a'", "registers", "stack",
        "symbols", "flags", "s", "f", "xyz", "c", "cb", "carry-block", "add", "BRANCH", "r1 = 5", "= 5", "R1 =", "R1 = = 2", "@(1/0) = 3",
        "pc = 0-1", "pc = 70000", "pc = 3", "R13 = 60000", "0x", "0b2", "1_0", "100000", "-32769", "R16", "R1 R2 R3", "\t", "é", "\x00"]


# print with every format letter (also combined, capitalised, unknown) on values at and beyond every boundary,
# negative ones and locations included
FORMATS = [":d", ":x", ":o", ":b", ":c", ":s", ":l", ":dl", ":xl", ":sl", ":cl", ":xdscl", ":C", ":S", ":CSl", ":z", ":dd", ":lll"]
PRINT_VALUES = ["-1", "-5", "-100", "0-500", "0-32768", "65535", "65536", "70000", "99999", "32768", "127", "128", "0", "pc", "PC_ret", "R13",
                "R1", "@R1", "pc - 40100", "pc+1", "3 - 50, 7", "nolabel", "-pc", "R13, pc, -3"]


# very long and very deep arguments: digit runs beyond what int() converts, chains and nestings beyond the recursion limit
def long_args():
    d = "1" * 5000
    return [d, "R" + d, "0x" + d, "-" + d, "@" + d, "r1 = " + d, "r" + d + " = 1", "1" + "+1" * 3000, "(" * 3000 + "1" + ")" * 3000,
            "-" * 5000 + "1", "@" * 5000 + "1", "1" + "*R1" * 400, "@" * 400 + "1 = 5", "r1 = " + "(" * 500 + "1", ",".join(["1"] * 3000),
            "1+" * 3000, "SET(R1, " + d + ")", "SET(R" + d + ", 1)", "SET(R1, " + "(" * 3000 + ")", ":" + "d" * 3000 + " 1", "x" * 100000,
            " ".join(["1"] * 5000), "LABEL(" + "a" * 70000 + ")",
            # literals that int() converts without limit but that cannot be printed in decimal
            "0x" + "F" * 5000, "0b" + "1" * 20000, "r1 = 0o" + "7" * 6000, "-0x" + "F" * 5000 + " = 1", "LABEL(0x" + "F" * 5000 + ")",
            "SET(R1, 0b" + "1" * 20000 + ")", "0x" + "F" * 5000 + " / 0x" + "F" * 5000]


LONG = None


def gen_line(rng, labels):
    global LONG
    if LONG is None:
        LONG = long_args()
    k = rng.random()
    if k < 0.04:
        return (rng.choice(COMMANDS + [""]) + " " + rng.choice(LONG)).strip()
    if k < 0.12:
        return "{} {} {}".format(rng.choice(["print", "p"]), rng.choice(FORMATS + [""]), rng.choice(PRINT_VALUES + labels)).replace("  ", " ")
    if k < 0.7:
        cmd = rng.choice(COMMANDS)
        n = rng.choice([0, 1, 1, 2])
        args = [rng.choice(ARGS + labels) for _ in range(n)]
        return (cmd + " " + " ".join(args)).strip()
    if k < 0.85:
        return rng.choice(ARGS + labels)
    return "".join(rng.choice("abcnpsR19 =+-*/@():.,\"'#\\\t_x") for _ in range(rng.choice([1, 2, 4, 8])))


def prepare(shell, rng, state):
    """Bring the debugger into a particular kind of state."""
    if state == "middle":
        for _ in range(rng.choice([1, 2, 5])):
            dbg.feed(shell, "next")
    elif state == "finished":
        dbg.feed(shell, "continue")
    elif state == "pc-outside":
        dbg.feed(shell, "pc = {}".format(rng.choice([len(shell.debugger.program.code), len(shell.debugger.program.code) + 7, 65535])))
    elif state == "in-call":
        for _ in range(30):
            if shell.debugger.finished() or shell.debugger.vm.expected_returns:
                break
            dbg.feed(shell, "step" if (not shell.debugger.finished() and shell.debugger.op().name == "CALL") else "next")
    elif state == "negative":
        dbg.feed(shell, "execute SET(R13, -100)")
        shell.debugger.vm.pc = -rng.choice([1, 5, 100, 40000])
    elif state == "weird-stack":
        dbg.feed(shell, "execute SET(R13, 60000)")
        shell.debugger.vm.expected_returns.append((60000, 60001))


def check(seed, n):
    rng = random.Random(seed)
    violations = []
    evals = 0
    seen = set()
    states = ["start", "middle", "finished", "pc-outside", "in-call", "weird-stack", "negative"]
    hist = {}
    long_done = False
    for k in range(n):
        text = dbgsem.gen_program(rng, seed * 733 + k)
        if dbgsem.load_terminating(text, {"big_stack": k % 4 == 0}) is None:
            continue
        shell, st = dbg.make_shell(text, {"big_stack": k % 4 == 0})
        if shell is None:
            continue
        state = states[k % len(states)]
        prep_seed = rng.randrange(1 << 30)
        prepare(shell, random.Random(prep_seed), state)
        labels = [s for s in shell.debugger.symbol_table]
        done = []
        if not long_done:
            # once per run, on the first usable program: every long / deep argument with the commands that parse arguments
            long_done = True
            long_pass = True
            planned = [(c + " " + a).strip() for a in long_args() for c in ("print", "", "execute", "break", "assign", "next", "info")]
        else:
            long_pass = False
            planned = [gen_line(rng, labels) for _ in range(rng.choice([1, 3, 6]))]
        for line in planned:
            if long_pass:
                done = []            # independent commands: the replay holds the failing one only
            done.append(line)
            out, errs, exc, cont = dbg.feed(shell, line, limit=5)
            proto.sample("shellfuzz", {"state": state, "line": line[:200], "program": text[:200]})
            evals += 1
            if exc and exc.startswith("Hang") and (state in ("pc-outside", "weird-stack", "negative") or any(
                    w in " ".join(done) for w in ("=", "assign", "exec", "goto", " g ", "on ", "off ", "e "))):
                # the user's own changes to the machine can make the program loop for ever: not a hang of the debugger
                break
            seen.add((state, line))
            hist[state] = hist.get(state, 0) + 1
            if exc:
                violations.append({"property": "C14", "stream": "shellfuzz", "sig": "shell:" + line.split(" ")[0][:12] + ":" + exc.split(":")[0],
                                   "case": {"text": text, "state": state, "cmds": list(done), "seed": seed * 733 + k, "prep_seed": prep_seed,
                                            "big_stack": k % 4 == 0},
                                   "what": "debugger command {!r}{} in state {} raised {}".format(line[:80], "..." if len(line) > 80 else "", state, exc)})
                if long_pass and not exc.startswith("Hang"):
                    continue
                break
            if cont is False:
                break
    return {"evaluations": evals, "violations": violations, "disagreements": [], "distribution": hist, "distinct": len(seen)}
