"""
Stream for C19: generated caller programs include the built-in Tiger standard library (stack or register convention),
call one function with chosen arguments from chosen register contents on the real interpreter, and the outcome is
checked against the functional contract of the function and the calling convention:
  * the function returns to its caller (the instruction after the CALL runs),
  * SP and FP are what they were, and (stack convention) so are R1..R10,
  * the result is the specified one; inputs are unchanged; allocated blocks are fresh, disjoint and inside the heap.
Plus correspondence of the div / mod helpers with the Lean model (herad `tigerdiv`).
"""
import random

from . import asmrun, proto

HEAP_LO, HEAP_HI = 0x4000, 0xBFFF
MARK = 4242


def s16(v):
    return v - 65536 if v >= 32768 else v


def quote(s):
    out = []
    for c in s:
        if c == "\n":
            out.append("\\n")
        elif c == '"':
            out.append('\\"')
        elif c == "\\":
            out.append("\\\\")
        else:
            out.append(c)
    return '"' + "".join(out) + '"'


def gen_string(rng):
    n = rng.choice([0, 1, 1, 2, 3, 5, 9])
    return "".join(rng.choice("abcABC xyz019~!") for _ in range(n))


INTS = [0, 1, 2, 3, 5, 6, 7, 10, 100, 255, 256, 32767, -1, -2, -3, -6, -7, -10, -100, -32767, -32768, 12345, -12345]


def gen_case(rng):
    fn = rng.choice(["div", "div", "mod", "mod", "not", "size", "ord", "chr", "concat", "substring", "tstrcmp", "tstrcmp", "malloc", "malloc2",
                     "printint", "print", "getline", "getchar_ord", "heapcopy"])
    conv = rng.choice(["stack", "reg"])
    if fn in ("concat", "substring", "heapcopy") and conv == "reg":
        conv = "stack"          # the register library has neither
    case = {"fn": fn, "conv": conv, "regs": [rng.choice([0, 1, 0x7FFF, 0x8000, 0xFFFF, rng.randint(0, 65535)]) for _ in range(10)]}
    if fn in ("div", "mod"):
        case["args"] = [rng.choice(INTS), rng.choice(INTS)]
    elif fn == "not":
        case["args"] = [rng.choice([0, 1, 2, -1, 255, -32768, 32767])]
    elif fn in ("size", "ord"):
        s = gen_string(rng)
        if fn == "ord" and not s:
            s = "q"
        case["strings"] = [s]
    elif fn == "chr":
        case["args"] = [rng.choice([0, 1, 65, 97, 126, 127, 10])]
    elif fn == "concat":
        case["strings"] = [gen_string(rng), gen_string(rng)]
    elif fn == "heapcopy":
        # strings that live in the heap (the result of an earlier concat), placed by a filler allocation around the middle of
        # the address space (0x8000, where signed and unsigned address comparisons part), then copied again
        strs = [gen_string(rng) or "ab", gen_string(rng) or "cd", gen_string(rng)]
        L = len(strs[0]) + len(strs[1]) + 1
        case["strings"] = strs
        case["args"] = [rng.choice([0x8000 - (HEAP_LO + 1) - rng.randint(0, L + 1), 0x8000 - (HEAP_LO + 1) - rng.randint(0, L + 1),
                                    0x8000 - (HEAP_LO + 1) + rng.randint(1, 5), rng.choice([0, 1, 100, 0x3000])])]
    elif fn == "tstrcmp":
        a = gen_string(rng)
        k = rng.random()
        if k < 0.25:
            b = a
        elif k < 0.5:
            b = a + gen_string(rng)            # a is a prefix of b
        elif k < 0.65 and a:
            b = a[:rng.randrange(len(a))]      # b is a prefix of a
        elif k < 0.8 and a:
            i = rng.randrange(len(a))
            b = a[:i] + rng.choice("aAzZ0~ ") + a[i + 1:]
        else:
            b = gen_string(rng)
        case["strings"] = [a, b]
    elif fn == "substring":
        s = gen_string(rng)
        case["strings"] = [s]
        case["args"] = [rng.choice([0, 0, 1, 2, len(s), len(s) + 1, -1, max(len(s) - 1, 0)]), rng.choice([0, 1, 2, len(s), len(s) + 1, -1, -5])]
    elif fn == "printint":
        case["args"] = [rng.choice(INTS)]
    elif fn == "print":
        case["strings"] = [gen_string(rng)]
    elif fn in ("getline", "getchar_ord"):
        case["stdin"] = rng.choice(["hello\n", "x\n", "\n", "two words\nmore\n", "abc"])
    elif fn in ("malloc", "malloc2"):
        case["args"] = [rng.choice([0, 1, 2, 10, 100, 1000, 0x7000, 0x7FFF, 0x8000, 0xFFFF, 0x3FFF])]
        if fn == "malloc2":
            case["args"].append(rng.choice([0, 1, 5, 50, 0x7FFF]))
    return case


def program_text(case):
    fn, conv = case["fn"], case["conv"]
    real_fn = "malloc" if fn == "malloc2" else fn
    lines = ["#include <Tiger-stdlib-{}-data.hera>".format(conv)]
    for i, s in enumerate(case.get("strings", [])):
        lines += ["DLABEL(str{})".format(i), "LP_STRING({})".format(quote(s))]
    lines += ["DLABEL(results)", "DSKIP(4)", "CBON()"]
    # what the call takes: string addresses first, then integers
    operands = ["str{}".format(i) for i in range(len(case.get("strings", [])))] + [str(a) for a in case.get("args", [])]
    calls = [operands] if fn != "malloc2" else [[operands[0]], [operands[1]]]
    fns = [real_fn] * len(calls)
    if fn == "heapcopy":
        calls, fns = [[operands[3]], ["str0", "str1"], ["@1", "str2"]], ["malloc", "concat", "concat"]
    for ci, ops in enumerate(calls):
        real_fn = fns[ci]
        for i, v in enumerate(case["regs"]):
            lines.append("SET(R{}, {})".format(i + 1, v))
        if conv == "stack":
            lines += ["MOVE(R12, SP)", "INC(SP, 8)"]
            for j, o in enumerate(ops):
                if o.startswith("@"):
                    lines += ["SET(Rt, results)", "LOAD(Rt, {}, Rt)".format(int(o[1:])), "STORE(Rt, {}, R12)".format(3 + j)]
                else:
                    lines += ["SET(Rt, {})".format(o), "STORE(Rt, {}, R12)".format(3 + j)]
            lines += ["STORE(FP, 2, R12)", "CALL(R12, {})".format(real_fn), "LOAD(Rt, 3, R12)", "DEC(SP, 8)"]
        else:
            for j, o in enumerate(ops):
                lines.append("SET(R{}, {})".format(j + 1, o))
            lines += ["MOVE(R12, SP)", "CALL(R12, {})".format(real_fn), "MOVE(Rt, R1)"]
        # keep the result and the registers at this point in memory (the data label `results`)
        lines += ["SET(R12, results)", "STORE(Rt, {}, R12)".format(ci)]
    lines += ["SET(Rt, {})".format(MARK), "HALT()", "#include <Tiger-stdlib-{}.hera>".format(conv)]
    return "\n".join(lines) + "\n"


def read_string(vm, addr):
    n = vm.load_memory(addr)
    if n > 4096:
        return None
    return "".join(chr(vm.load_memory(addr + 1 + i)) for i in range(n))


def div_ok(a, b, q):
    """signed division as far as the property demands: exact quotients exact; otherwise flooring or truncating"""
    if b == 0:
        return q == 0
    if a == -32768 and b == -1:
        return True            # the quotient does not fit 16 bits: left open
    return q in (a // b, int(a / b))


def mod_ok(a, b, r):
    if b == 0:
        return r == 0
    return r in (a % b, a - b * int(a / b))


def run_case(case, d):
    """Returns a description of the contract violation, or None."""
    import os
    text = program_text(case)
    path = os.path.join(d, "t.hera")
    with open(path, "w") as f:
        f.write(text)
    import io
    import sys
    saved_stdin = sys.stdin
    sys.stdin = io.StringIO(case.get("stdin", ""))
    try:
        code, out, err, vm = asmrun.real_main(["--no-color", "-q", "--throttle", "200000", path])
    finally:
        sys.stdin = saved_stdin
    fn, conv = case["fn"], case["conv"]
    if code != 0 or vm is None:
        return "the caller program is rejected or crashes (status {}): {}".format(code, err.strip().split("\n")[0][:100])
    expect_exit = False
    if fn == "substring":
        first, n = case["args"]
        expect_exit = first < 0 or n < 0 or first + n > len(case["strings"][0])
    if fn in ("malloc", "malloc2"):
        total, fails = HEAP_LO + 1, False
        for n in case["args"]:
            if total + (n & 0xFFFF) > 0xFFFF or total + (n & 0xFFFF) >= HEAP_HI:
                fails = True
                break
            total += n & 0xFFFF
        expect_exit = fails
    if expect_exit:
        if vm.registers[11] == MARK:
            return "{} with {} must report an error and stop, but returned to its caller".format(fn, case.get("args"))
        if "terminated" not in out:
            return "{} with {} stopped without its error message".format(fn, case.get("args"))
        return None
    if fn == "getline" and conv == "stack" and vm.registers[11] != MARK:
        return "KEY:getline-stack-no-return getline (stack convention) does not return to its caller: pc = {}, halted = {}".format(vm.pc, vm.halted)
    if not vm.halted or vm.registers[11] != MARK:
        return "{} ({}) does not return to its caller: pc = {}, halted = {}, output {!r}".format(fn, conv, vm.pc, vm.halted, out[-60:])
    # convention
    # the data label `results` is the last DSKIP(4) block: find it through the program's symbol table by re-loading
    import hera.loader as L
    with proto.Capture() as cap:
        prog = L.load_program(text, vm.settings)
        cap.take()
    results_addr = int(prog.symbol_table["results"])
    res = [vm.load_memory(results_addr + i) for i in range(4)]
    # SP and FP: the caller never moved FP, and re-balanced SP itself
    if vm.registers[14] != 0:
        return "{} ({}) returns with FP = {} (the caller had 0)".format(fn, conv, vm.registers[14])
    if vm.registers[15] != 0:
        return "{} ({}) returns with SP = {} (the caller had 0 after re-balancing)".format(fn, conv, vm.registers[15])
    if conv == "stack":
        for i, v in enumerate(case["regs"]):
            if vm.registers[i + 1] != v:
                return "{} (stack convention) does not preserve R{}: {} -> {}".format(fn, i + 1, v, vm.registers[i + 1])
    # function
    args = case.get("args", [])
    strs = case.get("strings", [])
    r = res[0]
    saddr = [int(prog.symbol_table["str{}".format(i)]) for i in range(len(strs))]
    for i, s in enumerate(strs):
        if read_string(vm, saddr[i]) != s:
            return "{} changed its argument string {}".format(fn, i)
    if fn == "div" and not div_ok(args[0], args[1], s16(r)):
        return "div({}, {}) = {}".format(args[0], args[1], s16(r))
    if fn == "mod" and not mod_ok(args[0], args[1], s16(r)):
        return "mod({}, {}) = {}".format(args[0], args[1], s16(r))
    if fn == "not" and r != (1 if args[0] == 0 else 0):
        return "not({}) = {}".format(args[0], r)
    if fn == "size" and r != len(strs[0]):
        return "size({!r}) = {}".format(strs[0], r)
    if fn == "ord" and r != ord(strs[0][0]):
        return "ord({!r}) = {}".format(strs[0], r)
    if fn in ("chr", "concat", "substring"):
        want = chr(args[0]) if fn == "chr" else (strs[0] + strs[1] if fn == "concat" else strs[0][args[0]:args[0] + args[1]])
        got = read_string(vm, r)
        if got != want:
            return "{}({}) returns the string {!r}, expected {!r}".format(fn, ", ".join(map(repr, strs + args)), got, want)
        if not (HEAP_LO < r and r + len(want) < HEAP_HI):
            return "{} returns a block outside the heap: {:#x}".format(fn, r)
    if fn == "heapcopy":
        h, r2 = res[1], res[2]
        if read_string(vm, h) != strs[0] + strs[1]:
            return "concat({!r}, {!r}) after malloc({}) returns the string {!r} at {:#x}".format(strs[0], strs[1], args[0], read_string(vm, h), h)
        if read_string(vm, r2) != strs[0] + strs[1] + strs[2]:
            return "concat of the heap string at {:#x} ({!r}) with {!r} returns {!r}, expected {!r}".format(
                h, strs[0] + strs[1], strs[2], read_string(vm, r2), strs[0] + strs[1] + strs[2])
    if fn == "tstrcmp":
        want = (strs[0] > strs[1]) - (strs[0] < strs[1])
        got = s16(r)
        if (got > 0) - (got < 0) != want:
            return "tstrcmp({!r}, {!r}) = {} (sign must be {})".format(strs[0], strs[1], got, want)
    if fn == "printint" and out != str(args[0]):
        return "printint({}) prints {!r}".format(args[0], out)
    if fn == "print" and out != strs[0]:
        return "print({!r}) prints {!r}".format(strs[0], out)
    # getline / getchar_ord: only the calling contract is specified (checked above)
    if fn == "malloc":
        if r != HEAP_LO + 1:
            return "the first malloc returns {:#x}, expected the first heap cell {:#x}".format(r, HEAP_LO + 1)
    if fn == "malloc2":
        a, b = res[0], res[1]
        n0 = args[0] & 0xFFFF
        if not (HEAP_LO < a and a + n0 <= b and b + (args[1] & 0xFFFF) <= HEAP_HI):
            return "two mallocs({}, {}) return {:#x} and {:#x}: blocks overlap or leave the heap".format(args[0], args[1], a, b)
    return None


def check(seed, n):
    import shutil
    rng = random.Random(seed)
    d = asmrun.scratch_dir()
    violations, seen, dist = [], set(), {}
    evals = 0
    try:
        for k in range(n):
            case = gen_case(rng)
            proto.sample("tiger", case)
            r = run_case(case, d)
            evals += 1
            seen.add(repr(sorted(case.items())))
            key = case["fn"] + "/" + case["conv"]
            dist[key] = dist.get(key, 0) + 1
            if r:
                v = {"property": "C19", "stream": "tiger", "sig": "tiger:{}:{}".format(key, r.split("(")[0][:30]), "case": case, "what": r}
                if r.startswith("KEY:"):
                    v["key"], v["what"] = r.split(" ", 1)[0][4:], r.split(" ", 1)[1]
                violations.append(v)
    finally:
        shutil.rmtree(d, ignore_errors=True)
    return {"evaluations": evals, "violations": violations, "disagreements": [], "distribution": dist, "distinct": len(seen)}


def replay_case(case):
    import shutil
    d = asmrun.scratch_dir()
    try:
        return run_case(case, d)
    finally:
        shutil.rmtree(d, ignore_errors=True)


# ---------------------------------------------------------------------------------------------------------
# div / mod helpers vs the Lean model

def check_divmod(seed, n):
    import hera.stdlib as SL
    import hera.vm as V
    from . import progrun
    rng = random.Random(seed)
    words = [0, 1, 2, 3, 5, 7, 100, 255, 256, 32767, 32768, 32769, 65535, 65534, 65533, 65530, 65436, 40000]
    pairs = [(a, b) for a in words for b in words] + [(rng.randint(0, 65535), rng.randint(0, 65535)) for _ in range(n)]
    reqs, reals = [], []
    for a, b in pairs:
        outs = []
        for conv in ("reg", "stack"):
            vm = V.VirtualMachine(progrun.make_settings())
            try:
                if conv == "reg":
                    vm.registers[1], vm.registers[2] = a, b
                    SL.tiger_div_reg(vm)
                    q = vm.registers[1]
                    vm.registers[1], vm.registers[2] = a, b
                    SL.tiger_mod_reg(vm)
                    m = vm.registers[1]
                else:
                    vm.registers[14] = 100
                    vm.store_memory(103, a)
                    vm.store_memory(104, b)
                    SL.tiger_div_stack(vm)
                    q = vm.load_memory(103)
                    vm.store_memory(103, a)
                    SL.tiger_mod_stack(vm)
                    m = vm.load_memory(103)
                outs.append("{} {}".format(int(q), int(m)))
            except Exception as e:  # noqa
                outs.append("err:" + type(e).__name__)
        reqs.append("tigerdiv {} {}".format(a, b))
        reals.append(outs)
    answers = proto.run_herad(reqs)
    disagreements = []
    for (a, b), outs, ans in zip(pairs, reals, answers):
        for conv, o in zip(("reg", "stack"), outs):
            if o != ans:
                disagreements.append({"stream": "tigerdiv", "case": {"l": a, "r": b, "conv": conv}, "model": ans, "impl": o})
    return {"evaluations": 2 * len(pairs), "violations": [], "disagreements": disagreements, "distinct": len(set(pairs))}
