"""
Stream for C16 (includes): generated include graphs in nested directories (DAGs with diamonds and repeats, cycles of length
1..4, ./ and ../ paths) through the real parser; compared with textual splicing computed by the harness.
"""
import os
import random
import shutil
import tempfile

from . import proto, progrun


def gen_graph(rng, cyclic):
    n = rng.choice([2, 3, 4, 5])
    dirs = ["", "sub", "sub/deep", "other"]
    files = []
    for i in range(n):
        files.append({"name": "f{}.hera".format(i), "dir": rng.choice(dirs), "includes": [], "ops": rng.choice([1, 2, 3])})
    # edges i -> j with j > i (acyclic), possibly repeated / diamonds
    for i in range(n):
        for j in range(i + 1, n):
            if rng.random() < 0.5:
                files[i]["includes"].append(j)
        if i + 1 < n and not files[i]["includes"] and rng.random() < 0.7:
            files[i]["includes"].append(i + 1)
        if files[i]["includes"] and rng.random() < 0.25:
            files[i]["includes"].append(rng.choice(files[i]["includes"]))   # the same file twice
    if rng.random() < 0.4:
        # twins: the same name *as written* resolving to two different files, because the including files sit in different
        # directories (`#include "f"` is found relative to the including file)
        edges = [(i, j) for i in range(n) for j in files[i]["includes"]]
        if edges:
            i, j = rng.choice(edges)
            r = os.path.relpath(os.path.join("/x", files[j]["dir"]), os.path.join("/x", files[i]["dir"]))
            others = [k for k in range(n) if files[k]["dir"] != files[i]["dir"]]
            if others:
                k = rng.choice(others)
            else:
                files.append({"name": "g{}.hera".format(n), "dir": rng.choice([d for d in dirs + ["third"] if d != files[i]["dir"]]),
                              "includes": [], "ops": 1})
                k = len(files) - 1
                files[0]["includes"].append(k)
            d2 = os.path.normpath(os.path.join("/x", files[k]["dir"], r))
            if d2.startswith("/x") and not any(os.path.normpath(os.path.join("/x", f["dir"])) == d2 and f["name"] == files[j]["name"] for f in files):
                rd = os.path.relpath(d2, "/x")
                files.append({"name": files[j]["name"], "dir": "" if rd == "." else rd, "includes": [], "ops": rng.choice([1, 2]), "twin_of": j})
                files[k]["includes"].append(len(files) - 1)
    back = None
    if cyclic:
        # add a back edge that closes a cycle reachable from the root
        reach = [0]
        for i in reach:
            for j in files[i]["includes"]:
                if j not in reach:
                    reach.append(j)
        src = rng.choice(reach)

        def reaches(a, b, seen=()):
            if a == b:
                return True
            return any(reaches(c, b, seen + (a,)) for c in files[a]["includes"] if c not in seen)

        anc = [k for k in reach if reaches(k, src)]
        dst = rng.choice(anc)
        files[src]["includes"].append(dst)
        back = (src, dst)
    return files, back


def rel(from_dir, to_dir, name, rng):
    p = os.path.relpath(os.path.join("/x", to_dir, name), os.path.join("/x", from_dir))
    if rng.random() < 0.3 and not p.startswith(".."):
        p = "./" + p
    return p


def write_graph(root, files, rng, fault=None):
    """Writes the files. Returns {index: (path, text)}."""
    out = {}
    for i, f in enumerate(files):
        d = os.path.join(root, f["dir"])
        os.makedirs(d, exist_ok=True)
        lines = []
        for k in range(f["ops"]):
            lines.append("SET(R{}, {})".format(1 + (i % 8), i * 100 + k))
            if rng.random() < 0.35:
                # references to a label that the root file defines at its end: resolved per occurrence
                lines.append(rng.choice(["BZR(theend)", "BRR(theend)", "BNZ(theend)", "SET(R9, theend)", "CALL(R12, theend)"]))
        if i == 0:
            lines.append("LABEL(theend)")
            lines.append("HALT()")
        # includes are placed between ops
        for j in f["includes"]:
            pos = rng.randint(0, len(lines))
            lines.insert(pos, '#include "{}"'.format(rel(f["dir"], files[j]["dir"], files[j]["name"], rng)))
        if rng.random() < 0.4:
            # conditional blocks inside the file (often #ifndef only): dead branches hold non-HERA text
            k = rng.randrange(len(lines) + 1)
            form = rng.choice(["ifndef-keep", "ifndef-keep", "ifdef-else", "ifndef-else", "ifdef-dead", "guard"])
            junk = "this is { not HERA"
            live = "SET(R{}, {})".format(1 + (i % 8), 7000 + i)
            block = {"ifndef-keep": ["#ifndef HERA_C", live, "#endif"],
                     "ifdef-else": ["#ifdef HERA_PY", live, "#else", junk, "#endif"],
                     "ifndef-else": ["  #ifndef HERA_PY", junk, "  #else", live, "  #endif"],
                     "ifdef-dead": ["#ifdef HERA_C", junk, junk, "#endif"],
                     "guard": ["#ifndef HERA_PY", "#ifndef X", junk, "#endif", "#endif", live]}[form]
            lines[k:k] = block
        if fault is not None and fault[0] == i:
            lines.insert(fault[1], "ADD(R1, R2)")        # wrong arity: a diagnostic that must be attributed to this file
        text = "\n".join(lines) + "\n"
        path = os.path.join(d, f["name"])
        with open(path, "w") as fh:
            fh.write(text)
        out[i] = (path, text)
    return out


def splice(i, written, files, stack=()):
    """Textual splicing: list of (op text, file index, line)."""
    path, text = written[i]
    res = []
    blocks = []         # per open block: [enclosing kept, this branch kept]
    for ln, line in enumerate(text.split("\n"), 1):
        t = line.strip()
        kept = all(b[1] for b in blocks)
        if t.startswith("#ifdef ") or t.startswith("#ifndef "):
            cond = (t.split()[1] == "HERA_PY") != t.startswith("#ifndef ")
            blocks.append([kept, kept and cond])
            continue
        if t == "#else" and blocks:
            blocks[-1][1] = blocks[-1][0] and not blocks[-1][1]
            continue
        if t == "#endif" and blocks:
            blocks.pop()
            continue
        if not kept:
            continue
        if line.startswith("#include"):
            target = line.split('"')[1]
            tp = os.path.normpath(os.path.join(os.path.dirname(path), target))
            j = [k for k, (p, _) in written.items() if os.path.normpath(p) == tp][0]
            res.extend(splice(j, written, files, stack + (i,)))
        elif line.strip():
            res.append((line.strip(), i, ln))
    return res


def check(seed, n):
    import hera.parser as P
    import hera.utils as U
    rng = random.Random(seed)
    violations = []
    evals = 0
    seen = set()
    root = tempfile.mkdtemp(prefix="hera_verif_inc_")
    try:
        for k in range(n):
            sub = os.path.join(root, "g{}".format(k))
            os.makedirs(sub)
            cyclic = k % 3 == 2
            files, back = gen_graph(rng, cyclic)
            fault = None
            if not cyclic and rng.random() < 0.4:
                fi = rng.randrange(len(files))
                fault = (fi, rng.randint(0, files[fi]["ops"]))
            written = write_graph(sub, files, rng, fault)
            path0 = written[0][0]
            st = progrun.make_settings()
            case = {"files": {os.path.relpath(p, sub): t for p, t in written.values()}, "cyclic": cyclic}
            with proto.Capture() as cap:
                try:
                    text = U.read_file(path0)
                    ops, msgs = P.parse(text, path=U.Path(path0), settings=st)
                    exc = None
                except RecursionError:
                    exc = "RecursionError (include cycle not stopped)"
                except Exception as e:  # noqa
                    exc = type(e).__name__ + ": " + str(e)[:100]
                cap.take()
            evals += 1
            proto.sample("includes", case)
            seen.add(repr(sorted(case["files"].items())))
            if exc:
                violations.append({"property": "C16", "stream": "includes", "sig": "include:exception", "case": case,
                                   "what": "parsing an include graph raised " + exc})
                continue
            errs = [m for m, loc in msgs.errors]
            if cyclic:
                if not any("recursive include" in m for m in errs):
                    violations.append({"property": "C16", "stream": "includes", "sig": "include:cycle-missed", "case": case,
                                       "what": "an include cycle ({} -> {}) was not reported as an error".format(files[back[0]]["name"], files[back[1]]["name"])})
                continue
            if any("recursive include" in m for m in errs):
                violations.append({"property": "C16", "stream": "includes", "sig": "include:false-cycle", "case": case,
                                   "what": "an acyclic include graph (diamond / repeated include) is reported as a recursive include"})
                continue
            exp = splice(0, written, files)
            got = [(str(o), os.path.normpath(str(o.loc.path)), o.loc.line) for o in ops]
            want = [(t.replace(" ", ""), os.path.normpath(written[i][0]), ln) for t, i, ln in exp]
            got_n = [(a.replace(" ", ""), b, c) for a, b, c in got]
            if got_n != want:
                violations.append({"property": "C16", "stream": "includes", "sig": "include:splice", "case": case,
                                   "what": "operations (text, file, line) differ from textual splicing: got {} ... expected {} ...".format(got_n[:3], want[:3])})
                continue
            if fault is None:
                # "as if the contents stood in its place": the checked program equals that of the flattened text
                import hera.checker as C
                flat = "\n".join(t for t, i, ln in exp) + "\n"
                with proto.Capture() as cap:
                    try:
                        prog_a, cm_a = C.check(ops, st)
                        ops_b, pm_b = P.parse(flat, settings=progrun.make_settings())
                        prog_b, cm_b = C.check(ops_b, progrun.make_settings())
                        problem = None
                    except Exception as e:  # noqa
                        problem = "checking raised " + type(e).__name__
                    cap.take()
                if problem is None:
                    sig_a = ([e[0] for e in cm_a.errors], [(o.name, list(o.args)) for o in prog_a.code])
                    sig_b = ([e[0] for e in cm_b.errors], [(o.name, list(o.args)) for o in prog_b.code])
                    if sig_a != sig_b:
                        k = next((j for j, (x, y) in enumerate(zip(sig_a[1], sig_b[1])) if x != y), None)
                        problem = "the program differs from that of the textually flattened source (errors {} vs {}; first differing instruction {}: {} vs {})".format(
                            sig_a[0][:1], sig_b[0][:1], k, sig_a[1][k] if k is not None and k < len(sig_a[1]) else None,
                            sig_b[1][k] if k is not None and k < len(sig_b[1]) else None)
                if problem:
                    violations.append({"property": "C16", "stream": "includes", "sig": "include:program", "case": case, "what": problem})
            if fault is not None:
                import hera.checker as C
                prog, cm = C.check(ops, st)
                locs = [(os.path.normpath(str(loc.path)), loc.line) for m, loc in cm.errors if loc is not None and hasattr(loc, "path")]
                fl = [ln for t, i, ln in exp if t == "ADD(R1, R2)"]
                if fl and (os.path.normpath(written[fault[0]][0]), fl[0]) not in locs:
                    violations.append({"property": "C16", "stream": "includes", "sig": "include:attribution", "case": case,
                                       "what": "a fault in included file {} line {} is reported at {}".format(files[fault[0]]["name"], fl[0], locs[:2])})
    finally:
        shutil.rmtree(root, ignore_errors=True)
    return {"evaluations": evals, "violations": violations, "disagreements": [], "distinct": len(seen)}


def flatten_files(path, stack=()):
    """textual splicing computed from the files themselves: [(operation text without blanks, file, line)]"""
    import re
    out = []
    with open(path) as f:
        lines = f.read().split("\n")
    blocks = []
    for i, l in enumerate(lines, start=1):
        t = l.split("//")[0].strip()
        kept = all(b[1] for b in blocks)
        if t.startswith("#ifdef ") or t.startswith("#ifndef "):
            cond = (t.split()[1] == "HERA_PY") != t.startswith("#ifndef ")
            blocks.append([kept, kept and cond])
            continue
        if t == "#else" and blocks:
            blocks[-1][1] = blocks[-1][0] and not blocks[-1][1]
            continue
        if t == "#endif" and blocks:
            blocks.pop()
            continue
        if not t or not kept:
            continue
        m = re.match(r'^#include\s+"(.*)"$', t)
        if m:
            child = os.path.normpath(os.path.join(os.path.dirname(path), m.group(1)))
            if child in stack or child == path:
                raise RecursionError("cycle")
            out += flatten_files(child, stack + (path,))
        else:
            out.append((t.replace(" ", ""), os.path.normpath(path), i))
    return out


def replay_case(case):
    """Re-run one recorded include graph against the real parser."""
    import hera.parser as P
    import hera.utils as U
    root = tempfile.mkdtemp(prefix="hera_verif_inc_")
    try:
        first = None
        for relp, text in case["files"].items():
            p = os.path.join(root, relp)
            os.makedirs(os.path.dirname(p), exist_ok=True)
            with open(p, "w") as f:
                f.write(text)
            first = first or p
        st = progrun.make_settings()
        with proto.Capture() as cap:
            try:
                ops, msgs = P.parse(U.read_file(first), path=U.Path(first), settings=st)
            except RecursionError:
                cap.take()
                return "RecursionError (include cycle not stopped)"
            except Exception as e:  # noqa
                cap.take()
                return "parsing an include graph raised " + type(e).__name__
            cap.take()
        errs = [m for m, loc in msgs.errors]
        if case.get("cyclic"):
            return None if any("recursive include" in m for m in errs) else "an include cycle was not reported as an error"
        if any("recursive include" in m for m in errs):
            return "an acyclic include graph is reported as a recursive include"
        try:
            want = flatten_files(first)
        except (RecursionError, OSError):
            return None
        got = [(str(o).replace(" ", ""), os.path.normpath(str(o.loc.path)), o.loc.line) for o in ops]
        if got != want:
            return "operations (text, file, line) differ from textual splicing: got {} ... expected {} ...".format(got[:3], want[:3])
        import hera.checker as C
        flat = "\n".join(t for t, pth, ln in want) + "\n"
        flat = "\n".join(line for line in open(first).read().split("\n") if False) or flat
        with proto.Capture() as cap:
            try:
                # (operation texts were compared without blanks; re-read them with blanks from the files)
                texts = []

                def walk(path):
                    blocks = []
                    for l in open(path).read().split("\n"):
                        t = l.split("//")[0].strip()
                        kept = all(b[1] for b in blocks)
                        if t.startswith("#ifdef ") or t.startswith("#ifndef "):
                            cond = (t.split()[1] == "HERA_PY") != t.startswith("#ifndef ")
                            blocks.append([kept, kept and cond])
                            continue
                        if t == "#else" and blocks:
                            blocks[-1][1] = blocks[-1][0] and not blocks[-1][1]
                            continue
                        if t == "#endif" and blocks:
                            blocks.pop()
                            continue
                        if not t or not kept:
                            continue
                        import re as _re
                        m = _re.match(r'^#include\s+"(.*)"$', t)
                        if m:
                            walk(os.path.normpath(os.path.join(os.path.dirname(path), m.group(1))))
                        else:
                            texts.append(t)
                walk(first)
                prog_a, cm_a = C.check(ops, st)
                ops_b, pm_b = P.parse("\n".join(texts) + "\n", settings=progrun.make_settings())
                prog_b, cm_b = C.check(ops_b, progrun.make_settings())
            except Exception as e:  # noqa
                cap.take()
                return "checking raised " + type(e).__name__
            cap.take()
        sig_a = ([e[0] for e in cm_a.errors], [(o.name, list(o.args)) for o in prog_a.code])
        sig_b = ([e[0] for e in cm_b.errors], [(o.name, list(o.args)) for o in prog_b.code])
        if sig_a != sig_b:
            return "the program differs from that of the textually flattened source"
        return None
    finally:
        shutil.rmtree(root, ignore_errors=True)
