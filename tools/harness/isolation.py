"""
Streams for C15: repeatability / isolation of runs, throttle sweep, default-argument and field audits.
All implementation-level oracles; the run-loop model is corresponded for throttled runs too.
"""
import copy
import inspect
import random

from . import proto, proggen, progrun
from .proto import w_vm


_LAST = {}

STATEFUL_EVAL_PROGRAMS = [
    "#include <Tiger-stdlib-reg-data.hera>\nSET(R1, 100)\nSET(R2, 7)\nCALL(FP_alt, div)\nMOVE(R3, R1)\nSET(R1, 100)\nSET(R2, 7)\nCALL(FP_alt, mod)\n"
    "MOVE(R4, R1)\nMOVE(R1, R3)\nCALL(FP_alt, printint)\nHALT()\n#include <Tiger-stdlib-reg.hera>\n",
    "SET(R1, 41)\n__eval(\"vm.store_register(5, vm.load_register(1) + 1)\")\nINC(R5, 1)\n__eval(\"vm.store_memory(100, vm.load_register(5))\")\nLOAD(R6, 0, R0)\n",
    "#include <Tiger-stdlib-stack-data.hera>\nSET(R1, 9)\nSET(R2, 4)\nMOVE(FP_alt, SP)\nINC(SP, 5)\nSTORE(R1, 3, FP_alt)\nSTORE(R2, 4, FP_alt)\nCALL(FP_alt, div)\n"
    "LOAD(R3, 3, FP_alt)\nDEC(SP, 5)\nHALT()\n#include <Tiger-stdlib-stack.hera>\n",
]


def snapshot(vm, out, diags, warn_delta):
    return (w_vm(vm, out, diags).replace(" " + proto.w_settings(vm.settings) + " ", " S "), warn_delta)


def run_on(vm, prog, limit=20):
    """one real `vm.run(prog)`; every program that gets here ends within 2500 instructions by the step-by-step reference,
    so a run that has not returned after `limit` seconds is reported as such (never waited for)"""
    import signal
    from .dbg import Hang, _alarm
    before = vm.settings.warning_count
    exc = None
    with proto.Capture() as cap:
        old = signal.signal(signal.SIGALRM, _alarm)
        signal.setitimer(signal.ITIMER_REAL, limit)
        try:
            vm.run(prog)
        except Hang:
            exc = "Hang"
        except SystemExit:
            exc = "SystemExit"
        except Exception as e:  # noqa
            exc = type(e).__name__
        finally:
            signal.setitimer(signal.ITIMER_REAL, 0)
            signal.signal(signal.SIGALRM, old)
        out, errs = cap.take()
    diags = proto.diags_of(errs)
    _LAST["line"] = w_vm(vm, out, diags)
    return snapshot(vm, out, diags, vm.settings.warning_count - before), exc


def default_settings_objects():
    """Every function default in hera that is a Settings instance (shared mutable default)."""
    import hera.vm, hera.loader, hera.checker, hera.parser, hera.data as D
    res = []
    for mod in (hera.vm, hera.loader, hera.checker, hera.parser):
        for name, obj in vars(mod).items():
            fns = []
            if inspect.isfunction(obj):
                fns.append((name, obj))
            elif inspect.isclass(obj) and obj.__module__ == mod.__name__:
                fns += [(name + "." + n, f) for n, f in vars(obj).items() if inspect.isfunction(f)]
            for fname, f in fns:
                for d in (f.__defaults__ or ()) + tuple((f.__kwdefaults__ or {}).values()):
                    if isinstance(d, D.Settings):
                        res.append((mod.__name__ + "." + fname, d))
    return res


def check(seed, n, thorough):
    import hera.vm as V
    import hera.data as D
    rng = random.Random(seed)
    violations, disagreements = [], []
    evals = 0
    defaults = default_settings_objects()
    base = [(name, copy.deepcopy(vars(d))) for name, d in defaults]
    progs = []
    for k in range(n):
        text, feats = proggen.generate(seed * 31337 + k, wild=(k % 5 == 0), size=rng.choice([4, 8, 14]), same_line=True)
        st = progrun.make_settings()
        prog, out, errs, exc = progrun.load(text, st)
        if prog is None:
            continue
        mon = progrun.monitor_run(prog, progrun.make_settings(), 2500)
        if mon["problem"] or not mon["ended"]:
            continue
        progs.append((text, prog, mon["steps"]))
    # runs that end by leaving the program at its front: a taken relative branch whose literal offset overshoots
    # instruction 0 by 1 .. (length of the program) and beyond, with instructions after it that must not be executed
    n_generated = len(progs)
    for before in range(0, 4):
        for over in (1, 2, 3, 4, 5, 6, 9):
            lines = ["SETLO(R{}, {})".format(1 + j, 1 + j) for j in range(before)] + ["SETLO(R7, 1)", "BNZR({})".format(-(before + 1 + over)),
                                                                                   "SETLO(R2, 7)", "print_reg(R2)", "FON(2)"]
            text = "\n".join(lines) + "\n"
            prog, out, errs, exc = progrun.load(text, progrun.make_settings())
            if prog is None:
                continue
            mon = progrun.monitor_run(prog, progrun.make_settings(), 2500)
            if mon["problem"] or not mon["ended"]:
                continue
            progs.append((text, prog, mon["steps"]))
    # programs whose operations act on the machine through Python (`__eval`, the Python-backed library functions): state kept
    # on the operation objects between runs would show here
    for text in STATEFUL_EVAL_PROGRAMS:
        prog, out, errs, exc = progrun.load(text, progrun.make_settings())
        if prog is None:
            continue
        mon = progrun.monitor_run(prog, progrun.make_settings(), 2500)
        if mon["problem"] or not mon["ended"]:
            continue
        progs.append((text, prog, mon["steps"]))
    reqs, metas = [], []
    for i, (text, prog, steps) in enumerate(progs):
        case = {"text": text}
        proto.sample("isolation", {"text": text[:400], "steps": steps})
        # repeatability and isolation
        fresh, e0 = run_on(V.VirtualMachine(progrun.make_settings()), prog)
        # the unthrottled run against the step-by-step reference (its own loop: stop when halted or pc outside 0..len-1)
        mon0 = progrun.monitor_run(prog, progrun.make_settings(), steps + 5)
        evals += 1
        if e0 == "Hang":
            violations.append({"property": "C15", "stream": "isolation", "sig": "unthrottled-hang", "case": {"text": text, "unthrottled": True},
                               "what": "the unthrottled run does not return although executing the program instruction by instruction "
                                       "ends after {} instructions".format(steps)})
            continue
        if mon0["ended"] and not mon0["problem"]:
            exp0 = snapshot(mon0["vm"], mon0["stdout"], mon0["diags"], mon0["vm"].settings.warning_count)
            if fresh != exp0:
                violations.append({"property": "C15", "stream": "isolation", "sig": "unthrottled", "case": {"text": text, "unthrottled": True},
                                   "what": "the unthrottled run of a {}-instruction run does not end in the state that executing the "
                                           "program instruction by instruction (until it halts or pc leaves the program) ends in".format(steps)})
        # a Program object that has been run before against the same text loaded afresh (new operation objects)
        prog_new = progrun.load(text, progrun.make_settings())[0]
        if prog_new is not None:
            ref, e_ref = run_on(V.VirtualMachine(progrun.make_settings()), prog_new)
            evals += 1
            if ref != fresh:
                violations.append({"property": "C15", "stream": "isolation", "sig": "reused-program", "case": {"text": text, "reused": True},
                                   "what": "a loaded program that was run before gives, on a fresh machine, a different state / output than "
                                           "the same text loaded afresh (state kept on the program's operation objects)"})
        vm = V.VirtualMachine(progrun.make_settings())
        a, e1 = run_on(vm, prog)
        b, e2 = run_on(vm, prog)
        evals += 3
        if a != fresh or b != fresh:
            violations.append({"property": "C15", "stream": "isolation", "sig": "repeat", "case": case,
                               "what": "running the same program twice on one machine gives different state/output"})
        other_text, other, _ = progs[(i * 7 + 3) % len(progs)]
        vm2 = V.VirtualMachine(progrun.make_settings())
        run_on(vm2, other)
        c, e3 = run_on(vm2, prog)
        evals += 2
        if c != fresh:
            violations.append({"property": "C15", "stream": "isolation", "sig": "isolation",
                               "case": {"text": text, "before": other_text},
                               "what": "a run on a machine that executed another program before differs from a run on a fresh machine"})
        # attributes that reset() does not know
        extra = set(vars(vm2)) - set(vars(V.VirtualMachine(progrun.make_settings())))
        if extra:
            violations.append({"property": "C15", "stream": "isolation", "sig": "field", "case": case,
                               "what": "machine attributes not covered by reset(): {}".format(sorted(extra))})
        # throttle sweep against the step-by-step prefix states
        points = sorted(set([0, 1, 2, steps - 1, steps, steps + 1, steps + 2] + [rng.randint(0, steps + 2) for _ in range(3 if thorough else 1)]))
        for t in [p for p in points if p >= 0]:
            vmt = V.VirtualMachine(progrun.make_settings(throttle=t))
            snap, e = run_on(vmt, prog)
            line_t = _LAST["line"]
            mon = progrun.monitor_run(prog, progrun.make_settings(throttle=t), t)
            evals += 1
            mon["vm"].op_count = min(t, steps)
            exp = snapshot(mon["vm"], mon["stdout"], mon["diags"], mon["vm"].settings.warning_count)
            if snap != exp or vmt.op_count != min(t, steps):
                violations.append({"property": "C15", "stream": "isolation", "sig": "throttle", "case": {"text": text, "throttle": t},
                                   "what": "--throttle {} of a {}-instruction run: op_count {} / state differs from the unthrottled run after min(n, length) instructions".format(t, steps, vmt.op_count)})
            # throttled runs sequenced on one machine: after another program, and repeated
            vmr = V.VirtualMachine(progrun.make_settings(throttle=t))
            run_on(vmr, other)
            s2, _e = run_on(vmr, prog)
            s3, _e = run_on(vmr, prog)
            evals += 2
            if s2 != snap or s3 != snap:
                violations.append({"property": "C15", "stream": "isolation", "sig": "throttle-seq",
                                   "case": {"text": text, "before": other_text, "throttle": t},
                                   "what": "--throttle {}: a run on a machine that made throttled runs before differs from the same run on a fresh machine".format(t)})
            if not progrun.has_eval(prog):
                pre = V.VirtualMachine(progrun.make_settings(throttle=t))
                reqs.append("run {} {} {}".format(steps + 5, progrun.w_program(prog), w_vm(pre, as_input=True)))
                metas.append(({"text": text, "throttle": t}, "ok 1 1 " + line_t))
    ans = proto.run_herad(reqs)
    for (case, real), a in zip(metas, ans):
        # the throttled loop may stop with the guard still true: compare everything but the 'finished' flag
        if a.split(" ", 3)[3:] != real.split(" ", 3)[3:]:
            disagreements.append({"stream": "isolation", "case": case, "model": a[:2000], "impl": real[:2000]})
    # API use without explicit settings: two fresh default machines must start alike
    import hera.loader as L
    warn_prog = "SET(R1, 5)\nRETURN(FP_alt, PC_ret)\n"
    counts = []
    for _ in range(2):
        with proto.Capture() as cap:
            try:
                pr = L.load_program(warn_prog)
                vmd = V.VirtualMachine()
                vmd.run(pr)
            except SystemExit:
                pass
            cap.take()
        counts.append((vmd.settings.warning_count, vmd.warning_count))
        evals += 1
    if counts[0] != counts[1]:
        violations.append({"property": "C15", "stream": "isolation", "sig": "default-settings", "case": {"text": warn_prog},
                           "what": "two default-constructed machines running the same program report different warning counts {} "
                                   "(state leaks through a shared default Settings object)".format(counts)})
    after = [(name, vars(d)) for name, d in defaults]
    for (name, b), (_, a) in zip(base, after):
        if a != b:
            diff = {k: (b.get(k), a.get(k)) for k in a if a.get(k) != b.get(k)}
            violations.append({"property": "C15", "stream": "isolation", "sig": "default-arg:" + name, "case": {"function": name},
                               "what": "shared default Settings() of {} changed during runs: {}".format(name, diff)})
    fr = check_files(seed + 5, 200 if thorough else 24, [t for t, _p, _s in progs[:n_generated]])
    evals += fr["evaluations"]
    violations += fr["violations"]
    return {"evaluations": evals, "violations": violations, "disagreements": disagreements, "programs": len(progs),
            "file_sequences": fr["distinct"]}




# ---------------------------------------------------------------------------------------------------------
# process level: `main` called several times in one process on files whose content changes between the calls

def main_on(path, root, extra=(), limit=10):
    import signal
    import hera.main as M
    from .dbg import Hang, _alarm
    with proto.Capture() as cap:
        code = 0
        old = signal.signal(signal.SIGALRM, _alarm)
        signal.setitimer(signal.ITIMER_REAL, limit)
        try:
            M.main(["--no-color"] + list(extra) + [path])
        except Hang:
            code = "does not return"
        except SystemExit as e:
            code = e.code or 0
        except BaseException as e:  # noqa
            code = "raised " + type(e).__name__
        finally:
            signal.setitimer(signal.ITIMER_REAL, 0)
            signal.signal(signal.SIGALRM, old)
        out, errs = cap.take()
    if code == "does not return":
        return (code, "", "")
    return (code, out.replace(root, "<D>"), "\n".join(errs).replace(root, "<D>"))


def write_files(d, files):
    import os
    os.makedirs(d, exist_ok=True)
    for name, text in files.items():
        with open(os.path.join(d, name), "w") as f:
            f.write(text)


def file_sequence_problem(steps):
    """steps: [{file name: text}] - successive contents of one directory, `main.hera` is run after each change.
    Every run must equal the run of the same files in a directory that no earlier call has seen."""
    import os, shutil, tempfile
    top = tempfile.mkdtemp(prefix="hera_verif_iso_")
    try:
        shared = os.path.join(top, "shared")
        current = {}
        for i, files in enumerate(steps):
            current.update(files)
            write_files(shared, files)
            got = main_on(os.path.join(shared, "main.hera"), shared)
            fresh = os.path.join(top, "fresh{}".format(i))
            write_files(fresh, current)
            want = main_on(os.path.join(fresh, "main.hera"), fresh)
            if want[0] == "does not return":
                return None          # the files themselves make a program that loops: no verdict from this sequence
            if got != want:
                part = ["exit status", "standard output", "standard error"][[a != b for a, b in zip(got, want)].index(True)]
                return ("run #{} of main.hera in one process, after {} changed on disk, differs from the run of the same files "
                        "in a fresh place ({}): {!r} vs {!r}").format(i + 1, sorted(files), part, str(got[1] + got[2])[-70:], str(want[1] + want[2])[-70:])
        return None
    finally:
        shutil.rmtree(top, ignore_errors=True)


def check_files(seed, n, texts):
    rng = random.Random(seed)
    violations, evals, seen = [], 0, set()
    if not texts:
        return {"evaluations": 0, "violations": [], "distinct": 0}
    for k in range(n):
        a, b = rng.choice(texts), rng.choice(texts)
        lib = lambda j: "SET(R10, {})\nprint_reg(R10)\n".format(j)   # noqa
        inc = '#include "lib.hera"\n'
        form = k % 4
        if form == 0:      # the program file itself is rewritten
            steps = [{"main.hera": a}, {"main.hera": b}, {"main.hera": a}]
        elif form == 1:    # an included file is rewritten, the including file stays
            steps = [{"main.hera": inc + a, "lib.hera": lib(1)}, {"lib.hera": lib(2)}, {"lib.hera": "SET(R10, 3)\nFOO(1)\n"}, {"lib.hera": lib(1)}]
        elif form == 2:    # a file with an error is repaired
            steps = [{"main.hera": "SET(R1, 1)\nFOO(R1)\n"}, {"main.hera": b}]
        else:              # the same program twice, then another
            steps = [{"main.hera": a}, {}, {"main.hera": inc + b, "lib.hera": lib(k)}]
        r = file_sequence_problem(steps)
        evals += len(steps) * 2
        seen.add(repr(steps))
        if r:
            violations.append({"property": "C15", "stream": "files", "sig": "files:{}".format(form), "case": {"file_steps": steps}, "what": r})
    return {"evaluations": evals, "violations": violations, "distinct": len(seen)}


def replay_case(case):
    """Re-run one recorded case against the real code; returns a description if it still fails."""
    import hera.vm as V
    if "file_steps" in case:
        return file_sequence_problem(case["file_steps"])
    if "text" not in case:
        base = [(name, copy.deepcopy(vars(d))) for name, d in default_settings_objects()]
        check(0, 3, False)
        for (name, b), (_, d) in zip(base, default_settings_objects()):
            if vars(d) != b:
                return "shared default Settings() of {} changed during runs".format(name)
        return None
    prog, out, errs, exc = progrun.load(case["text"], progrun.make_settings())
    if prog is None:
        return None
    other = None
    if case.get("before"):
        other = progrun.load(case["before"], progrun.make_settings())[0]
    t = case.get("throttle")
    mk = (lambda: progrun.make_settings(throttle=t)) if t is not None else progrun.make_settings
    if case.get("reused"):
        run_on(V.VirtualMachine(progrun.make_settings()), prog)
        again, _e = run_on(V.VirtualMachine(progrun.make_settings()), prog)
        ref, _e = run_on(V.VirtualMachine(progrun.make_settings()), progrun.load(case["text"], progrun.make_settings())[0])
        return None if again == ref else "a loaded program that was run before behaves differently from the same text loaded afresh"
    fresh, e0 = run_on(V.VirtualMachine(mk()), prog)
    if case.get("unthrottled") and e0 == "Hang":
        return "the unthrottled run does not return"
    if case.get("unthrottled"):
        mon0 = progrun.monitor_run(prog, progrun.make_settings(), 100000)
        if mon0["ended"] and not mon0["problem"]:
            exp0 = snapshot(mon0["vm"], mon0["stdout"], mon0["diags"], mon0["vm"].settings.warning_count)
            if fresh != exp0:
                return "the unthrottled run differs from executing the program instruction by instruction"
        return None
    vm = V.VirtualMachine(mk())
    if other is not None:
        run_on(vm, other)
    a, _ = run_on(vm, prog)
    b, _ = run_on(vm, prog)
    if a != fresh:
        return "run after another run differs from a run on a fresh machine"
    if b != fresh:
        return "repeated run differs"
    extra = set(vars(vm)) - set(vars(V.VirtualMachine(mk())))
    if extra:
        return "machine attributes not covered by reset(): {}".format(sorted(extra))
    if t is not None:
        mon0 = progrun.monitor_run(prog, progrun.make_settings(), 100000)
        steps = mon0["steps"]
        vmt = V.VirtualMachine(progrun.make_settings(throttle=t))
        snap, e = run_on(vmt, prog)
        mon = progrun.monitor_run(prog, progrun.make_settings(throttle=t), t)
        mon["vm"].op_count = min(t, steps)
        exp = snapshot(mon["vm"], mon["stdout"], mon["diags"], mon["vm"].settings.warning_count)
        if snap != exp or vmt.op_count != min(t, steps):
            return "--throttle {} of a {}-instruction run differs from the unthrottled prefix".format(t, steps)
    if case["text"].startswith("SET(R1, 5)\nRETURN"):
        import hera.loader as L
        counts = []
        for _ in range(2):
            with proto.Capture() as cap:
                try:
                    vmd = V.VirtualMachine()
                    vmd.run(L.load_program(case["text"]))
                except SystemExit:
                    pass
                cap.take()
            counts.append((vmd.settings.warning_count, vmd.warning_count))
        if counts[0] != counts[1]:
            return "default-constructed machines differ: {}".format(counts)
    return None
