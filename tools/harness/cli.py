"""
Stream for C18: argument vectors through the real `hera.main.main` in-process (stdin = given text, cwd = a scratch
directory with a fixed set of input files), against
  * the contract oracle: exit status in {0, 1, 3}, never an exception; status 1 = message on stderr, nothing on
    stdout, no file created; status 3 = message on stderr; program output on stdout, diagnostics and the state dump
    on stderr; files written by `assemble` = its --stdout output;
  * the Lean model of parse_args (herad `cliargs`): same classification / same settings.
"""
import io
import os
import random
import shutil
import sys
import tempfile

from . import proto

FILES = {
    "ok.hera": 'SET(R1, 5)\nprint_reg(R1)\nprintln("hi")\nINC(R1, 1)\n',
    "data.hera": 'DLABEL(d)\nINTEGER(7)\nLP_STRING("ab")\nSET(R1, d)\nLOAD(R2, 0, R1)\n',
    "loop.hera": "LABEL(a)\nINC(R1, 1)\nBR(a)\n",
    "warn.hera": "SET(R1, 5)\nRETURN(FP_alt, PC_ret)\nSET(R2, 08)\n",
    "bad.hera": "SET(R1, )\nFOO(3)\nADD(R1, R2)\n",
    "badtype.hera": "SET(R17, 5)\nINC(R1, 100)\n",
    "empty.hera": "",
    "interrupt.hera": "SWI(3)\nRTI()\n",
    "include.hera": '#include "ok.hera"\nSET(R3, 1)\n',
    "badinclude.hera": '#include "nosuch.hera"\n',
    "hex.txt": "e105\nf100\nzz\n0000\n2200\nffff0\n\n",
    "nonascii.hera": None,     # written as bytes
    "-dash.hera": "SET(R1, 1)\n",
    "incnotdir.hera": '#include "ok.hera/inner.hera"\nSET(R1, 1)\n',
    "inclong.hera": '#include "' + "n" * 300 + '.hera"\n',
    "incloop.hera": '#include "selfloop.hera"\n',
    "--throttle=5": "SET(R1, 1)\n",      # file names that look like flags: legal after `--`
    "--quiet": "SET(R1, 2)\n",
}
# programs that load and run without any error or warning
GOOD = ["ok.hera", "data.hera", "empty.hera", "-dash.hera", "--throttle=5", "--quiet", "include.hera"]
AFTER_DASHES = ["--throttle=5", "--quiet", "--init=r1=5", "--throttle=abc", "--foo", "-dash.hera", "ok.hera", "--", "debug"]
SUBCOMMANDS = ["debug", "assemble", "preprocess", "disassemble"]
FLAGS = ["--big-stack", "--code", "--credits", "--data", "--help", "--no-color", "--no-debug-ops", "--obfuscate", "--quiet", "--stdout",
         "--verbose", "--version", "--warn-octal-off", "--warn-return-off", "-h", "-v", "-q"]
VALUE_FORMS = [["--throttle", "5"], ["--throttle=5"], ["--throttle", "0"], ["--throttle=0"], ["--throttle=abc"], ["--throttle="],
               ["--throttlex"], ["--throttle"], ["--throttle", "-3"], ["--throttle=-3"], ["--throttle", "abc"], ["--throttle=1_0"],
               ["--throttle", "٣"], ["--throttle= 5"], ["--throttle=5", "--throttle", "7"],
               ["--init", "r1=5"], ["--init=r1=5,r2=7"], ["--init=r1=5, r2=0x10"], ["--initx"], ["--init="], ["--init"], ["--init", "r0=1"],
               ["--init=r1=70000"], ["--init=r1=-1"], ["--init", "rx=5"], ["--init=r1"], ["--init=R15=0b11,FP=3"], ["--init", "--init"]]
UNKNOWN = ["--foo", "-x", "--", "-", "--big-stackx", "---", "--no-colour", "-hq", "run", "--Help"]
# unreadable in every way open() can fail: missing, a directory, a path through a regular file, an over-long name, a symlink loop
PATHS = [f for f in FILES if f != "loop.hera"] + ["missing.hera", "adir", "ok.hera.lcode", "sub/../ok.hera", "", "ok.hera/inner.hera",
                                                  "n" * 300 + ".hera", "selfloop.hera"]


def setup_dir():
    d = tempfile.mkdtemp(prefix="hera_verif_cli_")
    for name, text in FILES.items():
        p = os.path.join(d, name)
        if text is None:
            with open(p, "wb") as f:
                f.write(b"SET(R1, 5)\n// caf\xc3\xa9\n")
        else:
            with open(p, "w") as f:
                f.write(text)
    os.makedirs(os.path.join(d, "adir"))
    os.makedirs(os.path.join(d, "sub"))
    os.makedirs(os.path.join(d, "blocked.hera.lcode"))   # a directory where an output file would go
    with open(os.path.join(d, "blocked.hera"), "w") as f:
        f.write("SET(R1, 1)\n")
    os.symlink("selfloop.hera", os.path.join(d, "selfloop.hera"))
    return d


def gen_argv(rng):
    k = rng.random()
    parts = []
    if k < 0.5:
        if rng.random() < 0.6:
            parts.append([rng.choice(SUBCOMMANDS)])
        for _ in range(rng.choice([0, 0, 1, 1, 2, 3])):
            j = rng.random()
            if j < 0.5:
                parts.append([rng.choice(FLAGS)])
            elif j < 0.85:
                parts.append(list(rng.choice(VALUE_FORMS)))
            else:
                parts.append([rng.choice(UNKNOWN)])
        n_paths = rng.choice([1, 1, 1, 1, 0, 2])
        for _ in range(n_paths):
            parts.append([rng.choice(PATHS + ["blocked.hera"])])
        rng.shuffle(parts)
        if rng.random() < 0.1:
            parts.insert(rng.randrange(len(parts) + 1), ["--"])
        elif rng.random() < 0.1:
            # everything after `--` is a path, whatever it looks like
            parts = [p for p in parts if p[0] not in PATHS and p[0] != "blocked.hera"] + [["--"], [rng.choice(AFTER_DASHES)]]
    else:
        # compatible, meaningful invocations
        mode = rng.choice(["", "assemble", "preprocess", "disassemble", "debug"])
        if mode:
            parts.append([mode])
        opts = {"": ["--big-stack", "--warn-return-off", "--quiet", "--verbose", "--no-debug-ops", "--no-color", "--warn-octal-off"],
                "assemble": ["--big-stack", "--code", "--data", "--stdout", "--no-color"], "preprocess": ["--obfuscate", "--no-color"],
                "disassemble": ["--no-color"], "debug": ["--big-stack", "--warn-return-off", "--no-color"]}[mode]
        for o in opts:
            if rng.random() < 0.35:
                parts.append([o])
        if mode == "" and rng.random() < 0.8:
            parts.append(list(rng.choice([["--throttle", "50"], ["--throttle=50"], ["--throttle=3"]])))
        if mode in ("", "debug") and rng.random() < 0.3:
            parts.append(["--init=r1=5,r2=7"])
        throttled = any(a.startswith("--throttle") for p in parts for a in p)
        parts.append([rng.choice(["hex.txt"] if mode == "disassemble" else PATHS + ["blocked.hera"] + (["loop.hera"] * 3 if throttled else []))])
    argv = [a for p in parts for a in p]
    return argv


def run_real(argv, d, stdin_text=""):
    """Returns dict(code, out, err, exc, created)."""
    import hera.main as M
    before = set(os.listdir(d))
    cwd = os.getcwd()
    os.chdir(d)
    code, exc = 0, None
    saved_in = sys.stdin
    sys.stdin = io.StringIO(stdin_text)
    import signal
    from .dbg import Hang, _alarm
    with proto.Capture() as cap:
        old = signal.signal(signal.SIGALRM, _alarm)
        signal.setitimer(signal.ITIMER_REAL, 10)
        try:
            M.main(list(argv))
        except SystemExit as e:
            code = 0 if e.code is None else e.code
        except Hang:
            exc = "Hang: no return within 10s"
        except BaseException as e:  # noqa
            exc = type(e).__name__ + ": " + str(e)[:100]
        finally:
            signal.setitimer(signal.ITIMER_REAL, 0)
            signal.signal(signal.SIGALRM, old)
        out, errs = cap.take()
    sys.stdin = saved_in
    os.chdir(cwd)
    created = sorted(set(os.listdir(d)) - before)
    contents = {}
    for c in created:
        p = os.path.join(d, c)
        if os.path.isfile(p):
            with open(p) as f:
                contents[c] = f.read()
            os.remove(p)
    return {"code": code, "out": out, "err": "".join(errs), "exc": exc, "created": created, "contents": contents}


def contract_problem(argv, r, d):
    if r["exc"]:
        return "internal exception (a traceback is shown): " + r["exc"]
    if r["code"] not in (0, 1, 3):
        return "exit status {!r}".format(r["code"])
    if "Traceback (most recent call last)" in r["err"] or "Traceback (most recent call last)" in r["out"]:
        return "a Python traceback is printed"
    # documented contract: before `--`, anything that looks like a flag and is not a known flag or a well-formed
    # --throttle=<digits> / --init=<text> is a usage error
    scan = argv[:argv.index("--")] if "--" in argv else argv
    known = set(FLAGS) | {"--throttle", "--init"}
    i = 0
    bad_flag = None
    words = []          # the arguments that are not the value of a preceding --throttle / --init
    while i < len(scan):
        a = scan[i]
        words.append(a)
        if a in ("--throttle", "--init"):
            if i + 1 >= len(scan) or (a == "--throttle" and not (scan[i + 1].isascii() and scan[i + 1].isdigit())):
                bad_flag = a
                break
            i += 2
            continue
        if a.startswith("-") and len(a) > 1 and a not in known:
            if a.startswith("--throttle=") and a[len("--throttle="):].isascii() and a[len("--throttle="):].isdigit():
                pass
            elif a.startswith("--init="):
                pass
            else:
                bad_flag = a
                break
        i += 1
    if bad_flag is not None and r["code"] != 1 and not any(not a.isascii() for a in argv):
        return "malformed or unknown flag {} but exit status {} (usage errors must end with status 1)".format(bad_flag, r["code"])
    # documented contract: options of one mode are usage errors in another (whatever value they carry)
    if bad_flag is None and all(a.isascii() for a in argv):
        mode = next((m for m in ("debug", "assemble", "preprocess", "disassemble") if m in words), "")
        allowed = {"--throttle": [""], "--init": ["", "debug"], "--code": ["assemble"], "--data": ["assemble"], "--stdout": ["assemble"],
                   "--obfuscate": ["preprocess"]}
        info = any(a in words for a in ("--help", "-h", "--version", "-v", "--credits"))
        for a in words:
            name = a.split("=")[0] if a.startswith(("--throttle=", "--init=")) else a
            if name in allowed and mode not in allowed[name] and not info and r["code"] != 1:
                return "{} is not an option of {} mode but exit status {} (must be a usage error)".format(name, mode or "run", r["code"])
    # documented contract, the other way round, for plain run-mode vectors: only options that every run accepts, well-formed
    # --throttle / --init, and exactly one path (before or after `--`) - this is never a usage error: status 3 when the
    # file does not exist, 0 when it is a program without faults
    if bad_flag is None and all(a.isascii() for a in argv):
        after = argv[argv.index("--") + 1:] if "--" in argv else []
        safe = {"--no-color", "--warn-octal-off", "--quiet", "-q", "--big-stack", "--warn-return-off"}
        plain, positional, j = True, [], 0
        while j < len(scan):
            a = scan[j]
            if a == "--throttle":
                j += 2
                continue
            if a == "--init":
                plain = plain and j + 1 < len(scan) and scan[j + 1] in ("r1=5", "r1=5,r2=7")
                j += 2
                continue
            if a.startswith("--throttle="):
                pass
            elif a.startswith("--init="):
                plain = plain and a in ("--init=r1=5", "--init=r1=5,r2=7")
            elif a.startswith("-") and len(a) > 1:
                plain = plain and a in safe
            else:
                positional.append(a)
            j += 1
        positional += after
        if plain and len(positional) == 1 and positional[0] not in SUBCOMMANDS + ["-", "", "--"]:
            path = positional[0]
            if not os.path.lexists(os.path.join(d, path)) and r["code"] != 3:
                return "the only path {!r} does not exist but the exit status is {} (must be 3)".format(path, r["code"])
            if path in GOOD and r["code"] != 0:
                return "a faultless program {!r} with well-formed options ends with status {} (must be 0)".format(path, r["code"])
    if r["code"] == 1:
        if r["out"]:
            return "usage error (status 1) but something was written to stdout: {!r}".format(r["out"][:60])
        if not r["err"].strip():
            return "usage error (status 1) without a message on stderr"
        if r["created"]:
            return "usage error (status 1) but files were created: {}".format(r["created"])
    if r["code"] == 3 and not r["err"].strip():
        return "status 3 without a message on stderr"
    if "Virtual machine state" in r["out"] or "Warning:" in r["out"] or "Error:" in r["out"]:
        return "diagnostics or the state dump appear on stdout"
    return None


def files_vs_stdout(argv, r, d, stdin_text=""):
    """for a successful `assemble` without --stdout: the files have the content of the --stdout output"""
    if r["code"] != 0 or "assemble" not in argv or "--stdout" in argv or not r["created"]:
        return None
    lcode = [c for c in r["created"] if c.endswith(".lcode")]
    ldata = [c for c in r["created"] if c.endswith(".ldata")]
    if len(lcode) != 1 or len(ldata) != 1:
        return "assemble created {}".format(r["created"])
    base = [a for a in argv if a not in ("--code", "--data")]
    # (flags go in front: after `--` they would be taken as paths)
    # (the same standard input: with `-` as the path the program itself comes from there)
    rc = run_real(["--stdout", "--code"] + base, d, stdin_text)
    rd = run_real(["--stdout", "--data"] + base, d, stdin_text)
    if rc["code"] != 0 or rd["code"] != 0:
        return "assemble succeeds into files but fails with --stdout"
    # (reading the program from stdin prints one separating blank line first, by design)
    if r["contents"][lcode[0]].strip("\n") != rc["out"].strip("\n"):
        return "{} differs from the --stdout --code output".format(lcode[0])
    if r["contents"][ldata[0]].strip("\n") != rd["out"].strip("\n"):
        return "{} differs from the --stdout --data output".format(ldata[0])
    return None


def w_argv(argv):
    return "{} {}".format(len(argv), " ".join(proto.w_str(a) for a in argv))


def real_settings(argv):
    """parse_args alone: the classification and the settings it returns, in the model's rendering"""
    import hera.main as M
    with proto.Capture() as cap:
        try:
            st = M.parse_args(list(argv))
        except SystemExit as e:
            out, errs = cap.take()
            code = 0 if e.code is None else e.code
            return "exit {} {}".format(code, proto.w_str(("".join(errs) if code else out).split("\n")[0]))
        except BaseException as e:  # noqa
            cap.take()
            return "crash " + type(e).__name__
        cap.take()
    thr = -1 if st.throttle is False else int(st.throttle)
    vol = {"quiet": 0, "normal": 1, "verbose": 2}.get(getattr(st, "volume", "normal"), 1) if isinstance(st.volume, str) else int(st.volume)
    return "ok {} {} {} {} {} {} {} {} {} {} {} {} {}".format(
        proto.w_str(st.path), proto.w_str(st.mode), int(bool(st.code)), int(bool(st.data)), int(st.data_start), int(bool(st.no_debug_ops)),
        int(bool(st.obfuscate)), int(bool(st.stdout)), thr, int(bool(st.warn_octal_on)), int(bool(st.warn_return_on)), vol,
        proto.w_list("{} {}".format(a, b) for a, b in st.init)) + " " + str(int(bool(st.color)))


def check(seed, n):
    rng = random.Random(seed)
    d = setup_dir()
    violations, disagreements, seen = [], [], set()
    reqs, reals, cases, mcases = [], [], [], []
    dist = {"status0": 0, "status1": 0, "status3": 0, "modes": {}}
    try:
        for k in range(n):
            argv = gen_argv(rng)
            stdin_text = rng.choice(["", "next\nquit\n", "SET(R1, 1)\n", "continue\n"])
            r = run_real(argv, d, stdin_text)
            seen.add(tuple(argv))
            case = {"argv": argv, "stdin": stdin_text}
            proto.sample("cli", case)
            p = contract_problem(argv, r, d) or files_vs_stdout(argv, r, d, stdin_text)
            if isinstance(r["code"], int) and not r["exc"]:
                dist["status{}".format(r["code"])] = dist.get("status{}".format(r["code"]), 0) + 1
            if p:
                violations.append({"property": "C18", "stream": "cli", "sig": "cli:" + p.split(":")[0][:50], "case": case,
                                   "what": "hera {}: {}".format(" ".join(argv), p)})
            cases.append(case)
            if all(ord(ch) < 128 for a in argv for ch in a):
                # the model covers ASCII argument vectors (str.isdigit is modelled for ASCII)
                reqs.append("cliargs " + w_argv(argv))
                reals.append(real_settings(argv))
                mcases.append(case)
    finally:
        shutil.rmtree(d, ignore_errors=True)
    answers = proto.run_herad(reqs)
    for case, real, ans in zip(mcases, reals, answers):
        if ans != real:
            disagreements.append({"stream": "cliargs", "case": case, "model": ans[:300], "impl": real[:300]})
    return {"evaluations": len(cases), "violations": violations, "disagreements": disagreements, "distribution": dist,
            "distinct": len(seen)}


def replay_case(case):
    d = setup_dir()
    try:
        r = run_real(case["argv"], d, case.get("stdin", ""))
        return contract_problem(case["argv"], r, d) or files_vs_stdout(case["argv"], r, d, case.get("stdin", ""))
    finally:
        shutil.rmtree(d, ignore_errors=True)
