"""
Stream for C10: `hera preprocess` listings fed back through the real CLI.
  * assemble(original) == assemble(listing with headers and index column removed)
  * preprocess(listing) == listing (fixed point)
  * `--obfuscate` output is accepted and assembles to the same code and data
plus correspondence of the string-literal writer and reader with the Lean model (herad `strlit`).
"""
import os
import random
import re
import shutil

from . import asmrun, proggen, proto

INDEX = re.compile(r"^  \d{4,}  ")


def strip_listing(listing):
    out = []
    for l in listing.split("\n"):
        if l.strip() in ("[DATA]", "[CODE]", ""):
            continue
        out.append(INDEX.sub("", l).strip())
    return "\n".join(out) + "\n"


def write_char(rng, c, nxt):
    """one character of a string literal in some spelling the lexer accepts"""
    o = ord(c)
    if c == "\n":
        return "\\n"
    if c == "\t":
        return "\\t"
    if c == "\\":
        return "\\\\"
    if c == '"':
        return '\\"'
    if 32 <= o < 127 and rng.random() < 0.8:
        return c
    if o < 256 and rng.random() < 0.6:
        return "\\x{:02x}".format(o) if rng.random() < 0.5 else "\\x{:02X}".format(o)
    # octal: fewer than three digits only when no digit follows
    s = "{:o}".format(o)
    if len(s) < 3 and (nxt.isdigit() or rng.random() < 0.5):
        s = s.rjust(3, "0")
    return "\\" + s


def gen_string(rng):
    n = rng.choice([0, 1, 2, 3, 5, 9, 20])
    pool = rng.choice(["any", "any", "printable", "control", "high", "digits-after-escape"])
    chars = []
    for _ in range(n):
        if pool == "printable":
            chars.append(chr(rng.randint(32, 126)))
        elif pool == "control":
            chars.append(chr(rng.choice(list(range(0, 32)) + [127])))
        elif pool == "high":
            chars.append(chr(rng.randint(128, 511)))
        elif pool == "digits-after-escape":
            chars.append(rng.choice([chr(rng.randint(0, 511)), chr(rng.choice([0, 1, 7, 8, 27, 63, 64, 127, 255, 256, 511])),
                                     "7", "0", "8", "4", "x", "a", "\\", '"']))
        else:
            chars.append(chr(rng.randint(0, 511)))
    return "".join(chars)


def literal(rng, s):
    return '"' + "".join(write_char(rng, c, s[i + 1] if i + 1 < len(s) else "") for i, c in enumerate(s)) + '"'


def gen_program(rng, seed):
    k = rng.random()
    if k < 0.45:
        # data-heavy program: strings over every writable character, negative and large integers, DSKIP
        lines = []
        for _ in range(rng.choice([1, 2, 4])):
            j = rng.random()
            if j < 0.6:
                lines.append("LP_STRING({})".format(literal(rng, gen_string(rng))))
            elif j < 0.85:
                lines.append("INTEGER({})".format(rng.choice([0, 1, -1, -32768, 65535, 32767, 255, 256, rng.randint(-32768, 65535)])))
            else:
                lines.append("DSKIP({})".format(rng.choice([0, 1, 7, 300])))
        lines.append("DLABEL(endd)")
        lines.append("INTEGER(1)")
        lines.append("SET(R1, endd)")
        lines.append("SETRF(R2, {})".format(rng.choice([-1, 0, 65535, -32768, 300])))
        lines.append("print(\"x\")")
        return "\n".join(lines) + "\n", "data"
    text, feats = proggen.generate(seed, wild=(rng.random() < 0.2), strings_wide=True, size=rng.choice([4, 8, 14]), same_line=True)
    return text, "prog"


def run_case(text, d, big=False, one_op_per_line=False):
    """Returns (problem or None or 'skip')."""
    f1 = os.path.join(d, "a.hera")
    with open(f1, "w") as f:
        f.write(text)
    pre = (["--big-stack"] if big else []) + ["--no-color"]
    c0, asm1, e0, _ = asmrun.real_main(["assemble", "--stdout"] + pre + [f1])
    if c0 != 0:
        return "skip"
    c1, listing, e1, _ = asmrun.real_main(["preprocess"] + pre + [f1])
    if c1 != 0:
        return "accepted by `hera assemble` but `hera preprocess` ends with {}: {}".format(c1, e1[:100])
    f2 = os.path.join(d, "b.hera")
    with open(f2, "w") as f:
        f.write(strip_listing(listing))
    c2, asm2, e2, _ = asmrun.real_main(["assemble", "--stdout"] + pre + [f2])
    if c2 != 0:
        return "the listing is not valid HERA (assemble ends with {}): {}".format(c2, e2.split("\n")[0][:120])
    if asm2 != asm1:
        return "the listing assembles to different code/data than the original: " + first_diff(asm1, asm2)
    c3, listing2, e3, _ = asmrun.real_main(["preprocess"] + pre + [f2])
    if c3 != 0 or listing2 != listing:
        return "preprocessing its own output is not a fixed point: " + first_diff(listing, listing2)
    # debugging operations mean nothing to the listing: deleting them from the input must leave it as it is
    # (line-based deletion: only for programs written with one operation per line)
    stripped = asmrun.strip_debug(text) if one_op_per_line else text
    if stripped != text:
        f4 = os.path.join(d, "d.hera")
        with open(f4, "w") as f:
            f.write(stripped)
        c7, listing3, e7, _ = asmrun.real_main(["preprocess"] + pre + [f4])
        if c7 == 0 and strip_listing(listing3) != strip_listing(listing):
            return "the listing changes when the debugging operations are deleted from the input: " + first_diff(strip_listing(listing), strip_listing(listing3))
    c4, obf, e4, _ = asmrun.real_main(["preprocess", "--obfuscate"] + pre + [f1])
    if c4 != 0:
        return "`preprocess --obfuscate` ends with {}: {}".format(c4, e4[:100])
    f3 = os.path.join(d, "c.hera")
    with open(f3, "w") as f:
        f.write(obf)
    c5, asm3, e5, _ = asmrun.real_main(["assemble", "--stdout"] + pre + [f3])
    if c5 != 0:
        return "the --obfuscate form is not accepted (assemble ends with {}): {}".format(c5, e5.split("\n")[0][:120])
    if asm3 != asm1:
        return "the --obfuscate form encodes a different program: " + first_diff(asm1, asm3)
    # the obfuscated form must also be accepted where it will be run
    c6, o6, e6, _ = asmrun.real_main(["preprocess"] + pre + [f3])
    if c6 != 0:
        return "the --obfuscate form is not accepted by preprocess: " + e6.split("\n")[0][:120]
    return None


def first_diff(a, b):
    la, lb = a.split("\n"), b.split("\n")
    for i, (x, y) in enumerate(zip(la, lb)):
        if x != y:
            return "line {}: {!r} vs {!r}".format(i + 1, x[:70], y[:70])
    return "lengths {} vs {}".format(len(la), len(lb))


def symbol_operand_programs():
    """every kind of symbol (constant, label, data label; positive, negative, large) used *directly* as an operand of data
    statements and of real operations: the listing must print it as a number the lexer reads back"""
    head = "CONSTANT(N, 4)\nCONSTANT(NEG, -7)\nCONSTANT(BIG, 40000)\nCONSTANT(ONE, 1)\nCONSTANT(TOP, 65535)\n"
    out = []
    for data in ("INTEGER(N)\n", "INTEGER(NEG)\n", "INTEGER(BIG)\nINTEGER(TOP)\n", "DSKIP(N)\nDLABEL(d)\nINTEGER(ONE)\n", "DLABEL(d)\nDSKIP(ONE)\nINTEGER(N)\n"):
        for code in ("SET(R1, N)\n", "SETLO(R1, N)\nSETHI(R1, ONE)\n", "INC(R1, N)\nDEC(R2, ONE)\n", "LOAD(R2, N, R1)\nSTORE(R2, ONE, R1)\n",
                     "SET(R3, NEG)\nSET(R4, BIG)\nSET(R5, TOP)\n", "FON(N)\nFOFF(ONE)\nFSET5(N)\nFSET4(ONE)\n", "BRR(ONE)\nNOP()\n",
                     "SETLO(R1, NEG)\n", "LABEL(l)\nSET(R1, l)\nBR(l)\n", "SET(R6, 'a')\nSETLO(R7, 'b')\n"):
            out.append(head + data + code)
    out.append(head + "DLABEL(d)\nINTEGER(N)\nSET(R1, d)\nSETLO(R2, N)\nLOAD(R3, N, R1)\n")
    return out


def check(seed, n):
    rng = random.Random(seed)
    violations, evals, dist, seen = [], 0, {"data": 0, "prog": 0}, set()
    d = asmrun.scratch_dir()
    try:
        planned = asmrun.debug_runs() + symbol_operand_programs()
        for k in range(n + len(planned)):
            if k < len(planned):
                text, kind = planned[k], "prog"
            else:
                text, kind = gen_program(rng, seed * 2003 + k)
            big = False   # --big-stack is not accepted in preprocess mode
            r = run_case(text, d, big, one_op_per_line=(k < len(planned)))
            proto.sample("roundtrip", {"text": text})
            if r == "skip":
                continue
            evals += 1
            dist[kind] += 1
            seen.add((text, big))
            if r:
                violations.append({"property": "C10", "stream": "roundtrip", "sig": "rt:" + r.split(":")[0][:50],
                                   "case": {"text": text, "big_stack": big, "one_op_per_line": k < len(planned)}, "what": r})
    finally:
        shutil.rmtree(d, ignore_errors=True)
    return {"evaluations": evals, "violations": violations, "disagreements": [], "distribution": dist, "distinct": len(seen)}


# ---------------------------------------------------------------------------------------------------------
# string literal writer / reader vs the Lean model

def real_write(s):
    """the string literal as listings print it: through the operation's own __str__"""
    import hera.op as O
    from hera.data import Token
    text = str(O.name_to_class["LP_STRING"](Token(Token.STRING, s)))
    assert text.startswith("LP_STRING(") and text.endswith(")")
    return text[len("LP_STRING("):-1]


def check_strings(seed, n):
    rng = random.Random(seed)
    reqs, metas, violations = [], [], []
    for k in range(n):
        s = gen_string(rng)
        w = real_write(s)
        reqs.append("strwrite " + proto.w_str(s))
        metas.append(("write", s, proto.w_str(w)))
        # the property at the level of one literal: what the listing prints must read back as the same string
        from hera.lexer import Lexer as _L
        from hera.data import Token as _T
        back = _L(w + ")").tkn
        if back.type != _T.STRING or back.value != s:
            violations.append({"property": "C10", "stream": "strlit", "sig": "strlit:readback",
                               "case": {"text": "LP_STRING({})\nSET(R1, 1)\n".format(literal(random.Random(0), s)), "string": [ord(c) for c in s]},
                               "what": "the string {!r} is printed as {} which the lexer reads back as {!r}".format(
                                   s, w, back.value if back.type == _T.STRING else back.type)})
        # reading: the writer's output, the generator's spellings, and damaged literals
        j = k % 3
        lit = w if j == 0 else literal(rng, s)
        if j == 2 and lit:
            i = rng.randrange(len(lit))
            lit = lit[:i] + rng.choice(["\\", '"', "x", "9", "\\x", "\\8", ""]) + lit[i + rng.choice([0, 1]):]
        tail = rng.choice(["", ")", " // c", "\n"])
        text = lit + tail
        from hera.lexer import Lexer
        from hera.data import Token
        lx = Lexer(text)
        t = lx.tkn
        if t.type == Token.STRING:
            real = "ok {} {}".format(proto.w_str(t.value), len(lx.messages.warnings))
        else:
            real = "err"
        reqs.append("strread " + proto.w_str(text))
        metas.append(("read", text, real))
    answers = proto.run_herad(reqs)
    disagreements = []
    for (kind, inp, real), ans in zip(metas, answers):
        if ans != real:
            disagreements.append({"stream": "strlit", "case": {"kind": kind, "input": inp}, "model": ans[:300], "impl": real[:300]})
    return {"evaluations": len(reqs), "violations": violations, "disagreements": disagreements,
            "distinct": len({(m[0], m[1]) for m in metas})}
