"""
Stream for C14 (expression language): generated expression trees are rendered to text in many spellings, parsed
and evaluated by the real debugger; compared with
  * the model (`herad miniparse` / `minieval` on the real lexer's tokens): correspondence of parser + evaluator,
  * the specification (`herad specexpr` on the generated tree): oracle for value / error kind,
  * the generated tree itself: oracle for the parser (precedence, associativity, parentheses).
"""
import random

from . import dbg, proto

BOUNDARY = [0, 1, 2, 3, 7, 100, 255, 256, 32767, 32768, 65535, 65536, 65537, 70000, 1000000]
REG_SPELL = {0: ["R0", "r0"], 1: ["R1", "r1"], 2: ["R2"], 3: ["R3", "r3"], 7: ["R7"], 10: ["R10", "r10"], 11: ["Rt", "rt", "RT", "R11"],
             12: ["FP_alt", "fp_alt", "R12"], 13: ["PC_ret", "pc_ret", "R13"], 14: ["FP", "fp", "R14"], 15: ["SP", "sp", "R15"]}
# (zero-valued symbols included: a label at instruction 0, a constant 0 and a constant defined by it are falsy ints)
SYMS = ["top", "dat", "K1", "KN", "nosuch", "x_1", "pc", "PC", "Pc", "K0", "KA", "start", "KMAX", "KMIN"]
PREC = {"+": 1, "-": 1, "*": 2, "/": 2}

PROGRAM = """
CONSTANT(K1, 300)
CONSTANT(KN, -5)
CONSTANT(K0, 0)
CONSTANT(KA, K0)
CONSTANT(KMAX, 65535)
CONSTANT(KMIN, -32768)
DLABEL(dat)
INTEGER(17)
INTEGER(-2)
INTEGER(65535)
LABEL(start)
SET(R1, 40000)
SET(R2, -7)
SET(R3, 3)
SET(R7, 0xC001)
SET(R10, 255)
SET(R11, 0x8000)
SET(R12, 2)
SET(R13, 65535)
SET(R14, 1)
LABEL(top)
SET(R15, 0xFFFE)
STORE(R1, 0, R15)
STORE(R2, 1, R15)
SET(R4, 100)
STORE(R3, 0, R4)
NOP()
HALT()
"""


def gen_tree(rng, depth):
    k = rng.random()
    if depth <= 0 or k < 0.3:
        j = rng.random()
        if j < 0.5:
            v = rng.choice(BOUNDARY) if rng.random() < 0.6 else rng.randint(0, 70000)
            return ("lit", v)
        if j < 0.8:
            return ("reg", rng.choice(list(REG_SPELL)))
        return ("sym", rng.choice(SYMS))
    if k < 0.42:
        return ("neg", gen_tree(rng, depth - 1))
    if k < 0.52:
        return ("deref", gen_tree(rng, depth - 1))
    return ("bin", rng.choice("+-*/"), gen_tree(rng, depth - 1), gen_tree(rng, depth - 1))


BOUNDARY_LEAVES = [("lit", v) for v in (0, 1, 2, 3, 255, 256, 32767, 32768, 32769, 40000, 65534, 65535)] + \
    [("neg", ("lit", v)) for v in (1, 2, 3, 256, 32767, 32768)] + [("reg", 13), ("reg", 11), ("reg", 1), ("sym", "KN"), ("sym", "K1")]


def boundary_pairs():
    """every operator on every pair of boundary operands (values at and around the ends of -32768..65535, +-1, +-2):
    the results sweep across both ends of the range"""
    for op in "+-*/":
        for a in BOUNDARY_LEAVES:
            for b in BOUNDARY_LEAVES:
                yield ("bin", op, a, b)
    for a in BOUNDARY_LEAVES:
        yield ("neg", a)
        yield ("deref", a)


def render_lit(rng, v):
    k = rng.random()
    if k < 0.5:
        return str(v)
    if k < 0.75:
        return rng.choice(["0x{:x}", "0X{:X}", "0x{:04x}"]).format(v)
    if k < 0.87:
        return rng.choice(["0b{:b}", "0B{:b}"]).format(v)
    return rng.choice(["0o{:o}", "0O{:o}"]).format(v)


def render(rng, t, ctx=0, right=False):
    """Minimal parentheses by the usual conventions (left associative; prefix binds tightest) plus random redundant ones."""
    kind = t[0]
    sp = rng.choice(["", "", " "])
    if kind == "lit":
        s = render_lit(rng, t[1])
    elif kind == "reg":
        s = rng.choice(REG_SPELL[t[1]])
    elif kind == "sym":
        s = t[1]
    elif kind == "neg":
        s = "-" + sp + render(rng, t[1], 3)
    elif kind == "deref":
        s = "@" + sp + render(rng, t[1], 3)
    else:
        op, l, r = t[1], t[2], t[3]
        q = PREC[op]
        s = render(rng, l, q, False) + sp + op + sp + render(rng, r, q, True)
        if q < ctx or (q == ctx and right):
            return "(" + sp + s + sp + ")"
    if rng.random() < 0.08:
        return "(" + s + ")"
    return s


def w_tree(t):
    """generated tree -> protocol form of Expr.E"""
    kind = t[0]
    if kind == "lit":
        return "l {}".format(t[1])
    if kind == "reg":
        return "r {}".format(t[1])
    if kind == "sym":
        return "y " + proto.w_str(t[1])
    if kind == "neg":
        return "n " + w_tree(t[1])
    if kind == "deref":
        return "d " + w_tree(t[1])
    return "b {} {} {}".format("+-*/".index(t[1]), w_tree(t[2]), w_tree(t[3]))


def node_of_tree(t):
    """the miniparser node that the generated tree denotes, in herad's node syntax"""
    kind = t[0]
    if kind == "lit":
        return "i {}".format(t[1])
    if kind == "reg":
        return "r {}".format(t[1])
    if kind == "sym":
        return "y " + proto.w_str(t[1])
    if kind == "neg":
        return "p " + node_of_tree(t[1])
    if kind == "deref":
        return "m " + node_of_tree(t[1])
    return "x {} {} {}".format(proto.w_str(t[1]), node_of_tree(t[2]), node_of_tree(t[3]))


def w_real_node(n):
    from hera.debugger import miniparser as MP
    if isinstance(n, MP.IntNode):
        return "i {}".format(n.value)
    if isinstance(n, MP.RegisterNode):
        return "r {}".format(n.value)
    if isinstance(n, MP.SymbolNode):
        return "y " + proto.w_str(n.value)
    if isinstance(n, MP.MemoryNode):
        return "m " + w_real_node(n.address)
    if isinstance(n, MP.PrefixNode):
        return "p " + w_real_node(n.arg)
    if isinstance(n, MP.InfixNode):
        return "x {} {} {}".format(proto.w_str(n.op), w_real_node(n.left), w_real_node(n.right))
    raise TypeError(type(n))


TAGS = None


def real_tokens(text):
    """The real lexer's token sequence in protocol form."""
    global TAGS
    from hera.lexer import Lexer
    from hera.data import Token
    if TAGS is None:
        TAGS = {Token.PLUS: "P", Token.MINUS: "M", Token.ASTERISK: "T", Token.SLASH: "D", Token.AT: "A", Token.LPAREN: "L",
                Token.RPAREN: "Q", Token.COMMA: "C", Token.EOF: "E"}
    lx = Lexer(text)
    out = []
    for _ in range(len(text) + 2):
        t = lx.tkn
        if t.type == Token.INT:
            out.append("I " + proto.w_str(t.value))
        elif t.type == Token.REGISTER:
            out.append("R " + proto.w_str(t.value))
        elif t.type == Token.SYMBOL:
            out.append("Y " + proto.w_str(t.value))
        elif t.type == Token.FMT:
            out.append("F " + proto.w_str(t.value))
        elif t.type in TAGS:
            out.append(TAGS[t.type])
        else:
            out.append("O")
        if t.type == Token.EOF:
            break
        lx.next_token()
    return "{} {}".format(len(out), " ".join(out))


def deep_texts():
    out = []
    for m in (50, 98, 99, 100, 101, 150):
        out += ["1" + "+1" * m, "1" + "*R1" * m, "-" * m + "1", "@" * m + "0", "(" * m + "1" + ")" * m, "1" + "+(1" * m + ")" * m,
                "R1" + "-1" * m + ", 2", "1" + "/1" * m + "+" + "2*" * m + "3", "(" * (m // 2) + "1" + "+1)" * (m // 2)]
    return out


def real_parse(text):
    from hera.debugger import miniparser as MP
    try:
        tree = MP.parse(text)
    except SyntaxError:
        return "err syntax", None
    except Exception as e:  # noqa
        return "crash " + type(e).__name__, None
    return "ok {} {} {}".format(proto.w_str(tree.fmt), len(tree.seq), " ".join(w_real_node(n) for n in tree.seq)).rstrip(), tree


def err_kind(msg):
    if "exceeds 16 bits" in msg:
        return "literal"
    if "is not defined" in msg:
        return "undefined"
    if "division by zero" in msg:
        return "divzero"
    if "overflow" in msg:
        return "overflow"
    return "other:" + msg[:40]


def real_eval(shell, tree):
    from hera.data import HERAError
    outs = []
    for n in tree.seq:
        try:
            v = shell.evaluate_node(n)
            outs.append("v {}".format(int(v)))
        except HERAError as e:
            outs.append("e " + err_kind(str(e)))
        except Exception as e:  # noqa
            outs.append("crash " + type(e).__name__)
    return "ok {} {}".format(len(outs), " ".join(outs))


def env_words(shell):
    vm = shell.debugger.vm
    regs = " ".join(str(int(r)) for r in vm.registers)
    image = [(a, int(v)) for a, v in enumerate(vm.memory) if v != 0]
    syms = [(k, int(v)) for k, v in shell.debugger.symbol_table.items()]
    return "{} {} {} {} {} {}".format(regs, int(vm.pc), len(image), " ".join("{} {}".format(a, v) for a, v in image),
                                      len(syms), " ".join("{} {}".format(proto.w_str(k), v) for k, v in syms))


MALFORMED = ["", "1+", "+1", "(1", "1)", "1 2", "()", "@", "-", "1,,2", ",", "1,", ":d", ":d 1", ":x 1, 2", ": 1", "0x", "0xg", "0b2", "0o8",
             "09", "007", "1_0", "R16", "R99", "r1r", "'a'", "\"s\"", "1 + * 2", "((((1))))", "1 ; 2", "#", "1 // 2", "a.b", "@@1", "--1",
             "- - 1", "@-1", "-@1", "1--1", "1+-1", "1*-1", "1/-1", "(1)(2)", "1(2)", "R1 R2", "{1}", "<x>", "1 #include", "$", "0x10000",
             "0xFFFFFFFFFFFF", "99999999999999999999", "1 -1", "1- 1", ":d"]


def check(seed, n, herad_path=None):
    rng = random.Random(seed)
    shell, st = dbg.make_shell(PROGRAM)
    assert shell is not None, st
    states = []
    requests, meta = [], []
    # three debugger states: at the start, in the middle, at the end
    envs = []
    for steps in (0, 12, 40):
        for _ in range(steps - (envs and 0 or 0)):
            pass
    dist = {"parse_ok": 0, "parse_err": 0, "value": 0, "literal": 0, "undefined": 0, "overflow": 0, "divzero": 0, "depth": {}, "malformed": 0}
    items = []
    stage_cmds = [[], ["next 12"], ["continue"]]
    for stage, cmds in enumerate(stage_cmds):
        for c in cmds:
            dbg.feed(shell, c)
        env = env_words(shell)
        pairs = list(boundary_pairs()) if stage == 1 else []
        deep = deep_texts() if stage == 0 else []
        for k in range(n // 3 + len(pairs) + len(deep)):
            j = rng.random()
            if k >= n // 3 + len(pairs):
                # chains and nestings around the depth that the parser refuses (MAX_DEPTH = 100)
                trees = None
                text = deep[k - n // 3 - len(pairs)]
                dist["deep"] = dist.get("deep", 0) + 1
            elif k >= n // 3:
                # the exhaustive boundary family, sometimes embedded in a larger expression
                t = pairs[k - n // 3]
                if k % 4 == 3:
                    t = ("bin", rng.choice("+*"), t, ("lit", rng.choice([0, 1, 65535])))
                trees = [t]
                text = render(rng, t)
                dist["boundary"] = dist.get("boundary", 0) + 1
            elif j < 0.8:
                depth = rng.choice([0, 1, 2, 3, 4, 6])
                trees = [gen_tree(rng, depth) for _ in range(rng.choice([1, 1, 1, 2, 3]))]
                text = rng.choice(["", "", ":d ", ":x ", ":bods "]) + rng.choice([", ", ",", " , "]).join(render(rng, t) for t in trees)
                dist["depth"][depth] = dist["depth"].get(depth, 0) + 1
            elif j < 0.9:
                trees = None
                text = rng.choice(MALFORMED)
                dist["malformed"] += 1
            else:
                trees = None
                text = "".join(rng.choice("0123456789xXbRrSPpc+-*/@(), :_\t") for _ in range(rng.choice([1, 2, 3, 5, 8])))
                dist["malformed"] += 1
            rp, tree = real_parse(text)
            toks = real_tokens(text)
            item = dict(stage=stage, text=text, trees=trees, real_parse=rp)
            if k % 211 == 0:
                proto.sample("expr", {"stage": stage, "text": text, "parse": rp[:200]}, per_stream=4)
            requests.append("miniparse " + toks)
            meta.append((item, "parse"))
            if tree is not None:
                item["real_eval"] = real_eval(shell, tree)
                requests.append("minieval {} {}".format(env, toks))
                meta.append((item, "eval"))
            if trees is not None:
                requests.append("specexpr {} {} {}".format(env, len(trees), " ".join(w_tree(t) for t in trees)))
                meta.append((item, "spec"))
            items.append(item)
    answers = proto.run_herad(requests)
    disagreements, violations = [], []
    for (item, kind), ans in zip(meta, answers):
        item[kind] = ans
    for item in items:
        rp = item["real_parse"]
        if rp.startswith("crash"):
            violations.append(dict(what="miniparser.parse crashed on {!r}: {}".format(item["text"], rp), sig="expr-parse-crash", stream="expr", case=item))
            continue
        if item["parse"] != rp:
            disagreements.append(dict(what="parser model differs", stream="expr", case=item))
        dist["parse_ok" if rp.startswith("ok") else "parse_err"] += 1
        if "real_eval" in item:
            if "crash" in item["real_eval"]:
                violations.append(dict(what="evaluate_node crashed on {!r}: {}".format(item["text"], item["real_eval"]), sig="expr-eval-crash", stream="expr", case=item))
            elif item["eval"] != item["real_eval"]:
                disagreements.append(dict(what="evaluator model differs", stream="expr", case=item))
        if item["trees"] is not None:
            # oracle 1: the parser returns the tree that was rendered
            want = " ".join(node_of_tree(t) for t in item["trees"])
            got = rp.split(" ", 2)
            fmt_len = int(rp.split()[1]) if rp.startswith("ok") else 0
            body = " ".join(rp.split()[2 + fmt_len:]) if rp.startswith("ok") else rp
            if body != "{} {}".format(len(item["trees"]), want):
                violations.append(dict(what="{!r} does not parse to the tree that was written (precedence / associativity / "
                                       "parentheses): got {}".format(item["text"], body), sig="expr-tree", stream="expr", case=item))
            # oracle 2: the value is the specification's
            elif item.get("real_eval") != item["spec"]:
                violations.append(dict(what="{!r} at stage {}: debugger gives {}, arithmetic gives {}".format(item["text"], item["stage"], item.get("real_eval"), item["spec"]), sig="expr-value", stream="expr", case=item))
            else:
                for o in item["spec"].split()[2:]:
                    if o in dist:
                        dist[o] += 1
                    elif o == "v":
                        dist["value"] += 1
    return dict(evaluations=len(items), disagreements=disagreements, violations=violations, distribution=dist,
                distinct=len({(it["stage"], it["text"]) for it in items if len(it["text"].strip()) > 1}))


STAGE_CMDS = [[], ["next 12"], ["next 12", "continue"]]


def replay_case(case):
    """Re-run one recorded expression against the real debugger and the specification."""
    shell, st = dbg.make_shell(PROGRAM)
    for c in STAGE_CMDS[case["stage"]]:
        dbg.feed(shell, c)
    rp, tree = real_parse(case["text"])
    if rp.startswith("crash"):
        return rp
    if case.get("trees") is None:
        return None
    trees = [tuple_tree(t) for t in case["trees"]]
    want = "{} {}".format(len(trees), " ".join(node_of_tree(t) for t in trees))
    fmt_len = int(rp.split()[1]) if rp.startswith("ok") else 0
    body = " ".join(rp.split()[2 + fmt_len:]) if rp.startswith("ok") else rp
    if body != want:
        return "parses to {} instead of {}".format(body, want)
    ev = real_eval(shell, tree)
    spec = proto.run_herad(["specexpr {} {} {}".format(env_words(shell), len(trees), " ".join(w_tree(t) for t in trees))])[0]
    if ev != spec:
        return "debugger gives {}, arithmetic gives {}".format(ev, spec)
    return None


def tuple_tree(t):
    return tuple(tuple_tree(x) if isinstance(x, list) else x for x in t)
