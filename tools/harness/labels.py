"""
Streams for C04: where labels, data labels and constants end up, in every mode.
 - placement oracle (Spec): Sig.envAt (herad `sigenv`) vs the real symbol table
 - marker oracle (implementation only): every label is followed by SET(R10, k); the label's value must be the index of
   that marker's first instruction in the final code, in run / debug / assemble / preprocess mode
 - data oracle: the cell a data label names holds the data that was declared after it
 - relative-branch oracle: accepted iff the distance fits -128..127, and then the operand is the distance
"""
import random
import re

from . import chk, proto, proggen, progrun
from .proto import w_list

MODES = ["", "debug", "assemble", "preprocess"]


def expected_data_layout(text, data_start):
    """Independent reading of the source: address of each data label and the cells laid out."""
    consts, addr, cells, dc = {}, {}, {}, data_start
    for line in text.split("\n"):
        line = line.split("//")[0].strip()
        m = re.match(r"^CONSTANT\((\w+),\s*(-?\w+)\)$", line)
        if m:
            consts[m.group(1)] = int(m.group(2), 0)
            continue
        m = re.match(r"^DLABEL\((\w+)\)$", line)
        if m:
            addr[m.group(1)] = dc
            continue
        m = re.match(r"^INTEGER\((-?\w+)\)$", line)
        if m:
            cells[dc] = int(m.group(1), 0) % 65536
            dc += 1
            continue
        m = re.match(r'^LP_STRING\("(.*)"\)$', line, re.S)
        if m:
            s = m.group(1).encode().decode("unicode_escape") if "\\" in m.group(1) else m.group(1)
            cells[dc] = len(s)
            for i, c in enumerate(s):
                cells[dc + 1 + i] = ord(c)
            dc += len(s) + 1
            continue
        m = re.match(r"^DSKIP\((\w+)\)$", line)
        if m:
            v = m.group(1)
            dc += consts[v] if v in consts else int(v, 0)
    return addr, cells


def check_programs(seed, n):
    import hera.vm as V
    import hera.data as D
    rng = random.Random(seed)
    violations, reqs, metas = [], [], []
    evals = 0
    for k in range(n):
        text, feats = proggen.generate(seed * 424243 + k, wild=False, opcode=(k % 2 == 0))
        big = k % 3 == 0
        per_mode = {}
        for mode in MODES:
            st = progrun.make_settings(mode=mode, big_stack=big)
            res, oplist, prog, pm, exc = chk.real_check(text, st)
            if res is None or prog is None:
                continue
            evals += 1
            case = {"text": text, "mode": mode, "big_stack": big}
            line, src = res
            reqs.append("sigenv " + src)
            tab = prog.symbol_table
            metas.append((case, " ".join([str(len(tab))] + ["{} {}".format(chk.w_key(a), chk.w_symval(b)) for a, b in tab.items()])))
            # marker oracle
            lines = [l.split("//")[0].strip() for l in text.split("\n")]
            for i, l in enumerate(lines):
                m = re.match(r"^LABEL\((\w+)\)$", l)
                if m and i + 1 < len(lines):
                    mk = re.match(r"^SET\(R10, (\d+)\)$", lines[i + 1])
                    if not mk:
                        continue
                    name, val = m.group(1), int(mk.group(1))
                    idx = tab.get(name)
                    ok = (isinstance(idx, D.Label) and idx + 1 < len(prog.code)
                          and prog.code[idx].name == "SETLO" and prog.code[idx].args == [10, val & 0xFF]
                          and prog.code[idx + 1].name == "SETHI" and prog.code[idx + 1].args == [10, val >> 8])
                    if not ok:
                        violations.append({"property": "C04", "stream": "labels", "sig": "code-label:" + (mode or "run"), "case": case,
                                           "what": "label {} = {} does not denote the instruction that follows it (marker {}) in {} mode".format(
                                               name, idx, val, mode or "run")})
                        break
            per_mode[mode] = {k2: int(v2) for k2, v2 in tab.items() if isinstance(v2, D.Label)}
            # data oracle
            addr, cells = expected_data_layout(text, st.data_start)
            for name, a in addr.items():
                if tab.get(name) != a or not isinstance(tab.get(name), D.DataLabel):
                    violations.append({"property": "C04", "stream": "labels", "sig": "data-label", "case": case,
                                       "what": "data label {} = {} but the next data cell is at {}".format(name, tab.get(name), a)})
                    break
            if mode == "":
                vm = V.VirtualMachine(progrun.make_settings(big_stack=big))
                vm.reset()
                for d in prog.data:
                    d.execute(vm)
                for a, v in cells.items():
                    got = vm.memory[a] if a < len(vm.memory) else 0
                    if got != v:
                        violations.append({"property": "C04", "stream": "labels", "sig": "data-cell", "case": case,
                                           "what": "memory[{}] = {} after the data statements, expected {}".format(a, got, v)})
                        break
                # the same through the entry points that users reach: the interpreter's run (cut after one instruction) and
                # the debugger's start-up and restart
                import hera.debugger as DBG
                entry = []
                with proto.Capture() as cap:
                    try:
                        vmr = V.VirtualMachine(progrun.make_settings(big_stack=big, throttle=1))
                        vmr.run(prog)
                        if not prog.code or prog.code[0].name != "STORE":
                            entry.append(("hera (run)", vmr))
                        dbg = DBG.Debugger(prog, progrun.make_settings(mode="debug", big_stack=big))
                        entry.append(("hera debug (start-up)", dbg.vm))
                        dbg.reset()
                        entry.append(("hera debug (restart)", dbg.vm))
                    except BaseException as e:  # noqa
                        entry = []
                    cap.take()
                for how, m in entry:
                    bad = next(((a, v, m.memory[a] if a < len(m.memory) else 0) for a, v in cells.items()
                                if (m.memory[a] if a < len(m.memory) else 0) != v), None)
                    if bad:
                        violations.append({"property": "C04", "stream": "labels", "sig": "data-cell-entry", "case": case,
                                           "what": "{}: memory[{}] = {} after the data segment was laid out, the program puts {} there "
                                                   "(where its data labels point)".format(how, bad[0], bad[2], bad[1])})
                        break
        # the modes agree: run = debug, assemble = preprocess
        if "" in per_mode and "debug" in per_mode and per_mode[""] != per_mode["debug"]:
            violations.append({"property": "C04", "stream": "labels", "sig": "modes", "case": {"text": text},
                               "what": "code labels differ between run and debug mode"})
        if "assemble" in per_mode and "preprocess" in per_mode and per_mode["assemble"] != per_mode["preprocess"]:
            violations.append({"property": "C04", "stream": "labels", "sig": "modes", "case": {"text": text},
                               "what": "code labels differ between assemble and preprocess mode"})
    ans = proto.run_herad(reqs)
    for (case, real), a in zip(metas, ans):
        if sorted_tab(a) != sorted_tab(real):
            violations.append({"property": "C04", "stream": "labels", "sig": "placement-spec", "case": case,
                               "what": "symbol table differs from the placement specification: spec {} / checker {}".format(a[:300], real[:300])})
    return {"evaluations": evals, "violations": violations, "disagreements": []}


def sorted_tab(line):
    toks = line.split()
    # entries are not fixed-width (strings are length-prefixed); compare as multisets of entry strings
    out, i = [], 1
    while i < len(toks):
        if toks[i] == "S":
            n = int(toks[i + 1])
            ent = toks[i:i + 2 + n + 2]
            i += 2 + n + 2
        else:
            ent = toks[i:i + 4]
            i += 4
        out.append(" ".join(ent))
    return sorted(out)


def check_relative(seed, n):
    """Relative branches to labels at distances around the limits, with pseudo-ops and debugging ops in between."""
    rng = random.Random(seed)
    violations = []
    evals = 0
    fillers = [("NOP()", 1), ("SET(R1, 5)", 2), ("CMP(R1, R2)", 2), ("NOT(R1, R2)", 3), ("SETRF(R1, 7)", 4),
               ("print_reg(R1)", None), ("ADD(R1,R1,R1)", 1), ("NEG(R1, R2)", 2)]
    for k in range(n):
        want = rng.choice([-130, -129, -128, -127, -126, -2, -1, 0, 1, 2, 126, 127, 128, 129, 130])
        body, count_run, count_asm = [], 0, 0
        target = abs(want)
        while count_asm < target:
            f, ln = rng.choice(fillers)
            if ln is None:
                body.append(f)
                count_run += 1
                continue
            if count_asm + ln > target:
                f, ln = "NOP()", 1
            body.append(f)
            count_asm += ln
            count_run += ln
        br = rng.choice(["BRR", "BNZR", "BLR"])
        for mode in MODES:
            dist = (count_asm if mode in ("assemble", "preprocess") else count_run)
            if want >= 0:
                text = "{}(lab)\n".format(br) + "\n".join(body[: max(0, len(body))]) + "\nLABEL(lab)\nSET(R10, 7)\n"
                # the branch itself counts as one instruction before the label
                exp = (dist + 1) if body or True else 1
                text = "{}(lab)\n".format(br) + ("\n".join(body) + "\n" if body else "") + "LABEL(lab)\nSET(R10, 7)\n"
                exp = dist + 1
            else:
                text = "LABEL(lab)\nSET(R10, 7)\n" + ("\n".join(body) + "\n" if body else "") + "{}(lab)\n".format(br)
                exp = -(dist + 2)
            st = progrun.make_settings(mode=mode)
            res, oplist, prog, pm, exc = chk.real_check(text, st)
            if res is None:
                continue
            evals += 1
            accepted = prog is not None
            should = -128 <= exp <= 127
            case = {"text": text, "mode": mode, "exp": exp, "br": br, "forward": want >= 0}
            if accepted != should:
                violations.append({"property": "C04", "stream": "relative", "sig": "rel-accept:" + (mode or "run"), "case": case,
                                   "what": "relative branch over a distance of {} is {} in {} mode".format(exp, "accepted" if accepted else "rejected", mode or "run")})
            elif accepted:
                ops = [prog.code[0] if want >= 0 else prog.code[-1]]
                if ops[0].name != br or ops[0].args[0] != exp:
                    violations.append({"property": "C04", "stream": "relative", "sig": "rel-operand:" + (mode or "run"), "case": case,
                                       "what": "relative branch to a label {} instructions away got operand {} in {} mode".format(
                                           exp, ops[0].args[0] if ops else None, mode or "run")})
    return {"evaluations": evals, "violations": violations, "disagreements": []}


def replay_case(stream, case):
    """Re-evaluate one recorded case against the real checker (and the placement specification)."""
    import hera.data as D
    if stream == "relative":
        st = progrun.make_settings(mode=case.get("mode", ""))
        res, oplist, prog, pm, exc = chk.real_check(case["text"], st)
        if res is None:
            return None
        accepted = prog is not None
        exp = case["exp"]
        if accepted != (-128 <= exp <= 127):
            return "relative branch over a distance of {} is {}".format(exp, "accepted" if accepted else "rejected")
        if accepted:
            op = prog.code[0] if case.get("forward", True) else prog.code[-1]
            if op.name != case["br"] or op.args[0] != exp:
                return "relative branch to a label {} instructions away got operand {}".format(exp, op.args[0])
        return None
    text, mode, big = case["text"], case.get("mode", ""), case.get("big_stack", False)
    if "mode" not in case:
        tabs = {}
        for m in MODES:
            st = progrun.make_settings(mode=m, big_stack=big)
            res, oplist, prog, pm, exc = chk.real_check(text, st)
            if prog is not None:
                tabs[m] = {k: int(v) for k, v in prog.symbol_table.items() if isinstance(v, D.Label)}
        if "" in tabs and "debug" in tabs and tabs[""] != tabs["debug"]:
            return "code labels differ between run and debug mode"
        if "assemble" in tabs and "preprocess" in tabs and tabs["assemble"] != tabs["preprocess"]:
            return "code labels differ between assemble and preprocess mode"
        return None
    st = progrun.make_settings(mode=mode, big_stack=big)
    res, oplist, prog, pm, exc = chk.real_check(text, st)
    if res is None or prog is None:
        return None
    tab = prog.symbol_table
    lines = [l.split("//")[0].strip() for l in text.split("\n")]
    for i, l in enumerate(lines):
        m = re.match(r"^LABEL\((\w+)\)$", l)
        if m and i + 1 < len(lines):
            mk = re.match(r"^SET\(R10, (\d+)\)$", lines[i + 1])
            if not mk:
                continue
            name, val = m.group(1), int(mk.group(1))
            idx = tab.get(name)
            ok = (isinstance(idx, D.Label) and idx + 1 < len(prog.code)
                  and prog.code[idx].name == "SETLO" and prog.code[idx].args == [10, val & 0xFF]
                  and prog.code[idx + 1].name == "SETHI" and prog.code[idx + 1].args == [10, val >> 8])
            if not ok:
                return "label {} = {} does not denote the instruction that follows it".format(name, idx)
    addr, cells = expected_data_layout(text, st.data_start)
    for name, a in addr.items():
        if tab.get(name) != a or not isinstance(tab.get(name), D.DataLabel):
            return "data label {} = {} but the next data cell is at {}".format(name, tab.get(name), a)
    if mode == "":
        import hera.vm as V
        import hera.debugger as DBG
        with proto.Capture() as cap:
            try:
                vmr = V.VirtualMachine(progrun.make_settings(big_stack=big, throttle=1))
                vmr.run(prog)
                dbg = DBG.Debugger(prog, progrun.make_settings(mode="debug", big_stack=big))
                ms = ([vmr] if not prog.code or prog.code[0].name != "STORE" else []) + [dbg.vm]
            except BaseException:  # noqa
                ms = []
            cap.take()
        for m in ms:
            for a0, v in cells.items():
                if (m.memory[a0] if a0 < len(m.memory) else 0) != v:
                    return "memory[{}] after the data segment was laid out differs from what the program puts there".format(a0)
    line, src = res
    a = proto.run_herad(["sigenv " + src])[0]
    real = " ".join([str(len(tab))] + ["{} {}".format(chk.w_key(x), chk.w_symval(y)) for x, y in tab.items()])
    if sorted_tab(a) != sorted_tab(real):
        return "symbol table differs from the placement specification"
    return None
